package batchrepr

import (
	"bytes"
	"testing"

	"github.com/cockroachdb/pebble/verifharness/evid"
)

func str(s string) []byte { return []byte(s) }

func demo(cons string, small bool, seq uint64, count uint32, entries ...Entry) Plan {
	return Plan{Mode: "bytes", Src: "demo", Cons: cons, Small: small, Force: true, Data: refEncode(seq, count, entries)}
}

// known lists one or two minimal demonstrations per known-finding signature.
func known() []evid.Known[Plan] {
	big := bytes.Repeat([]byte("v"), 300)
	return []evid.Known[Plan]{
		// replayIngestedFlushable: a record that is not an ingest kind after an IngestSST.
		{Signature: sigIngestReplay, Plan: demo("wal", false, 100, 2,
			Entry{Kind: kIngestSST, Key: []byte{9}}, Entry{Kind: kSet, Key: str("a"), Value: str("v")})},
		// replayIngestedFlushable: empty file number.
		{Signature: sigIngestReplay, Plan: demo("wal", false, 100, 1, Entry{Kind: kIngestSST, Key: nil})},
		// memTable.apply: IngestSST after a Set.
		{Signature: sigIngestMem, Plan: demo("wal", false, 100, 2,
			Entry{Kind: kSet, Key: str("a"), Value: str("v")}, Entry{Kind: kIngestSST, Key: []byte{9}})},
		// RANGEKEYSET whose value has no decodable end key: replay accepts it, the
		// first reader (or the flush, on a background goroutine) panics.
		{Signature: sigRangeKeyValue, Plan: demo("wal", false, 100, 1,
			Entry{Kind: kRangeKeySet, Key: str("a"), Value: []byte{200}})},
		// RANGEKEYSET with a suffix length beyond the value in a large batch:
		// newFlushableBatch -> rangekey.Decode slices out of range inside Open.
		{Signature: sigRangeKeyValue, Plan: demo("wal", true, 100, 6,
			Entry{Kind: kSet, Key: str("a"), Value: big}, Entry{Kind: kSet, Key: str("b"), Value: big},
			Entry{Kind: kSet, Key: str("c"), Value: big}, Entry{Kind: kSet, Key: str("d"), Value: big},
			Entry{Kind: kSet, Key: str("e"), Value: big},
			Entry{Kind: kRangeKeySet, Key: str("a"), Value: []byte{1, 'b', 100, 'x'}})},
		// Batch.Apply onto a DB batch: ingest kind.
		{Signature: sigApplyIngest, Plan: demo("apply", false, 0, 1, Entry{Kind: kIngestSST, Key: []byte{9}})},
		// DB.Apply: header count larger than the number of records.
		{Signature: sigDBApplyCount, Plan: demo("dbapply", false, 0, 3, Entry{Kind: kSet, Key: str("a"), Value: str("v")})},
	}
}

func TestC31(t *testing.T) {
	evid.Run(t, evid.Spec[Plan]{
		ID: "C31", Level: "exploration",
		Rule: "rapid draws either an operation sequence (0-40 ops over all batch kinds incl. DeleteSized, range keys, LogData, deferred ops; " +
			"built directly, via SetRepr and via Apply of 1-4 chunks onto plain/DB/indexed batches; sorted iteration of the flushable and indexed batch vs a memtable " +
			"skiplist and a sorted/fragmented model; 9% also replay the batches from a hand-framed WAL through memtable, flushable-batch and flush paths and DB.Apply) " +
			"or a byte string (random / assembled record by record with lying length fields, odd kinds, bad counts, malformed range-key values / byte-mutated valid repr) " +
			"fed to one consumer group (reader+SetRepr+plain Apply, Apply onto DB/indexed batch, flushable batch, WAL replay, DB.Apply). " +
			"Non-trivial: ops plan with >=3 kinds incl. a range op; byte string longer than the header with a plausible count (<= bytes after the header) of which the reference decodes >=1 record. " +
			"distinct = hash of the plan JSON",
		Assumptions: []string{
			"the batch wire format is the one documented in batch.go (\"Internal representation\") and internal/rangekey's package doc; the reference codec is written from those",
			"varints that are non-canonical or wider than 32 bits, and SETWITHDEL records, are implementation-defined: only memory safety / no panic is required for them",
			"private.BatchSort panicking with an error value is its documented way to report newFlushableBatch's error; runtime errors are genuine panics",
			"inputs that could panic on a background flush goroutine are only replayed read-only (the panic then surfaces on the calling goroutine at the first read)",
			"stores use the default comparer and merger on vfs.NewMem",
		},
		Gen: gen, Exec: exec,
		Quick: 8000, Thorough: 100000,
		Known: known(),
		Sample: func(p Plan) any {
			if p.Mode == "ops" {
				ks := make([]string, 0, len(p.Ops))
				for i, op := range p.Ops {
					if i == 12 {
						ks = append(ks, "...")
						break
					}
					ks = append(ks, kindName(op.K))
				}
				return map[string]any{"mode": "ops", "tgt": p.Tgt, "apply_tgt": p.ApplyTgt, "chunks": p.Chunks, "wal": p.WAL != nil, "ops": ks}
			}
			d := p.Data
			if len(d) > 96 {
				d = d[:96]
			}
			return map[string]any{"mode": "bytes", "src": p.Src, "cons": p.Cons, "len": len(p.Data), "data_prefix": d}
		},
	})
}

// ---- native fuzz targets (thorough tier; run with
// `go test -tags verif -run '^$' -fuzz FuzzC31Reader -fuzztime 3m ./comp/batchrepr/`) ----

func fuzzSeeds(f *testing.F) {
	f.Add([]byte{})
	f.Add(make([]byte, hdrLen))
	f.Add(refEncode(100, 2, []Entry{{Kind: kSet, Key: str("a"), Value: str("v")}, {Kind: kDelete, Key: str("b")}}))
	f.Add(refEncode(100, 3, []Entry{
		{Kind: kRangeKeySet, Key: str("a"), Value: appendVarstr(appendVarstr(appendVarstr(nil, str("c")), str("@1")), str("x"))},
		{Kind: kDeleteSized, Key: str("k"), Value: []byte{5}},
		{Kind: kLogData, Key: bytes.Repeat([]byte("l"), 200)},
		{Kind: kRangeDelete, Key: str("a"), Value: str("b")}}))
	f.Add(refEncode(100, 1, []Entry{{Kind: kIngestSST, Key: []byte{9}}}))
	f.Add(refEncode(100, 1, []Entry{{Kind: kRangeKeySet, Key: str("a"), Value: []byte{200}}}))
}

func fuzzRun(t *testing.T, data []byte, cons ...string) {
	for _, c := range cons {
		out, err := exec(Plan{Mode: "bytes", Src: "fuzz", Cons: c, Data: data})
		if err != nil && out.Excluded == "" {
			t.Fatalf("C31 violated (consumer %s): %v", c, err)
		}
	}
}

// FuzzC31Reader: batchrepr.Reader / ReadHeader / SetRepr / plain Apply.
func FuzzC31Reader(f *testing.F) {
	fuzzSeeds(f)
	f.Fuzz(func(t *testing.T, data []byte) { fuzzRun(t, data, "reader") })
}

// FuzzC31SetRepr: SetRepr followed by the validating consumers (Apply onto a
// DB / indexed batch, flushable batch construction).
func FuzzC31SetRepr(f *testing.F) {
	fuzzSeeds(f)
	f.Fuzz(func(t *testing.T, data []byte) { fuzzRun(t, data, "reader", "apply", "flushable") })
}
