package batchrepr

import (
	"bytes"
	"encoding/binary"
	"errors"
	"fmt"
	"io"
	"runtime"
	"runtime/debug"
	"strings"
	"sync"
	"unsafe"

	"github.com/cockroachdb/pebble"
	"github.com/cockroachdb/pebble/batchrepr"
	"github.com/cockroachdb/pebble/internal/arenaskl"
	"github.com/cockroachdb/pebble/internal/base"
	"github.com/cockroachdb/pebble/internal/keyspan"
	"github.com/cockroachdb/pebble/internal/private"
	"github.com/cockroachdb/pebble/record"
	"github.com/cockroachdb/pebble/verifharness/evid"
	"github.com/cockroachdb/pebble/vfs"
)

// Known-finding signatures (one per panic site / root cause).
const (
	sigIngestReplay  = "wal-replay-ingestsst-panic"               // DB.replayIngestedFlushable assertion panics
	sigIngestMem     = "wal-replay-ingest-kind-in-memtable-panic" // memTable.apply panics on an ingest/excise record
	sigRangeKeyValue = "wal-replay-rangekeyset-bad-value-panic"   // undecodable RANGEKEYSET/UNSET value
	sigApplyIngest   = "batch-apply-ingest-kind-panic"            // Batch.Apply panics on an ingest/excise record
	sigDBApplyCount  = "db-apply-count-mismatch-fatal"            // DB.Apply: header count mismatch ends in Logger.Fatalf
)

// ---- environment ----------------------------------------------------------

type fatalPanic struct{ msg string }

type quietLogger struct{}

func (quietLogger) Infof(string, ...interface{})  {}
func (quietLogger) Errorf(string, ...interface{}) {}
func (quietLogger) Fatalf(f string, a ...interface{}) {
	// The default logger exits the process; make it observable instead.
	panic(fatalPanic{fmt.Sprintf(f, a...)})
}

// bigMem: a MemTableSize whose large-batch threshold (half of it) is far above
// any generated batch, so replay applies batches to a memtable.
const bigMem = 1 << 20

var (
	envOnce     sync.Once
	sharedDB    *pebble.DB // only used to create batches that "belong to a DB"; nothing is committed to it
	sharedCache *pebble.Cache
	tmplFiles   map[string][]byte // a freshly created and cleanly closed store
	tmplLog     string            // name of its (empty) WAL file
	tmplLogNum  uint64
)

func dbOptions(fs vfs.FS, readOnly bool, memSize uint64) *pebble.Options {
	return &pebble.Options{
		FS:                          fs,
		FormatMajorVersion:          pebble.FormatNewest,
		Logger:                      quietLogger{},
		ReadOnly:                    readOnly,
		MemTableSize:                memSize,
		DisableAutomaticCompactions: true,
		Cache:                       sharedCache,
	}
}

func initEnv() {
	envOnce.Do(func() {
		sharedCache = pebble.NewCache(4 << 20)
		var err error
		sharedDB, err = pebble.Open("shared", dbOptions(vfs.NewMem(), false, bigMem))
		if err != nil {
			panic(err)
		}
		fs := vfs.NewMem()
		db, err := pebble.Open("db", dbOptions(fs, false, bigMem))
		if err != nil {
			panic(err)
		}
		if err := db.Close(); err != nil {
			panic(err)
		}
		names, err := fs.List("db")
		if err != nil {
			panic(err)
		}
		tmplFiles = map[string][]byte{}
		for _, n := range names {
			f, err := fs.Open("db/" + n)
			if err != nil {
				panic(err)
			}
			b, err := io.ReadAll(f)
			f.Close()
			if err != nil {
				panic(err)
			}
			tmplFiles[n] = b
			if strings.HasSuffix(n, ".log") {
				var num uint64
				if _, err := fmt.Sscanf(n, "%d.log", &num); err == nil && num >= tmplLogNum {
					tmplLog, tmplLogNum = n, num
				}
			}
		}
		if tmplLog == "" {
			panic("template store has no WAL file")
		}
	})
}

// newStore materialises the template store, optionally replacing its WAL.
func newStore(wal []byte) vfs.FS {
	initEnv()
	fs := vfs.NewMem()
	if err := fs.MkdirAll("db", 0o755); err != nil {
		panic(err)
	}
	for n, b := range tmplFiles {
		if n == tmplLog && wal != nil {
			b = wal
		}
		f, err := fs.Create("db/"+n, vfs.WriteCategoryUnspecified)
		if err != nil {
			panic(err)
		}
		if _, err := f.Write(b); err != nil {
			panic(err)
		}
		if err := f.Close(); err != nil {
			panic(err)
		}
	}
	return fs
}

// frameWAL frames records with record.LogWriter (valid chunk headers and CRCs).
func frameWAL(records [][]byte) []byte {
	initEnv()
	var buf bytes.Buffer
	w := record.NewLogWriter(&buf, base.DiskFileNum(tmplLogNum), record.LogWriterConfig{
		WriteWALSyncOffsets: func() bool { return true },
	})
	for _, r := range records {
		if _, err := w.WriteRecord(r); err != nil {
			panic(err)
		}
	}
	if err := w.Close(); err != nil {
		panic(err)
	}
	return buf.Bytes()
}

func clone(b []byte) []byte {
	c := make([]byte, len(b)) // exact capacity: an over-read would trip a bounds check
	copy(c, b)
	return c
}

func withSeq(repr []byte, seq uint64) []byte {
	c := clone(repr)
	binary.LittleEndian.PutUint64(c[:8], seq)
	return c
}

// guard runs f converting a panic into (panicValue, stack).
func guard(f func() error) (err error, pv any, stack string) {
	defer func() {
		if r := recover(); r != nil {
			pv, stack = r, string(debug.Stack())
		}
	}()
	return f(), nil, ""
}

func panicErr(where string, pv any, stack string) error {
	if len(stack) > 2400 {
		stack = stack[:2400] + "..."
	}
	return fmt.Errorf("%s panicked instead of returning an error: %v\n%s", where, pv, stack)
}

func newBatch(flavour string) *pebble.Batch {
	initEnv()
	switch flavour {
	case "plain":
		return &pebble.Batch{}
	case "db":
		return sharedDB.NewBatch()
	case "indexed":
		return sharedDB.NewIndexedBatch()
	}
	panic("bad flavour " + flavour)
}

// applyOp performs one operation through the public Batch API.
func applyOp(b *pebble.Batch, op Op) error {
	fill := func(d *pebble.DeferredBatchOp, k, v []byte) error {
		copy(d.Key, k)
		copy(d.Value, v)
		return d.Finish()
	}
	switch op.K {
	case kSet:
		if op.Def {
			return fill(b.SetDeferred(len(op.Key), len(op.Val)), op.Key, op.Val)
		}
		return b.Set(op.Key, op.Val, nil)
	case kMerge:
		if op.Def {
			return fill(b.MergeDeferred(len(op.Key), len(op.Val)), op.Key, op.Val)
		}
		return b.Merge(op.Key, op.Val, nil)
	case kDelete:
		if op.Def {
			return fill(b.DeleteDeferred(len(op.Key)), op.Key, nil)
		}
		return b.Delete(op.Key, nil)
	case kSingleDelete:
		if op.Def {
			return fill(b.SingleDeleteDeferred(len(op.Key)), op.Key, nil)
		}
		return b.SingleDelete(op.Key, nil)
	case kDeleteSized:
		if op.Def {
			d := b.DeleteSizedDeferred(len(op.Key), op.Size)
			copy(d.Key, op.Key)
			return d.Finish()
		}
		return b.DeleteSized(op.Key, op.Size, nil)
	case kRangeDelete:
		if op.Def {
			return fill(b.DeleteRangeDeferred(len(op.Key), len(op.Val)), op.Key, op.Val)
		}
		return b.DeleteRange(op.Key, op.Val, nil)
	case kRangeKeyDelete:
		if op.Def {
			return fill(b.RangeKeyDeleteDeferred(len(op.Key), len(op.Val)), op.Key, op.Val)
		}
		return b.RangeKeyDelete(op.Key, op.Val, nil)
	case kRangeKeyUnset:
		return b.RangeKeyUnset(op.Key, op.Val, op.Suf, nil)
	case kRangeKeySet:
		return b.RangeKeySet(op.Key, op.Val, op.Suf, op.RV, nil)
	case kLogData:
		return b.LogData(op.Key, nil)
	}
	return fmt.Errorf("plan: unsupported op kind %d", op.K)
}

func buildBatch(flavour string, ops []Op) (*pebble.Batch, error) {
	b := newBatch(flavour)
	for i, op := range ops {
		if err := applyOp(b, op); err != nil {
			return nil, fmt.Errorf("op %d (%s) failed: %v", i, kindName(op.K), err)
		}
	}
	return b, nil
}

// ---- comparisons ----------------------------------------------------------

func sameEntry(kind uint8, key, val []byte, e Entry) bool {
	return kind == e.Kind && bytes.Equal(key, e.Key) && bytes.Equal(val, e.Value)
}

func fmtEntry(kind uint8, key, val []byte) string {
	return fmt.Sprintf("(%s key=%q value=%q)", kindName(kind), trunc(key), trunc(val))
}

func trunc(b []byte) []byte {
	if len(b) > 40 {
		return append(append([]byte(nil), b[:40]...), "..."...)
	}
	return b
}

// within reports whether s points into data (or is empty).
func within(data, s []byte) bool {
	if len(s) == 0 {
		return true
	}
	if len(data) == 0 {
		return false
	}
	lo := uintptr(unsafe.Pointer(unsafe.SliceData(data)))
	p := uintptr(unsafe.Pointer(unsafe.SliceData(s)))
	return p >= lo && p+uintptr(len(s)) <= lo+uintptr(len(data))
}

// checkReaderAgainst drives a batchrepr.Reader over data and compares it with
// the reference decode.
func checkReaderAgainst(what string, r batchrepr.Reader, data []byte, ref RefResult) error {
	for i := 0; ; i++ {
		if i > len(data)+1 {
			return fmt.Errorf("%s: reader does not terminate", what)
		}
		kind, key, val, ok, err := r.Next()
		if ok && err != nil {
			return fmt.Errorf("%s: Next returned ok=true with error %v", what, err)
		}
		if i < len(ref.Entries) {
			e := ref.Entries[i]
			if !ok {
				return fmt.Errorf("%s: record %d: reader stopped (err=%v), reference decodes %s", what, i, err, fmtEntry(e.Kind, e.Key, e.Value))
			}
			if !sameEntry(uint8(kind), key, val, e) {
				return fmt.Errorf("%s: record %d: reader returned %s, reference decodes %s", what, i,
					fmtEntry(uint8(kind), key, val), fmtEntry(e.Kind, e.Key, e.Value))
			}
			continue
		}
		switch ref.Status {
		case stOK:
			if ok || err != nil {
				return fmt.Errorf("%s: after the last record: ok=%v err=%v, want end of batch", what, ok, err)
			}
			return nil
		case stErr:
			if ok || err == nil {
				return fmt.Errorf("%s: malformed record at offset %d (%s) was not rejected: ok=%v kind=%d key=%q", what, ref.ErrOff, ref.Why, ok, kind, trunc(key))
			}
			if !errors.Is(err, batchrepr.ErrInvalidBatch) {
				return fmt.Errorf("%s: error for malformed record is not ErrInvalidBatch: %v", what, err)
			}
			return nil
		default:
			// Undocumented kind or implementation-defined varint: any in-bounds
			// decode or an error.
			if !ok {
				return nil
			}
			if !within(data, key) || !within(data, val) {
				return fmt.Errorf("%s: record %d: returned slices outside the input", what, i)
			}
		}
	}
}

func kvString(kv *base.InternalKV) string {
	if kv == nil {
		return "<nil>"
	}
	return fmt.Sprintf("(%q #%d,%s =%q)", trunc(kv.K.UserKey), uint64(kv.K.Trailer)>>8, kindName(uint8(kv.K.Trailer)), trunc(kv.InPlaceValue()))
}

func mkvString(m []ModelKV, i int) string {
	if i < 0 || i >= len(m) {
		return "<nil>"
	}
	return fmt.Sprintf("(%q #%d,%s =%q)", trunc(m[i].Key), m[i].Trailer>>8, kindName(uint8(m[i].Trailer)), trunc(m[i].Value))
}

func kvMatches(kv *base.InternalKV, m []ModelKV, i int) bool {
	if i < 0 || i >= len(m) {
		return kv == nil
	}
	return kv != nil && bytes.Equal(kv.K.UserKey, m[i].Key) && uint64(kv.K.Trailer) == m[i].Trailer &&
		bytes.Equal(kv.InPlaceValue(), m[i].Value)
}

// checkPointIter compares an internal iterator with the sorted model.
func checkPointIter(what string, it base.InternalIterator, m []ModelKV, seeks [][]byte) error {
	i := 0
	for kv := it.First(); ; kv = it.Next() {
		if !kvMatches(kv, m, i) {
			return fmt.Errorf("%s: forward position %d: got %s want %s", what, i, kvString(kv), mkvString(m, i))
		}
		if kv == nil {
			break
		}
		i++
	}
	i = len(m) - 1
	for kv := it.Last(); ; kv = it.Prev() {
		if !kvMatches(kv, m, i) {
			return fmt.Errorf("%s: backward position %d: got %s want %s", what, i, kvString(kv), mkvString(m, i))
		}
		if kv == nil {
			break
		}
		i--
	}
	for _, k := range seeks {
		ge := 0
		for ge < len(m) && bytes.Compare(m[ge].Key, k) < 0 {
			ge++
		}
		kv := it.SeekGE(k, base.SeekGEFlagsNone)
		if !kvMatches(kv, m, ge) {
			return fmt.Errorf("%s: SeekGE(%q): got %s want %s", what, trunc(k), kvString(kv), mkvString(m, ge))
		}
		if kv != nil {
			if kv = it.Next(); !kvMatches(kv, m, ge+1) {
				return fmt.Errorf("%s: SeekGE(%q).Next: got %s want %s", what, trunc(k), kvString(kv), mkvString(m, ge+1))
			}
			if kv != nil {
				if kv = it.Prev(); !kvMatches(kv, m, ge) {
					return fmt.Errorf("%s: SeekGE(%q).Next.Prev: got %s want %s", what, trunc(k), kvString(kv), mkvString(m, ge))
				}
			}
		}
		lt := ge - 1
		kv = it.SeekLT(k, base.SeekLTFlagsNone)
		if !kvMatches(kv, m, lt) {
			return fmt.Errorf("%s: SeekLT(%q): got %s want %s", what, trunc(k), kvString(kv), mkvString(m, lt))
		}
		if kv != nil {
			if kv = it.Prev(); !kvMatches(kv, m, lt-1) {
				return fmt.Errorf("%s: SeekLT(%q).Prev: got %s want %s", what, trunc(k), kvString(kv), mkvString(m, lt-1))
			}
			if kv != nil {
				if kv = it.Next(); !kvMatches(kv, m, lt) {
					return fmt.Errorf("%s: SeekLT(%q).Prev.Next: got %s want %s", what, trunc(k), kvString(kv), mkvString(m, lt))
				}
			}
		}
	}
	if err := it.Error(); err != nil {
		return fmt.Errorf("%s: iterator error %v", what, err)
	}
	if err := it.Close(); err != nil {
		return fmt.Errorf("%s: iterator close error %v", what, err)
	}
	return nil
}

func spanString(s *keyspan.Span) string {
	if s == nil {
		return "<nil>"
	}
	var sb strings.Builder
	fmt.Fprintf(&sb, "[%q,%q):", trunc(s.Start), trunc(s.End))
	for _, k := range s.Keys {
		fmt.Fprintf(&sb, " #%d,%s %q=%q", uint64(k.Trailer)>>8, kindName(uint8(k.Trailer)), k.Suffix, trunc(k.Value))
	}
	return sb.String()
}

func mspanString(m []ModelSpan, i int) string {
	if i < 0 || i >= len(m) {
		return "<nil>"
	}
	var sb strings.Builder
	fmt.Fprintf(&sb, "[%q,%q):", trunc(m[i].Start), trunc(m[i].End))
	for _, k := range m[i].Keys {
		fmt.Fprintf(&sb, " #%d,%s %q=%q", k.Trailer>>8, kindName(uint8(k.Trailer)), k.Suffix, trunc(k.Value))
	}
	return sb.String()
}

func spanMatches(s *keyspan.Span, m []ModelSpan, i int) bool {
	if i < 0 || i >= len(m) {
		return s == nil
	}
	if s == nil || !bytes.Equal(s.Start, m[i].Start) || !bytes.Equal(s.End, m[i].End) || len(s.Keys) != len(m[i].Keys) {
		return false
	}
	for j, k := range s.Keys {
		w := m[i].Keys[j]
		if uint64(k.Trailer) != w.Trailer || !bytes.Equal(k.Suffix, w.Suffix) || !bytes.Equal(k.Value, w.Value) {
			return false
		}
	}
	return true
}

func checkSpanIter(what string, it keyspan.FragmentIterator, m []ModelSpan) error {
	if it == nil {
		if len(m) != 0 {
			return fmt.Errorf("%s: no iterator although the model has %d fragments, first %s", what, len(m), mspanString(m, 0))
		}
		return nil
	}
	defer it.Close()
	i := 0
	s, err := it.First()
	for {
		if err != nil {
			return fmt.Errorf("%s: iterator error %v", what, err)
		}
		if !spanMatches(s, m, i) {
			return fmt.Errorf("%s: forward fragment %d: got %s want %s", what, i, spanString(s), mspanString(m, i))
		}
		if s == nil {
			break
		}
		i++
		s, err = it.Next()
	}
	i = len(m) - 1
	s, err = it.Last()
	for {
		if err != nil {
			return fmt.Errorf("%s: iterator error %v", what, err)
		}
		if !spanMatches(s, m, i) {
			return fmt.Errorf("%s: backward fragment %d: got %s want %s", what, i, spanString(s), mspanString(m, i))
		}
		if s == nil {
			break
		}
		i--
		s, err = it.Prev()
	}
	return nil
}

// checkSorted compares the three iterators of private.BatchSort with the model.
func checkSorted(what string, b *pebble.Batch, entries []Entry, sf seqFn, seeks [][]byte, spans bool) (err error) {
	var pts base.InternalIterator
	var rd, rk keyspan.FragmentIterator
	if _, pv, _ := guard(func() error { pts, rd, rk = private.BatchSort(b); return nil }); pv != nil {
		if _, isRuntime := pv.(runtime.Error); isRuntime {
			panic(pv)
		}
		// private.BatchSort panics with the error newFlushableBatch returned.
		return fmt.Errorf("%s: constructing the sorted iterators failed: %v", what, pv)
	}
	if err := checkPointIter(what+" points", pts, modelPoints(entries, sf), seeks); err != nil {
		return err
	}
	if !spans {
		if rd != nil {
			rd.Close()
		}
		if rk != nil {
			rk.Close()
		}
		return nil
	}
	mrd, mrk := modelSpans(entries, sf)
	if err := checkSpanIter(what+" range deletions", rd, mrd); err != nil {
		return err
	}
	return checkSpanIter(what+" range keys", rk, mrk)
}

// checkSkiplist loads what memTable.apply inserts into its point skiplist into
// an arenaskl.Skiplist and compares its iteration with the model (and thereby
// with the flushable batch).
func checkSkiplist(entries []Entry, base_ uint64, seeks [][]byte) error {
	size := uint64(8 << 10)
	for _, e := range entries {
		size += arenaskl.MaxNodeSize(uint32(len(e.Key)), uint32(len(e.Value)))
	}
	skl := arenaskl.NewSkiplist(arenaskl.NewArena(make([]byte, size)), bytes.Compare)
	ord := uint64(0)
	for _, e := range entries {
		if e.Kind == kLogData {
			continue
		}
		if isPointKind(e.Kind) {
			ik := base.MakeInternalKey(e.Key, base.SeqNum(base_+ord), base.InternalKeyKind(e.Kind))
			if err := skl.Add(ik, e.Value); err != nil {
				return fmt.Errorf("memtable skiplist: Add failed: %v", err)
			}
		}
		ord++
	}
	it := skl.NewIter(pebble.DefaultComparer.Split, nil, nil)
	return checkPointIter("memtable skiplist", it, modelPoints(entries, flushableSeq(base_)), seeks)
}

// ---- DB transcripts --------------------------------------------------------

// transcript iterates the whole DB (points and range keys, both directions).
func transcript(db *pebble.DB) (points []kvPair, text string, err error) {
	it, err := db.NewIter(&pebble.IterOptions{KeyTypes: pebble.IterKeyTypePointsAndRanges})
	if err != nil {
		return nil, "", err
	}
	var sb strings.Builder
	emit := func(fwd bool) error {
		hasP, hasR := it.HasPointAndRange()
		fmt.Fprintf(&sb, "%q", it.Key())
		if hasP {
			v, err := it.ValueAndErr()
			if err != nil {
				return err
			}
			fmt.Fprintf(&sb, " =%q", v)
			if fwd {
				points = append(points, kvPair{clone(it.Key()), clone(v)})
			}
		}
		if hasR {
			s, e := it.RangeBounds()
			fmt.Fprintf(&sb, " [%q,%q)", s, e)
			for _, rk := range it.RangeKeys() {
				fmt.Fprintf(&sb, " %q=%q", rk.Suffix, rk.Value)
			}
		}
		sb.WriteByte('\n')
		return nil
	}
	for ok := it.First(); ok; ok = it.Next() {
		if err := emit(true); err != nil {
			it.Close()
			return nil, "", err
		}
	}
	sb.WriteString("-- reverse --\n")
	for ok := it.Last(); ok; ok = it.Prev() {
		if err := emit(false); err != nil {
			it.Close()
			return nil, "", err
		}
	}
	if err := it.Error(); err != nil {
		it.Close()
		return nil, "", err
	}
	return points, sb.String(), it.Close()
}

func samePoints(got, want []kvPair) error {
	for i := 0; i < len(got) || i < len(want); i++ {
		switch {
		case i >= len(got):
			return fmt.Errorf("missing key %q (value %q)", trunc(want[i].K), trunc(want[i].V))
		case i >= len(want):
			return fmt.Errorf("unexpected key %q (value %q)", trunc(got[i].K), trunc(got[i].V))
		case !bytes.Equal(got[i].K, want[i].K) || !bytes.Equal(got[i].V, want[i].V):
			return fmt.Errorf("position %d: got %q=%q want %q=%q", i, trunc(got[i].K), trunc(got[i].V), trunc(want[i].K), trunc(want[i].V))
		}
	}
	return nil
}

// openResult is what replaying a WAL produced.
type openResult struct {
	err     error // Open's error
	readErr error // error (not panic) while iterating after a successful Open
	points []kvPair
	text   string
}

// replay opens a store whose WAL holds records and reads everything back. A
// panic on this goroutine is returned as a violation error.
func replay(what string, records [][]byte, readOnly bool, memSize uint64) (openResult, error) {
	var res openResult
	fs := newStore(frameWAL(records))
	var db *pebble.DB
	_, pv, stack := guard(func() error {
		db, res.err = pebble.Open("db", dbOptions(fs, readOnly, memSize))
		return nil
	})
	if pv != nil {
		return res, panicErr(what+": pebble.Open (WAL replay)", pv, stack)
	}
	if res.err != nil {
		return res, nil
	}
	var terr error
	_, pv, stack = guard(func() error {
		res.points, res.text, terr = transcript(db)
		return nil
	})
	if pv != nil {
		// The store is left open: its state is unknown.
		return res, panicErr(what+": reading the store after a successful WAL replay", pv, stack)
	}
	if terr != nil {
		// An iteration *error* is only a violation for well-formed content; the
		// caller decides.
		res.readErr = terr
		db.Close()
		return res, nil
	}
	if err := db.Close(); err != nil {
		return res, fmt.Errorf("%s: Close failed: %v", what, err)
	}
	return res, nil
}

// ---- ops mode ---------------------------------------------------------------

// checkBatchIs verifies that b holds exactly entries.
func checkBatchIs(what string, b *pebble.Batch, entries []Entry, nonLog uint32, want []byte) error {
	if got := b.Count(); got != nonLog {
		return fmt.Errorf("%s: Count()=%d want %d", what, got, nonLog)
	}
	if got := b.Empty(); got != (len(entries) == 0) {
		return fmt.Errorf("%s: Empty()=%v with %d records", what, got, len(entries))
	}
	repr := b.Repr()
	ref := refDecode(repr)
	if ref.Status != stOK {
		return fmt.Errorf("%s: Repr() does not decode: %s at offset %d (%s)", what, statusName(ref.Status), ref.ErrOff, ref.Why)
	}
	if ref.Count != nonLog {
		return fmt.Errorf("%s: header count %d want %d", what, ref.Count, nonLog)
	}
	for i := 0; i < len(ref.Entries) || i < len(entries); i++ {
		switch {
		case i >= len(ref.Entries):
			return fmt.Errorf("%s: record %d missing, want %s", what, i, fmtEntry(entries[i].Kind, entries[i].Key, entries[i].Value))
		case i >= len(entries):
			return fmt.Errorf("%s: extra record %d: %s", what, i, fmtEntry(ref.Entries[i].Kind, ref.Entries[i].Key, ref.Entries[i].Value))
		case !sameEntry(ref.Entries[i].Kind, ref.Entries[i].Key, ref.Entries[i].Value, entries[i]):
			return fmt.Errorf("%s: record %d decodes to %s want %s", what, i,
				fmtEntry(ref.Entries[i].Kind, ref.Entries[i].Key, ref.Entries[i].Value), fmtEntry(entries[i].Kind, entries[i].Key, entries[i].Value))
		}
	}
	if !bytes.Equal(repr[8:], want[8:]) {
		return fmt.Errorf("%s: Repr() decodes correctly but is not the canonical encoding:\n got %x\nwant %x", what, repr, want)
	}
	if got := b.Len(); got != len(repr) {
		return fmt.Errorf("%s: Len()=%d, len(Repr())=%d", what, got, len(repr))
	}
	h, ok := batchrepr.ReadHeader(repr)
	if !ok || h.Count != nonLog || uint64(h.SeqNum) != binary.LittleEndian.Uint64(repr[:8]) {
		return fmt.Errorf("%s: ReadHeader=%v,%v", what, h, ok)
	}
	if err := checkReaderAgainst(what+" Batch.Reader", b.Reader(), repr, ref); err != nil {
		return err
	}
	return checkReaderAgainst(what+" batchrepr.Read", batchrepr.Read(repr), repr, ref)
}

func splitOps(ops []Op, chunks []int) [][]Op {
	var out [][]Op
	i := 0
	for _, c := range chunks {
		if c < 0 {
			c = 0
		}
		if i+c > len(ops) {
			c = len(ops) - i
		}
		out = append(out, ops[i:i+c])
		i += c
	}
	if i < len(ops) {
		out = append(out, ops[i:])
	}
	return out
}

func execOps(p Plan) (evid.Outcome, error) {
	var out evid.Outcome
	initEnv()
	kinds := map[uint8]bool{}
	hasRange := false
	for _, op := range p.Ops {
		kinds[op.K] = true
		hasRange = hasRange || isRangeKind(op.K)
		if isRangeKind(op.K) && bytes.Compare(op.Key, op.Val) >= 0 {
			return out, fmt.Errorf("plan: range op with start >= end")
		}
	}
	out.NonTrivial = len(kinds) >= 3 && hasRange
	out.Labels = append(out.Labels, "mode=ops", "ops:tgt="+p.Tgt, "ops:apply-tgt="+p.ApplyTgt)
	switch n := len(p.Ops); {
	case n == 0:
		out.Labels = append(out.Labels, "ops:n=0")
	case n <= 12:
		out.Labels = append(out.Labels, "ops:n=1-12")
	default:
		out.Labels = append(out.Labels, "ops:n=13+")
	}
	for k := range kinds {
		out.Labels = append(out.Labels, "ops:has-"+kindName(k))
	}
	out.Counters = map[string]int{"ops": len(p.Ops)}

	entries, nonLog := opsEntries(p.Ops)
	want := refEncode(0, nonLog, entries)
	if len(want) > 140 {
		out.Labels = append(out.Labels, "ops:repr>140B")
	}

	// 1. encode through the API, decode with the reference and with the reader.
	b, err := buildBatch(p.Tgt, p.Ops)
	if err != nil {
		return out, err
	}
	if err := checkBatchIs("direct "+p.Tgt+" batch", b, entries, nonLog, want); err != nil {
		return out, err
	}
	repr := clone(b.Repr())

	// 2. SetRepr reproduces the batch.
	for _, fl := range []string{"plain", "db"} {
		nb := newBatch(fl)
		if err := nb.SetRepr(clone(repr)); err != nil {
			return out, fmt.Errorf("SetRepr(%s batch) of a valid repr failed: %v", fl, err)
		}
		if err := checkBatchIs("SetRepr "+fl+" batch", nb, entries, nonLog, want); err != nil {
			return out, err
		}
		nb2 := newBatch(fl)
		if err := nb2.SetRepr(withSeq(repr, p.Seq)); err != nil {
			return out, fmt.Errorf("SetRepr(%s batch) of a valid repr failed: %v", fl, err)
		}
		if got := uint64(nb2.SeqNum()); got != p.Seq {
			return out, fmt.Errorf("SetRepr(%s batch): SeqNum()=%d want %d", fl, got, p.Seq)
		}
		if !bytes.Equal(nb2.Repr(), withSeq(repr, p.Seq)) {
			return out, fmt.Errorf("SetRepr(%s batch) with seqnum %d: Repr() differs from the input", fl, p.Seq)
		}
	}

	// 3. Apply reproduces the batch.
	dst := newBatch(p.ApplyTgt)
	srcFl := "plain"
	if p.SrcDB {
		srcFl = "db"
	}
	chunks := splitOps(p.Ops, p.Chunks)
	out.Labels = append(out.Labels, fmt.Sprintf("ops:apply-chunks=%d", len(chunks)))
	for i, ch := range chunks {
		src, err := buildBatch(srcFl, ch)
		if err != nil {
			return out, err
		}
		var before []byte
		if len(ch) > 0 {
			before = clone(src.Repr())
		}
		if err := dst.Apply(src, nil); err != nil {
			return out, fmt.Errorf("Apply of valid chunk %d onto a %s batch failed: %v", i, p.ApplyTgt, err)
		}
		if len(ch) > 0 && !bytes.Equal(src.Repr(), before) {
			return out, fmt.Errorf("Apply modified its argument (chunk %d)", i)
		}
	}
	if err := checkBatchIs("Apply target ("+p.ApplyTgt+")", dst, entries, nonLog, want); err != nil {
		return out, err
	}

	// 4. sorted iteration: flushable batch == memtable skiplist == model.
	if p.Seq < 1<<48 {
		fb := newBatch("db")
		if err := fb.SetRepr(withSeq(repr, p.Seq)); err != nil {
			return out, fmt.Errorf("SetRepr(db batch) failed: %v", err)
		}
		if err := checkSorted("flushable batch", fb, entries, flushableSeq(p.Seq), p.Seeks, true); err != nil {
			return out, err
		}
		if err := checkSkiplist(entries, p.Seq, p.Seeks); err != nil {
			return out, err
		}
	}
	// 5. indexed batch iteration (entries carry offset|batch-bit "seqnums").
	var ib *pebble.Batch
	switch {
	case p.Tgt == "indexed":
		ib = b
	case p.ApplyTgt == "indexed":
		ib = dst
	default:
		ib = newBatch("indexed")
		if err := ib.Apply(b, nil); err != nil {
			return out, fmt.Errorf("Apply onto an indexed batch failed: %v", err)
		}
	}
	if err := checkSorted("indexed batch", ib, entries, indexedSeq(), p.Seeks, true); err != nil {
		return out, err
	}

	// 6. WAL replay differential: memtable vs flushable batch vs flushed sstable
	// vs DB.Apply, all compared with the point-state model.
	if p.WAL != nil {
		out.Labels = append(out.Labels, "ops:wal")
		var records [][]byte
		seq := p.WAL.BaseSeq
		for _, ch := range splitOps(p.Ops, p.WAL.Chunks) {
			if len(ch) == 0 {
				continue
			}
			cb, err := buildBatch("plain", ch)
			if err != nil {
				return out, err
			}
			records = append(records, withSeq(cb.Repr(), seq))
			seq += uint64(cb.Count())
		}
		wantPoints := modelState(entries)
		type cfg struct {
			name string
			ro   bool
			mem  uint64
		}
		var first *openResult
		for _, c := range []cfg{
			{"read-only replay into a memtable", true, bigMem},
			{fmt.Sprintf("read-only replay, MemTableSize=%d (flushable batches)", p.WAL.SmallMem), true, p.WAL.SmallMem},
			{fmt.Sprintf("read-write replay, MemTableSize=%d (flushed)", p.WAL.SmallMem), false, p.WAL.SmallMem},
		} {
			res, err := replay(c.name, records, c.ro, c.mem)
			if err != nil {
				return out, err
			}
			if res.err != nil {
				return out, fmt.Errorf("%s: Open rejected a WAL of valid batches: %v", c.name, res.err)
			}
			if res.readErr != nil {
				return out, fmt.Errorf("%s: reading the store after replaying valid batches failed: %v", c.name, res.readErr)
			}
			if err := samePoints(res.points, wantPoints); err != nil {
				return out, fmt.Errorf("%s: point keys differ from the model: %v", c.name, err)
			}
			if first == nil {
				first = &res
			} else if res.text != first.text {
				return out, fmt.Errorf("%s iterates differently from the memtable replay:\n--- memtable\n%s--- this\n%s", c.name, first.text, res.text)
			}
		}
		// DB.Apply of SetRepr batches.
		fs := newStore(nil)
		db, err := pebble.Open("db", dbOptions(fs, false, bigMem))
		if err != nil {
			return out, fmt.Errorf("infrastructure: open: %v", err)
		}
		for i, r := range records {
			nb := db.NewBatch()
			if err := nb.SetRepr(clone(r)); err != nil {
				return out, fmt.Errorf("SetRepr of valid record %d failed: %v", i, err)
			}
			if err := db.Apply(nb, pebble.NoSync); err != nil {
				return out, fmt.Errorf("DB.Apply of valid record %d failed: %v", i, err)
			}
		}
		pts, text, err := transcript(db)
		if err != nil {
			return out, fmt.Errorf("reading after DB.Apply failed: %v", err)
		}
		if err := db.Close(); err != nil {
			return out, fmt.Errorf("Close failed: %v", err)
		}
		if err := samePoints(pts, wantPoints); err != nil {
			return out, fmt.Errorf("DB.Apply of SetRepr batches: point keys differ from the model: %v", err)
		}
		if first != nil && text != first.text {
			return out, fmt.Errorf("DB.Apply of SetRepr batches iterates differently from the WAL replay:\n--- replay\n%s--- apply\n%s", first.text, text)
		}
	}
	return out, nil
}

// ---- bytes mode -------------------------------------------------------------

// findingClass names the known-finding class (a set of inputs that may panic in
// the given consumer), or "".
func findingClass(c Class, p Plan) string {
	v := expectValidate(c, allowedSetRepr, false)
	switch p.Cons {
	case "apply":
		if expectValidate(c, allowedApply, true) == exIngestAt {
			return sigApplyIngest
		}
	case "flushable":
		if v == exMustOK && c.BadRangeKey >= 0 {
			return sigRangeKeyValue
		}
	case "wal":
		last := uint64(0)
		if p.Pre {
			last = 50
		}
		if v != exMustOK || c.Ref.Count == 0 || c.Ref.Seq <= last {
			return ""
		}
		switch {
		case c.FirstIngest && !c.IngestWellFormed:
			return sigIngestReplay
		case c.FirstIngest:
			return ""
		case c.IngestAt > 0:
			return sigIngestMem
		case c.BadRangeKey >= 0:
			return sigRangeKeyValue
		}
	case "dbapply":
		if dbApplySane(c) && uint64(c.Ref.Count) != uint64(c.NonLog) {
			return sigDBApplyCount
		}
	}
	return ""
}

func excludedFor(c Class, p Plan) string {
	if p.Force {
		return ""
	}
	if sig := findingClass(c, p); sig != "" && evid.FindingActive("C31", sig) {
		return sig
	}
	return ""
}

// dbApplySane: inputs DB.Apply is exercised with: strictly valid records of
// memtable kinds with well-formed values (anything else could panic later on a
// background flush goroutine and kill the process).
func dbApplySane(c Class) bool {
	return expectValidate(c, allowedApply, true) == exMustOK && c.BadRangeKey < 0 && c.RangesSane
}

func execReader(p Plan, c Class, out *evid.Outcome) error {
	data := p.Data
	ref := c.Ref
	h, ok := batchrepr.ReadHeader(clone(data))
	if ok != (len(data) >= hdrLen) {
		return fmt.Errorf("ReadHeader ok=%v for %d bytes", ok, len(data))
	}
	if ok && (uint64(h.SeqNum) != ref.Seq || h.Count != ref.Count) {
		return fmt.Errorf("ReadHeader=%v want seq=%d count=%d", h, ref.Seq, ref.Count)
	}
	if got := batchrepr.IsEmpty(data); got != (len(data) <= hdrLen) {
		return fmt.Errorf("IsEmpty=%v for %d bytes", got, len(data))
	}
	if len(data) < hdrLen {
		var b pebble.Batch
		if err := b.SetRepr(clone(data)); err == nil || !errors.Is(err, pebble.ErrInvalidBatch) {
			return fmt.Errorf("SetRepr of %d bytes: err=%v want ErrInvalidBatch", len(data), err)
		}
		db := newBatch("db")
		if err := db.SetRepr(clone(data)); err == nil || !errors.Is(err, pebble.ErrInvalidBatch) {
			return fmt.Errorf("SetRepr(db batch) of %d bytes: err=%v want ErrInvalidBatch", len(data), err)
		}
		if r := batchrepr.Read(clone(data)); len(r) != 0 {
			return fmt.Errorf("Read of %d bytes returned a non-empty reader", len(data))
		}
		return nil
	}
	d := clone(data)
	if err := checkReaderAgainst("batchrepr.Read", batchrepr.Read(d), d, ref); err != nil {
		return err
	}
	// SetRepr on a batch without a DB only reads the header.
	var b pebble.Batch
	d = clone(data)
	if err := b.SetRepr(d); err != nil {
		return fmt.Errorf("SetRepr (no DB) failed on %d bytes: %v", len(data), err)
	}
	if b.Count() != ref.Count || uint64(b.SeqNum()) != ref.Seq {
		return fmt.Errorf("SetRepr (no DB): Count=%d SeqNum=%d want %d %d", b.Count(), b.SeqNum(), ref.Count, ref.Seq)
	}
	if !bytes.Equal(b.Repr(), data) {
		return fmt.Errorf("SetRepr (no DB): Repr() differs from the input")
	}
	if err := checkReaderAgainst("Batch.Reader after SetRepr", b.Reader(), d, ref); err != nil {
		return err
	}
	// SetRepr on a DB's batch validates every record.
	db := newBatch("db")
	err := db.SetRepr(clone(data))
	switch v := expectValidate(c, allowedSetRepr, false); {
	case v == exMustOK && err != nil:
		return fmt.Errorf("SetRepr(db batch) rejected a well-formed repr: %v", err)
	case v == exMustErr && err == nil:
		return fmt.Errorf("SetRepr(db batch) accepted a malformed repr (%s at offset %d: %s)", statusName(ref.Status), ref.ErrOff, ref.Why)
	case err != nil && !errors.Is(err, pebble.ErrInvalidBatch):
		return fmt.Errorf("SetRepr(db batch) error is not ErrInvalidBatch: %v", err)
	case err == nil:
		if db.Count() != ref.Count || !bytes.Equal(db.Repr(), data) {
			return fmt.Errorf("SetRepr(db batch): Count/Repr differ from the input")
		}
	}
	// Apply onto a batch without DB and index only concatenates.
	var dst pebble.Batch
	pre := uint32(0)
	var preBody []byte
	if p.Pre {
		dst.Set([]byte("p"), []byte("q"), nil)
		pre, preBody = 1, clone(dst.Repr()[hdrLen:])
	}
	if err := dst.Apply(&b, nil); err != nil {
		return fmt.Errorf("Apply onto a plain batch failed: %v", err)
	}
	if dst.Count() != pre+ref.Count {
		return fmt.Errorf("Apply onto a plain batch: Count=%d want %d", dst.Count(), pre+ref.Count)
	}
	if got := dst.Repr()[hdrLen:]; !bytes.Equal(got, append(preBody, data[hdrLen:]...)) {
		return fmt.Errorf("Apply onto a plain batch: body is not the concatenation of the bodies")
	}
	return nil
}

func execApply(p Plan, c Class, out *evid.Outcome) error {
	var src pebble.Batch
	if err := src.SetRepr(clone(p.Data)); err != nil {
		return fmt.Errorf("SetRepr (no DB) failed: %v", err)
	}
	v := expectValidate(c, allowedApply, true)
	for _, fl := range []string{"db", "indexed"} {
		dst := newBatch(fl)
		pre := uint32(0)
		var preBody []byte
		if p.Pre {
			if err := dst.Set([]byte("p"), []byte("q"), nil); err != nil {
				return err
			}
			pre, preBody = 1, clone(dst.Repr()[hdrLen:])
		}
		err, pv, stack := guard(func() error { return dst.Apply(&src, nil) })
		if pv != nil {
			return panicErr("Batch.Apply onto a "+fl+" batch", pv, stack)
		}
		switch {
		case v == exMustOK && err != nil:
			return fmt.Errorf("Apply onto a %s batch rejected a well-formed repr: %v", fl, err)
		case (v == exMustErr || v == exIngestAt) && err == nil:
			return fmt.Errorf("Apply onto a %s batch accepted a malformed repr (%s at offset %d: %s)", fl, statusName(c.Ref.Status), c.Ref.ErrOff, c.Ref.Why)
		case err != nil && !errors.Is(err, pebble.ErrInvalidBatch):
			return fmt.Errorf("Apply onto a %s batch: error is not ErrInvalidBatch: %v", fl, err)
		case err == nil && v == exMustOK:
			if dst.Count() != pre+c.Ref.Count {
				return fmt.Errorf("Apply onto a %s batch: Count=%d want %d", fl, dst.Count(), pre+c.Ref.Count)
			}
			if got := dst.Repr()[hdrLen:]; !bytes.Equal(got, append(preBody, p.Data[hdrLen:]...)) {
				return fmt.Errorf("Apply onto a %s batch: body is not the concatenation of the bodies", fl)
			}
		}
	}
	return nil
}

func execFlushable(p Plan, c Class, out *evid.Outcome) error {
	b := newBatch("db")
	if err := b.SetRepr(clone(p.Data)); err != nil {
		return fmt.Errorf("SetRepr(db batch) rejected a well-formed repr: %v", err)
	}
	hasIngest := c.IngestAt >= 0
	countLow := uint64(c.NonLog) > uint64(c.Ref.Count)
	clean := !hasIngest && !countLow && c.BadRangeKey < 0
	model := clean && c.RangesSane && c.Ref.Seq < 1<<48
	var cmpErr error
	_, pv, stack := guard(func() error {
		if model {
			cmpErr = checkSorted("flushable batch", b, c.Ref.Entries, flushableSeq(c.Ref.Seq), nil, true)
			return nil
		}
		pts, rd, rk := private.BatchSort(b)
		n := 0
		for kv := pts.First(); kv != nil; kv = pts.Next() {
			n++
		}
		for kv := pts.Last(); kv != nil; kv = pts.Prev() {
			n--
		}
		if n != 0 {
			cmpErr = fmt.Errorf("flushable batch: forward and backward scans disagree by %d entries", n)
		}
		pts.Close()
		if rd != nil {
			rd.Close()
		}
		if rk != nil {
			rk.Close()
		}
		return nil
	})
	if pv != nil {
		// private.BatchSort is a test hook that panics with the error that
		// newFlushableBatch returned; a runtime error is a genuine panic.
		if _, isRuntime := pv.(runtime.Error); isRuntime {
			return panicErr("newFlushableBatch", pv, stack)
		}
		if _, isErr := pv.(error); !isErr {
			return panicErr("newFlushableBatch", pv, stack)
		}
		if model {
			return fmt.Errorf("newFlushableBatch rejected a well-formed batch: %v", pv)
		}
		out.Labels = append(out.Labels, "bytes:flushable-rejected")
		return nil
	}
	if cmpErr != nil {
		return cmpErr
	}
	if hasIngest || countLow {
		return fmt.Errorf("newFlushableBatch accepted a batch it cannot represent (ingest kind=%v, header count %d < %d records)", hasIngest, c.Ref.Count, c.NonLog)
	}
	out.Labels = append(out.Labels, "bytes:flushable-ok")
	return nil
}

var preRecord = refEncode(50, 1, []Entry{{Kind: kSet, Key: []byte("p"), Value: []byte("q")}})

// memtablePathCertain: replay applies the batch to a memtable rather than
// wrapping it in a flushable batch. The switch happens when the batch's
// memtable footprint reaches (MemTableSize - empty size)/2; a skiplist node
// costs less than 256 bytes plus key and value, so the footprint is below
// 256*records + len(data).
func memtablePathCertain(p Plan, c Class) bool {
	return !p.Small && 256*c.NonLog+len(p.Data) < 400<<10
}

func execWAL(p Plan, c Class, out *evid.Outcome) error {
	v := expectValidate(c, allowedSetRepr, false)
	var records [][]byte
	var all []Entry
	lastSeq := uint64(0)
	if p.Pre {
		records = append(records, clone(preRecord))
		all = append(all, Entry{Kind: kSet, Key: []byte("p"), Value: []byte("q")})
		lastSeq = 50
	}
	records = append(records, clone(p.Data))
	// The WAL reader (wal/reader.go, virtualWALReader.nextRecord) hands a record
	// to replay only if its header count is non-zero (LogData-only batches are
	// skipped) and its seqnum exceeds the previous record's (deduplication of
	// records repeated across failover segments). Records shorter than a header
	// are reported as corruption.
	delivered := len(p.Data) >= hdrLen && c.Ref.Count != 0 && c.Ref.Seq > lastSeq
	if delivered {
		all = append(all, c.Ref.Entries...)
	}
	plainKinds := v == exMustOK && c.IngestAt < 0
	countOK := uint64(c.Ref.Count) == uint64(c.NonLog)
	sane := plainKinds && c.BadRangeKey < 0 && c.RangesSane && countOK && c.Ref.Seq >= 100 && c.Ref.Seq < 1<<40
	skipped := len(p.Data) >= hdrLen && !delivered
	// Only sane inputs are flushed: a panic on the flush goroutine would kill
	// the process instead of being reported. Zero-length keys are never flushed.
	readOnly := !(p.RW && (skipped || (sane && !c.EmptyKey)))
	mem := uint64(bigMem)
	if p.Small {
		mem = 2048
	}
	out.Labels = append(out.Labels, fmt.Sprintf("bytes:wal-ro=%v", readOnly), fmt.Sprintf("bytes:wal-small=%v", p.Small))
	if skipped {
		out.Labels = append(out.Labels, "bytes:wal-record-skipped-by-reader")
	}
	res, err := replay("WAL replay", records, readOnly, mem)
	if err != nil {
		return err
	}
	// A header count that is too high is only detected when the batch is applied
	// to a memtable (memTable.apply compares the count); newFlushableBatch only
	// rejects counts that are too low.
	mustErr := len(p.Data) < hdrLen || (delivered && (v == exMustErr || (plainKinds && !countOK && memtablePathCertain(p, c))))
	mustOK := skipped || (delivered && sane)
	switch {
	case mustErr && res.err == nil:
		return fmt.Errorf("Open accepted a WAL whose batch is malformed (ref=%s at offset %d: %s; header count=%d, records=%d)",
			statusName(c.Ref.Status), c.Ref.ErrOff, c.Ref.Why, c.Ref.Count, c.NonLog)
	case mustOK && res.err != nil:
		return fmt.Errorf("Open rejected a WAL of well-formed batches: %v", res.err)
	case mustOK && res.readErr != nil:
		return fmt.Errorf("reading the store after replaying well-formed batches failed: %v", res.readErr)
	case mustOK:
		if err := samePoints(res.points, modelState(all)); err != nil {
			return fmt.Errorf("after WAL replay point keys differ from the model: %v", err)
		}
	}
	if res.err != nil {
		out.Labels = append(out.Labels, "bytes:wal-open-error")
	} else if res.readErr != nil {
		out.Labels = append(out.Labels, "bytes:wal-open-ok-read-error")
	} else {
		out.Labels = append(out.Labels, "bytes:wal-open-ok")
	}
	return nil
}

func execDBApply(p Plan, c Class, out *evid.Outcome) error {
	fs := newStore(nil)
	db, err := pebble.Open("db", dbOptions(fs, false, bigMem))
	if err != nil {
		return fmt.Errorf("infrastructure: open: %v", err)
	}
	b := db.NewBatch()
	if err := b.SetRepr(clone(p.Data)); err != nil {
		db.Close()
		return fmt.Errorf("SetRepr(db batch) rejected a well-formed repr: %v", err)
	}
	countOK := uint64(c.Ref.Count) == uint64(c.NonLog)
	err, pv, stack := guard(func() error { return db.Apply(b, pebble.NoSync) })
	if pv != nil {
		// The commit pipeline is wedged now; the store is abandoned.
		if fp, ok := pv.(fatalPanic); ok {
			return fmt.Errorf("DB.Apply called Logger.Fatalf (process exit with the default logger) instead of returning ErrInvalidBatch: %s (header count=%d, records=%d)", fp.msg, c.Ref.Count, c.NonLog)
		}
		return panicErr("DB.Apply", pv, stack)
	}
	if !countOK {
		db.Close()
		if err == nil {
			return fmt.Errorf("DB.Apply accepted a batch whose header count %d differs from its %d records", c.Ref.Count, c.NonLog)
		}
		out.Labels = append(out.Labels, "bytes:dbapply-rejected")
		return nil
	}
	if err != nil {
		db.Close()
		return fmt.Errorf("DB.Apply rejected a well-formed batch: %v", err)
	}
	pts, _, err := transcript(db)
	if err != nil {
		db.Close()
		return fmt.Errorf("reading after DB.Apply failed: %v", err)
	}
	if err := db.Close(); err != nil {
		return fmt.Errorf("Close failed: %v", err)
	}
	if err := samePoints(pts, modelState(c.Ref.Entries)); err != nil {
		return fmt.Errorf("after DB.Apply point keys differ from the model: %v", err)
	}
	out.Labels = append(out.Labels, "bytes:dbapply-ok")
	return nil
}

func execBytes(p Plan) (evid.Outcome, error) {
	var out evid.Outcome
	initEnv()
	c := classify(p.Data)
	cons := p.Cons
	// Consumers other than the reader group need a determinate reference
	// verdict (and DB.Apply a sane input); otherwise fall back to the reader.
	v := expectValidate(c, allowedSetRepr, false)
	// newFlushableBatch and replayIngestedFlushable pre-allocate header-count
	// entries (16 resp. 8 bytes each) before looking at the records, so a header
	// count of 2^32-1 asks for 64 GiB. Such inputs are never handed to the
	// consumers that reach those allocations: the machine is shared and an
	// out-of-memory kill is not a reportable verdict (see NOTES.md, "huge count").
	hugeCount := c.Ref.Count > 1<<16
	switch cons {
	case "apply":
		if len(p.Data) < hdrLen || expectValidate(c, allowedApply, true) == exUnknown {
			cons = "reader"
		}
	case "flushable":
		if v != exMustOK || hugeCount {
			cons = "reader"
		}
	case "wal":
		if v == exUnknown || (hugeCount && (!memtablePathCertain(p, c) || c.FirstIngest)) {
			cons = "reader"
		}
	case "dbapply":
		if !dbApplySane(c) || hugeCount {
			cons = "reader"
		}
	case "reader":
	default:
		return out, fmt.Errorf("plan: unknown consumer %q", p.Cons)
	}
	out.Labels = append(out.Labels, "mode=bytes", "bytes:src="+p.Src, "bytes:cons="+cons, "bytes:ref="+statusName(c.Ref.Status))
	if cons != p.Cons {
		out.Labels = append(out.Labels, "bytes:rerouted-to-reader")
		if hugeCount {
			out.Labels = append(out.Labels, "bytes:rerouted-huge-count")
		}
	}
	if len(p.Data) > 140 {
		out.Labels = append(out.Labels, "bytes:>140B")
	}
	if c.Ref.Status == stOK && uint64(c.Ref.Count) != uint64(c.NonLog) {
		out.Labels = append(out.Labels, "bytes:count-mismatch")
	}
	if c.IngestAt >= 0 {
		out.Labels = append(out.Labels, "bytes:has-ingest-kind")
	}
	if c.BadRangeKey >= 0 {
		out.Labels = append(out.Labels, "bytes:bad-rangekey-value")
	}
	out.Counters = map[string]int{"bytes": len(p.Data), "records_decoded": len(c.Ref.Entries)}
	// Non-trivial: the header is plausible and decoding goes beyond it.
	out.NonTrivial = len(p.Data) > hdrLen && uint64(c.Ref.Count) <= uint64(len(p.Data)-hdrLen) && len(c.Ref.Entries) >= 1

	q := p
	q.Cons = cons
	if sig := excludedFor(c, q); sig != "" {
		out.Excluded = sig
		return out, nil
	}
	if sig := findingClass(c, q); sig != "" {
		out.Labels = append(out.Labels, "bytes:class="+sig)
	}
	var err error
	switch cons {
	case "reader":
		err = execReader(q, c, &out)
	case "apply":
		err = execApply(q, c, &out)
	case "flushable":
		err = execFlushable(q, c, &out)
	case "wal":
		err = execWAL(q, c, &out)
	case "dbapply":
		err = execDBApply(q, c, &out)
	}
	return out, err
}

func exec(p Plan) (evid.Outcome, error) {
	switch p.Mode {
	case "ops":
		return execOps(p)
	case "bytes":
		return execBytes(p)
	}
	return evid.Outcome{}, fmt.Errorf("plan: unknown mode %q", p.Mode)
}
