package batchrepr

import (
	"bytes"
	"encoding/binary"

	"pgregory.net/rapid"
)

// Op is one batch operation of an "ops" plan.
type Op struct {
	K    uint8  `json:"k"`             // kind tag
	Key  []byte `json:"key"`           // key / range start / LogData payload
	Val  []byte `json:"val,omitempty"` // value (Set, Merge) or range end
	Suf  []byte `json:"suf,omitempty"` // range key suffix
	RV   []byte `json:"rv,omitempty"`  // RangeKeySet value
	Size uint32 `json:"size,omitempty"`
	Def  bool   `json:"def,omitempty"` // use the *Deferred API
}

// WalPlan asks for the WAL-replay differential of an ops plan.
type WalPlan struct {
	Chunks   []int  `json:"chunks"`    // sizes of the batches (records) the ops are split into
	BaseSeq  uint64 `json:"base_seq"`  // seqnum of the first record
	SmallMem uint64 `json:"small_mem"` // MemTableSize that turns batches into flushable batches
}

// Plan is either a sequence of operations ("ops") or a byte string ("bytes").
type Plan struct {
	Mode string `json:"mode"`

	// ops mode
	Ops      []Op     `json:"ops,omitempty"`
	Tgt      string   `json:"tgt,omitempty"`       // batch flavour built directly: plain | db | indexed
	ApplyTgt string   `json:"apply_tgt,omitempty"` // flavour of the Apply target
	Chunks   []int    `json:"chunks,omitempty"`    // Apply: sizes of the source batches
	SrcDB    bool     `json:"src_db,omitempty"`    // Apply: source batches belong to a DB
	Seq      uint64   `json:"seq,omitempty"`       // seqnum for the flushable batch
	Seeks    [][]byte `json:"seeks,omitempty"`     // seek probes
	WAL      *WalPlan `json:"wal,omitempty"`

	// bytes mode
	Data  []byte `json:"data,omitempty"`
	Src   string `json:"src,omitempty"`   // how Data was produced (label only)
	Cons  string `json:"cons,omitempty"`  // consumer: reader | apply | flushable | wal | dbapply
	Pre   bool   `json:"pre,omitempty"`   // apply: pre-populated target; wal: a valid record precedes Data
	Small bool   `json:"small,omitempty"` // wal: small MemTableSize
	RW    bool   `json:"rw,omitempty"`    // wal: open read-write (flushes) when the input is sane
	// Force executes the plan even if it falls in an active known-finding class
	// (used by the evid.Known demonstrations).
	Force bool `json:"force,omitempty"`
}

// pct draws a uniform percentage. rapid's integer generators are deliberately
// biased towards small values (IntRange(0,99) lands in the first decile 40% of
// the time), which would distort every weight below; seven fair coin flips are
// uniform and still shrink towards 0.
func pct(t *rapid.T, label string) int {
	v := 0
	for i := 0; i < 7; i++ {
		v <<= 1
		if rapid.Bool().Draw(t, label) {
			v |= 1
		}
	}
	return v * 100 / 128
}

var alphabet = []byte("abc")

func genKey(t *rapid.T, label string) []byte {
	switch p := pct(t, label+"-shape"); {
	case p < 70:
		return rapid.SliceOfN(rapid.SampledFrom(alphabet), 0, 3).Draw(t, label)
	case p < 92:
		return rapid.SliceOfN(rapid.Byte(), 0, 8).Draw(t, label)
	default:
		// long: two-byte length varints, and records that straddle the 128-byte
		// boundary of the reader's fast path.
		n := rapid.IntRange(120, 300).Draw(t, label+"-len")
		b := bytes.Repeat([]byte{rapid.SampledFrom(alphabet).Draw(t, label+"-fill")}, n)
		b[n-1] = rapid.Byte().Draw(t, label+"-last")
		return b
	}
}

func genVal(t *rapid.T, label string) []byte {
	switch p := pct(t, label+"-shape"); {
	case p < 75:
		return rapid.SliceOfN(rapid.Byte(), 0, 6).Draw(t, label)
	case p < 93:
		return rapid.SliceOfN(rapid.Byte(), 7, 40).Draw(t, label)
	case p < 99:
		n := rapid.IntRange(100, 400).Draw(t, label+"-len")
		return bytes.Repeat([]byte{rapid.Byte().Draw(t, label+"-fill")}, n)
	default:
		// three-byte length varint
		n := rapid.IntRange(1<<14, 1<<14+300).Draw(t, label+"-len")
		return bytes.Repeat([]byte{rapid.Byte().Draw(t, label+"-fill")}, n)
	}
}

// genRange draws start < end.
func genRange(t *rapid.T) (start, end []byte) {
	a, b := genKey(t, "start"), genKey(t, "end")
	switch c := bytes.Compare(a, b); {
	case c == 0:
		b = append(append([]byte(nil), a...), 0)
	case c > 0:
		a, b = b, a
	}
	return a, b
}

var suffixes = [][]byte{nil, []byte("@1"), []byte("@2"), []byte("@9")}

// genOps draws an operation sequence. dbSafe restricts SingleDelete to keys it
// may legally be used on (Writer.SingleDelete doc: the key must have been
// written at most once since the last delete) because those plans are also
// read back through a DB.
func genOps(t *rapid.T, dbSafe bool) []Op {
	var n int
	switch p := pct(t, "n-class"); {
	case p < 12:
		n = rapid.IntRange(0, 3).Draw(t, "n")
	case p < 70:
		n = rapid.IntRange(4, 12).Draw(t, "n")
	default:
		n = rapid.IntRange(13, 40).Draw(t, "n")
	}
	touched := map[string]int{} // point writes per key so far
	ops := make([]Op, 0, n)
	for i := 0; i < n; i++ {
		var op Op
		switch p := pct(t, "kind"); {
		case p < 24:
			op = Op{K: kSet, Key: genKey(t, "key"), Val: genVal(t, "val")}
		case p < 33:
			op = Op{K: kMerge, Key: genKey(t, "key"), Val: genVal(t, "val")}
		case p < 42:
			op = Op{K: kDelete, Key: genKey(t, "key")}
		case p < 48:
			op = Op{K: kSingleDelete, Key: genKey(t, "key")}
		case p < 56:
			op = Op{K: kDeleteSized, Key: genKey(t, "key"),
				Size: rapid.OneOf(rapid.Uint32Range(0, 200), rapid.Uint32()).Draw(t, "size")}
		case p < 66:
			s, e := genRange(t)
			op = Op{K: kRangeDelete, Key: s, Val: e}
		case p < 77:
			s, e := genRange(t)
			op = Op{K: kRangeKeySet, Key: s, Val: e, Suf: rapid.SampledFrom(suffixes).Draw(t, "suffix"), RV: genVal(t, "rv")}
		case p < 83:
			s, e := genRange(t)
			op = Op{K: kRangeKeyUnset, Key: s, Val: e, Suf: rapid.SampledFrom(suffixes).Draw(t, "suffix")}
		case p < 89:
			s, e := genRange(t)
			op = Op{K: kRangeKeyDelete, Key: s, Val: e}
		default:
			op = Op{K: kLogData, Key: genVal(t, "logdata")}
		}
		if dbSafe && op.K != kLogData && len(op.Key) == 0 {
			// Zero-length user keys are not supported by the on-disk formats
			// ("Zero-length keys are unsupported", sstable/properties.go); plans
			// that are flushed avoid them.
			op.Key = []byte{rapid.SampledFrom(alphabet).Draw(t, "nonempty")}
			if isRangeKind(op.K) && bytes.Compare(op.Key, op.Val) >= 0 {
				op.Val = append(append([]byte(nil), op.Key...), 0)
			}
		}
		if op.K == kSingleDelete && dbSafe && touched[string(op.Key)] > 0 {
			// Only single-delete keys nothing was written to before in this plan
			// (a fresh DB holds nothing else).
			op.K = kDelete
		}
		if isPointKind(op.K) {
			touched[string(op.Key)]++
		}
		switch op.K {
		case kSet, kMerge, kDelete, kSingleDelete, kDeleteSized, kRangeDelete, kRangeKeyDelete:
			op.Def = rapid.IntRange(0, 3).Draw(t, "deferred") == 0
		}
		ops = append(ops, op)
	}
	return ops
}

// genChunks splits n items into consecutive chunk sizes (possibly empty ones).
func genChunks(t *rapid.T, n int, label string) []int {
	k := rapid.IntRange(1, 4).Draw(t, label+"-k")
	var out []int
	left := n
	for i := 0; i < k-1; i++ {
		c := rapid.IntRange(0, left).Draw(t, label)
		out = append(out, c)
		left -= c
	}
	return append(out, left)
}

var flavours = []string{"plain", "db", "indexed"}

func genOpsPlan(t *rapid.T) Plan {
	wal := pct(t, "wal") < 9
	p := Plan{Mode: "ops"}
	p.Ops = genOps(t, wal)
	p.Tgt = rapid.SampledFrom(flavours).Draw(t, "tgt")
	p.ApplyTgt = rapid.SampledFrom(flavours).Draw(t, "apply-tgt")
	p.Chunks = genChunks(t, len(p.Ops), "chunk")
	p.SrcDB = rapid.Bool().Draw(t, "src-db")
	p.Seq = rapid.OneOf(rapid.Uint64Range(0, 20), rapid.Uint64Range(21, 1<<40)).Draw(t, "seq")
	nseek := rapid.IntRange(0, 4).Draw(t, "nseek")
	for i := 0; i < nseek; i++ {
		if len(p.Ops) > 0 && rapid.Bool().Draw(t, "seek-existing") {
			k := p.Ops[rapid.IntRange(0, len(p.Ops)-1).Draw(t, "seek-op")].Key
			p.Seeks = append(p.Seeks, append([]byte(nil), k...))
		} else {
			p.Seeks = append(p.Seeks, genKey(t, "seek"))
		}
	}
	if wal {
		p.WAL = &WalPlan{
			Chunks:   genChunks(t, len(p.Ops), "wal-chunk"),
			BaseSeq:  rapid.Uint64Range(10, 5000).Draw(t, "base-seq"),
			SmallMem: rapid.SampledFrom([]uint64{2048, 4096, 16384}).Draw(t, "small-mem"),
		}
	}
	return p
}

// ---- byte strings ---------------------------------------------------------

// opEntry is the reference encoding of an operation's record (written from the
// format docs, see model_test.go).
func opEntry(op Op) Entry {
	e := Entry{Kind: op.K, Key: op.Key}
	switch op.K {
	case kSet, kMerge, kRangeDelete, kRangeKeyDelete:
		e.Value = op.Val
	case kDeleteSized:
		// "Encode the sum of the key length and the value in the value", as a varint.
		e.Value = binary.AppendUvarint(nil, uint64(op.Size)+uint64(len(op.Key)))
	case kRangeKeyUnset:
		e.Value = appendVarstr(appendVarstr(nil, op.Val), op.Suf)
	case kRangeKeySet:
		e.Value = appendVarstr(appendVarstr(appendVarstr(nil, op.Val), op.Suf), op.RV)
	}
	return e
}

func opsEntries(ops []Op) (entries []Entry, nonLog uint32) {
	for _, op := range ops {
		entries = append(entries, opEntry(op))
		if op.K != kLogData {
			nonLog++
		}
	}
	return entries, nonLog
}

// genLen encodes a length field, sometimes lying about it.
func genLenField(t *rapid.T, trueLen int, honest bool) []byte {
	if honest {
		return binary.AppendUvarint(nil, uint64(trueLen))
	}
	switch pct(t, "len-lie") * 6 / 100 {
	case 0: // one more than available
		return binary.AppendUvarint(nil, uint64(trueLen+1))
	case 1: // much more
		return binary.AppendUvarint(nil, uint64(trueLen)+uint64(rapid.IntRange(2, 1<<20).Draw(t, "len-extra")))
	case 2: // shorter: the rest is reinterpreted
		if trueLen > 0 {
			return binary.AppendUvarint(nil, uint64(rapid.IntRange(0, trueLen-1).Draw(t, "len-short")))
		}
		return []byte{0x80} // truncated varint
	case 3: // non-canonical varint
		return []byte{byte(trueLen&0x7f) | 0x80, byte(trueLen>>7) | 0x80, 0x00}
	case 4: // five-byte varint overflowing 32 bits
		return []byte{0xff, 0xff, 0xff, 0xff, rapid.ByteRange(0x10, 0xff).Draw(t, "len-b5")}
	default: // max uint32
		return []byte{0xff, 0xff, 0xff, 0xff, 0x0f}
	}
}

var structuredKinds = []uint8{kDelete, kSet, kSet, kMerge, kLogData, kSingleDelete, kRangeDelete, kRangeKeyDelete,
	kRangeKeyUnset, kRangeKeySet, kRangeKeySet, kDeleteSized}
var oddKinds = []uint8{4, 5, 14, 16, 17, kSetWithDelete, 25, 27, 29, 30, 31, 64, 0x95, 255}
var ingestKinds = []uint8{kIngestSST, kIngestSST, kExcise, kIngestSSTWithBlobs}

// genRangeKeyValue draws a (mostly well-formed) RANGEKEYSET/UNSET value.
func genRangeKeyValue(t *rapid.T, kind uint8, start []byte) []byte {
	end := append(append([]byte(nil), start...), rapid.SliceOfN(rapid.SampledFrom(alphabet), 1, 2).Draw(t, "rk-end")...)
	v := appendVarstr(nil, end)
	ntuples := 1
	if pct(t, "rk-multi") < 15 {
		ntuples = 2
	}
	for i := 0; i < ntuples; i++ {
		v = appendVarstr(v, suffixes[(i+1)%len(suffixes)])
		if kind == kRangeKeySet {
			v = appendVarstr(v, genVal(t, "rk-val"))
		}
	}
	switch p := pct(t, "rk-break"); {
	case p < 78:
		return v
	case p < 84: // end key only (no suffix list)
		return appendVarstr(nil, end)
	case p < 89: // truncated
		return v[:rapid.IntRange(0, len(v)-1).Draw(t, "rk-trunc")]
	case p < 94: // length byte of the last tuple element exceeds the value
		w := append([]byte(nil), v...)
		return append(w, byte(rapid.IntRange(1, 120).Draw(t, "rk-oob")))
	case p < 97: // garbage
		return rapid.SliceOfN(rapid.Byte(), 0, 12).Draw(t, "rk-garbage")
	default: // huge end-key length
		return append([]byte{0xff, 0xff, 0xff, 0xff, 0xff, 0xff, 0xff, 0xff, 0xff, 0x01}, v...)
	}
}

// genStructured assembles a batch record by record with occasional lies.
func genStructured(t *rapid.T) []byte {
	var n int
	switch p := pct(t, "s-n-class"); {
	case p < 10:
		n = 0
	case p < 75:
		n = rapid.IntRange(1, 6).Draw(t, "s-n")
	default:
		n = rapid.IntRange(7, 25).Draw(t, "s-n")
	}
	family := pct(t, "s-family") // <8: ingest batch, <16: mixed, else ordinary
	liar := pct(t, "s-liar") < 45 // at most a few lies per input
	body := []byte{}
	count := 0
	for i := 0; i < n; i++ {
		var kind uint8
		switch kp := pct(t, "s-kind"); {
		case family < 8 && kp < 85:
			kind = rapid.SampledFrom(ingestKinds).Draw(t, "s-ingest-kind")
		case family < 16 && kp < 25:
			kind = rapid.SampledFrom(ingestKinds).Draw(t, "s-ingest-kind")
		case kp < 5 && liar:
			kind = rapid.SampledFrom(oddKinds).Draw(t, "s-odd-kind")
		default:
			kind = rapid.SampledFrom(structuredKinds).Draw(t, "s-kind-ok")
		}
		key := genKey(t, "s-key")
		if isIngestKind(kind) && kind != kExcise && pct(t, "s-filenum") < 80 {
			key = binary.AppendUvarint(nil, rapid.Uint64Range(1, 1<<20).Draw(t, "s-filenum-v"))
		}
		honest := func() bool { return !liar || pct(t, "s-honest") < 93 }
		body = append(body, kind)
		body = append(body, genLenField(t, len(key), honest())...)
		body = append(body, key...)
		two := kindHasValue(kind) || (kind > kMax && rapid.Bool().Draw(t, "s-odd-two"))
		if two {
			var val []byte
			switch kind {
			case kRangeKeySet, kRangeKeyUnset:
				val = genRangeKeyValue(t, kind, key)
			case kRangeDelete, kRangeKeyDelete, kExcise:
				val = append(append([]byte(nil), key...), rapid.SliceOfN(rapid.SampledFrom(alphabet), 0, 2).Draw(t, "s-end")...)
			case kDeleteSized:
				val = binary.AppendUvarint(nil, uint64(rapid.Uint32().Draw(t, "s-size")))
			case kIngestSSTWithBlobs:
				val = []byte{1, byte(rapid.IntRange(1, 100).Draw(t, "s-blob"))}
				if pct(t, "s-blob-bad") < 25 {
					val = []byte{byte(rapid.IntRange(2, 200).Draw(t, "s-blob-count")), 1}
				}
			default:
				val = genVal(t, "s-val")
			}
			body = append(body, genLenField(t, len(val), honest())...)
			body = append(body, val...)
		}
		if kind != kLogData {
			count++
		}
	}
	cnt := uint32(count)
	if liar {
		switch p := pct(t, "s-count"); {
		case p < 12:
			cnt++
		case p < 20 && cnt > 0:
			cnt--
		case p < 24:
			cnt = rapid.Uint32().Draw(t, "s-count-v")
		case p < 27:
			cnt = 0xffffffff
		}
	}
	hdr := make([]byte, hdrLen)
	binary.LittleEndian.PutUint64(hdr, rapid.OneOf(rapid.Uint64Range(10, 5000), rapid.Uint64Range(0, 9), rapid.Uint64()).Draw(t, "s-seq"))
	if pct(t, "s-seq-sane") < 85 {
		binary.LittleEndian.PutUint64(hdr, rapid.Uint64Range(100, 5000).Draw(t, "s-seq2"))
	}
	binary.LittleEndian.PutUint32(hdr[8:], cnt)
	return append(hdr, body...)
}

// mutate applies a few byte-level edits.
func mutate(t *rapid.T, data []byte) []byte {
	data = append([]byte(nil), data...)
	n := rapid.IntRange(1, 3).Draw(t, "m-n")
	for i := 0; i < n; i++ {
		if len(data) == 0 {
			return data
		}
		// Mostly leave the seqnum alone: a damaged seqnum is uninteresting.
		pos := rapid.IntRange(0, len(data)-1).Draw(t, "m-pos")
		if pos < 8 && len(data) > hdrLen && pct(t, "m-hdr") < 80 {
			pos = rapid.IntRange(8, len(data)-1).Draw(t, "m-pos2")
		}
		switch pct(t, "m-op") * 7 / 100 {
		case 0: // truncate
			data = data[:pos]
		case 1: // flip a bit
			data[pos] ^= 1 << rapid.IntRange(0, 7).Draw(t, "m-bit")
		case 2: // overwrite
			data[pos] = rapid.Byte().Draw(t, "m-byte")
		case 3: // insert
			data = append(data[:pos], append([]byte{rapid.Byte().Draw(t, "m-ins")}, data[pos:]...)...)
		case 4: // delete
			data = append(data[:pos], data[pos+1:]...)
		case 5: // +-1
			if rapid.Bool().Draw(t, "m-inc") {
				data[pos]++
			} else {
				data[pos]--
			}
		default: // duplicate a tail piece
			data = append(data, data[pos:]...)
		}
	}
	return data
}

func genConsumer(t *rapid.T) string {
	switch p := pct(t, "consumer"); {
	case p < 42:
		return "reader"
	case p < 62:
		return "apply"
	case p < 77:
		return "flushable"
	case p < 94:
		return "wal"
	default:
		return "dbapply"
	}
}

func genBytesPlan(t *rapid.T) Plan {
	p := Plan{Mode: "bytes"}
	switch s := pct(t, "src"); {
	case s < 8:
		p.Src = "random"
		p.Data = rapid.SliceOfN(rapid.Byte(), 0, 200).Draw(t, "random")
	case s < 55:
		p.Src = "structured"
		p.Data = genStructured(t)
	default:
		p.Src = "mutated"
		entries, nonLog := opsEntries(genOps(t, false))
		p.Data = mutate(t, refEncode(rapid.Uint64Range(100, 5000).Draw(t, "m-seq"), nonLog, entries))
	}
	p.Cons = genConsumer(t)
	p.Pre = rapid.Bool().Draw(t, "pre")
	p.Small = pct(t, "small") < 30
	p.RW = rapid.Bool().Draw(t, "rw")
	return p
}

func gen(t *rapid.T) Plan {
	if pct(t, "mode") < 30 {
		return genOpsPlan(t)
	}
	return genBytesPlan(t)
}
