// Package batchrepr: C31 — batch encoding round-trips and rejects malformed
// input safely.
//
// model_test.go holds everything that is independent of the implementation
// under test: a reference encoder/decoder for the batch wire format written
// from the format description in batch.go ("Internal representation") and
// internal/rangekey's package doc, input classifiers, and small reference
// models (sorted order, span fragmentation, point-key state).
package batchrepr

import (
	"bytes"
	"encoding/binary"
	"fmt"
	"math"
	"sort"
)

// Kind tags. These numbers are part of the file format ("These constants are
// part of the file format, and should not be changed", internal/base/internal.go).
const (
	kDelete             = 0
	kSet                = 1
	kMerge              = 2
	kLogData            = 3
	kSingleDelete       = 7
	kRangeDelete        = 15
	kSetWithDelete      = 18
	kRangeKeyDelete     = 19
	kRangeKeyUnset      = 20
	kRangeKeySet        = 21
	kIngestSST          = 22
	kDeleteSized        = 23
	kExcise             = 24
	kIngestSSTWithBlobs = 26
	kMax                = 30

	hdrLen = 12
	// seqNumBatchBit is base.SeqNumBatchBit (documented in internal.go: set on
	// the "sequence numbers" of indexed-batch entries, which are offsets).
	seqNumBatchBit = uint64(1) << 55
)

func kindName(k uint8) string {
	switch k {
	case kDelete:
		return "DEL"
	case kSet:
		return "SET"
	case kMerge:
		return "MERGE"
	case kLogData:
		return "LOGDATA"
	case kSingleDelete:
		return "SINGLEDEL"
	case kRangeDelete:
		return "RANGEDEL"
	case kRangeKeyDelete:
		return "RANGEKEYDEL"
	case kRangeKeyUnset:
		return "RANGEKEYUNSET"
	case kRangeKeySet:
		return "RANGEKEYSET"
	case kIngestSST:
		return "INGESTSST"
	case kDeleteSized:
		return "DELSIZED"
	case kExcise:
		return "EXCISE"
	case kIngestSSTWithBlobs:
		return "INGESTSSTBLOBS"
	}
	return fmt.Sprintf("K%d", k)
}

// isBatchKind: the kinds the batch format documents (batch.go table plus
// SingleDelete/DeleteSized/Excise whose writers are in batch.go).
func isBatchKind(k uint8) bool {
	switch k {
	case kDelete, kSet, kMerge, kLogData, kSingleDelete, kRangeDelete, kRangeKeyDelete, kRangeKeyUnset,
		kRangeKeySet, kIngestSST, kDeleteSized, kExcise, kIngestSSTWithBlobs:
		return true
	}
	return false
}

// kindHasValue: number of varstrings of a record (batch.go format table).
func kindHasValue(k uint8) bool {
	switch k {
	case kSet, kMerge, kRangeDelete, kRangeKeyDelete, kRangeKeyUnset, kRangeKeySet, kDeleteSized, kExcise,
		kIngestSSTWithBlobs:
		return true
	}
	return false
}

func isIngestKind(k uint8) bool {
	return k == kIngestSST || k == kExcise || k == kIngestSSTWithBlobs
}

func isRangeKeyKind(k uint8) bool {
	return k == kRangeKeyDelete || k == kRangeKeyUnset || k == kRangeKeySet
}

func isRangeKind(k uint8) bool { return k == kRangeDelete || isRangeKeyKind(k) }

func isPointKind(k uint8) bool {
	switch k {
	case kDelete, kSet, kMerge, kSingleDelete, kDeleteSized:
		return true
	}
	return false
}

// Entry is one decoded record.
type Entry struct {
	Kind  uint8
	Key   []byte
	Value []byte
	Off   int // offset of the kind byte within the repr
}

func appendVarstr(dst, s []byte) []byte {
	dst = binary.AppendUvarint(dst, uint64(len(s)))
	return append(dst, s...)
}

// refEncode builds a batch repr from entries (header: 8B LE seqnum, 4B LE
// count). It also fills in the entries' offsets.
func refEncode(seq uint64, count uint32, entries []Entry) []byte {
	b := make([]byte, hdrLen, hdrLen+16*len(entries))
	binary.LittleEndian.PutUint64(b[0:8], seq)
	binary.LittleEndian.PutUint32(b[8:12], count)
	for i := range entries {
		entries[i].Off = len(b)
		b = append(b, entries[i].Kind)
		b = appendVarstr(b, entries[i].Key)
		if kindHasValue(entries[i].Kind) {
			b = appendVarstr(b, entries[i].Value)
		}
	}
	return b
}

// Reference decode statuses.
const (
	stOK          = iota // the whole input decoded strictly
	stErr                // definitely malformed at ErrOff (no reading of the format accepts it)
	stUnknownKind        // a kind tag <= kMax that is not a batch kind: the reader's behaviour is undocumented, validators must reject
	stKind18             // SETWITHDEL: tolerated by the validators, undocumented as a batch kind: no verdict after it
	stAmbig              // a varint that is non-canonical or does not fit 32 bits: implementation-defined (error or any in-bounds decode)
	stShort              // shorter than a header
)

func statusName(s int) string {
	return [...]string{"ok", "err", "unknownkind", "kind18", "ambig-varint", "short"}[s]
}

// RefResult is the reference decoder's view of an input.
type RefResult struct {
	Status  int
	Seq     uint64
	Count   uint32
	Entries []Entry // the strictly decoded prefix
	ErrOff  int     // offset at which decoding stopped (Status != stOK)
	Why     string
}

const (
	vsOK = iota
	vsErr
	vsAmbig
)

// parseVarstr parses "a varint32 followed by N bytes of data".
func parseVarstr(p []byte) (s []byte, n int, st int, why string) {
	v, m := binary.Uvarint(p)
	if m == 0 {
		return nil, 0, vsErr, "truncated varint"
	}
	if m < 0 || m > 5 || v > math.MaxUint32 {
		return nil, 0, vsAmbig, "varint wider than 32 bits"
	}
	var tmp [binary.MaxVarintLen64]byte
	if binary.PutUvarint(tmp[:], v) != m {
		return nil, 0, vsAmbig, "non-canonical varint"
	}
	if v > uint64(len(p)-m) {
		return nil, 0, vsErr, "string length exceeds remaining input"
	}
	return p[m : m+int(v)], m + int(v), vsOK, ""
}

func refDecode(data []byte) RefResult {
	var r RefResult
	if len(data) < hdrLen {
		r.Status = stShort
		return r
	}
	r.Seq = binary.LittleEndian.Uint64(data[0:8])
	r.Count = binary.LittleEndian.Uint32(data[8:12])
	off := hdrLen
	for off < len(data) {
		k := data[off]
		stop := func(st int, why string) RefResult {
			r.Status, r.ErrOff, r.Why = st, off, why
			return r
		}
		if k > kMax {
			return stop(stErr, "kind > InternalKeyKindMax")
		}
		if k == kSetWithDelete {
			return stop(stKind18, "SETWITHDEL")
		}
		if !isBatchKind(k) {
			return stop(stUnknownKind, "kind is not a batch kind")
		}
		key, n, st, why := parseVarstr(data[off+1:])
		if st == vsErr {
			return stop(stErr, "key: "+why)
		} else if st == vsAmbig {
			return stop(stAmbig, "key: "+why)
		}
		e := Entry{Kind: k, Key: key, Off: off}
		next := off + 1 + n
		if kindHasValue(k) {
			val, n2, st, why := parseVarstr(data[next:])
			if st == vsErr {
				return stop(stErr, "value: "+why)
			} else if st == vsAmbig {
				return stop(stAmbig, "value: "+why)
			}
			e.Value = val
			next += n2
		}
		r.Entries = append(r.Entries, e)
		off = next
	}
	r.Status = stOK
	return r
}

// rangeKeyValueOK strictly validates the value of a RANGEKEYSET/RANGEKEYUNSET
// record (internal/rangekey package doc: varstring end key followed by a
// non-empty list of suffix(-value) varstrings). RANGEKEYDEL values are the raw
// end key and are always well formed.
func rangeKeyValueOK(kind uint8, v []byte) bool {
	if kind == kRangeKeyDelete {
		return true
	}
	_, n, st, _ := parseVarstr(v)
	if st != vsOK {
		return false
	}
	v = v[n:]
	if len(v) == 0 {
		return false
	}
	for len(v) > 0 {
		_, n, st, _ := parseVarstr(v)
		if st != vsOK {
			return false
		}
		v = v[n:]
		if kind == kRangeKeySet {
			_, n, st, _ := parseVarstr(v)
			if st != vsOK {
				return false
			}
			v = v[n:]
		}
	}
	return true
}

// decodeRangeKeyValue splits a strictly valid single-suffix range key value.
func decodeRangeKeyValue(kind uint8, v []byte) (end []byte, items [][2][]byte) {
	if kind == kRangeKeyDelete {
		return v, nil
	}
	end, n, _, _ := parseVarstr(v)
	v = v[n:]
	for len(v) > 0 {
		var it [2][]byte
		it[0], n, _, _ = parseVarstr(v)
		v = v[n:]
		if kind == kRangeKeySet {
			it[1], n, _, _ = parseVarstr(v)
			v = v[n:]
		}
		items = append(items, it)
	}
	return end, items
}

// blobIDsOK strictly validates an IngestSSTWithBlobs value (count varint then
// count varints, nothing else).
func blobIDsOK(v []byte) bool {
	c, n := binary.Uvarint(v)
	if n <= 0 {
		return false
	}
	v = v[n:]
	for i := uint64(0); i < c; i++ {
		_, n := binary.Uvarint(v)
		if n <= 0 {
			return false
		}
		v = v[n:]
	}
	return len(v) == 0
}

// Class summarises an input for the consumers' expectations and for the
// known-finding classes.
type Class struct {
	Ref         RefResult
	NonLog      int  // records other than LogData in the decoded prefix
	FirstIngest bool // the first record has an ingest/excise kind
	IngestAt    int  // index of the first ingest/excise record, -1 if none
	BadRangeKey int  // index of the first range-key record with a malformed value, -1 if none
	// RangesSane: every range record in the decoded prefix has start < end.
	RangesSane bool
	// EmptyKey: some non-LogData record has a zero-length key. Zero-length user
	// keys are outside the domain the store supports on disk ("Zero-length keys
	// are unsupported", sstable/properties.go), so such inputs are never flushed.
	EmptyKey bool
	// IngestWellFormed: a batch that consists only of ingest/excise records that
	// replay can interpret (valid file numbers, <= 1 excise, matching count).
	IngestWellFormed bool
}

func classify(data []byte) Class {
	c := Class{Ref: refDecode(data), IngestAt: -1, BadRangeKey: -1, RangesSane: true}
	excises := 0
	allIngest := true
	filenumsOK := true
	for i, e := range c.Ref.Entries {
		if e.Kind != kLogData {
			c.NonLog++
			if len(e.Key) == 0 {
				c.EmptyKey = true
			}
		}
		if isIngestKind(e.Kind) {
			if c.IngestAt < 0 {
				c.IngestAt = i
			}
			if i == 0 {
				c.FirstIngest = true
			}
			switch e.Kind {
			case kExcise:
				excises++
			case kIngestSST, kIngestSSTWithBlobs:
				if _, n := binary.Uvarint(e.Key); n <= 0 {
					filenumsOK = false
				}
				if e.Kind == kIngestSSTWithBlobs && !blobIDsOK(e.Value) {
					filenumsOK = false
				}
			}
		} else {
			allIngest = false
		}
		if (e.Kind == kRangeKeySet || e.Kind == kRangeKeyUnset) && c.BadRangeKey < 0 && !rangeKeyValueOK(e.Kind, e.Value) {
			c.BadRangeKey = i
		}
		if isRangeKind(e.Kind) {
			end := e.Value
			if e.Kind == kRangeKeySet || e.Kind == kRangeKeyUnset {
				if rangeKeyValueOK(e.Kind, e.Value) {
					end, _ = decodeRangeKeyValue(e.Kind, e.Value)
				} else {
					end = nil
				}
			}
			if bytes.Compare(e.Key, end) >= 0 {
				c.RangesSane = false
			}
		}
	}
	c.IngestWellFormed = c.Ref.Status == stOK && c.FirstIngest && allIngest && filenumsOK && excises <= 1 &&
		uint64(c.Ref.Count) == uint64(len(c.Ref.Entries))
	return c
}

// Validator expectations.
const (
	exUnknown  = iota // no verdict (only: no panic)
	exMustErr         // must return an error
	exMustOK          // must succeed
	exIngestAt        // reaches an ingest/excise record first (Batch.Apply asserts)
)

// expectValidate walks the decoded prefix the way a validating consumer does
// (record by record, stopping at the first problem).
func expectValidate(c Class, allowed func(uint8) bool, ingestSpecial bool) int {
	for _, e := range c.Ref.Entries {
		if ingestSpecial && isIngestKind(e.Kind) {
			return exIngestAt
		}
		if !allowed(e.Kind) {
			return exMustErr
		}
	}
	switch c.Ref.Status {
	case stOK:
		return exMustOK
	case stErr, stUnknownKind, stShort:
		return exMustErr
	}
	return exUnknown
}

func allowedSetRepr(k uint8) bool { return isBatchKind(k) }
func allowedApply(k uint8) bool   { return isBatchKind(k) && !isIngestKind(k) }

// ---- sorted-order model -------------------------------------------------

// ModelKV is one point entry as a sorted batch iterator must yield it.
type ModelKV struct {
	Key     []byte
	Trailer uint64 // seqnum<<8 | kind
	Value   []byte
}

// seqFn maps (ordinal among non-LogData records, record offset) to a seqnum.
type seqFn func(ordinal int, off int) uint64

func flushableSeq(base uint64) seqFn {
	return func(ordinal, _ int) uint64 { return base + uint64(ordinal) }
}

func indexedSeq() seqFn {
	return func(_ int, off int) uint64 { return uint64(off) | seqNumBatchBit }
}

// modelPoints: point records sorted by user key ascending, seqnum descending.
func modelPoints(entries []Entry, sf seqFn) []ModelKV {
	var out []ModelKV
	ord := 0
	for _, e := range entries {
		if e.Kind == kLogData {
			continue
		}
		if isPointKind(e.Kind) {
			out = append(out, ModelKV{Key: e.Key, Trailer: sf(ord, e.Off)<<8 | uint64(e.Kind), Value: e.Value})
		}
		ord++
	}
	sort.SliceStable(out, func(i, j int) bool {
		if c := bytes.Compare(out[i].Key, out[j].Key); c != 0 {
			return c < 0
		}
		return out[i].Trailer > out[j].Trailer
	})
	return out
}

// ModelSpanKey / ModelSpan: a fragmented span.
type ModelSpanKey struct {
	Trailer uint64
	Suffix  []byte
	Value   []byte
}
type ModelSpan struct {
	Start, End []byte
	Keys       []ModelSpanKey
}

type rawSpan struct {
	start, end []byte
	key        ModelSpanKey
}

// fragment splits overlapping spans at every boundary; each fragment holds the
// keys of all covering spans in decreasing trailer order (keyspan.Fragmenter
// doc: "Keys are ordered in decreasing order of their sequence numbers").
func fragment(raw []rawSpan) []ModelSpan {
	var bounds [][]byte
	for _, s := range raw {
		bounds = append(bounds, s.start, s.end)
	}
	sort.Slice(bounds, func(i, j int) bool { return bytes.Compare(bounds[i], bounds[j]) < 0 })
	var uniq [][]byte
	for i, b := range bounds {
		if i == 0 || !bytes.Equal(b, bounds[i-1]) {
			uniq = append(uniq, b)
		}
	}
	var out []ModelSpan
	for i := 0; i+1 < len(uniq); i++ {
		lo, hi := uniq[i], uniq[i+1]
		var keys []ModelSpanKey
		for _, s := range raw {
			if bytes.Compare(s.start, lo) <= 0 && bytes.Compare(hi, s.end) <= 0 {
				keys = append(keys, s.key)
			}
		}
		if len(keys) == 0 {
			continue
		}
		sort.SliceStable(keys, func(a, b int) bool { return keys[a].Trailer > keys[b].Trailer })
		out = append(out, ModelSpan{Start: lo, End: hi, Keys: keys})
	}
	return out
}

// modelSpans returns the fragmented range deletions and range keys. All range
// records must have start < end and well-formed values.
func modelSpans(entries []Entry, sf seqFn) (rangeDels, rangeKeys []ModelSpan) {
	var rd, rk []rawSpan
	ord := 0
	for _, e := range entries {
		if e.Kind == kLogData {
			continue
		}
		tr := sf(ord, e.Off)<<8 | uint64(e.Kind)
		switch e.Kind {
		case kRangeDelete:
			rd = append(rd, rawSpan{e.Key, e.Value, ModelSpanKey{Trailer: tr}})
		case kRangeKeyDelete:
			rk = append(rk, rawSpan{e.Key, e.Value, ModelSpanKey{Trailer: tr}})
		case kRangeKeySet, kRangeKeyUnset:
			end, items := decodeRangeKeyValue(e.Kind, e.Value)
			for _, it := range items {
				rk = append(rk, rawSpan{e.Key, end, ModelSpanKey{Trailer: tr, Suffix: it[0], Value: it[1]}})
			}
		}
		ord++
	}
	return fragment(rd), fragment(rk)
}

// ---- point-state model (what a reader of the DB sees) --------------------

type kvPair struct{ K, V []byte }

// modelState applies the records in order: Set overwrites, Merge concatenates
// (the default merger "pebble.concatenate" appends newer operands), the three
// delete kinds remove the key, DeleteRange removes [start,end). Range keys and
// LogData do not affect point keys.
func modelState(entries []Entry) []kvPair {
	m := map[string][]byte{}
	for _, e := range entries {
		switch e.Kind {
		case kSet:
			m[string(e.Key)] = append([]byte(nil), e.Value...)
		case kMerge:
			m[string(e.Key)] = append(append([]byte(nil), m[string(e.Key)]...), e.Value...)
		case kDelete, kSingleDelete, kDeleteSized:
			delete(m, string(e.Key))
		case kRangeDelete:
			for k := range m {
				if bytes.Compare([]byte(k), e.Key) >= 0 && bytes.Compare([]byte(k), e.Value) < 0 {
					delete(m, k)
				}
			}
		}
	}
	out := make([]kvPair, 0, len(m))
	for k, v := range m {
		out = append(out, kvPair{[]byte(k), v})
	}
	sort.Slice(out, func(i, j int) bool { return bytes.Compare(out[i].K, out[j].K) < 0 })
	return out
}
