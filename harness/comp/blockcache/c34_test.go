package blockcache

import (
	"runtime/debug"
	"testing"

	"github.com/cockroachdb/pebble/verifharness/evid"
)

// knownSizeOvershoot is the smallest demonstration of the candidate finding:
// one shard of 100 bytes, two 60-byte blocks, no reservation: Size() == 120.
var knownSizeOvershoot = Plan{
	Caches:     []CacheCfg{{Size: 100, Shards: 1, Handles: 1}},
	NOff:       4,
	StrictSize: true,
	Ops: []Op{
		{K: "set", F: 0, O: 0, N: 60},
		{K: "set", F: 0, O: 1, N: 60},
	},
}

func TestC34(t *testing.T) {
	curT = t
	startWatchdog()
	// See the comment on dirty in exec_test.go.
	defer debug.SetGCPercent(debug.SetGCPercent(-1))
	evid.Run(t, evid.Spec[Plan]{
		ID: "C34", Level: "exploration",
		Rule: "rapid draws 1-2 caches (capacity 0-64 KiB, 1-4 shards, 1-3 handles) and 1-60 ops over 3 files x 4|8 offsets " +
			"(Set/Get/Peek/Delete/EvictFile/Reserve/handle close+reopen/cache Unref, hold/release of returned values, gated " +
			"GetWithReadHandle readers with SetReadValue/SetReadError/ctx cancel, ungated reader bursts), run in a synctest bubble " +
			"against a map model; non-trivial = a value held by the harness was verified intact after the cache had dropped it " +
			"(overwrite, Delete, EvictFile, observed capacity eviction, cache destroy), or >=2 readers shared one read " +
			"(a waiter received the turn holder's value, or the turn passed to a waiter after an error); distinct = hash of plan JSON",
		Assumptions: []string{
			"testing/synctest: after synctest.Wait every reader goroutine has returned or is durably blocked",
			"values are compared by content; each stored value has a unique stamp whose bytes are never 0xFF (the invariants-build poison)",
			"Handle.Close is only called when no GetWithReadHandle of that handle is in flight (caller contract in sstable/block)",
			"burst readers run unsynchronised: their interleaving is chosen by the Go scheduler, the oracle accepts every legal interleaving",
		},
		Gen: gen, Exec: exec,
		Quick: 1500, Thorough: 30000,
		Known: []evid.Known[Plan]{{Signature: findingSizeOvershoot, Plan: knownSizeOvershoot}},
		Sample: func(p Plan) any {
			ops := p.Ops
			if len(ops) > 25 {
				ops = ops[:25]
			}
			return map[string]any{"caches": p.Caches, "noff": p.NOff, "nops": len(p.Ops), "first_ops": ops}
		},
	})
}
