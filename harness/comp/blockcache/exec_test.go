package blockcache

import (
	"context"
	"errors"
	"fmt"
	"runtime"
	"runtime/debug"
	"sort"
	"sync"
	"testing"
	"testing/synctest"
	"time"

	"github.com/cockroachdb/pebble/internal/base"
	"github.com/cockroachdb/pebble/internal/cache"
	"github.com/cockroachdb/pebble/internal/manual"
	"github.com/cockroachdb/pebble/verifharness/evid"
)

// curT is the *testing.T of TestC34; synctest.Test needs one.
var curT *testing.T

// The "invariants" build installs GC finalizers on cache values, entries and
// caches that os.Exit(1) when an object is collected without having been
// freed. That is a fine assertion for unit tests but here it would turn a
// detected leak into a dead process before the VIOLATION line is printed.
// The automatic GC is therefore switched off for the test process (see
// TestC34) and a collection is run explicitly between cases for as long as no
// case has failed (dirty == false). After the first failing case the process
// only lives for the shrinking budget.
var (
	dirty     bool
	caseCount int
)

// A panic raised inside the cache (assertion, reference count underflow) often
// leaves a shard or read-entry mutex locked. The panic itself is the violation;
// what must be avoided is calling into the wedged cache again (hang). So after
// any panic the case is abandoned without teardown (runner.poisoned). Reader
// goroutines of a burst can additionally wedge each other before the root
// goroutine gets to look; for that the watchdog below (a goroutine outside any
// bubble, on the real clock) crashes the process with the recorded panic when a
// case with a recorded panic does not finish. The driver then replays the
// in-flight plan. The watchdog never creates a verdict: it only fires after a
// real panic inside the cache was recorded.
var wd struct {
	sync.Mutex
	msg  string
	seen int // seconds the watchdog has seen msg set
}

func wdRecord(msg string) {
	wd.Lock()
	if wd.msg == "" {
		wd.msg, wd.seen = msg, 0
	}
	wd.Unlock()
}

func wdClear() {
	wd.Lock()
	wd.msg = ""
	wd.Unlock()
}

var wdOnce sync.Once

func startWatchdog() {
	wdOnce.Do(func() {
		go func() {
			for {
				time.Sleep(time.Second)
				wd.Lock()
				if wd.msg != "" {
					wd.seen++
					if wd.seen > 15 {
						panic("C34: the cache panicked and the case cannot finish (cache left wedged): " + wd.msg)
					}
				}
				wd.Unlock()
			}
		}()
	})
}

// errStrictSize tags the violation of the literal size clause. It is the only
// violation after which the process is known to be clean (teardown and the
// memory accounting check still ran and passed), so it does not set dirty.
var errStrictSize = errors.New("")

func maybeGC() {
	caseCount++
	if !dirty && caseCount%25 == 0 {
		runtime.GC()
	}
}

// ---- stamps --------------------------------------------------------------

// stamp identifies the contents of one allocated value: every Set /
// SetReadValue uses a fresh id, and byte i of the value is pat(id, i).
// pat never produces 0xFF, the poison byte of the invariants build.
type stamp struct{ id, size int }

func pat(id, i int) byte { return byte((id*131 + i*31 + (i>>8)*7 + 17) % 251) }

func fillStamp(b []byte, id int) {
	for i := range b {
		b[i] = pat(id, i)
	}
}

// matches reports whether v holds exactly the bytes of s. The length is
// compared first so that a freed value (nil or garbage buffer header) is
// reported without dereferencing its buffer.
func matches(v *cache.Value, s stamp) error {
	b := v.RawBuffer()
	if len(b) != s.size {
		return fmt.Errorf("value buffer has length %d, want %d (stamp %d)", len(b), s.size, s.id)
	}
	for i := range b {
		if b[i] != pat(s.id, i) {
			poison := 0
			for _, x := range b {
				if x == 0xff {
					poison++
				}
			}
			return fmt.Errorf("value byte %d is %#x, want %#x (stamp %d, size %d, %d bytes are 0xff poison)",
				i, b[i], pat(s.id, i), s.id, s.size, poison)
		}
	}
	return nil
}

// ---- runtime state -------------------------------------------------------

type rKey struct{ c, inst, f, o int }

type rtHandle struct {
	h      *cache.Handle
	inst   int
	latest map[[2]int]stamp // the model: latest value stored per (file, offset)
}

type rtCache struct {
	cfg      CacheCfg
	c        *cache.Cache
	alive    bool
	creator  bool
	handles  [maxSlots]*rtHandle
	reserves []func()
	lastIns  int   // size of the most recent value handed to Set/SetReadValue
	topIns   []int // the Shards largest such sizes, descending
	orphan   int64 // bytes of latest values of closed handles (may still be cached)
}

type heldValue struct {
	v        *cache.Value
	s        stamp
	key      rKey
	detached bool // the cache is known to have dropped this value
	src      string
}

type reader struct {
	key    rKey
	hold   bool
	pre    bool
	cancel context.CancelFunc

	mu    sync.Mutex
	done  bool
	cv    *cache.Value
	rh    cache.ReadHandle
	hit   bool
	err   error
	panic string
}

func (r *reader) snapshot() (done bool, cv *cache.Value, rh cache.ReadHandle, hit bool, err error, pnc string) {
	r.mu.Lock()
	defer r.mu.Unlock()
	return r.done, r.cv, r.rh, r.hit, r.err, r.panic
}

type runner struct {
	p       Plan
	caches  []*rtCache
	nextID  int
	nextIns int
	held    []*heldValue
	turn    map[rKey]*reader
	blocked map[rKey][]*reader
	stuck   []*reader // burst readers that never finished (violation already reported)
	nGated  int

	labels   map[string]bool
	counters map[string]int
	nt1, nt2 bool
	tearing  bool // teardown has started
	poisoned bool // a panic came out of the cache: do not touch it again
}

func (r *runner) label(l string) { r.labels[l] = true }

func level(l int) base.Level {
	if l <= 0 {
		return base.Level{}
	}
	return base.MakeLevel(l - 1)
}

func (r *runner) newStamp(size int) stamp {
	r.nextID++
	return stamp{id: r.nextID, size: size}
}

func alloc(s stamp) *cache.Value {
	v := cache.Alloc(s.size)
	fillStamp(v.RawBuffer(), s.id)
	return v
}

func (r *runner) hold(v *cache.Value, s stamp, key rKey, src string) {
	r.held = append(r.held, &heldValue{v: v, s: s, key: key, src: src})
}

// detach marks held values of key (other than keep) as dropped by the cache.
func (r *runner) detach(key rKey, keepID int) {
	for _, h := range r.held {
		if h.key == key && h.s.id != keepID {
			h.detached = true
		}
	}
}

func (r *runner) detachWhere(pred func(rKey) bool) {
	for _, h := range r.held {
		if pred(h.key) {
			h.detached = true
		}
	}
}

// verifyHeld checks every value the harness holds a reference to.
func (r *runner) verifyHeld(when string) error {
	for i, h := range r.held {
		if err := matches(h.v, h.s); err != nil {
			return fmt.Errorf("held value #%d (from %s, key %v, detached=%v) changed while referenced, %s: %v",
				i, h.src, h.key, h.detached, when, err)
		}
		if h.detached {
			r.nt1 = true
			r.label("held-value-outlived-midplan-eviction")
		}
	}
	return nil
}

func (r *runner) sizeChecks(when string) error {
	for ci, rc := range r.caches {
		if !rc.alive {
			continue
		}
		size, maxSize := rc.c.Size(), rc.c.MaxSize()
		if maxSize != rc.cfg.Size {
			return fmt.Errorf("cache %d: MaxSize()=%d, configured %d", ci, maxSize, rc.cfg.Size)
		}
		if size < 0 {
			return fmt.Errorf("cache %d: Size()=%d is negative %s", ci, size, when)
		}
		// The cache holds at most the latest value of every key.
		upper := rc.orphan
		for _, h := range rc.handles {
			if h != nil {
				for _, s := range h.latest {
					upper += int64(s.size)
				}
			}
		}
		if size > upper {
			return fmt.Errorf("cache %d: Size()=%d exceeds the total size %d of the latest values of all keys %s",
				ci, size, upper, when)
		}
		if len(rc.reserves) > 0 {
			continue
		}
		if size > maxSize {
			r.counters["size_overshoot_observed"]++
			r.label("size-overshoot-observed")
			if r.p.StrictSize {
				return fmt.Errorf("%wcache %d (shards=%d): Size()=%d exceeds MaxSize()=%d with no reservation outstanding %s [%s]",
					errStrictSize, ci, rc.cfg.Shards, size, maxSize, when, findingSizeOvershoot)
			}
		}
		// Bound that tolerates one just-inserted value per shard.
		// Per shard: evict() runs before a new entry is linked and leaves the
		// shard strictly below its target (>= 1), then one value of at most the
		// target size is added. With one shard the value is the last one
		// inserted; with n shards the n values are n different inserts, so
		// their sizes sum to at most the n largest insert sizes so far.
		n := int64(rc.cfg.Shards)
		perShard := max(1, maxSize/n)
		bound := n * (perShard - 1)
		if n == 1 {
			bound += min(int64(rc.lastIns), perShard)
		} else {
			for _, s := range rc.topIns {
				bound += min(int64(s), perShard)
			}
		}
		if size > bound {
			return fmt.Errorf("cache %d (shards=%d): Size()=%d exceeds capacity %d by more than one inserted value per shard (bound %d) %s",
				ci, rc.cfg.Shards, size, maxSize, bound, when)
		}
	}
	return nil
}

func (r *runner) handle(op Op) (*rtCache, *rtHandle) {
	if op.C < 0 || op.C >= len(r.caches) {
		return nil, nil
	}
	rc := r.caches[op.C]
	if !rc.alive || op.H < 0 || op.H >= maxSlots {
		return rc, nil
	}
	return rc, rc.handles[op.H]
}

func keyOf(op Op, h *rtHandle) (rKey, base.DiskFileNum, uint64, bool) {
	if op.F < 0 || op.F >= len(fileNums) || op.O < 0 || op.O >= len(offsets) {
		return rKey{}, 0, 0, false
	}
	return rKey{op.C, h.inst, op.F, op.O}, base.DiskFileNum(fileNums[op.F]), offsets[op.O], true
}

func (r *runner) noteInsert(rc *rtCache, size int) {
	rc.lastIns = size
	rc.topIns = append(rc.topIns, size)
	sort.Sort(sort.Reverse(sort.IntSlice(rc.topIns)))
	if len(rc.topIns) > rc.cfg.Shards {
		rc.topIns = rc.topIns[:rc.cfg.Shards]
	}
}

// checkHit validates a value returned for key by Get/Peek/GetWithReadHandle.
func (r *runner) checkHit(h *rtHandle, key rKey, v *cache.Value, what string) (stamp, error) {
	s, ok := h.latest[[2]int{key.f, key.o}]
	if !ok {
		return s, fmt.Errorf("%s %v returned a value (%d bytes) but nothing is stored for this block in this handle (never set, deleted, file evicted, or handle re-opened)",
			what, key, len(v.RawBuffer()))
	}
	if err := matches(v, s); err != nil {
		return s, fmt.Errorf("%s %v did not return the latest value: %v", what, key, err)
	}
	return s, nil
}

func (r *runner) keepOrRelease(v *cache.Value, s stamp, key rKey, hold bool, src string) {
	if hold && len(r.held) < 12 {
		r.hold(v, s, key, src)
	} else {
		v.Release()
	}
}

func (r *runner) readersOnHandle(c, inst int) bool {
	for k := range r.turn {
		if k.c == c && k.inst == inst {
			return true
		}
	}
	for k, b := range r.blocked {
		if k.c == c && k.inst == inst && len(b) > 0 {
			return true
		}
	}
	return false
}

func (r *runner) spawnReader(h *cache.Handle, rd *reader, ctx context.Context, file base.DiskFileNum, off uint64, op Op, start chan struct{}, then func(*reader)) {
	go func() {
		defer func() {
			if p := recover(); p != nil {
				msg := fmt.Sprintf("%v\n%s", p, debug.Stack())
				wdRecord(msg)
				rd.mu.Lock()
				rd.panic = msg
				rd.done = true
				rd.mu.Unlock()
			}
		}()
		if start != nil {
			<-start
		}
		cv, rh, _, _, hit, err := h.GetWithReadHandle(ctx, file, off, level(op.Lvl), cache.Category(op.Cat))
		if then != nil {
			rd.cv, rd.rh, rd.hit, rd.err = cv, rh, hit, err
			then(rd)
		}
		rd.mu.Lock()
		rd.cv, rd.rh, rd.hit, rd.err = cv, rh, hit, err
		rd.done = true
		rd.mu.Unlock()
	}()
}

// finishedWithValue validates a gated reader that came back with a value.
func (r *runner) consumeValue(rd *reader, h *rtHandle, cv *cache.Value, want *stamp, what string) error {
	var s stamp
	if want != nil {
		s = *want
		if err := matches(cv, s); err != nil {
			return fmt.Errorf("%s %v: waiter did not receive the value set by the reader that had the turn: %v", what, rd.key, err)
		}
	} else {
		var err error
		if s, err = r.checkHit(h, rd.key, cv, what); err != nil {
			return err
		}
	}
	r.keepOrRelease(cv, s, rd.key, rd.hold, what)
	return nil
}

func (r *runner) step(i int, op Op) error {
	when := fmt.Sprintf("after op %d (%s)", i, op.K)
	switch op.K {
	case "set", "fill":
		rc, h := r.handle(op)
		if h == nil {
			r.counters["skipped"]++
			return nil
		}
		offs := []int{op.O}
		if op.K == "fill" {
			offs = offs[:0]
			for o := 0; o < r.p.NOff; o++ {
				offs = append(offs, o)
			}
		}
		if op.N < 1 || op.N > maxValueSize {
			r.counters["skipped"]++
			return nil
		}
		for _, o := range offs {
			op.O = o
			key, file, off, ok := keyOf(op, h)
			if !ok {
				r.counters["skipped"]++
				return nil
			}
			s := r.newStamp(op.N)
			v := alloc(s)
			h.h.Set(file, off, v)
			h.latest[[2]int{key.f, key.o}] = s
			r.noteInsert(rc, s.size)
			r.detach(key, s.id)
			r.keepOrRelease(v, s, key, op.Hold && op.K == "set", "set")
			if int64(s.size) > max(1, rc.cfg.Size/int64(rc.cfg.Shards)) {
				r.label("set-larger-than-shard")
			}
		}
		r.counters["sets"] += len(offs)

	case "touch":
		_, h := r.handle(op)
		if h == nil || op.F < 0 || op.F >= len(fileNums) || op.Cat < 0 || op.Cat > 5 {
			r.counters["skipped"]++
			return nil
		}
		for o := 0; o < r.p.NOff; o++ {
			op.O = o
			key, file, off, _ := keyOf(op, h)
			v := h.h.Get(file, off, level(op.Lvl), cache.Category(op.Cat))
			if v == nil {
				r.counters["misses"]++
				if s, ok := h.latest[[2]int{key.f, key.o}]; ok {
					r.counters["miss_on_stored"]++
					r.label("capacity-eviction-observed")
					for _, hv := range r.held {
						if hv.key == key && hv.s.id == s.id {
							hv.detached = true
						}
					}
				}
				continue
			}
			r.counters["hits"]++
			if _, err := r.checkHit(h, key, v, "touch"); err != nil {
				return err
			}
			v.Release()
		}

	case "get", "peek":
		_, h := r.handle(op)
		if h == nil {
			r.counters["skipped"]++
			return nil
		}
		key, file, off, ok := keyOf(op, h)
		if !ok || op.Cat < -1 || op.Cat > 5 || (op.K == "get" && op.Cat < 0) {
			r.counters["skipped"]++
			return nil
		}
		var v *cache.Value
		if op.K == "get" {
			v = h.h.Get(file, off, level(op.Lvl), cache.Category(op.Cat))
		} else {
			v = h.h.Peek(file, off, level(op.Lvl), cache.Category(op.Cat))
		}
		if v == nil {
			r.counters["misses"]++
			if s, ok := h.latest[[2]int{key.f, key.o}]; ok {
				// Stored but gone: evicted for capacity (or never admitted).
				r.counters["miss_on_stored"]++
				r.label("capacity-eviction-observed")
				for _, hv := range r.held {
					if hv.key == key && hv.s.id == s.id {
						hv.detached = true
					}
				}
			}
			break
		}
		r.counters["hits"]++
		s, err := r.checkHit(h, key, v, op.K)
		if err != nil {
			return err
		}
		r.keepOrRelease(v, s, key, op.Hold, op.K)

	case "del":
		_, h := r.handle(op)
		if h == nil {
			r.counters["skipped"]++
			return nil
		}
		key, file, off, ok := keyOf(op, h)
		if !ok {
			r.counters["skipped"]++
			return nil
		}
		h.h.Delete(file, off)
		delete(h.latest, [2]int{key.f, key.o})
		r.detach(key, -1)
		r.counters["deletes"]++

	case "evict":
		_, h := r.handle(op)
		if h == nil || op.F < 0 || op.F >= len(fileNums) {
			r.counters["skipped"]++
			return nil
		}
		h.h.EvictFile(base.DiskFileNum(fileNums[op.F]))
		n := 0
		for k := range h.latest {
			if k[0] == op.F {
				delete(h.latest, k)
				n++
			}
		}
		if n >= 6 {
			r.label("evictfile>=6blocks")
		}
		r.detachWhere(func(k rKey) bool { return k.c == op.C && k.inst == h.inst && k.f == op.F })
		r.counters["evictfiles"]++

	case "read":
		_, h := r.handle(op)
		if h == nil || r.nGated >= maxReaders || op.Cat < 0 || op.Cat > 5 {
			r.counters["skipped"]++
			return nil
		}
		key, file, off, ok := keyOf(op, h)
		if !ok {
			r.counters["skipped"]++
			return nil
		}
		ctx, cancel := context.WithCancel(context.Background())
		if op.Pre {
			cancel()
		}
		rd := &reader{key: key, hold: op.Hold, pre: op.Pre, cancel: cancel}
		r.spawnReader(h.h, rd, ctx, file, off, op, nil, nil)
		synctest.Wait()
		r.counters["reads"]++
		done, cv, rh, hit, err, pnc := rd.snapshot()
		holder := r.turn[key]
		switch {
		case !done:
			if holder == nil {
				r.stuck = append(r.stuck, rd)
				return fmt.Errorf("read %v: GetWithReadHandle blocks although no reader holds the read turn for this block", key)
			}
			if op.Pre {
				r.stuck = append(r.stuck, rd)
				return fmt.Errorf("read %v: GetWithReadHandle with an already cancelled context stays blocked", key)
			}
			r.blocked[key] = append(r.blocked[key], rd)
			r.nGated++
			r.label("reader-blocked-behind-turn")
		case pnc != "":
			return fmt.Errorf("read %v: panic in GetWithReadHandle: %s", key, pnc)
		case err != nil:
			cancel()
			if !op.Pre || !errors.Is(err, context.Canceled) {
				return fmt.Errorf("read %v: unexpected error %v (pre-cancelled=%v)", key, err, op.Pre)
			}
			if cv != nil || rh.Valid() {
				return fmt.Errorf("read %v: error %v returned together with a value or a read handle", key, err)
			}
			r.label("reader-precancelled-error")
		case cv != nil:
			cancel()
			if rh.Valid() {
				return fmt.Errorf("read %v: both a value and a valid ReadHandle returned", key)
			}
			if err := r.consumeValue(rd, h, cv, nil, "read"); err != nil {
				return err
			}
			_ = hit
			r.label("reader-cache-hit")
		case rh.Valid():
			if holder != nil {
				return fmt.Errorf("read %v: a second reader was granted the read turn while another reader still holds it (single-flight broken)", key)
			}
			r.turn[key] = rd
			r.nGated++
			r.label("reader-got-turn")
		default:
			return fmt.Errorf("read %v: GetWithReadHandle returned no value, no valid ReadHandle and no error", key)
		}

	case "rdval", "rderr":
		rc, h := r.handle(op)
		if h == nil {
			r.counters["skipped"]++
			return nil
		}
		key, _, _, ok := keyOf(op, h)
		holder := r.turn[key]
		if !ok || holder == nil || (op.K == "rdval" && (op.N < 1 || op.N > maxValueSize)) {
			r.counters["skipped"]++
			return nil
		}
		_, _, rh, _, _, _ := holder.snapshot()
		waiters := r.blocked[key]
		delete(r.turn, key)
		r.nGated--
		holder.cancel()
		if op.K == "rdval" {
			s := r.newStamp(op.N)
			v := alloc(s)
			rh.SetReadValue(v)
			h.latest[[2]int{key.f, key.o}] = s
			r.noteInsert(rc, s.size)
			r.detach(key, s.id)
			r.keepOrRelease(v, s, key, op.Hold, "rdval")
			synctest.Wait()
			delete(r.blocked, key)
			r.nGated -= len(waiters)
			for wi, w := range waiters {
				done, cv, wrh, hit, err, pnc := w.snapshot()
				w.cancel()
				switch {
				case !done:
					r.stuck = append(r.stuck, w)
					return fmt.Errorf("rdval %v: waiter %d is still blocked after SetReadValue", key, wi)
				case pnc != "":
					return fmt.Errorf("rdval %v: waiter %d panicked: %s", key, wi, pnc)
				case err != nil || cv == nil || wrh.Valid():
					return fmt.Errorf("rdval %v: waiter %d returned err=%v value=%v readHandleValid=%v, want the value that was just read",
						key, wi, err, cv != nil, wrh.Valid())
				case hit:
					return fmt.Errorf("rdval %v: waiter %d reports cacheHit=true although it waited for another reader", key, wi)
				}
				if err := r.consumeValue(w, h, cv, &s, "rdval-waiter"); err != nil {
					return err
				}
			}
			if len(waiters) > 0 {
				r.nt2 = true
				r.label("waiters-shared-read-value")
				r.counters["waiters_served"] += len(waiters)
			}
			if int64(s.size) > max(1, rc.cfg.Size/int64(rc.cfg.Shards)) {
				r.label("readvalue-larger-than-shard")
			}
			break
		}
		rh.SetReadError(errors.New("injected read error"))
		synctest.Wait()
		next := -1
		for wi, w := range waiters {
			done, cv, wrh, _, err, pnc := w.snapshot()
			if !done {
				continue
			}
			if pnc != "" {
				return fmt.Errorf("rderr %v: waiter %d panicked: %s", key, wi, pnc)
			}
			if err != nil || cv != nil || !wrh.Valid() {
				return fmt.Errorf("rderr %v: waiter %d returned err=%v value=%v readHandleValid=%v after another reader's error; want the read turn",
					key, wi, err, cv != nil, wrh.Valid())
			}
			if next >= 0 {
				return fmt.Errorf("rderr %v: two waiters (%d and %d) were both granted the read turn", key, next, wi)
			}
			next = wi
		}
		if len(waiters) > 0 {
			if next < 0 {
				return fmt.Errorf("rderr %v: %d waiters remain blocked and none was granted the read turn after SetReadError", key, len(waiters))
			}
			r.turn[key] = waiters[next]
			r.blocked[key] = append(append([]*reader{}, waiters[:next]...), waiters[next+1:]...)
			if len(r.blocked[key]) == 0 {
				delete(r.blocked, key)
			}
			r.nt2 = true
			r.label("turn-passed-after-error")
		}

	case "rdcancel":
		_, h := r.handle(op)
		if h == nil {
			r.counters["skipped"]++
			return nil
		}
		key, _, _, ok := keyOf(op, h)
		waiters := r.blocked[key]
		if !ok || len(waiters) == 0 || op.N < 0 {
			r.counters["skipped"]++
			return nil
		}
		wi := op.N % len(waiters)
		w := waiters[wi]
		w.cancel()
		synctest.Wait()
		done, cv, wrh, _, err, pnc := w.snapshot()
		switch {
		case !done:
			r.stuck = append(r.stuck, w)
			return fmt.Errorf("rdcancel %v: waiter still blocked after its context was cancelled", key)
		case pnc != "":
			return fmt.Errorf("rdcancel %v: waiter panicked: %s", key, pnc)
		case !errors.Is(err, context.Canceled) || cv != nil || wrh.Valid():
			return fmt.Errorf("rdcancel %v: waiter returned err=%v value=%v readHandleValid=%v, want context.Canceled only",
				key, err, cv != nil, wrh.Valid())
		}
		rest := append(append([]*reader{}, waiters[:wi]...), waiters[wi+1:]...)
		for oi, o := range rest {
			if d, _, _, _, _, _ := o.snapshot(); d {
				return fmt.Errorf("rdcancel %v: waiter %d returned although only another waiter's context was cancelled", key, oi)
			}
		}
		if len(rest) == 0 {
			delete(r.blocked, key)
		} else {
			r.blocked[key] = rest
		}
		r.nGated--
		r.label("waiter-cancelled")

	case "burst":
		rc, h := r.handle(op)
		if h == nil || len(op.Acts) < 1 || len(op.Acts) > 8 || op.N < 1 || op.N > maxValueSize || op.Cat < 0 || op.Cat > 5 {
			r.counters["skipped"]++
			return nil
		}
		key, file, off, ok := keyOf(op, h)
		if !ok || r.turn[key] != nil {
			r.counters["skipped"]++
			return nil
		}
		old, hadOld := h.latest[[2]int{key.f, key.o}]
		y := r.newStamp(op.N)
		type result struct {
			sawOld, sawNew, shared, set, errd bool
			bad                               string
		}
		res := make([]result, len(op.Acts))
		rds := make([]*reader, len(op.Acts))
		start := make(chan struct{})
		for bi := range op.Acts {
			bi := bi
			ctx, cancel := context.WithCancel(context.Background())
			rd := &reader{key: key, cancel: cancel}
			rds[bi] = rd
			r.spawnReader(h.h, rd, ctx, file, off, op, start, func(rd *reader) {
				// Runs on the reader goroutine; res[bi] is only read after the
				// reader is done (rd.mu orders the accesses).
				if rd.rh.Valid() {
					// Give the other readers a chance to queue up behind the turn.
					// Scheduling only: the verdict does not depend on it.
					for y := 0; y < op.O*8+8; y++ {
						runtime.Gosched()
					}
				}
				switch {
				case rd.err != nil:
					res[bi].bad = fmt.Sprintf("error %v", rd.err)
				case rd.cv != nil:
					if rd.rh.Valid() {
						res[bi].bad = "value and valid ReadHandle"
					}
					if matches(rd.cv, y) == nil {
						res[bi].sawNew = true
						res[bi].shared = !rd.hit
					} else if hadOld && matches(rd.cv, old) == nil {
						res[bi].sawOld = true
					} else {
						res[bi].bad = fmt.Sprintf("value is neither the stored value nor the value being read: new: %v", matches(rd.cv, y))
					}
					rd.cv.Release()
				case rd.rh.Valid():
					if op.Acts[bi] == 0 {
						v := alloc(y)
						rd.rh.SetReadValue(v)
						v.Release()
						res[bi].set = true
					} else {
						rd.rh.SetReadError(errors.New("injected read error"))
						res[bi].errd = true
					}
				default:
					res[bi].bad = "no value, no ReadHandle, no error"
				}
			})
		}
		close(start)
		synctest.Wait()
		r.counters["bursts"]++
		var nSet, nNew, nOld, nShared, nErr int
		for bi, rd := range rds {
			done, _, _, _, _, pnc := rd.snapshot()
			if !done {
				r.stuck = append(r.stuck, rds...)
				return fmt.Errorf("burst %v: reader %d of %d never returned although every reader that got the turn completed its read (lost wakeup)", key, bi, len(rds))
			}
			rd.cancel()
			if pnc != "" {
				return fmt.Errorf("burst %v: reader %d panicked: %s", key, bi, pnc)
			}
			if res[bi].bad != "" {
				return fmt.Errorf("burst %v: reader %d: %s", key, bi, res[bi].bad)
			}
			if res[bi].set {
				nSet++
			}
			if res[bi].sawNew {
				nNew++
			}
			if res[bi].sawOld {
				nOld++
			}
			if res[bi].shared {
				nShared++
			}
			if res[bi].errd {
				nErr++
			}
		}
		if nNew > 0 && nSet == 0 {
			return fmt.Errorf("burst %v: %d readers saw a value that no reader stored", key, nNew)
		}
		if nSet > 0 {
			h.latest[[2]int{key.f, key.o}] = y
			r.noteInsert(rc, y.size)
			r.detach(key, y.id)
		}
		if nShared > 0 {
			r.nt2 = true
			r.label("burst-shared-read-value")
		}
		if nErr > 0 {
			r.label("burst-read-error")
		}
		if nOld > 0 {
			r.label("burst-all-hit")
		}

	case "reserve":
		rc, _ := r.handle(op)
		if rc == nil || !rc.alive || op.N < 0 || op.N > 1<<20 {
			r.counters["skipped"]++
			return nil
		}
		rc.reserves = append(rc.reserves, rc.c.Reserve(op.N))
		r.label("reserve")

	case "unreserve":
		rc, _ := r.handle(op)
		if rc == nil || !rc.alive || len(rc.reserves) == 0 || op.N < 0 {
			r.counters["skipped"]++
			return nil
		}
		i := op.N % len(rc.reserves)
		rc.reserves[i]()
		rc.reserves = append(rc.reserves[:i], rc.reserves[i+1:]...)

	case "relheld":
		if len(r.held) == 0 || op.N < 0 {
			r.counters["skipped"]++
			return nil
		}
		i := op.N % len(r.held)
		hv := r.held[i]
		if err := matches(hv.v, hv.s); err != nil {
			return fmt.Errorf("held value (from %s, key %v, detached=%v) changed while referenced, at release: %v", hv.src, hv.key, hv.detached, err)
		}
		if hv.detached {
			r.nt1 = true
		}
		hv.v.Release()
		r.held = append(r.held[:i], r.held[i+1:]...)

	case "closeh":
		rc, h := r.handle(op)
		if h == nil || r.readersOnHandle(op.C, h.inst) {
			r.counters["skipped"]++
			return nil
		}
		r.closeHandle(rc, op.H)
		r.label("handle-closed")

	case "openh":
		rc, h := r.handle(op)
		if rc == nil || !rc.alive || h != nil || op.H < 0 || op.H >= maxSlots {
			r.counters["skipped"]++
			return nil
		}
		r.openHandle(rc, op.H)
		r.label("handle-reopened")

	case "unref":
		rc, _ := r.handle(op)
		if rc == nil || !rc.alive || !rc.creator {
			r.counters["skipped"]++
			return nil
		}
		r.unrefCreator(op.C, rc)

	default:
		r.counters["skipped"]++
		return nil
	}
	if err := r.verifyHeld(when); err != nil {
		return err
	}
	return r.sizeChecks(when)
}

func (r *runner) openHandle(rc *rtCache, slot int) {
	r.nextIns++
	rc.handles[slot] = &rtHandle{h: rc.c.NewHandle(), inst: r.nextIns, latest: map[[2]int]stamp{}}
}

func (r *runner) nOpen(rc *rtCache) int {
	n := 0
	for _, h := range rc.handles {
		if h != nil {
			n++
		}
	}
	return n
}

func (r *runner) cacheGone(ci int, rc *rtCache) {
	rc.alive = false
	rc.c = nil
	n := 0
	for _, h := range r.held {
		if h.key.c == ci {
			h.detached = true
			n++
		}
	}
	if n > 0 {
		r.label("cache-destroyed-with-values-held")
	}
	if !r.tearing {
		r.label("cache-destroyed-midplan")
	}
}

func (r *runner) closeHandle(rc *rtCache, slot int) {
	h := rc.handles[slot]
	for _, s := range h.latest {
		rc.orphan += int64(s.size)
	}
	ci := -1
	for i := range r.caches {
		if r.caches[i] == rc {
			ci = i
		}
	}
	h.h.Close()
	rc.handles[slot] = nil
	if !rc.creator && r.nOpen(rc) == 0 {
		r.cacheGone(ci, rc)
	}
}

func (r *runner) unrefCreator(ci int, rc *rtCache) {
	rc.creator = false
	// Reservations are closures over the cache's shards; release them before
	// the cache can go away.
	if r.nOpen(rc) == 0 {
		for _, f := range rc.reserves {
			f()
		}
		rc.reserves = nil
	}
	rc.c.Unref()
	if r.nOpen(rc) == 0 {
		r.cacheGone(ci, rc)
	}
}

// safely is like the function safely and marks the runner as poisoned when f
// panicked.
func (r *runner) safely(f func() error) (err error) {
	defer func() {
		if p := recover(); p != nil {
			r.poisoned = true
			err = fmt.Errorf("panic: %v\n%s", p, debug.Stack())
		}
	}()
	return f()
}

// safely converts a panic in f into an error.
func safely(f func() error) (err error) {
	defer func() {
		if p := recover(); p != nil {
			err = fmt.Errorf("panic: %v\n%s", p, debug.Stack())
		}
	}()
	return f()
}

// teardown finishes all readers, releases everything and closes the caches.
// It must leave no goroutine blocked, whatever state the ops left behind.
func (r *runner) teardown() error {
	r.tearing = true
	wd.Lock()
	if wd.msg != "" {
		r.poisoned = true
	}
	wd.Unlock()
	if r.poisoned {
		// Leave everything as it is; readers that are still blocked make
		// synctest.Test report a deadlock, which exec ignores in favour of the
		// panic already recorded.
		return nil
	}
	var first error
	note := func(err error) {
		if err != nil && first == nil {
			first = err
		}
	}
	stepTD := func(f func() error) {
		if !r.poisoned {
			note(r.safely(f))
		}
	}
	// 1. cancel blocked readers, then fail the turn holders.
	stepTD(func() error {
		for _, rd := range r.stuck {
			rd.cancel()
		}
		var all []*reader
		keys := make([]rKey, 0, len(r.blocked))
		for k := range r.blocked {
			keys = append(keys, k)
		}
		sort.Slice(keys, func(i, j int) bool { return fmt.Sprint(keys[i]) < fmt.Sprint(keys[j]) })
		for _, k := range keys {
			for _, w := range r.blocked[k] {
				w.cancel()
				all = append(all, w)
			}
		}
		synctest.Wait()
		var err error
		for _, w := range all {
			done, cv, rh, _, werr, pnc := w.snapshot()
			if !done {
				if err == nil {
					err = fmt.Errorf("teardown: waiter on %v still blocked after its context was cancelled", w.key)
				}
				continue
			}
			if cv != nil {
				cv.Release()
			}
			if err == nil && (pnc != "" || !errors.Is(werr, context.Canceled) || cv != nil || rh.Valid()) {
				err = fmt.Errorf("teardown: cancelled waiter on %v returned err=%v value=%v readHandleValid=%v panic=%q",
					w.key, werr, cv != nil, rh.Valid(), pnc)
			}
		}
		r.blocked = map[rKey][]*reader{}
		return err
	})
	stepTD(func() error {
		for _, rd := range r.turn {
			_, _, rh, _, _, _ := rd.snapshot()
			rd.cancel()
			if rh.Valid() {
				rh.SetReadError(errors.New("teardown"))
			}
		}
		r.turn = map[rKey]*reader{}
		synctest.Wait()
		return nil
	})
	releaseHeld := func() error {
		var err error
		for _, hv := range r.held {
			if e := matches(hv.v, hv.s); e != nil {
				if err == nil {
					err = fmt.Errorf("held value (from %s, key %v, detached=%v) changed while referenced, at teardown: %v", hv.src, hv.key, hv.detached, e)
				}
				continue // do not release a value that is already gone
			}
			if hv.detached {
				r.nt1 = true
			}
			hv.v.Release()
		}
		r.held = nil
		return err
	}
	if !r.p.HeldLast {
		stepTD(releaseHeld)
	}
	for ci, rc := range r.caches {
		rc := rc
		stepTD(func() error {
			if !rc.alive {
				return nil
			}
			for _, f := range rc.reserves {
				f()
			}
			rc.reserves = nil
			for s := range rc.handles {
				if rc.handles[s] != nil {
					r.closeHandle(rc, s)
				}
			}
			if rc.alive && rc.creator {
				r.unrefCreator(ci, rc)
			}
			return nil
		})
	}
	if r.p.HeldLast {
		if len(r.held) > 0 {
			r.label("values-held-past-cache-destroy")
		}
		stepTD(releaseHeld)
	}
	return first
}

func (r *runner) run() error {
	for ci, cfg := range r.p.Caches {
		if cfg.Shards < 1 || cfg.Shards > 16 || cfg.Size < 0 || cfg.Size > 1<<24 || cfg.Handles < 0 || cfg.Handles > maxSlots {
			return nil // not a plan the generator produces
		}
		rc := &rtCache{cfg: cfg, c: cache.NewWithShards(cfg.Size, cfg.Shards), alive: true, creator: true}
		r.caches = append(r.caches, rc)
		for s := 0; s < cfg.Handles; s++ {
			r.openHandle(rc, s)
		}
		_ = ci
	}
	// Let the caches' metrics goroutines finish their start-up.
	synctest.Wait()
	for i, op := range r.p.Ops {
		if err := r.step(i, op); err != nil {
			return err
		}
	}
	return nil
}

func exec(p Plan) (evid.Outcome, error) {
	maybeGC()
	defer wdClear()
	r := &runner{p: p, turn: map[rKey]*reader{}, blocked: map[rKey][]*reader{},
		labels: map[string]bool{}, counters: map[string]int{}}
	if p.NOff < 1 || p.NOff > len(offsets) {
		r.p.NOff = 4
	}
	before := manual.GetMetrics()
	var opErr, tdErr, bubbleErr error
	bubbleErr = safely(func() error {
		synctest.Test(curT, func(*testing.T) {
			opErr = r.safely(r.run)
			tdErr = r.teardown()
		})
		return nil
	})
	err := opErr
	if err == nil || errors.Is(err, errStrictSize) {
		if tdErr != nil {
			err = tdErr
		} else if bubbleErr != nil {
			err = fmt.Errorf("synctest bubble: %v", bubbleErr)
		}
	}
	if err == nil || errors.Is(err, errStrictSize) {
		after := manual.GetMetrics()
		for _, pu := range []struct {
			p    manual.Purpose
			name string
		}{{manual.BlockCacheData, "BlockCacheData"}, {manual.BlockCacheMap, "BlockCacheMap"}} {
			if after[pu.p].InUseBytes != before[pu.p].InUseBytes {
				err = fmt.Errorf("manual memory accounting for %s did not return to its baseline after every value was released and every cache destroyed: %d -> %d bytes",
					pu.name, before[pu.p].InUseBytes, after[pu.p].InUseBytes)
				break
			}
		}
	}
	if err != nil && !errors.Is(err, errStrictSize) {
		dirty = true
	}

	var out evid.Outcome
	out.NonTrivial = r.nt1 || r.nt2
	out.Counters = r.counters
	if r.nt1 {
		r.label("NT:held-value-survived-eviction")
	}
	if r.nt2 {
		r.label("NT:readers-shared-read-handle")
	}
	for ci, cfg := range p.Caches {
		if ci == 0 {
			r.label(fmt.Sprintf("shards=%d", cfg.Shards))
			switch {
			case cfg.Size <= 8:
				r.label("cap<=8")
			case cfg.Size <= 2048:
				r.label("cap<=2K")
			default:
				r.label("cap>2K")
			}
		}
	}
	if len(p.Caches) > 1 {
		r.label("two-caches")
	}
	if p.StrictSize {
		r.label("size-clause=strict")
	} else {
		r.label("size-clause=one-insert-slack")
	}
	for l := range r.labels {
		out.Labels = append(out.Labels, l)
	}
	sort.Strings(out.Labels)
	return out, err
}
