// Package blockcache: C34 — block cache returns only the latest value for the
// exact block (model-based check of internal/cache).
package blockcache

import (
	"github.com/cockroachdb/pebble/verifharness/evid"
	"pgregory.net/rapid"
)

// findingSizeOvershoot is the signature of the candidate finding "Size() >
// MaxSize() after a plain insert with no reservation" (see NOTES.md).
const findingSizeOvershoot = "size-exceeds-capacity-after-insert"

// Key space. File numbers 1..3 coincide with handle ids 1..3 on purpose: the
// shard/hash functions XOR id*m, fileNum*m and offset*m, so (id=1,file=2) and
// (id=2,file=1) collide in every hash and must be told apart by key equality.
var (
	fileNums = []uint64{1, 2, 3}
	offsets  = []uint64{0, 1, 2, 3, 4096, 1 << 32, 1<<32 + 1, ^uint64(0)}
)

const (
	maxSlots     = 3 // handle slots per cache
	maxValueSize = 8192
	maxReaders   = 6 // gated readers in flight
)

// CacheCfg configures one cache: NewWithShards(Size, Shards) and the number of
// handles opened initially (slots 0..Handles-1).
type CacheCfg struct {
	Size    int64 `json:"size"`
	Shards  int   `json:"shards"`
	Handles int   `json:"handles"`
}

// Op is one step of a plan. Fields not used by a kind are zero.
//
//	set       C,H,F,O,N(size),Hold        Alloc+fill+Handle.Set
//	fill      C,H,F,N(size)               Set every offset of file F (NOff of them)
//	touch     C,H,F,Lvl,Cat               Handle.Get (and release) every offset of file F: marks resident blocks referenced
//	get       C,H,F,O,Hold,Lvl,Cat        Handle.Get
//	peek      C,H,F,O,Hold,Lvl,Cat        Handle.Peek (Cat -1 = CategoryHidden)
//	del       C,H,F,O                     Handle.Delete
//	evict     C,H,F                       Handle.EvictFile
//	read      C,H,F,O,Hold,Pre,Lvl,Cat    spawn a gated reader: GetWithReadHandle (Pre: ctx already cancelled)
//	rdval     C,H,F,O,N(size),Hold        the reader holding the turn for the key calls SetReadValue
//	rderr     C,H,F,O                     the reader holding the turn calls SetReadError
//	rdcancel  C,H,F,O,N(index)            cancel the ctx of the N-th blocked reader of the key
//	burst     C,H,F,O,N(size),Acts        len(Acts) ungated concurrent readers; Acts[i]: 0 = SetReadValue, 1 = SetReadError if reader i gets a turn
//	reserve   C,N(bytes)                  Cache.Reserve
//	unreserve C,N(index)                  release the N-th outstanding reservation
//	relheld   N(index)                    verify and release the N-th held value
//	closeh    C,H                         Handle.Close (only if no reader of that handle is in flight)
//	openh     C,H                         Cache.NewHandle into a closed slot
//	unref     C                           drop the creator's reference on the cache
type Op struct {
	K    string `json:"k"`
	C    int    `json:"c,omitempty"`
	H    int    `json:"h,omitempty"`
	F    int    `json:"f,omitempty"`
	O    int    `json:"o,omitempty"`
	N    int    `json:"n,omitempty"`
	Hold bool   `json:"hold,omitempty"`
	Pre  bool   `json:"pre,omitempty"`
	Lvl  int    `json:"lvl,omitempty"` // 0 = unknown level, 1..7 = L0..L6
	Cat  int    `json:"cat,omitempty"` // cache.Category; -1 = CategoryHidden (peek only)
	Acts []int  `json:"acts,omitempty"`
}

// Plan is a complete case.
type Plan struct {
	Caches []CacheCfg `json:"caches"`
	NOff   int        `json:"noff"` // number of offsets in use (4 or 8)
	Ops    []Op       `json:"ops"`
	// StrictSize selects the literal size clause of the property
	// (Size() <= MaxSize() whenever no reservation is outstanding). When false
	// only the bound that allows one in-flight insert per shard is checked.
	StrictSize bool `json:"strict_size"`
	// HeldLast: at teardown close every handle and cache first and only then
	// verify and release the values still held by the harness.
	HeldLast bool `json:"held_last"`
}

// ---- generator ---------------------------------------------------------

type gKey struct{ c, slot, f, o int }

type gCache struct {
	cfg      CacheCfg
	alive    bool
	creator  bool
	open     [maxSlots]bool
	present  [maxSlots]map[[2]int]bool // keys set and not deleted since (per handle instance)
	reserved int
}

type gState struct {
	caches  []*gCache
	noff    int
	active  map[gKey]int // gated readers believed in flight per key
	nActive int
	held    int
}

func (g *gState) liveCaches() []int {
	var r []int
	for i, c := range g.caches {
		if c.alive {
			r = append(r, i)
		}
	}
	return r
}

func (c *gCache) openSlots() []int {
	var r []int
	for i, o := range c.open {
		if o {
			r = append(r, i)
		}
	}
	return r
}

func (g *gState) slotHasReaders(c, slot int) bool {
	for k := range g.active {
		if k.c == c && k.slot == slot {
			return true
		}
	}
	return false
}

// activeKeys returns the keys with gated readers in a deterministic order.
func (g *gState) activeKeys() []gKey {
	var r []gKey
	for ci := range g.caches {
		for s := 0; s < maxSlots; s++ {
			for f := range fileNums {
				for o := 0; o < g.noff; o++ {
					k := gKey{ci, s, f, o}
					if g.active[k] > 0 {
						r = append(r, k)
					}
				}
			}
		}
	}
	return r
}

func genSize(t *rapid.T, perShard int) int {
	ps := max(1, perShard)
	small := rapid.IntRange(1, max(1, ps/8))
	mid := rapid.IntRange(max(1, ps/8), max(1, ps/2))
	n := rapid.OneOf(
		rapid.IntRange(1, 8), rapid.IntRange(1, 8),
		small, small, small,
		mid, mid, mid,
		rapid.IntRange(max(1, ps/2), ps),
		rapid.IntRange(1, maxValueSize),
	).Draw(t, "size")
	return min(n, maxValueSize)
}

func gen(t *rapid.T) Plan {
	var p Plan
	p.StrictSize = !evid.FindingActive("C34", findingSizeOvershoot)
	p.HeldLast = rapid.Bool().Draw(t, "heldLast")
	p.NOff = rapid.SampledFrom([]int{4, 4, 8}).Draw(t, "noff")
	nc := rapid.SampledFrom([]int{1, 1, 1, 2}).Draw(t, "ncaches")
	g := &gState{noff: p.NOff, active: map[gKey]int{}}
	for i := 0; i < nc; i++ {
		cfg := CacheCfg{
			Size: int64(rapid.OneOf(
				rapid.IntRange(0, 8),
				rapid.SampledFrom([]int{64, 200, 1000, 1024, 4096}),
				rapid.SampledFrom([]int{64, 200, 1000, 1024, 4096}),
				rapid.IntRange(9, 2048), rapid.IntRange(9, 2048), rapid.IntRange(9, 2048),
				rapid.IntRange(2049, 16<<10),
				rapid.SampledFrom([]int{16 << 10, 64 << 10}),
			).Draw(t, "capacity")),
			Shards:  rapid.SampledFrom([]int{1, 1, 1, 2, 3, 4}).Draw(t, "shards"),
			Handles: rapid.IntRange(1, maxSlots).Draw(t, "handles"),
		}
		p.Caches = append(p.Caches, cfg)
		gc := &gCache{cfg: cfg, alive: true, creator: true}
		for s := 0; s < cfg.Handles; s++ {
			gc.open[s] = true
			gc.present[s] = map[[2]int]bool{}
		}
		g.caches = append(g.caches, gc)
	}

	kinds := []string{}
	add := func(k string, w int) {
		for i := 0; i < w; i++ {
			kinds = append(kinds, k)
		}
	}
	add("set", 22)
	add("get", 16)
	add("peek", 5)
	add("fill", 4)
	add("touch", 5)
	add("del", 5)
	add("evict", 4)
	add("read", 11)
	add("rdval", 9)
	add("rderr", 5)
	add("rdcancel", 3)
	add("burst", 5)
	add("reserve", 2)
	add("unreserve", 2)
	add("relheld", 7)
	add("closeh", 3)
	add("openh", 2)
	add("unref", 2)

	nops := rapid.IntRange(1, 60).Draw(t, "nops")
	for attempts := 0; len(p.Ops) < nops && attempts < 4*nops+20; attempts++ {
		live := g.liveCaches()
		if len(live) == 0 {
			break
		}
		k := rapid.SampledFrom(kinds).Draw(t, "kind")
		ci := rapid.SampledFrom(live).Draw(t, "cache")
		gc := g.caches[ci]
		perShard := int(gc.cfg.Size) / gc.cfg.Shards
		open := gc.openSlots()
		op := Op{K: k, C: ci}
		var extra []Op
		drawKey := func() bool {
			if len(open) == 0 {
				return false
			}
			op.H = rapid.SampledFrom(open).Draw(t, "slot")
			op.F = rapid.IntRange(0, len(fileNums)-1).Draw(t, "file")
			op.O = rapid.IntRange(0, p.NOff-1).Draw(t, "off")
			return true
		}
		drawLvlCat := func(hiddenOK bool) {
			op.Lvl = rapid.IntRange(0, 7).Draw(t, "lvl")
			lo := 0
			if hiddenOK {
				lo = -1
			}
			op.Cat = rapid.IntRange(lo, 5).Draw(t, "cat")
		}
		switch k {
		case "set":
			if !drawKey() {
				continue
			}
			op.N = genSize(t, perShard)
			op.Hold = rapid.IntRange(0, 3).Draw(t, "hold") == 0
			gc.present[op.H][[2]int{op.F, op.O}] = true
			if op.Hold {
				g.held++
			}
		case "fill":
			if len(open) == 0 {
				continue
			}
			op.H = rapid.SampledFrom(open).Draw(t, "slot")
			op.F = rapid.IntRange(0, len(fileNums)-1).Draw(t, "file")
			op.N = rapid.IntRange(1, max(1, min(perShard/max(1, p.NOff), 64))).Draw(t, "fillsize")
			for o := 0; o < p.NOff; o++ {
				gc.present[op.H][[2]int{op.F, o}] = true
			}
			// Often evict the whole file soon afterwards, while its blocks are
			// still resident.
			if rapid.IntRange(0, 9).Draw(t, "fillevict") < 5 {
				extra = append(extra, Op{K: "get", C: ci, H: op.H, F: op.F, O: rapid.IntRange(0, p.NOff-1).Draw(t, "off"), Cat: 1},
					Op{K: "evict", C: ci, H: op.H, F: op.F})
				for o := 0; o < p.NOff; o++ {
					delete(gc.present[op.H], [2]int{op.F, o})
				}
			}
		case "get", "peek":
			if !drawKey() {
				continue
			}
			// Mostly look up blocks that were stored (hit, or observed eviction).
			if rapid.IntRange(0, 9).Draw(t, "getpresent") < 7 {
				var ks [][2]int
				for f := range fileNums {
					for o := 0; o < p.NOff; o++ {
						if gc.present[op.H][[2]int{f, o}] {
							ks = append(ks, [2]int{f, o})
						}
					}
				}
				if len(ks) > 0 {
					fo := rapid.SampledFrom(ks).Draw(t, "presentkey")
					op.F, op.O = fo[0], fo[1]
				}
			}
			drawLvlCat(k == "peek")
			op.Hold = rapid.IntRange(0, 2).Draw(t, "hold") == 0
			if op.Hold {
				g.held++ // perhaps
			}
		case "touch":
			if len(open) == 0 {
				continue
			}
			op.H = rapid.SampledFrom(open).Draw(t, "slot")
			op.F = rapid.IntRange(0, len(fileNums)-1).Draw(t, "file")
			drawLvlCat(false)
		case "del":
			if !drawKey() {
				continue
			}
			// Mostly delete blocks that were stored, and look them up afterwards.
			if rapid.IntRange(0, 9).Draw(t, "delpresent") < 7 {
				var ks [][2]int
				for f := range fileNums {
					for o := 0; o < p.NOff; o++ {
						if gc.present[op.H][[2]int{f, o}] {
							ks = append(ks, [2]int{f, o})
						}
					}
				}
				if len(ks) > 0 {
					fo := rapid.SampledFrom(ks).Draw(t, "presentkey")
					op.F, op.O = fo[0], fo[1]
				}
			}
			delete(gc.present[op.H], [2]int{op.F, op.O})
			if rapid.Bool().Draw(t, "delget") {
				extra = append(extra, Op{K: rapid.SampledFrom([]string{"get", "get", "peek"}).Draw(t, "delgetkind"),
					C: ci, H: op.H, F: op.F, O: op.O, Cat: 1})
			}
		case "evict":
			if len(open) == 0 {
				continue
			}
			op.H = rapid.SampledFrom(open).Draw(t, "slot")
			op.F = rapid.IntRange(0, len(fileNums)-1).Draw(t, "file")
			for o := 0; o < p.NOff; o++ {
				delete(gc.present[op.H], [2]int{op.F, o})
			}
			if rapid.Bool().Draw(t, "evictget") {
				extra = append(extra, Op{K: "touch", C: ci, H: op.H, F: op.F, Cat: 1})
			}
		case "read":
			if g.nActive >= maxReaders || len(open) == 0 {
				continue
			}
			ak := g.activeKeys()
			mode := rapid.IntRange(0, 9).Draw(t, "readmode")
			switch {
			case mode < 5 && len(ak) > 0:
				// Join a key that already has a reader: creates a waiter.
				key := rapid.SampledFrom(ak).Draw(t, "joinkey")
				if !g.caches[key.c].alive || !g.caches[key.c].open[key.slot] {
					continue
				}
				op.C, op.H, op.F, op.O = key.c, key.slot, key.f, key.o
			case mode < 8:
				// A key the model knows is absent: guaranteed miss.
				if !drawKey() {
					continue
				}
				for tries := 0; tries < 4 && gc.present[op.H][[2]int{op.F, op.O}]; tries++ {
					op.O = (op.O + 1) % p.NOff
				}
			default:
				if !drawKey() {
					continue
				}
			}
			drawLvlCat(false)
			op.Hold = rapid.IntRange(0, 2).Draw(t, "hold") == 0
			op.Pre = rapid.IntRange(0, 4).Draw(t, "pre") == 0
			key := gKey{op.C, op.H, op.F, op.O}
			if !(op.Pre && g.active[key] > 0) {
				g.active[key]++
				g.nActive++
			}
			// Often bring company: more readers of the same block right away,
			// so that they queue up behind the first one's read turn.
			if rapid.IntRange(0, 9).Draw(t, "group") < 6 {
				n := rapid.IntRange(1, 3).Draw(t, "groupsize")
				for j := 0; j < n && g.nActive < maxReaders; j++ {
					e := op
					e.Pre = false
					e.Hold = rapid.IntRange(0, 2).Draw(t, "hold") == 0
					extra = append(extra, e)
					g.active[key]++
					g.nActive++
				}
			}
		case "rdval", "rderr", "rdcancel":
			ak := g.activeKeys()
			if len(ak) == 0 {
				continue
			}
			key := rapid.SampledFrom(ak).Draw(t, "rkey")
			op.C, op.H, op.F, op.O = key.c, key.slot, key.f, key.o
			switch k {
			case "rdval":
				gk := g.caches[key.c]
				op.N = genSize(t, int(gk.cfg.Size)/gk.cfg.Shards)
				op.Hold = rapid.IntRange(0, 3).Draw(t, "hold") == 0
				g.nActive -= g.active[key]
				delete(g.active, key)
				if gk.open[key.slot] {
					gk.present[key.slot][[2]int{key.f, key.o}] = true
				}
			case "rderr":
				g.active[key]--
				g.nActive--
				if g.active[key] == 0 {
					delete(g.active, key)
				}
			case "rdcancel":
				if g.active[key] < 2 {
					continue
				}
				op.N = rapid.IntRange(0, 3).Draw(t, "idx")
				g.active[key]--
				g.nActive--
			}
		case "burst":
			if !drawKey() {
				continue
			}
			if g.active[gKey{op.C, op.H, op.F, op.O}] > 0 {
				continue
			}
			// Mostly on keys known to be absent so that the readers really race
			// for the read turn.
			if rapid.IntRange(0, 3).Draw(t, "burstabsent") > 0 {
				for tries := 0; tries < 4 && gc.present[op.H][[2]int{op.F, op.O}]; tries++ {
					op.O = (op.O + 1) % p.NOff
				}
			}
			op.N = genSize(t, perShard)
			op.Acts = rapid.SliceOfN(rapid.SampledFrom([]int{0, 0, 1}), 2, 4).Draw(t, "acts")
			drawLvlCat(false)
			gc.present[op.H][[2]int{op.F, op.O}] = true
		case "reserve":
			op.N = rapid.OneOf(rapid.IntRange(0, 16), rapid.IntRange(0, int(gc.cfg.Size)+8)).Draw(t, "reserve")
			gc.reserved++
		case "unreserve":
			if gc.reserved == 0 {
				continue
			}
			op.N = rapid.IntRange(0, 3).Draw(t, "idx")
			gc.reserved--
		case "relheld":
			if g.held == 0 {
				continue
			}
			op.C = 0
			op.N = rapid.IntRange(0, 7).Draw(t, "idx")
			g.held--
		case "closeh":
			if len(open) == 0 {
				continue
			}
			op.H = rapid.SampledFrom(open).Draw(t, "slot")
			if g.slotHasReaders(ci, op.H) {
				continue
			}
			gc.open[op.H] = false
			gc.present[op.H] = nil
			if !gc.creator && len(gc.openSlots()) == 0 {
				gc.alive = false
			}
		case "openh":
			var closed []int
			for s := 0; s < maxSlots; s++ {
				if !gc.open[s] {
					closed = append(closed, s)
				}
			}
			if len(closed) == 0 {
				continue
			}
			op.H = rapid.SampledFrom(closed).Draw(t, "slot")
			gc.open[op.H] = true
			gc.present[op.H] = map[[2]int]bool{}
		case "unref":
			if !gc.creator {
				continue
			}
			// Keep it rare early in the plan: a destroyed cache ends the fun.
			if len(open) == 0 && rapid.IntRange(0, 3).Draw(t, "unrefdead") > 0 {
				continue
			}
			gc.creator = false
			if len(open) == 0 {
				gc.alive = false
			}
		}
		p.Ops = append(p.Ops, op)
		p.Ops = append(p.Ops, extra...)
	}
	return p
}
