package compactiter

import (
	"encoding/binary"
	"fmt"
	"io"
	"sort"
	"strings"
	"testing"

	"github.com/cockroachdb/pebble/internal/base"
	"github.com/cockroachdb/pebble/internal/compact"
	"github.com/cockroachdb/pebble/internal/keyspan"
	"github.com/cockroachdb/pebble/internal/rangekey"
	"github.com/cockroachdb/pebble/verifharness/evid"
	"pgregory.net/rapid"
)

// ------------------------------------------------------------------------ plan

// Op is one write of the history; its seqnum is its index in Plan.Ops plus one.
type Op struct {
	Kind string `json:"kind"` // SET MERGE DEL SINGLEDEL DELSIZED RANGEDEL RKSET RKUNSET RKDEL
	K    int    `json:"k"`    // pool index of the key / span start
	E    int    `json:"e,omitempty"`
	Sfx  int    `json:"sfx,omitempty"`
	Size int    `json:"size,omitempty"` // DELSIZED: the value size the caller claims
	// Swd (SET only): the layer holds this SET already collapsed with the point
	// tombstone directly beneath it in the same layer, i.e. as SETWITHDEL with
	// the tombstone gone - the state an earlier compaction leaves behind when
	// the two shared a snapshot stripe.
	Swd bool `json:"swd,omitempty"`
}

// Step is one compaction of the contiguous layers I..J (0 = newest).
type Step struct {
	I, J      int
	Drop      uint  `json:"drop,omitempty"` // bit b: snapshot b is released before this step
	Mode      int   // 0 NoTombstoneElision, 1 tight in-use ranges, 2 loose in-use ranges
	Bottom    bool  // request IsBottommostDataLayer (honoured only if nothing lies below)
	NilEmpty  bool  // pass nil span iterators when there are no spans
	Splits    []int `json:"splits,omitempty"` // extra fragmentation points
	MergeAbut bool  // merge abutting in-use ranges
	Noise     []int `json:"noise,omitempty"` // optional extra in-use range (doubled coordinates lo,hi)
}

// Plan is a history, its split into layers, the open snapshots and a chain of
// compactions.
type Plan struct {
	NK    int      `json:"nk"`
	Ops   []Op     `json:"ops"`
	Cuts  []int    `json:"cuts"`  // ascending op indexes where a new (newer) layer starts
	Snaps []uint64 `json:"snaps"` // ascending, distinct
	Steps []Step   `json:"steps"`
}

// ------------------------------------------------------------------- generator

var flavors = map[string][]string{
	"mixed": {"SET", "SET", "SET", "SET", "MERGE", "MERGE", "DEL", "DEL", "SINGLEDEL", "SINGLEDEL", "DELSIZED",
		"RANGEDEL", "RANGEDEL", "RKSET", "RKSET", "RKUNSET", "RKDEL"},
	"points":    {"SET", "SET", "SET", "MERGE", "MERGE", "DEL", "DEL", "SINGLEDEL", "DELSIZED"},
	"singledel": {"SET", "SET", "SET", "SINGLEDEL", "SINGLEDEL", "SINGLEDEL", "DEL", "MERGE", "RANGEDEL", "DELSIZED"},
	"merge":     {"MERGE", "MERGE", "MERGE", "SET", "DEL", "SINGLEDEL", "RANGEDEL", "DELSIZED"},
	"ranges":    {"SET", "SET", "MERGE", "DEL", "RANGEDEL", "RANGEDEL", "RANGEDEL", "RKSET", "RKSET", "RKUNSET", "RKDEL"},
	"rangekeys": {"RKSET", "RKSET", "RKSET", "RKUNSET", "RKUNSET", "RKDEL", "SET", "RANGEDEL"},
}
var flavorNames = []string{"mixed", "mixed", "points", "singledel", "singledel", "merge", "ranges", "rangekeys"}

func gen(t *rapid.T) Plan {
	var p Plan
	p.NK = rapid.IntRange(3, 6).Draw(t, "nk")
	n := rapid.OneOf(rapid.IntRange(1, 8), rapid.IntRange(9, 30), rapid.IntRange(9, 30), rapid.IntRange(9, 30)).Draw(t, "nops")
	kinds := flavors[rapid.SampledFrom(flavorNames).Draw(t, "flavor")]
	hot := rapid.IntRange(0, p.NK-1).Draw(t, "hotkey")

	// Per-key bookkeeping for the SingleDelete contract (db.go, Writer.SingleDelete):
	// a key may be single-deleted only if it was Set at most once, and not
	// merged, since the last DEL / DELSIZED / SINGLEDEL / covering RANGEDEL.
	sets := make([]int, p.NK)
	merges := make([]int, p.NK)
	lastLen := make([]int, p.NK)
	for i := 0; i < n; i++ {
		seq := i + 1
		op := Op{Kind: rapid.SampledFrom(kinds).Draw(t, "kind")}
		switch op.Kind {
		case "RANGEDEL", "RKSET", "RKUNSET", "RKDEL":
			op.K = rapid.IntRange(0, p.NK-1).Draw(t, "start")
			op.E = rapid.IntRange(op.K+1, p.NK).Draw(t, "end")
			if op.Kind == "RKSET" || op.Kind == "RKUNSET" {
				op.Sfx = rapid.IntRange(0, len(suffixPool)-1).Draw(t, "sfx")
			}
			if op.Kind == "RANGEDEL" {
				for k := op.K; k < op.E && k < p.NK; k++ {
					sets[k], merges[k] = 0, 0
				}
			}
		default:
			// A hot key concentrates versions so that multi-version interactions
			// (SET/DEL/SET/SINGLEDEL chains, merges across stripes) are common.
			if op.K = hot; rapid.IntRange(0, 9).Draw(t, "usehot") >= 4 {
				op.K = rapid.IntRange(0, p.NK-1).Draw(t, "key")
			}
			if op.Kind == "SINGLEDEL" && (sets[op.K] > 1 || merges[op.K] > 0) {
				op.Kind = "DEL"
			}
			switch op.Kind {
			case "SET":
				sets[op.K]++
				lastLen[op.K] = len(setValue(seq))
				op.Swd = rapid.Bool().Draw(t, "swd")
			case "MERGE":
				merges[op.K]++
			case "DELSIZED":
				if rapid.IntRange(0, 9).Draw(t, "rightsize") < 7 {
					op.Size = lastLen[op.K]
				} else {
					op.Size = rapid.IntRange(0, 12).Draw(t, "size")
				}
				sets[op.K], merges[op.K] = 0, 0
			default: // DEL, SINGLEDEL
				sets[op.K], merges[op.K] = 0, 0
			}
		}
		p.Ops = append(p.Ops, op)
	}

	nl := min(n, rapid.SampledFrom([]int{1, 2, 2, 3, 3, 3, 4, 4, 5, 5}).Draw(t, "nlayers"))
	cutset := map[int]bool{}
	for i := 0; i < nl-1; i++ {
		cutset[rapid.IntRange(1, n-1).Draw(t, "cut")] = true
	}
	for c := range cutset {
		p.Cuts = append(p.Cuts, c)
	}
	sort.Ints(p.Cuts)
	nLayers := len(p.Cuts) + 1

	ns := rapid.SampledFrom([]int{0, 1, 1, 2, 2, 2, 3, 3, 4}).Draw(t, "nsnaps")
	snapset := map[uint64]bool{}
	for i := 0; i < ns; i++ {
		snapset[uint64(rapid.IntRange(1, n+1).Draw(t, "snap"))] = true
	}
	for s := range snapset {
		p.Snaps = append(p.Snaps, s)
	}
	sort.Slice(p.Snaps, func(i, j int) bool { return p.Snaps[i] < p.Snaps[j] })

	for len(p.Steps) < 8 {
		var st Step
		if nLayers > 1 {
			width := rapid.SampledFrom([]int{0, 1, 1, 1, 2, 2, 3, 4}).Draw(t, "width")
			st.I = rapid.IntRange(0, nLayers-1).Draw(t, "i")
			st.J = min(nLayers-1, st.I+width)
			if st.J == st.I && st.I > 0 && width > 0 {
				st.I--
			}
		}
		for b := range p.Snaps {
			if rapid.IntRange(0, 4).Draw(t, "dropsnap") == 0 {
				st.Drop |= 1 << uint(b)
			}
		}
		st.Mode = rapid.SampledFrom([]int{0, 1, 1, 2, 2}).Draw(t, "mode")
		st.Bottom = rapid.Bool().Draw(t, "bottom")
		st.NilEmpty = rapid.Bool().Draw(t, "nilempty")
		st.MergeAbut = rapid.Bool().Draw(t, "mergeabut")
		for i, ne := 0, rapid.IntRange(0, 2).Draw(t, "nsplits"); i < ne; i++ {
			st.Splits = append(st.Splits, rapid.IntRange(1, p.NK-1).Draw(t, "split"))
		}
		if rapid.IntRange(0, 4).Draw(t, "noise") == 0 {
			lo := rapid.IntRange(0, p.NK-1).Draw(t, "noiselo")
			hi := rapid.IntRange(2*lo+1, 2*p.NK).Draw(t, "noisehi")
			st.Noise = []int{2 * lo, hi}
		}
		p.Steps = append(p.Steps, st)
		single := nLayers == 1
		nLayers -= st.J - st.I
		if single || (nLayers == 1 && rapid.IntRange(0, 2).Draw(t, "final") != 0) {
			break
		}
	}
	return p
}

func setValue(seq int) string   { return fmt.Sprintf("v%d", seq) }
func mergeValue(seq int) string { return fmt.Sprintf("m%d.", seq) }
func rkValue(seq int) string    { return fmt.Sprintf("r%d", seq) }

// buildLayers materialises the history as layers, newest first.
func buildLayers(p Plan) []*layer {
	bounds := append([]int{0}, p.Cuts...)
	bounds = append(bounds, len(p.Ops))
	var ls []*layer
	for li := 0; li+1 < len(bounds); li++ {
		l := &layer{}
		lastOfKey := make([][][2]int, p.NK) // per key, oldest first: {index into l.pts, op index}
		for i := bounds[li]; i < bounds[li+1] && i < len(p.Ops); i++ {
			op, seq := p.Ops[i], uint64(i+1)
			npts := len(l.pts)
			k, e := clamp(op.K, 0, p.NK-1), 0
			if op.E > 0 {
				e = clamp(op.E, k+1, p.NK)
			}
			sfx := suffixPool[clamp(op.Sfx, 0, len(suffixPool)-1)]
			switch op.Kind {
			case "SET":
				kind := kSet
				if n := len(lastOfKey[k]); op.Swd && n > 0 {
					prev := lastOfKey[k][n-1]
					covered := false // a RANGEDEL in between would have hidden the tombstone from the SET
					for x := prev[1] + 1; x < i; x++ {
						if o := p.Ops[x]; o.Kind == "RANGEDEL" && clamp(o.K, 0, p.NK-1) <= k && k < clamp(o.E, clamp(o.K, 0, p.NK-1)+1, p.NK) {
							covered = true
						}
					}
					if !covered && isPointTombstone(l.pts[prev[0]].kind) {
						// collapse: drop the tombstone, the SET becomes SETWITHDEL
						l.pts[prev[0]].kind = base.InternalKeyKindInvalid
						kind = kSetDel
					}
				}
				l.pts = append(l.pts, pt{k, seq, kind, setValue(i + 1)})
			case "MERGE":
				l.pts = append(l.pts, pt{k, seq, kMerge, mergeValue(i + 1)})
			case "DEL":
				l.pts = append(l.pts, pt{k, seq, kDel, ""})
			case "SINGLEDEL":
				l.pts = append(l.pts, pt{k, seq, kSingleDel, ""})
			case "DELSIZED":
				v := binary.AppendUvarint(nil, uint64(len(keyOf(k, p.NK))+max(op.Size, 0)))
				l.pts = append(l.pts, pt{k, seq, kDelSized, string(v)})
			case "RANGEDEL":
				l.rdel = append(l.rdel, span{k, e, []skey{{seq: seq, kind: kRangeDel}}})
			case "RKSET":
				l.rkey = append(l.rkey, span{k, e, []skey{{seq: seq, kind: kRKSet, sfx: sfx, val: rkValue(i + 1)}}})
			case "RKUNSET":
				l.rkey = append(l.rkey, span{k, e, []skey{{seq: seq, kind: kRKUnset, sfx: sfx}}})
			case "RKDEL":
				l.rkey = append(l.rkey, span{k, e, []skey{{seq: seq, kind: kRKDel}}})
			}
			if len(l.pts) > npts {
				lastOfKey[k] = append(lastOfKey[k], [2]int{npts, i})
			}
		}
		kept := l.pts[:0]
		for _, q := range l.pts {
			if q.kind != base.InternalKeyKindInvalid {
				kept = append(kept, q)
			}
		}
		l.pts = kept
		sortPts(l.pts)
		ls = append(ls, l)
	}
	// newest first
	for i, j := 0, len(ls)-1; i < j; i, j = i+1, j-1 {
		ls[i], ls[j] = ls[j], ls[i]
	}
	return ls
}

func clamp(v, lo, hi int) int { return max(lo, min(v, hi)) }

func sortPts(ps []pt) {
	sort.SliceStable(ps, func(i, j int) bool {
		if ps[i].k != ps[j].k {
			return ps[i].k < ps[j].k
		}
		return trailer(ps[i].seq, ps[i].kind) > trailer(ps[j].seq, ps[j].kind)
	})
}

// ------------------------------------------------------ driving the real code

type concatMerger struct{ buf []byte }

func (m *concatMerger) MergeNewer(v []byte) error { m.buf = append(m.buf, v...); return nil }
func (m *concatMerger) MergeOlder(v []byte) error {
	m.buf = append(append(make([]byte, 0, len(v)+len(m.buf)), v...), m.buf...)
	return nil
}
func (m *concatMerger) Finish(bool) ([]byte, io.Closer, error) { return m.buf, nil, nil }

func concatMerge(key, value []byte) (base.ValueMerger, error) {
	return &concatMerger{buf: append([]byte(nil), value...)}, nil
}

type compOut struct {
	l           layer
	ineffectual int
	nondet      []string
	missized    int
}

func toSpans(ss []span, nk int) []keyspan.Span {
	out := make([]keyspan.Span, 0, len(ss))
	for _, s := range ss {
		ks := keyspan.Span{Start: []byte(keyOf(s.s, nk)), End: []byte(keyOf(s.e, nk))}
		for _, k := range s.keys {
			key := keyspan.Key{Trailer: base.MakeTrailer(base.SeqNum(k.seq), k.kind)}
			if k.kind == kRKSet || k.kind == kRKUnset {
				key.Suffix = []byte(k.sfx)
			}
			if k.kind == kRKSet {
				key.Value = []byte(k.val)
			}
			ks.Keys = append(ks.Keys, key)
		}
		out = append(out, ks)
	}
	return out
}

func toBounds(ivs []iv, nk int) []base.UserKeyBounds {
	out := make([]base.UserKeyBounds, 0, len(ivs))
	for _, v := range ivs {
		b := base.UserKeyBounds{Start: []byte(keyOf(v.lo/2, nk))}
		if v.hi%2 == 1 {
			b.End = base.UserKeyInclusive([]byte(keyOf((v.hi-1)/2, nk)))
		} else {
			b.End = base.UserKeyExclusive([]byte(keyOf(v.hi/2, nk)))
		}
		out = append(out, b)
	}
	return out
}

// runCompaction feeds the merged inputs to compact.Iter the way
// compact.Runner does (First/Next; Span() for RANGEDEL and range-key
// boundaries) and decodes everything it emits.
func runCompaction(
	nk int, pts []pt, rdel, rkey []span, snaps []uint64,
	delEl, rkEl compact.TombstoneElision, bottom, nilEmpty bool,
) (out compOut, err error) {
	kvs := make([]base.InternalKV, 0, len(pts))
	for _, p := range pts {
		kvs = append(kvs, base.InternalKV{
			K: base.MakeInternalKey([]byte(keyOf(p.k, nk)), base.SeqNum(p.seq), p.kind),
			V: base.MakeInPlaceValue([]byte(p.val)),
		})
	}
	var ss compact.Snapshots
	for _, s := range snaps {
		ss = append(ss, base.SeqNum(s))
	}
	cfg := compact.IterConfig{
		Comparer:                        base.DefaultComparer,
		Merge:                           concatMerge,
		Snapshots:                       ss,
		TombstoneElision:                delEl,
		RangeKeyElision:                 rkEl,
		IsBottommostDataLayer:           bottom,
		IneffectualSingleDeleteCallback: func([]byte) { out.ineffectual++ },
		NondeterministicSingleDeleteCallback: func(k []byte) {
			out.nondet = append(out.nondet, string(k))
		},
		MissizedDeleteCallback: func([]byte, uint64, uint64) { out.missized++ },
	}
	var rdi, rki keyspan.FragmentIterator
	if len(rdel) > 0 || !nilEmpty {
		rdi = keyspan.NewIter(base.DefaultComparer.Compare, toSpans(rdel, nk))
	}
	if len(rkey) > 0 || !nilEmpty {
		rki = keyspan.NewIter(base.DefaultComparer.Compare, toSpans(rkey, nk))
	}
	it := compact.NewIter(cfg, base.NewFakeIter(base.DefaultComparer, kvs), rdi, rki)

	idx := map[string]int{sentinelKey: nk}
	for i := 0; i < nk; i++ {
		idx[alphabet[i]] = i
	}
	decodeSpan := func(s *keyspan.Span) (span, error) {
		a, ok1 := idx[string(s.Start)]
		b, ok2 := idx[string(s.End)]
		if !ok1 || !ok2 {
			return span{}, fmt.Errorf("output span %s has a boundary that is no input boundary", s)
		}
		r := span{s: a, e: b}
		for _, k := range s.Keys {
			r.keys = append(r.keys, skey{seq: uint64(k.SeqNum()), kind: k.Kind(), sfx: string(k.Suffix), val: string(k.Value)})
		}
		return r, nil
	}

	limit := 4*(len(pts)+len(rdel)+len(rkey)) + 16
	lastPt, lastSpanStart := -1, -1
	n := 0
	for kv := it.First(); kv != nil; kv = it.Next() {
		if n++; n > limit {
			return out, fmt.Errorf("compaction iterator produced more than %d entries for %d inputs", limit, len(pts)+len(rdel)+len(rkey))
		}
		kind := kv.K.Kind()
		if kind == kRangeDel || rangekey.IsRangeKey(kind) {
			s, err := decodeSpan(it.Span())
			if err != nil {
				return out, err
			}
			if s.s <= lastPt {
				return out, fmt.Errorf("span %s emitted after a point key at %s", fmtSpan(s, nk), keyOf(lastPt, nk))
			}
			if string(kv.K.UserKey) != keyOf(s.s, nk) {
				return out, fmt.Errorf("span boundary key %s does not match Span() %s", kv.K, fmtSpan(s, nk))
			}
			lastSpanStart = max(lastSpanStart, s.s)
			if kind == kRangeDel {
				out.l.rdel = append(out.l.rdel, s)
			} else {
				out.l.rkey = append(out.l.rkey, s)
			}
			continue
		}
		k, ok := idx[string(kv.K.UserKey)]
		if !ok || k >= nk {
			return out, fmt.Errorf("output point %s has a user key that is not in the input", kv.K)
		}
		v, _, verr := kv.Value(nil)
		if verr != nil {
			return out, fmt.Errorf("output point %s: value: %v", kv.K, verr)
		}
		if k < lastSpanStart {
			return out, fmt.Errorf("point %s emitted after a span starting at %s", kv.K, keyOf(lastSpanStart, nk))
		}
		lastPt = k
		out.l.pts = append(out.l.pts, pt{k: k, seq: uint64(kv.K.SeqNum()), kind: kind, val: string(v)})
	}
	if e := it.Error(); e != nil {
		return out, fmt.Errorf("Iter.Error() = %v", e)
	}
	if e := it.Close(); e != nil {
		return out, fmt.Errorf("Iter.Close() = %v", e)
	}
	return out, nil
}

// ---------------------------------------------------------------------- checks

type stepCtx struct {
	nk     int
	snaps  []uint64
	mode   int
	bottom bool
	inPts  []iv // in-use ranges for point tombstones / RANGEDELs
	inRK   []iv // in-use ranges for range-key tombstones
}

func (c *stepCtx) stripe(seq uint64) int {
	n := 0
	for _, s := range c.snaps {
		if s <= seq {
			n++
		}
	}
	return n
}

func (c *stepCtx) readPoints() []uint64 { return append(append([]uint64{}, c.snaps...), rMax) }

// checkStructure: ordering, kinds, provenance of seqnums, seqnum zeroing.
func checkStructure(c *stepCtx, in, out *layer, inR, inK []span) error {
	nk := c.nk
	for i, p := range out.pts {
		switch p.kind {
		case kSet, kSetDel, kMerge, kDel, kSingleDel, kDelSized:
		default:
			return fmt.Errorf("output point %s has unexpected kind", fmtPt(p, nk))
		}
		if i > 0 {
			q := out.pts[i-1]
			if q.k > p.k || (q.k == p.k && trailer(q.seq, q.kind) <= trailer(p.seq, p.kind)) {
				return fmt.Errorf("output points not strictly increasing: %s then %s", fmtPt(q, nk), fmtPt(p, nk))
			}
		}
		found, hadZero := false, false
		for _, q := range in.pts {
			if q.k == p.k && q.seq == p.seq {
				found = true
			}
			if q.k == p.k && q.seq == 0 {
				hadZero = true
			}
		}
		if p.seq == 0 && !hadZero && !c.bottom {
			return fmt.Errorf("seqnum zeroed without IsBottommostDataLayer: %s", fmtPt(p, nk))
		}
		if p.seq != 0 && !found {
			return fmt.Errorf("output point %s carries a seqnum no input of that key has", fmtPt(p, nk))
		}
	}
	chk := func(name string, outS, inS []span, okKind func(base.InternalKeyKind) bool) error {
		for i, s := range outS {
			if s.s >= s.e || len(s.keys) == 0 {
				return fmt.Errorf("%s output span %s is empty or inverted", name, fmtSpan(s, nk))
			}
			if i > 0 && outS[i-1].e > s.s {
				return fmt.Errorf("%s output spans overlap or are unordered: %s then %s", name, fmtSpan(outS[i-1], nk), fmtSpan(s, nk))
			}
			for j, k := range s.keys {
				if !okKind(k.kind) {
					return fmt.Errorf("%s output span %s has a key of a foreign kind", name, fmtSpan(s, nk))
				}
				if j > 0 && trailer(s.keys[j-1].seq, s.keys[j-1].kind) < trailer(k.seq, k.kind) {
					return fmt.Errorf("%s output span %s keys not in trailer-descending order", name, fmtSpan(s, nk))
				}
				for x := s.s; x < s.e; x++ {
					ok := false
					for _, is := range inS {
						if is.s <= x && x < is.e {
							for _, ik := range is.keys {
								if ik == k {
									ok = true
								}
							}
						}
					}
					if !ok {
						return fmt.Errorf("%s output span %s: key #%d,%s is not an input key over [%s,%s)",
							name, fmtSpan(s, nk), k.seq, k.kind, keyOf(x, nk), keyOf(x+1, nk))
					}
				}
			}
		}
		return nil
	}
	if err := chk("RANGEDEL", out.rdel, inR, func(k base.InternalKeyKind) bool { return k == kRangeDel }); err != nil {
		return err
	}
	return chk("range-key", out.rkey, inK, rangekey.IsRangeKey)
}

// checkLocal compares the compaction's input and output on their own, at every
// snapshot and at the latest state, distinguishing "deleted" from "whatever is
// below shows through": a tombstone that is the newest visible entry of its key
// may only disappear (leaving nothing of that key visible in the output) if the
// elision setting allows it at that key, or (for SINGLEDEL) by consuming the
// entry it deletes. (The range-key compactor treats the lowest stripe that has
// keys as the last one, so no stripe condition is imposed here; dropping a
// tombstone above older surviving entries shows up as a changed value.)
func checkLocal(c *stepCtx, in, out *layer, lab map[string]bool) error {
	ins, outs := []*layer{in}, []*layer{out}
	for _, r := range c.readPoints() {
		for k := 0; k < c.nk; k++ {
			b, a := scanPoint(ins, k, r), scanPoint(outs, k, r)
			if c.bottom {
				bv, bok := b.visible()
				av, aok := a.visible()
				if bv != av || bok != aok {
					return fmt.Errorf("key %s at read seqnum %s (bottommost): input reads %s, output reads %s",
						keyOf(k, c.nk), fmtR(r), b, a)
				}
				continue
			}
			bc, bp, bv := b.normalized()
			ac, ap, av := a.normalized()
			if bc == ac && bp == ap && bv == av {
				continue
			}
			if b.base == bDel && a.base == bThrough && a.pending == b.pending {
				if b.termKind == kSingleDel {
					lab["singledel-annihilated"] = true
					continue
				}
				if c.mode != 0 && !ivOverlaps(c.inPts, 2*k, 2*k+1) {
					if b.termKind == kRangeDel {
						lab["rangedel-elided"] = true
					} else {
						lab["point-tombstone-elided"] = true
					}
					continue
				}
				return fmt.Errorf("tombstone dropped where elision is not allowed: key %s at read seqnum %s: input reads %s, output reads %s",
					keyOf(k, c.nk), fmtR(r), b, a)
			}
			return fmt.Errorf("key %s at read seqnum %s: input reads %s, output reads %s", keyOf(k, c.nk), fmtR(r), b, a)
		}
		for x := 0; x < c.nk; x++ {
			for _, sfx := range append(append([]string{}, suffixPool...), probeSuffix) {
				b, a := scanRK(ins, x, sfx, r), scanRK(outs, x, sfx, r)
				if c.bottom {
					if (b.cls == bSet) != (a.cls == bSet) || (b.cls == bSet && b.val != a.val) {
						return fmt.Errorf("range key %s over [%s,%s) at read seqnum %s (bottommost): input reads %s, output reads %s",
							sfx, keyOf(x, c.nk), keyOf(x+1, c.nk), fmtR(r), b, a)
					}
					continue
				}
				if b.cls == a.cls && b.val == a.val {
					continue
				}
				if b.cls == bDel && a.cls == bThrough && c.mode != 0 && !ivOverlaps(c.inRK, 2*x, 2*x+2) {
					lab["rangekey-tombstone-elided"] = true
					continue
				}
				return fmt.Errorf("range key %s over [%s,%s) at read seqnum %s: input reads %s, output reads %s",
					sfx, keyOf(x, c.nk), keyOf(x+1, c.nk), fmtR(r), b, a)
			}
		}
	}
	return nil
}

// checkViews compares the whole LSM (untouched upper and lower layers
// included) before and after the compaction.
func checkViews(c *stepCtx, before, after []*layer) error {
	for _, r := range c.readPoints() {
		for k := 0; k < c.nk; k++ {
			b, a := scanPoint(before, k, r), scanPoint(after, k, r)
			bv, bok := b.visible()
			av, aok := a.visible()
			if bv != av || bok != aok {
				return fmt.Errorf("view changed: key %s at read seqnum %s: before %s, after %s", keyOf(k, c.nk), fmtR(r), b, a)
			}
		}
		for x := 0; x < c.nk; x++ {
			for _, sfx := range suffixPool {
				b, a := scanRK(before, x, sfx, r), scanRK(after, x, sfx, r)
				if (b.cls == bSet) != (a.cls == bSet) || (b.cls == bSet && b.val != a.val) {
					return fmt.Errorf("view changed: range key %s over [%s,%s) at read seqnum %s: before %s, after %s",
						sfx, keyOf(x, c.nk), keyOf(x+1, c.nk), fmtR(r), b, a)
				}
			}
		}
	}
	return nil
}

// singleDelAllowedAtEnd reports, per key, whether the SingleDelete contract
// would allow one more SINGLEDEL after the whole history (at most one SET and
// no MERGE since the last DEL / DELSIZED / SINGLEDEL / covering RANGEDEL).
func singleDelAllowedAtEnd(p Plan) []bool {
	sets, merges := make([]int, p.NK), make([]int, p.NK)
	for _, op := range p.Ops {
		k := clamp(op.K, 0, p.NK-1)
		switch op.Kind {
		case "SET":
			sets[k]++
		case "MERGE":
			merges[k]++
		case "DEL", "SINGLEDEL", "DELSIZED":
			sets[k], merges[k] = 0, 0
		case "RANGEDEL":
			for x := k; x < clamp(op.E, k+1, p.NK); x++ {
				sets[x], merges[x] = 0, 0
			}
		}
	}
	ok := make([]bool, p.NK)
	for k := range ok {
		ok[k] = sets[k] <= 1 && merges[k] == 0
	}
	return ok
}

// checkSingleDelSafety checks, on a whole LSM state, the invariant that makes
// SINGLEDEL sound (iterator.go, setNext / singleDeleteNext doc comments): a
// SINGLEDEL that is present - or that the contract still allows to be written -
// annihilates the plain SET directly beneath it and nothing else, so whatever
// lies beneath that SET must read as absent. A SET that was collapsed with a
// tombstone must therefore be a SETWITHDEL (which turns the SINGLEDEL into a
// DEL instead). The histories respect the contract, so the invariant holds
// initially; a compaction that breaks it has produced an output that a later,
// correct compaction would turn into a resurrected value.
func checkSingleDelSafety(nk int, ls []*layer, sdOK []bool) error {
	for k := 0; k < nk; k++ {
		var ents []pt
		for _, l := range ls {
			for _, q := range l.pts {
				if q.k == k {
					ents = append(ents, q)
				}
			}
		}
		sort.SliceStable(ents, func(i, j int) bool {
			return trailer(ents[i].seq, ents[i].kind) > trailer(ents[j].seq, ents[j].kind)
		})
		check := func(sdSeq uint64, sdDesc string, e pt) error {
			if e.kind != kSet {
				return nil
			}
			// Is e itself already deleted by a RANGEDEL between it and the SINGLEDEL?
			for _, l := range ls {
				for _, s := range l.rdel {
					if s.s <= k && k < s.e {
						for _, key := range s.keys {
							if key.seq > e.seq && key.seq < sdSeq {
								return nil
							}
						}
					}
				}
			}
			if v, ok := scanPoint(ls, k, e.seq).visible(); ok {
				return fmt.Errorf("SingleDelete safety: %s would consume plain %s and resurrect %q; "+
					"the SET shadows a tombstone-deleted or older value and should be a SETWITHDEL (or the older value should be gone)",
					sdDesc, fmtPt(e, nk), v)
			}
			return nil
		}
		if len(ents) > 0 && sdOK[k] {
			if err := check(rMax, "a contract-respecting future SINGLEDEL", ents[0]); err != nil {
				return err
			}
		}
		for x := 0; x+1 < len(ents); x++ {
			if ents[x].kind == kSingleDel {
				if err := check(ents[x].seq, fmtPt(ents[x], nk), ents[x+1]); err != nil {
					return err
				}
			}
		}
	}
	return nil
}

func fmtR(r uint64) string {
	if r == rMax {
		return "latest"
	}
	return fmt.Sprintf("%d", r)
}

// nonTrivialStep: a snapshot separates two versions of one key inside the
// compacted range and a tombstone or merge is involved.
func nonTrivialStep(c *stepCtx, in *layer, inR []span) bool {
	for k := 0; k < c.nk; k++ {
		stripes := map[int]bool{}
		special := false
		for _, p := range in.pts {
			if p.k == k {
				stripes[c.stripe(p.seq)] = true
				special = special || p.kind == kMerge || isPointTombstone(p.kind)
			}
		}
		npts := len(stripes)
		for _, s := range inR {
			if s.s <= k && k < s.e {
				for _, key := range s.keys {
					stripes[c.stripe(key.seq)] = true
					special = true
				}
			}
		}
		if npts > 0 && len(stripes) >= 2 && special {
			return true
		}
	}
	return false
}

// ------------------------------------------------------------------------ exec

func exec(p Plan) (out evid.Outcome, err error) {
	lab := map[string]bool{}
	defer func() {
		for l := range lab {
			out.Labels = append(out.Labels, l)
		}
		sort.Strings(out.Labels)
	}()
	if p.NK < 1 || p.NK > len(alphabet) || len(p.Ops) == 0 {
		lab["malformed-plan"] = true
		return out, nil
	}
	for _, op := range p.Ops {
		lab["op:"+op.Kind] = true
	}
	layers := buildLayers(p)
	sdOK := singleDelAllowedAtEnd(p)
	if err := checkSingleDelSafety(p.NK, layers, sdOK); err != nil {
		return out, fmt.Errorf("harness invariant: initial state: %v", err)
	}
	lab[fmt.Sprintf("layers=%d", len(layers))] = true
	switch n := len(p.Snaps); {
	case n == 0:
		lab["snapshots=0"] = true
	case n <= 2:
		lab["snapshots=1-2"] = true
	default:
		lab["snapshots=3+"] = true
	}
	alive := make([]bool, len(p.Snaps))
	for i := range alive {
		alive[i] = true
	}
	out.Counters = map[string]int{}
	nsteps := 0
	for si, st := range p.Steps {
		if len(layers) == 0 {
			break
		}
		i := clamp(st.I, 0, len(layers)-1)
		j := clamp(st.J, i, len(layers)-1)
		for b := range alive {
			if st.Drop&(1<<uint(b)) != 0 {
				alive[b] = false
			}
		}
		c := &stepCtx{nk: p.NK, mode: clamp(st.Mode, 0, 2)}
		for b, s := range p.Snaps {
			if alive[b] && (len(c.snaps) == 0 || c.snaps[len(c.snaps)-1] < s) {
				c.snaps = append(c.snaps, s)
			}
		}
		lower := layers[j+1:]
		lowerEmpty := true
		for _, l := range lower {
			lowerEmpty = lowerEmpty && l.empty()
		}
		// compaction.go: isBottommostDataLayer() holds only when both elision
		// policies elide everything, i.e. nothing overlaps below.
		c.bottom = st.Bottom && lowerEmpty && c.mode != 0
		delEl, rkEl := compact.NoTombstoneElision(), compact.NoTombstoneElision()
		if c.mode != 0 {
			var noise []iv
			if len(st.Noise) == 2 && !c.bottom {
				lo := clamp(st.Noise[0]/2*2, 0, 2*(p.NK-1))
				noise = []iv{{lo, clamp(st.Noise[1], lo+1, 2*p.NK)}}
			}
			c.inPts = inuse(lower, c.mode, true, noise, st.MergeAbut)
			c.inRK = inuse(lower, c.mode, false, noise, st.MergeAbut)
			delEl = compact.ElideTombstonesOutsideOf(toBounds(c.inPts, p.NK))
			rkEl = compact.ElideTombstonesOutsideOf(toBounds(c.inRK, p.NK))
		}

		// Merge the input layers into one sorted stream.
		in := &layer{}
		var rawR, rawK []span
		for _, l := range layers[i : j+1] {
			in.pts = append(in.pts, l.pts...)
			rawR = append(rawR, l.rdel...)
			rawK = append(rawK, l.rkey...)
		}
		sortPts(in.pts)
		var splits []int
		for _, s := range st.Splits {
			splits = append(splits, clamp(s, 0, p.NK))
		}
		in.rdel = fragment(rawR, splits)
		in.rkey = fragment(rawK, splits)
		for x := 1; x < len(in.pts); x++ {
			if in.pts[x-1].k == in.pts[x].k && in.pts[x-1].seq == in.pts[x].seq {
				return out, fmt.Errorf("step %d: harness invariant: duplicate input %s", si, fmtPt(in.pts[x], p.NK))
			}
		}
		if nonTrivialStep(c, in, in.rdel) {
			out.NonTrivial = true
			lab["nt:snapshot-splits-key-with-tombstone-or-merge"] = true
		}
		lab[[]string{"elide:none", "elide:tight", "elide:loose"}[c.mode]] = true
		if c.bottom {
			lab["bottommost"] = true
		}
		if i == j {
			lab["single-layer-compaction"] = true
		}

		desc := func() string {
			return fmt.Sprintf("step %d: compact layers %d..%d of %d, snapshots=%v mode=%d bottommost=%v inuse(points)=%v inuse(rangekeys)=%v\n  input : %s\n",
				si, i, j, len(layers), c.snaps, c.mode, c.bottom, toBounds(c.inPts, p.NK), toBounds(c.inRK, p.NK), fmtLayer(in, p.NK))
		}
		res, err := runCompaction(p.NK, in.pts, in.rdel, in.rkey, c.snaps, delEl, rkEl, c.bottom, st.NilEmpty)
		if err != nil {
			return out, fmt.Errorf("%s  %v\n  output so far: %s", desc(), err, fmtLayer(&res.l, p.NK))
		}
		fail := func(e error) error {
			return fmt.Errorf("%s  output: %s\n  %v", desc(), fmtLayer(&res.l, p.NK), e)
		}
		if len(res.nondet) > 0 {
			return out, fail(fmt.Errorf("NondeterministicSingleDeleteCallback fired for %v although the history respects the SingleDelete contract", res.nondet))
		}
		if err := checkStructure(c, in, &res.l, in.rdel, in.rkey); err != nil {
			return out, fail(err)
		}
		if err := checkLocal(c, in, &res.l, lab); err != nil {
			return out, fail(err)
		}
		after := append(append(append([]*layer{}, layers[:i]...), &res.l), layers[j+1:]...)
		if err := checkViews(c, layers, after); err != nil {
			return out, fail(err)
		}
		if err := checkSingleDelSafety(p.NK, after, sdOK); err != nil {
			return out, fail(err)
		}
		if res.ineffectual > 0 {
			lab["cb:ineffectual-singledel"] = true
		}
		if res.missized > 0 {
			lab["cb:missized-delsized"] = true
		}
		for _, q := range res.l.pts {
			if q.seq == 0 {
				lab["zeroed-seqnum"] = true
			}
			if q.kind == kSetDel {
				lab["out:SETWITHDEL"] = true
			}
		}
		out.Counters["compactions"]++
		out.Counters["input_points"] += len(in.pts)
		out.Counters["output_points"] += len(res.l.pts)
		out.Counters["input_spans"] += len(in.rdel) + len(in.rkey)
		out.Counters["output_spans"] += len(res.l.rdel) + len(res.l.rkey)
		layers = after
		nsteps++
	}
	lab[fmt.Sprintf("steps=%d", min(nsteps, 5))] = true
	return out, nil
}

func describe(p Plan) any {
	var ops []string
	for i, op := range p.Ops {
		s := fmt.Sprintf("%d:%s %s", i+1, op.Kind, keyOf(op.K, p.NK))
		if op.E > 0 {
			s += "-" + keyOf(op.E, p.NK)
		}
		ops = append(ops, s)
	}
	var steps []string
	for _, st := range p.Steps {
		steps = append(steps, fmt.Sprintf("[%d..%d mode=%d bottom=%v drop=%b]", st.I, st.J, st.Mode, st.Bottom, st.Drop))
	}
	return map[string]any{"ops": strings.Join(ops, " "), "cuts": p.Cuts, "snaps": p.Snaps, "steps": strings.Join(steps, " ")}
}

func TestC17(t *testing.T) {
	evid.Run(t, evid.Spec[Plan]{
		ID: "C17", Level: "exploration",
		Rule: "rapid draws a contract-respecting history (<=30 writes over 3-6 user keys: SET, MERGE, DEL, SINGLEDEL, DELSIZED, RANGEDEL, " +
			"RANGEKEYSET/UNSET/DEL), its split into <=5 layers, <=4 snapshots and a chain of compactions of contiguous layer ranges " +
			"(elision none / tight / loose in-use ranges, bottommost flag, snapshots only ever released); " +
			"non-trivial = in some compaction a snapshot separates two versions (or a version and a covering RANGEDEL) of one user key " +
			"inside the compacted range and a tombstone or merge is involved; distinct = hash of the plan JSON",
		Assumptions: []string{
			"reads are modelled by sequence number only (newest first, RANGEDEL#t hides seq<t); this equals level-aware reads as long as the LSM invariant holds, which the layer construction guarantees",
			"compactions take whole layers (no key-range-restricted compactions, no sstable boundary truncation)",
			"every write has its own seqnum (no ingested sstables sharing one seqnum)",
			"IsBottommostDataLayer is only set together with elide-everything policies, as compaction.go does",
			"the value merger is plain concatenation (associative); includesBase is ignored",
		},
		Gen: gen, Exec: exec, Quick: 6000, Thorough: 100000,
		Sample: describe,
	})
}
