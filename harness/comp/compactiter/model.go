// Package compactiter: C17 — compaction output preserves every snapshot's view.
//
// model.go holds the independent reference model: a tiny layered LSM over a
// fixed pool of user keys, the read semantics ("view") at a read sequence
// number, span fragmentation of the inputs and the in-use range computation.
// Nothing in this file calls the code under test.
package compactiter

import (
	"fmt"
	"sort"
	"strings"

	"github.com/cockroachdb/pebble/internal/base"
)

// Key pool. All point keys and all span boundaries are pool members, so the
// elementary intervals of the key space are [pool[i], pool[i+1]) and a point
// read / range-key read at pool[i] is representative of everything the case
// contains. endIdx(nk) is only ever used as an exclusive end boundary.
var alphabet = []string{"a", "ab", "b", "c", "cc", "d"}

const sentinelKey = "e"

func keyOf(idx, nk int) string {
	if idx >= nk {
		return sentinelKey
	}
	return alphabet[idx]
}

var suffixPool = []string{"@1", "@2", "@3"}

// probeSuffix is never written; reading it probes the "default" fate of
// suffixes (deleted by a RANGEKEYDEL vs. falling through to lower layers).
const probeSuffix = "@9"

// rMax is the read seqnum of the latest state.
const rMax = uint64(1) << 55

const (
	kSet       = base.InternalKeyKindSet
	kSetDel    = base.InternalKeyKindSetWithDelete
	kMerge     = base.InternalKeyKindMerge
	kDel       = base.InternalKeyKindDelete
	kSingleDel = base.InternalKeyKindSingleDelete
	kDelSized  = base.InternalKeyKindDeleteSized
	kRangeDel  = base.InternalKeyKindRangeDelete
	kRKSet     = base.InternalKeyKindRangeKeySet
	kRKUnset   = base.InternalKeyKindRangeKeyUnset
	kRKDel     = base.InternalKeyKindRangeKeyDelete
)

// pt is one point internal key.
type pt struct {
	k    int // pool index
	seq  uint64
	kind base.InternalKeyKind
	val  string
}

// skey is one key of a span (RANGEDEL or range key).
type skey struct {
	seq  uint64
	kind base.InternalKeyKind
	sfx  string
	val  string
}

// span covers pool keys s <= idx < e, i.e. user keys [pool[s], pool[e]).
type span struct {
	s, e int
	keys []skey
}

// layer is one sorted run of the LSM (memtable, sstable level, ...).
type layer struct {
	pts  []pt
	rdel []span
	rkey []span
}

func (l *layer) empty() bool { return len(l.pts) == 0 && len(l.rdel) == 0 && len(l.rkey) == 0 }

func trailer(seq uint64, kind base.InternalKeyKind) uint64 { return seq<<8 | uint64(kind) }

func isPointTombstone(k base.InternalKeyKind) bool {
	return k == kDel || k == kSingleDel || k == kDelSized
}

// ---------------------------------------------------------------- point reads

type baseClass int

const (
	bThrough baseClass = iota // ran out of entries: whatever is below shows through
	bSet                      // stopped at a SET / SETWITHDEL
	bDel                      // stopped at a point tombstone or hidden by a RANGEDEL
)

// pres is the result of scanning the entries of one user key newest to oldest
// at a read seqnum.
type pres struct {
	pending  string // merge operands seen before the base, concatenated oldest..newest
	base     baseClass
	val      string               // base value when base == bSet
	termKind base.InternalKeyKind // kind of the terminating tombstone when base == bDel
	termSeq  uint64               // its seqnum
}

// scanPoint reads pool key k at read seqnum r (entries with seq < r are
// visible) over the given layers. The semantics follow the documented ones:
// newest entry first; SET/SETWITHDEL ends the scan with a value; DEL, SINGLEDEL
// and DELSIZED end it as deleted; MERGE accumulates; a visible RANGEDEL with
// seqnum t hides every point with seq < t.
func scanPoint(ls []*layer, k int, r uint64) pres {
	var ents []pt
	var t uint64
	hasT := false
	for _, l := range ls {
		for _, p := range l.pts {
			if p.k == k && p.seq < r {
				ents = append(ents, p)
			}
		}
		for _, s := range l.rdel {
			if s.s <= k && k < s.e {
				for _, key := range s.keys {
					if key.seq < r && (!hasT || key.seq > t) {
						t, hasT = key.seq, true
					}
				}
			}
		}
	}
	sort.SliceStable(ents, func(i, j int) bool {
		return trailer(ents[i].seq, ents[i].kind) > trailer(ents[j].seq, ents[j].kind)
	})
	var res pres
	for _, e := range ents {
		if hasT && e.seq < t {
			break
		}
		switch e.kind {
		case kSet, kSetDel:
			res.base, res.val = bSet, e.val
			return res
		case kMerge:
			res.pending = e.val + res.pending
		case kDel, kSingleDel, kDelSized:
			res.base, res.termKind, res.termSeq = bDel, e.kind, e.seq
			return res
		}
	}
	if hasT {
		res.base, res.termKind, res.termSeq = bDel, kRangeDel, t
	}
	return res
}

// visible is what a reader sees when nothing else lies below.
func (p pres) visible() (string, bool) {
	switch p.base {
	case bSet:
		return p.val + p.pending, true
	default:
		return p.pending, p.pending != ""
	}
}

// normalized folds "merge operands over a tombstone" into a SET of the
// operands (which is how they read regardless of what is below).
func (p pres) normalized() (cls baseClass, pending, val string) {
	if p.base == bDel && p.pending != "" {
		return bSet, "", p.pending
	}
	if p.base == bSet {
		return bSet, "", p.val + p.pending
	}
	return p.base, p.pending, ""
}

func (p pres) String() string {
	switch p.base {
	case bSet:
		return fmt.Sprintf("value(%q)", p.val+p.pending)
	case bDel:
		if p.pending != "" {
			return fmt.Sprintf("value(%q over %s#%d)", p.pending, p.termKind, p.termSeq)
		}
		return fmt.Sprintf("deleted(by %s#%d)", p.termKind, p.termSeq)
	default:
		if p.pending != "" {
			return fmt.Sprintf("merge(%q)+below", p.pending)
		}
		return "below"
	}
}

// ------------------------------------------------------------ range-key reads

type rkres struct {
	cls     baseClass // bThrough, bSet, bDel
	val     string
	termSeq uint64
}

// scanRK reads suffix sfx over the elementary interval [pool[x], pool[x+1]) at
// read seqnum r: newest key first (by trailer, so SET > UNSET > DEL within one
// seqnum); a RANGEKEYDEL ends the scan as deleted, a SET/UNSET of the suffix
// ends it as set/deleted.
func scanRK(ls []*layer, x int, sfx string, r uint64) rkres {
	var ents []skey
	for _, l := range ls {
		for _, s := range l.rkey {
			if s.s <= x && x < s.e {
				for _, key := range s.keys {
					if key.seq < r {
						ents = append(ents, key)
					}
				}
			}
		}
	}
	sort.SliceStable(ents, func(i, j int) bool {
		return trailer(ents[i].seq, ents[i].kind) > trailer(ents[j].seq, ents[j].kind)
	})
	for _, e := range ents {
		switch {
		case e.kind == kRKDel:
			return rkres{cls: bDel, termSeq: e.seq}
		case e.sfx == sfx && e.kind == kRKSet:
			return rkres{cls: bSet, val: e.val}
		case e.sfx == sfx && e.kind == kRKUnset:
			return rkres{cls: bDel, termSeq: e.seq}
		}
	}
	return rkres{}
}

func (r rkres) String() string {
	switch r.cls {
	case bSet:
		return fmt.Sprintf("set(%q)", r.val)
	case bDel:
		return fmt.Sprintf("deleted(#%d)", r.termSeq)
	}
	return "below"
}

// -------------------------------------------------------------- fragmentation

// fragment splits spans at every boundary of any span (and at the extra split
// points) so that the result is ordered, non-overlapping and every fragment
// carries all keys covering it, sorted by trailer descending. Splitting a span
// further than necessary does not change its meaning (sstable boundaries do
// the same in a real LSM).
func fragment(spans []span, extra []int) []span {
	bset := map[int]bool{}
	for _, s := range spans {
		bset[s.s], bset[s.e] = true, true
	}
	for _, x := range extra {
		bset[x] = true
	}
	var bs []int
	for b := range bset {
		bs = append(bs, b)
	}
	sort.Ints(bs)
	var out []span
	for i := 0; i+1 < len(bs); i++ {
		lo, hi := bs[i], bs[i+1]
		var keys []skey
		for _, s := range spans {
			if s.s <= lo && hi <= s.e {
				keys = append(keys, s.keys...)
			}
		}
		if len(keys) == 0 {
			continue
		}
		sort.SliceStable(keys, func(a, b int) bool {
			return trailer(keys[a].seq, keys[a].kind) > trailer(keys[b].seq, keys[b].kind)
		})
		out = append(out, span{s: lo, e: hi, keys: keys})
	}
	return out
}

// -------------------------------------------------------------- in-use ranges

// iv is an interval in doubled coordinates: pool key i is [2i, 2i+1), the span
// [pool[s], pool[e]) is [2s, 2e). hi odd means "inclusive of pool[(hi-1)/2]".
type iv struct{ lo, hi int }

// inuse computes in-use ranges from the layers below a compaction.
// mode 1 (tight): exactly the point keys (forPoints) or the range-key spans.
// mode 2 (loose): one range per non-empty lower layer covering all of its
// data, like sstable bounds would.
func inuse(lower []*layer, mode int, forPoints bool, noise []iv, mergeAbut bool) []iv {
	var ivs []iv
	for _, l := range lower {
		if mode == 1 {
			if forPoints {
				for _, p := range l.pts {
					ivs = append(ivs, iv{2 * p.k, 2*p.k + 1})
				}
			} else {
				for _, s := range l.rkey {
					ivs = append(ivs, iv{2 * s.s, 2 * s.e})
				}
			}
			continue
		}
		if l.empty() {
			continue
		}
		lo, hi := 1<<30, -1
		for _, p := range l.pts {
			lo, hi = min(lo, 2*p.k), max(hi, 2*p.k+1)
		}
		for _, ss := range [][]span{l.rdel, l.rkey} {
			for _, s := range ss {
				lo, hi = min(lo, 2*s.s), max(hi, 2*s.e)
			}
		}
		ivs = append(ivs, iv{lo, hi})
	}
	ivs = append(ivs, noise...)
	sort.Slice(ivs, func(i, j int) bool {
		if ivs[i].lo != ivs[j].lo {
			return ivs[i].lo < ivs[j].lo
		}
		return ivs[i].hi < ivs[j].hi
	})
	var out []iv
	for _, v := range ivs {
		if n := len(out); n > 0 && (v.lo < out[n-1].hi || (mergeAbut && v.lo == out[n-1].hi)) {
			out[n-1].hi = max(out[n-1].hi, v.hi)
			continue
		}
		out = append(out, v)
	}
	return out
}

func ivOverlaps(ivs []iv, lo, hi int) bool {
	for _, v := range ivs {
		if v.lo < hi && lo < v.hi {
			return true
		}
	}
	return false
}

// ------------------------------------------------------------------ rendering

func fmtPt(p pt, nk int) string {
	if p.val != "" {
		return fmt.Sprintf("%s#%d,%s=%q", keyOf(p.k, nk), p.seq, p.kind, p.val)
	}
	return fmt.Sprintf("%s#%d,%s", keyOf(p.k, nk), p.seq, p.kind)
}

func fmtSpan(s span, nk int) string {
	var b strings.Builder
	fmt.Fprintf(&b, "[%s,%s){", keyOf(s.s, nk), keyOf(s.e, nk))
	for i, k := range s.keys {
		if i > 0 {
			b.WriteString(" ")
		}
		fmt.Fprintf(&b, "#%d,%s", k.seq, k.kind)
		if k.sfx != "" {
			b.WriteString("," + k.sfx)
		}
		if k.val != "" {
			b.WriteString("=" + k.val)
		}
	}
	b.WriteString("}")
	return b.String()
}

func fmtLayer(l *layer, nk int) string {
	var parts []string
	for _, p := range l.pts {
		parts = append(parts, fmtPt(p, nk))
	}
	for _, s := range l.rdel {
		parts = append(parts, fmtSpan(s, nk))
	}
	for _, s := range l.rkey {
		parts = append(parts, fmtSpan(s, nk))
	}
	if len(parts) == 0 {
		return "(empty)"
	}
	return strings.Join(parts, "  ")
}
