package comparers

import (
	"bytes"
	"fmt"
	"runtime"
	"slices"
	"sort"
	"unsafe"

	"github.com/cockroachdb/pebble/cockroachkvs"
	"github.com/cockroachdb/pebble/internal/base"
	"github.com/cockroachdb/pebble/sstable/block"
	"github.com/cockroachdb/pebble/sstable/blockiter"
	"github.com/cockroachdb/pebble/sstable/colblk"
	"github.com/cockroachdb/pebble/verifharness/evid"
)

func copyAligned(b []byte) []byte {
	a := make([]uint64, (len(b)+7)/8+1)
	d := unsafe.Slice((*byte)(unsafe.Pointer(&a[0])), len(b))
	copy(d, b)
	return d
}

// sameCrdbKey checks that got is an acceptable materialization of the written
// key: byte-identical when the written key is in canonical form; otherwise the
// same prefix and the same normalized version, and not longer than the
// original (readers size their buffers from the longest written key).
func sameCrdbKey(orig mkey, got []byte) error {
	if orig.canonical() {
		if !bytes.Equal(orig.full, got) {
			return fmt.Errorf("materialized %x, want byte-identical %x", got, orig.full)
		}
		return nil
	}
	plen, hasVer, norm, ok := decodeCrdb(got)
	if !ok {
		return fmt.Errorf("materialized %x is not a well-formed engine key (written %x)", got, orig.full)
	}
	if !bytes.Equal(got[:plen], orig.prefix()) || !hasVer || !bytes.Equal(norm, orig.norm) {
		return fmt.Errorf("materialized %x is not equivalent to written %x", got, orig.full)
	}
	if len(got) > len(orig.full) {
		return fmt.Errorf("materialized %x is longer than written %x", got, orig.full)
	}
	return nil
}

func execBlock(p Plan, out *evid.Outcome) error {
	const cn = cmpCrdb
	rows := make([]mkey, len(p.Keys))
	for i, r := range p.Keys {
		rows[i] = p.build(r)
	}
	sort.SliceStable(rows, func(i, j int) bool { return refCompare(cn, rows[i], rows[j]) < 0 })
	n := len(rows)
	maxLen := 0
	kinds := map[int]bool{}
	for _, r := range rows {
		maxLen = max(maxLen, len(r.full))
		kinds[r.kind] = true
	}
	{
		l := "blk:types="
		for _, k := range []struct {
			kind int
			name string
		}{{vNone, "empty"}, {crWall, "mvcc"}, {crLogical, "mvcc"}, {crSynth, "mvcc"}, {crLock, "lock"}} {
			if kinds[k.kind] && !bytes.Contains([]byte(l), []byte(k.name)) {
				l += k.name + "+"
			}
		}
		out.Labels = append(out.Labels, l[:len(l)-1])
	}

	// ---- write
	var enc colblk.DataBlockEncoder
	enc.Init(&cockroachkvs.KeySchema, colblk.NoTieringColumns())
	for i, k := range rows {
		kcmp := enc.KeyWriter.ComparePrev(k.full)
		if int(kcmp.PrefixLen) != k.plen {
			return fmt.Errorf("ComparePrev(%x).PrefixLen = %d, want %d", k.full, kcmp.PrefixLen, k.plen)
		}
		wantCmp, wantCommon := 1, 0
		if i > 0 {
			wantCmp = refCompare(cn, k, rows[i-1])
			wantCommon = commonPrefixLen(k.prefix(), rows[i-1].prefix())
		}
		if int(kcmp.UserKeyComparison) != wantCmp {
			return fmt.Errorf("row %d: ComparePrev(%x).UserKeyComparison = %d, want %d (prev %x)", i, k.full, kcmp.UserKeyComparison, wantCmp, prevFull(rows, i))
		}
		if int(kcmp.CommonPrefixLen) != wantCommon {
			return fmt.Errorf("row %d: ComparePrev(%x).CommonPrefixLen = %d, want %d (prev %x)", i, k.full, kcmp.CommonPrefixLen, wantCommon, prevFull(rows, i))
		}
		ik := base.MakeInternalKey(k.full, base.SeqNum(n-i), base.InternalKeyKindSet)
		enc.Add(ik, k.full, block.InPlaceValuePrefix(kcmp.PrefixEqual()), kcmp, false /* isObsolete */, base.KVMeta{})
		if err := sameCrdbKey(k, enc.MaterializeLastUserKey(nil)); err != nil {
			return fmt.Errorf("row %d: KeyWriter.MaterializeKey: %v", i, err)
		}
	}
	// The writer can materialize its last two rows (PrefixBytesBuilder.UnsafeGet
	// supports only those; Finish(rows-1) relies on the second-to-last).
	for i := n - 1; i >= max(0, n-2); i-- {
		if err := sameCrdbKey(rows[i], enc.KeyWriter.MaterializeKey([]byte("x"), i)[1:]); err != nil {
			return fmt.Errorf("row %d: KeyWriter.MaterializeKey (random access): %v", i, err)
		}
	}
	blk, lastKey := enc.Finish(n, enc.Size())
	if err := sameCrdbKey(rows[n-1], lastKey.UserKey); err != nil {
		return fmt.Errorf("Finish lastKey: %v", err)
	}
	blk = copyAligned(blk)
	defer runtime.KeepAlive(blk)

	// ---- read: the raw key seeker
	var dec colblk.DataBlockDecoder
	bd := dec.Init(&cockroachkvs.KeySchema, blk)
	if bd.Rows() != n {
		return fmt.Errorf("block has %d rows, wrote %d", bd.Rows(), n)
	}
	meta := &colblk.KeySeekerMetadata{}
	cockroachkvs.KeySchema.InitKeySeekerMetadata(meta, &dec, bd)
	ks := cockroachkvs.KeySchema.KeySeeker(meta)
	defer runtime.KeepAlive(meta)

	synth := p.build(Ref{P: 0, V: p.SynthSuffix})
	synthSuffix := bytes.Clone(synth.suffix())

	var kiter colblk.PrefixBytesIter
	kiter.Init(maxLen+len(synthSuffix), nil)
	for i := 0; i < n; i++ { // sequential
		if err := sameCrdbKey(rows[i], ks.MaterializeUserKey(&kiter, i-1, i)); err != nil {
			return fmt.Errorf("row %d: MaterializeUserKey(sequential): %v", i, err)
		}
	}
	for i := n - 1; i >= 0; i -= 2 { // random access
		if err := sameCrdbKey(rows[i], ks.MaterializeUserKey(&kiter, -1, i)); err != nil {
			return fmt.Errorf("row %d: MaterializeUserKey(random access): %v", i, err)
		}
	}
	if len(synthSuffix) > 0 {
		prev := -1
		for i := 0; i < n; i += 1 + i%2 {
			got := ks.MaterializeUserKeyWithSyntheticSuffix(&kiter, synthSuffix, prev, i)
			want := append(bytes.Clone(rows[i].prefix()), synthSuffix...)
			if !bytes.Equal(got, want) {
				return fmt.Errorf("row %d: MaterializeUserKeyWithSyntheticSuffix = %x, want %x", i, got, want)
			}
			prev = i
		}
	}

	// Queries: every written key, every written prefix, and the plan's queries.
	var queries []mkey
	for _, r := range rows {
		queries = append(queries, r)
	}
	for _, r := range p.Keys {
		queries = append(queries, p.build(Ref{P: r.P}))
	}
	for _, r := range p.Queries {
		queries = append(queries, p.build(r))
	}
	prefixRows := map[string]int{}
	for _, r := range rows {
		prefixRows[string(r.prefix())]++
	}

	modelSeek := func(q mkey) (row int, equalPrefix bool) {
		row = sort.Search(n, func(i int) bool { return refCompare(cn, rows[i], q) >= 0 })
		return row, row < n && bytes.Equal(rows[row].prefix(), q.prefix())
	}

	var it colblk.DataBlockIter
	it.InitOnce(&cockroachkvs.KeySchema, &cockroachkvs.Comparer, nil, colblk.NoTieringColumns())
	if err := it.Init(&dec, bd, blockiter.NoTransforms, colblk.NoTieringColumns()); err != nil {
		return fmt.Errorf("DataBlockIter.Init: %v", err)
	}
	defer it.Close()

	// Scan.
	i := 0
	for kv := it.First(); kv != nil; kv = it.Next() {
		if i >= n {
			return fmt.Errorf("scan returned more than %d rows", n)
		}
		if err := sameCrdbKey(rows[i], kv.K.UserKey); err != nil {
			return fmt.Errorf("scan row %d: %v", i, err)
		}
		if kv.K.SeqNum() != base.SeqNum(n-i) {
			return fmt.Errorf("scan row %d: seqnum %d, want %d", i, kv.K.SeqNum(), n-i)
		}
		if v := kv.InPlaceValue(); !bytes.Equal(v, rows[i].full) {
			return fmt.Errorf("scan row %d: value %x, want %x", i, v, rows[i].full)
		}
		i++
	}
	if i != n {
		return fmt.Errorf("scan returned %d rows, want %d", i, n)
	}

	nt := false
	for qi, q := range queries {
		wantRow, wantEq := modelSeek(q)
		row, eq := ks.SeekGE(q.full, -1, 0)
		if row != wantRow || eq != wantEq {
			return fmt.Errorf("KeySeeker.SeekGE(%x) = (row %d, equalPrefix %t), sorted model gives (%d, %t); rows=%s",
				q.full, row, eq, wantRow, wantEq, fmtRows(rows))
		}
		out.Counters["seeks"]++
		if q.kind != vNone && prefixRows[string(q.prefix())] >= 2 {
			nt = true
			if !q.canonical() {
				addLabel(out, "seek:noncanonical-query")
			}
			if q.kind == crLock {
				addLabel(out, "seek:lock-query")
			}
		}
		if wantRow == n {
			addLabel(out, "seek:past-end")
		}

		// IsLowerBound: true iff every key of the block is >= q.
		wantLB := refCompare(cn, rows[0], q) >= 0
		if got := ks.IsLowerBound(q.full, nil); got != wantLB {
			return fmt.Errorf("KeySeeker.IsLowerBound(%x) = %t, want %t (first row %x)", q.full, got, wantLB, rows[0].full)
		}
		if len(synthSuffix) > 0 {
			first := mkey{full: append(bytes.Clone(rows[0].prefix()), synthSuffix...), plen: rows[0].plen,
				kind: synth.kind, raw: synth.raw, norm: synth.norm}
			wantLB := refCompare(cn, first, q) >= 0
			if got := ks.IsLowerBound(q.full, synthSuffix); got != wantLB {
				return fmt.Errorf("KeySeeker.IsLowerBound(%x, synthetic suffix %x) = %t, want %t (first row %x)",
					q.full, synthSuffix, got, wantLB, rows[0].full)
			}
		}

		// The block iterator. Vary the starting position.
		if qi%3 == 1 {
			it.Last()
		}
		kv := it.SeekGE(q.full, base.SeekGEFlagsNone)
		if err := checkIterPos("SeekGE", q, kv, rows, wantRow); err != nil {
			return err
		}
		kv = it.SeekLT(q.full, base.SeekLTFlagsNone)
		if err := checkIterPos("SeekLT", q, kv, rows, wantRow-1); err != nil {
			return err
		}
		if nkv := it.Next(); true {
			if err := checkIterPos("SeekLT+Next", q, nkv, rows, wantRow); err != nil {
				return err
			}
		}
		pkv, noMatch := it.SeekPrefixGE(q.full, base.SeekGEFlagsNone)
		switch {
		case wantRow == n:
			if pkv != nil || noMatch {
				return fmt.Errorf("SeekPrefixGE(%x) past the end returned (%v, %t)", q.full, pkv, noMatch)
			}
		case !wantEq:
			if pkv != nil || !noMatch {
				return fmt.Errorf("SeekPrefixGE(%x): next key %x has another prefix but got (%v, %t)", q.full, rows[wantRow].full, pkv, noMatch)
			}
		default:
			if noMatch {
				return fmt.Errorf("SeekPrefixGE(%x): prefixDidNotMatch although row %x matches", q.full, rows[wantRow].full)
			}
			if err := checkIterPos("SeekPrefixGE", q, pkv, rows, wantRow); err != nil {
				return err
			}
		}
	}
	out.NonTrivial = nt
	if slices.ContainsFunc(rows, func(k mkey) bool { return !k.canonical() }) {
		addLabel(out, "blk:has-noncanonical-row")
	}
	if len(synthSuffix) > 0 {
		addLabel(out, "blk:synthetic-suffix")
	}
	return nil
}

func prevFull(rows []mkey, i int) []byte {
	if i == 0 {
		return nil
	}
	return rows[i-1].full
}

func checkIterPos(op string, q mkey, kv *base.InternalKV, rows []mkey, want int) error {
	if want < 0 || want >= len(rows) {
		if kv != nil {
			return fmt.Errorf("%s(%x) = %x, want exhausted; rows=%s", op, q.full, kv.K.UserKey, fmtRows(rows))
		}
		return nil
	}
	if kv == nil {
		return fmt.Errorf("%s(%x) exhausted, want row %d = %x; rows=%s", op, q.full, want, rows[want].full, fmtRows(rows))
	}
	if kv.K.SeqNum() != base.SeqNum(len(rows)-want) {
		return fmt.Errorf("%s(%x) at row with seqnum %d (key %x), want row %d = %x; rows=%s",
			op, q.full, kv.K.SeqNum(), kv.K.UserKey, want, rows[want].full, fmtRows(rows))
	}
	if err := sameCrdbKey(rows[want], kv.K.UserKey); err != nil {
		return fmt.Errorf("%s(%x) row %d: %v", op, q.full, want, err)
	}
	return nil
}

func fmtRows(rows []mkey) string {
	var b bytes.Buffer
	for i, r := range rows {
		if i > 0 {
			b.WriteByte(' ')
		}
		if i == 24 {
			b.WriteString("...")
			break
		}
		fmt.Fprintf(&b, "%x", r.full)
	}
	return b.String()
}
