package comparers

import (
	"bytes"
	"fmt"
	"math"
	"slices"
	"testing"

	"github.com/cockroachdb/pebble/cockroachkvs"
	"github.com/cockroachdb/pebble/internal/base"
	"github.com/cockroachdb/pebble/internal/testkeys"
	"github.com/cockroachdb/pebble/verifharness/evid"
	"pgregory.net/rapid"
)

func comparerOf(name string) *base.Comparer {
	switch name {
	case cmpDefault:
		return base.DefaultComparer
	case cmpTestkeys:
		return testkeys.Comparer
	case cmpCrdb:
		return &cockroachkvs.Comparer
	}
	panic("bad comparer " + name)
}

// ---------------------------------------------------------------- generator

var edgeBytes = []byte{0x00, 0x00, 0x01, 'a', 'b', 0xfe, 0xff, 0xff}
var tkBytes = []byte{'a', 'a', 'b', 'c', 'y', 'z', 'z'}

func genByte(t *rapid.T, c string) byte {
	if c == cmpTestkeys {
		if rapid.IntRange(0, 4).Draw(t, "anyletter") == 0 {
			return byte(rapid.IntRange('a', 'z').Draw(t, "letter"))
		}
		return rapid.SampledFrom(tkBytes).Draw(t, "tkb")
	}
	if rapid.IntRange(0, 3).Draw(t, "anybyte") == 0 {
		return rapid.Byte().Draw(t, "byte")
	}
	return rapid.SampledFrom(edgeBytes).Draw(t, "edge")
}

func genFreshPrefix(t *rapid.T, c string) []byte {
	lo := 0
	if c == cmpTestkeys {
		// testkeys prefixes are [a-z]+ (assertValidPrefix); with an empty prefix
		// and a suffix the Separator hands an empty key to DefaultComparer.Separator.
		lo = 1
	}
	n := rapid.IntRange(lo, 9).Draw(t, "plen")
	if rapid.IntRange(0, 19).Draw(t, "long") == 0 {
		n += 8 // beyond the 8 bytes covered by AbbreviatedKey
	}
	p := make([]byte, n)
	for i := range p {
		p[i] = genByte(t, c)
	}
	return p
}

// genPrefixes draws a pool of related prefixes (user-level prefix: for crdb the
// roach key without the sentinel byte).
func genPrefixes(t *rapid.T, c string, maxN int) [][]byte {
	n := rapid.IntRange(1, maxN).Draw(t, "nprefixes")
	ps := [][]byte{genFreshPrefix(t, c)}
	hi, top := byte(0xff), []byte{0xff, 0xff}
	if c == cmpTestkeys {
		hi, top = 'z', []byte("zz")
	}
	for len(ps) < n {
		q := ps[rapid.IntRange(0, len(ps)-1).Draw(t, "from")]
		var p []byte
		switch rapid.IntRange(0, 7).Draw(t, "pop") {
		case 0, 1:
			p = genFreshPrefix(t, c)
		case 2: // extend by one byte
			p = append(append([]byte{}, q...), genByte(t, c))
		case 3: // the byte-wise immediate successor
			p = append(append([]byte{}, q...), 0x00)
		case 4: // bump the last byte
			p = append([]byte{}, q...)
			if len(p) > 0 && p[len(p)-1] != hi && p[len(p)-1] != 0x00 {
				p[len(p)-1]++
			} else {
				p = append(p, genByte(t, c))
			}
		case 5: // drop the last byte
			p = append([]byte{}, q...)
			if len(p) > 1 {
				p = p[:len(p)-1]
			} else {
				p = append(p, genByte(t, c))
			}
		case 6: // run of maximal bytes (Successor/Separator carry cases)
			p = append(append([]byte{}, q...), top...)
		default: // change a byte in the middle
			p = append([]byte{}, q...)
			if len(p) > 0 {
				p[rapid.IntRange(0, len(p)-1).Draw(t, "at")] = genByte(t, c)
			} else {
				p = append(p, genByte(t, c))
			}
		}
		ps = append(ps, p)
	}
	return ps
}

func genU64(t *rapid.T, label string) uint64 {
	return rapid.OneOf(
		rapid.SampledFrom([]uint64{1, 2, 9, 10, 255, 256, 1 << 32, 1<<63 - 1, 1 << 63, math.MaxUint64 - 1, math.MaxUint64}),
		rapid.Uint64Range(1, math.MaxUint64),
		rapid.Uint64Range(1, 1000),
	).Draw(t, label)
}

func genU32(t *rapid.T, label string) uint32 {
	return rapid.OneOf(
		rapid.SampledFrom([]uint32{1, 2, 255, 256, 1 << 24, math.MaxUint32 - 1, math.MaxUint32}),
		rapid.Uint32Range(1, math.MaxUint32),
	).Draw(t, label)
}

func near64(t *rapid.T, base uint64, label string) uint64 {
	switch rapid.IntRange(0, 5).Draw(t, label) {
	case 0:
		return genU64(t, label+"fresh")
	case 1:
		if base < math.MaxUint64 {
			return base + 1
		}
	case 2:
		if base > 1 {
			return base - 1
		}
	}
	return base
}

func near32(t *rapid.T, base uint32, label string) uint32 {
	switch rapid.IntRange(0, 5).Draw(t, label) {
	case 0:
		return genU32(t, label+"fresh")
	case 1:
		if base < math.MaxUint32 {
			return base + 1
		}
	case 2:
		if base > 1 {
			return base - 1
		}
	}
	return base
}

// genVers draws the version pool; Vers[0] is the empty version.
func genVers(t *rapid.T, c string, maxN int) []Ver {
	vs := []Ver{{}}
	if c == cmpDefault {
		return vs
	}
	n := rapid.IntRange(1, maxN).Draw(t, "nvers")
	baseW := genU64(t, "basewall")
	baseL := genU32(t, "baselogical")
	if c == cmpTestkeys {
		for len(vs) <= n {
			v := Ver{Kind: rapid.SampledFrom([]int{tkPlain, tkPlain, tkSynth}).Draw(t, "tkkind")}
			v.Wall = near64(t, baseW, "ts") & (1<<63 - 1)
			if rapid.IntRange(0, 9).Draw(t, "zero") == 0 {
				v.Wall = 0
			}
			if len(vs) > 1 && rapid.IntRange(0, 3).Draw(t, "twin") == 0 {
				// the same timestamp with/without the ignorable suffix
				o := vs[rapid.IntRange(1, len(vs)-1).Draw(t, "twinof")]
				v = Ver{Kind: tkPlain + tkSynth - o.Kind, Wall: o.Wall}
			}
			vs = append(vs, v)
		}
		return vs
	}
	// Version-kind profile of the case: canonical MVCC only (what SQL data
	// looks like; enables the key seeker's MVCC fast path), any MVCC form,
	// lock-table only, or everything mixed.
	kindSets := [][]int{
		{crWall, crWall, crLogical, crLogical, crSynth, crSynth, crLock, crLock},
		{crWall, crLogical},
		{crWall, crLogical, crSynth},
		{crLock},
		{crWall, crWall, crLogical, crLogical, crSynth, crSynth, crLock, crLock},
	}
	kindSet := kindSets[rapid.IntRange(0, len(kindSets)-1).Draw(t, "verprofile")]
	canonicalOnly := len(kindSet) == 2
	for len(vs) <= n {
		v := Ver{Kind: rapid.SampledFrom(kindSet).Draw(t, "crkind")}
		if !canonicalOnly && len(kindSet) > 1 && len(vs) > 1 && rapid.IntRange(0, 2).Draw(t, "twin") == 0 {
			// The same timestamp as an earlier version in another encoding.
			o := vs[rapid.IntRange(1, len(vs)-1).Draw(t, "twinof")]
			if o.Kind != crLock {
				tw := Ver{Kind: rapid.SampledFrom([]int{crWall, crLogical, crSynth}).Draw(t, "twinkind"), Wall: o.Wall, Logical: o.Logical, Synth: 1}
				if tw.Kind == crWall && (tw.Logical != 0 || tw.Wall == 0) {
					tw.Kind = crSynth
				}
				vs = append(vs, tw)
				continue
			}
		}
		switch v.Kind {
		case crWall:
			v.Wall = near64(t, baseW, "wall")
		case crLogical, crSynth:
			v.Wall = near64(t, baseW, "wall")
			if canonicalOnly || rapid.IntRange(0, 2).Draw(t, "zerological") != 0 {
				v.Logical = near32(t, baseL, "logical")
				if rapid.IntRange(0, 9).Draw(t, "zerowall") == 0 {
					v.Wall = 0 // wall=0 with logical!=0 is produced by EncodeTimestamp
				}
			}
			if v.Kind == crSynth {
				if rapid.IntRange(0, 2).Draw(t, "synthset") != 0 {
					v.Synth = 1
				}
			}
		case crLock:
			v.Lock = make([]byte, 17)
			mode := rapid.IntRange(0, 2).Draw(t, "lockmode")
			if mode != 0 && len(vs) > 1 {
				// Derived from an earlier version: its raw bytes, padded/truncated
				// to 17 bytes (adversarial sharing between version forms).
				_, raw, _ := crdbRaw(vs[rapid.IntRange(1, len(vs)-1).Draw(t, "lockfrom")])
				pad := rapid.SampledFrom([]byte{0x00, 0x00, 0x01, 0xff}).Draw(t, "pad")
				for i := range v.Lock {
					if i < len(raw) {
						v.Lock[i] = raw[i]
					} else {
						v.Lock[i] = pad
					}
				}
				if mode == 2 {
					v.Lock[rapid.IntRange(0, 16).Draw(t, "lockat")] = genByte(t, c)
				}
			} else {
				for i := range v.Lock {
					v.Lock[i] = genByte(t, c)
				}
			}
		}
		vs = append(vs, v)
	}
	if evid.FindingActive("C35", knownSigFlip) {
		// Known finding: exclude exactly the version pairs whose raw and
		// normalized byte orders disagree, by moving the lock version away.
		for i := range vs {
			if vs[i].Kind != crLock {
				continue
			}
			for flipsWithAny(vs, i) {
				vs[i].Lock[0] += 0x35
			}
		}
	}
	return vs
}

func flipsWithAny(vs []Ver, i int) bool {
	var a mkey
	a.kind, a.raw, a.norm = crdbRaw(vs[i])
	for j := range vs {
		if j == i || vs[j].Kind == vNone {
			continue
		}
		var b mkey
		b.kind, b.raw, b.norm = crdbRaw(vs[j])
		if orderFlip(a, b) {
			return true
		}
	}
	return false
}

func genRefs(t *rapid.T, label string, lo, hi, np, nv int, allowNone bool) []Ref {
	n := rapid.IntRange(lo, hi).Draw(t, label)
	refs := make([]Ref, n)
	minV := 0
	if !allowNone && nv > 1 {
		minV = 1
	}
	for i := range refs {
		refs[i] = Ref{P: rapid.IntRange(0, np-1).Draw(t, "p"), V: rapid.IntRange(minV, nv-1).Draw(t, "v")}
		if i > 0 && rapid.IntRange(0, 2).Draw(t, "sameprefix") == 0 {
			refs[i].P = refs[i-1].P
		}
	}
	return refs
}

func anyEmptyRowPrefix(p Plan) bool {
	for _, r := range p.Keys {
		if len(p.pfx(r.P)) == 0 {
			return true
		}
	}
	return false
}

func gen(t *rapid.T) Plan {
	var p Plan
	switch rapid.IntRange(0, 9).Draw(t, "what") {
	case 0, 1, 2:
		p.Mode, p.Cmp = "laws", cmpCrdb
	case 3, 4, 5:
		p.Mode, p.Cmp = "block", cmpCrdb
	case 6, 7:
		p.Mode, p.Cmp = "laws", cmpTestkeys
	default:
		p.Mode, p.Cmp = "laws", cmpDefault
	}
	if p.Mode == "laws" {
		p.Prefixes = genPrefixes(t, p.Cmp, 4)
		p.Vers = genVers(t, p.Cmp, 5)
		lo := 3
		if p.Cmp == cmpDefault {
			// keys are the prefixes themselves
			for i := range p.Prefixes {
				p.Keys = append(p.Keys, Ref{P: i})
			}
		} else {
			p.Keys = genRefs(t, "nkeys", lo, 6, len(p.Prefixes), len(p.Vers), true)
		}
		p.Dst = rapid.SliceOfN(rapid.Byte(), 0, 3).Draw(t, "dst")
		return p
	}
	p.Prefixes = genPrefixes(t, p.Cmp, 6)
	p.Vers = genVers(t, p.Cmp, 8)
	// Half of the blocks have no unversioned rows (otherwise the MVCC-only
	// fast path of the key seeker is rarely reached).
	p.Keys = genRefs(t, "nkeys", 1, 40, len(p.Prefixes), len(p.Vers), rapid.Bool().Draw(t, "unversionedrows"))
	// Stored keys never have an empty roach key (queries may): see NOTES.md
	// "Domain" for the two colblk.PrefixBytesBuilder problems with empty
	// prefixes that are outside C35.
	ne := slices.IndexFunc(p.Prefixes, func(b []byte) bool { return len(b) > 0 })
	if ne < 0 {
		ne = 0
		p.Prefixes[0] = []byte{'a'}
	}
	for i := range p.Keys {
		if len(p.pfx(p.Keys[i].P)) == 0 {
			p.Keys[i].P = ne
		}
	}
	p.Queries = genRefs(t, "nqueries", 0, 12, len(p.Prefixes), len(p.Vers), true)
	if rapid.IntRange(0, 2).Draw(t, "withsynth") == 0 {
		p.SynthSuffix = rapid.IntRange(1, len(p.Vers)-1).Draw(t, "synthsuffix")
	}
	return p
}

// ---------------------------------------------------------------- executor

func exec(p Plan) (evid.Outcome, error) {
	var out evid.Outcome
	out.Counters = map[string]int{}
	out.Labels = append(out.Labels, "mode="+p.Mode, "cmp="+p.Cmp)
	if len(p.Prefixes) == 0 || len(p.Keys) == 0 {
		out.Labels = append(out.Labels, "empty-plan")
		return out, nil
	}
	if p.Cmp == cmpCrdb {
		// The known-finding class, decided from the plan alone.
		var all []mkey
		for i := range p.Vers {
			all = append(all, p.build(Ref{P: 0, V: i}))
		}
		if anyOrderFlip(all) {
			out.Labels = append(out.Labels, "class:"+knownSigFlip)
			if evid.FindingActive("C35", knownSigFlip) && !p.Demo {
				out.Excluded = knownSigFlip
				return out, nil
			}
		}
	}
	var err error
	if p.Mode == "block" {
		if anyEmptyRowPrefix(p) {
			out.Labels = append(out.Labels, "blk:empty-roach-key-row-skipped")
			return out, nil
		}
		err = execBlock(p, &out)
	} else {
		err = execLaws(p, &out)
	}
	return out, err
}

type lawChecker struct {
	c    *base.Comparer
	name string
	out  *evid.Outcome
}

func (lc *lawChecker) fail(format string, args ...any) error {
	return fmt.Errorf("[%s] "+format, append([]any{lc.name}, args...)...)
}

// dstBuf returns a fresh dst slice holding p.Dst, with spare capacity.
func dstBuf(p Plan) []byte {
	d := make([]byte, len(p.Dst), len(p.Dst)+64)
	copy(d, p.Dst)
	return d
}

func execLaws(p Plan, out *evid.Outcome) error {
	c := comparerOf(p.Cmp)
	lc := &lawChecker{c: c, name: p.Cmp, out: out}
	keys := make([]mkey, len(p.Keys))
	orig := make([][]byte, len(p.Keys))
	for i, r := range p.Keys {
		keys[i] = p.build(r)
		orig[i] = bytes.Clone(keys[i].full)
	}

	for i := range keys {
		if err := lc.single(p, keys[i]); err != nil {
			return err
		}
	}
	for i := range keys {
		for j := range keys {
			if err := lc.pair(p, keys[i], keys[j]); err != nil {
				return err
			}
		}
	}
	// Transitivity on all triples.
	for i := range keys {
		for j := range keys {
			if c.Compare(keys[i].full, keys[j].full) > 0 {
				continue
			}
			for k := range keys {
				if c.Compare(keys[j].full, keys[k].full) <= 0 && c.Compare(keys[i].full, keys[k].full) > 0 {
					return lc.fail("Compare not transitive: %s <= %s <= %s but a > c",
						fmtKey(keys[i].full), fmtKey(keys[j].full), fmtKey(keys[k].full))
				}
				if c.Compare(keys[j].full, keys[k].full) <= 0 &&
					(c.Compare(keys[i].full, keys[j].full) < 0 || c.Compare(keys[j].full, keys[k].full) < 0) &&
					c.Compare(keys[i].full, keys[k].full) >= 0 {
					return lc.fail("Compare not transitive (strict): %s, %s, %s",
						fmtKey(keys[i].full), fmtKey(keys[j].full), fmtKey(keys[k].full))
				}
				// The same for the range-suffix order on same-shaped suffixes.
				si, sj, sk := keys[i].suffix(), keys[j].suffix(), keys[k].suffix()
				if c.CompareRangeSuffixes(si, sj) <= 0 && c.CompareRangeSuffixes(sj, sk) <= 0 && c.CompareRangeSuffixes(si, sk) > 0 {
					return lc.fail("CompareRangeSuffixes not transitive: %x %x %x", si, sj, sk)
				}
			}
		}
	}
	// The comparer must not have modified its inputs.
	for i := range keys {
		if !bytes.Equal(orig[i], keys[i].full) {
			return lc.fail("input key mutated: %x -> %x", orig[i], keys[i].full)
		}
	}

	// base.CheckComparer on the generated prefix and suffix pools.
	var prefixes, suffixes [][]byte
	seen := map[string]bool{}
	for i := range p.Prefixes {
		k := p.build(Ref{P: i})
		if !seen[string(k.full)] {
			seen[string(k.full)] = true
			prefixes = append(prefixes, k.full)
		}
	}
	seen = map[string]bool{}
	for i := 1; i < len(p.Vers); i++ {
		s := p.build(Ref{P: 0, V: i}).suffix()
		if len(s) > 0 && !seen[string(s)] {
			seen[string(s)] = true
			suffixes = append(suffixes, bytes.Clone(s))
		}
	}
	if err := base.CheckComparer(c, prefixes, suffixes); err != nil {
		return lc.fail("CheckComparer(prefixes=%x, suffixes=%x): %v", prefixes, suffixes, err)
	}

	// Classification.
	nt := false
	for i := range keys {
		for j := i + 1; j < len(keys); j++ {
			a, b := keys[i], keys[j]
			if bytes.Equal(a.full, b.full) {
				continue
			}
			if p.Cmp == cmpDefault {
				if n := commonPrefixLen(a.full, b.full); n > 0 {
					nt = true
					if n == len(a.full) || n == len(b.full) {
						addLabel(out, "pair:one-is-byte-prefix-of-other")
					}
				}
				continue
			}
			if !bytes.Equal(a.prefix(), b.prefix()) {
				continue
			}
			nt = true
			addLabel(out, "pair:same-prefix-diff-version")
			if refPointSuffix(p.Cmp, a, b) == 0 {
				addLabel(out, "pair:equal-but-different-bytes")
			}
			if (a.kind == crLock) != (b.kind == crLock) && a.kind != vNone && b.kind != vNone && p.Cmp == cmpCrdb {
				addLabel(out, "pair:mvcc-vs-lock")
			}
		}
	}
	out.NonTrivial = nt
	return nil
}

func addLabel(out *evid.Outcome, l string) {
	if !slices.Contains(out.Labels, l) {
		out.Labels = append(out.Labels, l)
	}
}

func commonPrefixLen(a, b []byte) int {
	n := 0
	for n < len(a) && n < len(b) && a[n] == b[n] {
		n++
	}
	return n
}

// single checks the single-key laws.
func (lc *lawChecker) single(p Plan, k mkey) error {
	c := lc.c
	if err := c.ValidateKey.Validate(k.full); err != nil {
		return lc.fail("ValidateKey rejects generated key %x: %v", k.full, err)
	}
	if n := c.Split(k.full); n != k.plen {
		return lc.fail("Split(%x) = %d, want %d", k.full, n, k.plen)
	}
	pre := k.prefix()
	if n := c.Split(pre); n != len(pre) {
		return lc.fail("Split(prefix %x) = %d, want %d", pre, n, len(pre))
	}
	// Split law 1.
	if len(k.suffix()) > 0 {
		if v := c.Compare(pre, k.full); v >= 0 {
			return lc.fail("Split law 1: Compare(prefix, %x) = %d, want < 0", k.full, v)
		}
		if v := c.ComparePointSuffixes(nil, k.suffix()); v >= 0 {
			return lc.fail("ComparePointSuffixes(empty, %x) = %d, want < 0", k.suffix(), v)
		}
		if v := c.CompareRangeSuffixes(nil, k.suffix()); v >= 0 {
			return lc.fail("CompareRangeSuffixes(empty, %x) = %d, want < 0", k.suffix(), v)
		}
		if v := c.CompareRangeSuffixes(k.suffix(), nil); v <= 0 {
			return lc.fail("CompareRangeSuffixes(%x, empty) = %d, want > 0", k.suffix(), v)
		}
	}
	// Removing leading bytes of the prefix yields a valid key with the same
	// structure (at least one prefix byte is kept).
	for t := 1; t < k.plen; t++ {
		tk := k.full[t:]
		if err := c.ValidateKey.Validate(tk); err != nil {
			return lc.fail("ValidateKey rejects %x (= %x minus %d leading bytes): %v", tk, k.full, t, err)
		}
		if n := c.Split(tk); n != k.plen-t {
			return lc.fail("Split(%x) = %d, want %d (leading bytes removed)", tk, n, k.plen-t)
		}
	}

	// Successor.
	dst := dstBuf(p)
	r := c.Successor(dst, k.full)
	if len(r) < len(p.Dst) || !bytes.Equal(r[:len(p.Dst)], p.Dst) {
		return lc.fail("Successor did not append to dst: dst=%x result=%x", p.Dst, r)
	}
	s := r[len(p.Dst):]
	if err := c.ValidateKey.Validate(s); err != nil {
		return lc.fail("Successor(%x) = %x is not a valid key: %v", k.full, s, err)
	}
	if len(k.full) > 0 {
		if v := c.Compare(k.full, s); v > 0 {
			return lc.fail("Successor(%x) = %x but Compare(a, k) = %d, want <= 0", k.full, s, v)
		}
		if !bytes.Equal(s, k.full) {
			addLabel(lc.out, "successor:changed")
		}
	}
	// Successor of the empty slice must be a valid key.
	e := c.Successor(nil, nil)
	if err := c.ValidateKey.Validate(e); err != nil {
		return lc.fail("Successor(empty) = %x is not a valid key: %v", e, err)
	}
	if n := c.Split(e); n < 0 || n > len(e) {
		return lc.fail("Split(Successor(empty)=%x) = %d", e, n)
	}

	// ImmediateSuccessor on the prefix.
	dst = dstBuf(p)
	r = c.ImmediateSuccessor(dst, bytes.Clone(pre))
	if len(r) < len(p.Dst) || !bytes.Equal(r[:len(p.Dst)], p.Dst) {
		return lc.fail("ImmediateSuccessor did not append to dst: dst=%x result=%x", p.Dst, r)
	}
	is := r[len(p.Dst):]
	if err := c.ValidateKey.Validate(is); err != nil {
		return lc.fail("ImmediateSuccessor(%x) = %x is not a valid key: %v", pre, is, err)
	}
	if n := c.Split(is); n != len(is) {
		return lc.fail("ImmediateSuccessor(%x) = %x is not a prefix key (Split=%d)", pre, is, n)
	}
	if v := c.Compare(pre, is); v >= 0 {
		return lc.fail("ImmediateSuccessor(%x) = %x but Compare(a, k) = %d, want < 0", pre, is, v)
	}
	if bytes.Compare(pre, is) >= 0 {
		return lc.fail("ImmediateSuccessor(%x) = %x is not byte-wise larger", pre, is)
	}
	// No representable prefix lies strictly between. Candidates: the generated
	// prefixes plus the tightest byte-wise extensions of pre.
	var cands [][]byte
	for i := range p.Prefixes {
		cands = append(cands, p.build(Ref{P: i}).full)
	}
	for _, ext := range [][]byte{{0x00}, {0x00, 0x00}, {0x01}, {'a'}} {
		var cand []byte
		if p.Cmp == cmpCrdb {
			// prefix keys end with the 0x00 sentinel: extend the roach key.
			cand = append(append(bytes.Clone(pre[:len(pre)-1]), ext...), 0x00)
		} else {
			cand = append(bytes.Clone(pre), ext...)
		}
		cands = append(cands, cand)
	}
	for _, cand := range cands {
		if c.Split(cand) != len(cand) {
			continue
		}
		if bytes.Compare(pre, cand) < 0 && bytes.Compare(cand, is) < 0 {
			return lc.fail("ImmediateSuccessor(%x) = %x is not immediate: prefix %x lies strictly between (byte-wise)", pre, is, cand)
		}
		if c.Compare(pre, cand) < 0 && c.Compare(cand, is) < 0 {
			return lc.fail("ImmediateSuccessor(%x) = %x is not immediate: prefix %x lies strictly between (Compare)", pre, is, cand)
		}
	}
	return nil
}

// pair checks the laws over an ordered pair.
func (lc *lawChecker) pair(p Plan, a, b mkey) error {
	c := lc.c
	v := c.Compare(a.full, b.full)
	if v < -1 || v > 1 {
		return lc.fail("Compare(%x, %x) = %d, not in {-1,0,1}", a.full, b.full, v)
	}
	if w := c.Compare(b.full, a.full); w != -v {
		return lc.fail("Compare not antisymmetric: Compare(%x, %x) = %d but reversed = %d", a.full, b.full, v, w)
	}
	if want := refCompare(p.Cmp, a, b); v != want {
		return lc.fail("Compare(%x, %x) = %d, documented order gives %d", a.full, b.full, v, want)
	}
	if eq := c.Equal(a.full, b.full); eq != (v == 0) {
		return lc.fail("Equal(%x, %x) = %t but Compare = %d", a.full, b.full, eq, v)
	}
	ap, bp := a.prefix(), b.prefix()
	as, bs := a.suffix(), b.suffix()
	pv := c.Compare(ap, bp)
	// Split law 2.
	if v <= 0 && pv > 0 {
		return lc.fail("Split law 2: Compare(%x, %x) = %d but Compare(prefixes) = %d", a.full, b.full, v, pv)
	}
	if pv < 0 && v >= 0 {
		return lc.fail("Split law 2: Compare(prefixes of %x, %x) = %d but Compare = %d", a.full, b.full, pv, v)
	}
	if pv != sign(bytes.Compare(ap, bp)) {
		return lc.fail("prefixes %x, %x: Compare = %d, not the byte-wise order", ap, bp, pv)
	}
	ps := c.ComparePointSuffixes(as, bs)
	rs := c.CompareRangeSuffixes(as, bs)
	if ps < -1 || ps > 1 || rs < -1 || rs > 1 {
		return lc.fail("suffix comparison of %x, %x out of range: point=%d range=%d", as, bs, ps, rs)
	}
	if w := c.ComparePointSuffixes(bs, as); w != -ps {
		return lc.fail("ComparePointSuffixes(%x, %x) = %d but reversed = %d", as, bs, ps, w)
	}
	if w := c.CompareRangeSuffixes(bs, as); w != -rs {
		return lc.fail("CompareRangeSuffixes(%x, %x) = %d but reversed = %d", as, bs, rs, w)
	}
	if want := refPointSuffix(p.Cmp, a, b); p.Cmp != cmpDefault && ps != want {
		return lc.fail("ComparePointSuffixes(%x, %x) = %d, documented order gives %d", as, bs, ps, want)
	}
	// Split law 3.
	if pv == 0 && v != ps {
		return lc.fail("Split law 3: equal prefixes, Compare(%x, %x) = %d but ComparePointSuffixes = %d", a.full, b.full, v, ps)
	}
	// CompareRangeSuffixes may only be stricter than ComparePointSuffixes.
	if ps != 0 && rs != ps {
		return lc.fail("CompareRangeSuffixes(%x, %x) = %d contradicts ComparePointSuffixes = %d", as, bs, rs, ps)
	}
	if bytes.Equal(as, bs) && rs != 0 {
		return lc.fail("CompareRangeSuffixes(%x, itself) = %d", as, rs)
	}
	// AbbreviatedKey.
	ak, bk := c.AbbreviatedKey(a.full), c.AbbreviatedKey(b.full)
	if (ak < bk && v >= 0) || (ak > bk && v <= 0) {
		return lc.fail("AbbreviatedKey(%x) = %#x, AbbreviatedKey(%x) = %#x but Compare = %d", a.full, ak, b.full, bk, v)
	}
	if ak != bk {
		addLabel(lc.out, "abbrev:differs")
	}
	// Comparison after removing common leading bytes of the prefixes.
	maxT := min(commonPrefixLen(ap, bp), len(ap)-1, len(bp)-1)
	for t := 1; t <= maxT; t++ {
		if w := c.Compare(a.full[t:], b.full[t:]); w != v {
			return lc.fail("Compare(%x, %x) = %d but with %d common leading bytes removed = %d", a.full, b.full, v, t, w)
		}
		if eq := c.Equal(a.full[t:], b.full[t:]); eq != (v == 0) {
			return lc.fail("Equal(%x, %x) with %d leading bytes removed = %t, Compare = %d", a.full, b.full, t, eq, v)
		}
	}
	// Separator.
	if v < 0 && len(a.full) > 0 && len(b.full) > 0 {
		dst := dstBuf(p)
		r := c.Separator(dst, a.full, b.full)
		if len(r) < len(p.Dst) || !bytes.Equal(r[:len(p.Dst)], p.Dst) {
			return lc.fail("Separator did not append to dst: dst=%x result=%x", p.Dst, r)
		}
		s := r[len(p.Dst):]
		if err := c.ValidateKey.Validate(s); err != nil {
			return lc.fail("Separator(%x, %x) = %x is not a valid key: %v", a.full, b.full, s, err)
		}
		if n := c.Split(s); n < 0 || n > len(s) {
			return lc.fail("Split(Separator=%x) = %d", s, n)
		}
		if w := c.Compare(a.full, s); w > 0 {
			return lc.fail("Separator(%x, %x) = %x: Compare(a, k) = %d, want <= 0", a.full, b.full, s, w)
		}
		if w := c.Compare(s, b.full); w >= 0 {
			return lc.fail("Separator(%x, %x) = %x: Compare(k, b) = %d, want < 0", a.full, b.full, s, w)
		}
		lc.out.Counters["separators"]++
		if !bytes.Equal(s, a.full) {
			addLabel(lc.out, "separator:shortened")
			lc.out.Counters["separators_shortened"]++
		}
	}
	return nil
}

func sample(p Plan) any {
	var ks []string
	for i, r := range p.Keys {
		if i == 6 {
			break
		}
		ks = append(ks, fmtKey(p.build(r).full))
	}
	return map[string]any{"mode": p.Mode, "cmp": p.Cmp, "nkeys": len(p.Keys), "nqueries": len(p.Queries), "first_keys_hex": ks}
}

// knownFlipPlan demonstrates the candidate finding (see NOTES.md).
func knownFlipPlan() Plan {
	lock := append([]byte{0, 0, 0, 0, 0, 0, 0, 5, 0, 0, 0, 0, 0}, 0, 0, 0, 0)
	return Plan{
		Mode: "laws", Cmp: cmpCrdb, Demo: true,
		Prefixes: [][]byte{[]byte("a")},
		Vers:     []Ver{{}, {Kind: crSynth, Wall: 5, Synth: 1}, {Kind: crLock, Lock: lock}},
		Keys:     []Ref{{0, 0}, {0, 1}, {0, 2}},
	}
}

// knownFlipSeekPlan is the same class seen through the key seeker: the block
// holds the lock-table key, the seek key carries the synthetic bit.
func knownFlipSeekPlan() Plan {
	p := knownFlipPlan()
	p.Mode = "block"
	p.Keys = []Ref{{0, 2}}
	p.Queries = []Ref{{0, 1}}
	return p
}

func TestC35(t *testing.T) {
	evid.Run(t, evid.Spec[Plan]{
		ID: "C35", Level: "exploration",
		Rule: "rapid draws a pool of related prefixes (extensions, byte-wise successors, 0xff runs, bumped bytes) and a pool of related " +
			"versions (testkeys @n/_synthetic; crdb wall, wall+logical incl. zero logical, +synthetic bit, lock-table incl. ones derived " +
			"from MVCC bytes) and 3-6 keys over them for the default/testkeys/cockroachkvs comparers (laws mode), or 1-40 keys + seek " +
			"queries written to a colblk data block with cockroachkvs.KeySchema (block mode); non-trivial = laws: two byte-different keys " +
			"sharing the prefix (default comparer: sharing a non-empty byte prefix), block: a versioned seek into a prefix that has >=2 " +
			"rows in the block; distinct = hash of the plan JSON",
		Assumptions: []string{
			"valid keys are those the package encoders can produce plus the forms the in-tree tests build by hand (zero logical component, synthetic-bit byte); an explicit all-zero MVCC timestamp is not generated",
			"lock-table and MVCC versions may share a roach key (as in cockroachkvs TestComparer/TestKeySchema_RandomKeys)",
			"base.CheckComparer additionally trims prefixes at offsets taken from the global RNG; every other input is from the plan",
			"build without the invariants tag",
		},
		Gen: gen, Exec: exec,
		Quick: 12000, Thorough: 600000,
		Sample: sample,
		Known: []evid.Known[Plan]{
			{Signature: knownSigFlip, Plan: knownFlipPlan()},
			{Signature: knownSigFlip, Plan: knownFlipSeekPlan()},
		},
	})
}
