// Package comparers: C35 — shipped comparers satisfy the Comparer contract.
//
// This file holds the plan data types and the independent reference model of
// the three key encodings (default / testkeys / cockroachkvs). Nothing in this
// file calls the comparers under test.
package comparers

import (
	"bytes"
	"cmp"
	"encoding/binary"
	"fmt"
	"strconv"
)

// Version kinds. Kind 0 means "no version" for every encoding.
const (
	vNone = 0

	// testkeys
	tkPlain = 1 // "@<n>"
	tkSynth = 2 // "@<n>_synthetic"

	// cockroachkvs
	crWall    = 1 // 8-byte wall time
	crLogical = 2 // 8-byte wall time + 4-byte logical (logical may be zero)
	crSynth   = 3 // 8 + 4 + 1 synthetic-bit byte
	crLock    = 4 // 17-byte lock-table version
)

const (
	cmpDefault  = "default"
	cmpTestkeys = "testkeys"
	cmpCrdb     = "crdb"
)

// knownSigFlip is the signature of the candidate finding described in NOTES.md.
const knownSigFlip = "mvcc-synthetic-vs-locktable-order-flip"

// Ver is a version (suffix) in structured form.
type Ver struct {
	Kind    int    `json:"k"`
	Wall    uint64 `json:"w,omitempty"` // testkeys: the timestamp
	Logical uint32 `json:"l,omitempty"`
	Synth   byte   `json:"s,omitempty"`
	Lock    []byte `json:"lock,omitempty"`
}

// Ref names a key as (prefix index, version index) into the plan's pools.
type Ref struct {
	P int `json:"p"`
	V int `json:"v"`
}

// Plan is the JSON-serializable description of one case.
type Plan struct {
	Mode     string   `json:"mode"` // "laws" | "block"
	Cmp      string   `json:"cmp"`  // default | testkeys | crdb
	Prefixes [][]byte `json:"prefixes"`
	Vers     []Ver    `json:"vers"` // Vers[0] is always the empty version
	Keys     []Ref    `json:"keys"`
	Queries  []Ref    `json:"queries,omitempty"`
	Dst      []byte   `json:"dst,omitempty"`
	// SynthSuffix is an index into Vers used as synthetic suffix in block mode
	// (0 = none).
	SynthSuffix int `json:"synth_suffix,omitempty"`
	// Demo marks a known-finding demonstration: it is executed even when its
	// class is listed as a known finding.
	Demo bool `json:"demo,omitempty"`
}

// mkey is a key together with what the model knows about it.
type mkey struct {
	full []byte
	plen int // expected Split(full)
	kind int // sanitized version kind
	// ts is the testkeys timestamp.
	ts uint64
	// raw is the crdb version without the length byte; norm is the part of it
	// that matters for point-key ordering (documented: the synthetic bit and a
	// zero logical component do not affect ordering or equality).
	raw, norm []byte
}

func (k mkey) prefix() []byte { return k.full[:k.plen] }
func (k mkey) suffix() []byte { return k.full[k.plen:] }

// canonical reports whether the key is in the form the package's own encoders
// produce (so that a columnar block must give it back byte-identical).
func (k mkey) canonical() bool { return bytes.Equal(k.raw, k.norm) }

func (p Plan) ver(i int) Ver {
	if i <= 0 || i >= len(p.Vers) {
		return Ver{}
	}
	return p.Vers[i]
}

func (p Plan) pfx(i int) []byte {
	if len(p.Prefixes) == 0 {
		return nil
	}
	if i < 0 {
		i = -i
	}
	return p.Prefixes[i%len(p.Prefixes)]
}

// crdbRaw returns the (sanitized) version bytes, without the length byte, and
// the normalized form.
func crdbRaw(v Ver) (kind int, raw, norm []byte) {
	switch v.Kind {
	case crWall:
		w := v.Wall
		if w == 0 {
			w = 1 // a zero timestamp is encoded as "no version" by the package's encoders
		}
		raw = binary.BigEndian.AppendUint64(nil, w)
		return crWall, raw, raw
	case crLogical, crSynth:
		w := v.Wall
		if w == 0 && v.Logical == 0 {
			w = 1
		}
		raw = binary.BigEndian.AppendUint64(nil, w)
		raw = binary.BigEndian.AppendUint32(raw, v.Logical)
		norm = raw
		if v.Logical == 0 {
			norm = raw[:8:8]
		}
		if v.Kind == crSynth {
			norm = norm[:len(norm):len(norm)]
			raw = append(raw[:12:12], v.Synth&1)
		}
		return v.Kind, raw, norm
	case crLock:
		raw = make([]byte, 17)
		copy(raw, v.Lock)
		return crLock, raw, raw
	}
	return vNone, nil, nil
}

// build encodes the key named by r.
func (p Plan) build(r Ref) mkey {
	pre := p.pfx(r.P)
	v := p.ver(r.V)
	switch p.Cmp {
	case cmpDefault:
		k := append([]byte{}, pre...)
		return mkey{full: k, plen: len(k)}
	case cmpTestkeys:
		k := append([]byte{}, pre...)
		mk := mkey{plen: len(k)}
		if v.Kind == tkPlain || v.Kind == tkSynth {
			mk.kind = v.Kind
			mk.ts = v.Wall & (1<<63 - 1)
			k = append(k, '@')
			k = strconv.AppendUint(k, mk.ts, 10)
			if v.Kind == tkSynth {
				k = append(k, "_synthetic"...)
			}
		}
		mk.full = k
		return mk
	case cmpCrdb:
		k := append(append([]byte{}, pre...), 0x00)
		mk := mkey{plen: len(k)}
		mk.kind, mk.raw, mk.norm = crdbRaw(v)
		if mk.kind != vNone {
			k = append(k, mk.raw...)
			k = append(k, byte(len(mk.raw)+1))
		}
		mk.full = k
		return mk
	}
	panic("bad comparer " + p.Cmp)
}

// refPointSuffix is the documented ordering of suffixes of point keys: the
// empty suffix first, then larger timestamps first. For crdb the order is the
// descending byte order of the normalized version.
func refPointSuffix(c string, a, b mkey) int {
	if a.kind == vNone || b.kind == vNone {
		return cmp.Compare(btoi(a.kind != vNone), btoi(b.kind != vNone))
	}
	switch c {
	case cmpTestkeys:
		return cmp.Compare(b.ts, a.ts)
	case cmpCrdb:
		return bytes.Compare(b.norm, a.norm)
	}
	return 0
}

// refCompare is the documented key ordering: byte-wise on prefixes, then the
// point-suffix order.
func refCompare(c string, a, b mkey) int {
	if v := bytes.Compare(a.prefix(), b.prefix()); v != 0 {
		return v
	}
	return refPointSuffix(c, a, b)
}

func btoi(b bool) int {
	if b {
		return 1
	}
	return 0
}

func sign(v int) int {
	switch {
	case v < 0:
		return -1
	case v > 0:
		return 1
	}
	return 0
}

// orderFlip reports whether the two crdb versions are ordered differently by
// their raw bytes than by their normalized bytes (while not being equal as
// point suffixes). This can only happen between an MVCC version carrying a
// set synthetic bit and a lock-table version that has the MVCC version's
// normalized bytes as a prefix.
func orderFlip(a, b mkey) bool {
	if a.kind == vNone || b.kind == vNone {
		return false
	}
	n := bytes.Compare(a.norm, b.norm)
	return n != 0 && sign(bytes.Compare(a.raw, b.raw)) != sign(n)
}

func anyOrderFlip(keys []mkey) bool {
	for i := range keys {
		for j := i + 1; j < len(keys); j++ {
			if orderFlip(keys[i], keys[j]) {
				return true
			}
		}
	}
	return false
}

// decodeCrdb independently splits an engine key into prefix length and
// normalized version. ok=false if the key is not well-formed.
func decodeCrdb(k []byte) (plen int, hasVer bool, norm []byte, ok bool) {
	if len(k) == 0 {
		return 0, false, nil, false
	}
	n := int(k[len(k)-1])
	if n == 0 {
		return len(k), false, nil, true
	}
	if n == 1 || n >= len(k) {
		return 0, false, nil, false
	}
	plen = len(k) - n
	if k[plen-1] != 0 {
		return 0, false, nil, false
	}
	ver := k[plen : len(k)-1]
	switch len(ver) {
	case 8, 17:
		return plen, true, ver, true
	case 12, 13:
		if bytes.Equal(ver[8:12], []byte{0, 0, 0, 0}) {
			return plen, true, ver[:8], true
		}
		return plen, true, ver[:12], true
	}
	return 0, false, nil, false
}

func fmtKey(k []byte) string { return fmt.Sprintf("%x", k) }
