package corruptcompress

import (
	"bytes"
	"context"
	"encoding/binary"
	"fmt"
	"runtime/debug"
	"slices"
	"sort"
	"strings"
	"sync"
	"testing"

	"github.com/cockroachdb/pebble/internal/base"
	"github.com/cockroachdb/pebble/internal/cache"
	"github.com/cockroachdb/pebble/internal/keyspan"
	"github.com/cockroachdb/pebble/internal/sstableinternal"
	"github.com/cockroachdb/pebble/internal/testkeys"
	"github.com/cockroachdb/pebble/objstorage"
	"github.com/cockroachdb/pebble/sstable"
	"github.com/cockroachdb/pebble/sstable/blob"
	"github.com/cockroachdb/pebble/sstable/block"
	"github.com/cockroachdb/pebble/sstable/colblk"
	"github.com/cockroachdb/pebble/sstable/tablefilters/bloom"
	"github.com/cockroachdb/pebble/verifharness/evid"
	"pgregory.net/rapid"
)

// ---------------------------------------------------------------- plan

type PointPlan struct {
	P   string `json:"p"`           // key prefix (lowercase letters)
	S   int    `json:"s,omitempty"` // suffix @S, 0 = no suffix
	Seq uint64 `json:"q"`
	K   int    `json:"k"` // base.InternalKeyKind: 0 DEL, 1 SET, 2 MERGE, 7 SINGLEDEL
	V   Seg    `json:"v"` // value recipe (SET/MERGE only)
}

type SpanKeyPlan struct {
	K int    `json:"k"` // RANGEDEL 15, RANGEKEYSET 21, RANGEKEYUNSET 20, RANGEKEYDEL 19
	S int    `json:"s,omitempty"`
	V []byte `json:"v,omitempty"`
}

type SpanPlan struct {
	Start string        `json:"start"`
	End   string        `json:"end"`
	Seq   uint64        `json:"seq"`
	Keys  []SpanKeyPlan `json:"keys"`
}

type TablePlan struct {
	Format         int         `json:"format"`   // 6,7,8 = TableFormatPebblev6..v8
	Checksum       int         `json:"checksum"` // 1 crc32c, 3 xxhash64
	Compression    string      `json:"compression"`
	BlockSize      int         `json:"block_size"`
	IndexBlockSize int         `json:"index_block_size"`
	FilterBits     int         `json:"filter_bits"`
	NoValueBlocks  bool        `json:"no_value_blocks,omitempty"`
	LowestLevel    bool        `json:"lowest_level,omitempty"`
	Points         []PointPlan `json:"points"`
	RangeDels      []SpanPlan  `json:"range_dels,omitempty"`
	RangeKeys      []SpanPlan  `json:"range_keys,omitempty"`
}

type BlobPlan struct {
	Format      int    `json:"format"` // 1, 2
	Checksum    int    `json:"checksum"`
	Compression string `json:"compression"`
	BlockSize   int    `json:"block_size"`
	Values      []Seg  `json:"values"`
}

// Corruption selects a location relative to the layout of the *original* file
// (resolved deterministically in exec) and a pattern.
type Corruption struct {
	T string `json:"t"` // any|body|trailer|indicator|head|meta|footer|version|magic|cktype|truncate|dup
	A uint32 `json:"a"` // region selector
	B uint32 `json:"b"` // offset selector within the region
	P string `json:"p"` // flip|zero|ff|swap|inc|xor|zerorun
	X int    `json:"x"` // pattern argument (bit number, xor mask, run length)
}

type C27Plan struct {
	Kind        string       `json:"kind"` // table | blob
	Table       TablePlan    `json:"table"`
	Blob        BlobPlan     `json:"blob"`
	UseCache    bool         `json:"use_cache"`
	Corruptions []Corruption `json:"corruptions"`
	Demo        bool         `json:"demo,omitempty"` // disables known-finding exclusions
}

// ---------------------------------------------------------------- generator

// compression profiles whose output is a deterministic function of the input
// (the adaptive built-ins Fast/Balanced seed themselves from the global RNG,
// which would make the file bytes differ between a run and its replay).
var c27Profiles = []string{"NoCompression", "Snappy", "ZSTD", "MinLZ", "Good", "Fastest"}

func genPrefix(t *rapid.T, alpha, maxLen int) string {
	n := rapid.IntRange(1, maxLen).Draw(t, "plen")
	b := make([]byte, n)
	for i := range b {
		b[i] = byte('a' + rapid.IntRange(0, alpha-1).Draw(t, "ch"))
	}
	return string(b)
}

func genValueSeg(t *rapid.T) Seg {
	maxLen := rapid.SampledFrom([]int{0, 8, 8, 40, 40, 40, 120, 600}).Draw(t, "vmax")
	if maxLen == 0 {
		return Seg{Kind: "zero", Len: 0}
	}
	s := Seg{Kind: rapid.SampledFrom([]string{"rand", "text", "rep", "lowent", "zero"}).Draw(t, "vkind")}
	s.Len = rapid.IntRange(0, maxLen).Draw(t, "vlen")
	switch s.Kind {
	case "rep":
		s.Data = rapid.SliceOfN(rapid.Byte(), 1, 4).Draw(t, "vpat")
	case "zero":
	default:
		s.Seed = uint64(rapid.Uint32().Draw(t, "vseed"))
	}
	return s
}

func genSpans(t *rapid.T, alpha int, rangeKeys bool, label string) []SpanPlan {
	n := rapid.SampledFrom([]int{0, 0, 1, 2, 4}).Draw(t, label+"-n")
	if n == 0 {
		return nil
	}
	set := map[string]struct{}{}
	for i := 0; i < 2*n; i++ {
		set[genPrefix(t, alpha, 3)] = struct{}{}
	}
	bounds := make([]string, 0, len(set))
	for k := range set {
		bounds = append(bounds, k)
	}
	sort.Strings(bounds)
	var spans []SpanPlan
	for i := 0; i+1 < len(bounds); i += 2 {
		sp := SpanPlan{Start: bounds[i], End: bounds[i+1], Seq: uint64(rapid.IntRange(1, 40).Draw(t, label+"-seq"))}
		if !rangeKeys {
			sp.Keys = []SpanKeyPlan{{K: int(base.InternalKeyKindRangeDelete)}}
		} else {
			nk := rapid.IntRange(1, 3).Draw(t, label+"-nk")
			for j := 0; j < nk; j++ {
				k := SpanKeyPlan{K: rapid.SampledFrom([]int{int(base.InternalKeyKindRangeKeySet), int(base.InternalKeyKindRangeKeySet),
					int(base.InternalKeyKindRangeKeyUnset), int(base.InternalKeyKindRangeKeyDelete)}).Draw(t, label+"-kind")}
				if k.K != int(base.InternalKeyKindRangeKeyDelete) {
					k.S = rapid.IntRange(1, 30).Draw(t, label+"-suffix")
				}
				if k.K == int(base.InternalKeyKindRangeKeySet) {
					k.V = rapid.SliceOfN(rapid.Byte(), 0, 12).Draw(t, label+"-val")
				}
				sp.Keys = append(sp.Keys, k)
			}
		}
		spans = append(spans, sp)
	}
	return spans
}

func genTable(t *rapid.T) TablePlan {
	tp := TablePlan{
		Format:      rapid.IntRange(6, 8).Draw(t, "format"),
		Checksum:    rapid.SampledFrom([]int{1, 1, 3}).Draw(t, "checksum"),
		Compression: rapid.SampledFrom(c27Profiles).Draw(t, "compression"),
		BlockSize:   rapid.SampledFrom([]int{1, 48, 96, 128, 200, 256, 512, 1024, 4096}).Draw(t, "block_size"),
	}
	tp.IndexBlockSize = rapid.SampledFrom([]int{1, 64, 128, 256, 4096, 1 << 20}).Draw(t, "index_block_size")
	tp.FilterBits = rapid.SampledFrom([]int{0, 0, 10, 10, 1, 20}).Draw(t, "filter_bits")
	tp.NoValueBlocks = rapid.IntRange(0, 3).Draw(t, "novalblk") == 0
	tp.LowestLevel = rapid.Bool().Draw(t, "lowest")
	alpha := rapid.SampledFrom([]int{2, 3, 5, 26}).Draw(t, "alpha")
	plen := rapid.IntRange(1, 5).Draw(t, "maxplen")
	n := rapid.SampledFrom([]int{0, 1, 3, 10, 25, 25, 60, 60, 150}).Draw(t, "npoints")
	fixed := rapid.IntRange(0, 3).Draw(t, "fixedsize") == 0 // fixed-size entries: equal-sized blocks
	var fixedVal Seg
	if fixed {
		fixedVal = Seg{Kind: "rand", Len: rapid.SampledFrom([]int{8, 16, 32}).Draw(t, "fixedlen")}
		plen = max(plen, 3)
	}
	seen := map[string]struct{}{}
	for i := 0; i < n; i++ {
		pp := PointPlan{P: genPrefix(t, alpha, plen), S: rapid.SampledFrom([]int{0, 1, 2, 3, 5, 8, 13, 21, 99}).Draw(t, "suffix"),
			Seq: uint64(rapid.IntRange(1, 60).Draw(t, "seq"))}
		if fixed {
			// same-length keys and values; distinct seeds so that blocks differ in content.
			for len(pp.P) < plen {
				pp.P += "a"
			}
			pp.S = rapid.IntRange(10, 12).Draw(t, "fsuffix")
			pp.K = int(base.InternalKeyKindSet)
			pp.V = fixedVal
			pp.V.Seed = uint64(i + 1)
		} else {
			pp.K = rapid.SampledFrom([]int{1, 1, 1, 1, 1, 2, 0, 7}).Draw(t, "kind")
			if pp.K == int(base.InternalKeyKindSet) || pp.K == int(base.InternalKeyKindMerge) {
				pp.V = genValueSeg(t)
			} else {
				pp.V = Seg{Kind: "zero"}
			}
		}
		id := fmt.Sprintf("%s@%d#%d", pp.P, pp.S, pp.Seq)
		if _, dup := seen[id]; dup {
			continue
		}
		seen[id] = struct{}{}
		tp.Points = append(tp.Points, pp)
	}
	tp.RangeDels = genSpans(t, alpha, false, "rd")
	tp.RangeKeys = genSpans(t, alpha, true, "rk")
	return tp
}

func genBlob(t *rapid.T) BlobPlan {
	bp := BlobPlan{
		Format:      rapid.IntRange(1, 2).Draw(t, "format"),
		Checksum:    rapid.SampledFrom([]int{1, 1, 3}).Draw(t, "checksum"),
		Compression: rapid.SampledFrom(c27Profiles).Draw(t, "compression"),
		BlockSize:   rapid.SampledFrom([]int{1, 64, 128, 256, 1024, 4096}).Draw(t, "block_size"),
	}
	n := rapid.SampledFrom([]int{1, 2, 5, 20, 20, 60}).Draw(t, "nvalues")
	fixed := rapid.IntRange(0, 3).Draw(t, "fixedsize") == 0
	flen := rapid.SampledFrom([]int{16, 32, 100}).Draw(t, "fixedlen")
	for i := 0; i < n; i++ {
		if fixed {
			bp.Values = append(bp.Values, Seg{Kind: "rand", Len: flen, Seed: uint64(i + 1)})
		} else {
			bp.Values = append(bp.Values, genValueSeg(t))
		}
	}
	return bp
}

var corruptionTargets = []string{"any", "any", "any", "body", "body", "trailer", "indicator", "head", "meta", "meta", "meta",
	"footer", "footer", "version", "setversion", "magic", "cktype", "truncate", "dup", "dup"}
var corruptionPatterns = []string{"flip", "flip", "flip", "flip", "zero", "ff", "swap", "inc", "xor", "zerorun"}

func genCorruption(t *rapid.T) Corruption {
	return Corruption{
		T: rapid.SampledFrom(corruptionTargets).Draw(t, "target"),
		A: rapid.Uint32().Draw(t, "a"),
		B: rapid.Uint32().Draw(t, "b"),
		P: rapid.SampledFrom(corruptionPatterns).Draw(t, "pattern"),
		X: rapid.IntRange(0, 255).Draw(t, "x"),
	}
}

func genC27(t *rapid.T) C27Plan {
	p := C27Plan{Kind: rapid.SampledFrom([]string{"table", "table", "table", "blob"}).Draw(t, "kind")}
	if p.Kind == "table" {
		p.Table = genTable(t)
	} else {
		p.Blob = genBlob(t)
	}
	p.UseCache = rapid.Bool().Draw(t, "use_cache")
	p.Corruptions = rapid.SliceOfN(rapid.Custom(genCorruption), 16, 48).Draw(t, "corruptions")
	return p
}

// ---------------------------------------------------------------- building files

var tkSchema = colblk.DefaultKeySchema(testkeys.Comparer, 16)

func userKey(p string, s int) []byte {
	if s == 0 {
		return []byte(p)
	}
	return []byte(fmt.Sprintf("%s@%d", p, s))
}

type builtPoint struct {
	key base.InternalKey
	val []byte
}

func profileByName(name string) *block.CompressionProfile {
	pr := block.CompressionProfileByName(name)
	if pr == nil {
		panic("unknown compression profile " + name)
	}
	return pr
}

// buildTable writes the table described by tp and returns the file bytes and
// the point entries in the order they were added.
func buildTable(tp TablePlan) ([]byte, []builtPoint, error) {
	wo := sstable.WriterOptions{
		Comparer:             testkeys.Comparer,
		KeySchema:            &tkSchema,
		TableFormat:          sstable.TableFormatPebblev6 + sstable.TableFormat(tp.Format-6),
		Checksum:             block.ChecksumType(tp.Checksum),
		Compression:          profileByName(tp.Compression),
		BlockSize:            tp.BlockSize,
		IndexBlockSize:       tp.IndexBlockSize,
		DisableValueBlocks:   tp.NoValueBlocks,
		WritingToLowestLevel: tp.LowestLevel,
	}
	if tp.FilterBits > 0 {
		wo.FilterPolicy = bloom.FilterPolicy(uint32(tp.FilterBits))
	}
	pts := make([]builtPoint, 0, len(tp.Points))
	for _, pp := range tp.Points {
		pts = append(pts, builtPoint{
			key: base.MakeInternalKey(userKey(pp.P, pp.S), base.SeqNum(pp.Seq), base.InternalKeyKind(pp.K)),
			val: expand([]Seg{pp.V}),
		})
	}
	slices.SortStableFunc(pts, func(a, b builtPoint) int {
		return base.InternalCompare(testkeys.Comparer.Compare, a.key, b.key)
	})
	// drop entries that would not be strictly increasing (same user key and trailer order).
	out := pts[:0]
	for i, p := range pts {
		if i > 0 && base.InternalCompare(testkeys.Comparer.Compare, out[len(out)-1].key, p.key) >= 0 {
			continue
		}
		out = append(out, p)
	}
	pts = out

	obj := &objstorage.MemObj{}
	w := sstable.NewRawWriter(obj, wo)
	for _, p := range pts {
		if err := w.Add(p.key, p.val, false, base.KVMeta{}); err != nil {
			w.Close()
			return nil, nil, fmt.Errorf("Add(%s): %w", p.key, err)
		}
	}
	encodeSpans := func(spans []SpanPlan) error {
		for _, sp := range spans {
			s := keyspan.Span{Start: []byte(sp.Start), End: []byte(sp.End)}
			for j, k := range sp.Keys {
				key := keyspan.Key{Trailer: base.MakeTrailer(base.SeqNum(sp.Seq+uint64(len(sp.Keys)-j)), base.InternalKeyKind(k.K))}
				if k.S != 0 {
					key.Suffix = []byte(fmt.Sprintf("@%d", k.S))
				}
				if k.K == int(base.InternalKeyKindRangeKeySet) {
					key.Value = append([]byte{}, k.V...)
				}
				s.Keys = append(s.Keys, key)
			}
			keyspan.SortKeysByTrailerAndSuffix(testkeys.Comparer.CompareRangeSuffixes, s.Keys)
			if err := w.EncodeSpan(s); err != nil {
				return fmt.Errorf("EncodeSpan(%s): %w", s, err)
			}
		}
		return nil
	}
	if err := encodeSpans(tp.RangeDels); err != nil {
		w.Close()
		return nil, nil, err
	}
	if err := encodeSpans(tp.RangeKeys); err != nil {
		w.Close()
		return nil, nil, err
	}
	if err := w.Close(); err != nil {
		return nil, nil, fmt.Errorf("Close: %w", err)
	}
	return bytes.Clone(obj.Data()), pts, nil
}

const blobFileNum = 7

func buildBlob(bp BlobPlan) ([]byte, []blob.Handle, [][]byte, error) {
	obj := &objstorage.MemObj{}
	w := blob.NewFileWriter(base.DiskFileNum(blobFileNum), obj, blob.FileWriterOptions{
		Format:        blob.FileFormat(bp.Format),
		Compression:   profileByName(bp.Compression),
		ChecksumType:  block.ChecksumType(bp.Checksum),
		FlushGovernor: block.MakeFlushGovernor(bp.BlockSize, 90, 0, nil),
	})
	var handles []blob.Handle
	var vals [][]byte
	for _, s := range bp.Values {
		v := expand([]Seg{s})
		handles = append(handles, w.AddValue(v, false))
		vals = append(vals, v)
	}
	if _, err := w.Close(); err != nil {
		return nil, nil, nil, err
	}
	return bytes.Clone(obj.Data()), handles, vals, nil
}

// ---------------------------------------------------------------- reading

var (
	cacheOnce   sync.Once
	sharedCache *cache.Cache
)

func newCacheHandle() *cache.Handle {
	cacheOnce.Do(func() { sharedCache = cache.NewWithShards(32<<20, 2) })
	return sharedCache.NewHandle()
}

// step is the outcome of one part of the full read: a transcript or an error.
type step struct {
	name string
	data []byte
	err  error
}

type readResult struct {
	openErr error
	steps   []step
	layout  *sstable.Layout // tables only, reference read only
	// entries: forward scan on ONE iterator that keeps going after a value
	// fetch failed (a value error does not invalidate the iterator position);
	// entriesErr is the iterator's terminal error.
	entries    []entryRes
	entriesErr error
}

// entryRes is one position of the keep-going scan.
type entryRes struct {
	key  []byte // encoded internal key
	val  []byte
	verr error
}

func memObjOf(data []byte) *objstorage.MemObj {
	obj := &objstorage.MemObj{}
	if err := obj.Write(data); err != nil {
		panic(err)
	}
	return obj
}

func appendKV(dst []byte, k *base.InternalKey, v []byte) []byte {
	dst = binary.AppendUvarint(dst, uint64(len(k.UserKey)))
	dst = append(dst, k.UserKey...)
	dst = binary.LittleEndian.AppendUint64(dst, uint64(k.Trailer))
	dst = binary.AppendUvarint(dst, uint64(len(v)))
	dst = append(dst, v...)
	return dst
}

func firstErr(errs ...error) error {
	for _, e := range errs {
		if e != nil {
			return e
		}
	}
	return nil
}

// readTable performs the full read of a table file the way the DB opens it
// (sstable.NewReader with the block cache handle and file number; block
// checksums are always verified by block.Reader). seekKeys are user keys.
func readTable(data []byte, useCache bool, seekKeys [][]byte, maxEntries int, wantLayout bool) (res readResult) {
	ctx := context.Background()
	ro := sstable.ReaderOptions{
		Comparer:       testkeys.Comparer,
		KeySchemas:     sstable.KeySchemas{tkSchema.Name: &tkSchema},
		FilterDecoders: []base.TableFilterDecoder{bloom.Decoder},
	}
	ro.CacheOpts = sstableinternal.CacheOptions{FileNum: 3}
	if useCache {
		ch := newCacheHandle()
		defer ch.Close()
		ro.CacheOpts.CacheHandle = ch
	}
	r, err := sstable.NewReader(ctx, memObjOf(data), ro)
	if err != nil {
		res.openErr = err
		return res
	}
	defer r.Close()
	add := func(name string, data []byte, err error) {
		res.steps = append(res.steps, step{name: name, data: data, err: err})
	}

	// properties
	{
		props, err := r.ReadPropertiesBlock(ctx, nil)
		var d []byte
		if err == nil {
			d = []byte(props.String())
		}
		add("properties", d, err)
	}
	// forward and backward scans with values.
	scan := func(forward bool) ([]byte, error) {
		it, err := r.NewIter(sstable.NoTransforms, nil, nil, sstable.AssertNoBlobHandles)
		if err != nil {
			return nil, err
		}
		var d []byte
		var verr error
		n := 0
		var kv *base.InternalKV
		if forward {
			kv = it.First()
		} else {
			kv = it.Last()
		}
		for kv != nil {
			v, _, err := kv.Value(nil)
			if err != nil {
				verr = err
				break
			}
			d = appendKV(d, &kv.K, v)
			if n++; n > maxEntries {
				break
			}
			if forward {
				kv = it.Next()
			} else {
				kv = it.Prev()
			}
		}
		return d, firstErr(verr, it.Error(), it.Close())
	}
	// keep-going forward scan: every value fetch is attempted even after an
	// earlier one failed (same iterator, so cached value-block state is reused).
	if it, err := r.NewIter(sstable.NoTransforms, nil, nil, sstable.AssertNoBlobHandles); err != nil {
		res.entriesErr = err
	} else {
		n := 0
		for kv := it.First(); kv != nil; kv = it.Next() {
			e := entryRes{key: appendKV(nil, &kv.K, nil)}
			v, _, verr := kv.Value(nil)
			if verr != nil {
				e.verr = verr
			} else {
				e.val = append([]byte(nil), v...)
			}
			res.entries = append(res.entries, e)
			if n++; n > maxEntries {
				break
			}
		}
		res.entriesErr = firstErr(it.Error(), it.Close())
	}
	d, err := scan(true)
	add("scan-forward", d, err)
	d, err = scan(false)
	add("scan-backward", d, err)

	// seeks on one iterator.
	{
		it, err := r.NewIter(sstable.NoTransforms, nil, nil, sstable.AssertNoBlobHandles)
		var d []byte
		if err == nil {
			var verr error
			rec := func(op byte, kv *base.InternalKV) bool {
				d = append(d, op)
				if kv == nil {
					d = append(d, 0)
					verr = it.Error()
					return verr == nil
				}
				v, _, err := kv.Value(nil)
				if err != nil {
					verr = err
					return false
				}
				d = append(d, 1)
				d = appendKV(d, &kv.K, v)
				return true
			}
			for _, k := range seekKeys {
				if !rec('G', it.SeekGE(k, base.SeekGEFlagsNone)) {
					break
				}
				if !rec('n', it.Next()) {
					break
				}
				if !rec('L', it.SeekLT(k, base.SeekLTFlagsNone)) {
					break
				}
				prefix := k[:testkeys.Comparer.Split(k)]
				if !rec('P', it.SeekPrefixGE(prefix, k, base.SeekGEFlagsNone)) {
					break
				}
			}
			err = firstErr(verr, it.Error(), it.Close())
		}
		add("seeks", d, err)
	}
	// range deletions and range keys.
	spans := func(mk func() (keyspan.FragmentIterator, error)) ([]byte, error) {
		it, err := mk()
		if err != nil || it == nil {
			return nil, err
		}
		defer it.Close()
		var d []byte
		n := 0
		s, err := it.First()
		for ; s != nil && err == nil; s, err = it.Next() {
			d = append(d, s.String()...)
			d = append(d, '\n')
			if n++; n > maxEntries {
				break
			}
		}
		return d, err
	}
	d, err = spans(func() (keyspan.FragmentIterator, error) {
		return r.NewRawRangeDelIter(ctx, sstable.NoFragmentTransforms, sstable.NoReadEnv)
	})
	add("rangedels", d, err)
	d, err = spans(func() (keyspan.FragmentIterator, error) {
		return r.NewRawRangeKeyIter(ctx, sstable.NoFragmentTransforms, sstable.NoReadEnv)
	})
	add("rangekeys", d, err)

	// layout and checksum validation.
	{
		l, err := r.Layout()
		var d []byte
		if err == nil {
			d = []byte(describeLayout(l))
			if wantLayout {
				res.layout = l
			}
		}
		add("layout", d, err)
	}
	add("validate-checksums", nil, r.ValidateBlockChecksums())
	return res
}

func describeLayout(l *sstable.Layout) string {
	var sb strings.Builder
	for _, r := range tableRegions(l, 0) {
		fmt.Fprintf(&sb, "%s %d %d\n", r.name, r.off, r.n)
	}
	fmt.Fprintf(&sb, "format %s\n", l.Format)
	return sb.String()
}

// region is a classified byte range of the original file.
type region struct {
	name    string // data, index, top-index, filter, range-del, range-key, value-block, value-index, properties, meta-index, footer, ...
	off, n  int
	trailer bool // the 5-byte block trailer of the preceding body region
}

func addBlock(rs []region, name string, h block.Handle) []region {
	if h.Length == 0 && h.Offset == 0 {
		return rs
	}
	rs = append(rs, region{name: name, off: int(h.Offset), n: int(h.Length)})
	rs = append(rs, region{name: name, off: int(h.Offset + h.Length), n: block.TrailerLen, trailer: true})
	return rs
}

func tableRegions(l *sstable.Layout, fileSize int) []region {
	var rs []region
	for _, h := range l.Data {
		rs = addBlock(rs, "data", h.Handle)
	}
	for _, h := range l.Index {
		rs = addBlock(rs, "index", h)
	}
	rs = addBlock(rs, "top-index", l.TopIndex)
	for _, h := range l.Filter {
		rs = addBlock(rs, "filter", h.Handle)
	}
	rs = addBlock(rs, "range-del", l.RangeDel)
	rs = addBlock(rs, "range-key", l.RangeKey)
	for _, h := range l.ValueBlock {
		rs = addBlock(rs, "value-block", h)
	}
	rs = addBlock(rs, "value-index", l.ValueIndex)
	rs = addBlock(rs, "properties", l.Properties)
	rs = addBlock(rs, "meta-index", l.MetaIndex)
	rs = addBlock(rs, "blob-ref-index", l.BlobReferenceIndex)
	rs = addBlock(rs, "tiering-histogram", l.TieringHistogram)
	rs = append(rs, region{name: "footer", off: int(l.Footer.Offset), n: int(l.Footer.Length)})
	sort.SliceStable(rs, func(i, j int) bool { return rs[i].off < rs[j].off })
	return rs
}

// blobProvider hands out one already opened blob.FileReader.
type blobProvider struct{ r *blob.FileReader }

func (p blobProvider) GetValueReader(context.Context, base.ObjectInfo, block.InitFileReadStats) (blob.ValueReader, func(), error) {
	return p.r, func() {}, nil
}

type identityMapping struct{}

func (identityMapping) Lookup(id base.BlobFileID) (base.ObjectInfo, bool) {
	return base.ObjectInfoLiteral{FileType: base.FileTypeBlob, DiskFileNum: base.DiskFileNum(id)}, true
}

// readBlob performs the full read of a blob file: open, properties, and every
// value through a blob.ValueFetcher (the path used by iterators), in handle
// order and then in reverse order.
func readBlob(data []byte, useCache bool, handles []blob.Handle, wantLayout bool) (res readResult, layout string) {
	ctx := context.Background()
	fro := blob.FileReaderOptions{}
	fro.CacheOpts = sstableinternal.CacheOptions{FileNum: base.DiskFileNum(blobFileNum)}
	if useCache {
		ch := newCacheHandle()
		defer ch.Close()
		fro.CacheOpts.CacheHandle = ch
	}
	r, err := blob.NewFileReader(ctx, memObjOf(data), fro)
	if err != nil {
		res.openErr = err
		return res, ""
	}
	defer r.Close()
	add := func(name string, data []byte, err error) {
		res.steps = append(res.steps, step{name: name, data: data, err: err})
	}
	{
		props, err := r.ReadProperties(ctx)
		var d []byte
		if err == nil {
			d = []byte(fmt.Sprintf("format=%s\n%s", r.FormatVersion(), props.String()))
		}
		add("properties", d, err)
	}
	fetchAll := func(reverse bool) ([]byte, error) {
		var vf blob.ValueFetcher
		vf.Init(identityMapping{}, blobProvider{r}, block.ReadEnv{}, 2)
		var d []byte
		var ferr error
		var hbuf [2 * binary.MaxVarintLen32]byte
		for i := range handles {
			h := handles[i]
			if reverse {
				h = handles[len(handles)-1-i]
			}
			n := blob.HandleSuffix{BlockID: h.BlockID, ValueID: h.ValueID}.Encode(hbuf[:])
			v, _, err := vf.FetchHandle(ctx, hbuf[:n], h.BlobFileID, h.ValueLen, nil)
			if err != nil {
				ferr = err
				break
			}
			d = binary.AppendUvarint(d, uint64(len(v)))
			d = append(d, v...)
		}
		return d, firstErr(ferr, vf.Close())
	}
	d, err := fetchAll(false)
	add("fetch-forward", d, err)
	d, err = fetchAll(true)
	add("fetch-reverse", d, err)
	if wantLayout {
		layout, err = r.Layout()
		if err != nil {
			layout = ""
		}
	}
	return res, layout
}

// blobRegions classifies the bytes of the original blob file from the debug
// layout (classification only; never used for a verdict) and the documented
// footer sizes (sstable/blob/blob.go: 38 bytes for V1, 70 bytes for V2).
func blobRegions(layout string, indexH block.Handle, format int, fileSize int) []region {
	var rs []region
	for _, line := range strings.Split(layout, "\n") {
		var i, off, n int
		if c, _ := fmt.Sscanf(line, "block %d: offset=%d length=%d", &i, &off, &n); c == 3 {
			rs = addBlock(rs, "value-block", block.Handle{Offset: uint64(off), Length: uint64(n)})
		} else if c, _ := fmt.Sscanf(line, "properties block: offset=%d length=%d", &off, &n); c == 2 && n > 0 {
			rs = addBlock(rs, "properties", block.Handle{Offset: uint64(off), Length: uint64(n)})
		}
	}
	rs = addBlock(rs, "index", indexH)
	fl := 38
	if format >= 2 {
		fl = 70
	}
	rs = append(rs, region{name: "footer", off: fileSize - fl, n: fl})
	sort.SliceStable(rs, func(i, j int) bool { return rs[i].off < rs[j].off })
	return rs
}

// ---------------------------------------------------------------- corruption

type applied struct {
	desc     string
	data     []byte // corrupted file
	class    string // region class of the first changed byte
	noop     bool
	wholeDup bool // a complete physical block was replaced by another complete block of the same length
}

func classify(rs []region, off int) string {
	for _, r := range rs {
		if off >= r.off && off < r.off+r.n {
			if r.trailer {
				return r.name + "-trailer"
			}
			return r.name
		}
	}
	return "unclassified"
}

// bodies returns the indices of the non-trailer block regions (footer excluded).
func bodies(rs []region) []int {
	var out []int
	for i, r := range rs {
		if !r.trailer && r.name != "footer" {
			out = append(out, i)
		}
	}
	return out
}

func isMeta(name string) bool {
	switch name {
	case "data", "value-block":
		return false
	}
	return true
}

// mix spreads a drawn selector over the whole uint32 range (rapid favours
// small values, which would otherwise always select the first regions).
func mix(x uint32) uint32 {
	m := splitmix{x: uint64(x)}
	return uint32(m.next() >> 16)
}

func applyCorruption(orig []byte, rs []region, c Corruption, isTable bool) applied {
	c.A, c.B = mix(c.A), mix(c.B)
	data := bytes.Clone(orig)
	size := len(data)
	footer := rs[len(rs)-1]
	for _, r := range rs {
		if r.name == "footer" {
			footer = r
		}
	}
	bs := bodies(rs)
	off := -1
	target := c.T
	pick := func(idx []int) region { return rs[idx[int(c.A)%len(idx)]] }
	switch target {
	case "body", "head", "trailer", "indicator", "meta", "dup":
		if len(bs) == 0 {
			target = "any"
		}
	}
	switch target {
	case "any":
		off = int(c.B) % size
	case "body":
		r := pick(bs)
		if r.n == 0 {
			off = r.off // first trailer byte
		} else {
			off = r.off + int(c.B)%r.n
		}
	case "head":
		r := pick(bs)
		off = r.off + int(c.B)%max(1, min(r.n, 16))
	case "trailer":
		r := pick(bs)
		off = r.off + r.n + int(c.B)%block.TrailerLen
	case "indicator":
		r := pick(bs)
		off = r.off + r.n
	case "meta":
		// pick a metadata block kind first (so that rare kinds such as the
		// top-level index are hit as often as the many lower-level index blocks).
		byName := map[string][]int{}
		var names []string
		for _, i := range bs {
			if isMeta(rs[i].name) {
				if _, ok := byName[rs[i].name]; !ok {
					names = append(names, rs[i].name)
				}
				byName[rs[i].name] = append(byName[rs[i].name], i)
			}
		}
		ms := bs
		if len(names) > 0 {
			ms = byName[names[int(c.A)%len(names)]]
		}
		r := rs[ms[int(c.A>>8)%len(ms)]]
		off = r.off + int(c.B)%(r.n+block.TrailerLen)
	case "footer":
		off = footer.off + int(c.B)%footer.n
	case "version":
		if isTable {
			// sstable/table.go: footer version = 4 bytes before the 8-byte magic.
			off = size - 12 + int(c.B)%4
		} else {
			// sstable/blob/blob.go: checksum type at footer byte 20, format at 21.
			off = footer.off + 20 + int(c.B)%2
		}
	case "setversion":
		// overwrite the version/format field with another (possibly valid) version.
		if isTable {
			binary.LittleEndian.PutUint32(data[size-12:], uint32(c.X%10))
		} else {
			data[footer.off+21] = byte(c.X % 4)
		}
		a := applied{desc: fmt.Sprintf("set footer version field to %d", c.X%10), data: data, class: "footer", noop: bytes.Equal(data, orig)}
		if !isTable {
			a.desc = fmt.Sprintf("set footer format byte to %d", c.X%4)
		}
		return a
	case "magic":
		off = size - 8 + int(c.B)%8
	case "cktype":
		if isTable {
			off = footer.off // first footer byte is the checksum type
		} else {
			off = footer.off + 20
		}
	case "truncate":
		n := int(c.B) % size
		if c.X%3 == 0 { // cut inside the footer
			n = footer.off + int(c.B)%footer.n
		}
		return applied{desc: fmt.Sprintf("truncate to %d of %d bytes", n, size), data: data[:n], class: "truncate"}
	case "dup":
		src := pick(bs)
		// prefer a destination block with the same length (its trailer checksum
		// is then at the expected position).
		var same, other []int
		for _, i := range bs {
			if rs[i].off == src.off {
				continue
			}
			if rs[i].n == src.n {
				same = append(same, i)
			} else {
				other = append(other, i)
			}
		}
		cands := same
		if len(cands) == 0 || c.X%4 == 0 {
			cands = other
		}
		if len(cands) == 0 {
			cands = same
		}
		if len(cands) == 0 {
			return applied{desc: "dup: single block", data: data, noop: true}
		}
		dst := rs[cands[int(c.B)%len(cands)]]
		n := min(src.n, dst.n) + block.TrailerLen
		copy(data[dst.off:dst.off+n], orig[src.off:src.off+n])
		a := applied{desc: fmt.Sprintf("dup %s block@%d(len %d) over %s block@%d(len %d)", src.name, src.off, src.n, dst.name, dst.off, dst.n),
			data: data, class: "dup-" + dst.name, wholeDup: src.n == dst.n}
		a.noop = bytes.Equal(data, orig)
		return a
	default:
		panic("bad corruption target " + c.T)
	}
	old := data[off]
	desc := ""
	switch c.P {
	case "flip":
		data[off] ^= 1 << (c.X & 7)
		desc = fmt.Sprintf("flip bit %d", c.X&7)
	case "zero":
		data[off] = 0
	case "ff":
		data[off] = 0xff
	case "inc":
		data[off]++
	case "xor":
		data[off] ^= byte(c.X) | 1
		desc = fmt.Sprintf("xor %#x", byte(c.X)|1)
	case "swap":
		o2 := off + 1
		if o2 >= size {
			o2 = off - 1
		}
		if o2 >= 0 {
			data[off], data[o2] = data[o2], data[off]
		}
	case "zerorun":
		n := c.X%64 + 1
		for i := off; i < off+n && i < size; i++ {
			data[i] = 0
		}
		desc = fmt.Sprintf("zero %d bytes", n)
	default:
		panic("bad corruption pattern " + c.P)
	}
	if desc == "" {
		desc = c.P
	}
	first := firstDiff(data, orig)
	a := applied{data: data, noop: first < 0}
	if first >= 0 {
		a.class = classify(rs, first)
	}
	a.desc = fmt.Sprintf("%s at offset %d (%s, was %#02x, target %s) of %d bytes", desc, off, classify(rs, off), old, c.T, size)
	return a
}

// ---------------------------------------------------------------- executor

const sigWholeDup = "whole-block-substitution"

func compareReads(ref, got readResult) (outcome string, err error) {
	if got.openErr != nil {
		return "open-error", nil
	}
	if len(got.steps) != len(ref.steps) {
		return "", fmt.Errorf("internal: %d steps vs %d", len(got.steps), len(ref.steps))
	}
	outcome = "same"
	// keep-going scan: each position must carry the original key, and its value
	// must be the original value or an error; the scan may only end early with
	// an iterator error.
	for i, e := range got.entries {
		if i >= len(ref.entries) {
			if got.entriesErr == nil {
				return "", fmt.Errorf("keep-going scan returned %d entries without an error, the original has %d", len(got.entries), len(ref.entries))
			}
			break
		}
		if !bytes.Equal(e.key, ref.entries[i].key) {
			if got.entriesErr == nil {
				return "", fmt.Errorf("keep-going scan: entry %d has key %q, original %q, and the scan ended without an error", i, e.key, ref.entries[i].key)
			}
			break
		}
		if e.verr != nil {
			outcome = "read-error"
			continue
		}
		if !bytes.Equal(e.val, ref.entries[i].val) {
			return "", fmt.Errorf("keep-going scan (one iterator, value fetches continue after an earlier fetch failed): entry %d key %q returned a different value without an error: got %q, original %q",
				i, e.key, excerpt(e.val, firstDiff(e.val, ref.entries[i].val)), excerpt(ref.entries[i].val, firstDiff(e.val, ref.entries[i].val)))
		}
	}
	if len(got.entries) < len(ref.entries) && got.entriesErr == nil {
		return "", fmt.Errorf("keep-going scan returned %d of %d entries without an error", len(got.entries), len(ref.entries))
	}
	if got.entriesErr != nil {
		outcome = "read-error"
	}
	for i, s := range got.steps {
		if s.err != nil {
			outcome = "read-error"
			continue
		}
		if !bytes.Equal(s.data, ref.steps[i].data) {
			d := firstDiff(s.data, ref.steps[i].data)
			return "", fmt.Errorf("step %q returned different results without an error (transcript len %d vs original %d, first difference at %d: got %q, original %q)",
				s.name, len(s.data), len(ref.steps[i].data), d, excerpt(s.data, d), excerpt(ref.steps[i].data, d))
		}
	}
	return outcome, nil
}

func excerpt(b []byte, at int) []byte {
	lo, hi := max(0, at-8), min(len(b), at+24)
	if lo > hi {
		return nil
	}
	return b[lo:hi]
}

func execC27(p C27Plan) (out evid.Outcome, err error) {
	out.Counters = map[string]int{}
	labels := map[string]struct{}{}
	defer func() {
		for l := range labels {
			out.Labels = append(out.Labels, l)
		}
		sort.Strings(out.Labels)
	}()
	labels["kind="+p.Kind] = struct{}{}
	labels[fmt.Sprintf("cache=%t", p.UseCache)] = struct{}{}

	var orig []byte
	var rs []region
	var ref readResult
	var readFn func(data []byte) readResult
	isTable := p.Kind == "table"
	if isTable {
		data, pts, err := buildTable(p.Table)
		if err != nil {
			return out, fmt.Errorf("could not build the table (generator bug or writer error): %v", err)
		}
		orig = data
		// seek keys: a sample of the written user keys plus keys that are absent.
		var seekKeys [][]byte
		stepN := max(1, len(pts)/6)
		for i := 0; i < len(pts); i += stepN {
			seekKeys = append(seekKeys, pts[i].key.UserKey)
		}
		seekKeys = append(seekKeys, []byte("a"), []byte("m@5"), []byte("zzzzzzz"))
		maxEntries := 2*len(pts) + 2*len(p.Table.RangeDels) + 6*len(p.Table.RangeKeys) + 16
		ref = readTable(orig, p.UseCache, seekKeys, maxEntries, true)
		if ref.openErr != nil {
			return out, fmt.Errorf("unmodified table does not open: %v", ref.openErr)
		}
		for _, s := range ref.steps {
			if s.err != nil {
				return out, fmt.Errorf("unmodified table: step %q fails: %v", s.name, s.err)
			}
		}
		// sanity: the reference forward scan is exactly what was written.
		var want []byte
		for i := range pts {
			want = appendKV(want, &pts[i].key, pts[i].val)
		}
		if !bytes.Equal(want, ref.steps[1].data) {
			return out, fmt.Errorf("unmodified table: forward scan differs from the written entries (this is a C25-type failure) at transcript byte %d", firstDiff(want, ref.steps[1].data))
		}
		rs = tableRegions(ref.layout, len(orig))
		readFn = func(d []byte) readResult { return readTable(d, p.UseCache, seekKeys, maxEntries, false) }

		l := ref.layout
		labels[fmt.Sprintf("format=v%d", p.Table.Format)] = struct{}{}
		labels["compression="+p.Table.Compression] = struct{}{}
		labels[fmt.Sprintf("checksum=%d", p.Table.Checksum)] = struct{}{}
		if l.TopIndex.Length > 0 {
			labels["two-level-index"] = struct{}{}
		}
		if len(l.ValueBlock) > 0 {
			labels["has-value-blocks"] = struct{}{}
		}
		if len(l.Filter) > 0 {
			labels["has-filter"] = struct{}{}
		}
		if l.RangeDel.Length > 0 {
			labels["has-rangedel"] = struct{}{}
		}
		if l.RangeKey.Length > 0 {
			labels["has-rangekey"] = struct{}{}
		}
		switch n := len(l.Data); {
		case n == 0:
			labels["datablocks=0"] = struct{}{}
		case n == 1:
			labels["datablocks=1"] = struct{}{}
		case n <= 8:
			labels["datablocks=2-8"] = struct{}{}
		default:
			labels["datablocks>8"] = struct{}{}
		}
	} else {
		data, handles, vals, err := buildBlob(p.Blob)
		if err != nil {
			return out, fmt.Errorf("could not build the blob file: %v", err)
		}
		orig = data
		var layout string
		ref, layout = readBlob(orig, p.UseCache, handles, true)
		if ref.openErr != nil {
			return out, fmt.Errorf("unmodified blob file does not open: %v", ref.openErr)
		}
		for _, s := range ref.steps {
			if s.err != nil {
				return out, fmt.Errorf("unmodified blob file: step %q fails: %v", s.name, s.err)
			}
		}
		var want []byte
		for _, v := range vals {
			want = binary.AppendUvarint(want, uint64(len(v)))
			want = append(want, v...)
		}
		if !bytes.Equal(want, ref.steps[1].data) {
			return out, fmt.Errorf("unmodified blob file: fetched values differ from the written values at transcript byte %d", firstDiff(want, ref.steps[1].data))
		}
		// index handle from a throw-away reader (classification only).
		fr, err := blob.NewFileReader(context.Background(), memObjOf(orig), blob.FileReaderOptions{})
		if err != nil {
			return out, fmt.Errorf("unmodified blob file does not open: %v", err)
		}
		ih := fr.IndexHandle()
		fr.Close()
		rs = blobRegions(layout, ih, p.Blob.Format, len(orig))
		readFn = func(d []byte) readResult { r, _ := readBlob(d, p.UseCache, handles, false); return r }
		labels[fmt.Sprintf("format=blobV%d", p.Blob.Format)] = struct{}{}
		labels["compression="+p.Blob.Compression] = struct{}{}
		labels[fmt.Sprintf("checksum=%d", p.Blob.Checksum)] = struct{}{}
		nblocks := 0
		for _, r := range rs {
			if r.name == "value-block" && !r.trailer {
				nblocks++
			}
		}
		if nblocks > 1 {
			labels["valueblocks>1"] = struct{}{}
		} else {
			labels["valueblocks=1"] = struct{}{}
		}
	}
	// the regions must tile the file: every byte is classified.
	covered := 0
	for _, r := range rs {
		covered += r.n
	}
	if covered != len(orig) {
		labels["layout-has-gaps"] = struct{}{}
	}
	out.Counters["file_bytes"] = len(orig)

	dupExcluded := !p.Demo && evid.FindingActive("C27", sigWholeDup)
	checked := 0
	for i, c := range p.Corruptions {
		a := applyCorruption(orig, rs, c, isTable)
		if a.noop {
			out.Counters["noop"]++
			continue
		}
		if a.wholeDup && dupExcluded {
			out.Counters["excluded:"+sigWholeDup]++
			continue
		}
		got, perr := func() (res readResult, perr error) {
			defer func() {
				if r := recover(); r != nil {
					perr = fmt.Errorf("panic: %v\n%s", r, debug.Stack())
				}
			}()
			return readFn(a.data), nil
		}()
		what := fmt.Sprintf("%s file (%d bytes), corruption %d: %s", p.Kind, len(orig), i, a.desc)
		if perr != nil {
			return out, fmt.Errorf("%s: reading panicked instead of reporting an error: %v", what, perr)
		}
		outcome, err := compareReads(ref, got)
		if err != nil {
			return out, fmt.Errorf("%s: %v", what, err)
		}
		checked++
		class := a.class
		if a.wholeDup {
			class += "-samelen"
		}
		labels["hit="+class] = struct{}{}
		labels["pattern="+c.P] = struct{}{}
		out.Counters[class+":"+outcome]++
		out.Counters["outcome:"+outcome]++
		out.Counters["corruptions"]++
		if class != "unclassified" {
			out.NonTrivial = true
		}
	}
	if checked == 0 && out.Counters["excluded:"+sigWholeDup] > 0 {
		out.Excluded = sigWholeDup
	}
	return out, nil
}

func TestC27(t *testing.T) {
	evid.Run(t, evid.Spec[C27Plan]{
		ID: "C27", Level: "fault_enumeration",
		Rule: "rapid draws a table (formats v6-v8 = checksummed footers; both checksum types; 6 deterministic compression profiles; tiny to 4 KiB blocks; single/two-level index; " +
			"bloom filter; value blocks; range dels; range keys; 0-150 points) or a blob file (V1/V2), and 8-40 corruptions, each a (target, pattern) pair resolved against the layout of the " +
			"original file: uniform offset | block body | block head | block trailer | compression indicator | metadata blocks | footer | footer version/format | magic | checksum type | truncation | " +
			"block duplicated over another block; patterns bit flip, zero, 0xFF, swap with neighbour, +1, xor, zero run. Each corrupted copy is opened like the DB does (block checksums on, optional block cache) " +
			"and fully read (properties, forward+backward scans with values, seeks incl. SeekPrefixGE through the filter, range dels, range keys, Layout, ValidateBlockChecksums; " +
			"blob: properties and every value through ValueFetcher in both orders); every step must equal the read of the original file or report an error; panics are violations. " +
			"non-trivial = at least one corruption changed a byte inside a classified region (block body, trailer or footer); distinct = hash of the plan JSON",
		Assumptions: []string{
			"a 32-bit checksum collision caused by a random corruption (probability 2^-32 per case) is not distinguished from a real violation",
			"the reference for every step is the same read performed on the unmodified file (it is additionally compared with the entries that were written)",
			"region classification (labels only) uses Reader.Layout of the original table and the debug layout string of the original blob file",
		},
		Gen: genC27, Exec: execC27, Quick: 600, Thorough: 8000,
		Known: []evid.Known[C27Plan]{{Signature: sigWholeDup, Plan: C27Plan{Kind: "table", Demo: true,
			Table: TablePlan{Format: 6, Checksum: 1, Compression: "NoCompression", BlockSize: 1, IndexBlockSize: 1, NoValueBlocks: true,
				Points: []PointPlan{{P: "aaa", S: 10, Seq: 1, K: 1, V: Seg{Kind: "rand", Len: 8, Seed: 1}}, {P: "aaa", S: 11, Seq: 1, K: 1, V: Seg{Kind: "rand", Len: 8, Seed: 24}}}},
			Corruptions: []Corruption{{T: "dup", P: "flip", X: 1}}}}},
		Sample: func(p C27Plan) any {
			return map[string]any{"kind": p.Kind, "format": p.Table.Format + p.Blob.Format, "npoints": len(p.Table.Points), "nvalues": len(p.Blob.Values),
				"corruptions": p.Corruptions[:min(4, len(p.Corruptions))]}
		},
	})
}
