package corruptcompress

import (
	"bytes"
	"context"
	"encoding/binary"
	"fmt"
	"hash/crc32"
	"testing"

	"github.com/cespare/xxhash/v2"
	"github.com/cockroachdb/pebble/internal/base"
	"github.com/cockroachdb/pebble/internal/compression"
	"github.com/cockroachdb/pebble/objstorage"
	"github.com/cockroachdb/pebble/sstable/block"
	"github.com/cockroachdb/pebble/sstable/block/blockkind"
	"github.com/cockroachdb/pebble/verifharness/evid"
	"pgregory.net/rapid"
)

// ---------------------------------------------------------------- plan

// Setting mirrors compression.Setting as plain data.
type Setting struct {
	Algo  int `json:"algo"` // 0 none, 1 snappy, 2 minlz, 3 zstd (compression.Algorithm values)
	Level int `json:"level"`
}

func (s Setting) real() compression.Setting {
	return compression.Setting{Algorithm: compression.Algorithm(s.Algo), Level: uint8(s.Level)}
}

// KindSetting mirrors block.CompressionSetting.
type KindSetting struct {
	Setting
	AdaptivePct int `json:"adaptive_pct,omitempty"`
}

// ProfilePlan is either a built-in profile (Name) or a custom one.
type ProfilePlan struct {
	Name   string      `json:"name,omitempty"`
	Data   KindSetting `json:"data"`
	Value  KindSetting `json:"value"`
	Other  Setting     `json:"other"`
	MinRed int         `json:"min_red"`
}

type AdaptivePlan struct {
	Fast        Setting `json:"fast"`
	Slow        Setting `json:"slow"`
	CutoffPct   int     `json:"cutoff_pct"`
	SampleEvery int     `json:"sample_every"`
	HalfLife    int64   `json:"half_life"`
	Seed        uint64  `json:"seed"`
}

type BlockPlan struct {
	Segs         []Seg `json:"segs"`
	Kind         int   `json:"kind,omitempty"`          // blockkind.Kind (profile mode)
	DontCompress bool  `json:"dont_compress,omitempty"` // profile mode
	DstLen       int   `json:"dst_len,omitempty"`       // len of dst passed to Compress
	DstCap       int   `json:"dst_cap,omitempty"`       // extra capacity of dst
	NilDst       bool  `json:"nil_dst,omitempty"`
}

type C28Plan struct {
	Mode     string       `json:"mode"` // setting | adaptive | profile
	Setting  Setting      `json:"setting"`
	Adaptive AdaptivePlan `json:"adaptive"`
	Profile  ProfilePlan  `json:"profile"`
	Checksum int          `json:"checksum"` // block.ChecksumType (1 crc32c, 3 xxhash64)
	PadFront int          `json:"pad_front"`
	Blocks   []BlockPlan  `json:"blocks"`
	// Demo disables known-finding exclusions (used by Spec.Known demonstrations).
	Demo bool `json:"demo,omitempty"`
}

// ---------------------------------------------------------------- generator

// zstdLevels are the levels generated for zstd. GetCompressor accepts any
// level for zstd; the presets are 1,3,5,7. Levels above ~12 are very slow and
// are only drawn rarely (see genSetting).
var zstdLevels = []int{1, 1, 2, 3, 3, 4, 5, 5, 6, 7, 7, 8, 9, 10, 11, 12}

func genSetting(t *rapid.T, label string) Setting {
	switch rapid.IntRange(0, 9).Draw(t, label+"-algo") {
	case 0:
		return Setting{Algo: int(compression.NoAlgorithm)}
	case 1, 2:
		return Setting{Algo: int(compression.Snappy)}
	case 3, 4, 5:
		// the only levels getMinlzCompressor accepts: LevelFastest=1, LevelBalanced=2.
		return Setting{Algo: int(compression.MinLZ), Level: rapid.IntRange(1, 2).Draw(t, label+"-minlz-level")}
	default:
		lv := rapid.SampledFrom(zstdLevels).Draw(t, label+"-zstd-level")
		if rapid.IntRange(0, 29).Draw(t, label+"-rare") == 0 {
			lv = rapid.SampledFrom([]int{0, 15, 19, 22}).Draw(t, label+"-zstd-hi")
		}
		return Setting{Algo: int(compression.Zstd), Level: lv}
	}
}

var builtinProfiles = []string{"Balanced", "Fast", "Good", "ZSTD", "MinLZ", "Fastest", "Snappy", "NoCompression"}

var allKinds = []int{int(blockkind.SSTableData), int(blockkind.SSTableIndex), int(blockkind.SSTableValue),
	int(blockkind.BlobValue), int(blockkind.BlobReferenceValueLivenessIndex), int(blockkind.TieringHistogram),
	int(blockkind.Filter), int(blockkind.RangeDel), int(blockkind.RangeKey), int(blockkind.Metadata)}

func genC28(t *rapid.T) C28Plan {
	p := C28Plan{Mode: rapid.SampledFrom([]string{"profile", "profile", "profile", "profile", "adaptive", "adaptive", "adaptive", "setting", "setting", "setting"}).Draw(t, "mode")}
	maxBlock := 65536
	nblocks := 1
	switch p.Mode {
	case "setting":
		p.Setting = genSetting(t, "s")
		nblocks = rapid.IntRange(1, 3).Draw(t, "nblocks")
		if p.Setting.Algo == int(compression.Zstd) && p.Setting.Level > 12 {
			maxBlock = 4096
		}
	case "adaptive":
		a := AdaptivePlan{Fast: genSetting(t, "fast"), Slow: genSetting(t, "slow")}
		a.CutoffPct = rapid.SampledFrom([]int{0, 1, 5, 15, 30, 50, 90, 100, 150}).Draw(t, "cutoff")
		if rapid.Bool().Draw(t, "typical") {
			// the typical configuration: a weak fast algorithm, zstd as the slow one, a moderate cutoff.
			a.Fast = rapid.SampledFrom([]Setting{{Algo: int(compression.NoAlgorithm)}, {Algo: int(compression.Snappy)},
				{Algo: int(compression.MinLZ), Level: 1}}).Draw(t, "typical-fast")
			a.Slow = Setting{Algo: int(compression.Zstd), Level: rapid.SampledFrom([]int{1, 3, 5, 7}).Draw(t, "typical-slow")}
			a.CutoffPct = rapid.SampledFrom([]int{0, 1, 5, 15, 30}).Draw(t, "typical-cutoff")
		}
		a.SampleEvery = rapid.SampledFrom([]int{1, 2, 3, 10, 100}).Draw(t, "sample_every")
		a.HalfLife = int64(rapid.SampledFrom([]int{1, 100, 4096, 256 << 10}).Draw(t, "half_life"))
		a.Seed = rapid.Uint64().Draw(t, "aseed")
		p.Adaptive = a
		nblocks = rapid.IntRange(1, 12).Draw(t, "nblocks")
		maxBlock = 16384
		if a.Fast.Level > 12 || a.Slow.Level > 12 {
			maxBlock = 2048
		}
	case "profile":
		if rapid.IntRange(0, 9).Draw(t, "builtin") < 7 {
			p.Profile.Name = rapid.SampledFrom(builtinProfiles).Draw(t, "profile")
		} else {
			pr := ProfilePlan{Other: genSetting(t, "other")}
			pr.Data = KindSetting{Setting: genSetting(t, "data")}
			pr.Value = KindSetting{Setting: genSetting(t, "value")}
			if rapid.Bool().Draw(t, "data-adaptive") {
				pr.Data.AdaptivePct = rapid.SampledFrom([]int{1, 15, 30, 80}).Draw(t, "data-pct")
			}
			if rapid.Bool().Draw(t, "value-adaptive") {
				pr.Value.AdaptivePct = rapid.SampledFrom([]int{1, 15, 30, 80}).Draw(t, "value-pct")
			}
			pr.MinRed = rapid.SampledFrom([]int{0, 1, 3, 5, 10, 12, 25, 50, 75, 99, 100}).Draw(t, "minred")
			p.Profile = pr
			for _, s := range []Setting{pr.Other, pr.Data.Setting, pr.Value.Setting} {
				if s.Level > 12 {
					maxBlock = 2048
				}
			}
		}
		p.Checksum = rapid.SampledFrom([]int{int(block.ChecksumTypeCRC32c), int(block.ChecksumTypeXXHash64)}).Draw(t, "checksum")
		p.PadFront = rapid.IntRange(0, 40).Draw(t, "pad")
		nblocks = rapid.IntRange(1, 8).Draw(t, "nblocks")
	}
	for i := 0; i < nblocks; i++ {
		mb := maxBlock
		if i > 0 {
			mb = min(mb, 8192) // one potentially large block per case
		}
		b := BlockPlan{Segs: genSegs(t, mb)}
		switch p.Mode {
		case "profile":
			b.Kind = rapid.SampledFrom(allKinds).Draw(t, "kind")
			b.DontCompress = rapid.IntRange(0, 7).Draw(t, "dontcompress") == 0
		default:
			b.NilDst = rapid.IntRange(0, 3).Draw(t, "nildst") == 0
			if !b.NilDst {
				b.DstLen = rapid.IntRange(0, 40).Draw(t, "dstlen")
				b.DstCap = rapid.SampledFrom([]int{0, 0, 1, 9, 10, 64, 1000, 70000}).Draw(t, "dstcap")
			}
		}
		p.Blocks = append(p.Blocks, b)
	}
	return p
}

// ---------------------------------------------------------------- oracle helpers

// indicator byte values are part of the file format (sstable/block/compression.go:
// "These constants are part of the file format and should not be changed").
func indicatorOf(a compression.Algorithm) byte {
	switch a {
	case compression.NoAlgorithm:
		return 0
	case compression.Snappy:
		return 1
	case compression.Zstd:
		return 7
	case compression.MinLZ:
		return 8
	}
	panic("bad algorithm")
}

func algorithmOfIndicator(b byte) (compression.Algorithm, bool) {
	switch b {
	case 0:
		return compression.NoAlgorithm, true
	case 1:
		return compression.Snappy, true
	case 7:
		return compression.Zstd, true
	case 8:
		return compression.MinLZ, true
	}
	return 0, false
}

// decompressAs follows the documented Decompressor protocol: DecompressedLen,
// then DecompressInto a buffer of exactly that size.
func decompressAs(a compression.Algorithm, compressed []byte) ([]byte, error) {
	d := compression.GetDecompressor(a)
	defer d.Close()
	n, err := d.DecompressedLen(compressed)
	if err != nil {
		return nil, fmt.Errorf("DecompressedLen: %w", err)
	}
	if n < 0 || n > 1<<26 {
		return nil, fmt.Errorf("DecompressedLen returned %d", n)
	}
	buf := make([]byte, n)
	if err := d.DecompressInto(buf, compressed); err != nil {
		return nil, fmt.Errorf("DecompressInto(len %d): %w", n, err)
	}
	return buf, nil
}

func mkDst(b BlockPlan) []byte {
	if b.NilDst {
		return nil
	}
	d := make([]byte, b.DstLen, b.DstLen+b.DstCap)
	for i := range d {
		d[i] = 0xEE
	}
	return d
}

var castagnoli = crc32.MakeTable(crc32.Castagnoli)

// independentChecksum computes the block checksum from the format description
// in sstable/table.go ("checksum is computed over the compressed data and the
// first byte of the trailer") and internal/crc (masked CRC-32C).
func independentChecksum(typ int, data []byte, indicator byte) uint32 {
	switch block.ChecksumType(typ) {
	case block.ChecksumTypeCRC32c:
		c := crc32.Update(0, castagnoli, data)
		c = crc32.Update(c, castagnoli, []byte{indicator})
		return (c>>15 | c<<17) + 0xa282ead8
	case block.ChecksumTypeXXHash64:
		h := xxhash.New()
		h.Write(data)
		h.Write([]byte{indicator})
		return uint32(h.Sum64())
	}
	panic("bad checksum type")
}

func short(b []byte) string {
	if len(b) <= 24 {
		return fmt.Sprintf("%x", b)
	}
	return fmt.Sprintf("%x..(%d bytes)", b[:24], len(b))
}

func firstDiff(a, b []byte) int {
	n := min(len(a), len(b))
	for i := 0; i < n; i++ {
		if a[i] != b[i] {
			return i
		}
	}
	if len(a) != len(b) {
		return n
	}
	return -1
}

// ---------------------------------------------------------------- executor

const sigZstdEmpty = "zstd-empty-input"

func execC28(p C28Plan) (evid.Outcome, error) {
	var out evid.Outcome
	out.Counters = map[string]int{}
	out.Labels = append(out.Labels, "mode="+p.Mode)
	var err error
	switch p.Mode {
	case "setting":
		err = execSetting(p, &out)
	case "adaptive":
		err = execAdaptive(p, &out)
	case "profile":
		err = execProfile(p, &out)
	default:
		panic("bad mode")
	}
	return out, err
}

func noteBlock(out *evid.Outcome, src, compressed []byte, algo compression.Algorithm) {
	out.Counters["blocks"]++
	out.Counters["used="+algo.String()]++
	if len(src) >= 64 && len(compressed) < len(src) && algo != compression.NoAlgorithm {
		out.NonTrivial = true
		out.Counters["blocks_compressed"]++
	}
	switch {
	case len(src) == 0:
		out.Counters["len=0"]++
	case len(src) < 64:
		out.Counters["len<64"]++
	case len(src) <= 4096:
		out.Counters["len<=4K"]++
	case len(src) <= 32768:
		out.Counters["len<=32K"]++
	default:
		out.Counters["len>32K"]++
	}
}

// checkRoundTrip verifies the compression-layer contract for one Compress call.
func checkRoundTrip(what string, src, srcCopy, compressed []byte, used compression.Setting) error {
	if !bytes.Equal(src, srcCopy) {
		return fmt.Errorf("%s: Compress modified its input at byte %d", what, firstDiff(src, srcCopy))
	}
	if used.Algorithm >= compression.NumAlgorithms {
		return fmt.Errorf("%s: Compress returned invalid setting %v", what, used)
	}
	got, err := decompressAs(used.Algorithm, compressed)
	if err != nil {
		return fmt.Errorf("%s: input len %d, recorded setting %s, compressed %s: decompression failed: %v",
			what, len(src), used, short(compressed), err)
	}
	if !bytes.Equal(got, src) {
		return fmt.Errorf("%s: input len %d, recorded setting %s: round trip differs at byte %d (got len %d)",
			what, len(src), used, firstDiff(got, src), len(got))
	}
	return nil
}

func execSetting(p C28Plan, out *evid.Outcome) error {
	s := p.Setting.real()
	out.Labels = append(out.Labels, "algo="+s.Algorithm.String())
	c := compression.GetCompressor(s)
	defer c.Close()
	for i, b := range p.Blocks {
		src := expand(b.Segs)
		if len(src) == 0 && s.Algorithm == compression.Zstd && !p.Demo && evid.FindingActive("C28", sigZstdEmpty) {
			out.Excluded = sigZstdEmpty
			continue
		}
		srcCopy := bytes.Clone(src)
		compressed, used := c.Compress(mkDst(b), src)
		// "An instance is associated with a specific Setting" / "Returns setting used".
		if used != s {
			return fmt.Errorf("block %d: compressor for %s reports setting %s", i, s, used)
		}
		if err := checkRoundTrip(fmt.Sprintf("setting %s block %d", s, i), src, srcCopy, compressed, used); err != nil {
			return err
		}
		noteBlock(out, src, compressed, used.Algorithm)
	}
	if out.Excluded != "" && out.Counters["blocks"] > 0 {
		// at least one block was checked: count the case as checked.
		out.Excluded = ""
	}
	return nil
}

func execAdaptive(p C28Plan, out *evid.Outcome) error {
	a := p.Adaptive
	fast, slow := a.Fast.real(), a.Slow.real()
	ac := compression.NewAdaptiveCompressor(compression.AdaptiveCompressorParams{
		Fast: fast, Slow: slow,
		ReductionCutoff: float64(a.CutoffPct) * 0.01,
		SampleEvery:     a.SampleEvery,
		SampleHalfLife:  a.HalfLife,
		SamplingSeed:    a.Seed,
	})
	defer ac.Close()
	usedFast, usedSlow := false, false
	for i, b := range p.Blocks {
		src := expand(b.Segs)
		if len(src) == 0 && (fast.Algorithm == compression.Zstd || slow.Algorithm == compression.Zstd) &&
			!p.Demo && evid.FindingActive("C28", sigZstdEmpty) {
			continue
		}
		srcCopy := bytes.Clone(src)
		compressed, used := ac.Compress(mkDst(b), src)
		compressed = bytes.Clone(compressed)
		if used != fast && used != slow {
			return fmt.Errorf("block %d: adaptive(fast=%s, slow=%s) reports setting %s", i, fast, slow, used)
		}
		what := fmt.Sprintf("adaptive(fast=%s, slow=%s) block %d", fast, slow, i)
		if err := checkRoundTrip(what, src, srcCopy, compressed, used); err != nil {
			return err
		}
		// The recorded setting must be the one that produced the bytes: all
		// supported algorithms are deterministic functions of (setting, input).
		ref := compression.GetCompressor(used)
		want, _ := ref.Compress(nil, src)
		same := bytes.Equal(want, compressed)
		ref.Close()
		if !same {
			return fmt.Errorf("%s: recorded setting %s but the output (len %d) is not what that setting produces (len %d)",
				what, used, len(compressed), len(want))
		}
		if used == fast {
			usedFast = true
		}
		if used == slow {
			usedSlow = true
		}
		noteBlock(out, src, compressed, used.Algorithm)
	}
	if fast != slow {
		switch {
		case usedFast && usedSlow:
			out.Labels = append(out.Labels, "adaptive-used=both")
		case usedFast:
			out.Labels = append(out.Labels, "adaptive-used=fast")
		case usedSlow:
			out.Labels = append(out.Labels, "adaptive-used=slow")
		}
	} else {
		out.Labels = append(out.Labels, "adaptive-fast==slow")
	}
	return nil
}

func (pp ProfilePlan) real() *block.CompressionProfile {
	if pp.Name != "" {
		pr := block.CompressionProfileByName(pp.Name)
		if pr == nil {
			panic("unknown profile " + pp.Name)
		}
		return pr
	}
	return &block.CompressionProfile{
		Name:                "custom",
		DataBlocks:          block.CompressionSetting{Setting: pp.Data.real(), AdaptiveReductionCutoffPercent: uint8(pp.Data.AdaptivePct)},
		ValueBlocks:         block.CompressionSetting{Setting: pp.Value.real(), AdaptiveReductionCutoffPercent: uint8(pp.Value.AdaptivePct)},
		OtherBlocks:         pp.Other.real(),
		MinReductionPercent: uint8(pp.MinRed),
	}
}

// settingForKind restates the documented mapping of CompressionProfile fields
// to block kinds (sstable/block/compression.go, CompressionProfile doc).
func settingForKind(pr *block.CompressionProfile, k blockkind.Kind) (s compression.Setting, adaptive bool) {
	switch k {
	case blockkind.SSTableData:
		return pr.DataBlocks.Setting, pr.DataBlocks.AdaptiveReductionCutoffPercent != 0 && pr.DataBlocks.Setting != pr.OtherBlocks
	case blockkind.SSTableValue, blockkind.BlobValue:
		return pr.ValueBlocks.Setting, pr.ValueBlocks.AdaptiveReductionCutoffPercent != 0 && pr.ValueBlocks.Setting != pr.OtherBlocks
	default:
		return pr.OtherBlocks, false
	}
}

func execProfile(p C28Plan, out *evid.Outcome) error {
	pr := p.Profile.real()
	out.Labels = append(out.Labels, "profile="+pr.Name)
	var maker block.PhysicalBlockMaker
	maker.Init(pr, block.ChecksumType(p.Checksum), nil)
	defer maker.Close()

	obj := &objstorage.MemObj{}
	if p.PadFront > 0 {
		if err := obj.Write(bytes.Repeat([]byte{0x5A}, p.PadFront)); err != nil {
			return err
		}
	}
	type written struct {
		h    block.Handle
		data []byte
		kind blockkind.Kind
	}
	var ws []written
	off := uint64(p.PadFront)
	for i, b := range p.Blocks {
		src := expand(b.Segs)
		srcCopy := bytes.Clone(src)
		kind := blockkind.Kind(b.Kind)
		flags := block.NoFlags
		if b.DontCompress {
			flags = block.DontCompress
		}
		pb := maker.Make(src, kind, flags)
		n := pb.LengthWithoutTrailer()
		length, err := block.WriteAndReleasePhysicalBlock(pb.Take(), obj)
		if err != nil {
			return fmt.Errorf("write: %v", err)
		}
		if length.WithTrailer() != n+block.TrailerLen {
			return fmt.Errorf("block %d: physical length %d but %d+trailer written", i, length.WithTrailer(), n)
		}
		if !bytes.Equal(src, srcCopy) {
			return fmt.Errorf("block %d: Make modified its input", i)
		}
		phys := obj.Data()[off : off+uint64(n)+block.TrailerLen]
		stored, trailer := phys[:n], phys[n:]
		ind := trailer[0]
		what := fmt.Sprintf("profile %s kind %s block %d (len %d, stored %d, indicator %d)", pr.Name, kind, i, len(src), n, ind)

		// checksum over stored bytes + indicator, little endian.
		if got, want := binary.LittleEndian.Uint32(trailer[1:]), independentChecksum(p.Checksum, stored, ind); got != want {
			return fmt.Errorf("%s: trailer checksum %08x, independently computed %08x", what, got, want)
		}
		algo, ok := algorithmOfIndicator(ind)
		if !ok {
			return fmt.Errorf("%s: unknown compression indicator", what)
		}
		setting, adaptive := settingForKind(pr, kind)
		minRed := int64(pr.MinReductionPercent)
		switch {
		case b.DontCompress:
			if ind != 0 || !bytes.Equal(stored, src) {
				return fmt.Errorf("%s: DontCompress block not stored raw", what)
			}
		case adaptive:
			if algo != compression.NoAlgorithm && algo != setting.Algorithm && algo != pr.OtherBlocks.Algorithm {
				return fmt.Errorf("%s: indicator is neither of the adaptive pair (%s,%s)", what, setting, pr.OtherBlocks)
			}
			if algo == compression.NoAlgorithm {
				if !bytes.Equal(stored, src) {
					return fmt.Errorf("%s: indicator none but stored bytes differ from the input at %d", what, firstDiff(stored, src))
				}
			} else if int64(n)*100 > int64(len(src))*(100-minRed) {
				return fmt.Errorf("%s: stored compressed although reduction < MinReductionPercent=%d", what, minRed)
			}
		default:
			// Independent decision: compress with the plain compressor of the
			// documented setting and apply the documented MinReductionPercent rule.
			c := compression.GetCompressor(setting)
			ref, _ := c.Compress(nil, src)
			refLen := int64(len(ref))
			refCopy := bytes.Clone(ref)
			c.Close()
			wantRaw := setting.Algorithm == compression.NoAlgorithm || refLen*100 > int64(len(src))*(100-minRed)
			if wantRaw {
				if ind != 0 {
					return fmt.Errorf("%s: expected stored uncompressed (setting %s gives %d bytes, MinReductionPercent=%d)", what, setting, refLen, minRed)
				}
				if !bytes.Equal(stored, src) {
					return fmt.Errorf("%s: indicator none but stored bytes differ from the input at %d", what, firstDiff(stored, src))
				}
			} else {
				if ind != indicatorOf(setting.Algorithm) {
					return fmt.Errorf("%s: expected indicator %d for setting %s (compresses to %d, MinReductionPercent=%d)",
						what, indicatorOf(setting.Algorithm), setting, refLen, minRed)
				}
				if !bytes.Equal(stored, refCopy) {
					return fmt.Errorf("%s: stored bytes differ from what setting %s produces", what, setting)
				}
			}
		}
		// decode with the recorded algorithm directly (independent of block.Reader).
		if algo != compression.NoAlgorithm {
			got, err := decompressAs(algo, stored)
			if err != nil {
				return fmt.Errorf("%s: stored bytes do not decompress with the recorded algorithm: %v", what, err)
			}
			if !bytes.Equal(got, src) {
				return fmt.Errorf("%s: stored bytes decompress to different data (first diff %d)", what, firstDiff(got, src))
			}
		}
		ws = append(ws, written{h: block.Handle{Offset: off, Length: uint64(n)}, data: src, kind: kind})
		off += uint64(n) + block.TrailerLen
		noteBlock(out, src, stored, algo)
		if !b.DontCompress && ind == 0 && setting.Algorithm != compression.NoAlgorithm && len(src) > 0 {
			out.Counters["stored_raw_by_min_reduction"]++
		}
		if adaptive {
			out.Counters["adaptive_kind_blocks"]++
		}
	}
	if int64(off) != obj.Size() {
		return fmt.Errorf("file size %d, sum of physical blocks %d", obj.Size(), off)
	}

	// read everything back through block.Reader (checksum validation + decompression).
	var r block.Reader
	r.Init(obj, block.ReaderOptions{LoggerAndTracer: base.NoopLoggerAndTracer{}}, block.ChecksumType(p.Checksum))
	noInit := func(*block.Metadata, []byte) error { return nil }
	// read in reverse order too, so that reads are not sequential.
	for pass := 0; pass < 2; pass++ {
		for j := range ws {
			w := ws[j]
			if pass == 1 {
				w = ws[len(ws)-1-j]
			}
			bh, err := r.Read(context.Background(), block.NoReadEnv, nil, w.h, w.kind, noInit)
			if err != nil {
				return fmt.Errorf("profile %s: block.Reader.Read(%v kind %s, len %d) failed: %v", pr.Name, w.h, w.kind, len(w.data), err)
			}
			got := bytes.Clone(bh.BlockData())
			bh.Release()
			if !bytes.Equal(got, w.data) {
				return fmt.Errorf("profile %s: block.Reader.Read(%v kind %s) returned different data: len %d vs %d, first diff %d",
					pr.Name, w.h, w.kind, len(got), len(w.data), firstDiff(got, w.data))
			}
		}
	}
	return nil
}

func TestC28(t *testing.T) {
	evid.Run(t, evid.Spec[C28Plan]{
		ID: "C28", Level: "exploration",
		Rule: "rapid draws a mode (plain compression.Setting incl. every zstd level 0-12,15,19,22 and both minlz levels | AdaptiveCompressor with drawn " +
			"fast/slow/cutoff/sampling params over a block sequence | block.PhysicalBlockMaker+block.Reader with every built-in CompressionProfile or a drawn " +
			"custom one, all block kinds, both checksum types) and 1-12 byte strings of 0-64 KiB built from segments (random, zeros, periodic, text, low-entropy, runs, literal, " +
			"near-power-of-two lengths); non-trivial = some block of >=64 bytes was stored compressed (output < input); distinct = hash of the plan JSON",
		Assumptions: []string{
			"snappy, minlz and zstd are deterministic functions of (setting, input) within one process (used to verify that the setting recorded by the adaptive compressor / the block layer is the one that produced the bytes)",
			"block-layer adaptive compressors are seeded from the global math/rand by pebble (block/compressor.go); the oracle accepts either algorithm of the pair, so the verdict does not depend on that seed",
		},
		Gen: genC28, Exec: execC28, Quick: 3000, Thorough: 50000,
		Known: []evid.Known[C28Plan]{{Signature: sigZstdEmpty, Plan: C28Plan{Mode: "setting", Demo: true,
			Setting: Setting{Algo: int(compression.Zstd), Level: 3}, Blocks: []BlockPlan{{Segs: []Seg{{Kind: "zero", Len: 0}}, NilDst: true}}}}},
		Sample: func(p C28Plan) any {
			lens := []int{}
			for _, b := range p.Blocks {
				lens = append(lens, len(expand(b.Segs)))
			}
			return map[string]any{"mode": p.Mode, "setting": p.Setting, "adaptive": p.Adaptive, "profile": p.Profile, "block_lens": lens}
		},
	})
}
