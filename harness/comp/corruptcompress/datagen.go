// Package corruptcompress holds the checks for C27 (corrupted table/blob files
// never yield wrong data) and C28 (compression round-trips).
package corruptcompress

import (
	"pgregory.net/rapid"
)

// Seg is a recipe for a run of bytes. It is plain data; expand() turns it into
// bytes deterministically (own PRNG seeded from a drawn seed, never the global
// RNG).
type Seg struct {
	Kind string `json:"k"`           // rand|zero|rep|text|lowent|runs|raw
	Len  int    `json:"n"`           // number of bytes produced (ignored for raw)
	Seed uint64 `json:"s,omitempty"` // PRNG seed for rand/text/lowent/runs
	Data []byte `json:"d,omitempty"` // pattern for rep, literal bytes for raw
}

type splitmix struct{ x uint64 }

func (s *splitmix) next() uint64 {
	s.x += 0x9e3779b97f4a7c15
	z := s.x
	z = (z ^ (z >> 30)) * 0xbf58476d1ce4e5b9
	z = (z ^ (z >> 27)) * 0x94d049bb133111eb
	return z ^ (z >> 31)
}

var words = []string{"the", "pebble", "block", "value", "key", "sstable", "index", "lorem", "ipsum", "compaction",
	"0123456789", "aaaaaaaa", "range", "delete", "cockroach", "zstd", "snappy", "minlz", "x", "yy"}

func (g Seg) appendTo(dst []byte) []byte {
	rng := splitmix{x: g.Seed}
	switch g.Kind {
	case "raw":
		return append(dst, g.Data...)
	case "zero":
		for i := 0; i < g.Len; i++ {
			dst = append(dst, 0)
		}
	case "rand":
		for i := 0; i < g.Len; {
			v := rng.next()
			for j := 0; j < 8 && i < g.Len; j, i = j+1, i+1 {
				dst = append(dst, byte(v))
				v >>= 8
			}
		}
	case "lowent":
		alpha := [4]byte{'a', 'c', 'g', 't'}
		for i := 0; i < g.Len; {
			v := rng.next()
			for j := 0; j < 32 && i < g.Len; j, i = j+1, i+1 {
				dst = append(dst, alpha[v&3])
				v >>= 2
			}
		}
	case "rep":
		pat := g.Data
		if len(pat) == 0 {
			pat = []byte{0xAB}
		}
		for i := 0; i < g.Len; i++ {
			dst = append(dst, pat[i%len(pat)])
		}
	case "text":
		start := len(dst)
		for len(dst)-start < g.Len {
			w := words[rng.next()%uint64(len(words))]
			dst = append(dst, w...)
			dst = append(dst, ' ')
		}
		dst = dst[:start+g.Len]
	case "runs":
		start := len(dst)
		for len(dst)-start < g.Len {
			v := rng.next()
			b, n := byte(v), int(v>>8)%40+1
			for ; n > 0; n-- {
				dst = append(dst, b)
			}
		}
		dst = dst[:start+g.Len]
	default:
		panic("bad seg kind " + g.Kind)
	}
	return dst
}

func expand(segs []Seg) []byte {
	out := []byte{}
	for _, s := range segs {
		out = s.appendTo(out)
	}
	return out
}

var segKinds = []string{"rand", "rand", "zero", "rep", "rep", "text", "text", "lowent", "lowent", "runs", "runs", "raw"}

func genSeg(t *rapid.T, maxLen int) Seg {
	s := Seg{Kind: rapid.SampledFrom(segKinds).Draw(t, "segkind")}
	switch s.Kind {
	case "raw":
		s.Data = rapid.SliceOfN(rapid.Byte(), 0, min(maxLen, 96)).Draw(t, "raw")
		s.Len = len(s.Data)
		return s
	case "rep":
		s.Data = rapid.SliceOfN(rapid.Byte(), 1, 24).Draw(t, "pattern")
	case "rand", "text", "lowent", "runs":
		s.Seed = rapid.Uint64().Draw(t, "seed")
	}
	s.Len = genLen(t, maxLen)
	return s
}

// genLen draws a length in [0,maxLen] biased to small values and to sizes near
// powers of two / the limit.
func genLen(t *rapid.T, maxLen int) int {
	if maxLen <= 0 {
		return 0
	}
	// NB: rapid favours small draws, so the common classes come first.
	switch rapid.IntRange(0, 9).Draw(t, "lenclass") {
	case 0, 1, 2, 3:
		return rapid.IntRange(0, min(8192, maxLen)).Draw(t, "len")
	case 4, 5:
		return rapid.IntRange(0, min(512, maxLen)).Draw(t, "len")
	case 6:
		return rapid.IntRange(0, maxLen).Draw(t, "len")
	case 7:
		// near a power of two
		p := 1 << rapid.IntRange(4, 16).Draw(t, "pow")
		n := p + rapid.IntRange(-2, 2).Draw(t, "delta")
		return max(0, min(n, maxLen))
	case 8:
		return max(0, maxLen-rapid.IntRange(0, 3).Draw(t, "fromlimit"))
	default:
		return rapid.IntRange(0, min(8, maxLen)).Draw(t, "len")
	}
}

// genSegs draws 1..3 segments whose total length is at most maxTotal.
func genSegs(t *rapid.T, maxTotal int) []Seg {
	n := rapid.SampledFrom([]int{1, 1, 1, 2, 2, 3}).Draw(t, "nsegs")
	var segs []Seg
	rem := maxTotal
	for i := 0; i < n; i++ {
		s := genSeg(t, rem)
		segs = append(segs, s)
		rem -= s.Len
		if rem <= 0 {
			break
		}
	}
	return segs
}
