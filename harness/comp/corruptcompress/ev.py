import json,sys
e=json.load(open('/verif/evidence/%s.json'%sys.argv[1]))
c=e['coverage']
print('wall',round(e['wall_s'],1),'evals',c['evaluations'],'nontrivial',c['nontrivial_evaluated'],'distinct',c['distinct_nontrivial'],'excluded',c['excluded_known'],'violations',e['violations'])
n=c['evaluations']
for k,v in sorted(c['labels'].items()): print('  L %-40s %6d %5.1f%%'%(k,v,100.0*v/n))
for k,v in sorted(c['counters'].items()): print('  C %-50s %8d'%(k,v))
