#!/bin/sh
# usage: mut.sh <check-id> <file-relative-to-repo> <python-expr-old> <python-expr-new>
# applies one textual mutation in the scratch copy, runs the quick tier, restores the file.
ID=$1; F=$2; OLD=$3; NEW=$4
R=/var/tmp/mut/corruptcompress/r
python3 - "$R/$F" "$OLD" "$NEW" <<'PY' || exit 3
import sys
p,old,new=sys.argv[1:4]
s=open(p).read()
if s.count(old)!=1:
    print("mutation site count =",s.count(old)); sys.exit(1)
open(p,'w').write(s.replace(old,new))
PY
cd /verif
export VERIF_REPO=$R VERIF_CHECKS_JSON=/verif/harness/comp/corruptcompress/checks.local.json VERIF_KNOWN_FINDINGS=/verif/harness/comp/corruptcompress/known.local.jsonl
start=$(date +%s)
./check $ID > /tmp/mut_corruptcompress.out 2>&1; rc=$?
end=$(date +%s)
grep -v "rapid\] draw" /tmp/mut_corruptcompress.out | grep -E "built|VIOLATION|detail|failed after|exit=|INCONCLUSIVE" | cut -c1-400 | head -8
echo "exit=$rc elapsed=$((end-start))s"
cp /repo/$F $R/$F
rm -f /verif/replays/$ID/fail-*
