#!/bin/sh
# usage: run.sh [known] <check args...>   (development helper)
cd /verif
export VERIF_CHECKS_JSON=/verif/harness/comp/corruptcompress/checks.local.json
if [ "$1" = "known" ]; then shift; export VERIF_KNOWN_FINDINGS=/verif/harness/comp/corruptcompress/known.local.jsonl; fi
exec ./check "$@"
