// Package filters: C26 — table filters never produce false negatives.
package filters

import (
	"fmt"
	"testing"

	"github.com/cockroachdb/pebble/internal/base"
	"github.com/cockroachdb/pebble/sstable/tablefilters"
	"github.com/cockroachdb/pebble/sstable/tablefilters/binaryfuse"
	"github.com/cockroachdb/pebble/sstable/tablefilters/bloom"
	"github.com/cockroachdb/pebble/verifharness/evid"
	"pgregory.net/rapid"
)

// Plan is a key set plus a filter policy.
type Plan struct {
	Policy string   `json:"policy"` // name understood by policyOf
	Bits   int      `json:"bits"`
	Max    uint64   `json:"max,omitempty"`
	Keys   [][]byte `json:"keys"`
}

func policyOf(p Plan) base.TableFilterPolicy {
	switch p.Policy {
	case "bloom":
		return bloom.FilterPolicy(uint32(p.Bits))
	case "adaptive":
		return bloom.AdaptivePolicy(uint32(p.Bits), p.Max)
	case "fuse":
		return binaryfuse.FilterPolicy(p.Bits)
	}
	panic("bad policy")
}

func genKeys(t *rapid.T) [][]byte {
	n := rapid.OneOf(rapid.IntRange(0, 8), rapid.IntRange(9, 300), rapid.IntRange(301, 5000)).Draw(t, "n")
	shape := rapid.IntRange(0, 3).Draw(t, "shape")
	keys := make([][]byte, 0, n)
	base := rapid.SliceOfN(rapid.Byte(), 0, 12).Draw(t, "base")
	for i := 0; i < n; i++ {
		var k []byte
		switch shape {
		case 0: // shared prefix + counter (keys differing in the last bits)
			k = append(append([]byte{}, base...), byte(i>>16), byte(i>>8), byte(i))
		case 1: // random short keys: many duplicates
			k = rapid.SliceOfN(rapid.ByteRange('a', 'd'), 0, 3).Draw(t, "k")
		case 2: // random keys
			k = rapid.SliceOfN(rapid.Byte(), 0, 24).Draw(t, "k")
		default: // counter then shared suffix
			k = append([]byte{byte(i), byte(i >> 8)}, base...)
		}
		keys = append(keys, k)
	}
	return keys
}

func gen(t *rapid.T) Plan {
	p := Plan{Policy: rapid.SampledFrom([]string{"bloom", "adaptive", "fuse"}).Draw(t, "policy")}
	switch p.Policy {
	case "bloom":
		p.Bits = rapid.IntRange(1, 20).Draw(t, "bits")
	case "adaptive":
		p.Bits = rapid.IntRange(1, 20).Draw(t, "bits")
		p.Max = uint64(rapid.SampledFrom([]int{1, 64, 100, 512, 4096, 1 << 20}).Draw(t, "max"))
	case "fuse":
		p.Bits = rapid.SampledFrom(binaryfuse.SupportedBitsPerFingerprint).Draw(t, "bits")
	}
	p.Keys = genKeys(t)
	return p
}

func exec(p Plan) (evid.Outcome, error) {
	var out evid.Outcome
	w := policyOf(p).NewWriter()
	distinct := map[string]struct{}{}
	for _, k := range p.Keys {
		w.AddKey(k)
		distinct[string(k)] = struct{}{}
	}
	data, family, ok := w.Finish()
	out.Labels = append(out.Labels, "policy="+p.Policy)
	if !ok {
		// No filter is written: lookups fall through to the table; nothing to check.
		out.Labels = append(out.Labels, "finish-not-ok")
		return out, nil
	}
	var dec base.TableFilterDecoder
	for _, d := range tablefilters.Decoders {
		if d.Family() == family {
			dec = d
		}
	}
	if dec == nil {
		return out, fmt.Errorf("no decoder for family %q", family)
	}
	for _, k := range p.Keys {
		if !dec.MayContain(data, k) {
			return out, fmt.Errorf("false negative: policy=%s bits=%d n=%d key=%x", p.Policy, p.Bits, len(p.Keys), k)
		}
	}
	out.NonTrivial = len(distinct) >= 100
	if len(distinct) < len(p.Keys) {
		out.Labels = append(out.Labels, "has-duplicates")
	}
	return out, nil
}

func TestC26(t *testing.T) {
	evid.Run(t, evid.Spec[Plan]{
		ID: "C26", Level: "exploration",
		Rule: "rapid draws (policy, parameters, key set of 0-5000 keys in four shapes incl. duplicates and shared prefixes); " +
			"non-trivial = Finish produced a filter over >=100 distinct keys; distinct = hash of the plan JSON",
		Assumptions: []string{"the decoder for the family returned by Finish is the one registered in tablefilters.Decoders"},
		Gen:         gen, Exec: exec, Quick: 400, Thorough: 5000,
		Sample: func(p Plan) any {
			return map[string]any{"policy": p.Policy, "bits": p.Bits, "max": p.Max, "nkeys": len(p.Keys), "first_keys": p.Keys[:min(3, len(p.Keys))]}
		},
	})
}
