// Package filters: C26 — table filters never produce false negatives.
package filters

import (
	"bytes"
	"context"
	"fmt"
	"sort"
	"testing"

	"github.com/cockroachdb/pebble/objstorage"
	"github.com/cockroachdb/pebble/sstable"
	"github.com/cockroachdb/pebble/internal/base"
	"github.com/cockroachdb/pebble/sstable/tablefilters"
	"github.com/cockroachdb/pebble/sstable/tablefilters/binaryfuse"
	"github.com/cockroachdb/pebble/sstable/tablefilters/bloom"
	"github.com/cockroachdb/pebble/verifharness/evid"
	"pgregory.net/rapid"
)

// Plan is a filter policy plus a compact description of a key set (the keys are
// a pure function of N, Shape, Base and Seed, so that sets of tens of
// thousands of keys - filters are built block-wise from 8192 / 16384 key hashes
// - do not have to be spelled out in the plan).
type Plan struct {
	Policy string `json:"policy"` // name understood by policyOf
	Bits   int    `json:"bits"`
	Max    uint64 `json:"max,omitempty"`
	N      int    `json:"n"`
	Shape  int    `json:"shape"`
	Base   []byte `json:"base,omitempty"`
	Seed   uint64 `json:"seed"`
	// Dup repeats every Dup-th key immediately (consecutive duplicates are
	// de-duplicated by the hash collectors); 0 = none.
	Dup int `json:"dup,omitempty"`
	// Table: additionally build an sstable with this filter policy and look every
	// key up with SeekPrefixGE through the table's filter.
	Table bool `json:"table,omitempty"`
}

func policyOf(p Plan) base.TableFilterPolicy {
	switch p.Policy {
	case "bloom":
		return bloom.FilterPolicy(uint32(p.Bits))
	case "adaptive":
		return bloom.AdaptivePolicy(uint32(p.Bits), p.Max)
	case "fuse":
		return binaryfuse.FilterPolicy(p.Bits)
	}
	panic("bad policy")
}

// sizes around which filter construction changes behaviour: powers of two and
// multiples of the hash-collector block lengths, each -1/0/+1.
func genN(t *rapid.T) int {
	switch rapid.IntRange(0, 9).Draw(t, "nclass") {
	case 0:
		return rapid.IntRange(0, 8).Draw(t, "n")
	case 1, 2, 3:
		return rapid.IntRange(9, 300).Draw(t, "n")
	case 4, 5, 6:
		return rapid.IntRange(301, 5000).Draw(t, "n")
	case 7:
		k := rapid.IntRange(3, 15).Draw(t, "pow")
		return (1 << k) + rapid.IntRange(-1, 1).Draw(t, "d")
	default:
		b := rapid.SampledFrom([]int{64, 512, 4096, 8192, 16384}).Draw(t, "blk")
		m := rapid.IntRange(1, 4).Draw(t, "mult")
		n := b*m + rapid.IntRange(-1, 1).Draw(t, "d")
		if n > 40000 {
			n = b + rapid.IntRange(-1, 1).Draw(t, "d2")
		}
		return n
	}
}

// keysOf materializes the key set of a plan.
func keysOf(p Plan) [][]byte {
	keys := make([][]byte, 0, p.N+p.N/max(1, p.Dup)+1)
	x := p.Seed*2862933555777941757 + 3037000493
	next := func() uint64 {
		x ^= x << 13
		x ^= x >> 7
		x ^= x << 17
		return x
	}
	for i := 0; i < p.N; i++ {
		var k []byte
		switch p.Shape {
		case 0: // shared prefix + counter (keys differing in the last bits): all distinct
			k = append(append([]byte{}, p.Base...), byte(i>>16), byte(i>>8), byte(i))
		case 1: // short keys over a tiny alphabet: many duplicates
			l := int(next() % 4)
			for j := 0; j < l; j++ {
				k = append(k, byte('a'+next()%4))
			}
		case 2: // pseudo-random keys of 0-24 bytes
			l := int(next() % 25)
			for j := 0; j < l; j++ {
				k = append(k, byte(next()))
			}
		default: // counter then shared suffix: all distinct
			k = append([]byte{byte(i), byte(i >> 8), byte(i >> 16)}, p.Base...)
		}
		keys = append(keys, k)
		if p.Dup > 0 && i%p.Dup == 0 {
			keys = append(keys, k)
		}
	}
	return keys
}

func gen(t *rapid.T) Plan {
	p := Plan{Policy: rapid.SampledFrom([]string{"bloom", "adaptive", "fuse"}).Draw(t, "policy")}
	switch p.Policy {
	case "bloom":
		p.Bits = rapid.IntRange(1, 20).Draw(t, "bits")
	case "adaptive":
		p.Bits = rapid.IntRange(1, 20).Draw(t, "bits")
		p.Max = uint64(rapid.SampledFrom([]int{1, 64, 100, 512, 4096, 1 << 20}).Draw(t, "max"))
	case "fuse":
		p.Bits = rapid.SampledFrom(binaryfuse.SupportedBitsPerFingerprint).Draw(t, "bits")
	}
	p.N = genN(t)
	p.Shape = rapid.SampledFrom([]int{0, 0, 1, 2, 3}).Draw(t, "shape")
	p.Base = rapid.SliceOfN(rapid.Byte(), 0, 12).Draw(t, "base")
	p.Seed = rapid.Uint64().Draw(t, "seed")
	if rapid.IntRange(0, 3).Draw(t, "dupon") == 0 {
		p.Dup = rapid.IntRange(1, 7).Draw(t, "dup")
	}
	p.Table = p.N <= 20000 && rapid.IntRange(0, 4).Draw(t, "table") == 0
	return p
}

// tableLookups builds an sstable over the (sorted, distinct) keys with the
// plan's filter policy and looks every key up through the filter.
func tableLookups(p Plan, keys [][]byte) (int, error) {
	sorted := make([][]byte, len(keys))
	copy(sorted, keys)
	sort.Slice(sorted, func(i, j int) bool { return bytes.Compare(sorted[i], sorted[j]) < 0 })
	obj := &objstorage.MemObj{}
	w := sstable.NewWriter(obj, sstable.WriterOptions{FilterPolicy: policyOf(p), BlockSize: 512, TableFormat: sstable.TableFormatMax})
	var prev []byte
	n := 0
	for i, k := range sorted {
		if i > 0 && bytes.Equal(prev, k) {
			continue
		}
		if err := w.Set(k, []byte("v")); err != nil {
			return 0, fmt.Errorf("table writer: %v", err)
		}
		prev = k
		n++
	}
	if err := w.Close(); err != nil {
		return 0, fmt.Errorf("table writer close: %v", err)
	}
	r, err := sstable.NewReader(context.Background(), obj, sstable.ReaderOptions{FilterDecoders: tablefilters.Decoders})
	if err != nil {
		return 0, fmt.Errorf("NewReader: %v", err)
	}
	defer r.Close()
	it, err := r.NewPointIter(context.Background(), sstable.IterOptions{FilterBlockSizeLimit: sstable.AlwaysUseFilterBlock,
		Env: sstable.NoReadEnv, ReaderProvider: sstable.MakeTrivialReaderProvider(r), BlobContext: sstable.AssertNoBlobHandles})
	if err != nil {
		return 0, fmt.Errorf("NewPointIter: %v", err)
	}
	defer it.Close()
	prev = nil
	for i, k := range sorted {
		if i > 0 && bytes.Equal(prev, k) {
			continue
		}
		prev = k
		kv := it.SeekPrefixGE(k, k, base.SeekGEFlagsNone)
		if kv == nil || !bytes.Equal(kv.K.UserKey, k) {
			return n, fmt.Errorf("table level: SeekPrefixGE(%x) through the %s filter does not find the key that is in the table (n=%d distinct keys; iterator error %v)", k, p.Policy, n, it.Error())
		}
	}
	return n, nil
}

func exec(p Plan) (evid.Outcome, error) {
	var out evid.Outcome
	keys := keysOf(p)
	w := policyOf(p).NewWriter()
	distinct := map[string]struct{}{}
	for _, k := range keys {
		w.AddKey(k)
		distinct[string(k)] = struct{}{}
	}
	data, family, ok := w.Finish()
	out.Labels = append(out.Labels, "policy="+p.Policy)
	nd := len(distinct)
	switch {
	case nd >= 16384:
		out.Labels = append(out.Labels, "distinct>=16384")
	case nd >= 8192:
		out.Labels = append(out.Labels, "distinct>=8192")
	case nd >= 1000:
		out.Labels = append(out.Labels, "distinct>=1000")
	}
	if nd > 0 && (nd%8192 == 0 || nd%4096 == 0) {
		out.Labels = append(out.Labels, "distinct-multiple-of-4096")
	}
	if nd < len(keys) {
		out.Labels = append(out.Labels, "has-duplicates")
	}
	if !ok {
		// No filter is written: lookups fall through to the table; nothing to check
		// at the filter level.
		out.Labels = append(out.Labels, "finish-not-ok")
	} else {
		var dec base.TableFilterDecoder
		for _, d := range tablefilters.Decoders {
			if d.Family() == family {
				dec = d
			}
		}
		if dec == nil {
			return out, fmt.Errorf("no decoder for family %q", family)
		}
		for _, k := range keys {
			if !dec.MayContain(data, k) {
				return out, fmt.Errorf("false negative: policy=%s bits=%d keys added=%d distinct=%d key=%x", p.Policy, p.Bits, len(keys), nd, k)
			}
		}
	}
	if p.Table {
		out.Labels = append(out.Labels, "table-level")
		if _, err := tableLookups(p, keys); err != nil {
			return out, err
		}
	}
	out.NonTrivial = nd >= 100 && (ok || p.Table)
	return out, nil
}

func TestC26(t *testing.T) {
	evid.Run(t, evid.Spec[Plan]{
		ID: "C26", Level: "exploration",
		Rule: "rapid draws (policy, parameters, key-set description: size 0-40000 biased to powers of two and multiples of 64/512/4096/8192/16384 (-1/0/+1), four shapes incl. consecutive and scattered duplicates and shared prefixes); every added key must be reported by MayContain; one case in five additionally builds an sstable with the policy and finds every key with SeekPrefixGE through the filter block; " +
			"non-trivial = a filter (or table) over >=100 distinct keys was checked; distinct = hash of the plan JSON",
		Assumptions: []string{"the decoder for the family returned by Finish is the one registered in tablefilters.Decoders"},
		Gen:         gen, Exec: exec, Quick: 400, Thorough: 5000,
		Sample: func(p Plan) any {
			return p
		},
	})
}
