// Package keyspanfrag: C32 — span fragmentation preserves coverage exactly.
//
// A plan is a small universe of boundary keys, 1-4 "levels" of overlapping
// spans and a pipeline description. Exec pushes every level through
// keyspan.Fragmenter, optionally keyspan.Truncate, combines the levels with
// keyspanimpl.MergingIter (with a transformer), stacks Truncate /
// DefragmentingIter / an invalidating wrapper on top, and compares
//
//	(1) the per-user-key coverage of every stage's output, evaluated at every
//	    universe key and at a key between each two neighbours, with the
//	    coverage computed directly from the input spans, and
//	(2) every span returned by full scans and by a random sequence of
//	    positioning operations with an independent list model (model_test.go).
package keyspanfrag

import (
	"fmt"
	"sort"
	"strings"
	"testing"

	"github.com/cockroachdb/pebble/internal/base"
	"github.com/cockroachdb/pebble/internal/keyspan"
	"github.com/cockroachdb/pebble/internal/keyspan/keyspanimpl"
	"github.com/cockroachdb/pebble/verifharness/evid"
	"pgregory.net/rapid"
)

// ---------------------------------------------------------------- plan

// KeyP is one key of a span.
type KeyP struct {
	Seq    uint64 `json:"seq"`
	Kind   int    `json:"kind"` // numeric base.InternalKeyKind: 15, 19, 20, 21
	Suffix string `json:"suffix,omitempty"`
	Value  string `json:"value,omitempty"`
}

// SpanP is an input span [Universe[S], Universe[E]) with 1-3 keys sorted by
// trailer descending.
type SpanP struct {
	S    int    `json:"s"`
	E    int    `json:"e"`
	Keys []KeyP `json:"keys"`
}

// BoundsP are truncation bounds given as probe positions (see probeKeys):
// position 0 is a key before the universe, 2i+1 is Universe[i], 2i+2 is the
// immediate successor of Universe[i].
type BoundsP struct {
	Lo        int  `json:"lo"`
	Hi        int  `json:"hi"`
	Inclusive bool `json:"inclusive,omitempty"` // ask for an inclusive end bound (used only if its precondition holds)
}

// LevelP is one input level: a set of possibly overlapping spans.
type LevelP struct {
	Spans      []SpanP  `json:"spans"`
	Trunc      *BoundsP `json:"trunc,omitempty"`
	Invalidate bool     `json:"invalidate,omitempty"` // wrap the level iterator in keyspan.NewInvalidatingIter
}

// StageP is one iterator stacked on top of the base iterator.
type StageP struct {
	Kind   string   `json:"kind"` // trunc | defrag | inval
	Bounds *BoundsP `json:"bounds,omitempty"`
	Method string   `json:"method,omitempty"` // defrag: internal | multiset
}

// OpP is one positioning operation; Key is a probe position for seeks.
type OpP struct {
	Op  int `json:"op"` // 0 First 1 Last 2 SeekGE 3 SeekLT 4 Next 5 Prev
	Key int `json:"key,omitempty"`
}

// Plan is the whole case.
type Plan struct {
	Universe []string `json:"universe"` // sorted, distinct, non-empty keys
	Levels   []LevelP `json:"levels"`
	Merge    bool     `json:"merge"`    // use MergingIter (forced when there are >1 levels)
	Snapshot uint64   `json:"snapshot"` // 0: NoopTransform, else VisibleTransform(snapshot)
	Stack    []StageP `json:"stack,omitempty"`
	Ops      []OpP    `json:"ops,omitempty"`
}

var opNames = []string{"First", "Last", "SeekGE", "SeekLT", "Next", "Prev"}

// ---------------------------------------------------------------- generator

func genKey(t *rapid.T, rangedel bool) KeyP {
	var k KeyP
	if rapid.IntRange(0, 19).Draw(t, "batchseq") == 0 {
		k.Seq = batchBit | uint64(rapid.IntRange(1, 3).Draw(t, "seq"))
	} else {
		k.Seq = uint64(rapid.IntRange(1, 6).Draw(t, "seq"))
	}
	if rangedel {
		k.Kind = kindRangeDelete
		return k
	}
	k.Kind = rapid.SampledFrom([]int{kindRangeKeySet, kindRangeKeySet, kindRangeKeyUnset, kindRangeKeyDelete}).Draw(t, "kind")
	if k.Kind != kindRangeKeyDelete {
		k.Suffix = rapid.SampledFrom([]string{"", "@1", "@2", "@3"}).Draw(t, "suffix")
	}
	if k.Kind == kindRangeKeySet {
		k.Value = rapid.SampledFrom([]string{"", "v1", "v2"}).Draw(t, "value")
	}
	return k
}

func trailerOf(k KeyP) uint64 { return k.Seq<<8 | uint64(k.Kind) }

// genKeys draws 1-3 keys sorted by trailer descending, as Fragmenter.Add
// requires (fragmenter.go:135).
func genKeys(t *rapid.T, rangedel bool) []KeyP {
	nk := rapid.SampledFrom([]int{1, 1, 2, 3}).Draw(t, "nkeys")
	var keys []KeyP
	for i := 0; i < nk; i++ {
		keys = append(keys, genKey(t, rangedel))
	}
	sort.SliceStable(keys, func(i, j int) bool { return trailerOf(keys[i]) > trailerOf(keys[j]) })
	return keys
}

// tweakKeys changes one field (value, suffix or seqnum) of one key in place and
// restores the trailer-descending order.
func tweakKeys(t *rapid.T, keys []KeyP) {
	k := &keys[rapid.IntRange(0, len(keys)-1).Draw(t, "which")]
	switch what := rapid.IntRange(0, 4).Draw(t, "field"); {
	case what <= 1 && k.Kind == kindRangeKeySet:
		k.Value = rapid.SampledFrom([]string{"v2", "v1", ""}).Draw(t, "value")
	case what <= 3 && (k.Kind == kindRangeKeySet || k.Kind == kindRangeKeyUnset):
		k.Suffix = rapid.SampledFrom([]string{"@3", "@2", "@1", ""}).Draw(t, "suffix")
	default:
		k.Seq = uint64(rapid.IntRange(1, 6).Draw(t, "seq"))
	}
	sort.SliceStable(keys, func(i, j int) bool { return trailerOf(keys[i]) > trailerOf(keys[j]) })
}

func cloneKeys(k []KeyP) []KeyP { return append([]KeyP(nil), k...) }

// genSpans draws one span, or a chain of 2-3 abutting spans carrying the same
// keys (the shape DefragmentingIter exists for). Keys come from a small
// per-plan palette most of the time so that equal key sets are common.
func genSpans(t *rapid.T, n int, palette [][]KeyP, rangedel bool) []SpanP {
	var keys []KeyP
	switch rapid.IntRange(0, 4).Draw(t, "keysrc") {
	case 0:
		keys = genKeys(t, rangedel)
	case 1:
		// near-clone: a palette entry with one field of one key changed, so
		// that abutting fragments differ in exactly one of seqnum / kind /
		// suffix / value.
		keys = cloneKeys(rapid.SampledFrom(palette).Draw(t, "palette"))
		tweakKeys(t, keys)
	default:
		keys = cloneKeys(rapid.SampledFrom(palette).Draw(t, "palette"))
	}
	var s SpanP
	s.S = rapid.IntRange(0, n-2).Draw(t, "s")
	if rapid.IntRange(0, 3).Draw(t, "short") == 0 {
		s.E = min(n-1, s.S+rapid.IntRange(1, 2).Draw(t, "len"))
	} else {
		s.E = rapid.IntRange(s.S+1, n-1).Draw(t, "e")
	}
	s.Keys = keys
	out := []SpanP{s}
	if rapid.IntRange(0, 2).Draw(t, "chain") == 0 {
		// split [S,E) at up to two interior boundaries
		for len(out) < 3 {
			last := out[len(out)-1]
			if last.E-last.S < 2 {
				break
			}
			cut := rapid.IntRange(last.S+1, last.E-1).Draw(t, "cut")
			out[len(out)-1].E = cut
			pk := cloneKeys(keys)
			if rapid.Bool().Draw(t, "tweak") {
				tweakKeys(t, pk)
			}
			out = append(out, SpanP{S: cut, E: last.E, Keys: pk})
			if rapid.Bool().Draw(t, "stop") {
				break
			}
		}
	}
	return out
}

func genBounds(t *rapid.T, n int) *BoundsP {
	lo := rapid.IntRange(0, 2*n-1).Draw(t, "lo")
	hi := rapid.IntRange(lo+1, 2*n).Draw(t, "hi")
	return &BoundsP{Lo: lo, Hi: hi, Inclusive: rapid.IntRange(0, 2).Draw(t, "incl") == 0}
}

func gen(t *rapid.T) Plan {
	var p Plan
	n := rapid.SampledFrom([]int{8, 10, 6, 5, 9, 7, 4, 3, 2}).Draw(t, "n")
	p.Universe = rapid.SliceOfNDistinct(rapid.StringOfN(rapid.RuneFrom([]rune("abc")), 1, 3, -1), n, n,
		func(s string) string { return s }).Draw(t, "universe")
	sort.Strings(p.Universe)
	rangedel := rapid.IntRange(0, 3).Draw(t, "rangedel") == 0
	nlev := rapid.SampledFrom([]int{1, 1, 2, 2, 3, 4}).Draw(t, "nlev")
	p.Levels = make([]LevelP, nlev)
	palette := make([][]KeyP, rapid.IntRange(1, 3).Draw(t, "npalette"))
	for i := range palette {
		palette[i] = genKeys(t, rangedel)
	}
	nsp := rapid.SampledFrom([]int{8, 12, 6, 10, 5, 9, 7, 11, 4, 3, 2, 1, 0}).Draw(t, "nspans")
	for i := 0; i < nsp; {
		l := rapid.IntRange(0, nlev-1).Draw(t, "level")
		for _, s := range genSpans(t, n, palette, rangedel) {
			if i < 12 {
				p.Levels[l].Spans = append(p.Levels[l].Spans, s)
			}
			i++
		}
	}
	for l := range p.Levels {
		if p.Levels[l].Spans == nil {
			p.Levels[l].Spans = []SpanP{}
		}
		if rapid.IntRange(0, 3).Draw(t, "ltrunc") == 0 {
			p.Levels[l].Trunc = genBounds(t, n)
		}
		p.Levels[l].Invalidate = rapid.Bool().Draw(t, "linval")
	}
	p.Merge = nlev > 1 || rapid.Bool().Draw(t, "merge")
	p.Snapshot = rapid.SampledFrom([]uint64{0, 0, 0, 1, 2, 3, 4, 5, 7, seqNumMax}).Draw(t, "snapshot")
	nst := rapid.SampledFrom([]int{0, 1, 1, 2, 2, 3}).Draw(t, "nstages")
	for i := 0; i < nst; i++ {
		var st StageP
		st.Kind = rapid.SampledFrom([]string{"trunc", "defrag", "defrag", "inval"}).Draw(t, "stage")
		switch st.Kind {
		case "trunc":
			st.Bounds = genBounds(t, n)
		case "defrag":
			st.Method = rapid.SampledFrom([]string{"internal", "internal", "multiset"}).Draw(t, "method")
		}
		p.Stack = append(p.Stack, st)
	}
	nops := rapid.IntRange(0, 40).Draw(t, "nops")
	for i := 0; i < nops; i++ {
		var o OpP
		o.Op = rapid.SampledFrom([]int{0, 1, 2, 2, 2, 3, 3, 3, 4, 4, 4, 4, 4, 5, 5, 5, 5, 5}).Draw(t, "op")
		if o.Op == 2 || o.Op == 3 {
			o.Key = rapid.IntRange(0, 2*n).Draw(t, "key")
		}
		p.Ops = append(p.Ops, o)
	}
	return p
}

// ---------------------------------------------------------------- helpers

var comparer = base.DefaultComparer

// probeKeys returns the sorted probe keys of a universe: one key before it,
// then every universe key followed by its immediate successor (which lies
// strictly between it and the next universe key).
func probeKeys(u []string) []string {
	ps := []string{"0"}
	for _, k := range u {
		ps = append(ps, k, k+"\x00")
	}
	return ps
}

func validate(p Plan) {
	bad := func(f string, a ...any) { panic("harness: invalid plan: " + fmt.Sprintf(f, a...)) }
	n := len(p.Universe)
	if n < 2 {
		bad("universe too small")
	}
	for i, k := range p.Universe {
		if k == "" || k <= "0" || (i > 0 && p.Universe[i-1] >= k) || strings.ContainsRune(k, 0) {
			bad("universe not sorted/distinct/non-empty")
		}
	}
	if len(p.Levels) == 0 {
		bad("no levels")
	}
	okBounds := func(b *BoundsP) {
		if b == nil || b.Lo < 0 || b.Lo >= b.Hi || b.Hi > 2*n {
			bad("bounds")
		}
	}
	for _, l := range p.Levels {
		for _, s := range l.Spans {
			if s.S < 0 || s.S >= s.E || s.E >= n || len(s.Keys) == 0 {
				bad("span %+v", s)
			}
			for i, k := range s.Keys {
				switch k.Kind {
				case kindRangeDelete, kindRangeKeyDelete, kindRangeKeyUnset, kindRangeKeySet:
				default:
					bad("kind")
				}
				if k.Seq == 0 || k.Seq >= seqNumMax {
					bad("seq")
				}
				if i > 0 && trailerOf(s.Keys[i-1]) < trailerOf(k) {
					bad("span keys not sorted by trailer descending")
				}
			}
		}
		if l.Trunc != nil {
			okBounds(l.Trunc)
		}
	}
	for _, st := range p.Stack {
		switch st.Kind {
		case "trunc":
			okBounds(st.Bounds)
		case "defrag", "inval":
		default:
			bad("stage kind")
		}
	}
	for _, o := range p.Ops {
		if o.Op < 0 || o.Op > 5 || o.Key < 0 || o.Key > 2*n {
			bad("op")
		}
	}
}

func toMSpans(u []string, spans []SpanP) []mspan {
	out := make([]mspan, 0, len(spans))
	for _, s := range spans {
		ms := mspan{start: u[s.S], end: u[s.E]}
		for _, k := range s.Keys {
			ms.keys = append(ms.keys, mkey{trailerOf(k), k.Suffix, k.Value})
		}
		out = append(out, ms)
	}
	return out
}

func toSpan(s mspan) keyspan.Span {
	sp := keyspan.Span{Start: []byte(s.start), End: []byte(s.end), KeysOrder: keyspan.ByTrailerDesc}
	for _, k := range s.keys {
		kk := keyspan.Key{Trailer: base.InternalKeyTrailer(k.trailer)}
		if k.suffix != "" {
			kk.Suffix = []byte(k.suffix)
		}
		if k.value != "" {
			kk.Value = []byte(k.value)
		}
		sp.Keys = append(sp.Keys, kk)
	}
	return sp
}

// fromSpan converts a span returned by the code under test into model form,
// checking the per-span well-formedness part of the property on the way.
func fromSpan(s *keyspan.Span) (frag, error) {
	f := frag{start: string(s.Start), end: string(s.End)}
	if s.Start == nil || s.End == nil {
		return f, fmt.Errorf("span with nil bound: %s", s)
	}
	if comparer.Compare(s.Start, s.End) >= 0 {
		return f, fmt.Errorf("empty or inverted span %s", s)
	}
	if s.KeysOrder != keyspan.ByTrailerDesc {
		return f, fmt.Errorf("span %s: KeysOrder=%d, want ByTrailerDesc", s, s.KeysOrder)
	}
	for i, k := range s.Keys {
		if i > 0 && s.Keys[i-1].Trailer < k.Trailer {
			return f, fmt.Errorf("span %s: keys not sorted by trailer descending", s)
		}
		f.keys = append(f.keys, mkey{uint64(k.Trailer), string(k.Suffix), string(k.Value)})
	}
	f.keys = canon(f.keys)
	return f, nil
}

func sameFrag(got *keyspan.Span, want *frag) error {
	if got == nil && want == nil {
		return nil
	}
	if got == nil {
		return fmt.Errorf("got <nil>, want %s", want)
	}
	g, err := fromSpan(got)
	if err != nil {
		return err
	}
	if want == nil {
		return fmt.Errorf("got %s, want <nil>", g)
	}
	if g.start != want.start || g.end != want.end || !equalKeys(g.keys, want.keys) {
		return fmt.Errorf("got %s, want %s", g, want)
	}
	return nil
}

// checkCoverage is the property proper: list is sorted, non-overlapping, made
// of non-empty intervals whose bounds are probe keys, and at every probe key
// the keys of the fragment containing it are exactly cov(probe).
func checkCoverage(what string, list []frag, probes []string, cov func(string) []mkey, requireKeys bool) error {
	isProbe := map[string]bool{}
	for _, p := range probes {
		isProbe[p] = true
	}
	for i, f := range list {
		if f.start >= f.end {
			return fmt.Errorf("%s: fragment %s is empty", what, f)
		}
		if !isProbe[f.start] || !isProbe[f.end] {
			return fmt.Errorf("%s: fragment %s has a bound that is neither an input boundary nor a truncation bound", what, f)
		}
		if requireKeys && len(f.keys) == 0 {
			return fmt.Errorf("%s: fragment %s has no keys", what, f)
		}
		if i > 0 && list[i-1].end > f.start {
			return fmt.Errorf("%s: fragments not sorted / overlapping: %s then %s", what, list[i-1], f)
		}
	}
	for _, p := range probes {
		var got []mkey
		hits := 0
		for _, f := range list {
			if f.start <= p && p < f.end {
				hits++
				got = f.keys
			}
		}
		if hits > 1 {
			return fmt.Errorf("%s: key %q is inside %d fragments", what, p, hits)
		}
		want := canon(cov(p))
		if !equalKeys(got, want) {
			return fmt.Errorf("%s: coverage differs at user key %q: output has {%v}, input spans covering it have {%v}; output: %s",
				what, p, got, want, fragsString(list))
		}
	}
	return nil
}

func sameList(what string, got, want []frag) error {
	if len(got) != len(want) {
		return fmt.Errorf("%s: got %d fragments, want %d\n got:  %s\n want: %s", what, len(got), len(want), fragsString(got), fragsString(want))
	}
	for i := range got {
		if got[i].start != want[i].start || got[i].end != want[i].end || !equalKeys(got[i].keys, want[i].keys) {
			return fmt.Errorf("%s: fragment %d: got %s, want %s\n got:  %s\n want: %s", what, i, got[i], want[i], fragsString(got), fragsString(want))
		}
	}
	return nil
}

// multisetDefrag is a DefragmentMethod comparing key multisets; used when the
// positional comparison of DefragmentInternal is not determined (see
// ambiguousOrder) or when the plan asks for it.
var multisetDefrag = keyspan.DefragmentMethodFunc(func(_ base.CompareRangeSuffixes, a, b *keyspan.Span) bool {
	fa, erra := fromSpan(a)
	fb, errb := fromSpan(b)
	if erra != nil || errb != nil {
		panic(fmt.Sprintf("malformed span passed to ShouldDefragment: %v %v", erra, errb))
	}
	return equalKeys(fa.keys, fb.keys)
})

// ---------------------------------------------------------------- exec

func exec(p Plan) (evid.Outcome, error) {
	var out evid.Outcome
	out.Counters = map[string]int{}
	label := func(f string, a ...any) { out.Labels = append(out.Labels, fmt.Sprintf(f, a...)) }
	validate(p)
	u := p.Universe
	probes := probeKeys(u)
	merged := p.Merge || len(p.Levels) > 1

	// ---- non-triviality and shape labels, measured on the input.
	rangedel := false
	maxDepth, nt, nt6, sameTrailer := 0, false, false, false
	nspans := 0
	for _, l := range p.Levels {
		nspans += len(l.Spans)
	}
	for _, pk := range probes {
		type se struct{ s, e int }
		pairs := map[se]bool{}
		bounds := map[int]bool{}
		trailers := map[uint64]int{}
		depth := 0
		for _, l := range p.Levels {
			for _, s := range l.Spans {
				if u[s.S] <= pk && pk < u[s.E] {
					depth++
					pairs[se{s.S, s.E}] = true
					bounds[s.S], bounds[s.E] = true, true
					for _, k := range s.Keys {
						trailers[trailerOf(k)]++
						rangedel = rangedel || k.Kind == kindRangeDelete
					}
				}
			}
		}
		maxDepth = max(maxDepth, depth)
		if depth >= 3 && len(pairs) >= 3 {
			nt = true
			if len(bounds) >= 6 {
				nt6 = true
			}
		}
		for _, c := range trailers {
			if c > 1 {
				sameTrailer = true
			}
		}
	}
	out.NonTrivial = nt
	label("levels=%d", len(p.Levels))
	label("depth=%d", min(maxDepth, 4))
	switch {
	case nspans == 0:
		label("spans=0")
	case nspans <= 3:
		label("spans=1-3")
	case nspans <= 7:
		label("spans=4-7")
	default:
		label("spans=8-12")
	}
	if rangedel {
		label("mode=rangedel")
	}
	if nt6 {
		label("nt:6-distinct-bounds")
	}
	if sameTrailer {
		label("same-trailer-overlap")
	}

	// ---- stage A: Fragmenter per level.
	levelModel := make([][]frag, len(p.Levels))
	levelIters := make([]keyspan.FragmentIterator, len(p.Levels))
	levelSpans := make([][]mspan, len(p.Levels))
	for li, l := range p.Levels {
		ms := toMSpans(u, l.Spans)
		// Add requires increasing start key order (fragmenter.go:54-57); ties keep plan order.
		sort.SliceStable(ms, func(i, j int) bool { return ms[i].start < ms[j].start })
		levelSpans[li] = ms
		var emitted []keyspan.Span
		f := keyspan.Fragmenter{Cmp: comparer.Compare, Format: comparer.FormatKey, Emit: func(s keyspan.Span) { emitted = append(emitted, s) }}
		for _, s := range ms {
			f.Add(toSpan(s))
		}
		f.Finish()
		var got []frag
		for i := range emitted {
			g, err := fromSpan(&emitted[i])
			if err != nil {
				return out, fmt.Errorf("fragmenter level %d: %v", li, err)
			}
			got = append(got, g)
		}
		covLevel := func(k string) []mkey {
			var keys []mkey
			for _, s := range ms {
				if s.contains(k) {
					keys = append(keys, s.keys...)
				}
			}
			return keys
		}
		what := fmt.Sprintf("Fragmenter(level %d)", li)
		if err := checkCoverage(what, got, probes, covLevel, true); err != nil {
			return out, err
		}
		model := modelFragment(ms)
		if err := checkCoverage("harness self-check: model "+what, model, probes, covLevel, true); err != nil {
			panic(err)
		}
		if err := sameList(what+" fragmentation points", got, model); err != nil {
			return out, err
		}
		out.Counters["fragments_emitted"] += len(got)

		// Level iterator over deep copies of the emitted fragments.
		cl := make([]keyspan.Span, len(emitted))
		for i := range emitted {
			cl[i] = emitted[i].Clone()
		}
		var it keyspan.FragmentIterator = keyspan.NewIter(comparer.Compare, cl)
		if l.Invalidate {
			it = keyspan.NewInvalidatingIter(it)
		}
		if l.Trunc != nil {
			var bounds base.UserKeyBounds
			var cut int
			model, bounds, cut = applyTrunc(model, probes, l.Trunc, label)
			if cut > 0 {
				label("level-trunc-cut")
			}
			it = keyspan.Truncate(comparer.Compare, it, bounds)
		}
		levelModel[li] = model
		levelIters[li] = it
	}

	// ---- stage B: merge.
	var it keyspan.FragmentIterator
	var model []frag
	if merged {
		var tr keyspan.Transformer = keyspan.NoopTransform
		if p.Snapshot != 0 {
			tr = keyspan.VisibleTransform(base.SeqNum(p.Snapshot))
			label("xform=visible")
		} else {
			label("xform=noop")
		}
		m := &keyspanimpl.MergingIter{}
		m.Init(comparer, tr, new(keyspanimpl.MergingBuffers), levelIters...)
		it = m
		model = modelMerge(levelModel, p.Snapshot)
		label("merge")
	} else {
		it = levelIters[0]
		model = levelModel[0]
		label("nomerge")
	}

	// ---- stage C: stack.
	defragStrict := false
	for _, st := range p.Stack {
		switch st.Kind {
		case "inval":
			it = keyspan.NewInvalidatingIter(it)
			label("stack:inval")
		case "trunc":
			var bounds base.UserKeyBounds
			var cut int
			model, bounds, cut = applyTrunc(model, probes, st.Bounds, label)
			it = keyspan.Truncate(comparer.Compare, it, bounds)
			label("stack:trunc")
			if cut > 0 {
				label("stack:trunc-cut")
			}
		case "defrag":
			method := keyspan.DefragmentInternal
			switch {
			case st.Method == "multiset":
				method = multisetDefrag
				label("defrag=multiset")
			case ambiguousOrder(model):
				method = multisetDefrag
				label("defrag=internal->multiset(ambiguous-order)")
			default:
				label("defrag=internal")
			}
			d := &keyspan.DefragmentingIter{}
			d.Init(comparer, it, method, keyspan.StaticDefragmentReducer, new(keyspan.DefragmentingBuffers))
			it = d
			var joins, near int
			model, joins, near = modelDefrag(model)
			if joins > 0 {
				label("defrag-joined")
			}
			if near > 0 {
				label("defrag-abutting-same-trailers-different-suffix-or-value")
			}
			defragStrict = true
		}
	}
	// defragStrict only describes the last stage if nothing re-fragments after
	// it; a truncation after a defrag cannot create equal abutting fragments,
	// so the flag stays valid for the final list.
	defer it.Close()

	// ---- direct coverage of the final output, from the input spans only.
	covFinal := func(k string) []mkey {
		var keys []mkey
		for li, l := range p.Levels {
			if l.Trunc != nil && !(probes[l.Trunc.Lo] <= k && k < probes[l.Trunc.Hi]) {
				continue
			}
			for _, s := range levelSpans[li] {
				if s.contains(k) {
					keys = append(keys, s.keys...)
				}
			}
		}
		if merged {
			keys = filterVisible(keys, p.Snapshot)
		}
		for _, st := range p.Stack {
			if st.Kind == "trunc" && !(probes[st.Bounds.Lo] <= k && k < probes[st.Bounds.Hi]) {
				return nil
			}
		}
		return keys
	}
	if err := checkCoverage("harness self-check: final model", model, probes, covFinal, false); err != nil {
		panic(err)
	}
	hasEmpty := false
	for _, f := range model {
		hasEmpty = hasEmpty || len(f.keys) == 0
	}
	if hasEmpty {
		label("empty-key-fragments")
	}
	switch {
	case len(model) == 0:
		label("final=0")
	case len(model) <= 3:
		label("final=1-3")
	default:
		label("final=4+")
	}

	// ---- full forward scan.
	var fwd []frag
	s, err := it.First()
	for ; s != nil && err == nil; s, err = it.Next() {
		g, ferr := fromSpan(s)
		if ferr != nil {
			return out, fmt.Errorf("forward scan: %v", ferr)
		}
		fwd = append(fwd, g)
		if len(fwd) > 4*len(probes)+8 {
			return out, fmt.Errorf("forward scan does not terminate: %s", fragsString(fwd))
		}
	}
	if err != nil {
		return out, fmt.Errorf("forward scan: unexpected error %v", err)
	}
	if err := checkCoverage("final iterator (forward scan)", fwd, probes, covFinal, false); err != nil {
		return out, err
	}
	if defragStrict {
		for i := 1; i < len(fwd); i++ {
			a, b := fwd[i-1], fwd[i]
			if a.end == b.start && len(a.keys) > 0 && equalKeys(a.keys, b.keys) {
				return out, fmt.Errorf("defragmented output has abutting fragments with equal keys: %s %s", a, b)
			}
		}
	}
	if err := sameList("final iterator (forward scan) fragmentation points", fwd, model); err != nil {
		return out, err
	}
	// ---- full backward scan (the iterator is exhausted forward: Last is absolute).
	var bwd []frag
	s, err = it.Last()
	for ; s != nil && err == nil; s, err = it.Prev() {
		g, ferr := fromSpan(s)
		if ferr != nil {
			return out, fmt.Errorf("backward scan: %v", ferr)
		}
		bwd = append(bwd, g)
		if len(bwd) > 4*len(probes)+8 {
			return out, fmt.Errorf("backward scan does not terminate: %s", fragsString(bwd))
		}
	}
	if err != nil {
		return out, fmt.Errorf("backward scan: unexpected error %v", err)
	}
	for i, j := 0, len(bwd)-1; i < j; i, j = i+1, j-1 {
		bwd[i], bwd[j] = bwd[j], bwd[i]
	}
	if err := checkCoverage("final iterator (backward scan)", bwd, probes, covFinal, false); err != nil {
		return out, err
	}
	if err := sameList("final iterator (backward scan)", bwd, model); err != nil {
		return out, err
	}
	out.Counters["scan_spans"] += len(fwd) + len(bwd)

	// ---- random positioning operations against the cursor model.
	cur := &cursor{list: model}
	var trace []string
	lastRel := 0
	switched, seekNil, seekHit := false, false, false
	for _, o := range p.Ops {
		var got *keyspan.Span
		var want *frag
		var err error
		key := probes[o.Key]
		desc := opNames[o.Op]
		switch o.Op {
		case 0:
			got, err = it.First()
			want = cur.first()
		case 1:
			got, err = it.Last()
			want = cur.last()
		case 2:
			desc += fmt.Sprintf("(%q)", key)
			got, err = it.SeekGE([]byte(key))
			want = cur.seekGE(key)
		case 3:
			desc += fmt.Sprintf("(%q)", key)
			got, err = it.SeekLT([]byte(key))
			want = cur.seekLT(key)
		case 4:
			if !cur.canNext() {
				out.Counters["ops_skipped"]++
				continue
			}
			got, err = it.Next()
			want = cur.next()
			if lastRel == -1 {
				switched = true
			}
			lastRel = +1
		case 5:
			if !cur.canPrev() {
				out.Counters["ops_skipped"]++
				continue
			}
			got, err = it.Prev()
			want = cur.prev()
			if lastRel == +1 {
				switched = true
			}
			lastRel = -1
		}
		if o.Op < 4 {
			lastRel = 0
			if want == nil {
				seekNil = true
			} else {
				seekHit = true
			}
		}
		out.Counters["ops"]++
		trace = append(trace, desc)
		if err != nil {
			return out, fmt.Errorf("op %s returned error %v; trace: %s", desc, err, strings.Join(trace, " "))
		}
		if cerr := sameFrag(got, want); cerr != nil {
			return out, fmt.Errorf("after ops [%s]: %v\n final list model: %s", strings.Join(trace, " "), cerr, fragsString(model))
		}
	}
	if switched {
		label("ops:direction-switch")
	}
	if seekNil {
		label("ops:absolute->nil")
	}
	if seekHit {
		label("ops:absolute->span")
	}
	if len(p.Ops) == 0 {
		label("ops:none")
	}
	return out, nil
}

// applyTrunc applies a truncation stage to the model and returns the bounds to
// hand to keyspan.Truncate. An inclusive end bound is used only when the
// documented precondition holds: the input iterator produces no span that
// contains the end key (truncate.go:18-21).
func applyTrunc(in []frag, probes []string, b *BoundsP, label func(string, ...any)) ([]frag, base.UserKeyBounds, int) {
	lo, hi := probes[b.Lo], probes[b.Hi]
	inclusive := b.Inclusive
	if inclusive {
		for _, f := range in {
			if f.start <= hi && hi < f.end {
				inclusive = false
			}
		}
		if inclusive {
			label("trunc-inclusive-end")
		}
	}
	out, cut := modelTruncate(in, lo, hi)
	return out, base.UserKeyBoundsEndExclusiveIf([]byte(lo), []byte(hi), !inclusive), cut
}

func TestC32(t *testing.T) {
	evid.Run(t, evid.Spec[Plan]{
		ID: "C32", Level: "exploration",
		Rule: "rapid draws a universe of 2-10 boundary keys, 0-12 spans (1-3 keys each: seqnum incl. batch seqnums, kind, suffix, value) spread over 1-4 levels, " +
			"optional per-level Truncate, MergingIter with Noop/Visible transformer, a stack of up to 3 Truncate/DefragmentingIter/invalidating stages and 0-40 positioning ops; " +
			"non-trivial = some user key is covered by >=3 input spans with pairwise different bounds; distinct = hash of the plan JSON",
		Assumptions: []string{
			"keys with equal trailers inside one Span have undefined relative order (span.go:42-45): key sets are compared as multisets, and DefragmentInternal is replaced by a multiset method when two equal-trailer keys with different suffix/value share a fragment",
			"an inclusive truncation end bound is only used when no input fragment contains it (truncate.go:18-21)",
			"Next/Prev are never issued from an unpositioned iterator or from the exhausted position in the same direction (iter.go:47-61)",
		},
		Gen: gen, Exec: exec, Quick: 6000, Thorough: 100000,
		Sample: func(p Plan) any {
			var b strings.Builder
			for li, l := range p.Levels {
				fmt.Fprintf(&b, "L%d:", li)
				for _, s := range l.Spans {
					fmt.Fprintf(&b, " %s-%s/%d", p.Universe[s.S], p.Universe[s.E], len(s.Keys))
				}
				if l.Trunc != nil {
					fmt.Fprintf(&b, " trunc[%d,%d)", l.Trunc.Lo, l.Trunc.Hi)
				}
				b.WriteString("; ")
			}
			fmt.Fprintf(&b, "merge=%v snapshot=%d stack=", p.Merge, p.Snapshot)
			for _, st := range p.Stack {
				b.WriteString(st.Kind + ",")
			}
			fmt.Fprintf(&b, " ops=%d", len(p.Ops))
			return b.String()
		},
	})
}
