package keyspanfrag

// Independent reference model for C32. Nothing in this file calls into
// internal/keyspan: it works on plain strings and integers only.

import (
	"fmt"
	"sort"
	"strings"
)

const (
	batchBit  = uint64(1) << 55   // base.SeqNumBatchBit (doc: internal/base/internal.go:50)
	seqNumMax = uint64(1)<<56 - 1 // base.SeqNumMax
)

// Numeric key kinds (internal/base/internal.go:120-146).
const (
	kindRangeDelete    = 15
	kindRangeKeyDelete = 19
	kindRangeKeyUnset  = 20
	kindRangeKeySet    = 21
)

// mkey is one key applied over a span: (trailer, suffix, value).
type mkey struct {
	trailer uint64
	suffix  string
	value   string
}

func (k mkey) String() string {
	return fmt.Sprintf("#%d,%d,%q,%q", k.trailer>>8, k.trailer&0xff, k.suffix, k.value)
}

// frag is a model fragment: [start,end) with a canonically sorted key multiset.
type frag struct {
	start, end string
	keys       []mkey
}

func (f frag) String() string {
	var b strings.Builder
	fmt.Fprintf(&b, "%q-%q:{", f.start, f.end)
	for i, k := range f.keys {
		if i > 0 {
			b.WriteString(" ")
		}
		b.WriteString(k.String())
	}
	b.WriteString("}")
	return b.String()
}

func fragsString(fs []frag) string {
	var b strings.Builder
	for i, f := range fs {
		if i > 0 {
			b.WriteString(" ")
		}
		b.WriteString(f.String())
	}
	return b.String()
}

func lessKey(a, b mkey) bool {
	if a.trailer != b.trailer {
		return a.trailer > b.trailer // trailer descending
	}
	if a.suffix != b.suffix {
		return a.suffix < b.suffix
	}
	return a.value < b.value
}

// canon returns a sorted copy of keys (multiset canonical form).
func canon(keys []mkey) []mkey {
	out := append([]mkey(nil), keys...)
	sort.SliceStable(out, func(i, j int) bool { return lessKey(out[i], out[j]) })
	return out
}

func equalKeys(a, b []mkey) bool {
	if len(a) != len(b) {
		return false
	}
	for i := range a {
		if a[i] != b[i] {
			return false
		}
	}
	return true
}

// visible is the documented visibility rule of VisibleTransform
// (transformer.go:34-50, base.Visible internal.go:522-540): committed keys are
// visible iff seq < snapshot; keys with the batch bit are always visible here
// because the batch snapshot passed is SeqNumMax.
func visible(k mkey, snapshot uint64) bool {
	seq := k.trailer >> 8
	return seq < snapshot || seq&batchBit != 0
}

func filterVisible(keys []mkey, snapshot uint64) []mkey {
	if snapshot == 0 {
		return keys
	}
	var out []mkey
	for _, k := range keys {
		if visible(k, snapshot) {
			out = append(out, k)
		}
	}
	return out
}

// mspan is an input span in model form.
type mspan struct {
	start, end string
	keys       []mkey
}

func (s mspan) contains(k string) bool { return s.start <= k && k < s.end }

// modelFragment: the elementary intervals between consecutive distinct
// boundaries of the spans, each carrying the keys of all spans that contain it;
// intervals that no span covers are not emitted (fragmenter.go:54-122).
func modelFragment(spans []mspan) []frag {
	bs := map[string]struct{}{}
	for _, s := range spans {
		bs[s.start] = struct{}{}
		bs[s.end] = struct{}{}
	}
	bounds := make([]string, 0, len(bs))
	for b := range bs {
		bounds = append(bounds, b)
	}
	sort.Strings(bounds)
	var out []frag
	for i := 0; i+1 < len(bounds); i++ {
		a, b := bounds[i], bounds[i+1]
		var keys []mkey
		for _, s := range spans {
			if s.start <= a && b <= s.end {
				keys = append(keys, s.keys...)
			}
		}
		if len(keys) > 0 {
			out = append(out, frag{a, b, canon(keys)})
		}
	}
	return out
}

// modelTruncate intersects every fragment with [lo,hi) and drops the ones that
// become empty (truncate.go:15-21,127-176).
func modelTruncate(in []frag, lo, hi string) (out []frag, cut int) {
	for _, f := range in {
		s, e := f.start, f.end
		changed := false
		if s < lo {
			s, changed = lo, true
		}
		if e > hi {
			e, changed = hi, true
		}
		if s < e {
			out = append(out, frag{s, e, f.keys})
			if changed {
				cut++
			}
		}
	}
	return out, cut
}

// modelMerge: fragments at every pair of consecutive distinct boundaries of any
// level; a fragment is emitted iff at least one level has a fragment covering
// it (it may end up with no keys if the transformer filters all of them:
// merging_iter.go:899-912).
func modelMerge(levels [][]frag, snapshot uint64) []frag {
	bs := map[string]struct{}{}
	for _, l := range levels {
		for _, f := range l {
			bs[f.start] = struct{}{}
			bs[f.end] = struct{}{}
		}
	}
	bounds := make([]string, 0, len(bs))
	for b := range bs {
		bounds = append(bounds, b)
	}
	sort.Strings(bounds)
	var out []frag
	for i := 0; i+1 < len(bounds); i++ {
		a, b := bounds[i], bounds[i+1]
		covered := false
		var keys []mkey
		for _, l := range levels {
			for _, f := range l {
				if f.start <= a && b <= f.end {
					covered = true
					keys = append(keys, f.keys...)
				}
			}
		}
		if covered {
			out = append(out, frag{a, b, canon(filterVisible(keys, snapshot))})
		}
	}
	return out
}

// modelDefrag joins maximal runs of abutting fragments with equal, non-empty
// key multisets (defragment.go:111-123, 454-459).
func modelDefrag(in []frag) (out []frag, joins, nearMisses int) {
	for i := 0; i < len(in); {
		cur := in[i]
		j := i + 1
		for j < len(in) && len(cur.keys) > 0 && len(in[j].keys) > 0 &&
			in[j].start == cur.end && equalKeys(in[j].keys, cur.keys) {
			cur.end = in[j].end
			joins++
			j++
		}
		if j < len(in) && in[j].start == cur.end && sameTrailers(in[j].keys, cur.keys) {
			nearMisses++
		}
		out = append(out, cur)
		i = j
	}
	return out, joins, nearMisses
}

// sameTrailers: non-empty key lists with pairwise equal trailers (they may
// still differ in suffix or value).
func sameTrailers(a, b []mkey) bool {
	if len(a) != len(b) || len(a) == 0 {
		return false
	}
	for i := range a {
		if a[i].trailer != b[i].trailer {
			return false
		}
	}
	return true
}

// ambiguousOrder reports whether some fragment holds two keys with the same
// trailer but different suffix/value: the relative order of such keys inside a
// Span is documented as undefined (span.go:42-45), so a positional comparison
// (DefragmentInternal) is not determined by the key multiset.
func ambiguousOrder(in []frag) bool {
	for _, f := range in {
		for i := 1; i < len(f.keys); i++ {
			if f.keys[i].trailer == f.keys[i-1].trailer && f.keys[i] != f.keys[i-1] {
				return true
			}
		}
	}
	return false
}

// cursor is the model of a FragmentIterator position over a fragment list
// (iter.go:14-61).
type cursor struct {
	list       []frag
	idx        int
	positioned bool
}

func (c *cursor) cur() *frag {
	if c.idx >= 0 && c.idx < len(c.list) {
		return &c.list[c.idx]
	}
	return nil
}

func (c *cursor) first() *frag { c.positioned, c.idx = true, 0; return c.cur() }
func (c *cursor) last() *frag  { c.positioned, c.idx = true, len(c.list)-1; return c.cur() }

// seekGE: first fragment with end > key.
func (c *cursor) seekGE(key string) *frag {
	c.positioned = true
	c.idx = len(c.list)
	for i, f := range c.list {
		if f.end > key {
			c.idx = i
			break
		}
	}
	return c.cur()
}

// seekLT: last fragment with start < key.
func (c *cursor) seekLT(key string) *frag {
	c.positioned = true
	c.idx = -1
	for i := len(c.list) - 1; i >= 0; i-- {
		if c.list[i].start < key {
			c.idx = i
			break
		}
	}
	return c.cur()
}

// canNext: Next is allowed unless unpositioned or exhausted in the forward
// direction (iter.go:47-53).
func (c *cursor) canNext() bool { return c.positioned && c.idx < len(c.list) }
func (c *cursor) canPrev() bool { return c.positioned && c.idx >= 0 }
func (c *cursor) next() *frag   { c.idx++; return c.cur() }
func (c *cursor) prev() *frag   { c.idx--; return c.cur() }
