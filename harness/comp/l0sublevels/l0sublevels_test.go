// Package l0sublevels: C16 — L0 sublevels are sound and compaction picks are closed.
//
// A metadata-level LSM simulation (internal/manifest only, no DB) whose files
// carry explicit contents. A generated history of writes, memtable rotations,
// flushes, ingests, picker-chosen L0 compactions (left in progress, completed
// with drawn output splits, or aborted) and Lbase->Lbase+1 compactions drives a
// manifest.Version + manifest.L0Organizer exactly the way the DB does
// (BulkVersionEdit.Apply, PrepareUpdate/PerformUpdate, InitCompactingFileInfo,
// UpdateStateForStartedCompaction). After every step independent oracles are
// evaluated on the public state; see NOTES.md.
package l0sublevels

import (
	"bytes"
	"fmt"
	"sort"
	"strings"
	"testing"

	"github.com/cockroachdb/pebble/internal/base"
	"github.com/cockroachdb/pebble/internal/manifest"
	"github.com/cockroachdb/pebble/verifharness/evid"
	"pgregory.net/rapid"
)

// ---------------------------------------------------------------- plan

// Write is one memtable/ingest entry: a point at key P, or (E > P) a range
// tombstone over [key(P), key(E)).
type Write struct {
	P int `json:"p"`
	E int `json:"e,omitempty"`
}

// Step is one operation of the history. Unused fields are zero.
type Step struct {
	// w: write W into the mutable memtable. rot: rotate the memtable.
	// flush: flush the N oldest memtables (0 = all). wf: w + rot + flush all.
	// ing: ingest the files Ing. pick: mirror of pickL0 (base attempt, then
	// intra-L0 attempt). done/abort: complete/roll back in-progress compaction
	// Which. lbase: start an Lbase->Lbase+1 compaction of Cnt files at Which.
	Op         string    `json:"op"`
	W          []Write   `json:"w,omitempty"`
	N          int       `json:"n,omitempty"`
	Cuts       []int     `json:"cuts,omitempty"`  // output split boundaries (key indexes)
	Elide      bool      `json:"elide,omitempty"` // drop shadowed point versions in outputs
	Ing        [][]Write `json:"ing,omitempty"`
	Deep       bool      `json:"deep,omitempty"` // ingest below L0 when nothing overlaps
	BaseDepth  int       `json:"bd,omitempty"`
	IntraDepth int       `json:"id,omitempty"`
	EusnLower  int       `json:"eul,omitempty"` // pass earliestUnflushedSeqNum - EusnLower
	NoExtend   bool      `json:"noext,omitempty"`
	Revert     bool      `json:"revert,omitempty"` // extension reverted (size limit path)
	Now        bool      `json:"now,omitempty"`    // complete the picked compaction at once
	Which      int       `json:"which,omitempty"`
	Cnt        int       `json:"cnt,omitempty"`
	Sz         []int     `json:"sz,omitempty"` // indexes into sizeTable for created files
}

// Plan is a whole history.
type Plan struct {
	NKeys           int    `json:"nkeys"`
	BaseLevel       int    `json:"base"`
	FlushSplitBytes int64  `json:"fsb"`
	Steps           []Step `json:"steps"`
	// Strict disables the known-finding exclusions (used by the demonstration
	// plans in Spec.Known; the generator never sets it).
	Strict bool `json:"strict,omitempty"`
}

// sigBaseIntra is the signature of the candidate finding described in NOTES.md:
// PickBaseCompaction stacks every file of the seed interval onto the candidate
// without looking at IsCompacting, so the returned pick can contain files that
// are part of an in-progress intra-L0 compaction.
const sigBaseIntra = "base-pick-includes-intra-l0-compacting-file"

// errKnown is returned by checkPick for a pick that falls in an excluded class.
var errKnown = fmt.Errorf("known finding class")

var sizeTable = []uint64{1, 256, 1 << 20, 80 << 20, 400 << 20}

// ---------------------------------------------------------------- generator

func genWrites(t *rapid.T, lo, hi int) []Write {
	// Mostly localized batches (narrow files, room for concurrent
	// compactions), sometimes over the whole key space.
	if rapid.IntRange(0, 3).Draw(t, "wide") != 3 {
		lo = rapid.IntRange(lo, hi).Draw(t, "wlo")
		hi = min(hi, lo+rapid.IntRange(0, 3).Draw(t, "wwidth"))
	}
	n := rapid.IntRange(1, 4).Draw(t, "nw")
	ws := make([]Write, 0, n)
	for i := 0; i < n; i++ {
		p := rapid.IntRange(lo, hi).Draw(t, "p")
		w := Write{P: p}
		if rapid.IntRange(0, 5).Draw(t, "span") == 0 {
			w.E = p + rapid.IntRange(1, min(3, hi+1-p)).Draw(t, "len")
		}
		ws = append(ws, w)
	}
	return ws
}

func genCuts(t *rapid.T, nk int) []int {
	if nk < 2 {
		return nil
	}
	switch m := rapid.IntRange(0, 9).Draw(t, "cutmode"); {
	case m <= 3:
		return nil
	case m <= 5:
		all := make([]int, 0, nk-1)
		for c := 1; c < nk; c++ {
			all = append(all, c)
		}
		return all
	default:
		return rapid.SliceOfN(rapid.IntRange(1, nk-1), 1, 3).Draw(t, "cuts")
	}
}

func genSizes(t *rapid.T) []int {
	if rapid.IntRange(0, 3).Draw(t, "szmode") != 0 {
		return nil // default size
	}
	return rapid.SliceOfN(rapid.IntRange(0, len(sizeTable)-1), 1, 3).Draw(t, "sz")
}

func genIngest(t *rapid.T, nk int) [][]Write {
	nf := rapid.IntRange(1, 3).Draw(t, "nf")
	cur := rapid.IntRange(0, nk-1).Draw(t, "start")
	var files [][]Write
	for i := 0; i < nf && cur <= nk-1; i++ {
		lo := cur
		hi := lo + rapid.IntRange(0, min(3, nk-1-lo)).Draw(t, "width")
		var ws []Write
		switch rapid.IntRange(0, 3).Draw(t, "shape") {
		case 0:
			ws = []Write{{P: lo}, {P: hi}}
		case 1:
			ws = []Write{{P: lo, E: hi + 1}}
		case 2:
			ws = []Write{{P: lo, E: hi + 1}, {P: rapid.IntRange(lo, hi).Draw(t, "pt")}}
		default:
			ws = []Write{{P: lo}, {P: rapid.IntRange(lo, hi).Draw(t, "mid")}, {P: hi}}
		}
		files = append(files, ws)
		cur = hi + 1 + rapid.IntRange(0, 2).Draw(t, "gap")
	}
	return files
}

// genStep draws one step. rapid's integer generators are biased towards small
// values, so the operation is chosen by two 2-bit draws (16 nearly equiprobable
// cells) instead of one wide range.
func genStep(t *rapid.T, nk int, build bool) Step {
	cell := 0
	if !build {
		cell = rapid.IntRange(0, 3).Draw(t, "opcat")*4 + rapid.IntRange(0, 3).Draw(t, "opsub")
	}
	switch cell {
	case 0, 5, 10, 15:
		return Step{Op: "wf", W: genWrites(t, 0, nk-1), Cuts: genCuts(t, nk), Elide: rapid.Bool().Draw(t, "elide"), Sz: genSizes(t)}
	case 1, 4, 6, 9, 3:
		s := Step{Op: "pick",
			BaseDepth:  rapid.SampledFrom([]int{1, 9, 1, 2, 3, 1}).Draw(t, "bd"),
			IntraDepth: rapid.SampledFrom([]int{2, 1, 3, 2, 4}).Draw(t, "id"),
			NoExtend:   rapid.IntRange(0, 6).Draw(t, "noext") == 6,
			Revert:     rapid.IntRange(0, 7).Draw(t, "revert") == 7,
			Now:        rapid.IntRange(0, 7).Draw(t, "now") == 7,
			Cuts:       genCuts(t, nk), Elide: rapid.Bool().Draw(t, "elide"), Sz: genSizes(t)}
		if rapid.IntRange(0, 3).Draw(t, "eulmode") == 2 {
			s.EusnLower = rapid.IntRange(1, 15).Draw(t, "eul")
		}
		return s
	case 2, 8:
		return Step{Op: "done", Which: rapid.IntRange(0, 5).Draw(t, "which"), Cuts: genCuts(t, nk), Elide: rapid.Bool().Draw(t, "elide"), Sz: genSizes(t)}
	case 7, 12:
		return Step{Op: "ing", Ing: genIngest(t, nk), Deep: rapid.IntRange(0, 2).Draw(t, "deep") == 2, Cuts: genCuts(t, nk), Sz: genSizes(t)}
	case 11:
		return Step{Op: "w", W: genWrites(t, 0, nk-1)}
	case 13:
		if rapid.Bool().Draw(t, "rot") {
			return Step{Op: "rot"}
		}
		return Step{Op: "flush", N: rapid.IntRange(0, 2).Draw(t, "n"), Cuts: genCuts(t, nk), Elide: rapid.Bool().Draw(t, "elide"), Sz: genSizes(t)}
	default: // 14
		if rapid.IntRange(0, 2).Draw(t, "abort") == 2 {
			return Step{Op: "abort", Which: rapid.IntRange(0, 5).Draw(t, "which")}
		}
		return Step{Op: "lbase", Which: rapid.IntRange(0, 7).Draw(t, "which"), Cnt: rapid.IntRange(1, 2).Draw(t, "cnt")}
	}
}

func gen(t *rapid.T) Plan {
	p := Plan{
		NKeys:           2 + rapid.IntRange(0, 3).Draw(t, "nkeys1") + rapid.IntRange(0, 4).Draw(t, "nkeys2"),
		BaseLevel:       rapid.IntRange(1, 6).Draw(t, "base"),
		FlushSplitBytes: rapid.SampledFrom([]int64{0, 1, 300, 1 << 20}).Draw(t, "fsb"),
	}
	n := 6 + rapid.IntRange(0, 19).Draw(t, "nsteps")
	for i := 0; i < n; i++ {
		// The first steps only build up the LSM (in half of the cases an ingest
		// into the empty DB, which lands in Lbase, then flushes); then
		// everything is mixed.
		if i == 0 && rapid.Bool().Draw(t, "seedlbase") {
			p.Steps = append(p.Steps, Step{Op: "ing", Ing: genIngest(t, p.NKeys), Deep: true})
			continue
		}
		p.Steps = append(p.Steps, genStep(t, p.NKeys, i < 4))
	}
	return p
}

// ---------------------------------------------------------------- simulation

var ucmp = base.DefaultComparer.Compare

type simFile struct {
	fview
	meta *manifest.TableMetadata
}

type memtable struct {
	logSeq uint64 // seqnum at creation: lower bound of everything in it
	ents   []entry
}

// comp is an in-progress compaction.
type comp struct {
	kind   string // base | intra | lbase
	l0, lb []*simFile
	bounds base.UserKeyBounds
}

type capLogger struct{ msgs []string }

func (l *capLogger) Infof(string, ...interface{}) {}
func (l *capLogger) Errorf(f string, a ...interface{}) {
	l.msgs = append(l.msgs, fmt.Sprintf(f, a...))
}
func (l *capLogger) Fatalf(f string, a ...interface{}) { panic(fmt.Sprintf("Fatalf: "+f, a...)) }

type sim struct {
	p        *Plan
	nkeys    int
	baseLvl  int
	keys     [][]byte
	v        *manifest.Version
	o        *manifest.L0Organizer
	l0, lbf  map[uint64]*simFile
	nextSeq  uint64
	nextFile uint64
	mems     []*memtable // oldest first; the last one is the mutable memtable
	comps    []*comp

	labels map[string]bool
	cnt    map[string]int
	// facts for the non-triviality rule
	maxSublevels     int
	pickMultiWhileIP bool
	// startedSinceInit: UpdateStateForStartedCompaction ran after the last
	// InitCompactingFileInfo (the maintained organizer then marks the hull of
	// the inputs, a rebuilt one marks per file: picks may legitimately differ).
	startedSinceInit bool
	excluded         string // known-finding class met in this case
}

func newSim(p *Plan) *sim {
	s := &sim{p: p, nkeys: p.NKeys, baseLvl: p.BaseLevel, l0: map[uint64]*simFile{}, lbf: map[uint64]*simFile{},
		nextSeq: uint64(base.SeqNumStart), nextFile: 1, labels: map[string]bool{}, cnt: map[string]int{}}
	s.nkeys = min(max(s.nkeys, 1), 20)
	s.baseLvl = min(max(s.baseLvl, 1), manifest.NumLevels-1)
	for i := 0; i <= s.nkeys; i++ {
		s.keys = append(s.keys, []byte{byte('a' + i)})
	}
	s.v = manifest.NewInitialVersion(base.DefaultComparer)
	s.o = manifest.NewL0Organizer(base.DefaultComparer, p.FlushSplitBytes)
	s.mems = []*memtable{{logSeq: s.nextSeq}}
	return s
}

func (s *sim) label(l string) { s.labels[l] = true }

func (s *sim) ukb(b bnd) base.UserKeyBounds {
	return base.UserKeyBoundsEndExclusiveIf(s.keys[b.lo], s.keys[b.hi], b.excl)
}

func (s *sim) sizeFor(st *Step, i int) uint64 {
	if len(st.Sz) == 0 {
		return 256
	}
	idx := st.Sz[i%len(st.Sz)]
	return sizeTable[((idx%len(sizeTable))+len(sizeTable))%len(sizeTable)]
}

// toEntries converts plan writes to entries with the given seqnum source.
func (s *sim) toEntries(ws []Write, seq func() uint64) []entry {
	var out []entry
	for _, w := range ws {
		p := ((w.P % s.nkeys) + s.nkeys) % s.nkeys
		e := entry{pos: p}
		if w.E > p && w.E <= s.nkeys {
			e.end = w.E
		}
		e.seq = seq()
		out = append(out, e)
	}
	return out
}

// newFile builds the TableMetadata of a file from its contents.
func (s *sim) newFile(ents []entry, lbase bool, size uint64) *simFile {
	f := &simFile{}
	f.num = s.nextFile
	s.nextFile++
	f.lbase = lbase
	f.ents = ents
	f.b = boundsOf(ents)
	f.low, f.high = seqRange(ents)
	// Smallest internal key: the newest entry starting at key(lo).
	var sk, lk base.InternalKey
	var best uint64
	for _, e := range ents {
		if e.pos == f.b.lo && e.seq >= best {
			best = e.seq
			kind := base.InternalKeyKindSet
			if e.end != 0 {
				kind = base.InternalKeyKindRangeDelete
			}
			sk = base.MakeInternalKey(s.keys[e.pos], base.SeqNum(e.seq), kind)
		}
	}
	if f.b.excl {
		lk = base.MakeRangeDeleteSentinelKey(s.keys[f.b.hi])
	} else {
		oldest := ^uint64(0)
		for _, e := range ents {
			if e.end == 0 && e.pos == f.b.hi && e.seq < oldest {
				oldest = e.seq
			}
		}
		lk = base.MakeInternalKey(s.keys[f.b.hi], base.SeqNum(oldest), base.InternalKeyKindSet)
	}
	m := &manifest.TableMetadata{
		TableNum:              base.TableNum(f.num),
		Size:                  size,
		SeqNums:               base.SeqNumRange{Low: base.SeqNum(f.low), High: base.SeqNum(f.high)},
		LargestSeqNumAbsolute: base.SeqNum(f.high),
	}
	m.ExtendPointKeyBounds(ucmp, sk, lk)
	m.InitPhysicalBacking()
	f.meta = m
	return f
}

func (s *sim) l0InProgress(excl *comp) []manifest.L0Compaction {
	var out []manifest.L0Compaction
	for _, c := range s.comps {
		if c == excl || c.kind == "lbase" {
			continue
		}
		out = append(out, manifest.L0Compaction{Bounds: c.bounds, IsIntraL0: c.kind == "intra"})
	}
	return out
}

func sortedFiles(m map[uint64]*simFile, less func(a, b *simFile) bool) []*simFile {
	out := make([]*simFile, 0, len(m))
	for _, f := range m {
		out = append(out, f)
	}
	sort.Slice(out, func(i, j int) bool { return less(out[i], out[j]) })
	return out
}

func bySeq(a, b *simFile) bool { return seqLess(&a.fview, &b.fview) }
func byKey(a, b *simFile) bool { return a.b.lo < b.b.lo }
func byNum(a, b *simFile) bool { return a.num < b.num }

// install applies a version edit the way versionSet.UpdateVersionLocked does.
func (s *sim) install(add, del []*simFile, finishing *comp) error {
	ve := &manifest.VersionEdit{}
	if len(del) > 0 {
		ve.DeletedTables = map[manifest.DeletedTableEntry]*manifest.TableMetadata{}
	}
	lvl := func(f *simFile) int {
		if f.lbase {
			return s.baseLvl
		}
		return 0
	}
	l0Del, l0Add := 0, 0
	for _, f := range del {
		ve.DeletedTables[manifest.DeletedTableEntry{Level: lvl(f), FileNum: f.meta.TableNum}] = f.meta
		if !f.lbase {
			l0Del++
		}
	}
	// Would the added L0 files all sort after the existing ones? (label only)
	var newest *simFile
	for _, f := range s.l0 {
		if newest == nil || bySeq(newest, f) {
			newest = f
		}
	}
	onTop := true
	for _, f := range add {
		ve.NewTables = append(ve.NewTables, manifest.NewTableEntry{Level: lvl(f), Meta: f.meta})
		if !f.lbase {
			l0Add++
			if newest != nil && bySeq(f, newest) {
				onTop = false
			}
		}
	}
	var bve manifest.BulkVersionEdit
	if err := bve.Accumulate(ve); err != nil {
		return fmt.Errorf("BulkVersionEdit.Accumulate failed: %v", err)
	}
	nv, err := bve.Apply(s.v, 0)
	if err != nil {
		return fmt.Errorf("BulkVersionEdit.Apply rejected the edit (level ordering broken): %v", err)
	}
	upd := s.o.PrepareUpdate(&bve, nv)
	s.o.PerformUpdate(upd, nv)
	s.v = nv
	for _, f := range del {
		delete(s.l0, f.num)
		delete(s.lbf, f.num)
	}
	for _, f := range add {
		if f.lbase {
			s.lbf[f.num] = f
		} else {
			s.l0[f.num] = f
		}
	}
	s.o.InitCompactingFileInfo(s.l0InProgress(finishing))
	s.startedSinceInit = false
	switch {
	case l0Add > 0 && l0Del == 0 && onTop:
		s.label("l0-update:incremental")
		s.cnt["l0_updates_incremental"]++
	case l0Add > 0 && l0Del == 0:
		s.label("l0-update:rebuild-added-below")
		s.cnt["l0_updates_rebuild"]++
	case l0Add > 0 || l0Del > 0:
		s.cnt["l0_updates_rebuild"]++
	}
	return nil
}

// ---------------------------------------------------------------- oracles on the state

func (s *sim) views() []*fview {
	var out []*fview
	for _, f := range sortedFiles(s.l0, byNum) {
		out = append(out, &f.fview)
	}
	for _, f := range sortedFiles(s.lbf, byNum) {
		out = append(out, &f.fview)
	}
	return out
}

func describeLevels(levels []manifest.LevelSlice) string {
	var sb strings.Builder
	for i, ls := range levels {
		fmt.Fprintf(&sb, "0.%d:", i)
		for m := range ls.All() {
			fmt.Fprintf(&sb, " %d", m.TableNum)
		}
		sb.WriteString("; ")
	}
	return sb.String()
}

func lcfSet(l *manifest.L0CompactionFiles) string {
	if l == nil {
		return "<nil>"
	}
	var nums []int
	for _, f := range l.Files {
		nums = append(nums, int(f.TableNum))
	}
	sort.Ints(nums)
	return fmt.Sprint(nums)
}

// checkState evaluates oracles (1), (2) and (4) on the current state.
func (s *sim) checkState() error {
	// (1) sublevel soundness from the public Levels.
	seen := map[uint64]bool{}
	for i, ls := range s.o.Levels {
		var prev *simFile
		for m := range ls.All() {
			f := s.l0[uint64(m.TableNum)]
			if f == nil || f.meta != m {
				return fmt.Errorf("sublevel %d holds table %d which is not a live L0 file", i, m.TableNum)
			}
			if seen[f.num] {
				return fmt.Errorf("table %d is in two sublevels", f.num)
			}
			seen[f.num] = true
			f.sub = i
			if got := s.o.SubLevelOf(m); got != i {
				return fmt.Errorf("SubLevelOf(%d)=%d but the file is in Levels[%d]", f.num, got, i)
			}
			if prev != nil && !prev.b.endsBefore(f.b.lo) {
				return fmt.Errorf("sublevel %d: files overlap or are out of key order: %s then %s", i, &prev.fview, &f.fview)
			}
			prev = f
		}
	}
	if len(seen) != len(s.l0) {
		return fmt.Errorf("%d live L0 files but %d are in sublevels (%s)", len(s.l0), len(seen), describeLevels(s.o.Levels))
	}
	n := 0
	for m := range s.v.Levels[0].All() {
		n++
		if s.l0[uint64(m.TableNum)] == nil {
			return fmt.Errorf("version L0 holds unknown table %d", m.TableNum)
		}
	}
	if n != len(s.l0) {
		return fmt.Errorf("version L0 has %d files, model has %d", n, len(s.l0))
	}
	if describeLevels(s.v.L0SublevelFiles) != describeLevels(s.o.Levels) {
		return fmt.Errorf("Version.L0SublevelFiles differs from the organizer's Levels")
	}
	fs := sortedFiles(s.l0, byNum)
	for i, a := range fs {
		for _, b := range fs[i+1:] {
			if !a.b.overlaps(b.b) {
				continue
			}
			if a.sub == b.sub {
				return fmt.Errorf("overlapping files share sublevel %d: %s and %s", a.sub, &a.fview, &b.fview)
			}
			if (a.sub < b.sub) != bySeq(a, b) {
				return fmt.Errorf("overlapping files are not stacked in (LargestSeqNum,SmallestSeqNum,FileNum) order: %s and %s", &a.fview, &b.fview)
			}
		}
	}
	s.maxSublevels = max(s.maxSublevels, len(s.o.Levels))
	views := s.views()
	if want, got := maxCover(s.nkeys, views), s.o.ReadAmplification(); want != got {
		return fmt.Errorf("ReadAmplification()=%d but %d L0 files cover one point of the key space", got, want)
	}
	// (4) key-level level invariant on the real contents.
	if err := checkKeyLevel(s.nkeys, views, belowBySublevel); err != nil {
		return err
	}
	if err := checkDisjoint(views); err != nil {
		return err
	}
	// (2) incremental maintenance == rebuild from scratch.
	return s.checkDifferential()
}

func (s *sim) eusn() uint64 { return s.mems[0].logSeq }

func (s *sim) checkDifferential() error {
	fo := manifest.NewL0Organizer(base.DefaultComparer, s.p.FlushSplitBytes)
	var files [manifest.NumLevels][]*manifest.TableMetadata
	for _, f := range sortedFiles(s.l0, bySeq) {
		files[0] = append(files[0], f.meta)
	}
	for _, f := range sortedFiles(s.lbf, byKey) {
		files[s.baseLvl] = append(files[s.baseLvl], f.meta)
	}
	manifest.NewVersionForTesting(base.DefaultComparer, fo, files)
	fo.InitCompactingFileInfo(s.l0InProgress(nil))

	if a, b := describeLevels(s.o.Levels), describeLevels(fo.Levels); a != b {
		return fmt.Errorf("maintained sublevels differ from a from-scratch build:\n maintained: %s\n scratch:    %s", a, b)
	}
	if a, b := s.o.ReadAmplification(), fo.ReadAmplification(); a != b {
		return fmt.Errorf("ReadAmplification maintained=%d scratch=%d", a, b)
	}
	if a, b := s.o.MaxDepthAfterOngoingCompactions(), fo.MaxDepthAfterOngoingCompactions(); a != b {
		return fmt.Errorf("MaxDepthAfterOngoingCompactions maintained=%d scratch=%d", a, b)
	}
	if a, b := bytes.Join(s.o.FlushSplitKeys(), []byte(",")), bytes.Join(fo.FlushSplitKeys(), []byte(",")); !bytes.Equal(a, b) {
		return fmt.Errorf("FlushSplitKeys maintained=%q scratch=%q", a, b)
	}
	if a, b := fmt.Sprint(s.o.InUseKeyRanges(s.keys[0], s.keys[s.nkeys])), fmt.Sprint(fo.InUseKeyRanges(s.keys[0], s.keys[s.nkeys])); a != b {
		return fmt.Errorf("InUseKeyRanges maintained=%s scratch=%s", a, b)
	}
	if len(s.l0) == 0 {
		// The pickers index the interval list unconditionally; the DB never
		// asks for an L0 compaction while L0 is empty.
		return nil
	}
	// The picks are functions of the sublevel/interval structure only; they
	// must agree too, and each of them must satisfy the pick oracles.
	lb := s.v.Levels[s.baseLvl].Slice()
	lg1, lg2 := &capLogger{}, &capLogger{}
	p1 := s.o.PickBaseCompaction(lg1, 1, lb, s.baseLvl, nil)
	p2 := fo.PickBaseCompaction(lg2, 1, lb, s.baseLvl, nil)
	if len(lg1.msgs)+len(lg2.msgs) > 0 {
		return fmt.Errorf("PickBaseCompaction logged an internal error: %v %v", lg1.msgs, lg2.msgs)
	}
	if !s.startedSinceInit && lcfSet(p1) != lcfSet(p2) {
		return fmt.Errorf("PickBaseCompaction differs: maintained=%s scratch=%s", lcfSet(p1), lcfSet(p2))
	}
	eusn := s.eusn()
	i1 := s.o.PickIntraL0Compaction(base.SeqNum(eusn), 2, nil)
	i2 := fo.PickIntraL0Compaction(base.SeqNum(eusn), 2, nil)
	if !s.startedSinceInit && lcfSet(i1) != lcfSet(i2) {
		return fmt.Errorf("PickIntraL0Compaction differs: maintained=%s scratch=%s", lcfSet(i1), lcfSet(i2))
	}
	if p1 != nil {
		P, err := s.simFilesOf(p1.Files)
		if err != nil {
			return err
		}
		err = s.checkPick("probe base pick", true, P, 0, nil)
		if err != nil && err != errKnown {
			return err
		}
		s.cnt["probe_base_picks"]++
		if err == nil {
			// Also grow the probe candidate the way maybeGrowL0ForBase would
			// (p1 is not used afterwards; the organizer is not modified).
			if _, err := s.setupBase(p1, P, false, false, true); err != nil {
				return err
			}
		}
	}
	if i1 != nil {
		P, err := s.simFilesOf(i1.Files)
		if err != nil {
			return err
		}
		if err := s.checkPick("probe intra-L0 pick", false, P, eusn, nil); err != nil {
			return err
		}
		s.cnt["probe_intra_picks"]++
	}
	return nil
}

// ---------------------------------------------------------------- oracles on a pick

func (s *sim) simFilesOf(metas []*manifest.TableMetadata) ([]*simFile, error) {
	seen := map[uint64]bool{}
	var out []*simFile
	for _, m := range metas {
		f := s.l0[uint64(m.TableNum)]
		if f == nil || f.meta != m {
			return nil, fmt.Errorf("pick contains table %d which is not a live L0 file", m.TableNum)
		}
		if seen[f.num] {
			continue
		}
		seen[f.num] = true
		out = append(out, f)
	}
	if len(out) == 0 {
		return nil, fmt.Errorf("pick is non-nil but has no files")
	}
	return out, nil
}

func fileList(fs []*simFile) string {
	var sb strings.Builder
	for _, f := range fs {
		sb.WriteString("\n      ")
		sb.WriteString(f.fview.String())
	}
	return sb.String()
}

// checkPick evaluates oracle (3) and the pick-time part of (4) for the L0
// input set P. lbIn: the Lbase inputs (nil: the Lbase files overlapping P).
func (s *sim) checkPick(what string, isBase bool, P []*simFile, eusn uint64, lbIn []*simFile) error {
	in := map[uint64]bool{}
	var maxHigh uint64
	for _, f := range P {
		in[f.num] = true
		maxHigh = max(maxHigh, f.high)
	}
	fail := func(format string, a ...interface{}) error {
		return fmt.Errorf("%s %s: %s\n    pick:%s", what, s.ipDesc(), fmt.Sprintf(format, a...), fileList(P))
	}
	for _, f := range P {
		if f.meta.IsCompacting() {
			if isBase && !s.p.Strict && evid.FindingActive("C16", sigBaseIntra) && s.explainedByBaseIntra(P, in) {
				s.excluded = sigBaseIntra
				s.label("known:" + sigBaseIntra)
				return errKnown
			}
			return fail("contains file %d which is already compacting", f.num)
		}
		if !isBase && f.high > eusn {
			return fail("intra-L0 pick contains file %d with LargestSeqNum %d > earliestUnflushedSeqNum %d", f.num, f.high, eusn)
		}
	}
	// File-level closure, on bounds and the documented L0 order only.
	others := sortedFiles(s.l0, byNum)
	for _, f := range P {
		for _, g := range others {
			if in[g.num] || !f.b.overlaps(g.b) {
				continue
			}
			if isBase {
				if bySeq(g, f) {
					return fail("would leave the older overlapping L0 file %s above the output of %s", &g.fview, &f.fview)
				}
			} else if bySeq(f, g) && g.high < eusn && g.high <= maxHigh {
				return fail("would leave the newer overlapping L0 file %s below the output that absorbs %s", &g.fview, &f.fview)
			}
		}
	}
	// Key-level: execute the pick hypothetically (it could complete right now)
	// with the extreme output splits and evaluate the level invariant in the
	// seqnum-stack order.
	var rest []*fview
	for _, g := range others {
		if !in[g.num] {
			rest = append(rest, &g.fview)
		}
	}
	var merged []entry
	for _, f := range P {
		merged = append(merged, f.ents...)
	}
	if isBase {
		P0 := bnd{hi: -1}
		for _, f := range P {
			P0 = P0.union(f.b)
		}
		lbin := map[uint64]bool{}
		if lbIn == nil {
			for _, g := range sortedFiles(s.lbf, byNum) {
				if g.b.overlaps(P0) {
					lbin[g.num] = true
				}
			}
		} else {
			for _, g := range lbIn {
				lbin[g.num] = true
			}
		}
		for _, g := range sortedFiles(s.lbf, byNum) {
			if lbin[g.num] {
				merged = append(merged, g.ents...)
			} else {
				rest = append(rest, &g.fview)
			}
		}
		o := &fview{num: s.nextFile, lbase: true, ents: merged, b: boundsOf(merged)}
		o.low, o.high = seqRange(merged)
		hyp := append(rest, o)
		if err := checkKeyLevel(s.nkeys, hyp, belowBySeq); err != nil {
			return fail("executing it breaks the level invariant: %v", err)
		}
		if err := checkDisjoint(hyp); err != nil {
			return fail("executing it with its Lbase inputs breaks Lbase: %v", err)
		}
		return nil
	}
	for _, g := range sortedFiles(s.lbf, byNum) {
		rest = append(rest, &g.fview)
	}
	var allCuts []int
	for c := 1; c < s.nkeys; c++ {
		allCuts = append(allCuts, c)
	}
	for variant := 0; variant < 4; variant++ {
		ents := merged
		if variant&1 != 0 {
			ents = elide(merged)
		}
		var cuts []int
		if variant&2 != 0 {
			cuts = allCuts
		}
		hyp := append([]*fview(nil), rest...)
		for i, part := range splitEntries(ents, cuts) {
			o := &fview{num: s.nextFile + uint64(i), ents: part, b: boundsOf(part)}
			o.low, o.high = seqRange(part)
			hyp = append(hyp, o)
		}
		if err := checkKeyLevel(s.nkeys, hyp, belowBySeq); err != nil {
			return fail("executing it (elide=%t, one-output-per-key=%t) breaks the level invariant: %v", variant&1 != 0, variant&2 != 0, err)
		}
	}
	return nil
}

// explainedByBaseIntra reports whether every compacting file of the base pick P
// is of the excluded class: it is intra-L0 compacting and sits in the stack of
// some key-space point whose lower files are all in P with a non-compacting
// bottom file (i.e. it was stacked onto a seed, not pulled in from below).
func (s *sim) explainedByBaseIntra(P []*simFile, in map[uint64]bool) bool {
	all := sortedFiles(s.l0, bySeq)
	covers := func(f *simFile, i int, gap bool) bool {
		if gap {
			return f.b.lo <= i && f.b.hi > i
		}
		return f.b.lo <= i && !f.b.endsBefore(i)
	}
	for _, g := range P {
		if !g.meta.IsCompacting() {
			continue
		}
		if !g.meta.IsIntraL0Compacting {
			return false
		}
		ok := false
		for i := 0; i <= s.nkeys && !ok; i++ {
			for _, gap := range []bool{false, true} {
				if !covers(g, i, gap) {
					continue
				}
				good, first := true, true
				for _, f := range all { // bottom to top
					if f == g {
						break
					}
					if !covers(f, i, gap) {
						continue
					}
					if !in[f.num] || (first && f.meta.IsCompacting()) {
						good = false
						break
					}
					first = false
				}
				if good && !first {
					ok = true
					break
				}
			}
		}
		if !ok {
			return false
		}
	}
	return true
}

func (s *sim) ipDesc() string {
	var sb strings.Builder
	sb.WriteString("[in progress:")
	for _, c := range s.comps {
		sb.WriteString(" " + c.kind + "{")
		for _, f := range append(append([]*simFile(nil), c.l0...), c.lb...) {
			fmt.Fprintf(&sb, "%d ", f.num)
		}
		sb.WriteString("}")
	}
	sb.WriteString("]")
	return sb.String()
}

func (s *sim) dump() string {
	var sb strings.Builder
	fmt.Fprintf(&sb, "state: nkeys=%d nextSeq=%d eusn=%d %s\n  sublevels: %s\n", s.nkeys, s.nextSeq, s.eusn(), s.ipDesc(), describeLevels(s.o.Levels))
	for _, f := range sortedFiles(s.l0, bySeq) {
		c := ""
		if f.meta.IsCompacting() {
			c = " COMPACTING"
			if f.meta.IsIntraL0Compacting {
				c += "(intra)"
			}
		}
		fmt.Fprintf(&sb, "  %s%s\n", &f.fview, c)
	}
	for _, f := range sortedFiles(s.lbf, byKey) {
		c := ""
		if f.meta.IsCompacting() {
			c = " COMPACTING"
		}
		fmt.Fprintf(&sb, "  %s%s\n", &f.fview, c)
	}
	return sb.String()
}

// ---------------------------------------------------------------- operations

func (s *sim) write(ws []Write) {
	m := s.mems[len(s.mems)-1]
	m.ents = append(m.ents, s.toEntries(ws, func() uint64 { s.nextSeq++; return s.nextSeq - 1 })...)
}

func (s *sim) rotate() bool {
	if len(s.mems[len(s.mems)-1].ents) == 0 {
		return false
	}
	s.mems = append(s.mems, &memtable{logSeq: s.nextSeq})
	return true
}

// flush flushes the n oldest immutable memtables in one flush.
func (s *sim) flush(n int, st *Step) error {
	imm := len(s.mems) - 1
	if imm == 0 {
		if !s.rotate() {
			s.label("flush:nothing")
			return nil
		}
		imm = 1
	}
	if n <= 0 || n > imm {
		n = imm
	}
	var ents []entry
	for _, m := range s.mems[:n] {
		ents = append(ents, m.ents...)
	}
	if st.Elide {
		ents = elide(ents)
	}
	var add []*simFile
	for i, part := range splitEntries(ents, st.Cuts) {
		add = append(add, s.newFile(part, false, s.sizeFor(st, i)))
	}
	if len(add) > 1 {
		s.label("flush:split")
	}
	// The flushed memtables leave the queue when the version edit is applied.
	s.mems = s.mems[n:]
	s.cnt["flushes"]++
	return s.install(add, nil, nil)
}

func (s *sim) ingest(st *Step) error {
	var fileEnts [][]entry
	var bs []bnd
	for _, ws := range st.Ing {
		if len(ws) == 0 {
			continue
		}
		var ents []entry
		for _, e := range s.toEntries(ws, func() uint64 { return 0 }) {
			dup := false
			for _, x := range ents {
				dup = dup || x == e
			}
			if !dup {
				ents = append(ents, e)
			}
		}
		fileEnts = append(fileEnts, ents)
		bs = append(bs, boundsOf(ents))
	}
	for i := range bs {
		for j := i + 1; j < len(bs); j++ {
			if bs[i].overlaps(bs[j]) {
				s.label("ingest:skipped-overlapping-batch")
				return nil
			}
		}
	}
	if len(bs) == 0 {
		return nil
	}
	// An ingest that overlaps a memtable forces that memtable (and all older
	// ones) to be flushed first.
	newest := -1
	for mi, m := range s.mems {
		for _, e := range m.ents {
			eb := boundsOf([]entry{e})
			for _, b := range bs {
				if b.overlaps(eb) {
					newest = mi
				}
			}
		}
	}
	if newest >= 0 {
		if newest == len(s.mems)-1 {
			s.rotate()
		}
		s.label("ingest:forced-flush")
		if err := s.flush(newest+1, st); err != nil {
			return err
		}
	} else if len(s.mems) > 1 || len(s.mems[0].ents) > 0 {
		s.label("ingest:past-unflushed-memtable")
	}
	var add []*simFile
	for i, ents := range fileEnts {
		seq := s.nextSeq
		s.nextSeq++
		for j := range ents {
			ents[j].seq = seq
		}
		b := bs[i]
		deep := st.Deep
		if deep {
			for _, f := range s.l0 {
				deep = deep && !f.b.overlaps(b)
			}
			for _, f := range s.lbf {
				deep = deep && !f.b.overlaps(b)
			}
			for _, c := range s.comps {
				if c.kind == "base" {
					kb := s.ukb(b)
					deep = deep && !c.bounds.Overlaps(ucmp, kb)
				}
			}
		}
		if deep {
			s.label("ingest:into-lbase")
		}
		add = append(add, s.newFile(ents, deep, s.sizeFor(st, i)))
	}
	s.cnt["ingests"]++
	return s.install(add, nil, nil)
}

func metasOf(fs []*simFile) []*manifest.TableMetadata {
	out := make([]*manifest.TableMetadata, len(fs))
	for i, f := range fs {
		out[i] = f.meta
	}
	return out
}

func (s *sim) notePick(kind string, P []*simFile) {
	subs := map[int]bool{}
	for _, f := range P {
		subs[f.sub] = true
	}
	s.label("pick:" + kind)
	s.cnt["picks_"+kind]++
	if len(subs) >= 2 {
		s.label("pick:" + kind + ":multi-sublevel")
		if len(s.comps) > 0 {
			s.label("pick:" + kind + ":multi-sublevel-while-in-progress")
			s.pickMultiWhileIP = true
		}
	}
	if len(s.comps) > 0 {
		s.label("pick:while-in-progress")
	}
}

// start marks the inputs and informs the organizer, as AddInProgressLocked does.
func (s *sim) start(c *comp) {
	for _, f := range c.l0 {
		f.meta.SetCompactionState(manifest.CompactionStateCompacting)
		f.meta.IsIntraL0Compacting = c.kind == "intra"
	}
	for _, f := range c.lb {
		f.meta.SetCompactionState(manifest.CompactionStateCompacting)
	}
	s.comps = append(s.comps, c)
	if c.kind != "lbase" {
		s.startedSinceInit = true
	}
	switch c.kind {
	case "base":
		_ = s.o.UpdateStateForStartedCompaction([]manifest.LevelSlice{manifest.NewLevelSliceSeqSorted(metasOf(c.l0))}, true)
	case "intra":
		_ = s.o.UpdateStateForStartedCompaction([]manifest.LevelSlice{manifest.NewLevelSliceSeqSorted(metasOf(c.l0)), {}}, false)
	}
}

// pick mirrors pickL0/setupInputs/maybeGrowL0ForBase of compaction_picker.go.
func (s *sim) pick(st *Step) error {
	if len(s.l0) == 0 {
		s.label("pick:l0-empty")
		return nil
	}
	c, err := s.pickBase(st)
	if err != nil {
		return err
	}
	if c == nil {
		c, err = s.pickIntra(st)
		if err != nil {
			return err
		}
	}
	if c == nil {
		s.label("pick:none")
		return nil
	}
	s.start(c)
	if st.Now {
		return s.finish(c, st)
	}
	return nil
}

// setupBase mirrors the base-compaction half of pickedTableCompaction.setupInputs
// and maybeGrowL0ForBase for the candidate lcf whose L0 inputs are P: it finds
// the overlapping Lbase files, lets the organizer grow the candidate up to (not
// touching) the neighbouring Lbase files, checks the grown candidate, and
// returns the compaction, or nil if the DB would drop the candidate.
func (s *sim) setupBase(lcf *manifest.L0CompactionFiles, P []*simFile, noExtend, revert, probe bool) (*comp, error) {
	note := func(l string) {
		if !probe {
			s.label(l)
		}
	}
	start := manifest.NewLevelSliceSeqSorted(lcf.Files)
	bounds := manifest.KeyRange(ucmp, start.All())
	out := s.v.Overlaps(s.baseLvl, bounds)
	var lbIn []*simFile
	for m := range out.All() {
		if m.IsCompacting() {
			note("pick:base:rejected-lbase-compacting")
			return nil, nil
		}
		lbIn = append(lbIn, s.lbf[uint64(m.TableNum)])
	}
	bounds = manifest.ExtendKeyRange(ucmp, bounds, out.All())
	if !out.Empty() && !noExtend {
		sm, la := base.InvalidInternalKey, base.InvalidInternalKey
		_ = out.Reslice(func(first, last *manifest.LevelIterator) {
			if m := first.Prev(); m != nil {
				sm = m.Largest()
			}
			if m := last.Next(); m != nil {
				la = m.Smallest()
			}
		})
		if s.o.ExtendL0ForBaseCompactionTo(sm, la, lcf) {
			var nf []*manifest.TableMetadata
			for m := range s.v.Levels[0].All() {
				if _, ok := lcf.FilesIncluded[m.TableNum]; ok {
					nf = append(nf, m)
				}
			}
			P2, err := s.simFilesOf(nf)
			if err != nil {
				return nil, err
			}
			if probe {
				s.cnt["probe_base_extensions"]++
			} else {
				s.label("pick:base:extended")
				s.cnt["base_extensions"]++
			}
			what := "extended base pick"
			if probe {
				what = "extended probe base pick"
			}
			if err := s.checkPick(what, true, P2, 0, lbIn); err != nil {
				return nil, err
			}
			if revert {
				note("pick:base:extension-reverted")
			} else {
				P = P2
				start = manifest.NewLevelSliceSeqSorted(nf)
				bounds = manifest.ExtendKeyRange(ucmp, bounds, start.All(), out.All())
			}
		}
	}
	for _, c := range s.comps {
		if c.kind == "base" && c.bounds.Overlaps(ucmp, bounds) {
			note("pick:base:rejected-output-range-compacting")
			return nil, nil
		}
	}
	return &comp{kind: "base", l0: P, lb: lbIn, bounds: bounds}, nil
}

func (s *sim) pickBase(st *Step) (*comp, error) {
	depth := max(st.BaseDepth, 1)
	lg := &capLogger{}
	lcf := s.o.PickBaseCompaction(lg, depth, s.v.Levels[s.baseLvl].Slice(), s.baseLvl, nil)
	if len(lg.msgs) > 0 {
		return nil, fmt.Errorf("PickBaseCompaction logged an internal error: %v", lg.msgs)
	}
	if lcf == nil {
		return nil, nil
	}
	P, err := s.simFilesOf(lcf.Files)
	if err != nil {
		return nil, err
	}
	if err := s.checkPick("base pick", true, P, 0, nil); err != nil {
		if err == errKnown {
			// The DB rejects such a candidate in setupInputs (canCompactTables)
			// and falls back to the intra-L0 picker.
			return nil, nil
		}
		return nil, err
	}
	s.notePick("base", P)
	return s.setupBase(lcf, P, st.NoExtend, st.Revert, false)
}

func (s *sim) pickIntra(st *Step) (*comp, error) {
	eusn := s.eusn()
	if st.EusnLower > 0 {
		if uint64(st.EusnLower) < eusn {
			eusn -= uint64(st.EusnLower)
		} else {
			eusn = 1
		}
		s.label("pick:intra:lowered-eusn")
	}
	lcf := s.o.PickIntraL0Compaction(base.SeqNum(eusn), max(st.IntraDepth, 1), nil)
	if lcf == nil {
		return nil, nil
	}
	P, err := s.simFilesOf(lcf.Files)
	if err != nil {
		return nil, err
	}
	s.notePick("intra", P)
	if err := s.checkPick("intra-L0 pick", false, P, eusn, nil); err != nil {
		return nil, err
	}
	if len(P) < 2 {
		s.label("pick:intra:single-file-unused")
		return nil, nil
	}
	excluded := false
	for _, g := range s.l0 {
		excluded = excluded || g.high >= eusn
	}
	if excluded {
		s.label("pick:intra:with-files-at-or-above-eusn")
	}
	start := manifest.NewLevelSliceSeqSorted(lcf.Files)
	return &comp{kind: "intra", l0: P, bounds: manifest.KeyRange(ucmp, start.All())}, nil
}

func (s *sim) removeComp(c *comp) {
	for i, x := range s.comps {
		if x == c {
			s.comps = append(s.comps[:i:i], s.comps[i+1:]...)
			return
		}
	}
}

// finish completes an in-progress compaction: merge, split, install.
func (s *sim) finish(c *comp, st *Step) error {
	var ents []entry
	for _, f := range c.l0 {
		ents = append(ents, f.ents...)
	}
	for _, f := range c.lb {
		ents = append(ents, f.ents...)
	}
	var add []*simFile
	if c.kind != "lbase" {
		if st.Elide {
			ents = elide(ents)
		}
		for i, part := range splitEntries(ents, st.Cuts) {
			add = append(add, s.newFile(part, c.kind == "base", s.sizeFor(st, i)))
		}
		if len(add) > 1 {
			s.label("done:" + c.kind + ":split-outputs")
		}
	}
	del := append(append([]*simFile(nil), c.l0...), c.lb...)
	if err := s.install(add, del, c); err != nil {
		return err
	}
	// clearCompactingState
	for _, f := range del {
		f.meta.SetCompactionState(manifest.CompactionStateCompacted)
		f.meta.IsIntraL0Compacting = false
	}
	s.removeComp(c)
	s.o.InitCompactingFileInfo(s.l0InProgress(nil))
	s.startedSinceInit = false
	s.label("done:" + c.kind)
	s.cnt["completed_"+c.kind]++
	if len(s.comps) > 0 {
		s.label("done:while-others-in-progress")
	}
	return nil
}

func (s *sim) abort(c *comp) {
	for _, f := range append(append([]*simFile(nil), c.l0...), c.lb...) {
		f.meta.SetCompactionState(manifest.CompactionStateNotCompacting)
		f.meta.IsIntraL0Compacting = false
	}
	s.removeComp(c)
	s.o.InitCompactingFileInfo(s.l0InProgress(nil))
	s.startedSinceInit = false
	s.label("abort:" + c.kind)
}

func (s *sim) startLbase(st *Step) {
	lb := sortedFiles(s.lbf, byKey)
	if len(lb) == 0 {
		s.label("lbase:none")
		return
	}
	i := st.Which % len(lb)
	var in []*simFile
	for j := i; j < len(lb) && j < i+max(st.Cnt, 1); j++ {
		if lb[j].meta.IsCompacting() {
			s.label("lbase:busy")
			return
		}
		in = append(in, lb[j])
	}
	s.start(&comp{kind: "lbase", lb: in})
	s.label("lbase:started")
}

func (s *sim) apply(st *Step) error {
	switch st.Op {
	case "w":
		s.write(st.W)
	case "rot":
		s.rotate()
	case "flush":
		return s.flush(st.N, st)
	case "wf":
		s.write(st.W)
		s.rotate()
		return s.flush(0, st)
	case "ing":
		return s.ingest(st)
	case "pick":
		return s.pick(st)
	case "done":
		if len(s.comps) == 0 {
			s.label("done:nothing")
			return nil
		}
		return s.finish(s.comps[st.Which%len(s.comps)], st)
	case "abort":
		if len(s.comps) == 0 {
			return nil
		}
		s.abort(s.comps[st.Which%len(s.comps)])
	case "lbase":
		s.startLbase(st)
	default:
		return nil
	}
	return nil
}

func exec(p Plan) (evid.Outcome, error) {
	var out evid.Outcome
	s := newSim(&p)
	finishOutcome := func() {
		for l := range s.labels {
			out.Labels = append(out.Labels, l)
		}
		sort.Strings(out.Labels)
		out.Counters = s.cnt
	}
	for i := range p.Steps {
		st := &p.Steps[i]
		err := s.apply(st)
		if err == nil {
			err = s.checkState()
		}
		s.cnt["steps"]++
		if err != nil {
			finishOutcome()
			return out, fmt.Errorf("step %d (%s): %v\n%s", i, st.Op, err, s.dump())
		}
		for _, f := range s.l0 {
			if f.b.excl {
				s.label("l0:exclusive-end-bound")
				break
			}
		}
	}
	switch {
	case s.maxSublevels >= 5:
		s.label("sublevels>=5")
	case s.maxSublevels >= 3:
		s.label("sublevels=3-4")
	default:
		s.label("sublevels<3")
	}
	out.NonTrivial = s.maxSublevels >= 3 && s.pickMultiWhileIP
	out.Excluded = s.excluded
	finishOutcome()
	return out, nil
}

func TestC16(t *testing.T) {
	evid.Run(t, evid.Spec[Plan]{
		ID: "C16", Level: "exploration",
		Rule: "rapid draws a history of 6-25 steps over 2-9 user keys (writes incl. range tombstones, memtable rotation, " +
			"split flushes, ingests, picker-chosen base/intra-L0 compactions left in progress / completed with drawn output " +
			"splits / aborted, Lbase->Lbase+1 compactions); every file set is derived from that history. " +
			"non-trivial = L0 reached >=3 sublevels and some picked compaction took files from >=2 sublevels while another " +
			"compaction was in progress; distinct = hash of the plan JSON",
		Assumptions: []string{
			"file sets are those a DB can produce: derived from a simulated write/flush/ingest/compaction history (doc.go claims 1-3), not drawn freely",
			"the glue around the picker (Lbase overlap, ExtendL0ForBaseCompactionTo bounds, output-range conflict, marking, InitCompactingFileInfo) mirrors compaction_picker.go/compaction.go/version_set.go",
			"PickIntraL0Compaction may be called whenever the preceding base attempt did not yield a compaction; any earliestUnflushedSeqNum <= the true one is acceptable",
			"built without the invariants tag: pebble's own debug assertions are off",
		},
		Gen: gen, Exec: exec, Quick: 2500, Thorough: 30000,
		Known: []evid.Known[Plan]{{Signature: sigBaseIntra, Plan: Plan{NKeys: 3, BaseLevel: 6, Strict: true, Steps: []Step{
			{Op: "wf", W: []Write{{P: 2}}},            // file 1 [c]
			{Op: "wf", W: []Write{{P: 1}, {P: 2}}},    // file 2 [b-c] on top of it
			{Op: "wf", W: []Write{{P: 1}}},            // file 3 [b] on top of file 2
			{Op: "pick", BaseDepth: 9, IntraDepth: 2}, // intra-L0 {3,2} starts; then a base pick at [c] returns {1,2}
		}}}},
		Sample: func(p Plan) any {
			ops := make([]string, len(p.Steps))
			for i, st := range p.Steps {
				ops[i] = st.Op
			}
			return map[string]any{"nkeys": p.NKeys, "fsb": p.FlushSplitBytes, "ops": strings.Join(ops, " ")}
		},
	})
}
