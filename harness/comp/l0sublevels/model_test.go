package l0sublevels

// Content model used by the C16 check: every simulated sstable carries its
// explicit contents, so that the level invariant can be evaluated on keys and
// sequence numbers instead of on file bounds.
//
// The key space is nkeys "slots". Slot k is the half-open user-key interval
// [key(k), key(k+1)). A point entry lives at key(k); a range tombstone covers a
// run of whole slots [pos,end) (so its end bound is the *exclusive* key(end)).
// Two entries "share a user key" iff they cover a common slot; because all
// bounds are slot boundaries, checking every slot is complete.

import (
	"fmt"
	"sort"
	"strings"
)

type entry struct {
	pos, end int    // end == 0: point at key(pos); otherwise range tombstone over slots [pos,end)
	seq      uint64 // sequence number of the write
}

func (e entry) covers(k int) bool {
	if e.end == 0 {
		return e.pos == k
	}
	return e.pos <= k && k < e.end
}

// bnd are user-key bounds [key(lo), key(hi)] or [key(lo), key(hi)) if excl.
type bnd struct {
	lo, hi int
	excl   bool
}

func boundsOf(ents []entry) bnd {
	b := bnd{lo: 1 << 30, hi: -1}
	for _, e := range ents {
		if e.pos < b.lo {
			b.lo = e.pos
		}
		h, x := e.pos, false
		if e.end != 0 {
			h, x = e.end, true
		}
		if h > b.hi || (h == b.hi && b.excl && !x) {
			b.hi, b.excl = h, x
		}
	}
	return b
}

// endsBefore reports whether the bounds end strictly before key(p).
func (a bnd) endsBefore(p int) bool { return a.hi < p || (a.hi == p && a.excl) }

func (a bnd) overlaps(b bnd) bool { return !a.endsBefore(b.lo) && !b.endsBefore(a.lo) }

func (a bnd) union(b bnd) bnd {
	if a.hi < 0 {
		return b
	}
	r := a
	if b.lo < r.lo {
		r.lo = b.lo
	}
	if b.hi > r.hi || (b.hi == r.hi && r.excl && !b.excl) {
		r.hi, r.excl = b.hi, b.excl
	}
	return r
}

func (a bnd) String() string {
	c := "]"
	if a.excl {
		c = ")"
	}
	return fmt.Sprintf("[%c-%c%s", 'a'+a.lo, 'a'+a.hi, c)
}

func seqRange(ents []entry) (lo, hi uint64) {
	lo = ^uint64(0)
	for _, e := range ents {
		if e.seq < lo {
			lo = e.seq
		}
		if e.seq > hi {
			hi = e.seq
		}
	}
	return lo, hi
}

func normCuts(cuts []int) []int {
	cs := append([]int(nil), cuts...)
	sort.Ints(cs)
	out := cs[:0]
	for i, c := range cs {
		if i > 0 && c == cs[i-1] {
			continue
		}
		out = append(out, c)
	}
	return out
}

// splitEntries partitions entries at user-key boundaries key(c), c in cuts.
// Range tombstones are truncated at the boundaries (as flushes/compactions do).
// All versions of one user key stay in one part. Empty parts are dropped.
func splitEntries(ents []entry, cuts []int) [][]entry {
	cs := normCuts(cuts)
	parts := make([][]entry, len(cs)+1)
	partOf := func(k int) int { return sort.SearchInts(cs, k+1) } // #cuts <= k
	for _, e := range ents {
		if e.end == 0 {
			p := partOf(e.pos)
			parts[p] = append(parts[p], e)
			continue
		}
		for start := e.pos; start < e.end; {
			p := partOf(start)
			stop := e.end
			if p < len(cs) && cs[p] < stop {
				stop = cs[p]
			}
			parts[p] = append(parts[p], entry{pos: start, end: stop, seq: e.seq})
			start = stop
		}
	}
	var out [][]entry
	for _, p := range parts {
		if len(p) > 0 {
			out = append(out, p)
		}
	}
	return out
}

// elide drops point entries that are shadowed by a newer point or a newer
// range tombstone among ents (what a flush/compaction may do when no snapshot
// needs the older version). Range tombstones are always kept.
func elide(ents []entry) []entry {
	var out []entry
	for i, e := range ents {
		shadowed := false
		if e.end == 0 {
			for j, f := range ents {
				if i != j && f.seq > e.seq && f.covers(e.pos) {
					shadowed = true
					break
				}
			}
		}
		if !shadowed {
			out = append(out, e)
		}
	}
	return out
}

// fview is a file as seen by the oracles.
type fview struct {
	num       uint64
	lbase     bool
	low, high uint64 // seqnum bounds
	sub       int    // sublevel (real state only)
	b         bnd
	ents      []entry
}

// seqLess is the documented L0 order: (LargestSeqNum, SmallestSeqNum, FileNum).
func seqLess(a, b *fview) bool {
	if a.high != b.high {
		return a.high < b.high
	}
	if a.low != b.low {
		return a.low < b.low
	}
	return a.num < b.num
}

func (f *fview) String() string {
	var sb strings.Builder
	lv := "L0"
	if f.lbase {
		lv = "Lb"
	}
	fmt.Fprintf(&sb, "%s#%d%s seq[%d,%d] sub=%d {", lv, f.num, f.b, f.low, f.high, f.sub)
	for i, e := range f.ents {
		if i > 0 {
			sb.WriteByte(' ')
		}
		if e.end == 0 {
			fmt.Fprintf(&sb, "%c#%d", 'a'+e.pos, e.seq)
		} else {
			fmt.Fprintf(&sb, "[%c,%c)#%d", 'a'+e.pos, 'a'+e.end, e.seq)
		}
	}
	sb.WriteByte('}')
	return sb.String()
}

// checkKeyLevel evaluates the level invariant on contents: for every slot, the
// files that contain the slot, ordered from the bottom (Lbase) to the top of
// L0 by `below`, must hold strictly increasing, non-interleaved seqnum sets.
// below(a,b) must report whether a is strictly below b; it returns ok=false if
// the two files are not ordered (same layer), which is itself a violation when
// they share a slot.
func checkKeyLevel(nkeys int, files []*fview, below func(a, b *fview) (less, ok bool)) error {
	type item struct {
		f        *fview
		min, max uint64
	}
	for k := 0; k < nkeys; k++ {
		var items []item
		for _, f := range files {
			if f.b.lo > k || f.b.endsBefore(k) {
				continue
			}
			it := item{f: f, min: ^uint64(0)}
			for _, e := range f.ents {
				if e.covers(k) {
					if e.seq < it.min {
						it.min = e.seq
					}
					if e.seq > it.max {
						it.max = e.seq
					}
				}
			}
			if it.max != 0 {
				items = append(items, it)
			}
		}
		for i := 0; i < len(items); i++ {
			for j := i + 1; j < len(items); j++ {
				a, b := items[i], items[j]
				less, ok := below(a.f, b.f)
				if !ok {
					return fmt.Errorf("user key slot %c is in two files of the same layer: %s and %s", 'a'+k, a.f, b.f)
				}
				if !less {
					a, b = b, a
				}
				// a is below b: everything in a must be older than everything in b.
				if a.max >= b.min {
					return fmt.Errorf("level invariant broken at user key slot %c: %s (below, holds seq up to %d) vs %s (above, holds seq down to %d)",
						'a'+k, a.f, a.max, b.f, b.min)
				}
			}
		}
	}
	return nil
}

// belowBySublevel orders files of the real state: Lbase below all of L0, L0 by
// sublevel index taken from the implementation's public Levels.
func belowBySublevel(a, b *fview) (bool, bool) {
	ra, rb := a.sub+1, b.sub+1
	if a.lbase {
		ra = 0
	}
	if b.lbase {
		rb = 0
	}
	if ra == rb {
		return false, false
	}
	return ra < rb, true
}

// belowBySeq orders files of a hypothetical state without consulting the
// implementation: Lbase below L0; within L0 the seqnum-stack order.
func belowBySeq(a, b *fview) (bool, bool) {
	if a.lbase != b.lbase {
		return a.lbase, true
	}
	if a.lbase {
		return false, false
	}
	return seqLess(a, b), true
}

// checkDisjoint verifies that the Lbase files do not overlap each other.
func checkDisjoint(files []*fview) error {
	var lb []*fview
	for _, f := range files {
		if f.lbase {
			lb = append(lb, f)
		}
	}
	sort.Slice(lb, func(i, j int) bool { return lb[i].b.lo < lb[j].b.lo })
	for i := 1; i < len(lb); i++ {
		if lb[i-1].b.overlaps(lb[i].b) {
			return fmt.Errorf("Lbase files overlap: %s and %s", lb[i-1], lb[i])
		}
	}
	return nil
}

// maxCover is the largest number of L0 files covering one point of the key
// space (independent oracle for ReadAmplification).
func maxCover(nkeys int, files []*fview) int {
	best := 0
	for i := 0; i <= nkeys; i++ {
		atKey, inGap := 0, 0
		for _, f := range files {
			if f.lbase {
				continue
			}
			if f.b.lo <= i && !f.b.endsBefore(i) {
				atKey++
			}
			if f.b.lo <= i && f.b.hi > i {
				inGap++
			}
		}
		best = max(best, atKey, inGap)
	}
	return best
}
