// Package marker_options holds two checks:
//
//	C24 — atomic marker moves are all-or-nothing and durable (marker_test.go)
//	C46 — Options survive a serialize/parse round trip        (options_test.go)
package marker_options

import (
	"errors"
	"fmt"
	"io"
	"sort"
	"strings"
	"sync/atomic"
	"testing"
	"time"

	"github.com/cockroachdb/pebble/verifharness/evid"
	"github.com/cockroachdb/pebble/vfs"
	"github.com/cockroachdb/pebble/vfs/atomicfs"
	"github.com/cockroachdb/pebble/vfs/errorfs"
	"pgregory.net/rapid"
)

// ---------------------------------------------------------------- plan

// MStep is one API-level step of a marker plan.
type MStep struct {
	// Kind: move | rmobs | relocate | crash | foreign
	Kind string `json:"kind"`
	// M is the index of the marker (into MarkerPlan.Names) the step acts on.
	M int `json:"m"`
	// Value: the new value (move) or the file name to create (foreign).
	Value string `json:"value,omitempty"`
	// Fault: inject errorfs.ErrInjected on the first op of this kind inside the
	// call: "" | create | sync (marker file sync, never the directory) | remove
	// (the FaultN-th remove of the call).
	Fault  string `json:"fault,omitempty"`
	FaultN int    `json:"fault_n,omitempty"`
	// CrashOp >= 0: abandon the call immediately before its CrashOp-th mutating
	// FS operation (the process "crashes" there) and continue the plan on crash
	// image number Sel (mod the number of images of that crash point).
	// Kind == crash does the same between two calls.
	CrashOp int `json:"crash_op"`
	Sel     int `json:"sel,omitempty"`
	// SyncDir (foreign): sync the directory after creating the file(s).
	SyncDir bool `json:"sync_dir,omitempty"`
	// Count (foreign): number of files to create (Value, Value-1, Value-2...).
	Count int `json:"count,omitempty"`
}

// MInit is a marker file that exists (durably) before the first LocateMarker.
type MInit struct {
	M     int    `json:"m"`
	Iter  uint64 `json:"iter"`
	Value string `json:"value"`
}

// MarkerPlan is the plan of C24.
type MarkerPlan struct {
	Dir     string   `json:"dir"`
	Names   []string `json:"names"`
	Init    []MInit  `json:"init,omitempty"`
	Foreign []string `json:"foreign,omitempty"` // other durable files in Dir
	Steps   []MStep  `json:"steps"`
	// Masks are the drawn survival subsets used at crash points with more than
	// maxExhaustive keep() decisions (bit i = decision i survives).
	Masks []uint64 `json:"masks,omitempty"`
	// Health: the file system is additionally wrapped by vfs.WithDiskHealthChecks,
	// as Pebble does by default (Options.WithFSDefaults): errors must pass
	// through that layer unchanged.
	Health bool `json:"health,omitempty"`
}

const maxExhaustive = 6

// ---------------------------------------------------------------- generator

var markerValuePool = []string{"a", "b", "c", "000001", "x.y", "MANIFEST-000012", "", "a.000009.z", "013"}
var markerNamePool = []string{"manifest", "format-version", "m", "mm", "a", "ab"}
var markerIterPool = []uint64{1, 2, 3, 7, 10, 99, 999999, 1000000, 1 << 40}

func genMarkerValue(t *rapid.T) string {
	if rapid.IntRange(0, 9).Draw(t, "vkind") < 7 {
		return rapid.SampledFrom(markerValuePool).Draw(t, "value")
	}
	return rapid.StringOfN(rapid.RuneFrom([]rune("abz019.-_")), 0, 8, -1).Draw(t, "value")
}

func genMarker(t *rapid.T) MarkerPlan {
	var p MarkerPlan
	p.Dir = rapid.SampledFrom([]string{"", "db"}).Draw(t, "dir")
	p.Health = rapid.IntRange(0, 2).Draw(t, "health") == 0
	nNames := 1
	if rapid.IntRange(0, 9).Draw(t, "two") >= 7 {
		nNames = 2
	}
	perm := rapid.Permutation(markerNamePool).Draw(t, "names")
	p.Names = append(p.Names, perm[:nNames]...)
	for m := range p.Names {
		k := rapid.SampledFrom([]int{0, 0, 0, 1, 1, 1, 2, 2, 3}).Draw(t, "ninit")
		iters := rapid.Permutation(markerIterPool).Draw(t, "iters")
		for i := 0; i < k; i++ {
			p.Init = append(p.Init, MInit{M: m, Iter: iters[i], Value: genMarkerValue(t)})
		}
	}
	foreignPool := foreignNames(p.Names)
	nf := rapid.SampledFrom([]int{0, 0, 1, 2}).Draw(t, "nforeign")
	fperm := rapid.Permutation(foreignPool).Draw(t, "foreign")
	p.Foreign = append(p.Foreign, fperm[:nf]...)

	n := rapid.IntRange(1, 10).Draw(t, "nsteps")
	for i := 0; i < n; i++ {
		st := MStep{CrashOp: -1, M: rapid.IntRange(0, nNames-1).Draw(t, "m")}
		w := rapid.IntRange(0, 99).Draw(t, "kind")
		switch {
		case w < 52:
			st.Kind = "move"
			st.Value = genMarkerValue(t)
			// NB: rapid's integer draws are biased towards small values, so the
			// common alternative is always the low end of the range.
			switch f := rapid.IntRange(0, 19).Draw(t, "fault"); {
			case f == 11:
				// the directory sync that makes the move durable fails: Move
				// panics by design (handled as a process crash)
				st.Fault = "dirsync"
				st.Sel = rapid.IntRange(0, 1000).Draw(t, "dsel")
			case f >= 18:
				st.Fault = "create"
			case f >= 15:
				st.Fault = "sync"
			case f >= 12:
				st.Fault = "remove"
			}
			if rapid.IntRange(0, 9).Draw(t, "crashmid") >= 8 {
				st.CrashOp = rapid.IntRange(0, 4).Draw(t, "crashop")
				st.Sel = rapid.IntRange(0, 1000).Draw(t, "sel")
			}
		case w < 68:
			st.Kind = "rmobs"
			if rapid.IntRange(0, 9).Draw(t, "fault") >= 7 {
				st.Fault = "remove"
				st.FaultN = rapid.IntRange(0, 2).Draw(t, "faultn")
			}
			if rapid.IntRange(0, 9).Draw(t, "crashmid") >= 4 {
				st.CrashOp = rapid.IntRange(0, 2).Draw(t, "crashop")
				st.Sel = rapid.IntRange(0, 1000).Draw(t, "sel")
			}
		case w < 78:
			st.Kind = "relocate"
		case w < 86:
			st.Kind = "crash"
			st.Sel = rapid.IntRange(0, 1000).Draw(t, "sel")
		default:
			st.Kind = "foreign"
			st.Value = rapid.SampledFrom(foreignPool).Draw(t, "fname")
			st.SyncDir = rapid.IntRange(0, 9).Draw(t, "syncdir") >= 8
			st.Count = rapid.SampledFrom([]int{1, 1, 2, 4, 7}).Draw(t, "count")
		}
		p.Steps = append(p.Steps, st)
	}
	for i := 0; i < 4; i++ {
		p.Masks = append(p.Masks, rapid.Uint64().Draw(t, "mask"))
	}
	return p
}

// foreignNames returns names of files that may legitimately live next to the
// markers: non-marker files, and well-formed marker files of *other* marker
// names (scanForMarker requires every "marker."-prefixed file to be well
// formed, vfs/atomicfs/marker.go:83-88).
func foreignNames(names []string) []string {
	out := []string{"MANIFEST-000001", "OPTIONS-000003", "markerfoo", "marker", "000002.log", "CURRENT",
		"marker.zz.000050.q", "marker.zz.000051.r", "marker.ZZ.999999.a"}
	for _, n := range names {
		// A different marker whose name has ours as a prefix, with a high iter.
		out = append(out, "marker."+n+"x.900000.w", "marker."+n+"x.900001.")
	}
	return out
}

// ---------------------------------------------------------------- executor

type crashSentinel struct{}

type dirOp struct {
	remove bool
	path   string
}

type crashImage struct {
	fs   *vfs.MemFS
	desc string
}

type markerRun struct {
	healthCloser io.Closer
	p            MarkerPlan
	mem          *vfs.MemFS
	fs           vfs.FS
	markers      []*atomicfs.Marker
	// acc[m] is the set of values a crash image (or a live read) may show for
	// marker m right now.
	acc []map[string]struct{}
	// pending are the directory mutations of Dir performed since the last
	// directory sync, in order (for the ordered-prefix crash model).
	pending []dirOp

	armed bool
	// per-step state
	stepIdx   int
	step      MStep
	stepOp    int
	faultSeen int
	faulted   bool
	moveInFly bool
	crashImg  *crashImage

	viol error

	// measurements
	crashPoints, images, exhaustivePts, sampledPts, prefixImages int
	betweenCreateAndSync                                         int
	maxDecisions                                                 int
	labels                                                       map[string]struct{}
}

func (r *markerRun) label(l string) { r.labels[l] = struct{}{} }

func (r *markerRun) fail(format string, args ...any) {
	if r.viol == nil {
		r.viol = fmt.Errorf("step %d (%s): %s", r.stepIdx, r.stepDesc(), fmt.Sprintf(format, args...))
	}
}

func (r *markerRun) stepDesc() string {
	if r.stepIdx < 0 {
		return "setup"
	}
	s := r.step
	return fmt.Sprintf("%s m=%d value=%q fault=%q crash_op=%d", s.Kind, s.M, s.Value, s.Fault, s.CrashOp)
}

func accString(a map[string]struct{}) string {
	var vs []string
	for v := range a {
		vs = append(vs, fmt.Sprintf("%q", v))
	}
	sort.Strings(vs)
	return "{" + strings.Join(vs, ",") + "}"
}

func listing(fs vfs.FS, dir string) string {
	ls, err := fs.List(dir)
	if err != nil {
		return "list error: " + err.Error()
	}
	sort.Strings(ls)
	return "[" + strings.Join(ls, " ") + "]"
}

// inject is the errorfs injector: it runs BEFORE every FS operation.
func (r *markerRun) inject(op errorfs.Op) error {
	if !r.armed || !op.Kind.IsWrite() {
		return nil
	}
	// Every mutating operation is a crash point: the state before it.
	imgs := r.checkCrashPoint(fmt.Sprintf("before op#%d %v(%s)", r.stepOp, opName(op.Kind), op.Path))
	if r.step.CrashOp >= 0 && r.step.Kind != "crash" && r.stepOp == r.step.CrashOp {
		r.crashImg = &imgs[r.step.Sel%len(imgs)]
		r.stepOp++
		panic(crashSentinel{})
	}
	r.stepOp++
	// Fault injection.
	if !r.faulted {
		match := false
		switch r.step.Fault {
		case "create":
			match = op.Kind == errorfs.OpCreate
		case "sync":
			match = op.Kind == errorfs.OpFileSync && op.Path != r.p.Dir
		case "dirsync":
			match = op.Kind == errorfs.OpFileSync && op.Path == r.p.Dir
		case "remove":
			if op.Kind == errorfs.OpRemove {
				match = r.faultSeen == r.step.FaultN
				r.faultSeen++
			}
		}
		if match {
			r.faulted = true
			r.label("fault=" + r.step.Fault)
			return errorfs.ErrInjected
		}
	}
	if r.step.Kind == "rmobs" && op.Kind == errorfs.OpRemove {
		r.label("rmobs-removed-a-file")
	}
	// Track directory mutations for the ordered-prefix model.
	switch op.Kind {
	case errorfs.OpCreate:
		r.pending = append(r.pending, dirOp{path: op.Path})
	case errorfs.OpRemove:
		r.pending = append(r.pending, dirOp{remove: true, path: op.Path})
	case errorfs.OpFileSync:
		if op.Path == r.p.Dir {
			r.pending = nil
		}
	}
	return nil
}

func opName(k errorfs.OpKind) string {
	switch k {
	case errorfs.OpCreate:
		return "create"
	case errorfs.OpRemove:
		return "remove"
	case errorfs.OpFileSync:
		return "sync"
	}
	return fmt.Sprintf("op%d", int(k))
}

// checkCrashPoint enumerates the crash images of the current filesystem state
// and checks every marker on every image. It returns the images.
func (r *markerRun) checkCrashPoint(where string) []crashImage {
	r.crashPoints++
	// Pass 1: keep everything, recording the decisions (the "all" image).
	type dec struct {
		path  string
		block int
	}
	var decs []dec
	index := map[dec]int{}
	all := r.mem.VerifCrashClone(func(path string, block int) bool {
		d := dec{path, block}
		if _, ok := index[d]; !ok {
			index[d] = len(decs)
			decs = append(decs, d)
		}
		return true
	})
	n := len(decs)
	if n > r.maxDecisions {
		r.maxDecisions = n
	}
	// Is a marker file of the moving marker among the unsynced entries?
	if r.moveInFly {
		pfx := "marker." + r.p.Names[r.step.M] + "."
		for _, d := range decs {
			if d.block == -1 && strings.HasPrefix(d.path[strings.LastIndexByte(d.path, '/')+1:], pfx) {
				r.betweenCreateAndSync++
				break
			}
		}
	}
	describe := func(mask uint64) string {
		var kept []string
		for i, d := range decs {
			if mask&(1<<uint(i)) != 0 {
				kept = append(kept, fmt.Sprintf("%s#%d", d.path, d.block))
			}
		}
		return fmt.Sprintf("MemFS model, %d unsynced items, surviving=%v", n, kept)
	}
	clone := func(mask uint64) *vfs.MemFS {
		return r.mem.VerifCrashClone(func(path string, block int) bool {
			i, ok := index[dec{path, block}]
			return ok && i < 64 && mask&(1<<uint(i)) != 0
		})
	}
	var imgs []crashImage
	if n <= maxExhaustive {
		r.exhaustivePts++
		full := uint64(1)<<uint(n) - 1
		for mask := uint64(0); mask < full; mask++ {
			imgs = append(imgs, crashImage{clone(mask), describe(mask)})
		}
		imgs = append(imgs, crashImage{all, describe(full)})
	} else {
		r.sampledPts++
		full := ^uint64(0)
		if n < 64 {
			full = uint64(1)<<uint(n) - 1
		}
		imgs = append(imgs, crashImage{clone(0), describe(0)}, crashImage{all, describe(full)})
		for _, m := range r.p.Masks {
			imgs = append(imgs, crashImage{clone(m & full), describe(m & full)})
		}
	}
	// Ordered-prefix model: the synced state plus the first k directory
	// mutations since the last directory sync, in order (a metadata-journaling
	// filesystem). Unlike MemFS's own model this includes persisted unlinks.
	for k := 1; k <= len(r.pending); k++ {
		img := clone(0)
		var applied []string
		for _, op := range r.pending[:k] {
			if op.remove {
				_ = img.Remove(op.path)
				applied = append(applied, "remove "+op.path)
			} else {
				f, err := img.Create(op.path, vfs.WriteCategoryUnspecified)
				if err == nil {
					_ = f.Sync()
					_ = f.Close()
				}
				applied = append(applied, "create "+op.path)
			}
		}
		if d, err := img.OpenDir(r.p.Dir); err == nil {
			_ = d.Sync()
			_ = d.Close()
		}
		r.prefixImages++
		imgs = append(imgs, crashImage{img, fmt.Sprintf("ordered-prefix model, synced state + %v", applied)})
	}
	for _, im := range imgs {
		r.images++
		for m, name := range r.p.Names {
			v, err := atomicfs.ReadMarker(im.fs, r.p.Dir, name)
			if err != nil {
				r.fail("crash point %s: image (%s) %s: ReadMarker(%q) failed: %v", where, im.desc, listing(im.fs, r.p.Dir), name, err)
				continue
			}
			if _, ok := r.acc[m][v]; !ok {
				r.fail("crash point %s: image (%s) %s: marker %q reads %q, acceptable values are %s",
					where, im.desc, listing(im.fs, r.p.Dir), name, v, accString(r.acc[m]))
			}
		}
	}
	return imgs
}

// liveCheck verifies the live filesystem shows an acceptable value.
func (r *markerRun) liveCheck(when string) {
	for m, name := range r.p.Names {
		v, err := atomicfs.ReadMarker(r.mem, r.p.Dir, name)
		if err != nil {
			r.fail("%s: live ReadMarker(%q) failed: %v", when, name, err)
			continue
		}
		if _, ok := r.acc[m][v]; !ok {
			r.fail("%s: live marker %q reads %q %s, acceptable values are %s", when, name, v, listing(r.mem, r.p.Dir), accString(r.acc[m]))
		}
	}
}

func (r *markerRun) countFiles(m int) int {
	ls, _ := r.mem.List(r.p.Dir)
	c := 0
	for _, f := range ls {
		if strings.HasPrefix(f, "marker."+r.p.Names[m]+".") {
			c++
		}
	}
	return c
}

// locate (re)opens marker m on the live filesystem.
// wrapFS builds the file-system stack over r.mem.
func (r *markerRun) wrapFS() {
	if r.healthCloser != nil {
		_ = r.healthCloser.Close()
		r.healthCloser = nil
	}
	r.fs = errorfs.Wrap(r.mem, errorfs.InjectorFunc(r.inject))
	if r.p.Health {
		r.fs, r.healthCloser = vfs.WithDiskHealthChecks(r.fs, time.Hour, nil, func(vfs.DiskSlowInfo) {})
		r.label("disk-health-fs")
	}
}

func (r *markerRun) locate(m int) {
	if r.markers[m] != nil {
		_ = r.markers[m].Close()
		r.markers[m] = nil
	}
	if r.countFiles(m) > 1 {
		r.label("locate-with-obsolete")
	}
	mk, v, err := atomicfs.LocateMarker(r.fs, r.p.Dir, r.p.Names[m])
	if err != nil {
		r.fail("LocateMarker(%q) failed: %v %s", r.p.Names[m], err, listing(r.mem, r.p.Dir))
		return
	}
	r.markers[m] = mk
	if _, ok := r.acc[m][v]; !ok {
		r.fail("LocateMarker(%q) returned %q %s, acceptable values are %s", r.p.Names[m], v, listing(r.mem, r.p.Dir), accString(r.acc[m]))
	}
	// The located value is the live value; until the next Move it is the only
	// acceptable one only if it was durable, so acc is left unchanged.
}

// switchTo makes a crash image the live filesystem ("reboot").
func (r *markerRun) switchTo(im *crashImage) {
	for m := range r.markers {
		if r.markers[m] != nil {
			func() {
				defer func() { _ = recover() }()
				_ = r.markers[m].Close()
			}()
			r.markers[m] = nil
		}
	}
	r.mem = im.fs
	r.wrapFS()
	r.pending = nil
	for m, name := range r.p.Names {
		v, err := atomicfs.ReadMarker(r.mem, r.p.Dir, name)
		if err != nil {
			r.fail("after reboot on image (%s): ReadMarker(%q) failed: %v", im.desc, name, err)
			return
		}
		// Already verified to be acceptable at the crash point. Everything in an
		// image is durable, so from now on it is the only acceptable value.
		r.acc[m] = map[string]struct{}{v: {}}
	}
	for m := range r.p.Names {
		r.locate(m)
	}
}

func execMarker(p MarkerPlan) (evid.Outcome, error) {
	var out evid.Outcome
	if len(p.Names) == 0 {
		return out, nil
	}
	r := &markerRun{p: p, labels: map[string]struct{}{}, stepIdx: -1}
	r.mem = vfs.NewCrashableMem()
	// ---- setup, durable.
	if p.Dir != "" {
		if err := r.mem.MkdirAll(p.Dir, 0o755); err != nil {
			return out, fmt.Errorf("harness: %v", err)
		}
	}
	r.acc = make([]map[string]struct{}, len(p.Names))
	best := make([]uint64, len(p.Names))
	for m := range p.Names {
		r.acc[m] = map[string]struct{}{"": {}}
	}
	create := func(name string) error {
		f, err := r.mem.Create(r.mem.PathJoin(p.Dir, name), vfs.WriteCategoryUnspecified)
		if err != nil {
			return err
		}
		if err := f.Sync(); err != nil {
			return err
		}
		return f.Close()
	}
	for _, in := range p.Init {
		if in.M < 0 || in.M >= len(p.Names) || in.Iter == 0 {
			continue
		}
		if err := create(fmt.Sprintf("marker.%s.%06d.%s", p.Names[in.M], in.Iter, in.Value)); err != nil {
			return out, fmt.Errorf("harness: %v", err)
		}
		if in.Iter > best[in.M] {
			best[in.M] = in.Iter
			r.acc[in.M] = map[string]struct{}{in.Value: {}}
		}
	}
	if len(p.Init) > 1 {
		r.label("init-files>1")
	}
	for _, f := range p.Foreign {
		if err := create(f); err != nil {
			return out, fmt.Errorf("harness: %v", err)
		}
	}
	for _, d := range []string{p.Dir, ""} {
		df, err := r.mem.OpenDir(d)
		if err != nil {
			return out, fmt.Errorf("harness: %v", err)
		}
		_ = df.Sync()
		_ = df.Close()
	}
	r.wrapFS()
	r.markers = make([]*atomicfs.Marker, len(p.Names))
	for m := range p.Names {
		r.locate(m)
	}
	r.armed = true
	r.checkCrashPoint("initial state")

	moves, okMoves := 0, 0
	for i, st := range p.Steps {
		if r.viol != nil {
			break
		}
		if st.M < 0 || st.M >= len(p.Names) {
			continue
		}
		r.stepIdx, r.step, r.stepOp, r.faultSeen, r.faulted, r.crashImg = i, st, 0, 0, false, nil
		crashed := false
		func() {
			defer func() {
				r.moveInFly = false
				if x := recover(); x != nil {
					if _, ok := x.(crashSentinel); ok {
						crashed = true
						return
					}
					if e, ok := x.(error); ok && errors.Is(e, errorfs.ErrInjected) && st.Kind == "move" && st.Fault == "dirsync" && r.faulted {
						// Move panics when the directory sync fails (marker.go): the
						// process dies; reboot on one of the crash images of this state.
						r.label("move-panics-on-dirsync-error")
						imgs := r.checkCrashPoint("after Move panicked on the failed directory sync")
						im := imgs[st.Sel%len(imgs)]
						r.crashImg = &im
						crashed = true
						return
					}
					panic(x)
				}
			}()
			switch st.Kind {
			case "move":
				if r.markers[st.M] == nil {
					return
				}
				moves++
				// While the Move is in flight (and after a failed Move) a reader may
				// see the old or the new value (marker.go:181-188).
				r.acc[st.M][st.Value] = struct{}{}
				r.moveInFly = true
				err := r.markers[st.M].Move(st.Value)
				r.moveInFly = false
				switch {
				case err == nil:
					// "If Move returns a nil error, the new marker value is guaranteed
					// to be persisted to stable storage."
					okMoves++
					r.acc[st.M] = map[string]struct{}{st.Value: {}}
				case errors.Is(err, errorfs.ErrInjected):
					r.label("move-error")
				default:
					r.fail("Move(%q) failed without an injected fault: %v", st.Value, err)
				}
			case "rmobs":
				if r.markers[st.M] == nil {
					return
				}
				if r.countFiles(st.M) > 1 {
					r.label("rmobs-with-obsolete-on-disk")
				}
				err := r.markers[st.M].RemoveObsolete()
				if err != nil && !errors.Is(err, errorfs.ErrInjected) {
					r.fail("RemoveObsolete failed without an injected fault: %v", err)
				}
			case "relocate":
				r.locate(st.M)
			case "foreign":
				for k := 0; k < max(1, min(st.Count, 8)); k++ {
					name := st.Value
					if k > 0 {
						name = fmt.Sprintf("%s-%d", st.Value, k)
					}
					f, err := r.fs.Create(r.fs.PathJoin(p.Dir, name), vfs.WriteCategoryUnspecified)
					if err == nil {
						_ = f.Close()
					}
				}
				if st.SyncDir {
					if d, err := r.fs.OpenDir(p.Dir); err == nil {
						_ = d.Sync()
						_ = d.Close()
					}
				}
			case "crash":
			}
		}()
		if r.viol != nil {
			break
		}
		if crashed {
			r.label("crash-mid-" + st.Kind)
			if strings.HasPrefix(r.crashImg.desc, "ordered-prefix") {
				r.label("reboot-on-prefix-image")
			}
			r.switchTo(r.crashImg)
			continue
		}
		// The state after the last operation of the call is a crash point too.
		imgs := r.checkCrashPoint("after the call returned")
		r.liveCheck("after the call returned")
		if st.Kind == "crash" {
			r.label("crash-between-calls")
			im := imgs[st.Sel%len(imgs)]
			if strings.HasPrefix(im.desc, "ordered-prefix") {
				r.label("reboot-on-prefix-image")
			}
			r.switchTo(&im)
		}
	}
	for m := range r.markers {
		if r.markers[m] != nil {
			_ = r.markers[m].Close()
		}
	}

	// ---- outcome
	out.NonTrivial = r.betweenCreateAndSync > 0
	switch {
	case moves == 0:
		r.label("moves=0")
	case moves <= 2:
		r.label("moves=1-2")
	default:
		r.label("moves>=3")
	}
	if len(p.Names) > 1 {
		r.label("two-markers")
	}
	if r.sampledPts > 0 {
		r.label("subsets=sampled-at-some-point")
	} else {
		r.label("subsets=all-exhaustive")
	}
	if r.maxDecisions >= 2 {
		r.label("unsynced-items>=2")
	}
	if r.prefixImages > 0 {
		r.label("has-prefix-images")
	}
	for l := range r.labels {
		out.Labels = append(out.Labels, l)
	}
	sort.Strings(out.Labels)
	out.Counters = map[string]int{
		"crash_points":                   r.crashPoints,
		"crash_images":                   r.images,
		"crash_points_exhaustive_subset": r.exhaustivePts,
		"crash_points_sampled_subset":    r.sampledPts,
		"ordered_prefix_images":          r.prefixImages,
		"points_between_create_and_sync": r.betweenCreateAndSync,
		"moves":                          moves,
		"moves_returned_nil":             okMoves,
	}
	markerTotals.points.Add(int64(r.crashPoints))
	markerTotals.sampled.Add(int64(r.sampledPts))
	return out, r.viol
}

var markerTotals struct{ points, sampled atomic.Int64 }

func TestC24(t *testing.T) {
	evid.Run(t, evid.Spec[MarkerPlan]{
		ID: "C24", Level: "fault_enumeration",
		Rule: "rapid draws a plan: directory, 1-2 marker names, 0-3 durable pre-existing marker files per marker (obsolete ones included), " +
			"foreign files, 1-10 steps of Move (optionally with an injected create/file-sync/remove error) / RemoveObsolete / re-LocateMarker / " +
			"foreign file creation / crash-and-reboot (between calls or before the k-th mutating op of a call). Exec takes crash images before EVERY " +
			"mutating FS op and after every call: all 2^n survival subsets of MemFS's model when n<=6 unsynced items (else none/all/4 drawn), plus " +
			"every in-order prefix of the unsynced directory mutations. non-trivial = at least one crash point lay between the creation of the new " +
			"marker file and the directory sync of a Move; distinct = hash of the plan JSON",
		Assumptions: []string{
			"crash model 1 is exactly MemFS's (VerifCrashClone): synced state always, each unsynced directory entry / 4KiB block independently; an unsynced unlink is never persisted",
			"crash model 2 (ordered prefix): directory mutations since the last directory sync persist as an in-order prefix, including unlinks (metadata-journaling filesystems); it is not MemFS's model and is the only one in which the create-before-remove order of Move matters",
			"errors are injected only where Move/RemoveObsolete return them to the caller (create, marker-file sync, remove); a failing directory sync panics by contract (marker.go:188) and is not injected",
			"single process, no concurrent use of a Marker (marker.go:113-115)",
		},
		Gen: genMarker, Exec: execMarker,
		Quick: 3000, Thorough: 40000,
		ShrinkTime: 10 * time.Second,
		ExtraCoverage: func() map[string]any {
			return map[string]any{
				"exhaustive_crash_points":      true,
				"crash_points_total":           markerTotals.points.Load(),
				"crash_points_sampled_subsets": markerTotals.sampled.Load(),
			}
		},
	})
}
