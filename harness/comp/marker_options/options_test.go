package marker_options

import (
	"fmt"
	"math"
	"sort"
	"strings"
	"sync"
	"testing"
	"time"

	"github.com/cockroachdb/pebble"
	"github.com/cockroachdb/pebble/internal/testkeys"
	"github.com/cockroachdb/pebble/objstorage/remote"
	"github.com/cockroachdb/pebble/sstable/block"
	"github.com/cockroachdb/pebble/sstable/colblk"
	"github.com/cockroachdb/pebble/sstable/tablefilters"
	"github.com/cockroachdb/pebble/sstable/tablefilters/binaryfuse"
	"github.com/cockroachdb/pebble/sstable/tablefilters/bloom"
	"github.com/cockroachdb/pebble/verifharness/evid"
	"github.com/cockroachdb/pebble/vfs"
	"github.com/cockroachdb/pebble/wal"
	"pgregory.net/rapid"
)

// ---------------------------------------------------------------- plan
//
// Every field is plain data. Zero means "leave the Options field unset" (the
// documented default is then filled in by EnsureDefaults) unless noted.

type LevelPlan struct {
	BlockRestartInterval int    `json:"bri,omitempty"`
	BlockSize            int    `json:"bs,omitempty"`
	BlockSizeThreshold   int    `json:"bst,omitempty"`
	IndexBlockSize       int    `json:"ibs,omitempty"`
	Compression          string `json:"comp,omitempty"`   // profile name
	Filter               string `json:"filter,omitempty"` // policy name
	TargetFileSize       int64  `json:"tfs,omitempty"`
}

type ValSepPlan struct {
	Enabled                bool    `json:"enabled"`
	MinimumSize            int     `json:"min_size"`
	MinimumMVCCGarbageSize int     `json:"min_mvcc"`
	MaxBlobReferenceDepth  int     `json:"depth"`
	RewriteMinimumAge      int64   `json:"age"`
	Low                    float64 `json:"low"`
	High                   float64 `json:"high"`
}

type WALFailoverPlan struct {
	SecondaryDir       string `json:"dir"`
	SecondaryID        string `json:"id,omitempty"`
	ProbeInterval      int64  `json:"probe,omitempty"`
	HealthyLatency     int64  `json:"healthy_latency,omitempty"`
	HealthyInterval    int64  `json:"healthy_interval,omitempty"`
	UnhealthySampling  int64  `json:"unhealthy_sampling,omitempty"`
	UnhealthyThreshold *int64 `json:"unhealthy_threshold,omitempty"`
	ThresholdEnabled   bool   `json:"threshold_enabled,omitempty"`
	ElevatedLag        int64  `json:"elevated_lag,omitempty"`
}

type OptionsPlan struct {
	BytesPerSync                int      `json:"bytes_per_sync,omitempty"`
	CacheSize                   int64    `json:"cache_size,omitempty"`
	Cleaner                     string   `json:"cleaner,omitempty"` // "" | delete | archive | verif-cleaner
	CompactionDebtConcurrency   uint64   `json:"debt,omitempty"`
	GarbageFraction             *float64 `json:"garbage_fraction,omitempty"`
	Comparer                    string   `json:"comparer,omitempty"` // "" | default | testkeys | custom
	DisableWAL                  bool     `json:"disable_wal,omitempty"`
	DisableIngestAsFlushable    *bool    `json:"disable_iaf,omitempty"`
	FlushDelayDeleteRange       int64    `json:"fd_delrange,omitempty"`
	FlushDelayRangeKey          int64    `json:"fd_rangekey,omitempty"`
	FlushSplitBytes             int64    `json:"flush_split,omitempty"`
	FormatMajorVersion          uint64   `json:"fmv,omitempty"`
	KeySchemaBundle             int      `json:"ks_bundle,omitempty"` // 0 default; >0 DefaultKeySchema(cmp, n); -1 custom-named schema
	L0CompactionConcurrency     int      `json:"l0cc,omitempty"`
	L0CompactionFileThreshold   int      `json:"l0cft,omitempty"`
	L0CompactionThreshold       int      `json:"l0ct,omitempty"`
	L0StopWritesThreshold       int      `json:"l0swt,omitempty"`
	LBaseMaxBytes               int64    `json:"lbase,omitempty"`
	LevelMultiplier             int      `json:"level_mult,omitempty"`
	ConcLower                   int      `json:"conc_lower,omitempty"` // both 0: unset
	ConcUpper                   int      `json:"conc_upper,omitempty"`
	MaxConcurrentDownloads      int      `json:"downloads,omitempty"`
	MaxManifestFileSize         int64    `json:"manifest_size,omitempty"`
	MaxOpenFiles                int      `json:"open_files,omitempty"`
	MemTableSize                uint64   `json:"memtable,omitempty"`
	MemTableStopWritesThreshold int      `json:"memtable_stop,omitempty"`
	MinDeletionRate             *uint64  `json:"min_del_rate,omitempty"`
	FreeSpaceThresholdBytes     uint64   `json:"free_space,omitempty"`
	FreeSpaceTimeframe          int64    `json:"free_space_tf,omitempty"`
	BacklogTimeframe            int64    `json:"backlog_tf,omitempty"`
	Merger                      string   `json:"merger,omitempty"`    // "" | default | custom
	Heuristic                   string   `json:"heuristic,omitempty"` // "" | none | wamp
	WampPropensity              float64  `json:"wamp_p,omitempty"`
	WampAllowL0                 bool     `json:"wamp_l0,omitempty"`
	ReadCompactionRate          int64    `json:"read_rate,omitempty"`
	ReadSamplingMultiplier      int64    `json:"read_mult,omitempty"`
	NumDeletionsThreshold       int      `json:"num_del,omitempty"`
	DeletionSizeRatioThreshold  float32  `json:"del_ratio,omitempty"`
	TombstoneDense              *float64 `json:"tombstone_dense,omitempty"`
	FileCacheShards             int      `json:"shards,omitempty"`
	ValidateOnIngest            bool     `json:"validate_ingest,omitempty"`
	WALDir                      string   `json:"wal_dir,omitempty"`
	WALBytesPerSync             int      `json:"wal_bps,omitempty"`
	SecondaryCacheSizeBytes     int64    `json:"sec_cache,omitempty"`
	CreateOnShared              int      `json:"create_on_shared,omitempty"`
	IterTrackPoll               int64    `json:"it_poll,omitempty"`
	IterTrackMaxAge             int64    `json:"it_age,omitempty"`
	PrivDeleteOnly              bool     `json:"p_delonly,omitempty"`
	PrivElisionOnly             bool     `json:"p_elision,omitempty"`
	PrivLazyCombined            bool     `json:"p_lazy,omitempty"`

	ValSep      *ValSepPlan      `json:"valsep,omitempty"`
	WALFailover *WALFailoverPlan `json:"wal_failover,omitempty"`
	Levels      [7]LevelPlan     `json:"levels"`

	StoreDir string `json:"store_dir"`
	// NilHooks: parse with hooks == nil. Honoured only when everything in the
	// plan is resolvable without hooks.
	NilHooks bool `json:"nil_hooks,omitempty"`
	// Demo: known-finding demonstration; do not apply the known-finding exclusion.
	Demo bool `json:"demo,omitempty"`
}

// ---------------------------------------------------------------- user-defined pieces resolvable through ParseHooks

const (
	customComparerName  = "verif.comparer-v1"
	customMergerName    = "verif.merge_operator"
	customCleanerName   = "verif-cleaner"
	customKeySchemaName = "verif.KeySchema(x;2)"
)

type verifCleaner struct{ pebble.DeleteCleaner }

func (verifCleaner) String() string { return customCleanerName }

var (
	customComparer = func() *pebble.Comparer {
		c := *pebble.DefaultComparer
		c.Name = customComparerName
		return &c
	}()
	customMerger = func() *pebble.Merger {
		m := *pebble.DefaultMerger
		m.Name = customMergerName
		return &m
	}()
)

func comparerOf(name string) *pebble.Comparer {
	switch name {
	case "default":
		return pebble.DefaultComparer
	case "testkeys":
		return testkeys.Comparer
	case "custom":
		return customComparer
	}
	return nil
}

func customKeySchema(cmp *pebble.Comparer) pebble.KeySchema {
	ks := colblk.DefaultKeySchema(cmp, 16)
	ks.Name = customKeySchemaName
	return ks
}

func parseHooks(unknown *[]string) *pebble.ParseHooks {
	return &pebble.ParseHooks{
		NewCleaner: func(name string) (pebble.Cleaner, error) {
			if name == customCleanerName {
				return verifCleaner{}, nil
			}
			return nil, fmt.Errorf("hook: unknown cleaner %q", name)
		},
		NewComparer: func(name string) (*pebble.Comparer, error) {
			if name == customComparerName {
				return customComparer, nil
			}
			return nil, fmt.Errorf("hook: unknown comparer %q", name)
		},
		NewFilterPolicy: func(name string) (pebble.TableFilterPolicy, error) {
			if p, ok := tablefilters.PolicyFromName(name); ok {
				return p, nil
			}
			return nil, fmt.Errorf("hook: unknown filter policy %q", name)
		},
		NewKeySchema: func(name string) (pebble.KeySchema, error) {
			if name == customKeySchemaName {
				return customKeySchema(pebble.DefaultComparer), nil
			}
			return pebble.KeySchema{}, fmt.Errorf("hook: unknown key schema %q", name)
		},
		NewMerger: func(name string) (*pebble.Merger, error) {
			if name == customMergerName {
				return customMerger, nil
			}
			return nil, fmt.Errorf("hook: unknown merger %q", name)
		},
		OnUnknown: func(name, value string) {
			*unknown = append(*unknown, name)
		},
	}
}

// ---------------------------------------------------------------- generator

var compressionNames = []string{"NoCompression", "Snappy", "ZSTD", "MinLZ", "Fastest", "Fast", "Balanced", "Good"}

const sigConcurrency = "concurrency-lower-gt-upper"
const sigDelRatio = "deletion-size-ratio-below-print-precision"

// unset draws true with a probability of roughly 1/3 (rapid's integer draws are
// biased towards the low end, so the test is at the high end).
func unset(t *rapid.T, label string) bool {
	return rapid.IntRange(0, 9).Draw(t, label+"?") >= unsetThreshold
}

// unsetThreshold is the per-plan sparsity knob; genOptions sets it from a draw
// before anything else (rapid runs generators on one goroutine).
var unsetThreshold = 7

func genInt64(t *rapid.T, label string, lo, hi int64) int64 {
	near := hi
	if hi-lo > 1000 {
		near = lo + 1000
	}
	return rapid.OneOf(
		rapid.Int64Range(lo, hi),
		rapid.Int64Range(lo, near),
		rapid.SampledFrom([]int64{lo, hi, clamp64(1<<20, lo, hi), clamp64(math.MaxInt32, lo, hi), clamp64(math.MaxInt32+1, lo, hi)}),
	).Draw(t, label)
}

func pick(c bool, a, b int) int {
	if c {
		return a
	}
	return b
}

func clamp64(v, lo, hi int64) int64 { return max(lo, min(hi, v)) }

func genPosInt64(t *rapid.T, label string) int64 {
	if unset(t, label) {
		return 0
	}
	return genInt64(t, label, 1, math.MaxInt64)
}

func genPosInt(t *rapid.T, label string, hi int) int {
	if unset(t, label) {
		return 0
	}
	return int(genInt64(t, label, 1, int64(hi)))
}

func genUint64(t *rapid.T, label string) uint64 {
	return rapid.OneOf(
		rapid.Uint64(),
		rapid.Uint64Range(1, 1<<20),
		rapid.SampledFrom([]uint64{1, math.MaxUint64, math.MaxInt64, 1 << 63, 1 << 30}),
	).Draw(t, label)
}

// genDur draws a non-negative duration in ns (0 = unset / zero).
func genDur(t *rapid.T, label string) int64 {
	if unset(t, label) {
		return 0
	}
	return rapid.OneOf(
		rapid.Int64Range(1, math.MaxInt64),
		rapid.Int64Range(1, int64(10*time.Second)),
		rapid.SampledFrom([]int64{1, 999, 1000, 1001, int64(time.Millisecond), int64(time.Second), int64(90 * time.Second),
			int64(time.Hour), int64(25*time.Hour + 3*time.Minute + 7*time.Nanosecond), math.MaxInt64}),
		rapid.Map(rapid.Int64Range(1, 100000), func(v int64) int64 { return v * int64(time.Millisecond) }),
	).Draw(t, label)
}

func genFrac(t *rapid.T, label string, negOK bool) float64 {
	gens := []*rapid.Generator[float64]{
		rapid.Float64Range(0, 1),
		rapid.SampledFrom([]float64{0, 0.1, 0.25, 0.4, 0.999999, 1, 0.005, 0.004999, 0.015, 1e-9, 0.123456789012345, 0.3333333333333333}),
		rapid.Float64Range(0, 1e6),
	}
	if negOK {
		gens = append(gens, rapid.Float64Range(-2, 0), rapid.SampledFrom([]float64{-1, -0.001, -0.005, -1e-9}))
	}
	return rapid.OneOf(gens...).Draw(t, label)
}

func genFilterName(t *rapid.T, label string) string {
	switch rapid.IntRange(0, 5).Draw(t, label+"kind") {
	case 0:
		return "none"
	case 1:
		return "rocksdb.BuiltinBloomFilter"
	case 2:
		n := rapid.IntRange(1, 40).Draw(t, label+"bits")
		if n == 10 {
			return "rocksdb.BuiltinBloomFilter" // bloom.FilterPolicy(10).Name()
		}
		return fmt.Sprintf("bloom(%d)", n)
	case 3:
		return fmt.Sprintf("adaptive_bloom(%d,%d)", rapid.IntRange(1, 40).Draw(t, label+"bits"),
			rapid.OneOf(rapid.Uint64Range(1, 1<<22), rapid.Just(uint64(math.MaxUint64))).Draw(t, label+"max"))
	default:
		return fmt.Sprintf("binaryfuse(%d)", rapid.SampledFrom([]int{4, 8, 10, 12, 16}).Draw(t, label+"fp"))
	}
}

var dirPool = []string{"wal", "/abs/wal", "{store_path}", "{store_path}/wal", "a b/c=d", "../x", "wal-2", "/mnt/data2/aux [x]", "C:\\wal", "#odd;name"}

func genOptions(t *rapid.T) OptionsPlan {
	var p OptionsPlan
	// 7: about a third of the fields unset; 2: most fields unset; 10: every field set.
	unsetThreshold = rapid.SampledFrom([]int{7, 7, 2, 10, 5}).Draw(t, "sparsity")
	p.NilHooks = rapid.IntRange(0, 9).Draw(t, "nil_hooks") >= 8
	p.StoreDir = rapid.SampledFrom([]string{"", "db", "/data/store", "{store_path}"}).Draw(t, "store_dir")

	p.BytesPerSync = genPosInt(t, "bytes_per_sync", math.MaxInt)
	p.CacheSize = genPosInt64(t, "cache_size")
	p.Cleaner = rapid.SampledFrom([]string{"", "delete", "archive", customCleanerName}[:pick(p.NilHooks, 3, 4)]).Draw(t, "cleaner")
	if !unset(t, "debt") {
		p.CompactionDebtConcurrency = genUint64(t, "debt")
	}
	if !unset(t, "garbage_fraction") {
		v := genFrac(t, "garbage_fraction", true)
		p.GarbageFraction = &v
	}
	p.Comparer = rapid.SampledFrom([]string{"", "default", "testkeys", "custom"}[:pick(p.NilHooks, 3, 4)]).Draw(t, "comparer")
	p.DisableWAL = rapid.Bool().Draw(t, "disable_wal")
	if !unset(t, "disable_iaf") {
		v := rapid.Bool().Draw(t, "disable_iaf")
		p.DisableIngestAsFlushable = &v
	}
	p.FlushDelayDeleteRange = genDur(t, "fd_delrange")
	p.FlushDelayRangeKey = genDur(t, "fd_rangekey")
	p.FlushSplitBytes = genPosInt64(t, "flush_split")
	p.CreateOnShared = rapid.SampledFrom([]int{0, 0, 1, 2}).Draw(t, "create_on_shared")
	minFMV := uint64(pebble.FormatMinSupported)
	if p.CreateOnShared != 0 {
		minFMV = uint64(pebble.FormatMinForSharedObjects)
	}
	if !unset(t, "fmv") {
		p.FormatMajorVersion = rapid.Uint64Range(minFMV, uint64(pebble.FormatNewest)).Draw(t, "fmv")
	}
	p.KeySchemaBundle = rapid.SampledFrom([]int{0, 0, 16, 4, 8, 32, 1, -1}[:pick(p.NilHooks, 7, 8)]).Draw(t, "ks_bundle")
	p.L0CompactionConcurrency = genPosInt(t, "l0cc", math.MaxInt)
	p.L0CompactionFileThreshold = genPosInt(t, "l0cft", math.MaxInt)
	p.L0CompactionThreshold = genPosInt(t, "l0ct", math.MaxInt)
	{
		// Validate: L0StopWritesThreshold >= L0CompactionThreshold (after defaults 12 / 4).
		eff := p.L0CompactionThreshold
		if eff == 0 {
			eff = 4
		}
		if eff <= 12 && unset(t, "l0swt") {
			p.L0StopWritesThreshold = 0
		} else {
			p.L0StopWritesThreshold = int(genInt64(t, "l0swt", int64(eff), math.MaxInt))
		}
	}
	p.LBaseMaxBytes = genPosInt64(t, "lbase")
	p.LevelMultiplier = genPosInt(t, "level_mult", math.MaxInt)
	if !unset(t, "conc") {
		p.ConcLower = int(genInt64(t, "conc_lower", 1, math.MaxInt))
		switch k := rapid.IntRange(0, 9).Draw(t, "conc_kind"); {
		case k >= 8 && p.ConcLower > 1 && !evid.FindingActive("C46", sigConcurrency):
			// Documented as valid: "If lower > upper, then upper is used for both"
			// (options.go CompactionConcurrencyRange).
			p.ConcUpper = int(genInt64(t, "conc_upper_lt", 1, int64(p.ConcLower-1)))
		case k >= 5:
			p.ConcUpper = p.ConcLower
		default:
			p.ConcUpper = int(genInt64(t, "conc_upper", int64(p.ConcLower), math.MaxInt))
		}
	}
	p.MaxConcurrentDownloads = genPosInt(t, "downloads", math.MaxInt)
	p.MaxManifestFileSize = genPosInt64(t, "manifest_size")
	p.MaxOpenFiles = genPosInt(t, "open_files", math.MaxInt)
	if !unset(t, "memtable") {
		// Validate: MemTableSize < min(MaxUint32, MaxInt).
		p.MemTableSize = uint64(genInt64(t, "memtable", 1, math.MaxUint32-1))
	}
	if !unset(t, "memtable_stop") {
		p.MemTableStopWritesThreshold = int(genInt64(t, "memtable_stop", 2, math.MaxInt))
	}
	if !unset(t, "min_del_rate") {
		v := rapid.OneOf(rapid.Just(uint64(0)), genUint64Gen()).Draw(t, "min_del_rate")
		p.MinDeletionRate = &v
	}
	if !unset(t, "free_space") {
		p.FreeSpaceThresholdBytes = genUint64(t, "free_space")
	}
	p.FreeSpaceTimeframe = genDur(t, "free_space_tf")
	p.BacklogTimeframe = genDur(t, "backlog_tf")
	p.Merger = rapid.SampledFrom([]string{"", "default", "custom"}[:pick(p.NilHooks, 2, 3)]).Draw(t, "merger")
	p.Heuristic = rapid.SampledFrom([]string{"", "none", "wamp", "wamp"}).Draw(t, "heuristic")
	if p.Heuristic == "wamp" {
		// "If positive, a multilevel compaction may get picked even if the single
		// level compaction has lower write amp, and vice versa": negative values
		// are valid. Negative values that print as "-0.00" are not generated (they
		// would fall into the below-print-precision class already listed as a
		// known finding for another field).
		p.WampPropensity = rapid.OneOf(rapid.Float64Range(0, 2), rapid.Float64Range(-2, -0.01),
			rapid.SampledFrom([]float64{0, 0.001, 0.005, 0.5, 1, 1e6, -0.01, -0.5, -0.75, -100})).Draw(t, "wamp_p")
		p.WampAllowL0 = rapid.Bool().Draw(t, "wamp_l0")
	}
	p.ReadCompactionRate = genPosInt64(t, "read_rate")
	if !unset(t, "read_mult") {
		// "A value of -1 prevents sampling" (options.go ReadSamplingMultiplier).
		p.ReadSamplingMultiplier = rapid.OneOf(rapid.Just(int64(-1)), rapid.Int64Range(1, math.MaxInt64), rapid.Int64Range(1, 64)).Draw(t, "read_mult")
	}
	p.NumDeletionsThreshold = genPosInt(t, "num_del", math.MaxInt)
	if !unset(t, "del_ratio") {
		gens := []*rapid.Generator[float32]{
			rapid.Float32Range(0.000001, 1),
			rapid.SampledFrom([]float32{0.5, 0.25, 1, 0.1, 0.000001, 0.9999995, 0.3333333, 8.5000005, 12.000001}),
			rapid.Float32Range(1, 64),
		}
		if !evid.FindingActive("C46", sigDelRatio) {
			// Positive ratios that print as 0.000000 with %f.
			gens = append(gens, rapid.SampledFrom([]float32{1e-7, 4e-7, 1e-20}))
		}
		p.DeletionSizeRatioThreshold = rapid.OneOf(gens...).Draw(t, "del_ratio")
	}
	if !unset(t, "tombstone_dense") {
		v := genFrac(t, "tombstone_dense", true)
		p.TombstoneDense = &v
	}
	p.FileCacheShards = genPosInt(t, "shards", math.MaxInt)
	p.ValidateOnIngest = rapid.Bool().Draw(t, "validate_ingest")
	if !unset(t, "wal_dir") {
		p.WALDir = rapid.SampledFrom(dirPool).Draw(t, "wal_dir")
	}
	if !unset(t, "wal_bps") {
		p.WALBytesPerSync = int(genInt64(t, "wal_bps", 0, math.MaxInt))
	}
	if !unset(t, "sec_cache") {
		p.SecondaryCacheSizeBytes = genInt64(t, "sec_cache", 0, math.MaxInt64)
	}
	p.IterTrackPoll = genDur(t, "it_poll")
	p.IterTrackMaxAge = genDur(t, "it_age")
	p.PrivDeleteOnly = rapid.Bool().Draw(t, "p_delonly")
	p.PrivElisionOnly = rapid.Bool().Draw(t, "p_elision")
	p.PrivLazyCombined = rapid.Bool().Draw(t, "p_lazy")

	if !unset(t, "valsep") {
		vs := &ValSepPlan{Enabled: rapid.IntRange(0, 3).Draw(t, "vs_enabled") < 3}
		// The other fields are serialized only when enabled; draw them anyway.
		vs.MinimumSize = int(genInt64(t, "vs_min", 1, math.MaxInt))
		vs.MinimumMVCCGarbageSize = int(genInt64(t, "vs_mvcc", 1, math.MaxInt))
		vs.MaxBlobReferenceDepth = int(genInt64(t, "vs_depth", 1, math.MaxInt))
		vs.RewriteMinimumAge = genDur(t, "vs_age")
		a := rapid.OneOf(rapid.Float64Range(0, 1), rapid.SampledFrom([]float64{0, 0.1, 0.2, 0.125, 0.135, 0.994999, 0.995, 1})).Draw(t, "vs_low")
		b := rapid.OneOf(rapid.Float64Range(0, 1), rapid.SampledFrom([]float64{0, 0.1, 0.2, 0.125, 0.135, 0.994999, 0.995, 1})).Draw(t, "vs_high")
		vs.Low, vs.High = min(a, b), max(a, b)
		p.ValSep = vs
	}
	if rapid.IntRange(0, 9).Draw(t, "wal_failover?") >= 5 {
		wf := &WALFailoverPlan{}
		wf.SecondaryDir = rapid.SampledFrom(dirPool).Draw(t, "wf_dir")
		if rapid.Bool().Draw(t, "wf_id?") {
			wf.SecondaryID = rapid.SampledFrom([]string{"a1b2c3d4e5f60718", "id with space", "x=y", "0"}).Draw(t, "wf_id")
		}
		wf.ProbeInterval = genDur(t, "wf_probe")
		wf.HealthyLatency = genDur(t, "wf_hl")
		wf.HealthyInterval = genDur(t, "wf_hi")
		wf.UnhealthySampling = genDur(t, "wf_us")
		if !unset(t, "wf_ut") {
			v := rapid.OneOf(rapid.Just(int64(0)), rapid.Int64Range(1, math.MaxInt64), rapid.Int64Range(1, int64(time.Second))).Draw(t, "wf_ut")
			wf.UnhealthyThreshold = &v
			wf.ThresholdEnabled = rapid.Bool().Draw(t, "wf_ut_enabled")
		}
		wf.ElevatedLag = genDur(t, "wf_lag")
		p.WALFailover = wf
	}
	for i := range p.Levels {
		l := &p.Levels[i]
		lbl := fmt.Sprintf("L%d_", i)
		if rapid.IntRange(0, 9).Draw(t, lbl+"all_unset") >= 8 {
			continue // whole level left to the defaults / inherited from the previous level
		}
		l.BlockRestartInterval = genPosInt(t, lbl+"bri", math.MaxInt)
		l.BlockSize = genPosInt(t, lbl+"bs", math.MaxInt32) // <= sstable.MaximumRestartOffset or EnsureDefaults panics
		l.BlockSizeThreshold = genPosInt(t, lbl+"bst", math.MaxInt)
		l.IndexBlockSize = genPosInt(t, lbl+"ibs", math.MaxInt)
		if !unset(t, lbl+"comp") {
			l.Compression = rapid.SampledFrom(compressionNames).Draw(t, lbl+"comp")
		}
		if !unset(t, lbl+"filter") {
			l.Filter = "none"
			if !p.NilHooks {
				l.Filter = genFilterName(t, lbl+"filter")
			}
		}
		l.TargetFileSize = genPosInt64(t, lbl+"tfs")
	}
	return p
}

func genUint64Gen() *rapid.Generator[uint64] {
	return rapid.Custom(func(t *rapid.T) uint64 { return genUint64(t, "u64") })
}

// ---------------------------------------------------------------- executor

// buildOptions turns the plan into *pebble.Options by setting exported fields
// only. (The three private testing flags have no exported setter; they are set
// through Parse of a one-line string, which is how the metamorphic test
// propagates them.)
func buildOptions(p OptionsPlan) (*pebble.Options, error) {
	o := &pebble.Options{}
	o.FS = vfs.NewMem() // avoids WithFSDefaults (a disk-health-checking FS + goroutine per call)
	o.BytesPerSync = p.BytesPerSync
	o.CacheSize = p.CacheSize
	switch p.Cleaner {
	case "delete":
		o.Cleaner = pebble.DeleteCleaner{}
	case "archive":
		o.Cleaner = pebble.ArchiveCleaner{}
	case customCleanerName:
		o.Cleaner = verifCleaner{}
	}
	o.CompactionDebtConcurrency = p.CompactionDebtConcurrency
	if p.GarbageFraction != nil {
		v := *p.GarbageFraction
		o.CompactionGarbageFractionForMaxConcurrency = func() float64 { return v }
	}
	o.Comparer = comparerOf(p.Comparer)
	o.DisableWAL = p.DisableWAL
	if p.DisableIngestAsFlushable != nil {
		v := *p.DisableIngestAsFlushable
		o.DisableIngestAsFlushable = func() bool { return v }
	}
	o.FlushDelayDeleteRange = time.Duration(p.FlushDelayDeleteRange)
	o.FlushDelayRangeKey = time.Duration(p.FlushDelayRangeKey)
	o.FlushSplitBytes = p.FlushSplitBytes
	o.FormatMajorVersion = pebble.FormatMajorVersion(p.FormatMajorVersion)
	effCmp := o.Comparer
	if effCmp == nil {
		effCmp = pebble.DefaultComparer
	}
	switch {
	case p.KeySchemaBundle > 0:
		ks := colblk.DefaultKeySchema(effCmp, p.KeySchemaBundle)
		o.KeySchema = ks.Name
		o.KeySchemas = map[string]*pebble.KeySchema{ks.Name: &ks}
	case p.KeySchemaBundle < 0:
		ks := customKeySchema(effCmp)
		o.KeySchema = ks.Name
		o.KeySchemas = map[string]*pebble.KeySchema{ks.Name: &ks}
	}
	o.L0CompactionConcurrency = p.L0CompactionConcurrency
	o.L0CompactionFileThreshold = p.L0CompactionFileThreshold
	o.L0CompactionThreshold = p.L0CompactionThreshold
	o.L0StopWritesThreshold = p.L0StopWritesThreshold
	o.LBaseMaxBytes = p.LBaseMaxBytes
	o.LevelMultiplier = p.LevelMultiplier
	if p.ConcLower != 0 || p.ConcUpper != 0 {
		lo, hi := p.ConcLower, p.ConcUpper
		o.CompactionConcurrencyRange = func() (int, int) { return lo, hi }
	}
	if p.MaxConcurrentDownloads != 0 {
		v := p.MaxConcurrentDownloads
		o.MaxConcurrentDownloads = func() int { return v }
	}
	o.MaxManifestFileSize = p.MaxManifestFileSize
	o.MaxOpenFiles = p.MaxOpenFiles
	o.MemTableSize = p.MemTableSize
	o.MemTableStopWritesThreshold = p.MemTableStopWritesThreshold
	if p.MinDeletionRate != nil {
		v := *p.MinDeletionRate
		o.DeletionPacing.BaselineRate = func() uint64 { return v }
	}
	o.DeletionPacing.FreeSpaceThresholdBytes = p.FreeSpaceThresholdBytes
	o.DeletionPacing.FreeSpaceTimeframe = time.Duration(p.FreeSpaceTimeframe)
	o.DeletionPacing.BacklogTimeframe = time.Duration(p.BacklogTimeframe)
	switch p.Merger {
	case "default":
		o.Merger = pebble.DefaultMerger
	case "custom":
		o.Merger = customMerger
	}
	switch p.Heuristic {
	case "none":
		o.MultiLevelCompactionHeuristic = pebble.OptionNoMultiLevel
	case "wamp":
		h := pebble.WriteAmpHeuristic{AddPropensity: p.WampPropensity, AllowL0: p.WampAllowL0}
		o.MultiLevelCompactionHeuristic = func() pebble.MultiLevelHeuristic { return &h }
	}
	o.ReadCompactionRate = p.ReadCompactionRate
	o.ReadSamplingMultiplier = p.ReadSamplingMultiplier
	o.NumDeletionsThreshold = p.NumDeletionsThreshold
	o.DeletionSizeRatioThreshold = p.DeletionSizeRatioThreshold
	if p.TombstoneDense != nil {
		v := *p.TombstoneDense
		o.TombstoneDenseCompactionThreshold = func() float64 { return v }
	}
	o.FileCacheShards = p.FileCacheShards
	o.ValidateOnIngest = p.ValidateOnIngest
	o.WALDir = p.WALDir
	o.WALBytesPerSync = p.WALBytesPerSync
	o.SecondaryCacheSizeBytes = p.SecondaryCacheSizeBytes
	o.CreateOnShared = remote.CreateOnSharedStrategy(p.CreateOnShared)
	o.IteratorTracking.PollInterval = time.Duration(p.IterTrackPoll)
	o.IteratorTracking.MaxAge = time.Duration(p.IterTrackMaxAge)
	if vs := p.ValSep; vs != nil {
		pol := pebble.ValueSeparationPolicy{
			Enabled: vs.Enabled, MinimumSize: vs.MinimumSize, MinimumMVCCGarbageSize: vs.MinimumMVCCGarbageSize,
			MaxBlobReferenceDepth: vs.MaxBlobReferenceDepth, RewriteMinimumAge: time.Duration(vs.RewriteMinimumAge),
			GarbageRatioLowPriority: vs.Low, GarbageRatioHighPriority: vs.High,
		}
		o.ValueSeparationPolicy = func() pebble.ValueSeparationPolicy { return pol }
	}
	if wf := p.WALFailover; wf != nil {
		o.WALFailover = &pebble.WALFailoverOptions{
			Secondary: wal.Dir{FS: vfs.NewMem(), Dirname: wf.SecondaryDir, ID: wf.SecondaryID},
		}
		fo := &o.WALFailover.FailoverOptions
		fo.PrimaryDirProbeInterval = time.Duration(wf.ProbeInterval)
		fo.HealthyProbeLatencyThreshold = time.Duration(wf.HealthyLatency)
		fo.HealthyInterval = time.Duration(wf.HealthyInterval)
		fo.UnhealthySamplingInterval = time.Duration(wf.UnhealthySampling)
		if wf.UnhealthyThreshold != nil {
			d, en := time.Duration(*wf.UnhealthyThreshold), wf.ThresholdEnabled
			fo.UnhealthyOperationLatencyThreshold = func() (time.Duration, bool) { return d, en }
		}
		fo.ElevatedWriteStallThresholdLag = time.Duration(wf.ElevatedLag)
	}
	for i := range p.Levels {
		l, ol := p.Levels[i], &o.Levels[i]
		ol.BlockRestartInterval = l.BlockRestartInterval
		ol.BlockSize = l.BlockSize
		ol.BlockSizeThreshold = l.BlockSizeThreshold
		ol.IndexBlockSize = l.IndexBlockSize
		if l.Compression != "" {
			prof := block.CompressionProfileByName(l.Compression)
			if prof == nil {
				return nil, fmt.Errorf("bad plan: compression %q", l.Compression)
			}
			ol.Compression = func() *block.CompressionProfile { return prof }
		}
		if l.Filter != "" {
			pol, ok := policyFromPlan(l.Filter)
			if !ok {
				return nil, fmt.Errorf("bad plan: filter %q", l.Filter)
			}
			ol.TableFilterPolicy = func() pebble.TableFilterPolicy { return pol }
		}
		o.TargetFileSizes[i] = l.TargetFileSize
	}
	var priv strings.Builder
	if p.PrivDeleteOnly {
		priv.WriteString("  disable_delete_only_compactions=true\n")
	}
	if p.PrivElisionOnly {
		priv.WriteString("  disable_elision_only_compactions=true\n")
	}
	if p.PrivLazyCombined {
		priv.WriteString("  disable_lazy_combined_iteration=true\n")
	}
	if priv.Len() > 0 {
		if err := o.Parse("[Options]\n"+priv.String(), nil); err != nil {
			return nil, fmt.Errorf("setting private flags: %v", err)
		}
	}
	return o, nil
}

// hooksNeeded reports whether the plan uses something only ParseHooks can resolve.
func hooksNeeded(p OptionsPlan) bool {
	if p.Cleaner == customCleanerName || p.Comparer == "custom" || p.Merger == "custom" || p.KeySchemaBundle < 0 {
		return true
	}
	for _, l := range p.Levels {
		if l.Filter != "" && l.Filter != "none" {
			return true
		}
	}
	return false
}

var (
	defaultLinesOnce sync.Once
	defaultLines     map[string]string
)

// optionLines maps "section/key" to value (an independent, trivial INI reader
// used only for labels and the non-triviality rule).
func optionLines(s string) map[string]string {
	m := map[string]string{}
	section := ""
	for _, line := range strings.Split(s, "\n") {
		line = strings.TrimSpace(line)
		if line == "" {
			continue
		}
		if line[0] == '[' {
			section = line
			m[section] = ""
			continue
		}
		k, v, _ := strings.Cut(line, "=")
		m[section+"/"+k] = v
	}
	return m
}

func diffLines(a, b string) string {
	la, lb := strings.Split(a, "\n"), strings.Split(b, "\n")
	var sb strings.Builder
	n := 0
	for i := 0; i < max(len(la), len(lb)) && n < 12; i++ {
		var x, y string
		if i < len(la) {
			x = la[i]
		}
		if i < len(lb) {
			y = lb[i]
		}
		if x != y {
			fmt.Fprintf(&sb, "\n  line %d: first  %q\n           second %q", i+1, x, y)
			n++
		}
	}
	return sb.String()
}

func execOptions(p OptionsPlan) (evid.Outcome, error) {
	var out evid.Outcome
	lower, upper := p.ConcLower, p.ConcUpper
	if (lower != 0 || upper != 0) && lower > upper && !p.Demo && evid.FindingActive("C46", sigConcurrency) {
		out.Excluded = sigConcurrency
		return out, nil
	}
	if p.DeletionSizeRatioThreshold > 0 && p.DeletionSizeRatioThreshold < 5e-7 && !p.Demo && evid.FindingActive("C46", sigDelRatio) {
		out.Excluded = sigDelRatio
		return out, nil
	}
	o, err := buildOptions(p)
	if err != nil {
		return out, fmt.Errorf("harness: %v", err)
	}
	o.EnsureDefaults()
	if err := o.Validate(); err != nil {
		// The generator builds valid options by construction; if this label ever
		// shows up the generator (not pebble) is wrong. Not a verdict.
		out.Labels = append(out.Labels, "GENERATED-INVALID-OPTIONS")
		return out, nil
	}
	s1 := o.String()

	var unknown []string
	hooks := parseHooks(&unknown)
	if p.NilHooks && !hooksNeeded(p) {
		hooks = nil
		out.Labels = append(out.Labels, "hooks=nil")
	}
	o2 := &pebble.Options{FS: vfs.NewMem()}
	if err := o2.Parse(s1, hooks); err != nil {
		return out, fmt.Errorf("Parse(o.String()) failed: %v\n--- o.String():\n%s", err, s1)
	}
	o2.EnsureDefaults()
	s2 := o2.String()
	if s2 != s1 {
		return out, fmt.Errorf("o.String() != parsed.String():%s\n--- o.String():\n%s", diffLines(s1, s2), s1)
	}
	if err := o2.CheckCompatibility(p.StoreDir, s1); err != nil {
		return out, fmt.Errorf("parsed.CheckCompatibility(%q, o.String()) = %v\n--- o.String():\n%s", p.StoreDir, err, s1)
	}
	if err := o.CheckCompatibility(p.StoreDir, s1); err != nil {
		return out, fmt.Errorf("o.CheckCompatibility(%q, o.String()) = %v\n--- o.String():\n%s", p.StoreDir, err, s1)
	}

	// ---- labels / non-triviality, measured on the produced string.
	defaultLinesOnce.Do(func() {
		d := &pebble.Options{FS: vfs.NewMem()}
		d.EnsureDefaults()
		defaultLines = optionLines(d.String())
	})
	lines := optionLines(s1)
	differ, optional := 0, false
	for k, v := range lines {
		dv, ok := defaultLines[k]
		if !ok {
			optional = true // a key or section that the default serialization does not contain
			differ++
		} else if dv != v {
			differ++
		}
	}
	if v, ok := lines["[Value Separation]/enabled"]; ok && v == "false" {
		optional = true // section shrinks to one line
	}
	out.NonTrivial = differ >= 10 && optional
	switch {
	case differ < 10:
		out.Labels = append(out.Labels, "differ<10")
	case differ < 40:
		out.Labels = append(out.Labels, "differ=10-39")
	case differ < 80:
		out.Labels = append(out.Labels, "differ=40-79")
	default:
		out.Labels = append(out.Labels, "differ>=80")
	}
	if _, ok := lines["[WAL Failover]"]; ok {
		out.Labels = append(out.Labels, "section=wal-failover")
	}
	if lines["[Value Separation]/enabled"] == "false" {
		out.Labels = append(out.Labels, "valsep=disabled")
	} else if p.ValSep != nil {
		out.Labels = append(out.Labels, "valsep=custom")
	}
	if hooksNeeded(p) {
		out.Labels = append(out.Labels, "needs-hooks")
	}
	if p.PrivDeleteOnly || p.PrivElisionOnly || p.PrivLazyCombined {
		out.Labels = append(out.Labels, "private-flags")
	}
	if (lower != 0 || upper != 0) && lower > upper {
		out.Labels = append(out.Labels, "conc-lower>upper")
	}
	if len(unknown) > 0 {
		sort.Strings(unknown)
		out.Labels = append(out.Labels, "parse-reported-unknown-key:"+unknown[0])
	}
	out.Labels = append(out.Labels, "comparer="+lines["[Options]/comparer"], "cleaner="+lines["[Options]/cleaner"])
	if err := o2.Validate(); err != nil {
		out.Labels = append(out.Labels, "parsed-options-fail-Validate")
	}
	out.Counters = map[string]int{"keys_differing_from_default": differ}
	return out, nil
}

func knownOptionsFindings() []evid.Known[OptionsPlan] {
	var ks []evid.Known[OptionsPlan]
	ks = append(ks, evid.Known[OptionsPlan]{Signature: sigConcurrency, Plan: OptionsPlan{ConcLower: 5, ConcUpper: 3, Demo: true}})
	ks = append(ks, evid.Known[OptionsPlan]{Signature: sigDelRatio, Plan: OptionsPlan{DeletionSizeRatioThreshold: 1e-7, Demo: true}})
	return ks
}

func TestC46(t *testing.T) {
	evid.Run(t, evid.Spec[OptionsPlan]{
		ID: "C46", Level: "exploration",
		Rule: "rapid draws every serialized Options field (unset / boundary / random; ints up to MaxInt64/MaxUint64, ns-precise durations, " +
			"floats with many decimals, 7 levels incl. compression profile and filter policy names, comparer/merger/cleaner/key-schema builtin or " +
			"user-defined via ParseHooks, value separation on/off, WAL failover section, private flags) such that EnsureDefaults+Validate accept them; " +
			"oracle: Parse(o.String()) succeeds, EnsureDefaults, String() identical, CheckCompatibility(dir, o.String()) nil for both. " +
			"non-trivial = >=10 serialized keys differ from the default serialization AND an optional key/section is present; distinct = hash of the plan JSON",
		Assumptions: []string{
			"Options are built from exported fields only; FS is a MemFS so EnsureDefaults does not start disk-health goroutines; Cache is nil (cache_size comes from CacheSize)",
			"directory names have no leading/trailing whitespace or newlines (the INI format cannot represent them); user-defined names contain no whitespace or commas",
			"negative sizes/counts/durations are not generated; negative fractions only where the field documents them (tombstone density, garbage fraction)",
			"the parsed Options start from &Options{} followed by EnsureDefaults, as tool/metamorphic code does",
		},
		Gen: genOptions, Exec: execOptions,
		Quick: 4000, Thorough: 200000,
		ShrinkTime: 10 * time.Second,
		Known:      knownOptionsFindings(),
		Sample: func(p OptionsPlan) any {
			o, err := buildOptions(p)
			if err != nil {
				return err.Error()
			}
			o.EnsureDefaults()
			s := o.String()
			if len(s) > 2500 {
				s = s[:2500] + "..."
			}
			return s
		},
	})
}

// policyFromPlan builds the filter policy a plan names with the constructors
// (not with tablefilters.PolicyFromName, which is the parser under test: the
// ParseHooks use it, and every policy a constructor accepts must survive
// String + Parse).
func policyFromPlan(name string) (pebble.TableFilterPolicy, bool) {
	var a uint32
	var m uint64
	var f int
	switch {
	case name == "none":
		return pebble.NoFilterPolicy, true
	case name == "rocksdb.BuiltinBloomFilter":
		return bloom.FilterPolicy(10), true
	}
	if n, err := fmt.Sscanf(name, "adaptive_bloom(%d,%d)", &a, &m); err == nil && n == 2 {
		return bloom.AdaptivePolicy(a, m), true
	}
	if n, err := fmt.Sscanf(name, "bloom(%d)", &a); err == nil && n == 1 {
		return bloom.FilterPolicy(a), true
	}
	if n, err := fmt.Sscanf(name, "binaryfuse(%d)", &f); err == nil && n == 1 {
		return binaryfuse.FilterPolicy(f), true
	}
	return nil, false
}
