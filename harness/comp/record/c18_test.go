package recordchk

// C18 — record log round-trips and truncation yields a clean prefix.

import (
	"bytes"
	"fmt"
	"io"
	"sort"
	"testing"

	"github.com/cockroachdb/pebble/verifharness/evid"
	"pgregory.net/rapid"
)

// Xform is one transformation of the written file.
//
// The lost region starts at L0 = clamp(boundary[Anchor]+Delta) (or a fraction
// of the file if Anchor < 0). Kind decides what replaces the bytes from L0 on:
//
//	cut       nothing (file ends at L0)
//	zero      zeros (Extra bytes of them)
//	holes     zeros, except the 4 KiB sectors selected by Keep, which hold the
//	          new log's bytes as long as they were written before the next sync
//	          completed (a crash image)
//	ocut      the older log's bytes
//	oholes    the older log's bytes, except the sectors selected by Keep
//	ofull     L0 is forced to the end of the new log (cleanly closed recycled file)
type Xform struct {
	Kind   string `json:"k"`
	Anchor int    `json:"a"`
	Delta  int    `json:"d,omitempty"`
	Frac   int    `json:"f,omitempty"` // per 2^20, used when Anchor < 0
	Keep   uint64 `json:"keep,omitempty"`
	Extra  int    `json:"x,omitempty"`
}

// OldLog describes the older incarnation of a recycled file.
type OldLog struct {
	Format string    `json:"format"`
	Delta  uint64    `json:"delta"` // old log number = LogNum - Delta
	Seed   uint64    `json:"seed"`
	Recs   []recSpec `json:"recs"`
}

// Plan18 is a C18 case.
type Plan18 struct {
	Format string    `json:"format"`
	LogNum uint64    `json:"lognum"`
	Seed   uint64    `json:"seed"`
	Recs   []recSpec `json:"recs"`
	Old    *OldLog   `json:"old,omitempty"`
	Xforms []Xform   `json:"xforms"`
	// EnumCuts: enumerate every truncation offset within +-EnumRadius bytes of
	// every chunk, record, sync and block boundary (bounded by EnumMax).
	EnumRadius int `json:"enum_radius"`
	EnumMax    int `json:"enum_max"`
	// BitflipBudget bounds the sum of n^2 over images expected to fail the
	// checksum of an n-byte chunk (see exec18).
	BitflipBudget int `json:"bitflip_budget"`
}

// simAppend is the generator's idea of where a record of the given size ends
// when appended at off (greedy chunking). It only steers size choices.
func simAppend(format string, off, size int) int {
	hdr := hdrSize(format)
	first := true
	for first || size > 0 {
		first = false
		rem := blockSize - off%blockSize
		if rem < hdr {
			off += rem
			rem = blockSize
		}
		n := min(size, rem-hdr)
		off += hdr + n
		size -= n
	}
	return off
}

func genSize(t *rapid.T, format string, off int) int {
	hdr := hdrSize(format)
	rem := blockSize - off%blockSize
	if rem < hdr {
		rem = blockSize
	}
	fit := rem - hdr // payload that exactly fills the current block
	switch rapid.SampledFrom([]int{0, 0, 0, 1, 1, 1, 2, 2, 2, 3, 4}).Draw(t, "sizeclass") {
	case 0:
		return rapid.SampledFrom([]int{0, 0, 1, 1, 2, 6, 7, 8, 10, 11, 12, 18, 19, 20, 33, 40}).Draw(t, "tiny")
	case 1:
		return rapid.IntRange(41, 6000).Draw(t, "medium")
	case 2:
		return max(0, fit+rapid.IntRange(-26, 26).Draw(t, "filldelta"))
	case 3:
		k := rapid.IntRange(1, 2).Draw(t, "fillblocks")
		return max(0, fit+k*(blockSize-hdr)+rapid.IntRange(-26, 26).Draw(t, "filldelta"))
	default:
		return rapid.IntRange(blockSize-40, 2*blockSize+100).Draw(t, "big")
	}
}

func genRecs(t *rapid.T, format string, nmin, nmax int) []recSpec {
	n := rapid.IntRange(nmin, nmax).Draw(t, "nrecs")
	syncPct := rapid.SampledFrom([]int{0, 30, 70, 100}).Draw(t, "syncpct")
	recs := make([]recSpec, 0, n)
	off := 0
	for i := 0; i < n; i++ {
		r := recSpec{Size: genSize(t, format, off)}
		r.Sync = rapid.IntRange(0, 99).Draw(t, "sync") < syncPct
		if format == fmtLegacy && rapid.IntRange(0, 2).Draw(t, "piecewise") == 0 {
			r.Pieces = rapid.IntRange(1, 3).Draw(t, "pieces")
		}
		off = simAppend(format, off, r.Size)
		recs = append(recs, r)
	}
	return recs
}

var logNums = []uint64{1, 2, 7, 8, 1000, 123456, 0xfffffffe, 0xffffffff, 0x100000000, 0x100000001, 0x2300000007}

func gen18(t *rapid.T) Plan18 {
	p := Plan18{
		Format:        rapid.SampledFrom([]string{fmtLegacy, fmtRecyclable, fmtRecyclable, fmtWALSync, fmtWALSync}).Draw(t, "format"),
		LogNum:        rapid.SampledFrom(logNums).Draw(t, "lognum"),
		Seed:          rapid.Uint64().Draw(t, "seed"),
		EnumRadius:    24,
		BitflipBudget: 12_000_000,
		EnumMax:       rapid.SampledFrom([]int{150, 300, 600}).Draw(t, "enummax"),
	}
	p.Recs = genRecs(t, p.Format, 0, 12)
	kinds := []string{"cut", "cut", "zero", "zero", "holes", "holes"}
	if p.Format != fmtLegacy && rapid.IntRange(0, 9).Draw(t, "hasold") < 7 {
		o := &OldLog{Format: p.Format, Seed: rapid.Uint64().Draw(t, "oldseed")}
		if rapid.IntRange(0, 3).Draw(t, "oldotherformat") == 0 {
			if p.Format == fmtWALSync {
				o.Format = fmtRecyclable
			} else {
				o.Format = fmtWALSync
			}
		}
		o.Delta = min(p.LogNum, rapid.SampledFrom([]uint64{1, 1, 1, 2, 5, 999}).Draw(t, "olddelta"))
		// The old log shares a prefix of record sizes with the new one, so that
		// its chunk boundaries coincide with the new log's, then goes on longer.
		share := rapid.IntRange(0, len(p.Recs)).Draw(t, "share")
		off := 0
		for i := 0; i < share; i++ {
			o.Recs = append(o.Recs, recSpec{Size: p.Recs[i].Size})
			off = simAppend(o.Format, off, p.Recs[i].Size)
		}
		newEnd := 0
		for _, r := range p.Recs {
			newEnd = simAppend(p.Format, newEnd, r.Size)
		}
		extra := rapid.IntRange(1, 6).Draw(t, "oldextra")
		for i := 0; i < extra || (off < newEnd+100 && len(o.Recs) < 40); i++ {
			sz := genSize(t, o.Format, off)
			o.Recs = append(o.Recs, recSpec{Size: sz})
			off = simAppend(o.Format, off, sz)
		}
		p.Old = o
		kinds = append(kinds, "ocut", "ocut", "ocut", "oholes", "oholes", "ofull")
	}
	nx := rapid.IntRange(8, 24).Draw(t, "nxforms")
	for i := 0; i < nx; i++ {
		x := Xform{Kind: rapid.SampledFrom(kinds).Draw(t, "kind")}
		if rapid.IntRange(0, 5).Draw(t, "anchored") > 0 {
			x.Anchor = rapid.IntRange(0, 1<<16).Draw(t, "anchor")
			x.Delta = rapid.SampledFrom([]int{0, 0, 0, 0, 1, -1, 2, -2, 3, 6, 7, 8, 10, 11, 12, 18, 19, 20, -7, -11, -19, -20}).Draw(t, "delta")
		} else {
			x.Anchor = -1
			x.Frac = rapid.IntRange(0, 1<<20).Draw(t, "frac")
		}
		if x.Kind == "holes" || x.Kind == "oholes" {
			x.Keep = rapid.Uint64().Draw(t, "keep")
			if rapid.Bool().Draw(t, "sparsekeep") {
				x.Keep &= rapid.Uint64().Draw(t, "keep2")
			}
		}
		if x.Kind == "zero" || x.Kind == "holes" {
			x.Extra = rapid.SampledFrom([]int{0, 1, 6, 7, 10, 11, 18, 19, 40, 4096, blockSize - 5, blockSize, blockSize + 30, 2 * blockSize}).Draw(t, "extra")
		}
		p.Xforms = append(p.Xforms, x)
	}
	return p
}

// boundaries lists the interesting offsets of a log.
func boundaries(l *layout, synced []int) []int {
	m := map[int]struct{}{0: {}, l.Len: {}}
	for _, c := range l.Chunks {
		m[c.Start] = struct{}{}
		m[c.Start+c.Hdr] = struct{}{}
		m[c.End] = struct{}{}
	}
	for b := blockSize; b <= l.Len; b += blockSize {
		m[b] = struct{}{}
	}
	for _, s := range synced {
		m[s] = struct{}{}
	}
	if l.Trailer >= 0 {
		m[l.Trailer] = struct{}{}
	}
	out := make([]int, 0, len(m))
	for k := range m {
		out = append(out, k)
	}
	sort.Ints(out)
	return out
}

func commonPrefix(a, b []byte) int {
	n := min(len(a), len(b))
	for i := 0; i < n; i++ {
		if a[i] != b[i] {
			return i
		}
	}
	return n
}

type case18 struct {
	p                        Plan18
	w                        *written
	lay                      *layout
	old                      []byte
	oldLay                   *layout
	syncPts                  []int // distinct synced lengths, ascending, starting with 0
	zbuf, zeros, obuf, obase []byte
	rbuf                     bytes.Buffer
	smax                     int
}

// image builds the transformed file. The returned slice aliases scratch
// buffers of the case; restore must be called before the next image is built.
// Every image is one a crash could leave behind in the sense used by the
// WAL-sync oracle: bytes before L0 are intact, and the only other bytes of the
// new log present were written before the sync following the last completed
// one (at or before L0) returned.
func (c *case18) image(kind string, l0 int, keep uint64, extra int) (img []byte, restore func()) {
	nb := c.w.File
	l0 = max(0, min(l0, len(nb)))
	if kind == "ofull" {
		l0 = len(nb)
	}
	if kind == "cut" {
		return nb[:l0:l0], func() {}
	}
	// k = last sync point <= l0; data up to endK was written before sync k+1 completed.
	endK := len(nb)
	for _, s := range c.syncPts {
		if s > l0 {
			endK = s
			break
		}
	}
	var buf, base []byte
	switch kind {
	case "zero", "holes":
		if c.zbuf == nil {
			c.zbuf = make([]byte, len(nb)+2*blockSize+64)
			c.zeros = make([]byte, len(c.zbuf))
		}
		buf, base = c.zbuf, c.zeros
	default:
		if c.obuf == nil {
			c.obuf = make([]byte, max(len(c.old), len(nb)))
			copy(c.obuf, c.old)
			c.obase = append([]byte(nil), c.obuf...)
		}
		buf, base = c.obuf, c.obase
	}
	hi := l0
	copy(buf, nb[:l0])
	if kind == "holes" || kind == "oholes" {
		i := 0
		for lo := l0; lo < endK && i < 64; i++ {
			end := min((lo/sectorSize+1)*sectorSize, endK)
			if keep&(1<<uint(i)) != 0 {
				copy(buf[lo:end], nb[lo:end])
				hi = end
			}
			lo = end
		}
	}
	n := hi
	switch kind {
	case "zero", "holes":
		n = min(hi+extra, len(buf))
	default:
		n = max(hi, len(c.old))
	}
	return buf[:n:n], func() { copy(buf[:hi], base[:hi]) }
}

func exec18(p Plan18) (evid.Outcome, error) {
	var out evid.Outcome
	out.Counters = map[string]int{}
	out.Labels = append(out.Labels, "format="+p.Format)
	w, err := writeLog(p.Format, p.LogNum, p.Seed, p.Recs)
	if err != nil {
		return out, fmt.Errorf("writing the log failed: %v", err)
	}
	defer w.release()
	lay, err := parseLog(w.File, p.Format, uint32(p.LogNum), w.Recs)
	if err != nil {
		return out, fmt.Errorf("the written %s log does not decode to the written records per the documented wire format: %v", p.Format, err)
	}
	c := &case18{p: p, w: w, lay: lay}
	c.syncPts = []int{0}
	for i, s := range w.Synced {
		if s > c.syncPts[len(c.syncPts)-1] {
			c.syncPts = append(c.syncPts, s)
		}
		if p.Recs[i].Sync {
			// A sync that was waited for covers the record and everything before it.
			if s < lay.RecEnd[i] {
				return out, fmt.Errorf("record %d was written with a sync request that completed, but only %d bytes were synced; the record ends at %d", i, s, lay.RecEnd[i])
			}
		}
		c.smax = max(c.smax, s)
	}
	if p.Format == fmtWALSync {
		// The offset in a WAL-sync chunk header is a promise that the log had
		// been synced up to it when the chunk was produced.
		for _, ch := range lay.Chunks {
			before := 0
			if ch.Rec > 0 {
				before = w.Synced[ch.Rec-1]
			}
			if ch.SyncOff > uint64(before) {
				return out, fmt.Errorf("chunk at %d (record %d) promises synced offset %d but only %d bytes had been synced when it was written", ch.Start, ch.Rec, ch.SyncOff, before)
			}
		}
	}
	multi := false
	for _, m := range lay.RecMulti {
		multi = multi || m
	}
	if multi {
		out.Labels = append(out.Labels, "has-multiblock-record")
	}
	if len(w.File) > blockSize {
		out.Labels = append(out.Labels, "multi-block-file")
	}
	if p.Old != nil {
		out.Labels = append(out.Labels, "has-old-log")
		oldNum := p.LogNum - p.Old.Delta
		ow, err := writeLog(p.Old.Format, oldNum, p.Old.Seed, p.Old.Recs)
		if err != nil {
			return out, fmt.Errorf("writing the old log failed: %v", err)
		}
		defer ow.release()
		c.old = ow.File
		c.oldLay, err = parseLog(ow.File, p.Old.Format, uint32(oldNum), ow.Recs)
		if err != nil {
			return out, fmt.Errorf("the old %s log does not decode per the documented wire format: %v", p.Old.Format, err)
		}
	}

	// Identity: every record, in order, byte-identical, then io.EOF.
	for mode := readAllMode; mode <= readSkipMode; mode++ {
		res := readImage(w.File, p.LogNum, w.Recs, mode, &c.rbuf)
		if res.Bad != nil {
			return out, fmt.Errorf("unchanged file, read mode %d: %v", mode, res.Bad)
		}
		if res.N != len(w.Recs) || res.Err != io.EOF {
			return out, fmt.Errorf("unchanged file, read mode %d: reader returned %d of %d records and ended with %v, want all then io.EOF", mode, res.N, len(w.Recs), res.Err)
		}
	}

	bnd := boundaries(lay, c.syncPts)
	nt := 0
	bitflipBudget := p.BitflipBudget
	check := func(desc string, kind string, l0 int, keep uint64, extra int) error {
		img, restore := c.image(kind, l0, keep, extra)
		defer restore()
		const crash = true
		cp := commonPrefix(img, w.File)
		// record.Reader runs a quadratic bit-flip search (8*n CRCs over n bytes)
		// whenever a chunk of n bytes fails its checksum. Images whose first lost
		// byte lies in the payload of a large chunk that is otherwise covered by
		// the image trigger it; they are only run within a per-case cost budget.
		if u := lay.unitStart(cp); p.Format != fmtWALSync && (kind == "holes" || kind == "oholes") &&
			cp < len(w.File) && (u/blockSize+1)*blockSize-u < hdrWALSync && len(img) > (u/blockSize+1)*blockSize {
			// Outside the property statement (which lists cuts, a zeroed unsynced
			// tail and recycled overlays, not holes): a chunk of the legacy or
			// recyclable format that lies wholly in the last 18 bytes of a block is
			// lost while a later block survived. The reader takes the zeroed bytes
			// for block padding and carries on with the next block, i.e. it skips a
			// record (see NOTES.md, "Observation beyond the statement").
			out.Counters["holes_out_of_scope_block_trailer"]++
			return nil
		}
		if n := crcCost(img, lay.unitStart(cp), uint32(p.LogNum)); n > 0 && cp < len(w.File) {
			if bitflipBudget < n*n {
				out.Counters["images_skipped_bitflip_cost"]++
				return nil
			}
			bitflipBudget -= n * n
			out.Counters["images_crc_mismatch_expected"]++
		}
		out.Counters["images"]++
		res := readImage(img, p.LogNum, w.Recs, readAllMode, &c.rbuf)
		ctx := func() string {
			return fmt.Sprintf("%s (first %d of %d bytes of the new log intact, image length %d)", desc, cp, len(w.File), len(img))
		}
		if res.Bad != nil {
			return fmt.Errorf("%s: %v", ctx(), res.Bad)
		}
		if !isEndOfLog(res.Err) {
			return fmt.Errorf("%s: after %d records the reader ended with %v, which is neither io.EOF nor an end-of-log error", ctx(), res.N, res.Err)
		}
		// Records wholly inside the intact, synced prefix must be returned.
		need := 0
		for i, e := range lay.RecEnd {
			if e <= cp && e <= c.smax {
				need = i + 1
			}
		}
		if res.N < need {
			return fmt.Errorf("%s: reader returned only %d records (then %v) although records 0..%d lie wholly inside the intact synced prefix (synced %d)", ctx(), res.N, res.Err, need-1, c.smax)
		}
		full := cp == len(w.File)
		if full {
			out.Counters["images_full"]++
			if res.N != len(w.Recs) {
				return fmt.Errorf("%s: the whole log is present but only %d of %d records were returned (then %v)", ctx(), res.N, len(w.Recs), res.Err)
			}
			if p.Format != fmtLegacy && res.Err != io.EOF {
				return fmt.Errorf("%s: the whole log including its EOF trailer is present but the reader ended with %v, want io.EOF", ctx(), res.Err)
			}
		}
		if p.Format == fmtWALSync && crash && isCorruptionErr(res.Err) {
			return fmt.Errorf("%s: crash-consistent image of a WAL-sync log (only data written after the last completed sync is missing) but the reader reported %v, which recovery treats as corruption", ctx(), res.Err)
		}
		// Non-trivial: the first lost byte falls strictly inside a record that
		// spans >= 2 blocks, or old bytes form a chunk right at the new tail.
		if !full {
			if ci := lay.chunkAt(cp); ci >= 0 {
				r := lay.Chunks[ci].Rec
				if lay.RecMulti[r] && cp > lay.RecStart[r] {
					nt++
					out.Counters["nt_inside_multiblock_record"]++
				}
			}
		}
		if c.oldLay != nil && (kind == "ocut" || kind == "oholes" || kind == "ofull") && cp < len(img) {
			for _, oc := range c.oldLay.Chunks {
				if oc.Start == cp {
					nt++
					out.Counters["nt_old_chunk_at_tail"]++
					break
				}
				if oc.Start > cp {
					break
				}
			}
		}
		if res.N < len(w.Recs) {
			switch {
			case res.Err == io.EOF:
				out.Counters["end_eof"]++
			case isCleanEnd(res.Err):
				out.Counters["end_unexpected_eof"]++
			default:
				out.Counters["end_invalid_or_zeroed"]++
			}
		}
		return nil
	}

	for i, x := range p.Xforms {
		var l0 int
		if x.Anchor >= 0 {
			l0 = bnd[x.Anchor%len(bnd)] + x.Delta
		} else {
			l0 = int(int64(x.Frac) * int64(len(w.File)) >> 20)
		}
		kind := x.Kind
		if c.old == nil && (kind == "ocut" || kind == "oholes" || kind == "ofull") {
			kind = "cut"
		}
		out.Counters["xform_"+kind]++
		if err := check(fmt.Sprintf("xform #%d kind=%s L0=%d keep=%#x extra=%d", i, kind, l0, x.Keep, x.Extra), kind, l0, x.Keep, x.Extra); err != nil {
			return out, err
		}
	}

	// Enumerated truncations near every boundary.
	cutSet := map[int]struct{}{}
	for _, b := range bnd {
		for d := -p.EnumRadius; d <= p.EnumRadius; d++ {
			if o := b + d; o >= 0 && o <= len(w.File) {
				cutSet[o] = struct{}{}
			}
		}
	}
	cuts := make([]int, 0, len(cutSet))
	for o := range cutSet {
		cuts = append(cuts, o)
	}
	sort.Ints(cuts)
	stride := 1
	if p.EnumMax > 0 && len(cuts) > p.EnumMax {
		stride = (len(cuts) + p.EnumMax - 1) / p.EnumMax
		out.Labels = append(out.Labels, "enum-cuts-subsampled")
	} else {
		out.Labels = append(out.Labels, "enum-cuts-complete")
	}
	// A stride that is coprime with the 2*radius+1 window keeps every delta.
	for stride > 1 && (2*p.EnumRadius+1)%stride == 0 {
		stride++
	}
	for i := int(p.Seed % uint64(stride)); i < len(cuts); i += stride {
		out.Counters["enum_cuts"]++
		kind := "cut"
		if c.old != nil && i%3 == 1 {
			kind = "ocut"
		} else if i%3 == 2 {
			kind = "zero"
		}
		if err := check(fmt.Sprintf("enumerated %s at %d", kind, cuts[i]), kind, cuts[i], 0, 37); err != nil {
			return out, err
		}
	}
	out.NonTrivial = nt > 0
	if nt > 0 {
		out.Labels = append(out.Labels, "nontrivial")
	}
	return out, nil
}

func TestC18(t *testing.T) {
	evid.Run(t, evid.Spec[Plan18]{
		ID: "C18", Level: "exploration",
		Rule: "rapid draws a wire format (legacy Writer / LogWriter recyclable / LogWriter WAL-sync), a log number, 0-12 record sizes chosen " +
			"around chunk arithmetic (exact block fits +-26, multi-block, tiny, empty) with per-record sync flags, optionally an older longer log " +
			"sharing a prefix of record sizes, and 8-24 transformations (cut, zeroed tail, crash image with 4KiB holes, old-log overlay variants); " +
			"the executor additionally enumerates truncations (plain / zero-filled / over the old log) at offsets within +-24 bytes of every chunk, record, sync and block boundary. " +
			"non-trivial = some image loses its first byte strictly inside a record spanning >=2 blocks, or an old-log chunk starts exactly at the new tail; distinct = hash of plan JSON",
		Assumptions: []string{
			"sync requests are waited for one at a time, so the synced length after each record is deterministic",
			"old-log payload bytes are pseudo-random: a payload that embeds a well-formed chunk of the new log number is not generated (no format can reject it)",
			"crash images keep only bytes written before the sync following the last completed one returned",
		},
		Gen: gen18, Exec: exec18, Quick: 800, Thorough: 8000,
		Sample: func(p Plan18) any {
			sz := []int{}
			for _, r := range p.Recs {
				sz = append(sz, r.Size)
			}
			return map[string]any{"format": p.Format, "lognum": p.LogNum, "sizes": sz, "has_old": p.Old != nil, "nxforms": len(p.Xforms)}
		},
	})
}
