package recordchk

// C19 — WAL corruption inside synced data is reported, never hidden.

import (
	"encoding/binary"
	"fmt"
	"io"
	"sort"
	"testing"

	"github.com/cockroachdb/pebble/verifharness/evid"
	"pgregory.net/rapid"
)

const (
	sigSameBlock = "confirming-chunk-only-in-damaged-block"
	sigEOFLook   = "corrupted-chunk-mistaken-for-eof-trailer"
	sigHdrWindow = "synced-offset-ends-inside-damaged-chunk-header"
)

// Damage is the single corruption applied to the written WAL.
//
// Where selects the position of its first byte:
//
//	chunk  start of chunk number Anchor (mod #chunks) + Delta
//	rec    start of the first chunk of record Anchor (mod #records) + Delta
//	pad    end of the last chunk of block Anchor (mod #blocks) + Delta (block padding, if any)
//	frac   Frac/2^20 of the file length
type Damage struct {
	Kind   string `json:"kind"` // bitflip | zerobyte | zerorun | zero4k | garbage
	Where  string `json:"where"`
	Anchor int    `json:"a,omitempty"`
	Delta  int    `json:"d,omitempty"`
	Frac   int    `json:"f,omitempty"`
	Len    int    `json:"len,omitempty"`
	Bit    int    `json:"bit,omitempty"`
	Seed   uint64 `json:"seed,omitempty"`
}

// Plan19 is a C19 case: a WAL-sync log and one damage.
type Plan19 struct {
	LogNum uint64    `json:"lognum"`
	Seed   uint64    `json:"seed"`
	Recs   []recSpec `json:"recs"`
	Damage Damage    `json:"damage"`
	// Demo marks the demonstration plans of Spec.Known: they are checked even
	// when their class is listed as a known finding.
	Demo bool `json:"demo,omitempty"`
	// DB runs the case against a real store: the records become Sets, the
	// damaged file is the store's WAL and the observer is pebble.Open.
	DB bool `json:"db,omitempty"`
}

func genDamage(t *rapid.T) Damage {
	d := Damage{Kind: rapid.SampledFrom([]string{"bitflip", "bitflip", "bitflip", "zerobyte", "zerorun", "zero4k", "garbage", "garbage"}).Draw(t, "dkind")}
	switch w := rapid.IntRange(0, 19).Draw(t, "where"); {
	case w < 11:
		d.Where = "chunk"
		d.Anchor = rapid.IntRange(0, 1<<16).Draw(t, "anchor")
		// Offsets 0..18 are the header fields: crc 0-3, size 4-5, type 6, log number 7-10, synced offset 11-18.
		d.Delta = rapid.IntRange(-2, 24).Draw(t, "delta")
	case w < 13:
		d.Where = "pad"
		d.Anchor = rapid.IntRange(0, 7).Draw(t, "padblock")
		d.Delta = rapid.IntRange(0, 18).Draw(t, "delta")
	default:
		d.Where = "frac"
		d.Frac = rapid.IntRange(0, 1<<20-1).Draw(t, "frac")
	}
	switch d.Kind {
	case "bitflip":
		d.Bit = rapid.IntRange(0, 7).Draw(t, "bit")
	case "zerorun":
		d.Len = rapid.SampledFrom([]int{2, 4, 7, 8, 11, 19, 20, 64, 300}).Draw(t, "len")
	case "garbage":
		d.Len = rapid.SampledFrom([]int{1, 2, 4, 7, 8, 19, 64, 300}).Draw(t, "len")
		d.Seed = rapid.Uint64().Draw(t, "gseed")
	}
	return d
}

func genSmallSize(t *rapid.T, off int) int {
	switch rapid.SampledFrom([]int{0, 1, 1, 1, 1, 2, 2, 3}).Draw(t, "sizeclass") {
	case 0:
		return rapid.SampledFrom([]int{0, 1, 5, 12, 19, 20}).Draw(t, "tiny")
	case 1:
		return rapid.IntRange(20, 400).Draw(t, "small")
	case 2:
		return rapid.IntRange(400, 2500).Draw(t, "medium")
	default:
		// end near the block boundary
		rem := blockSize - off%blockSize
		sz := rem - hdrWALSync + rapid.IntRange(-30, 30).Draw(t, "filldelta")
		if sz < 0 || sz > 3000 {
			sz = rapid.IntRange(0, 3000).Draw(t, "fallback")
		}
		return sz
	}
}

func gen19(t *rapid.T) Plan19 {
	p := Plan19{
		LogNum: rapid.SampledFrom(logNums).Draw(t, "lognum"),
		Seed:   rapid.Uint64().Draw(t, "seed"),
	}
	// Classes of known findings are excluded by construction while they are
	// listed; otherwise they are generated on purpose (they are rare under the
	// plain distribution) and checked like everything else.
	sameBlockKnown := evid.FindingActive("C19", sigSameBlock)
	mode := rapid.IntRange(0, 39).Draw(t, "mode")
	// Total size: a part of one block up to 4 blocks. A single-block log can
	// only produce the same-block class.
	minBlocks := 0
	if sameBlockKnown {
		minBlocks = 1
	}
	target := rapid.IntRange(minBlocks, 3).Draw(t, "blocks")*blockSize + rapid.IntRange(200, blockSize).Draw(t, "tail")
	syncPct := rapid.SampledFrom([]int{2, 5, 10, 30, 60, 100}).Draw(t, "syncpct")
	off := 0
	if mode == 0 && !evid.FindingActive("C19", sigHdrWindow) {
		// An empty record is the last thing synced in its block; everything
		// after it is unsynced and reaches into the next block. A later chunk
		// then promises exactly the end of the empty record's header.
		n := rapid.IntRange(0, 20).Draw(t, "prefix")
		for i := 0; i < n; i++ {
			sz := rapid.IntRange(0, 1200).Draw(t, "small")
			p.Recs = append(p.Recs, recSpec{Size: sz, Sync: rapid.Bool().Draw(t, "sync")})
			off = simAppend(fmtWALSync, off, sz)
		}
		p.Recs = append(p.Recs, recSpec{Size: 0, Sync: true})
		off = simAppend(fmtWALSync, off, 0)
		k := len(p.Recs) - 1
		target = (off/blockSize+1)*blockSize + rapid.IntRange(100, 5000).Draw(t, "tail")
		for off < target {
			sz := rapid.IntRange(20, 2500).Draw(t, "medium")
			p.Recs = append(p.Recs, recSpec{Size: sz})
			off = simAppend(fmtWALSync, off, sz)
		}
		p.Damage = Damage{Kind: "bitflip", Where: "rec", Anchor: k, Delta: rapid.IntRange(0, 18).Draw(t, "delta"), Bit: rapid.IntRange(0, 7).Draw(t, "bit")}
		return p
	}
	if mode == 2 || mode == 3 {
		// Sparse confirmation: a few synced records, a long unsynced stretch that
		// reaches a drawn position of the next block, one synced record and a
		// short tail. Only the chunks after that late sync can confirm damage in
		// the stretch.
		for off < rapid.IntRange(0, 3000).Draw(t, "early") {
			sz := rapid.IntRange(0, 600).Draw(t, "small")
			p.Recs = append(p.Recs, recSpec{Size: sz, Sync: true})
			off = simAppend(fmtWALSync, off, sz)
		}
		first := len(p.Recs)
		late := blockSize + rapid.IntRange(1000, blockSize-200).Draw(t, "late")
		for off < late {
			sz := rapid.IntRange(20, 2500).Draw(t, "medium")
			p.Recs = append(p.Recs, recSpec{Size: sz})
			off = simAppend(fmtWALSync, off, sz)
		}
		p.Recs[len(p.Recs)-1].Sync = true
		for i := rapid.IntRange(1, 4).Draw(t, "tailrecs"); i > 0 && off < 2*blockSize-3000; i-- {
			sz := rapid.IntRange(0, 300).Draw(t, "small")
			p.Recs = append(p.Recs, recSpec{Size: sz})
			off = simAppend(fmtWALSync, off, sz)
		}
		p.Damage = genDamage(t)
		p.Damage.Where = "rec"
		p.Damage.Anchor = first + rapid.IntRange(0, 3).Draw(t, "victim")
		return p
	}
	for off < target && len(p.Recs) < 400 {
		sz := genSmallSize(t, off)
		p.Recs = append(p.Recs, recSpec{Size: sz, Sync: rapid.IntRange(0, 99).Draw(t, "sync") < syncPct})
		off = simAppend(fmtWALSync, off, sz)
	}
	if mode == 1 && !evid.FindingActive("C19", sigEOFLook) {
		// A single bit flip in the lowest bit of the log-number field of the
		// first chunk of a record; with an even log number it reads logNum+1.
		p.LogNum = rapid.SampledFrom([]uint64{2, 8, 1000, 123456, 0xfffffffe, 0x100000000}).Draw(t, "evenlognum")
		p.Damage = Damage{Kind: "bitflip", Where: "rec", Anchor: rapid.IntRange(0, len(p.Recs)-1).Draw(t, "rec"), Delta: 7, Bit: 0}
		return p
	}
	p.Damage = genDamage(t)
	// A share of the cases runs against a real store. rapid favours small
	// values, so "< 1 of 100" is about 9% of the cases and "< 3" about 20%.
	dbPct := 1
	if evid.GetEnv().Tier == "thorough" {
		dbPct = 3
	}
	p.DB = rapid.IntRange(0, 99).Draw(t, "db") < dbPct
	return p
}

// applyDamage returns the damaged copy and the range [d, dEnd) spanned by the
// bytes that actually changed (d < 0 if nothing changed).
func applyDamage(file []byte, lay *layout, dm Damage) (img []byte, d, dEnd int) {
	img = append(filePool.Get().([]byte)[:0], file...)
	var off int
	switch {
	case dm.Where == "chunk" && len(lay.Chunks) > 0:
		off = lay.Chunks[dm.Anchor%len(lay.Chunks)].Start + dm.Delta
	case dm.Where == "rec" && len(lay.RecStart) > 0:
		off = lay.RecStart[dm.Anchor%len(lay.RecStart)] + dm.Delta
	case dm.Where == "pad" && len(lay.Chunks) > 0:
		nblk := (len(file) + blockSize - 1) / blockSize
		blk := dm.Anchor % nblk
		i := sort.Search(len(lay.Chunks), func(i int) bool { return lay.Chunks[i].Start >= (blk+1)*blockSize })
		off = dm.Delta
		if i > 0 {
			off += lay.Chunks[i-1].End
		}
	default:
		off = int(int64(dm.Frac) * int64(len(file)) >> 20)
	}
	off = max(0, min(off, len(file)-1))
	switch dm.Kind {
	case "bitflip":
		img[off] ^= 1 << uint(dm.Bit&7)
	case "zerobyte":
		img[off] = 0
	case "zerorun":
		clear(img[off:min(off+dm.Len, len(img))])
	case "zero4k":
		lo := off / sectorSize * sectorSize
		clear(img[lo:min(lo+sectorSize, len(img))])
	case "garbage":
		g := recData(dm.Seed, 0, dm.Len)
		copy(img[off:], g)
	}
	d = -1
	for i := range file {
		if img[i] != file[i] {
			if d < 0 {
				d = i
			}
			dEnd = i + 1
		}
	}
	return img, d, dEnd
}

// class19 describes a damage relative to the pristine layout.
type class19 struct {
	e, x              int // start of the damaged unit; index of the damaged chunk or -1
	firstBlk, lastBlk int
	strong, weak      bool // a confirming chunk exists in a later undamaged block / anywhere after the damage
	maxSyncOff        uint64
	skip              bool // not checked (known finding class or cost bound); out says why
}

// classify19 locates the damage [d, dEnd) of img in the pristine layout, finds
// the confirming chunks, labels the case and decides whether it belongs to a
// class that is not checked.
func classify19(p Plan19, lay *layout, img []byte, d, dEnd int, logNum uint64, out *evid.Outcome) (cl class19) {
	e := lay.unitStart(d)
	x := lay.chunkAt(d)
	lastBlk := (dEnd - 1) / blockSize
	defer func() {
		cl.e, cl.x, cl.firstBlk, cl.lastBlk = e, x, d/blockSize, lastBlk
	}()
	// Confirming chunks: intact chunks of this WAL after the damage whose
	// header promises that the first damaged byte had been synced (synced
	// offset > d). The promised offsets are not chunk-aligned (the writer does
	// not count full blocks flushed from its pending list), so "start of the
	// damaged chunk" would claim more than the later chunk shows.
	strong, weak := false, false
	maxSyncOff, maxStrong := uint64(0), uint64(0)
	defer func() { cl.strong, cl.weak, cl.maxSyncOff = strong, weak, maxSyncOff }()
	for _, c := range lay.Chunks {
		if c.Start < dEnd {
			continue
		}
		if c.SyncOff > uint64(d) {
			weak = true
			if c.Start/blockSize > lastBlk {
				strong = true
				maxStrong = max(maxStrong, c.SyncOff)
			}
		}
		maxSyncOff = max(maxSyncOff, c.SyncOff)
	}
	switch {
	case x < 0 && (len(lay.RecEnd) == 0 || d >= lay.RecEnd[len(lay.RecEnd)-1]):
		out.Labels = append(out.Labels, "where=after-last-record")
	case x < 0:
		out.Labels = append(out.Labels, "where=block-padding")
	case d < lay.Chunks[x].Start+lay.Chunks[x].Hdr:
		out.Labels = append(out.Labels, "where=chunk-header")
	default:
		out.Labels = append(out.Labels, "where=chunk-payload")
	}
	switch {
	case strong:
		out.Labels = append(out.Labels, "class=confirmed-in-later-block")
	case weak:
		out.Labels = append(out.Labels, "class=confirmed-only-in-damaged-block")
	default:
		out.Labels = append(out.Labels, "class=unconfirmed")
	}
	// Does the damaged header, at a record start, read as an EOF trailer (a
	// recyclable/WAL-sync chunk type carrying log number + 1)?
	eofLook := false
	if blkEnd := (e/blockSize + 1) * blockSize; e+hdrRecyclable <= min(blkEnd, len(img)) && (x < 0 || lay.Chunks[x].Pos <= 1) {
		enc := img[e+6]
		hs := hdrRecyclable
		if enc >= 9 {
			hs = hdrWALSync
		}
		eofLook = enc >= 5 && enc <= 12 && e+hs <= min(blkEnd, len(img)) &&
			binary.LittleEndian.Uint32(img[e+7:]) == uint32(logNum)+1
	}
	if eofLook {
		out.Labels = append(out.Labels, "class2=header-reads-as-eof-trailer")
		if (strong || weak) && !p.Demo && evid.FindingActive("C19", sigEOFLook) {
			out.Excluded = sigEOFLook
			cl.skip = true
			return cl
		}
	}
	// Header window: every confirming chunk in a later block promises an offset
	// that ends inside the header of the damaged chunk (d < offset <= e+19).
	hdrWindow := strong && x >= 0 && maxStrong <= uint64(e+hdrWALSync)
	if hdrWindow {
		out.Labels = append(out.Labels, "class3=synced-offset-ends-in-damaged-header")
		if !p.Demo && evid.FindingActive("C19", sigHdrWindow) {
			out.Excluded = sigHdrWindow
			cl.skip = true
			return cl
		}
	}
	if !strong && weak && !p.Demo && evid.FindingActive("C19", sigSameBlock) {
		out.Excluded = sigSameBlock
		cl.skip = true
		return cl
	}
	// Bound the reader's quadratic bit-flip search (8*n CRCs over n bytes).
	if n := crcCost(img, e, uint32(logNum)); n > 9000 {
		out.Labels = append(out.Labels, "skipped-bitflip-cost")
		cl.skip = true
		return cl
	}
	return cl
}

func exec19(p Plan19) (evid.Outcome, error) {
	if p.DB {
		return exec19DB(p)
	}
	var out evid.Outcome
	out.Counters = map[string]int{}
	w, err := writeLog(fmtWALSync, p.LogNum, p.Seed, p.Recs)
	if err != nil {
		return out, fmt.Errorf("writing the log failed: %v", err)
	}
	defer w.release()
	lay, err := parseLog(w.File, fmtWALSync, uint32(p.LogNum), w.Recs)
	if err != nil {
		return out, fmt.Errorf("the written WAL-sync log does not decode per the documented wire format: %v", err)
	}
	out.Labels = append(out.Labels, fmt.Sprintf("blocks=%d", (len(w.File)+blockSize-1)/blockSize), "damage="+p.Damage.Kind)
	img, d, dEnd := applyDamage(w.File, lay, p.Damage)
	defer filePool.Put(img[:0]) //nolint
	if d < 0 {
		out.Labels = append(out.Labels, "class=noop-damage")
		res := readImage(img, p.LogNum, w.Recs, readAllMode, nil)
		if res.Bad != nil || res.N != len(w.Recs) || res.Err != io.EOF {
			return out, fmt.Errorf("undamaged log: reader returned %d of %d records, err %v, bad %v", res.N, len(w.Recs), res.Err, res.Bad)
		}
		return out, nil
	}
	cl := classify19(p, lay, img, d, dEnd, p.LogNum, &out)
	if cl.skip {
		return out, nil
	}
	e, firstBlk, lastBlk, strong, weak, maxSyncOff := cl.e, cl.firstBlk, cl.lastBlk, cl.strong, cl.weak, cl.maxSyncOff

	res := readImage(img, p.LogNum, w.Recs, readAllMode, nil)
	desc := func() string {
		return fmt.Sprintf("damage %s changed bytes [%d,%d) (unit starting at %d, blocks %d..%d of %d); reader returned %d of %d records then %v",
			p.Damage.Kind, d, dEnd, e, firstBlk, lastBlk, (len(w.File)+blockSize-1)/blockSize, res.N, len(w.Recs), res.Err)
	}
	if res.Bad != nil {
		return out, fmt.Errorf("%s: %v", desc(), res.Bad)
	}
	need := 0
	for i, re := range lay.RecEnd {
		if re <= d {
			need = i + 1
		}
	}
	if res.N < need {
		return out, fmt.Errorf("%s: records 0..%d lie wholly before the damage and must be returned", desc(), need-1)
	}
	if !isEndOfLog(res.Err) {
		return out, fmt.Errorf("%s: the final error is neither io.EOF nor an end-of-log error", desc())
	}
	if res.N < len(w.Recs) {
		out.Labels = append(out.Labels, "effect=truncated")
		if (strong || weak) && !isCorruptionErr(res.Err) {
			where := "in a later block"
			if !strong {
				where = "only in the damaged block(s)"
			}
			return out, fmt.Errorf("%s: silent truncation: an intact later chunk %s promises synced offset %d > %d (first damaged byte), so the damaged data had been synced; want ErrInvalidChunk/ErrZeroedChunk",
				desc(), where, maxSyncOff, d)
		}
		if isCorruptionErr(res.Err) {
			out.Labels = append(out.Labels, "end=corruption-error")
		} else {
			out.Labels = append(out.Labels, "end=clean")
		}
	} else {
		out.Labels = append(out.Labels, "effect=all-records-returned")
	}
	out.NonTrivial = strong && res.N < len(w.Recs)
	if out.NonTrivial {
		out.Labels = append(out.Labels, "nontrivial")
	}
	return out, nil
}

// Minimal demonstrations of the candidate findings (see NOTES.md).
func known19() []evid.Known[Plan19] {
	many := func(first []recSpec, n, size int) []recSpec {
		for i := 0; i < n; i++ {
			first = append(first, recSpec{Size: size})
		}
		return first
	}
	return []evid.Known[Plan19]{
		// Three synced 100-byte records in one block; one bit of the first
		// record's payload is flipped. The two later chunks promise 119 and 238
		// synced bytes, yet the reader ends with ErrUnexpectedEOF.
		{Signature: sigSameBlock, Plan: Plan19{Demo: true, LogNum: 1, Seed: 1,
			Recs:   []recSpec{{Size: 100, Sync: true}, {Size: 100, Sync: true}, {Size: 100, Sync: true}},
			Damage: Damage{Kind: "bitflip", Where: "chunk", Anchor: 0, Delta: 25, Bit: 0}}},
		// Log number 2; a synced record, then 14 unsynced 3000-byte records
		// reaching into the second block. Flipping the lowest bit of the first
		// chunk's log-number field makes it read 3 = logNum+1: Next returns io.EOF.
		{Signature: sigEOFLook, Plan: Plan19{Demo: true, LogNum: 2, Seed: 1,
			Recs:   many([]recSpec{{Size: 100, Sync: true}}, 14, 3000),
			Damage: Damage{Kind: "bitflip", Where: "rec", Anchor: 0, Delta: 7, Bit: 0}}},
		// A synced 100-byte record, a synced empty record (chunk [119,138)),
		// then 15 unsynced 3000-byte records: chunks in block 1 promise 138. One
		// bit of the empty record's checksum field (byte 119) is flipped.
		{Signature: sigHdrWindow, Plan: Plan19{Demo: true, LogNum: 7, Seed: 1,
			Recs:   many([]recSpec{{Size: 100, Sync: true}, {Size: 0, Sync: true}}, 15, 3000),
			Damage: Damage{Kind: "bitflip", Where: "rec", Anchor: 1, Delta: 0, Bit: 0}}},
	}
}

func TestC19(t *testing.T) {
	evid.Run(t, evid.Spec[Plan19]{
		Known: known19(),
		ID:    "C19", Level: "exploration",
		Rule: "rapid draws a WAL-sync format log of 1-4 blocks made of small records with drawn sync flags (syncs are waited for), and one damage " +
			"(bit flip, zeroed byte/run/4KiB sector, garbage run) placed on a header field of a drawn chunk or at a uniform offset; the harness decodes its own pristine log to know " +
			"the damaged chunk and the synced offsets promised by later intact chunks. non-trivial = the reader had to stop at the damage and an intact chunk in a later, undamaged block " +
			"promises a synced offset beyond the start of the damaged chunk; distinct = hash of plan JSON",
		Assumptions: []string{
			"one contiguous damage per case",
			"chunks larger than 9000 bytes are not damaged (the reader's bit-flip diagnosis is quadratic in the chunk size)",
			"the DB-level consequence (Open returns an error marked ErrCorruption) is not exercised here; recovery.go marks exactly ErrInvalidChunk/ErrZeroedChunk as corruption",
		},
		Gen: gen19, Exec: exec19, Quick: 5000, Thorough: 40000,
		Sample: func(p Plan19) any {
			return map[string]any{"lognum": p.LogNum, "nrecs": len(p.Recs), "damage": p.Damage}
		},
	})
}
