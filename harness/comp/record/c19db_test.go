package recordchk

// C19 at the DB level: the damaged file is the WAL of a real store and the
// observer is pebble.Open (recovery.go marks ErrInvalidChunk/ErrZeroedChunk
// from the WAL reader as ErrCorruption).

import (
	"fmt"
	"io"
	"sort"
	"strconv"
	"strings"

	"github.com/cockroachdb/pebble"
	"github.com/cockroachdb/pebble/internal/base"
	"github.com/cockroachdb/pebble/verifharness/evid"
	"github.com/cockroachdb/pebble/vfs"
)

type quietLogger struct{}

func (quietLogger) Infof(string, ...interface{})  {}
func (quietLogger) Errorf(string, ...interface{}) {}
func (quietLogger) Fatalf(format string, args ...interface{}) {
	panic(fmt.Sprintf("pebble Fatalf: "+format, args...))
}

func dbOpts(fs vfs.FS) *pebble.Options {
	return &pebble.Options{
		FS:                          fs,
		FormatMajorVersion:          pebble.FormatWALSyncChunks,
		DisableAutomaticCompactions: true,
		Logger:                      quietLogger{},
	}
}

func dbKey(i int) []byte { return []byte(fmt.Sprintf("key-%06d", i)) }

// exec19DB writes one key per plan record (value size = record size, Sync as
// planned), closes the store, damages its last WAL and reopens the store.
func exec19DB(p Plan19) (evid.Outcome, error) {
	var out evid.Outcome
	out.Counters = map[string]int{}
	out.Labels = append(out.Labels, "level=db", "damage="+p.Damage.Kind)
	fs := vfs.NewMem()
	d, err := pebble.Open("db", dbOpts(fs))
	if err != nil {
		return out, fmt.Errorf("Open of a fresh store failed: %v", err)
	}
	// The first WAL of a fresh store is created before the format version is
	// ratcheted and uses the recyclable format; rotate it away.
	if err := d.Flush(); err != nil {
		return out, fmt.Errorf("Flush failed: %v", err)
	}
	vals := make([][]byte, len(p.Recs))
	for i, r := range p.Recs {
		vals[i] = recData(p.Seed, i, r.Size)
		wo := pebble.NoSync
		if r.Sync {
			wo = pebble.Sync
		}
		if err := d.Set(dbKey(i), vals[i], wo); err != nil {
			return out, fmt.Errorf("Set %d failed: %v", i, err)
		}
	}
	if err := d.Close(); err != nil {
		return out, fmt.Errorf("Close failed: %v", err)
	}
	names, err := fs.List("db")
	if err != nil {
		return out, err
	}
	var logs []string
	for _, n := range names {
		if strings.HasSuffix(n, ".log") {
			logs = append(logs, n)
		}
	}
	sort.Strings(logs)
	if len(logs) == 0 {
		return out, fmt.Errorf("harness: no WAL file in %v", names)
	}
	name := logs[len(logs)-1]
	logNum, perr := strconv.ParseUint(strings.TrimSuffix(name, ".log"), 10, 64)
	if perr != nil {
		return out, fmt.Errorf("harness: cannot parse WAL name %q", name)
	}
	path := fs.PathJoin("db", name)
	rf, err := fs.Open(path)
	if err != nil {
		return out, err
	}
	file, err := io.ReadAll(rf)
	rf.Close()
	if err != nil {
		return out, err
	}
	lay, stop := parseLogPrefix(file, fmtWALSync, uint32(logNum), nil)
	if stop != nil || len(lay.RecEnd) != len(p.Recs) {
		// Not the simple "one WAL record per Set, all in the last WAL" situation
		// the mapping below relies on; nothing is checked.
		out.Labels = append(out.Labels, "db-layout-not-simple")
		return out, nil
	}
	img, dmg, dEnd := applyDamage(file, lay, p.Damage)
	if dmg < 0 {
		out.Labels = append(out.Labels, "class=noop-damage")
		return out, nil
	}
	cl := classify19(p, lay, img, dmg, dEnd, logNum, &out)
	if cl.skip {
		return out, nil
	}
	wf, err := fs.Create(path, vfs.WriteCategoryUnspecified)
	if err != nil {
		return out, err
	}
	if _, err := wf.Write(img); err != nil {
		return out, err
	}
	if err := wf.Sync(); err != nil {
		return out, err
	}
	wf.Close()

	d2, oerr := pebble.Open("db", dbOpts(fs))
	desc := fmt.Sprintf("damage %s changed bytes [%d,%d) of WAL %s (unit starting at %d); Open returned %v", p.Damage.Kind, dmg, dEnd, name, cl.e, oerr)
	mustReport := cl.x >= 0 && (cl.strong || cl.weak)
	if oerr != nil {
		out.Labels = append(out.Labels, "open=error")
		if mustReport && !base.IsCorruptionError(oerr) {
			return out, fmt.Errorf("%s: the damaged data was synced according to a later intact chunk (synced offset %d), the error must be marked ErrCorruption", desc, cl.maxSyncOff)
		}
		out.NonTrivial = cl.strong && cl.x >= 0
		return out, nil
	}
	defer d2.Close()
	out.Labels = append(out.Labels, "open=ok")
	if mustReport {
		return out, fmt.Errorf("%s: silent truncation: the damaged chunk belongs to a record and a later intact chunk promises synced offset %d > %d; Open must fail with ErrCorruption", desc, cl.maxSyncOff, dmg)
	}
	// Open succeeded: every record wholly before the damage must be there,
	// byte-identical; the damaged record must not be.
	for i := range p.Recs {
		v, closer, gerr := d2.Get(dbKey(i))
		switch {
		case lay.RecEnd[i] <= dmg:
			if gerr != nil {
				return out, fmt.Errorf("%s: key %d of a record wholly before the damage is missing after recovery: %v", desc, i, gerr)
			}
			if string(v) != string(vals[i]) {
				closer.Close()
				return out, fmt.Errorf("%s: key %d has a wrong value after recovery", desc, i)
			}
		case cl.x >= 0 && i == lay.Chunks[cl.x].Rec:
			if gerr == nil {
				closer.Close()
				return out, fmt.Errorf("%s: key %d was recovered from a damaged chunk", desc, i)
			}
		}
		if gerr == nil {
			closer.Close()
		}
	}
	return out, nil
}
