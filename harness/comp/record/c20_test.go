package recordchk

// C20 — a sync acknowledgement implies the record and all earlier ones are synced.

import (
	"errors"
	"fmt"
	"github.com/cockroachdb/pebble/vfs"
	"io"
	"sync"
	"syscall"
	"testing"
	"testing/synctest"
	"time"

	"github.com/cockroachdb/pebble/internal/base"
	"github.com/cockroachdb/pebble/record"
	"github.com/cockroachdb/pebble/verifharness/evid"
	"pgregory.net/rapid"
)

// Step is one action of the scheduler/producer goroutine.
//
//	rec      write one record (Sync: with a sync waiter), then let the flush loop run until it blocks
//	release  let N blocked Write/Sync calls of the file proceed, one at a time
//	tosync   release blocked Write calls until a Sync call is blocked
//	sleep    advance virtual time by US microseconds (fires the min-sync-interval timer)
//	burst    N small records with sync waiters issued back to back without letting the flush loop settle
//	open     open the gates for good: Write/Sync no longer block
type Step struct {
	Op   string `json:"op"`
	Size int    `json:"n,omitempty"`
	Sync bool   `json:"s,omitempty"`
	N    int    `json:"k,omitempty"`
	US   int    `json:"us,omitempty"`
}

// Plan20 is a C20 case.
type Plan20 struct {
	Format     string `json:"format"` // recyclable | walsync
	LogNum     uint64 `json:"lognum"`
	Seed       uint64 `json:"seed"`
	IntervalUS int    `json:"interval_us"` // WALMinSyncInterval
	Gated      bool   `json:"gated"`       // Write/Sync calls block until released
	// FailWrite/FailSync: the n-th Write / Sync call of the file fails (1-based, 0 = never).
	FailWrite int `json:"fail_write,omitempty"`
	FailSync  int `json:"fail_sync,omitempty"`
	// Partial: bytes of the failing write that reach the file anyway.
	Partial int    `json:"partial,omitempty"`
	Steps   []Step `json:"steps"`
	// Stack: the writer does not get the harness file directly but through the
	// layers a store puts in between: vfs.OnDiskFull (injected failures are
	// ENOSPC errors, which that layer reacts to) and vfs.NewSyncingFile.
	Stack bool `json:"stack,omitempty"`
}

var errInjected = errors.New("injected I/O error")

// errENOSPC is the injected failure in Stack mode.
var errENOSPC = fmt.Errorf("injected I/O error: %w", syscall.ENOSPC)

// stackFS hands out the harness file as a vfs.File (every other operation goes
// to an in-memory file system).
type stackFS struct {
	vfs.FS
	g *gateFile
}

func (s stackFS) Create(name string, c vfs.DiskWriteCategory) (vfs.File, error) {
	f, err := s.FS.Create(name, c)
	if err != nil {
		return nil, err
	}
	return &stackFile{File: f, g: s.g}, nil
}

type stackFile struct {
	vfs.File
	g *gateFile
}

func (f *stackFile) Write(p []byte) (int, error)    { return f.g.Write(p) }
func (f *stackFile) Sync() error                    { return f.g.Sync() }
func (f *stackFile) SyncData() error                { return f.g.Sync() }
func (f *stackFile) SyncTo(int64) (bool, error)     { return true, f.g.Sync() }
func (f *stackFile) Preallocate(off, n int64) error { return nil }
func (f *stackFile) Close() error                   { return f.File.Close() }

// gateFile is the harness-owned file: it owns the I/O schedule.
type gateFile struct {
	mu                 sync.Mutex
	data               []byte
	durable            int // len(data) when the last successful Sync returned
	nWrite             int
	nSync              int
	failed             bool
	dropped            bool
	maskedWriteFailure bool
	gated              bool
	blocked            string // "", "write", "sync": a call is waiting at the gate
	gate               chan struct{}
	plan               *Plan20
	// statistics for the non-triviality rule
	syncsDone int
}

func (f *gateFile) wait(kind string) {
	f.mu.Lock()
	if !f.gated {
		f.mu.Unlock()
		return
	}
	f.blocked = kind
	f.mu.Unlock()
	<-f.gate
}

func (f *gateFile) Write(p []byte) (int, error) {
	f.wait("write")
	f.mu.Lock()
	defer f.mu.Unlock()
	f.blocked = ""
	f.nWrite++
	if f.nWrite == f.plan.FailWrite {
		// In Stack mode vfs.OnDiskFull retries the rest of a write that failed
		// with ENOSPC once (by design; only syncs are never retried): the writer
		// sees no failure.
		f.failed = !f.plan.Stack
		if f.plan.Stack {
			f.maskedWriteFailure = true
		}
		k := min(f.plan.Partial, len(p))
		f.data = append(f.data, p[:k]...)
		return k, f.injected()
	}
	f.data = append(f.data, p...)
	return len(p), nil
}

func (f *gateFile) Sync() error {
	f.wait("sync")
	f.mu.Lock()
	defer f.mu.Unlock()
	f.blocked = ""
	f.nSync++
	if f.nSync == f.plan.FailSync {
		// A failed fsync may have dropped the dirty pages (and marked them clean):
		// what was not durable at this moment never becomes durable, whatever a
		// later fsync reports. The log is read as a prefix, so nothing behind the
		// hole counts either.
		f.failed, f.dropped = true, true
		return f.injected()
	}
	if !f.dropped {
		f.durable = len(f.data)
	}
	f.syncsDone++
	return nil
}

func (f *gateFile) injected() error {
	if f.plan.Stack {
		return errENOSPC
	}
	return errInjected
}

func (f *gateFile) Close() error { return nil }

func (f *gateFile) snapshot() (durable int, failed bool, blocked string) {
	f.mu.Lock()
	defer f.mu.Unlock()
	return f.durable, f.failed, f.blocked
}

// releaseOne lets the call waiting at the gate proceed. It reports whether a
// call was waiting.
func (f *gateFile) releaseOne() bool {
	f.mu.Lock()
	b := f.blocked
	f.mu.Unlock()
	if b == "" {
		return false
	}
	f.gate <- struct{}{}
	return true
}

func (f *gateFile) open() {
	f.mu.Lock()
	f.gated = false
	b := f.blocked
	f.mu.Unlock()
	if b != "" {
		f.gate <- struct{}{}
	}
}

// waiter is one sync request and what was seen when it was released.
type waiter struct {
	rec      int
	off      int64
	wg       sync.WaitGroup
	err      error
	released bool
	durable  int  // durable length when the release was observed
	failed   bool // an injected failure had happened when the release was observed
}

type run20 struct {
	mu      sync.Mutex
	waiters []*waiter
}

func gen20(t *rapid.T) Plan20 {
	p := Plan20{
		Format:     rapid.SampledFrom([]string{fmtRecyclable, fmtWALSync, fmtWALSync}).Draw(t, "format"),
		LogNum:     rapid.SampledFrom(logNums).Draw(t, "lognum"),
		Seed:       rapid.Uint64().Draw(t, "seed"),
		IntervalUS: rapid.SampledFrom([]int{0, 0, 50, 1000}).Draw(t, "interval"),
		Gated:      rapid.IntRange(0, 5).Draw(t, "gated") > 0,
		Stack:      rapid.IntRange(0, 2).Draw(t, "stack") == 0,
	}
	switch rapid.IntRange(0, 7).Draw(t, "fail") {
	case 0:
		p.FailWrite = rapid.IntRange(1, 12).Draw(t, "failwrite")
		p.Partial = rapid.SampledFrom([]int{0, 0, 1, 10, 100}).Draw(t, "partial")
	case 1:
		p.FailSync = rapid.IntRange(1, 8).Draw(t, "failsync")
	}
	n := rapid.IntRange(3, 40).Draw(t, "nsteps")
	for i := 0; i < n; i++ {
		switch k := rapid.IntRange(0, 39).Draw(t, "step") / 2; {
		case k < 7:
			s := Step{Op: "rec", Sync: rapid.IntRange(0, 5).Draw(t, "sync") > 0}
			switch rapid.IntRange(0, 9).Draw(t, "sizeclass") {
			case 0:
				s.Size = rapid.IntRange(blockSize-60, blockSize+60).Draw(t, "blockish")
			case 1:
				s.Size = rapid.IntRange(blockSize, 3*blockSize).Draw(t, "big")
			case 2:
				s.Size = 0
			default:
				s.Size = rapid.IntRange(1, 3000).Draw(t, "small")
			}
			p.Steps = append(p.Steps, s)
		case k < 12:
			p.Steps = append(p.Steps, Step{Op: "release", N: rapid.IntRange(1, 4).Draw(t, "nrelease")})
		case k < 16:
			p.Steps = append(p.Steps, Step{Op: "tosync"})
		case k < 17:
			p.Steps = append(p.Steps, Step{Op: "sleep", US: rapid.SampledFrom([]int{10, 49, 50, 51, 999, 1000, 5000}).Draw(t, "us")})
		case k < 19:
			p.Steps = append(p.Steps, Step{Op: "burst", N: rapid.IntRange(2, 40).Draw(t, "nburst"), Size: rapid.IntRange(0, 200).Draw(t, "burstsize")})
		default:
			if k == 19 && rapid.Bool().Draw(t, "open") {
				p.Steps = append(p.Steps, Step{Op: "open"})
			}
		}
	}
	return p
}

var t20 *testing.T

// exec20 runs the plan in a synctest bubble (virtual time, and synctest.Wait
// as "the flush loop has run until it blocked") and reports by value.
func exec20(p Plan20) (out evid.Outcome, err error) {
	var verr error
	func() {
		defer func() {
			if r := recover(); r != nil {
				// synctest reports a bubble in which every goroutine is blocked for
				// good (a waiter never released, Close hanging) by panicking here.
				verr = fmt.Errorf("bubble did not finish: %v", r)
			}
		}()
		synctest.Test(t20, func(*testing.T) {
			defer func() {
				if r := recover(); r != nil {
					verr = fmt.Errorf("panic in scheduler goroutine: %v", r)
				}
			}()
			out, verr = run20Plan(p)
		})
	}()
	return out, verr
}

func run20Plan(p Plan20) (evid.Outcome, error) {
	var out evid.Outcome
	out.Counters = map[string]int{}
	out.Labels = append(out.Labels, "format="+p.Format, fmt.Sprintf("interval_us=%d", p.IntervalUS))
	f := &gateFile{plan: &p, gated: p.Gated, gate: make(chan struct{})}
	sem := make(chan struct{}, record.SyncConcurrency-1)
	iv := time.Duration(p.IntervalUS) * time.Microsecond
	var dst io.Writer = f
	if p.Stack {
		fs := vfs.OnDiskFull(stackFS{FS: vfs.NewMem(), g: f}, func() {})
		vf, err := fs.Create("000001.log", vfs.WriteCategoryUnspecified)
		if err != nil {
			return out, fmt.Errorf("harness: %v", err)
		}
		dst = vfs.NewSyncingFile(vf, vfs.SyncingFileOptions{})
		out.Labels = append(out.Labels, "fs-stack")
	}
	w := record.NewLogWriter(dst, base.DiskFileNum(p.LogNum), record.LogWriterConfig{
		WALMinSyncInterval:  func() time.Duration { return iv },
		QueueSemChan:        sem,
		WriteWALSyncOffsets: func() bool { return p.Format == fmtWALSync },
	})
	r := &run20{}
	var recs [][]byte
	var durableAtEmit []int
	var firstViolation error
	violate := func(format string, args ...any) {
		if firstViolation == nil {
			firstViolation = fmt.Errorf(format, args...)
		}
	}
	ntEnqueuedDuringSync, ntMultiRelease := false, false
	rejected := false

	observed := func() int {
		r.mu.Lock()
		defer r.mu.Unlock()
		n := 0
		for _, wt := range r.waiters {
			if wt.released {
				n++
			}
		}
		return n
	}
	writeRec := func(size int, wantSync bool) {
		if rejected {
			return
		}
		idx := len(recs)
		data := recData(p.Seed, idx, size)
		_, failed, blocked := f.snapshot()
		var off int64
		var err error
		if wantSync {
			wt := &waiter{rec: idx}
			wt.wg.Add(1)
			sem <- struct{}{}
			off, err = w.SyncRecord(data, &wt.wg, &wt.err)
			if err == nil {
				wt.off = off
				r.mu.Lock()
				r.waiters = append(r.waiters, wt)
				r.mu.Unlock()
				go func() {
					wt.wg.Wait()
					dd, ff, _ := f.snapshot()
					r.mu.Lock()
					wt.released, wt.durable, wt.failed = true, dd, ff
					r.mu.Unlock()
				}()
				if blocked == "sync" {
					ntEnqueuedDuringSync = true
				}
			} else {
				<-sem
			}
		} else {
			off, err = w.WriteRecord(data)
		}
		if err != nil {
			// The writer only refuses records after an I/O error.
			if !failed {
				_, failedNow, _ := f.snapshot()
				if !failedNow {
					violate("record %d was refused with %v although no write or sync had failed", idx, err)
				}
			}
			rejected = true
			out.Counters["records_refused_after_error"]++
			return
		}
		recs = append(recs, data)
		// Read after the call: a sync may complete while the record is being
		// written, and the synced length only grows.
		dAfter, _, _ := f.snapshot()
		durableAtEmit = append(durableAtEmit, dAfter)
	}

	for _, s := range p.Steps {
		switch s.Op {
		case "rec":
			writeRec(s.Size, s.Sync)
			synctest.Wait()
		case "burst":
			for i := 0; i < s.N; i++ {
				writeRec(s.Size, true)
			}
			synctest.Wait()
		case "release":
			for i := 0; i < max(1, s.N); i++ {
				before := observed()
				_, _, blocked := f.snapshot()
				if !f.releaseOne() {
					break
				}
				synctest.Wait()
				out.Counters["released_"+blocked]++
				if blocked == "sync" && observed()-before >= 2 {
					ntMultiRelease = true
				}
			}
		case "tosync":
			// Release blocked Write calls until a Sync call is waiting at the gate.
			for i := 0; i < 6; i++ {
				_, _, blocked := f.snapshot()
				if blocked != "write" {
					break
				}
				f.releaseOne()
				synctest.Wait()
				out.Counters["released_write"]++
			}
		case "sleep":
			time.Sleep(time.Duration(s.US) * time.Microsecond)
			synctest.Wait()
		case "open":
			f.open()
			synctest.Wait()
		}
	}
	// Close with open gates: it must flush, sync and release every waiter.
	f.open()
	closeErr := w.Close()
	synctest.Wait()
	_, failed, _ := f.snapshot()

	// Every waiter must have been released by the time Close returned.
	r.mu.Lock()
	for _, wt := range r.waiters {
		if !wt.released {
			violate("the sync waiter of record %d was still not released after Close returned", wt.rec)
			wt.wg.Done() // let the observer goroutine finish so the bubble can end
		}
	}
	r.mu.Unlock()
	synctest.Wait()

	f.mu.Lock()
	data := append([]byte(nil), f.data...)
	finalDurable := f.durable
	f.mu.Unlock()
	lay, stop := parseLogPrefix(data, p.Format, uint32(p.LogNum), recs)
	if !failed {
		if closeErr != nil {
			violate("Close returned %v although no write or sync failed", closeErr)
		}
		if stop != nil || len(lay.RecEnd) != len(recs) || lay.Trailer < 0 {
			violate("no I/O failed, but after Close the file does not hold all %d records and the EOF trailer: %d records decoded, stop reason %v", len(recs), len(lay.RecEnd), stop)
		}
		if finalDurable != len(data) {
			violate("no I/O failed, but after Close only %d of the %d bytes written are synced", finalDurable, len(data))
		}
	} else {
		out.Labels = append(out.Labels, "io-failure-happened")
		if closeErr == nil {
			violate("a write or sync failed but Close returned nil")
		}
	}
	nReleasedOK := 0
	for _, wt := range r.waiters {
		if !wt.released {
			continue
		}
		if wt.err != nil {
			out.Counters["waiters_error"]++
			if !wt.failed {
				violate("the sync waiter of record %d got error %v although no write or sync had failed", wt.rec, wt.err)
			}
			continue
		}
		nReleasedOK++
		out.Counters["waiters_ok"]++
		// Released without error: the record and all earlier ones are inside
		// the bytes that were synced when the release was observed. The file is
		// append-only, so data[:wt.durable] is what was durable then.
		if wt.rec >= len(lay.RecEnd) || lay.RecEnd[wt.rec] > wt.durable {
			end := -1
			if wt.rec < len(lay.RecEnd) {
				end = lay.RecEnd[wt.rec]
			}
			violate("the sync waiter of record %d (SyncRecord returned offset %d) was released without error when only %d bytes were synced; the record ends at %d in the file (-1: it is not completely in the file)",
				wt.rec, wt.off, wt.durable, end)
		}
		if int64(wt.durable) < wt.off {
			out.Counters["released_before_returned_offset_synced"]++
		}
	}
	if p.Format == fmtWALSync {
		// The synced offset in a chunk header must not exceed what was durable
		// when the record was handed to the writer.
		for _, ch := range lay.Chunks {
			if ch.Rec < len(durableAtEmit) && ch.SyncOff > uint64(durableAtEmit[ch.Rec]) {
				violate("chunk at %d of record %d promises synced offset %d, but only %d bytes were synced when the record was written", ch.Start, ch.Rec, ch.SyncOff, durableAtEmit[ch.Rec])
				break
			}
		}
	}
	if p.Gated {
		out.Labels = append(out.Labels, "gated")
	}
	if ntEnqueuedDuringSync {
		out.Labels = append(out.Labels, "nt=record-enqueued-while-sync-blocked")
	}
	if ntMultiRelease {
		out.Labels = append(out.Labels, "nt=sync-released-2+-waiters")
	}
	out.NonTrivial = ntEnqueuedDuringSync || ntMultiRelease
	out.Counters["waiters"] += len(r.waiters)
	out.Counters["syncs_completed"] += f.syncsDone
	return out, firstViolation
}

func TestC20(t *testing.T) {
	t20 = t
	evid.Run(t, evid.Spec[Plan20]{
		ID: "C20", Level: "exploration",
		Rule: "rapid draws a LogWriter configuration (recyclable / WAL-sync format, WALMinSyncInterval 0/50us/1ms, optional n-th Write or Sync failing) and up to 40 steps of one producer " +
			"(records of 0 bytes to 3 blocks with or without a sync waiter, bursts of waiters) interleaved with releases of the file's blocked Write/Sync calls and virtual-time sleeps; " +
			"the case runs in a synctest bubble, so after every step the flush loop has run until it blocked on the harness-owned file or idled. " +
			"non-trivial = a record with a waiter was enqueued while a Sync call was blocked, or the release of one Sync call released >=2 waiters; distinct = hash of plan JSON",
		Assumptions: []string{
			"single producer, as guaranteed by commitPipeline.mu; concurrency is between the producer, the flush loop, the min-sync-interval timer and Close",
			"interleavings are those where the producer acts while the flush loop is blocked in Write/Sync or idle (bursts add real, uncontrolled concurrency); preemption inside the flush loop between two loads is not controlled",
			"a waiter's release is observed by a goroutine blocked in WaitGroup.Wait; the synced length it reads can only be larger than at the release (sound, may miss)",
		},
		Gen: gen20, Exec: exec20, Quick: 5000, Thorough: 20000,
	})
}
