// Package recordchk holds the checks for C18, C19 and C20 (pebble/record).
//
// This file contains the pieces shared by the three checks: an independent
// reference decoder of the documented wire format (record/record.go package
// comment), a deterministic record-content generator, an in-memory file that
// remembers what had been written when Sync was called, and small drivers for
// the three writers and for record.Reader.
package recordchk

import (
	"bytes"
	"encoding/binary"
	"errors"
	"fmt"
	"hash/crc32"
	"io"
	"sort"
	"sync"

	"github.com/cockroachdb/pebble/internal/base"
	"github.com/cockroachdb/pebble/record"
)

// Wire-format constants, from the package comment of record/record.go ("These
// constants are part of the wire format and should not be changed").
const (
	blockSize     = 32 * 1024
	hdrLegacy     = 7
	hdrRecyclable = 11
	hdrWALSync    = 19
	sectorSize    = 4096
)

const (
	fmtLegacy     = "legacy"
	fmtRecyclable = "recyclable"
	fmtWALSync    = "walsync"
)

func hdrSize(format string) int {
	switch format {
	case fmtLegacy:
		return hdrLegacy
	case fmtRecyclable:
		return hdrRecyclable
	case fmtWALSync:
		return hdrWALSync
	}
	panic("bad format " + format)
}

// encBase returns the encoding of the "full" chunk type of a format; first,
// middle and last follow.
func encBase(format string) byte {
	switch format {
	case fmtLegacy:
		return 1
	case fmtRecyclable:
		return 5
	case fmtWALSync:
		return 9
	}
	panic("bad format " + format)
}

var castagnoli = crc32.MakeTable(crc32.Castagnoli)

// maskedCRC is the LevelDB masked CRC-32C used by the log format.
func maskedCRC(b []byte) uint32 {
	c := crc32.Checksum(b, castagnoli)
	return (c>>15 | c<<17) + 0xa282ead8
}

// recData returns the deterministic content of record idx: a splitmix64
// stream keyed by (seed, idx), so that any two records, and any two chunks of
// one record, differ.
func recData(seed uint64, idx, n int) []byte {
	b := make([]byte, n)
	x := seed*0x9e3779b97f4a7c15 + uint64(idx+1)*0xbf58476d1ce4e5b9
	i := 0
	for i < n {
		x += 0x9e3779b97f4a7c15
		z := x
		z = (z ^ (z >> 30)) * 0xbf58476d1ce4e5b9
		z = (z ^ (z >> 27)) * 0x94d049bb133111eb
		z ^= z >> 31
		for k := 0; k < 8 && i < n; k++ {
			b[i] = byte(z >> (8 * k))
			i++
		}
	}
	return b
}

// chunk is one physical chunk found by the reference decoder.
type chunk struct {
	Start, End int // [Start, End) including the header
	Hdr        int
	Pos        int // 0 full, 1 first, 2 middle, 3 last
	Rec        int // index of the record it belongs to
	SyncOff    uint64
}

// layout is what the reference decoder found in a pristine log.
type layout struct {
	Chunks   []chunk
	RecStart []int // offset of the first chunk header of each record
	RecEnd   []int // offset just past the last chunk of each record
	RecMulti []bool
	Trailer  int // offset of the EOF trailer, -1 if none
	Len      int
}

// chunkAt returns the index of the chunk containing offset off, or -1 if off
// lies in block padding, the EOF trailer or beyond.
func (l *layout) chunkAt(off int) int {
	i := sort.Search(len(l.Chunks), func(i int) bool { return l.Chunks[i].End > off })
	if i < len(l.Chunks) && l.Chunks[i].Start <= off {
		return i
	}
	return -1
}

// unitStart returns the start of the "unit" containing off: the chunk start
// if off is inside a chunk, otherwise the end of the preceding chunk (start of
// padding / trailer).
func (l *layout) unitStart(off int) int {
	i := sort.Search(len(l.Chunks), func(i int) bool { return l.Chunks[i].End > off })
	if i < len(l.Chunks) && l.Chunks[i].Start <= off {
		return l.Chunks[i].Start
	}
	if i == 0 {
		return 0
	}
	return l.Chunks[i-1].End
}

// parseLog decodes a pristine log strictly according to the documented wire
// format and checks that it holds exactly the records want. It is the
// reference the checks use to locate chunk boundaries; it shares no code with
// the package under test.
func parseLog(b []byte, format string, logNum uint32, want [][]byte) (*layout, error) {
	l, err := parseLogPrefix(b, format, logNum, want)
	if err != nil {
		return nil, err
	}
	if len(l.RecEnd) != len(want) {
		return nil, fmt.Errorf("log holds %d records, %d were written", len(l.RecEnd), len(want))
	}
	return l, nil
}

// parseLogPrefix is parseLog for a log that may stop anywhere: it returns the
// layout of the valid prefix (complete records in RecEnd) together with the
// reason decoding stopped (nil if the whole input decoded). With want == nil
// the record contents are not compared.
func parseLogPrefix(b []byte, format string, logNum uint32, want [][]byte) (*layout, error) {
	l := &layout{Trailer: -1, Len: len(b)}
	hdr := hdrSize(format)
	eb := encBase(format)
	pos := 0
	rec := 0
	var cur []byte
	inRec := false
	for pos < len(b) {
		rem := blockSize - pos%blockSize
		if format != fmtLegacy && rem >= hdrRecyclable && pos+hdrRecyclable <= len(b) &&
			b[pos+6] == 5 && binary.LittleEndian.Uint32(b[pos+7:]) == logNum+1 {
			// EOF trailer: a recyclable "full" header carrying logNum+1.
			if binary.LittleEndian.Uint32(b[pos:]) != 0 || binary.LittleEndian.Uint16(b[pos+4:]) != 0 {
				return l, fmt.Errorf("EOF trailer at %d has non-zero crc/size", pos)
			}
			if inRec {
				return l, fmt.Errorf("EOF trailer at %d inside record %d", pos, rec)
			}
			if pos+hdrRecyclable != len(b) {
				return l, fmt.Errorf("EOF trailer at %d is not at the end of the file (len %d)", pos, len(b))
			}
			l.Trailer = pos
			pos += hdrRecyclable
			break
		}
		if rem < hdr {
			// Unused bytes of a block must be zero.
			end := min(pos+rem, len(b))
			for i := pos; i < end; i++ {
				if b[i] != 0 {
					return l, fmt.Errorf("non-zero padding byte at %d", i)
				}
			}
			pos = end
			continue
		}
		if pos+hdr > len(b) {
			return l, fmt.Errorf("file ends inside a chunk header at %d (len %d)", pos, len(b))
		}
		sum := binary.LittleEndian.Uint32(b[pos:])
		size := int(binary.LittleEndian.Uint16(b[pos+4:]))
		enc := b[pos+6]
		if enc < eb || enc > eb+3 {
			return l, fmt.Errorf("chunk at %d: encoding %d is not a %s chunk type", pos, enc, format)
		}
		end := pos + hdr + size
		if end > pos+rem {
			return l, fmt.Errorf("chunk at %d crosses a block boundary", pos)
		}
		if end > len(b) {
			return l, fmt.Errorf("chunk at %d extends past the end of the file", pos)
		}
		if maskedCRC(b[pos+6:end]) != sum {
			return l, fmt.Errorf("chunk at %d: checksum over type, log number and payload does not match", pos)
		}
		c := chunk{Start: pos, End: end, Hdr: hdr, Pos: int(enc - eb), Rec: rec}
		if format != fmtLegacy {
			if ln := binary.LittleEndian.Uint32(b[pos+7:]); ln != logNum {
				return l, fmt.Errorf("chunk at %d: log number %d, want %d", pos, ln, logNum)
			}
		}
		if format == fmtWALSync {
			c.SyncOff = binary.LittleEndian.Uint64(b[pos+11:])
		}
		first := c.Pos == 0 || c.Pos == 1
		last := c.Pos == 0 || c.Pos == 3
		if first == inRec {
			return l, fmt.Errorf("chunk at %d: position %d out of sequence (inside record: %v)", pos, c.Pos, inRec)
		}
		if first {
			cur = cur[:0]
			l.RecStart = append(l.RecStart, pos)
			l.RecMulti = append(l.RecMulti, !last)
			inRec = true
		}
		cur = append(cur, b[pos+hdr:end]...)
		l.Chunks = append(l.Chunks, c)
		pos = end
		if last {
			if want != nil {
				if rec >= len(want) {
					return l, fmt.Errorf("log holds more than the %d records written", len(want))
				}
				if !bytes.Equal(cur, want[rec]) {
					return l, fmt.Errorf("record %d decodes to %d bytes that differ from the %d bytes written", rec, len(cur), len(want[rec]))
				}
			}
			l.RecEnd = append(l.RecEnd, pos)
			inRec = false
			rec++
		}
	}
	if inRec {
		return l, fmt.Errorf("log ends inside record %d", rec)
	}
	return l, nil
}

// memFile is the sink handed to the writers. It remembers the length that
// had been written at the last Sync.
type memFile struct {
	mu     sync.Mutex
	buf    []byte
	synced int
	nsync  int
}

func (f *memFile) Write(p []byte) (int, error) {
	f.mu.Lock()
	f.buf = append(f.buf, p...)
	f.mu.Unlock()
	return len(p), nil
}

func (f *memFile) Sync() error {
	f.mu.Lock()
	f.synced = len(f.buf)
	f.nsync++
	f.mu.Unlock()
	return nil
}

func (f *memFile) Close() error { return nil }

// filePool recycles the backing arrays of memFiles between cases.
var filePool = sync.Pool{New: func() any { return make([]byte, 0, 6*blockSize) }}

func newMemFile() *memFile { return &memFile{buf: filePool.Get().([]byte)[:0]} }

// release returns the file's backing array to the pool; File must not be used afterwards.
func (w *written) release() {
	if w != nil && w.File != nil {
		filePool.Put(w.File[:0]) //nolint
		w.File = nil
	}
}

func (f *memFile) state() (length, synced int) {
	f.mu.Lock()
	defer f.mu.Unlock()
	return len(f.buf), f.synced
}

// recSpec is one record of a plan.
type recSpec struct {
	Size int  `json:"n"`
	Sync bool `json:"s,omitempty"`
	// Pieces (legacy writer only): write the record with this many Write calls.
	Pieces int `json:"p,omitempty"`
}

// written is the result of producing a log with one of the real writers.
type written struct {
	File   []byte
	Recs   [][]byte
	Synced []int   // Synced[i] = length known synced once record i had been written (and waited for)
	Offs   []int64 // offsets returned by the writer for each record
}

// writeLog produces a log with the real writers. Sync requests are waited for
// one at a time, so the result is a deterministic function of its arguments.
func writeLog(format string, logNum uint64, seed uint64, recs []recSpec) (*written, error) {
	out := &written{}
	f := newMemFile()
	for i, r := range recs {
		out.Recs = append(out.Recs, recData(seed, i, r.Size))
	}
	if format == fmtLegacy {
		w := record.NewWriter(f)
		for i, r := range recs {
			data := out.Recs[i]
			if r.Pieces <= 0 {
				off, err := w.WriteRecord(data)
				if err != nil {
					return nil, fmt.Errorf("Writer.WriteRecord(%d): %v", i, err)
				}
				out.Offs = append(out.Offs, off)
			} else {
				rw, err := w.Next()
				if err != nil {
					return nil, fmt.Errorf("Writer.Next(%d): %v", i, err)
				}
				n := r.Pieces
				for k := 0; k < n; k++ {
					lo, hi := len(data)*k/n, len(data)*(k+1)/n
					if _, err := rw.Write(data[lo:hi]); err != nil {
						return nil, fmt.Errorf("Writer.Write(%d): %v", i, err)
					}
				}
				out.Offs = append(out.Offs, -1)
			}
			if r.Sync {
				if err := w.Flush(); err != nil {
					return nil, fmt.Errorf("Writer.Flush(%d): %v", i, err)
				}
				f.Sync()
			}
			_, s := f.state()
			out.Synced = append(out.Synced, s)
		}
		if err := w.Close(); err != nil {
			return nil, fmt.Errorf("Writer.Close: %v", err)
		}
		out.File = f.buf
		return out, nil
	}
	w := record.NewLogWriter(f, base.DiskFileNum(logNum), record.LogWriterConfig{
		WriteWALSyncOffsets: func() bool { return format == fmtWALSync },
	})
	var firstErr error
	for i, r := range recs {
		var off int64
		var err error
		if r.Sync {
			var wg sync.WaitGroup
			var serr error
			wg.Add(1)
			off, err = w.SyncRecord(out.Recs[i], &wg, &serr)
			if err == nil {
				wg.Wait()
				err = serr
			}
		} else {
			off, err = w.WriteRecord(out.Recs[i])
		}
		if err != nil && firstErr == nil {
			firstErr = fmt.Errorf("LogWriter record %d: %v", i, err)
			break
		}
		out.Offs = append(out.Offs, off)
		_, s := f.state()
		out.Synced = append(out.Synced, s)
	}
	if err := w.Close(); err != nil && firstErr == nil {
		firstErr = fmt.Errorf("LogWriter.Close: %v", err)
	}
	if firstErr != nil {
		return nil, firstErr
	}
	out.File = f.buf
	return out, nil
}

// readOutcome is what record.Reader produced for an image.
type readOutcome struct {
	N   int   // records returned completely
	Err error // first error from Next or from reading a record
	Bad error // a returned record that is not the expected one (property violation)
}

// readMode selects how records are consumed.
const (
	readAllMode  = 0 // io.ReadAll
	readTinyMode = 1 // 7-byte reads
	readSkipMode = 2 // odd records are not read at all (allowed by the package doc)
)

// readImage reads img with record.NewReader and compares every returned
// record with want (in order). It stops at the first error, as all callers in
// pebble do.
func readImage(img []byte, logNum uint64, want [][]byte, mode int, scratch *bytes.Buffer) (res readOutcome) {
	r := record.NewReader(bytes.NewReader(img), base.DiskFileNum(logNum))
	buf := scratch
	if buf == nil {
		buf = &bytes.Buffer{}
	}
	tiny := make([]byte, 7)
	for {
		rr, err := r.Next()
		if err != nil {
			res.Err = err
			return res
		}
		if mode == readSkipMode && res.N%2 == 1 {
			res.N++
			if res.N > len(want) {
				res.Bad = fmt.Errorf("reader returned record #%d but only %d were written", res.N-1, len(want))
				return res
			}
			continue
		}
		buf.Reset()
		if mode == readTinyMode {
			for {
				n, rerr := rr.Read(tiny)
				buf.Write(tiny[:n])
				if rerr != nil {
					err = rerr
					break
				}
			}
			if err == io.EOF {
				err = nil
			}
		} else {
			_, err = buf.ReadFrom(rr)
		}
		if err != nil {
			res.Err = err
			return res
		}
		if res.N >= len(want) {
			res.Bad = fmt.Errorf("reader returned record #%d (%d bytes) but only %d were written", res.N, buf.Len(), len(want))
			return res
		}
		if !bytes.Equal(buf.Bytes(), want[res.N]) {
			res.Bad = fmt.Errorf("record #%d returned by the reader (%d bytes) differs from the record written (%d bytes): %s",
				res.N, buf.Len(), len(want[res.N]), describeForeign(buf.Bytes(), want))
			return res
		}
		res.N++
	}
}

// describeForeign says what a wrong record looks like relative to the written ones.
func describeForeign(got []byte, want [][]byte) string {
	for i, w := range want {
		if bytes.Equal(got, w) {
			return fmt.Sprintf("it equals record #%d (out of order / skipped records)", i)
		}
	}
	for i, w := range want {
		if len(got) > 0 && len(got) < len(w) && bytes.HasPrefix(w, got) {
			return fmt.Sprintf("it is a strict prefix of record #%d (partial record)", i)
		}
		if len(got) > 0 && len(got) < len(w) && bytes.HasSuffix(w, got) {
			return fmt.Sprintf("it is a strict suffix of record #%d (partial record)", i)
		}
		if len(w) >= 8 && bytes.Contains(got, w[:min(len(w), 32)]) {
			return fmt.Sprintf("it contains the beginning of record #%d (merged record)", i)
		}
	}
	return "it matches no written record (foreign record)"
}

func isCorruptionErr(err error) bool {
	return errors.Is(err, record.ErrInvalidChunk) || errors.Is(err, record.ErrZeroedChunk)
}

func isCleanEnd(err error) bool {
	return err == io.EOF || errors.Is(err, record.ErrUnexpectedEOF)
}

// isEndOfLog: io.EOF or one of the errors recovery treats like the end of a log.
func isEndOfLog(err error) bool {
	return err == io.EOF || isCleanEnd(err) || isCorruptionErr(err)
}

// crcCost predicts whether record.Reader will compute a checksum over the
// bytes at pos of img when it takes them for a chunk header, and over how many
// bytes. It is used only to bound the cost of the reader's quadratic bit-flip
// search on a checksum mismatch; it is not part of any oracle.
func crcCost(img []byte, pos int, logNum uint32) int {
	if pos < 0 || pos >= len(img) {
		return 0
	}
	blockEnd := min((pos/blockSize+1)*blockSize, len(img))
	if pos+hdrLegacy > blockEnd {
		return 0
	}
	length := int(binary.LittleEndian.Uint16(img[pos+4:]))
	enc := img[pos+6]
	hs := 0
	switch {
	case enc >= 1 && enc <= 4:
		hs = hdrLegacy
	case enc >= 5 && enc <= 8:
		hs = hdrRecyclable
	case enc >= 9 && enc <= 12:
		hs = hdrWALSync
	default:
		return 0
	}
	if enc >= 5 {
		if pos+hs > blockEnd || binary.LittleEndian.Uint32(img[pos+7:]) != logNum {
			return 0
		}
	}
	end := pos + hs + length
	if end > blockEnd {
		return 0
	}
	return end - pos - 6
}
