package sched

// C07 — read-your-writes and monotone visibility under concurrent commits.
//
// Variant (a): the commit pipeline in isolation (hook H3: exported wrappers
// over newCommitPipeline / Commit / AllocateSeqNum). The harness owns the
// `write` and `apply` callbacks, the WAL-sync completions, and — through the
// H2 yield sites in commitPipeline.publish and AllocateSeqNum — the order of
// the lock-free steps. Every case runs inside a testing/synctest bubble: the
// scheduler releases exactly one parked committer (or completes one WAL sync)
// and then calls synctest.Wait, which returns once every committer is parked
// at a harness gate, blocked inside the pipeline (Batch.commit.Wait) or done.
// No timing is involved.

import (
	"errors"
	"fmt"
	"runtime"
	"runtime/debug"
	"strconv"
	"sync"
	"testing"
	"testing/synctest"

	"github.com/cockroachdb/pebble"
	"github.com/cockroachdb/pebble/internal/base"
	"github.com/cockroachdb/pebble/internal/verifhook"
	"github.com/cockroachdb/pebble/verifharness/evid"
	"pgregory.net/rapid"
)

type ItemP struct {
	Alloc      bool `json:"alloc,omitempty"`        // AllocateSeqNum(Count) instead of Commit
	Count      int  `json:"count"`                  // Commit: number of Sets (0 = LogData-only batch); Alloc: count >= 1
	Sync       bool `json:"sync,omitempty"`         // Commit(syncWAL=true)
	NoSyncWait bool `json:"no_sync_wait,omitempty"` // requires Sync
	SyncErr    bool `json:"sync_err,omitempty"`     // the WAL sync of this batch completes with an error
	Rotate     bool `json:"rotate,omitempty"`       // write callback first completes all pending syncs (WAL rotation)
}

type CommitterP struct {
	Items []ItemP `json:"items"`
}

type PlanC07 struct {
	Exhaustive bool `json:"exhaustive,omitempty"` // enumerate all schedules (ignores Steps)
	NoYields   bool `json:"no_yields,omitempty"`  // H2 sites in publish pass through: callback-gate granularity only
	InitSeq    uint64
	Committers []CommitterP `json:"committers"`
	// Steps[i] mod (#enabled actions) selects the action of scheduling step i.
	// Actions: enabled parked committers in index order, then "complete the
	// oldest pending WAL sync" if any. After the last step: always action 0.
	Steps []int `json:"steps"`
	// DB, if set, selects variant (b): real DB (all fields above are ignored).
	DB *DBPlanP `json:"db,omitempty"`
}

type gate int

const (
	gateNone gate = iota
	gateStart
	gateApply
	gatePublishLoop
	gateBeforeCAS
	gateSpin
)

const (
	gsRunning = iota // released; after synctest.Wait this means "blocked inside the pipeline"
	gsParked
	gsFinished
)

type brec struct {
	committer, item int
	it              ItemP
	b               *pebble.Batch
	seq             uint64
	written         bool
	applyEntered    bool
	applyReturned   bool
	returned        bool
	sync            *pebble.VerifSyncHandle
	syncDone        bool
	syncErr         error
}

func (b *brec) String() string {
	k := "commit"
	if b.it.Alloc {
		k = "alloc"
	}
	return fmt.Sprintf("%s[c%d.%d count=%d seq=%d]", k, b.committer, b.item, b.it.Count, b.seq)
}

type gstate struct {
	id      int
	resume  chan struct{}
	state   int
	gate    gate
	spinVis uint64
}

type c07stats struct {
	steps, execs    int
	oooApply        int // apply returned while an earlier (WAL order) batch was still unapplied
	maxInFlight     int
	blockedInPipe   int // observations of a committer blocked inside the pipeline at a scheduling point
	spins           int
	allocWaited     int
	syncsCompleted  int
	batches         int
	publishYields   int
	casYieldsRaced  int
	visibleAdvances int
}

type c07run struct {
	p    *PlanC07
	mu   sync.Mutex
	log  base.AtomicSeqNum
	vis  base.AtomicSeqNum
	pipe *pebble.VerifCommitPipeline
	gs   []*gstate
	goid map[uint64]int
	recs [][]*brec
	byB  map[*pebble.Batch]*brec
	wal  []*brec // write order (AllocateSeqNum: order of its prepare callback)

	expectedNext uint64
	lastVis      uint64
	pending      []*brec // syncs requested and not completed, FIFO
	viol         error
	st           c07stats
}

var errInjectedSync = errors.New("injected WAL sync error")

func curGoid() uint64 {
	var buf [64]byte
	n := runtime.Stack(buf[:], false)
	// "goroutine 123 ["
	s := buf[len("goroutine "):n]
	for i, c := range s {
		if c == ' ' {
			id, _ := strconv.ParseUint(string(s[:i]), 10, 64)
			return id
		}
	}
	return 0
}

func (r *c07run) fail(format string, args ...any) {
	if r.viol == nil {
		r.viol = fmt.Errorf(format, args...)
	}
}

// monitorLocked checks the continuous invariants on the current state.
func (r *c07run) monitorLocked(where string) {
	v := uint64(r.vis.Load())
	l := uint64(r.log.Load())
	if v < r.lastVis {
		r.fail("%s: visibleSeqNum decreased from %d to %d", where, r.lastVis, v)
	}
	if v > r.lastVis {
		r.st.visibleAdvances++
	}
	r.lastVis = v
	if v > l {
		r.fail("%s: visibleSeqNum %d is beyond logSeqNum %d", where, v, l)
	}
	inflight := 0
	for _, b := range r.wal {
		if !b.returned {
			inflight++
		}
		if !b.applyReturned && b.it.Count > 0 && v > b.seq {
			r.fail("%s: visibleSeqNum %d covers %s, which has not returned from apply", where, v, b)
		}
	}
	if inflight > r.st.maxInFlight {
		r.st.maxInFlight = inflight
	}
}

func (r *c07run) park(g *gstate, gt gate) {
	r.mu.Lock()
	g.state = gsParked
	g.gate = gt
	if gt == gateSpin {
		g.spinVis = uint64(r.vis.Load())
		r.st.spins++
	}
	r.mu.Unlock()
	<-g.resume
}

func (r *c07run) me() *gstate {
	id := curGoid()
	r.mu.Lock()
	defer r.mu.Unlock()
	if i, ok := r.goid[id]; ok {
		return r.gs[i]
	}
	return nil
}

func (r *c07run) yield(s verifhook.Site) {
	g := r.me()
	if g == nil {
		return
	}
	switch s {
	case verifhook.CommitPublishLoop:
		if !r.p.NoYields {
			r.park(g, gatePublishLoop)
		}
	case verifhook.CommitPublishBeforeCAS:
		if !r.p.NoYields {
			r.park(g, gateBeforeCAS)
		}
	case verifhook.CommitAllocSpin:
		// commitPipeline.mu is held here; see enabledLocked.
		r.park(g, gateSpin)
	}
	// CommitAfterApply / CommitAllocBeforeApply coincide with the apply gate.
}

func (r *c07run) write(b *pebble.Batch, h *pebble.VerifSyncHandle) error {
	r.mu.Lock()
	rec := r.byB[b]
	if rec == nil {
		r.fail("write called with an unknown batch")
		r.mu.Unlock()
		return nil
	}
	if rec.written {
		r.fail("%s written to the WAL twice", rec)
	}
	rec.written = true
	rec.seq = uint64(b.SeqNum())
	if int(b.Count()) != rec.it.Count {
		r.fail("%s: batch count %d changed", rec, b.Count())
	}
	if rec.seq != r.expectedNext {
		r.fail("WAL order: %s got seqnum %d, want %d (ranges must be contiguous and disjoint in write order)", rec, rec.seq, r.expectedNext)
	}
	r.expectedNext = rec.seq + uint64(rec.it.Count)
	if l := uint64(r.log.Load()); l != r.expectedNext {
		r.fail("after write of %s logSeqNum is %d, want %d", rec, l, r.expectedNext)
	}
	if (h != nil) != rec.it.Sync {
		r.fail("%s: sync handle presence %v does not match syncWAL=%v", rec, h != nil, rec.it.Sync)
	}
	var flush []*brec
	if rec.it.Rotate {
		flush = r.pending
		r.pending = nil
		for _, f := range flush {
			r.markSyncLocked(f)
		}
	}
	if h != nil {
		rec.sync = h
		r.pending = append(r.pending, rec)
	}
	r.wal = append(r.wal, rec)
	r.monitorLocked("write")
	r.mu.Unlock()
	for _, f := range flush {
		f.sync.Done(f.syncErr)
	}
	return nil
}

func (r *c07run) markSyncLocked(f *brec) {
	f.syncDone = true
	if f.it.SyncErr {
		f.syncErr = errInjectedSync
	}
	r.st.syncsCompleted++
}

func (r *c07run) applyGate(rec *brec) {
	g := r.gs[rec.committer]
	r.mu.Lock()
	if rec.applyEntered {
		r.fail("%s applied twice", rec)
	}
	rec.applyEntered = true
	if !rec.written {
		r.fail("%s applied before it was written / sequenced", rec)
	}
	r.monitorLocked("apply entry")
	r.mu.Unlock()
	r.park(g, gateApply)
	r.mu.Lock()
	for _, e := range r.wal {
		if e == rec {
			break
		}
		if !e.applyReturned {
			r.st.oooApply++
			break
		}
	}
	rec.applyReturned = true
	r.monitorLocked("apply return")
	r.mu.Unlock()
}

func (r *c07run) apply(b *pebble.Batch) error {
	r.mu.Lock()
	rec := r.byB[b]
	r.mu.Unlock()
	if rec == nil {
		r.mu.Lock()
		r.fail("apply called with an unknown batch")
		r.mu.Unlock()
		return nil
	}
	if uint64(b.SeqNum()) != rec.seq {
		r.mu.Lock()
		r.fail("%s: seqnum changed to %d between write and apply", rec, b.SeqNum())
		r.mu.Unlock()
	}
	r.applyGate(rec)
	return nil
}

func (r *c07run) allocPrepare(rec *brec, seq base.SeqNum) {
	r.mu.Lock()
	defer r.mu.Unlock()
	if rec.written {
		r.fail("%s prepared twice", rec)
	}
	rec.written = true
	rec.seq = uint64(seq)
	before := r.expectedNext
	want := before
	if before == 0 {
		want = 1 // commit.go: seqnum 0 is never handed to an ingestion
	}
	if rec.seq != want {
		r.fail("WAL order: %s got seqnum %d, want %d", rec, rec.seq, want)
	}
	r.expectedNext = rec.seq + uint64(rec.it.Count)
	if l := uint64(r.log.Load()); l != r.expectedNext {
		r.fail("after sequencing %s logSeqNum is %d, want %d", rec, l, r.expectedNext)
	}
	// prepare must run only once every earlier batch is applied and visible.
	if v := uint64(r.vis.Load()); v != before {
		r.fail("AllocateSeqNum prepare of %s ran with visibleSeqNum %d, want %d (all earlier batches published, nothing later)", rec, v, before)
	}
	for _, e := range r.wal {
		// (a zero-count batch owns no sequence number and holds nothing back)
		if !e.applyReturned && e.it.Count > 0 {
			r.fail("AllocateSeqNum prepare of %s ran while %s has not returned from apply", rec, e)
		}
	}
	r.wal = append(r.wal, rec)
	r.monitorLocked("alloc prepare")
}

func (r *c07run) committer(i int) {
	g := r.gs[i]
	r.mu.Lock()
	r.goid[curGoid()] = i
	r.mu.Unlock()
	defer func() {
		if rec := recover(); rec != nil {
			r.mu.TryLock()
			r.fail("committer %d panicked: %v\n%s", i, rec, debug.Stack())
			g.state = gsFinished
			r.mu.Unlock()
		}
	}()
	for _, rec := range r.recs[i] {
		rec := rec
		r.park(g, gateStart)
		if rec.it.Alloc {
			r.pipe.AllocateSeqNum(rec.it.Count,
				func(seq base.SeqNum) { r.allocPrepare(rec, seq) },
				func(seq base.SeqNum) {
					if uint64(seq) != rec.seq {
						r.mu.Lock()
						r.fail("%s: apply callback got seqnum %d", rec, seq)
						r.mu.Unlock()
					}
					r.applyGate(rec)
				})
			r.onReturn(rec, nil)
			continue
		}
		err := r.pipe.Commit(rec.b, rec.it.Sync, rec.it.NoSyncWait)
		r.onReturn(rec, err)
		if rec.it.Sync && rec.it.NoSyncWait {
			err := rec.b.SyncWait()
			r.mu.Lock()
			if !rec.syncDone {
				r.fail("%s: SyncWait returned before the WAL sync completed", rec)
			} else if err != rec.syncErr {
				r.fail("%s: SyncWait returned %v, want %v", rec, err, rec.syncErr)
			}
			r.mu.Unlock()
		}
	}
	r.mu.Lock()
	g.state = gsFinished
	r.mu.Unlock()
}

// onReturn: Commit / AllocateSeqNum returned to the caller.
func (r *c07run) onReturn(rec *brec, err error) {
	r.mu.Lock()
	defer r.mu.Unlock()
	rec.returned = true
	if !rec.written || !rec.applyReturned {
		r.fail("%s returned without being written and applied", rec)
	}
	v := uint64(r.vis.Load())
	if end := rec.seq + uint64(rec.it.Count); v < end {
		r.fail("read-your-writes: %s returned while visibleSeqNum is %d < %d", rec, v, end)
	}
	switch {
	case rec.it.Alloc:
	case rec.it.Sync && !rec.it.NoSyncWait:
		if !rec.syncDone {
			r.fail("%s (sync) returned before its WAL sync completed", rec)
		} else if err != rec.syncErr {
			r.fail("%s returned %v, want %v", rec, err, rec.syncErr)
		}
	default:
		if err != nil {
			r.fail("%s returned unexpected error %v", rec, err)
		}
	}
	r.monitorLocked("return")
}

// action: index >= 0 is a committer, -1 is "complete the oldest pending sync".
func (r *c07run) enabledLocked(buf []int) []int {
	buf = buf[:0]
	muHeld := false
	for _, g := range r.gs {
		if g.state == gsParked && g.gate == gateSpin {
			muHeld = true
		}
	}
	v := uint64(r.vis.Load())
	for _, g := range r.gs {
		if g.state != gsParked {
			continue
		}
		switch g.gate {
		case gateStart:
			// needs commitPipeline.mu, which a parked spinner holds.
			if muHeld {
				continue
			}
		case gateSpin:
			// re-checking an unchanged visibleSeqNum is a stutter step.
			if v == g.spinVis {
				continue
			}
		}
		buf = append(buf, g.id)
	}
	if len(r.pending) > 0 {
		buf = append(buf, -1)
	}
	return buf
}

func (r *c07run) describe() string {
	s := ""
	for _, g := range r.gs {
		switch g.state {
		case gsFinished:
			s += fmt.Sprintf(" c%d:done", g.id)
		case gsParked:
			s += fmt.Sprintf(" c%d:gate%d", g.id, g.gate)
		default:
			s += fmt.Sprintf(" c%d:blocked-in-pipeline", g.id)
		}
	}
	return fmt.Sprintf("visible=%d log=%d pendingSyncs=%d%s", r.vis.Load(), r.log.Load(), len(r.pending), s)
}

// run executes the plan inside the current synctest bubble.
func (r *c07run) run(pk picker) {
	p := r.p
	r.log.Store(base.SeqNum(p.InitSeq))
	r.vis.Store(base.SeqNum(p.InitSeq))
	r.expectedNext, r.lastVis = p.InitSeq, p.InitSeq
	r.goid = map[uint64]int{}
	r.byB = map[*pebble.Batch]*brec{}
	r.pipe = pebble.VerifNewCommitPipeline(pebble.VerifCommitEnv{
		LogSeqNum: &r.log, VisibleSeqNum: &r.vis, Apply: r.apply, Write: r.write,
	})
	for ci, c := range p.Committers {
		var l []*brec
		for ii, it := range c.Items {
			if it.Count < 0 {
				it.Count = 0
			}
			if it.Alloc && it.Count < 1 {
				it.Count = 1
			}
			if !it.Sync {
				it.NoSyncWait, it.SyncErr = false, false
			}
			rec := &brec{committer: ci, item: ii, it: it}
			if !it.Alloc {
				rec.b = &pebble.Batch{}
				for k := 0; k < it.Count; k++ {
					_ = rec.b.Set([]byte(fmt.Sprintf("c%d.%d.%d", ci, ii, k)), nil, nil)
				}
				if it.Count == 0 {
					_ = rec.b.LogData([]byte("x"), nil)
				}
				r.byB[rec.b] = rec
			}
			l = append(l, rec)
			r.st.batches++
		}
		r.recs = append(r.recs, l)
		r.gs = append(r.gs, &gstate{id: ci, resume: make(chan struct{}), state: gsRunning})
	}
	for i := range r.gs {
		go r.committer(i)
	}
	synctest.Wait()

	var buf []int
	for {
		r.mu.Lock()
		r.monitorLocked("scheduling point")
		acts := r.enabledLocked(buf)
		done := true
		for _, g := range r.gs {
			if g.state != gsFinished {
				done = false
			}
			if g.state == gsRunning {
				r.st.blockedInPipe++
			}
		}
		if r.viol == nil && !done && len(acts) == 0 {
			r.fail("commit pipeline is stuck: nothing left to release but committers have not returned (%s)", r.describe())
		}
		if r.viol == nil && r.st.steps > 200000 {
			r.fail("no termination within 200000 scheduling steps (%s)", r.describe())
		}
		if r.viol != nil || done {
			r.mu.Unlock()
			break
		}
		a := acts[pk.next(len(acts))]
		r.st.steps++
		var syncRec *brec
		if a >= 0 {
			r.gs[a].state = gsRunning
		} else {
			syncRec = r.pending[0]
			r.pending = r.pending[1:]
			r.markSyncLocked(syncRec)
		}
		r.mu.Unlock()
		if a >= 0 {
			r.gs[a].resume <- struct{}{}
		} else {
			syncRec.sync.Done(syncRec.syncErr)
		}
		synctest.Wait()
	}
	r.mu.Lock()
	defer r.mu.Unlock()
	if r.viol != nil {
		return
	}
	// quiescence
	v, l := uint64(r.vis.Load()), uint64(r.log.Load())
	if v != l || l != r.expectedNext {
		r.fail("after all commits returned: visibleSeqNum=%d logSeqNum=%d, want both %d", v, l, r.expectedNext)
	}
	if len(r.wal) != r.st.batches {
		r.fail("%d batches sequenced, want %d", len(r.wal), r.st.batches)
	}
	if len(r.pending) != 0 {
		r.fail("%d WAL syncs still pending after every committer returned", len(r.pending))
	}
}

var c07T *testing.T

type dfsPick struct {
	prefix []int
	width  []int
}

func (c *dfsPick) next(n int) int {
	i := len(c.width)
	c.width = append(c.width, n)
	if i < len(c.prefix) {
		return c.prefix[i]
	}
	return 0
}

type stepPick struct {
	steps []int
	i     int
}

func (c *stepPick) next(n int) int {
	if c.i >= len(c.steps) {
		return 0
	}
	v := c.steps[c.i]
	c.i++
	if v < 0 {
		v = -v
	}
	return v % n
}

type picker interface{ next(n int) int }

// runC07Once executes one schedule of the plan in a fresh bubble.
func runC07Once(p *PlanC07, pk picker) (st c07stats, err error) {
	r := &c07run{p: p}
	old := verifhook.Install(&verifhook.Hooks{Yield: r.yield})
	defer verifhook.Install(old)
	defer func() {
		// A violation abandons the bubble with committers still parked; synctest
		// reports that as a panic here. The recorded violation takes precedence.
		if rec := recover(); rec != nil {
			r.mu.TryLock()
			if r.viol != nil {
				err = r.viol
			} else {
				err = fmt.Errorf("panic in bubble: %v", rec)
			}
			st = r.st
		}
	}()
	synctest.Test(c07T, func(*testing.T) {
		defer func() {
			if rec := recover(); rec != nil {
				r.mu.TryLock()
				r.fail("panic on the scheduler goroutine: %v", rec)
				r.mu.Unlock()
			}
		}()
		r.run(pk)
	})
	return r.st, r.viol
}

func execC07(p PlanC07) (evid.Outcome, error) {
	var out evid.Outcome
	if p.DB != nil {
		d, err := runC07DB(p.DB)
		out.Labels = append(out.Labels, "variant=db", fmt.Sprintf("db-committers=%d", len(p.DB.Committers)))
		if d.readsWithInflight > 0 {
			out.Labels = append(out.Labels, "db-reader-during-inflight-commit")
		}
		if d.sklYields > 0 && d.commitYields > 0 {
			out.Labels = append(out.Labels, "db-yields-skl+commit")
		}
		if d.bwdPendingLink > 0 {
			out.Labels = append(out.Labels, "db-backward-scan-while-prev-link-pending")
		}
		out.NonTrivial = d.ntReads > 0
		out.Counters = map[string]int{"db_executions": 1, "db_sched_steps": d.steps, "db_reader_runs": d.reads, "db_backward_checks_skipped_known_finding": d.bwdSkipped}
		if d.bwdSkipped > 0 {
			// every other check of the case was applied; only the backward-scan
			// requirement of the known finding's class was left out.
			out.Excluded = sigReverseMiss
		}
		return out, err
	}
	if len(p.Committers) == 0 {
		return out, nil
	}
	out.Labels = append(out.Labels, "variant=pipeline")
	var st c07stats
	var err error
	execs := 0
	acc := func(s c07stats) {
		st.steps += s.steps
		st.oooApply += s.oooApply
		st.blockedInPipe += s.blockedInPipe
		st.spins += s.spins
		st.syncsCompleted += s.syncsCompleted
		st.batches = s.batches
		if s.maxInFlight > st.maxInFlight {
			st.maxInFlight = s.maxInFlight
		}
	}
	nontrivial := false
	if p.Exhaustive {
		out.Labels = append(out.Labels, "mode=exhaustive")
		var prefix []int
		for {
			ch := &dfsPick{prefix: prefix}
			var s c07stats
			s, err = runC07Once(&p, ch)
			execs++
			acc(s)
			if s.oooApply > 0 && s.maxInFlight >= 3 {
				nontrivial = true
			}
			if err != nil {
				err = fmt.Errorf("exhaustive schedule %v (then 0s): %w", prefix, err)
				break
			}
			cur := make([]int, len(ch.width))
			copy(cur, prefix)
			j := len(cur) - 1
			for ; j >= 0; j-- {
				if cur[j]+1 < ch.width[j] {
					break
				}
			}
			if j < 0 {
				break
			}
			cur[j]++
			prefix = cur[:j+1]
			if execs >= 20000 {
				out.Labels = append(out.Labels, "exhaustive-truncated")
				break
			}
		}
	} else {
		out.Labels = append(out.Labels, "mode=random")
		var s c07stats
		s, err = runC07Once(&p, &stepPick{steps: p.Steps})
		execs = 1
		acc(s)
		nontrivial = s.oooApply > 0 && s.maxInFlight >= 3
	}
	hasAlloc, hasSync, hasNSW, hasLogData, hasRotate, hasSyncErr := false, false, false, false, false, false
	for _, c := range p.Committers {
		for _, it := range c.Items {
			switch {
			case it.Alloc:
				hasAlloc = true
			case it.Count == 0:
				hasLogData = true
			}
			if !it.Alloc && it.Sync {
				hasSync = true
				hasNSW = hasNSW || it.NoSyncWait
				hasSyncErr = hasSyncErr || it.SyncErr
			}
			hasRotate = hasRotate || (!it.Alloc && it.Rotate)
		}
	}
	lab := func(c bool, s string) {
		if c {
			out.Labels = append(out.Labels, s)
		}
	}
	out.Labels = append(out.Labels, fmt.Sprintf("committers=%d", len(p.Committers)))
	lab(p.NoYields, "no-yields")
	lab(hasAlloc, "has-AllocateSeqNum")
	lab(hasSync, "has-sync")
	lab(hasNSW, "has-noSyncWait")
	lab(hasSyncErr, "has-sync-error")
	lab(hasLogData, "has-zero-count-batch")
	lab(hasRotate, "has-rotation")
	lab(p.InitSeq == 0, "initseq=0")
	lab(st.oooApply > 0, "apply-out-of-order")
	lab(st.maxInFlight >= 3, "inflight>=3")
	lab(st.blockedInPipe > 0, "committer-blocked-in-pipeline")
	lab(st.spins > 0, "AllocateSeqNum-waited-for-visible")
	out.NonTrivial = nontrivial
	out.Counters = map[string]int{"executions": execs, "sched_steps": st.steps, "batches": st.batches * execs, "syncs_completed": st.syncsCompleted}
	return out, err
}

func genItem(t *rapid.T) ItemP {
	var it ItemP
	if weighted(t, "alloc", 80, 20) == 1 {
		it.Alloc = true
		it.Count = rapid.IntRange(1, 3).Draw(t, "count")
		return it
	}
	it.Count = rapid.SampledFrom([]int{0, 1, 1, 1, 2, 2, 3}).Draw(t, "count")
	if weighted(t, "sync", 55, 45) == 1 {
		it.Sync = true
		it.NoSyncWait = rapid.Bool().Draw(t, "nsw")
		it.SyncErr = weighted(t, "syncerr", 85, 15) == 1
	}
	it.Rotate = weighted(t, "rotate", 90, 10) == 1
	return it
}

var dbKeyPool = []string{"a", "b", "c", "d", "e", "f", "g", "h", "i", "j", "k", "l"}

func genC07DB(t *rapid.T) *DBPlanP {
	d := &DBPlanP{}
	keys := rapid.Permutation(dbKeyPool).Draw(t, "keys")
	take := func(n int) []string {
		if n > len(keys) {
			n = len(keys)
		}
		k := keys[:n]
		keys = keys[n:]
		return k
	}
	// 40% "flat" plans: towers of height 1 and single-key batches, i.e. all
	// contention happens on the base level list that iterators walk.
	flat := weighted(t, "flat", 60, 40) == 1
	maxH, nkeys := 4, []int{1, 1, 2}
	if flat {
		maxH, nkeys = 1, []int{1}
	}
	d.Preload = append([]string{}, take(rapid.SampledFrom([]int{0, 1, 2, 2, 3, 4}).Draw(t, "npre"))...)
	for range d.Preload {
		d.PreH = append(d.PreH, genHeight(t, maxH))
	}
	nc := rapid.IntRange(2, 4).Draw(t, "committers")
	total := 0
	for i := 0; i < nc; i++ {
		var l []DBBatchP
		nb := rapid.SampledFrom([]int{1, 1, 2}).Draw(t, "batches")
		for j := 0; j < nb && len(keys) > 0; j++ {
			b := DBBatchP{Keys: append([]string{}, take(rapid.SampledFrom(nkeys).Draw(t, "nkeys"))...)}
			for range b.Keys {
				h := genHeight(t, maxH)
				b.H = append(b.H, h)
				total += 2 + 2*h
			}
			total += 4
			l = append(l, b)
		}
		if len(l) > 0 {
			d.Committers = append(d.Committers, l)
		}
	}
	if weighted(t, "overtake", 60, 40) == 1 {
		// schedule prefix "overtake": one committer is sequenced first and parks
		// early, a second one gets a few steps into its insert, then the first
		// runs to completion and a reader follows.
		z := rapid.IntRange(0, nc-1).Draw(t, "z")
		y := rapid.IntRange(0, nc-1).Draw(t, "y")
		d.Steps = append(d.Steps,
			DBStepP{Pick: z, Run: rapid.IntRange(1, 2).Draw(t, "zrun")},
			DBStepP{Pick: y, Run: rapid.IntRange(2, 4).Draw(t, "yrun")},
			DBStepP{Pick: z, Run: 12, Read: 1})
	}
	ns := rapid.IntRange(0, total).Draw(t, "nsteps")
	for i := 0; i < ns; i++ {
		d.Steps = append(d.Steps, DBStepP{
			Pick: rapid.IntRange(0, nc-1).Draw(t, "pick"),
			Run:  rapid.SampledFrom([]int{1, 1, 2, 3, 3, 3, 5, 9, 12}).Draw(t, "run"),
			Read: rapid.SampledFrom([]int{0, 1}).Draw(t, "read"),
		})
	}
	return d
}

func genC07(t *rapid.T) PlanC07 {
	var p PlanC07
	if weighted(t, "variant", 80, 20) == 1 {
		p.DB = genC07DB(t)
		return p
	}
	p.Exhaustive = weighted(t, "exh", 95, 5) == 1
	p.InitSeq = rapid.SampledFrom([]uint64{0, 1, 10, 10, 1000}).Draw(t, "initseq")
	n, maxItems := 0, 3
	if p.Exhaustive {
		if rapid.Bool().Draw(t, "exh3") {
			n, p.NoYields = 3, true
		} else {
			n = 2
		}
		maxItems = 1
	} else {
		n = rapid.SampledFrom([]int{2, 3, 3, 4, 4, 5, 6, 8}).Draw(t, "committers")
		p.NoYields = weighted(t, "noyields", 75, 25) == 1
	}
	total := 0
	for i := 0; i < n; i++ {
		var c CommitterP
		m := rapid.IntRange(1, maxItems).Draw(t, "items")
		for j := 0; j < m; j++ {
			c.Items = append(c.Items, genItem(t))
			total++
		}
		p.Committers = append(p.Committers, c)
	}
	if !p.Exhaustive {
		ns := rapid.IntRange(0, total*8).Draw(t, "nsteps")
		for i := 0; i < ns; i++ {
			p.Steps = append(p.Steps, rapid.IntRange(0, 8).Draw(t, "pick"))
		}
	}
	return p
}

func TestC07(t *testing.T) {
	c07T = t
	defer runtime.GOMAXPROCS(runtime.GOMAXPROCS(1))
	evid.Run(t, evid.Spec[PlanC07]{
		ID: "C07", Level: "exploration",
		Rule: "isolated commit pipeline (H3) with harness-owned write/apply callbacks and WAL-sync completions: 2-8 committers x 1-3 operations (Commit with 0-3 keys, sync / noSyncWait / failing sync / rotation, AllocateSeqNum), " +
			"a drawn schedule over callback gates and the H2 yield sites (5% of plans: 2-3 committers x 1 op, ALL schedules enumerated); non-trivial = some batch returned from apply while an earlier batch (WAL order) was still unapplied, with >= 3 batches in flight; distinct = hash of plan JSON",
		Assumptions: []string{
			"hooks H2/H3 only add scheduling points and exported wrappers",
			"schedules are explored at callback/yield granularity; code between two sites of one goroutine runs atomically",
			"write and apply never fail (a failing write/apply wedges the pipeline by design, commit.go:321-323)",
			"fewer than record.SyncConcurrency commits are in flight, so the semaphores and the queue never fill",
		},
		Gen: genC07, Exec: execC07, Quick: 1500, Thorough: 50000,
		Known: []evid.Known[PlanC07]{{Signature: sigReverseMiss, Plan: PlanC07{DB: &DBPlanP{
			// memtable holds a, d. c1 links "c" forward (a->c->d) and is parked before
			// d.prev is updated; c0 then inserts "b" (a->b->c), publishes and returns.
			// A new iterator: Last()=d, Prev() follows d.prev=a and skips b.
			NoExclude: true,
			Preload:   []string{"a", "d"}, PreH: []int{1, 1},
			Committers: [][]DBBatchP{{{Keys: []string{"b"}, H: []int{1}}}, {{Keys: []string{"c"}, H: []int{1}}}},
			Steps:      []DBStepP{{Pick: 0, Run: 1}, {Pick: 1, Run: 3}, {Pick: 0, Run: 9, Read: 1}},
		}}}},
	})
}
