package sched

// C07 variant (b): the same read-your-writes property on a real DB.
//
// A DB on vfs.MemFS runs inside a synctest bubble. 2-4 committer goroutines
// commit batches of Sets over pairwise distinct user keys; they are scheduled
// at the H2 yield sites of the memtable skiplist (addInternal) and of the
// commit pipeline (publish). At drawn scheduling points the scheduler acts as
// "a reader created afterwards": a fresh iterator (forward scan, backward scan)
// and Gets must see every key of every batch whose Commit has already
// returned.

import (
	"fmt"
	"sort"
	"strings"
	"testing"
	"testing/synctest"

	"github.com/cockroachdb/pebble"
	"github.com/cockroachdb/pebble/internal/verifhook"
	"github.com/cockroachdb/pebble/verifharness/evid"
	"github.com/cockroachdb/pebble/vfs"
)

type DBBatchP struct {
	Keys []string `json:"keys"`
	H    []int    `json:"h"` // skiplist tower height per key
}

type DBStepP struct {
	Pick int `json:"p"`
	Run  int `json:"n"`
	Read int `json:"r"` // 0 none, 1 iterator fwd+bwd + Gets
}

type DBPlanP struct {
	// NoExclude: apply every check even if an active known finding covers it
	// (set only on the known-finding demonstration plan).
	NoExclude  bool         `json:"no_exclude,omitempty"`
	Preload    []string     `json:"preload"`
	PreH       []int        `json:"pre_h"`
	Committers [][]DBBatchP `json:"committers"`
	Steps      []DBStepP    `json:"steps"`
}

type dbBatchRec struct {
	committer, idx int
	p              DBBatchP
	started        bool
	returned       bool
	nodeIdx        int
}

type c07db struct {
	p    *DBPlanP
	base *c07run // reuses goroutine bookkeeping (mu, gs, goid, park, viol)
	db   *pebble.DB
	recs [][]*dbBatchRec
	cur  []*dbBatchRec // per committer
	preI int

	reads, readsWithInflight, ntReads, sklYields, commitYields, steps int
	// per committer: number of SklBetweenCAS sites passed in the current Add,
	// and the level of the site it is parked at (-1: not at SklBetweenCAS).
	sklCnt, sklBetweenLevel []int
	bwdPendingLink          int // backward scans taken while a level-0 prev link was pending
	bwdSkipped              int // ... of which skipped because the known finding is active
}

// sigReverseMiss: candidate finding described in NOTES.md. While an insert is
// between its two link CASes at level 0 (next.prev not yet updated), a node
// inserted and committed meanwhile is skipped by Prev.
const sigReverseMiss = "reverse-scan-misses-committed-key-during-concurrent-insert"

func val(k string) []byte { return []byte("v-" + k) }

func (d *c07db) yield(s verifhook.Site) {
	g := d.base.me()
	if g == nil {
		return
	}
	switch s {
	case verifhook.SklAfterFindSplice, verifhook.SklBeforeCASNext, verifhook.SklBetweenCAS, verifhook.SklCASFailed:
		d.base.mu.Lock()
		d.sklYields++
		switch s {
		case verifhook.SklAfterFindSplice:
			d.sklCnt[g.id] = 0
		case verifhook.SklBetweenCAS:
			d.sklBetweenLevel[g.id] = d.sklCnt[g.id]
			d.sklCnt[g.id]++
		}
		d.base.mu.Unlock()
		d.base.park(g, gate(100+int(s)))
		d.base.mu.Lock()
		d.sklBetweenLevel[g.id] = -1
		d.base.mu.Unlock()
	case verifhook.CommitPublishLoop, verifhook.CommitPublishBeforeCAS, verifhook.CommitAfterApply:
		d.base.mu.Lock()
		d.commitYields++
		d.base.mu.Unlock()
		d.base.park(g, gate(100+int(s)))
	}
}

func (d *c07db) height(h uint32) uint32 {
	g := d.base.me()
	if g == nil {
		// sequential preload
		if d.preI < len(d.p.PreH) {
			h = clampH(d.p.PreH[d.preI])
		} else {
			h = 1
		}
		d.preI++
		return h
	}
	d.base.mu.Lock()
	defer d.base.mu.Unlock()
	rec := d.cur[g.id]
	if rec == nil {
		return 1
	}
	h = 1
	if rec.nodeIdx < len(rec.p.H) {
		h = clampH(rec.p.H[rec.nodeIdx])
	}
	rec.nodeIdx++
	return h
}

func (d *c07db) committer(i int) {
	r := d.base
	g := r.gs[i]
	r.mu.Lock()
	r.goid[curGoid()] = i
	r.mu.Unlock()
	defer func() {
		if rec := recover(); rec != nil {
			r.mu.TryLock()
			r.fail("committer %d panicked: %v", i, rec)
			g.state = gsFinished
			r.mu.Unlock()
		}
	}()
	for _, rec := range d.recs[i] {
		r.park(g, gateStart)
		b := d.db.NewBatch()
		for _, k := range rec.p.Keys {
			_ = b.Set([]byte(k), val(k), nil)
		}
		r.mu.Lock()
		rec.started = true
		d.cur[i] = rec
		r.mu.Unlock()
		err := d.db.Apply(b, pebble.NoSync)
		r.mu.Lock()
		rec.returned = true
		d.cur[i] = nil
		if err != nil {
			r.fail("Apply returned %v", err)
		}
		r.mu.Unlock()
		_ = b.Close()
	}
	r.mu.Lock()
	g.state = gsFinished
	r.mu.Unlock()
}

// reader: every key of a returned batch (and the preload) must be seen by a
// reader created now; keys of batches that have not started must not be.
func (d *c07db) reader() {
	r := d.base
	r.mu.Lock()
	must := map[string]bool{}
	may := map[string]bool{}
	for _, k := range d.p.Preload {
		must[k] = true
	}
	inflight, someReturned := false, false
	for _, l := range d.recs {
		for _, rec := range l {
			for _, k := range rec.p.Keys {
				switch {
				case rec.returned:
					must[k] = true
					someReturned = true
				case rec.started:
					may[k] = true
					inflight = true
				}
			}
		}
	}
	pendingLink := false
	for _, l := range d.sklBetweenLevel {
		if l == 0 {
			pendingLink = true
		}
	}
	skipBwd := false
	if pendingLink {
		d.bwdPendingLink++
		if !d.p.NoExclude && evid.FindingActive("C07", sigReverseMiss) {
			skipBwd = true
			d.bwdSkipped++
		}
	}
	d.reads++
	if inflight {
		d.readsWithInflight++
		if someReturned {
			d.ntReads++
		}
	}
	r.mu.Unlock()

	it, err := d.db.NewIter(nil)
	if err != nil {
		r.mu.Lock()
		r.fail("NewIter: %v", err)
		r.mu.Unlock()
		return
	}
	defer it.Close()
	check := func(what string, got []string) {
		seen := map[string]bool{}
		for _, k := range got {
			if !must[k] && !may[k] {
				r.fail("%s returned key %q of a batch that has not started", what, k)
			}
			seen[k] = true
		}
		var miss []string
		for k := range must {
			if !seen[k] {
				miss = append(miss, k)
			}
		}
		if len(miss) > 0 {
			sort.Strings(miss)
			r.fail("read-your-writes: %s by a reader created after Commit returned misses %v (saw [%s])", what, miss, strings.Join(got, " "))
		}
	}
	var fwd, bwd []string
	for ok := it.First(); ok; ok = it.Next() {
		k := string(it.Key())
		if string(it.Value()) != string(val(k)) {
			r.mu.Lock()
			r.fail("forward scan: key %q has value %q", k, it.Value())
			r.mu.Unlock()
		}
		fwd = append(fwd, k)
	}
	for ok := it.Last(); ok; ok = it.Prev() {
		bwd = append(bwd, string(it.Key()))
	}
	r.mu.Lock()
	defer r.mu.Unlock()
	if !sort.StringsAreSorted(fwd) {
		r.fail("forward scan not ordered: %v", fwd)
	}
	rev := make([]string, len(bwd))
	for i, k := range bwd {
		rev[len(bwd)-1-i] = k
	}
	if !sort.StringsAreSorted(rev) {
		r.fail("backward scan not ordered: %v", bwd)
	}
	check("forward scan", fwd)
	if !skipBwd {
		check("backward scan", rev)
	}
	for k := range must {
		v, closer, err := d.db.Get([]byte(k))
		if err != nil {
			r.fail("read-your-writes: Get(%q) after Commit returned: %v", k, err)
			continue
		}
		if string(v) != string(val(k)) {
			r.fail("Get(%q) = %q", k, v)
		}
		closer.Close()
	}
}

type nopLogger struct{}

func (nopLogger) Infof(string, ...interface{})  {}
func (nopLogger) Errorf(string, ...interface{}) {}
func (nopLogger) Fatalf(format string, args ...interface{}) {
	panic(fmt.Sprintf("pebble Fatalf: "+format, args...))
}

func (d *c07db) run() {
	r := d.base
	r.goid = map[uint64]int{}
	opts := &pebble.Options{
		FS:                          vfs.NewMem(),
		DisableAutomaticCompactions: true,
		Logger:                      nopLogger{},
	}
	db, err := pebble.Open("db", opts)
	if err != nil {
		r.fail("Open: %v", err)
		return
	}
	d.db = db
	for _, k := range d.p.Preload {
		if err := db.Set([]byte(k), val(k), pebble.NoSync); err != nil {
			r.fail("preload Set: %v", err)
			return
		}
	}
	for ci, l := range d.p.Committers {
		var recs []*dbBatchRec
		for bi, b := range l {
			recs = append(recs, &dbBatchRec{committer: ci, idx: bi, p: b})
		}
		d.recs = append(d.recs, recs)
		r.gs = append(r.gs, &gstate{id: ci, resume: make(chan struct{}), state: gsRunning})
	}
	d.cur = make([]*dbBatchRec, len(d.recs))
	d.sklCnt = make([]int, len(d.recs))
	d.sklBetweenLevel = make([]int, len(d.recs))
	for i := range d.sklBetweenLevel {
		d.sklBetweenLevel[i] = -1
	}
	for i := range r.gs {
		go d.committer(i)
	}
	synctest.Wait()

	pc := &planChooser{}
	for _, s := range d.p.Steps {
		pc.steps = append(pc.steps, StepP{Pick: s.Pick, Run: s.Run, Read: s.Read})
	}
	var en []int
	for {
		r.mu.Lock()
		en = en[:0]
		done := true
		for _, g := range r.gs {
			if g.state != gsFinished {
				done = false
			}
			if g.state == gsParked {
				en = append(en, g.id)
			}
		}
		if r.viol == nil && !done && len(en) == 0 {
			r.fail("DB commits are stuck: no committer can be released (%s)", r.describe())
		}
		if r.viol == nil && d.steps > 100000 {
			r.fail("no termination within 100000 scheduling steps")
		}
		stop := r.viol != nil || done
		r.mu.Unlock()
		if stop {
			break
		}
		pick, read := pc.next(len(en))
		g := r.gs[en[pick]]
		r.mu.Lock()
		g.state = gsRunning
		r.mu.Unlock()
		d.steps++
		g.resume <- struct{}{}
		synctest.Wait()
		if read != 0 {
			d.reader()
		}
	}
	r.mu.Lock()
	failed := r.viol != nil
	r.mu.Unlock()
	if failed {
		return // abandon: goroutines stay parked, the bubble is torn down by the caller
	}
	d.reader() // quiescent: everything returned
	if err := db.Close(); err != nil {
		r.mu.Lock()
		r.fail("Close: %v", err)
		r.mu.Unlock()
	}
}

func runC07DB(p *DBPlanP) (d *c07db, err error) {
	d = &c07db{p: p, base: &c07run{p: &PlanC07{}}}
	old := verifhook.Install(&verifhook.Hooks{Yield: d.yield, SklHeight: d.height})
	defer verifhook.Install(old)
	defer func() {
		if rec := recover(); rec != nil {
			d.base.mu.TryLock()
			if d.base.viol != nil {
				err = d.base.viol
			} else {
				err = fmt.Errorf("panic in bubble: %v", rec)
			}
		}
	}()
	synctest.Test(c07T, func(*testing.T) {
		defer func() {
			if rec := recover(); rec != nil {
				d.base.mu.TryLock()
				d.base.fail("panic on the scheduler goroutine: %v", rec)
				d.base.mu.Unlock()
			}
		}()
		d.run()
	})
	return d, d.base.viol
}
