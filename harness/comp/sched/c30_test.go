package sched

// C30 — concurrent skiplist inserts are lossless and ordered.
//
// A plan is: keys preloaded sequentially, 2-4 inserter threads with 1-6 Add
// calls each (tower heights are part of the plan, via verifhook.SklHeight), and
// a schedule over the yield points in Skiplist.addInternal. Between any two
// steps the scheduler goroutine may act as a concurrent reader.

import (
	"bytes"
	"errors"
	"fmt"
	"runtime"
	"sort"
	"strings"
	"testing"

	"github.com/cockroachdb/pebble/internal/arenaskl"
	"github.com/cockroachdb/pebble/internal/base"
	"github.com/cockroachdb/pebble/internal/verifhook"
	"github.com/cockroachdb/pebble/verifharness/evid"
	"pgregory.net/rapid"
)

type KeyP struct {
	U    string `json:"u"`
	Seq  uint64 `json:"seq"`
	Kind uint8  `json:"kind"`
}

type OpP struct {
	K KeyP   `json:"k"`
	V string `json:"v"`
	H int    `json:"h"` // tower height of the node allocated for this Add
}

type ThreadP struct {
	Ins bool  `json:"ins"` // use one arenaskl.Inserter for all ops (cached splice)
	Ops []OpP `json:"ops"`
}

// StepP: resume the (Pick mod #unfinished)-th unfinished thread for Run
// consecutive steps; then, if Read != 0, run a reader (1: full forward and
// backward traversal, 2: seeks at every user key of the plan).
type StepP struct {
	Pick int `json:"p"`
	Run  int `json:"n"`
	Read int `json:"r"`
}

type PlanC30 struct {
	// Exhaustive: ignore Steps and enumerate every schedule (reader after every
	// step). Only generated for 2 threads x 1 op.
	Exhaustive bool `json:"exhaustive,omitempty"`
	// NoExclude: execute even if the plan is in the class of an active known
	// finding (set only on the known-finding demonstration plan).
	NoExclude bool      `json:"no_exclude,omitempty"`
	Preload   []OpP     `json:"preload"`
	Threads   []ThreadP `json:"threads"`
	Steps     []StepP   `json:"steps"`
}

// ---- independent model of internal-key order -------------------------------

type ikey struct {
	u string
	t uint64 // trailer = seq<<8 | kind
}

func (k KeyP) ik() ikey { return ikey{k.U, k.Seq<<8 | uint64(k.Kind)} }

// ikLess: user key ascending (bytewise), then trailer descending (newer first).
func ikLess(a, b ikey) bool {
	if a.u != b.u {
		return a.u < b.u
	}
	return a.t > b.t
}

func (k ikey) String() string { return fmt.Sprintf("%s#%d,%d", k.u, k.t>>8, k.t&0xff) }

type kv struct {
	k ikey
	v string
}

func fmtKVs(l []kv) string {
	var sb strings.Builder
	for i, e := range l {
		if i > 0 {
			sb.WriteByte(' ')
		}
		sb.WriteString(e.k.String())
	}
	return "[" + sb.String() + "]"
}

// ---- one execution ------------------------------------------------------------

type attempt struct {
	thread, op int
	val        string
	started    bool
	finished   bool
	err        error
}

type c30stats struct {
	steps, reads           int
	casFail, casFailUpper  int
	dupOnRetry             int
	bwdMissedFinished      int
	midFlightReadsInFlight int
	maxInFlight            int
}

type c30run struct {
	p       *PlanC30
	skl     *arenaskl.Skiplist
	c       *coop
	preload map[ikey]string
	att     map[ikey][]*attempt
	curAtt  []*attempt // per thread
	level   []int      // per thread: levels already linked forward in the current Add
	height  []uint32   // per thread: height for the Add in progress
	preH    uint32
	probes  []string
	st      c30stats
}

func clampH(h int) uint32 {
	if h < 1 {
		return 1
	}
	if h > 20 {
		return 20
	}
	return uint32(h)
}

func mkKey(k KeyP) base.InternalKey {
	return base.InternalKey{UserKey: []byte(k.U), Trailer: base.InternalKeyTrailer(k.Seq<<8 | uint64(k.Kind))}
}

func (r *c30run) known(k ikey, v string) bool {
	if pv, ok := r.preload[k]; ok {
		return pv == v
	}
	for _, a := range r.att[k] {
		if a.started && a.val == v {
			return true
		}
	}
	return false
}

// finishedSet returns keys that must be visible to any forward reader now.
func (r *c30run) finishedSet() map[ikey]struct{} {
	m := map[ikey]struct{}{}
	for k := range r.preload {
		m[k] = struct{}{}
	}
	for k, as := range r.att {
		for _, a := range as {
			if a.finished && a.err == nil {
				m[k] = struct{}{}
			}
		}
	}
	return m
}

func (r *c30run) inFlight() int {
	n := 0
	for _, a := range r.curAtt {
		if a != nil && a.started && !a.finished {
			n++
		}
	}
	return n
}

func toKV(x *base.InternalKV) kv {
	return kv{ikey{string(x.K.UserKey), uint64(x.K.Trailer)}, string(x.InPlaceValue())}
}

func (r *c30run) scan(fwd bool) []kv {
	it := r.skl.NewIter(base.DefaultSplit, nil, nil)
	defer it.Close()
	var out []kv
	limit := 4096
	if fwd {
		for x := it.First(); x != nil; x = it.Next() {
			out = append(out, toKV(x))
			if limit--; limit == 0 {
				break
			}
		}
	} else {
		for x := it.Last(); x != nil; x = it.Prev() {
			out = append(out, toKV(x))
			if limit--; limit == 0 {
				break
			}
		}
	}
	return out
}

// checkOrderedSubset: strictly ordered in the direction of travel, every
// element is a key whose insert has started (with a value some started Add
// supplied).
func (r *c30run) checkOrderedSubset(what string, l []kv, fwd bool) error {
	for i, e := range l {
		if !r.known(e.k, e.v) {
			return fmt.Errorf("%s returned %s=%q, which no started Add supplied; scan=%s", what, e.k, e.v, fmtKVs(l))
		}
		if i > 0 {
			ok := ikLess(l[i-1].k, e.k)
			if !fwd {
				ok = ikLess(e.k, l[i-1].k)
			}
			if !ok {
				return fmt.Errorf("%s not strictly ordered at position %d: %s", what, i, fmtKVs(l))
			}
		}
	}
	return nil
}

// midFlight is the concurrent reader: runs while every inserter is parked at
// a yield point (or not started / finished).
func (r *c30run) midFlight(kind int) error {
	r.st.reads++
	inflight := r.inFlight()
	if inflight > 0 {
		r.st.midFlightReadsInFlight++
	}
	fin := r.finishedSet()
	if kind == 1 {
		f := r.scan(true)
		if err := r.checkOrderedSubset("mid-flight forward scan", f, true); err != nil {
			return err
		}
		seen := map[ikey]struct{}{}
		for _, e := range f {
			seen[e.k] = struct{}{}
		}
		for k := range fin {
			if _, ok := seen[k]; !ok {
				return fmt.Errorf("mid-flight forward scan misses %s whose Add already returned nil; scan=%s", k, fmtKVs(f))
			}
		}
		b := r.scan(false)
		if err := r.checkOrderedSubset("mid-flight backward scan", b, false); err != nil {
			return err
		}
		// Not required (see NOTES.md): a backward scan may miss finished nodes
		// while a neighbour's prev link is still pending. Only counted.
		seen = map[ikey]struct{}{}
		for _, e := range b {
			seen[e.k] = struct{}{}
		}
		for k := range fin {
			if _, ok := seen[k]; !ok {
				r.st.bwdMissedFinished++
				// Required since the repair of the C07 finding (Iterator.Prev / Last go
				// through Skiplist.getPrev, which treats the next links as
				// authoritative): a node whose Add returned is linked at level 0, so a
				// backward traversal that starts afterwards reaches it even while a
				// neighbour's prev link is still pending.
				return fmt.Errorf("mid-flight backward scan misses %s whose Add already returned nil; scan=%s", k, fmtKVs(b))
			}
		}
		if inflight == 0 {
			// quiescent moment: exactness is required.
			return r.checkExact(fin)
		}
		return nil
	}
	// seeks
	it := r.skl.NewIter(base.DefaultSplit, nil, nil)
	defer it.Close()
	for _, u := range r.probes {
		if x := it.SeekGE([]byte(u), base.SeekGEFlagsNone); x != nil {
			g := toKV(x)
			if !r.known(g.k, g.v) {
				return fmt.Errorf("mid-flight SeekGE(%q) returned unknown %s=%q", u, g.k, g.v)
			}
			if g.k.u < u {
				return fmt.Errorf("mid-flight SeekGE(%q) returned smaller key %s", u, g.k)
			}
			for f := range fin {
				if f.u >= u && ikLess(f, g.k) {
					return fmt.Errorf("mid-flight SeekGE(%q) returned %s, skipping finished %s", u, g.k, f)
				}
			}
			// a few Nexts stay ordered.
			prev := g
			for j := 0; j < 3; j++ {
				y := it.Next()
				if y == nil {
					break
				}
				n := toKV(y)
				if !ikLess(prev.k, n.k) || !r.known(n.k, n.v) {
					return fmt.Errorf("mid-flight Next after SeekGE(%q): %s then %s=%q", u, prev.k, n.k, n.v)
				}
				prev = n
			}
		} else {
			for f := range fin {
				if f.u >= u {
					return fmt.Errorf("mid-flight SeekGE(%q) returned nothing, but %s is finished", u, f)
				}
			}
		}
		if x := it.SeekLT([]byte(u), base.SeekLTFlagsNone); x != nil {
			g := toKV(x)
			if !r.known(g.k, g.v) {
				return fmt.Errorf("mid-flight SeekLT(%q) returned unknown %s=%q", u, g.k, g.v)
			}
			if g.k.u >= u {
				return fmt.Errorf("mid-flight SeekLT(%q) returned key %s not below", u, g.k)
			}
			for f := range fin {
				if f.u < u && ikLess(g.k, f) {
					return fmt.Errorf("mid-flight SeekLT(%q) returned %s, skipping finished %s", u, g.k, f)
				}
			}
			prev := g
			for j := 0; j < 3; j++ {
				y := it.Prev()
				if y == nil {
					break
				}
				n := toKV(y)
				if !ikLess(n.k, prev.k) || !r.known(n.k, n.v) {
					return fmt.Errorf("mid-flight Prev after SeekLT(%q): %s then %s=%q", u, prev.k, n.k, n.v)
				}
				prev = n
			}
		} else {
			for f := range fin {
				if f.u < u {
					return fmt.Errorf("mid-flight SeekLT(%q) returned nothing, but %s is finished", u, f)
				}
			}
		}
	}
	return nil
}

// checkExact: no insert is in flight; every traversal must equal the model.
func (r *c30run) checkExact(fin map[ikey]struct{}) error {
	want := make([]kv, 0, len(fin))
	for k := range fin {
		v, ok := r.preload[k]
		if !ok {
			for _, a := range r.att[k] {
				if a.finished && a.err == nil {
					v = a.val
				}
			}
		}
		want = append(want, kv{k, v})
	}
	sort.Slice(want, func(i, j int) bool { return ikLess(want[i].k, want[j].k) })
	eq := func(a, b []kv) bool {
		if len(a) != len(b) {
			return false
		}
		for i := range a {
			if a[i] != b[i] {
				return false
			}
		}
		return true
	}
	f := r.scan(true)
	if !eq(f, want) {
		return fmt.Errorf("quiescent forward scan %s != inserted set %s", fmtKVs(f), fmtKVs(want))
	}
	b := r.scan(false)
	rev := make([]kv, len(b))
	for i := range b {
		rev[len(b)-1-i] = b[i]
	}
	if !eq(rev, want) {
		return fmt.Errorf("quiescent backward scan (reversed) %s != inserted set %s", fmtKVs(rev), fmtKVs(want))
	}
	// flush iterator
	fi := r.skl.NewFlushIter()
	var fl []kv
	for x := fi.First(); x != nil; x = fi.Next() {
		fl = append(fl, toKV(x))
		if len(fl) > 4096 {
			break
		}
	}
	fi.Close()
	if !eq(fl, want) {
		return fmt.Errorf("quiescent flush iterator %s != inserted set %s", fmtKVs(fl), fmtKVs(want))
	}
	it := r.skl.NewIter(base.DefaultSplit, nil, nil)
	defer it.Close()
	for _, u := range r.probes {
		// expected: first element with user key >= u; last with user key < u.
		ge := sort.Search(len(want), func(i int) bool { return want[i].k.u >= u })
		x := it.SeekGE([]byte(u), base.SeekGEFlagsNone)
		switch {
		case ge == len(want) && x != nil:
			return fmt.Errorf("quiescent SeekGE(%q) = %s, want none; set=%s", u, toKV(x).k, fmtKVs(want))
		case ge < len(want) && (x == nil || toKV(x) != want[ge]):
			return fmt.Errorf("quiescent SeekGE(%q) wrong, want %s; set=%s", u, want[ge].k, fmtKVs(want))
		}
		if x != nil && ge+1 < len(want) {
			if y := it.Next(); y == nil || toKV(y) != want[ge+1] {
				return fmt.Errorf("quiescent Next after SeekGE(%q) wrong, want %s", u, want[ge+1].k)
			}
		}
		x = it.SeekLT([]byte(u), base.SeekLTFlagsNone)
		switch {
		case ge == 0 && x != nil:
			return fmt.Errorf("quiescent SeekLT(%q) = %s, want none; set=%s", u, toKV(x).k, fmtKVs(want))
		case ge > 0 && (x == nil || toKV(x) != want[ge-1]):
			return fmt.Errorf("quiescent SeekLT(%q) wrong, want %s; set=%s", u, want[ge-1].k, fmtKVs(want))
		}
		if x != nil && ge >= 2 {
			if y := it.Prev(); y == nil || toKV(y) != want[ge-2] {
				return fmt.Errorf("quiescent Prev after SeekLT(%q) wrong, want %s", u, want[ge-2].k)
			}
		}
	}
	return nil
}

// checkReturns: every distinct internal key was inserted by exactly one Add;
// all other Adds of that key reported ErrRecordExists.
func (r *c30run) checkReturns() error {
	for k, as := range r.att {
		okN := 0
		for _, a := range as {
			if !a.finished {
				return fmt.Errorf("Add(%s) by thread %d never returned", k, a.thread)
			}
			switch {
			case a.err == nil:
				okN++
			case errors.Is(a.err, arenaskl.ErrRecordExists):
			default:
				return fmt.Errorf("Add(%s) by thread %d returned unexpected error %v", k, a.thread, a.err)
			}
		}
		_, pre := r.preload[k]
		switch {
		case pre && okN != 0:
			return fmt.Errorf("Add(%s) returned nil %d times although the key was already present", k, okN)
		case !pre && okN != 1:
			return fmt.Errorf("Add(%s) returned nil %d times over %d attempts (want exactly 1)", k, okN, len(as))
		}
	}
	return nil
}

// chooser decides the next scheduling action.
type chooser interface {
	// next is given the number of unfinished threads (>0) and returns the index
	// (into the unfinished list) to step, and the reader kind to run afterwards.
	next(nEnabled int) (pick, read int)
}

type planChooser struct {
	steps []StepP
	i     int
	left  int // remaining consecutive steps for the current entry
}

func (c *planChooser) next(n int) (int, int) {
	if c.i >= len(c.steps) {
		return 0, 0
	}
	s := c.steps[c.i]
	if c.left == 0 {
		c.left = s.Run
		if c.left < 1 {
			c.left = 1
		}
	}
	c.left--
	read := 0
	if c.left == 0 {
		c.i++
		read = s.Read
	}
	pick := s.Pick
	if pick < 0 {
		pick = -pick
	}
	return pick % n, read
}

// dfsChooser replays a choice prefix then always picks 0; it records the
// branching factor at each step (stateless DFS enumeration).
type dfsChooser struct {
	prefix []int
	width  []int
}

func (c *dfsChooser) next(n int) (int, int) {
	i := len(c.width)
	c.width = append(c.width, n)
	if i < len(c.prefix) {
		return c.prefix[i], 1
	}
	return 0, 1
}

func runC30(p *PlanC30, ch chooser) (c30stats, error) {
	r := &c30run{p: p, preload: map[ikey]string{}, att: map[ikey][]*attempt{}}
	n := len(p.Threads)
	r.curAtt = make([]*attempt, n)
	r.level = make([]int, n)
	r.height = make([]uint32, n)
	r.c = newCoop(n)
	r.skl = arenaskl.NewSkiplist(arenaskl.NewArena(make([]byte, 64<<10)), bytes.Compare)

	users := map[string]struct{}{"": {}, "~": {}}
	for _, o := range p.Preload {
		users[o.K.U] = struct{}{}
	}
	for _, t := range p.Threads {
		for _, o := range t.Ops {
			users[o.K.U] = struct{}{}
		}
	}
	for u := range users {
		r.probes = append(r.probes, u)
	}
	sort.Strings(r.probes)

	r.c.onYield = func(i int, s verifhook.Site) {
		switch s {
		case verifhook.SklBetweenCAS:
			r.level[i]++
		case verifhook.SklCASFailed:
			r.st.casFail++
			if r.level[i] > 0 {
				r.st.casFailUpper++
			}
		}
	}
	old := verifhook.Install(&verifhook.Hooks{
		Yield: r.c.yield,
		SklHeight: func(h uint32) uint32 {
			if i := r.c.cur; i >= 0 {
				return r.height[i]
			}
			return r.preH
		},
	})
	defer verifhook.Install(old)

	// Sequential preload (unmanaged: yields return immediately).
	for _, o := range p.Preload {
		r.preH = clampH(o.H)
		err := r.skl.Add(mkKey(o.K), []byte(o.V))
		_, dup := r.preload[o.K.ik()]
		switch {
		case dup && !errors.Is(err, arenaskl.ErrRecordExists):
			return r.st, fmt.Errorf("sequential Add of duplicate %s returned %v", o.K.ik(), err)
		case !dup && err != nil:
			return r.st, fmt.Errorf("sequential Add(%s) returned %v", o.K.ik(), err)
		}
		if !dup {
			r.preload[o.K.ik()] = o.V
		}
	}
	if err := r.checkExact(r.finishedSet()); err != nil {
		return r.st, fmt.Errorf("after sequential preload: %w", err)
	}

	for ti := range p.Threads {
		ti := ti
		th := &p.Threads[ti]
		atts := make([]*attempt, len(th.Ops))
		for oi, o := range th.Ops {
			atts[oi] = &attempt{thread: ti, op: oi, val: o.V}
			r.att[o.K.ik()] = append(r.att[o.K.ik()], atts[oi])
		}
		r.c.spawn(ti, func() {
			var ins arenaskl.Inserter
			for oi, o := range th.Ops {
				a := atts[oi]
				r.curAtt[ti] = a
				r.level[ti] = 0
				r.height[ti] = clampH(o.H)
				a.started = true
				var err error
				if th.Ins {
					err = ins.Add(r.skl, mkKey(o.K), []byte(o.V))
				} else {
					err = r.skl.Add(mkKey(o.K), []byte(o.V))
				}
				a.err = err
				a.finished = true
				if err != nil && r.c.site[ti] != 0 {
					// passed a yield inside this Add, then lost to a concurrent duplicate.
					r.st.dupOnRetry++
				}
				r.c.site[ti] = 0
			}
		})
	}

	defer drain(r.c) // no-op unless an error abandons the execution
	var buf []int
	for {
		en := r.c.enabled(buf)
		if len(en) == 0 {
			break
		}
		pick, read := ch.next(len(en))
		ti := en[pick]
		r.c.step(ti)
		r.st.steps++
		if f := r.inFlight(); f > r.st.maxInFlight {
			r.st.maxInFlight = f
		}
		if r.c.panics[ti] != "" {
			return r.st, fmt.Errorf("inserter %d panicked: %s", ti, r.c.panics[ti])
		}
		if r.st.steps > 100000 {
			return r.st, fmt.Errorf("inserters did not terminate within 100000 scheduling steps (livelock)")
		}
		if read != 0 {
			if err := r.midFlight(read); err != nil {
				return r.st, fmt.Errorf("after step %d (thread %d): %w", r.st.steps, ti, err)
			}
		}
	}
	if err := r.checkReturns(); err != nil {
		return r.st, err
	}
	if err := r.checkExact(r.finishedSet()); err != nil {
		return r.st, err
	}
	return r.st, nil
}

// drain lets the parked goroutines of an abandoned (failed) execution finish
// so they do not leak: remaining threads are stepped to completion, unchecked.
func drain(c *coop) {
	var buf []int
	for guard := 0; guard < 200000; guard++ {
		en := c.enabled(buf)
		if len(en) == 0 {
			return
		}
		c.step(en[0])
	}
}

// sigInserterDup is the signature of the candidate finding described in
// NOTES.md: an Inserter whose cached level-0 splice has next == the key being
// added does not report ErrRecordExists and links a duplicate node.
const sigInserterDup = "inserter-cached-splice-duplicate"

// inInserterDupClass: some thread reuses its Inserter (op index >= 1) for an
// internal key that another Add of the plan (or the preload) also inserts.
func inInserterDupClass(p *PlanC30) bool {
	cnt := map[ikey]int{}
	for _, o := range p.Preload {
		cnt[o.K.ik()]++
	}
	for _, t := range p.Threads {
		for _, o := range t.Ops {
			cnt[o.K.ik()]++
		}
	}
	for _, t := range p.Threads {
		if !t.Ins {
			continue
		}
		for oi, o := range t.Ops {
			if oi >= 1 && cnt[o.K.ik()] > 1 {
				return true
			}
		}
	}
	return false
}

func execC30(p PlanC30) (evid.Outcome, error) {
	var out evid.Outcome
	if len(p.Threads) == 0 {
		return out, nil
	}
	if !p.NoExclude && evid.FindingActive("C30", sigInserterDup) && inInserterDupClass(&p) {
		return evid.Outcome{Excluded: sigInserterDup, Labels: []string{"excluded-known-finding"}}, nil
	}
	nops, dup, equalUser := 0, false, false
	seen := map[ikey]struct{}{}
	seenU := map[string]struct{}{}
	add := func(o OpP) {
		if _, ok := seen[o.K.ik()]; ok {
			dup = true
		} else if _, ok := seenU[o.K.U]; ok {
			equalUser = true
		}
		seen[o.K.ik()] = struct{}{}
		seenU[o.K.U] = struct{}{}
	}
	for _, o := range p.Preload {
		add(o)
	}
	maxH := 1
	for _, t := range p.Threads {
		for _, o := range t.Ops {
			add(o)
			nops++
			if o.H > maxH {
				maxH = o.H
			}
		}
	}
	var st c30stats
	var err error
	execs := 0
	if p.Exhaustive {
		out.Labels = append(out.Labels, "mode=exhaustive")
		var prefix []int
		truncated := false
		for {
			ch := &dfsChooser{prefix: prefix}
			var s c30stats
			s, err = runC30(&p, ch)
			execs++
			st.steps += s.steps
			st.reads += s.reads
			st.casFail += s.casFail
			st.casFailUpper += s.casFailUpper
			st.dupOnRetry += s.dupOnRetry
			st.bwdMissedFinished += s.bwdMissedFinished
			st.midFlightReadsInFlight += s.midFlightReadsInFlight
			if s.maxInFlight > st.maxInFlight {
				st.maxInFlight = s.maxInFlight
			}
			if err != nil {
				err = fmt.Errorf("exhaustive schedule %v: %w", ch.prefix, err)
				break
			}
			// advance to the next choice vector.
			cur := make([]int, len(ch.width))
			copy(cur, prefix)
			j := len(cur) - 1
			for ; j >= 0; j-- {
				if cur[j]+1 < ch.width[j] {
					break
				}
			}
			if j < 0 {
				break
			}
			cur[j]++
			prefix = cur[:j+1]
			if execs >= 50000 {
				truncated = true
				break
			}
		}
		if truncated {
			out.Labels = append(out.Labels, "exhaustive-truncated")
		}
	} else {
		out.Labels = append(out.Labels, "mode=random")
		st, err = runC30(&p, &planChooser{steps: p.Steps})
		execs = 1
	}
	out.Labels = append(out.Labels, fmt.Sprintf("threads=%d", len(p.Threads)))
	if dup {
		out.Labels = append(out.Labels, "has-duplicate-internal-key")
	}
	if equalUser {
		out.Labels = append(out.Labels, "has-equal-user-keys")
	}
	if maxH > 1 {
		out.Labels = append(out.Labels, "has-height>1")
	}
	if len(p.Preload) > 0 {
		out.Labels = append(out.Labels, "preloaded")
	}
	if st.casFail > 0 {
		out.Labels = append(out.Labels, "cas-failed")
	}
	if st.casFailUpper > 0 {
		out.Labels = append(out.Labels, "cas-failed-upper-level")
	}
	if st.dupOnRetry > 0 {
		out.Labels = append(out.Labels, "duplicate-detected-after-splice")
	}
	if st.bwdMissedFinished > 0 {
		out.Labels = append(out.Labels, "backward-scan-missed-finished-node")
	}
	if st.midFlightReadsInFlight > 0 {
		out.Labels = append(out.Labels, "reader-saw-in-flight-state")
	}
	if st.maxInFlight >= 2 {
		out.Labels = append(out.Labels, "inflight>=2")
	}
	out.NonTrivial = st.casFail > 0
	out.Counters = map[string]int{
		"executions": execs, "sched_steps": st.steps, "reader_runs": st.reads, "cas_failures": st.casFail,
		"adds": nops * execs,
	}
	return out, err
}

// ---- generator ----------------------------------------------------------------

// weighted draws index i with probability w[i]/sum(w) (rapid's IntRange is
// biased towards small values, so weights are spelled out through SampledFrom).
func weighted(t *rapid.T, label string, w ...int) int {
	var l []int
	for i, n := range w {
		for j := 0; j < n; j++ {
			l = append(l, i)
		}
	}
	return rapid.SampledFrom(l).Draw(t, label)
}

var userPool = []string{"a", "b", "c", "d", "e", "f"}

func genKey(t *rapid.T, pool int, prior []KeyP) KeyP {
	if len(prior) > 0 && weighted(t, "dupsel", 80, 20) == 1 {
		return prior[rapid.IntRange(0, len(prior)-1).Draw(t, "dupidx")]
	}
	k := KeyP{U: userPool[rapid.IntRange(0, pool-1).Draw(t, "u")]}
	k.Seq = uint64(rapid.IntRange(1, 4).Draw(t, "seq"))
	k.Kind = uint8(rapid.SampledFrom([]int{1, 1, 1, 0, 2}).Draw(t, "kind"))
	return k
}

func genHeight(t *rapid.T, maxH int) int {
	h := rapid.SampledFrom([]int{1, 1, 1, 1, 1, 1, 2, 2, 2, 3, 3, 4, 20}).Draw(t, "h")
	if h > maxH {
		h = maxH
	}
	return h
}

func genC30(t *rapid.T) PlanC30 {
	var p PlanC30
	p.Exhaustive = weighted(t, "exh", 94, 6) == 1
	pool := rapid.IntRange(1, len(userPool)).Draw(t, "pool")
	var prior []KeyP
	nt, maxOps, maxH := rapid.IntRange(2, 4).Draw(t, "threads"), 6, 20
	if p.Exhaustive {
		nt, maxOps, maxH = 2, 1, 1
		if weighted(t, "exh2", 3, 1) == 1 {
			maxH = 2
		}
		if pool > 3 {
			pool = 3
		}
	}
	excl := evid.FindingActive("C30", sigInserterDup)
	uniq := uint64(10)
	npre := rapid.IntRange(0, 4).Draw(t, "npre")
	for i := 0; i < npre; i++ {
		k := genKey(t, pool, prior)
		prior = append(prior, k)
		p.Preload = append(p.Preload, OpP{K: k, V: fmt.Sprintf("p%d", i), H: genHeight(t, 20)})
	}
	total := 0
	for ti := 0; ti < nt; ti++ {
		th := ThreadP{Ins: rapid.Bool().Draw(t, "ins")}
		no := rapid.IntRange(1, maxOps).Draw(t, "nops")
		for oi := 0; oi < no; oi++ {
			var k KeyP
			if excl && th.Ins && oi >= 1 {
				// known finding: a reused Inserter only gets keys no other Add of
				// the plan uses (unique seqnum, never offered for duplication).
				k = genKey(t, pool, nil)
				k.Seq = uniq
				uniq++
			} else {
				k = genKey(t, pool, prior)
				prior = append(prior, k)
			}
			h := genHeight(t, maxH)
			th.Ops = append(th.Ops, OpP{K: k, V: fmt.Sprintf("t%d.%d", ti, oi), H: h})
			total += 2 + 2*h
		}
		p.Threads = append(p.Threads, th)
	}
	if !p.Exhaustive {
		ns := rapid.IntRange(0, total).Draw(t, "nsteps")
		for i := 0; i < ns; i++ {
			p.Steps = append(p.Steps, StepP{
				Pick: rapid.IntRange(0, nt-1).Draw(t, "pick"),
				Run:  rapid.SampledFrom([]int{1, 1, 1, 2, 2, 3, 5}).Draw(t, "run"),
				Read: rapid.SampledFrom([]int{0, 0, 0, 0, 1, 2}).Draw(t, "read"),
			})
		}
	}
	return p
}

func TestC30(t *testing.T) {
	// Execution is strictly sequential (hand-off); one P avoids cross-thread
	// wake-ups. Has no influence on verdicts.
	defer runtime.GOMAXPROCS(runtime.GOMAXPROCS(1))
	evid.Run(t, evid.Spec[PlanC30]{
		ID: "C30", Level: "exploration",
		Rule: "plan = sequential preload + 2-4 inserter threads x 1-6 Adds (adjacent / equal user keys / exact duplicates, drawn tower heights) + a drawn schedule over the 4 yield sites in addInternal with reader runs in between " +
			"(6% of plans: 2 threads x 1 Add, ALL schedules enumerated); non-trivial = at least one CAS of a next link failed (two inserters contended for the same splice); distinct = hash of plan JSON",
		Assumptions: []string{
			"hook H2 (verifhook.Yield sites in addInternal, verifhook.SklHeight) does not change behaviour other than scheduling and tower height",
			"interleavings are explored at yield-site granularity: code between two yield sites of one inserter runs atomically",
			"the arena (64 KiB) never fills",
			"mid-flight backward scans must be an ordered subset of started keys and, since the repair of the C07 finding (Prev/Last go through Skiplist.getPrev), contain every key whose Add already returned",
		},
		Gen: genC30, Exec: execC30, Quick: 3000, Thorough: 100000,
		Known: []evid.Known[PlanC30]{{Signature: sigInserterDup, Plan: PlanC30{
			// sequential: list holds b#1; one Inserter adds a#1 (splice cached with
			// next == b#1) and then b#1 again -> nil instead of ErrRecordExists.
			NoExclude: true,
			Preload:   []OpP{{K: KeyP{"b", 1, 1}, V: "p0", H: 1}},
			Threads:   []ThreadP{{Ins: true, Ops: []OpP{{K: KeyP{"a", 1, 1}, V: "t0.0", H: 1}, {K: KeyP{"b", 1, 1}, V: "t0.1", H: 1}}}},
		}}},
		Sample: func(p PlanC30) any {
			nops := 0
			for _, th := range p.Threads {
				nops += len(th.Ops)
			}
			return map[string]any{"exhaustive": p.Exhaustive, "preload": len(p.Preload), "threads": len(p.Threads), "adds": nops, "steps": len(p.Steps)}
		},
	})
}
