// Package sched holds the schedule-exploration checks (engine S): C30
// (arenaskl concurrent inserts) and C07 (commit pipeline).
//
// Both rely on hook H2 (internal/verifhook, build tag verif): the code under
// test calls verifhook.Yield(site) at a few places; the harness installs a
// callback that parks the calling goroutine and hands control back to a
// scheduler which resumes the goroutine named next by the plan. Exactly one
// managed goroutine runs at any time, so the order of all shared-memory steps
// is owned by the plan and a plan replays identically.
package sched

import (
	"fmt"
	"runtime/debug"

	"github.com/cockroachdb/pebble/internal/verifhook"
)

// coop is a strict hand-off scheduler for code that never blocks between two
// yields (the skiplist). The scheduler goroutine and the managed goroutines
// alternate through unbuffered channels, which also orders all harness
// bookkeeping (no locks needed, race-detector clean).
type coop struct {
	resume []chan struct{}
	ev     chan struct{}
	cur    int // index of the running managed goroutine, -1 if none
	done   []bool
	site   []verifhook.Site // site at which goroutine i is parked (0: not started)
	panics []string
	// onYield is invoked on the managed goroutine before it parks.
	onYield func(i int, s verifhook.Site)
}

func newCoop(n int) *coop {
	c := &coop{ev: make(chan struct{}), cur: -1}
	c.resume = make([]chan struct{}, n)
	c.done = make([]bool, n)
	c.site = make([]verifhook.Site, n)
	c.panics = make([]string, n)
	for i := range c.resume {
		c.resume[i] = make(chan struct{})
	}
	return c
}

// yield is the verifhook.Yield callback.
func (c *coop) yield(s verifhook.Site) {
	i := c.cur
	if i < 0 {
		return // unmanaged caller (sequential preload / reader): no scheduling
	}
	if c.onYield != nil {
		c.onYield(i, s)
	}
	c.site[i] = s
	c.ev <- struct{}{}
	<-c.resume[i]
}

// spawn starts managed goroutine i; body runs once the scheduler first steps it.
func (c *coop) spawn(i int, body func()) {
	go func() {
		<-c.resume[i]
		defer func() {
			if r := recover(); r != nil {
				c.panics[i] = fmt.Sprintf("%v\n%s", r, debug.Stack())
			}
			c.done[i] = true
			c.ev <- struct{}{}
		}()
		body()
	}()
}

// step resumes goroutine i and returns when it parked again or finished.
func (c *coop) step(i int) {
	c.cur = i
	c.resume[i] <- struct{}{}
	<-c.ev
	c.cur = -1
}

func (c *coop) enabled(buf []int) []int {
	buf = buf[:0]
	for i, d := range c.done {
		if !d {
			buf = append(buf, i)
		}
	}
	return buf
}
