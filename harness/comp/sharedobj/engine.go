// Package sharedobj: C41 — shared objects are deleted only when no provider
// references them.
//
// engine.go contains the deterministic interpreter of a Plan:
//
//   - 2-3 objstorageprovider instances (distinct creator ids, own MemFS each)
//     share one remote.NewInMem() store. Every provider sees the store through
//     its own gate (a remote.Storage wrapper) so the harness knows which
//     provider issues an operation.
//   - A sequential setup phase runs un-gated. Then every provider runs its
//     script on its own goroutine; every effectful storage operation (object
//     put = writer Close, Delete, List, Size, ReadObject, ReadAt) parks at the
//     gate until the scheduler releases it. Exactly one provider goroutine runs
//     at any time, so an execution is a deterministic function of
//     (plan, sequence of "which parked operation to release next" choices).
//   - The monitor (the oracle) lives in the gate; see monitor* below.
package sharedobj

import (
	"bytes"
	"context"
	"encoding/json"
	"errors"
	"fmt"
	"hash/fnv"
	"io"
	"runtime/debug"
	"sort"
	"strings"

	"github.com/cockroachdb/pebble/internal/base"
	"github.com/cockroachdb/pebble/objstorage"
	"github.com/cockroachdb/pebble/objstorage/objstorageprovider"
	"github.com/cockroachdb/pebble/objstorage/remote"
	"github.com/cockroachdb/pebble/vfs"
)

// Step is one high-level provider operation.
//
//	create  File                 create a shared, ref-tracked object as local file File
//	export  File                 RemoteObjectBacking(File): publish the backing bytes, keep the handle open
//	closeh  File                 close the backing handle of File (protection ends)
//	attach  File Src SrcFile     AttachRemoteObjects using the backing published by provider Src for its file SrcFile
//	remove  File                 Remove(File)
//	read    File                 read the whole object through the provider
//	reopen                       Close + Open + SetCreatorID on the same MemFS
type Step struct {
	Op      string `json:"op"`
	File    int    `json:"file,omitempty"`
	Src     int    `json:"src,omitempty"`
	SrcFile int    `json:"srcFile,omitempty"`
}

// PStep is a setup step: a Step executed by provider Prov.
type PStep struct {
	Prov int `json:"prov"`
	Step
}

// Plan = scripts + schedule(s).
type Plan struct {
	NProv   int      `json:"nprov"`
	Setup   []PStep  `json:"setup"`   // sequential, un-gated
	Scripts [][]Step `json:"scripts"` // one per provider, run concurrently under the gate
	// Mode "dfs": enumerate every schedule (all choices of which parked operation
	// to release next), at most MaxExec executions. Mode "sample": execute the
	// schedules in Scheds (choice i is taken modulo the number of parked
	// operations; missing choices are 0).
	Mode    string  `json:"mode"`
	MaxExec int     `json:"maxExec,omitempty"`
	NoPrune bool    `json:"noPrune,omitempty"` // dfs: disable visited-state pruning
	Scheds  [][]int `json:"scheds,omitempty"`
	Canon   string  `json:"canon,omitempty"` // informational: name of the canonical scenario
	// AllowFileReuse lets a provider reuse a file number it has used before and
	// no longer holds. NEVER generated (pebble never reuses DiskFileNums); it
	// exists only to demonstrate why the assumption matters (see NOTES.md).
	AllowFileReuse bool `json:"allowFileReuse,omitempty"`
	// FailRefPut > 0: the n-th upload of a reference marker (counted over the
	// gated phase, all providers) fails: the writer's Close returns an error and
	// the marker does not exist. An attach / create whose marker upload failed
	// must not report success.
	FailRefPut int `json:"failRefPut,omitempty"`
}

type slotKey struct{ prov, file int }

type slot struct {
	backing []byte
	obj     int
}

type holderKey struct{ prov, file int }

type evKind int

const (
	evParked evKind = iota
	evBlocked
	evDone
)

type event struct {
	th   int
	kind evKind
	op   string // parked: kind+" "+name
	key  slotKey
}

// stepCtx describes the step a provider is currently executing.
type stepCtx struct {
	op         string
	prov       int
	file       int
	obj        int
	origin     slotKey // attach
	firstRel   int     // global index of the first storage op of this step (0 = none)
	lastRel    int
	sawMissing bool // attach: a Size() returned not-exist
	deletedObj bool // this step deleted an object
	listEmpty  bool
	ok         bool
}

type provState struct {
	idx     int
	fs      *vfs.MemFS
	st      objstorageprovider.Settings
	p       objstorage.Provider
	used    map[int]bool // file numbers ever used by this provider (never reused)
	known   map[int]int  // file -> obj: harness belief, from returned results only
	handles map[int]objstorage.RemoteObjectBackingHandle
	ckptN   int

	resume        chan struct{}
	status        evKind
	started       bool
	parkedOp      string
	waitKey       slotKey
	skipWait      bool
	pendingRemove *holderKey
	cur           *stepCtx
	hist          bytes.Buffer // everything this provider has observed (for state hashing)
	stepIdx       int
}

type world struct {
	refPuts   int
	plan      *Plan
	inner     remote.Storage
	provs     []*provState
	gated     bool
	events    chan event
	slots     map[slotKey]*slot
	objNames  []string
	objByName map[string]int
	objData   [][]byte
	holders   []map[holderKey]bool
	rel       int
	trace     []string
	choices   []int
	violation error
	panicked  bool
	steps     []*stepCtx // finished attach/remove steps of the concurrent phase
	labels    map[string]bool
	ctx       context.Context
}

func (w *world) violate(format string, args ...any) {
	if w.violation == nil {
		w.violation = fmt.Errorf(format, args...)
	}
}

// ---------------------------------------------------------------- gate

type gate struct {
	w  *world
	ps *provState
}

var _ remote.Storage = (*gate)(nil)

// before parks the calling provider (concurrent phase only) and, once released,
// runs the monitor hooks that are tied to the release instant.
func (w *world) before(ps *provState, kind, name string) {
	if w.gated {
		w.events <- event{th: ps.idx, kind: evParked, op: kind + " " + name}
		<-ps.resume
	}
	w.rel++
	if c := ps.cur; c != nil {
		if c.firstRel == 0 {
			c.firstRel = w.rel
		}
		c.lastRel = w.rel
	}
	// "Remove started": the latest instant compatible with the observed storage
	// order is the release of the remove's first storage operation.
	if ps.pendingRemove != nil {
		w.dropHolder(*ps.pendingRemove)
		ps.pendingRemove = nil
	}
}

func (w *world) after(ps *provState, kind, name, result string) {
	fmt.Fprintf(&ps.hist, "%s %s -> %s\n", kind, name, result)
	w.trace = append(w.trace, fmt.Sprintf("#%d p%d %s %s -> %s", w.rel, ps.idx, kind, name, result))
}

func (w *world) dropHolder(k holderKey) {
	for _, h := range w.holders {
		delete(h, k)
	}
}

func (g *gate) Close() error { return nil }

func (g *gate) IsNotExistError(err error) bool { return g.w.inner.IsNotExistError(err) }

func (g *gate) errStr(err error) string {
	if err == nil {
		return "ok"
	}
	if g.w.inner.IsNotExistError(err) {
		return "notexist"
	}
	return "err:" + err.Error()
}

type gateWriter struct {
	g     *gate
	name  string
	inner io.WriteCloser
	done  bool
}

func (gw *gateWriter) Write(p []byte) (int, error) { return gw.inner.Write(p) }

// Close is where the in-memory store makes the object visible: the gated op.
func (gw *gateWriter) Close() error {
	if gw.done {
		return gw.inner.Close()
	}
	gw.done = true
	g := gw.g
	g.w.before(g.ps, "put", gw.name)
	// Learn the storage name of an object from its creation (independent of the
	// implementation's naming scheme).
	if c := g.ps.cur; c != nil && c.op == "create" && !strings.Contains(gw.name, ".ref.") {
		g.w.objByName[gw.name] = c.obj
		g.w.objNames[c.obj] = gw.name
	}
	var err error
	if strings.Contains(gw.name, ".ref.") && g.w.plan.FailRefPut > 0 {
		g.w.refPuts++
		if g.w.refPuts == g.w.plan.FailRefPut {
			// the upload fails: nothing is stored
			err = errors.New("injected upload failure")
			g.w.labels["ref-marker-upload-failed"] = true
		}
	}
	if err == nil {
		err = gw.inner.Close()
	}
	g.w.after(g.ps, "put", gw.name, g.errStr(err))
	return err
}

func (g *gate) CreateObject(name string) (io.WriteCloser, error) {
	iw, err := g.w.inner.CreateObject(name)
	if err != nil {
		return nil, err
	}
	return &gateWriter{g: g, name: name, inner: iw}, nil
}

type gateReader struct {
	g     *gate
	name  string
	inner remote.ObjectReader
}

func (gr *gateReader) ReadAt(ctx context.Context, p []byte, off int64) error {
	gr.g.w.before(gr.g.ps, "readat", gr.name)
	err := gr.inner.ReadAt(ctx, p, off)
	gr.g.w.after(gr.g.ps, "readat", gr.name, gr.g.errStr(err))
	return err
}

func (gr *gateReader) Close() error { return gr.inner.Close() }

func (g *gate) ReadObject(ctx context.Context, name string) (remote.ObjectReader, int64, error) {
	g.w.before(g.ps, "open", name)
	r, sz, err := g.w.inner.ReadObject(ctx, name)
	g.w.after(g.ps, "open", name, g.errStr(err))
	if err != nil {
		return nil, 0, err
	}
	return &gateReader{g: g, name: name, inner: r}, sz, nil
}

func (g *gate) List(prefix, delimiter string) ([]string, error) {
	g.w.before(g.ps, "list", prefix)
	res, err := g.w.inner.List(prefix, delimiter)
	sort.Strings(res) // "the order that results are returned is undefined": fix one
	if c := g.ps.cur; c != nil && err == nil && len(res) == 0 {
		c.listEmpty = true
	}
	r := g.errStr(err)
	if err == nil {
		r = "[" + strings.Join(res, ",") + "]"
	}
	g.w.after(g.ps, "list", prefix, r)
	return res, err
}

func (g *gate) Size(name string) (int64, error) {
	g.w.before(g.ps, "size", name)
	sz, err := g.w.inner.Size(name)
	if c := g.ps.cur; c != nil && c.op == "attach" && err != nil && g.w.inner.IsNotExistError(err) {
		c.sawMissing = true
	}
	g.w.after(g.ps, "size", name, g.errStr(err))
	return sz, err
}

func (g *gate) Delete(name string) error {
	w := g.w
	w.before(g.ps, "delete", name)
	// MONITOR (1): at every storage Delete of a shared object, no provider whose
	// create/attach returned success and that has not started its Remove holds it.
	if obj, ok := w.objByName[name]; ok {
		if hs := w.holders[obj]; len(hs) > 0 {
			w.violate("provider %d deletes shared object %s (obj %d) while it is still held by %s "+
				"(create/attach returned success, Remove not started)", g.ps.idx, name, obj, holdersString(hs))
		}
		if _, err := w.inner.Size(name); err == nil {
			w.labels["obj-deleted"] = true
			if c := g.ps.cur; c != nil {
				c.deletedObj = true
				if c.op == "attach" {
					w.labels["failed-attach-deleted-obj"] = true
				}
			}
		}
	}
	err := w.inner.Delete(name)
	w.after(g.ps, "delete", name, g.errStr(err))
	return err
}

func holdersString(hs map[holderKey]bool) string {
	var s []string
	for k := range hs {
		s = append(s, fmt.Sprintf("p%d/file%d", k.prov, k.file))
	}
	sort.Strings(s)
	return strings.Join(s, ",")
}

// ---------------------------------------------------------------- providers

var locator = remote.MakeLocator("")

func (w *world) openProvider(ps *provState) error {
	p, err := objstorageprovider.Open(ps.st)
	if err != nil {
		return err
	}
	if err := p.SetCreatorID(objstorage.CreatorID(ps.idx + 1)); err != nil {
		return err
	}
	ps.p = p
	return nil
}

func newWorld(plan *Plan) (*world, error) {
	w := &world{
		plan:      plan,
		inner:     remote.NewInMem(),
		events:    make(chan event),
		slots:     map[slotKey]*slot{},
		objByName: map[string]int{},
		labels:    map[string]bool{},
		ctx:       context.Background(),
	}
	for i := 0; i < plan.NProv; i++ {
		ps := &provState{idx: i, fs: vfs.NewMem(), used: map[int]bool{}, known: map[int]int{},
			handles: map[int]objstorage.RemoteObjectBackingHandle{}, resume: make(chan struct{})}
		ps.st = objstorageprovider.DefaultSettings(ps.fs, "")
		ps.st.Logger = base.NoopLoggerAndTracer{}
		ps.st.Remote.StorageFactory = remote.MakeSimpleFactory(map[remote.Locator]remote.Storage{
			locator: &gate{w: w, ps: ps},
		})
		ps.st.Remote.CreateOnShared = remote.CreateOnSharedAll
		ps.st.Remote.CreateOnSharedLocator = locator
		if err := w.openProvider(ps); err != nil {
			return nil, fmt.Errorf("harness: cannot open provider %d: %v", i, err)
		}
		w.provs = append(w.provs, ps)
	}
	return w, nil
}

func objPayload(prov, file int) []byte {
	return []byte(fmt.Sprintf("payload-of-object-created-by-p%d-as-file-%06d", prov, file))
}

func (w *world) readThroughProvider(ps *provState, file int) ([]byte, error) {
	r, err := ps.p.OpenForReading(w.ctx, base.FileTypeTable, base.DiskFileNum(file), objstorage.OpenOptions{})
	if err != nil {
		return nil, err
	}
	defer r.Close()
	buf := make([]byte, r.Size())
	if err := r.ReadAt(w.ctx, buf, 0); err != nil {
		return nil, err
	}
	return buf, nil
}

// runStep interprets one step for provider ps. Steps that refer to state the
// provider does not have (file not held, backing never published, file number
// already used) are skipped: the harness never reuses a file number and never
// calls Remove/export/read on a file the provider does not hold.
func (w *world) runStep(ps *provState, st Step) {
	c := &stepCtx{op: st.Op, prov: ps.idx, file: st.File, obj: -1}
	ps.cur = c
	result := "skip"
	defer func() {
		ps.cur = nil
		ps.stepIdx++
		fmt.Fprintf(&ps.hist, "step %d %s => %s\n", ps.stepIdx, st.Op, result)
		w.trace = append(w.trace, fmt.Sprintf("   p%d step %s file=%d => %s", ps.idx, st.Op, st.File, result))
	}()
	switch st.Op {
	case "create":
		if st.File <= 0 || ps.used[st.File] {
			return
		}
		ps.used[st.File] = true
		c.obj = len(w.objNames)
		w.objNames = append(w.objNames, "")
		w.objData = append(w.objData, objPayload(ps.idx, st.File))
		w.holders = append(w.holders, map[holderKey]bool{})
		wr, _, err := ps.p.Create(w.ctx, base.FileTypeTable, base.DiskFileNum(st.File), objstorage.CreateOptions{
			PreferSharedStorage: true, SharedCleanupMethod: objstorage.SharedRefTracking})
		if err == nil {
			if err = wr.Write(w.objData[c.obj]); err == nil {
				err = wr.Finish()
			} else {
				wr.Abort()
			}
		}
		if err != nil {
			result = "err:" + err.Error()
			w.labels["create-error"] = true
			return
		}
		result = "ok"
		c.ok = true
		ps.known[st.File] = c.obj
		w.holders[c.obj][holderKey{ps.idx, st.File}] = true

	case "export":
		obj, ok := ps.known[st.File]
		if !ok || ps.handles[st.File] != nil {
			return
		}
		meta, err := ps.p.Lookup(base.FileTypeTable, base.DiskFileNum(st.File))
		if err != nil {
			w.violate("provider %d holds file %d (create/attach succeeded, not removed) but Lookup fails: %v", ps.idx, st.File, err)
			result = "err"
			return
		}
		h, err := ps.p.RemoteObjectBacking(&meta)
		if err != nil {
			result = "err:" + err.Error()
			return
		}
		b, err := h.Get()
		if err != nil {
			result = "err:" + err.Error()
			return
		}
		ps.handles[st.File] = h
		w.slots[slotKey{ps.idx, st.File}] = &slot{backing: append([]byte(nil), b...), obj: obj}
		result = "ok"

	case "closeh":
		if h := ps.handles[st.File]; h != nil {
			h.Close()
			delete(ps.handles, st.File)
			result = "ok"
		}

	case "attach":
		if _, held := ps.known[st.File]; st.File <= 0 || held || (ps.used[st.File] && !w.plan.AllowFileReuse) {
			return
		}
		key := slotKey{st.Src, st.SrcFile}
		var sl *slot
		for {
			if sl = w.slots[key]; sl != nil {
				break
			}
			if !w.gated || ps.skipWait {
				ps.skipWait = false
				w.labels["attach-skipped-no-backing"] = true
				return
			}
			// The backing does not exist yet: wait until its exporter publishes it.
			w.events <- event{th: ps.idx, kind: evBlocked, key: key}
			<-ps.resume
		}
		ps.used[st.File] = true
		c.obj = sl.obj
		c.origin = key
		_, err := ps.p.AttachRemoteObjects([]objstorage.RemoteObjectToAttach{{
			FileNum: base.DiskFileNum(st.File), FileType: base.FileTypeTable, Backing: sl.backing}})
		if w.gated {
			w.steps = append(w.steps, c)
		}
		if err != nil {
			result = "err"
			if c.sawMissing {
				w.labels["attach-failed-origin-missing"] = true
			} else {
				w.labels["attach-failed-other"] = true
				result = "err:" + err.Error()
			}
			return
		}
		// MONITOR (3): an attach that observed the origin ref missing must fail.
		if c.sawMissing {
			w.violate("provider %d: AttachRemoteObjects(file %d from p%d/file%d) returned success although a "+
				"marker lookup returned not-exist during the attach", ps.idx, st.File, st.Src, st.SrcFile)
		}
		// MONITOR (2): a successful attach must not be on a deleted object.
		if name := w.objNames[sl.obj]; name != "" {
			if _, err := w.inner.Size(name); err != nil {
				w.violate("provider %d: AttachRemoteObjects(file %d from p%d/file%d) returned success but object %s "+
					"does not exist in the store (%v)", ps.idx, st.File, st.Src, st.SrcFile, name, err)
			}
		}
		result = "ok"
		c.ok = true
		w.labels["attach-ok"] = true
		ps.known[st.File] = sl.obj
		w.holders[sl.obj][holderKey{ps.idx, st.File}] = true

	case "remove":
		obj, ok := ps.known[st.File]
		if !ok {
			return
		}
		c.obj = obj
		delete(ps.known, st.File)
		k := holderKey{ps.idx, st.File}
		ps.pendingRemove = &k
		err := ps.p.Remove(base.FileTypeTable, base.DiskFileNum(st.File))
		if ps.pendingRemove != nil { // no storage operation was issued (protected object)
			w.dropHolder(k)
			ps.pendingRemove = nil
		}
		if w.gated {
			w.steps = append(w.steps, c)
		}
		if c.firstRel == 0 {
			w.labels["remove-protected-noop"] = true
		}
		if err != nil {
			result = "err:" + err.Error()
			w.labels["remove-error"] = true
			return
		}
		c.ok = true
		result = "ok"

	case "read":
		obj, ok := ps.known[st.File]
		if !ok {
			return
		}
		c.obj = obj
		data, err := w.readThroughProvider(ps, st.File)
		if err != nil {
			w.violate("provider %d holds file %d (obj %d %s) but cannot read it: %v", ps.idx, st.File, obj, w.objNames[obj], err)
			result = "err"
			return
		}
		if !bytes.Equal(data, w.objData[obj]) {
			w.violate("provider %d read wrong content for file %d (obj %d): %q", ps.idx, st.File, obj, data)
		}
		result = "ok"
		w.labels["concurrent-read"] = true

	case "ckpt":
		// Provider.CheckpointState (the shared-storage half of DB.Checkpoint): it
		// copies no object, it protects the named ones from deletion "for the
		// life of this instance". Model: the checkpoint is one more holder of the
		// object until this provider is reopened.
		obj, ok := ps.known[st.File]
		if !ok {
			return
		}
		c.obj = obj
		ps.ckptN++
		dir := fmt.Sprintf("ckpt%d", ps.ckptN)
		if err := ps.fs.MkdirAll(dir, 0o755); err != nil {
			panic(err)
		}
		if err := ps.p.CheckpointState(ps.fs, dir, []base.DiskFileNum{base.DiskFileNum(st.File)}); err != nil {
			result = "err:" + err.Error()
			w.labels["ckpt-error"] = true
			return
		}
		w.holders[obj][holderKey{ps.idx, -st.File}] = true
		w.labels["ckpt"] = true
		if ps.handles[st.File] != nil {
			w.labels["ckpt-while-backing-handle-open"] = true
		}
		result = "ok"

	case "reopen":
		// the protection of checkpointed objects ends with the instance
		for _, h := range w.holders {
			for k := range h {
				if k.prov == ps.idx && k.file < 0 {
					delete(h, k)
				}
			}
		}
		// Backing handles are only valid until the provider is closed.
		for f := range ps.handles {
			delete(ps.handles, f)
		}
		if err := ps.p.Close(); err != nil {
			result = "err:" + err.Error()
			w.labels["close-error"] = true
		}
		if err := w.openProvider(ps); err != nil {
			// Cannot continue with this provider; treat as harness failure.
			panic(fmt.Sprintf("harness: reopen of provider %d failed: %v", ps.idx, err))
		}
		if result == "skip" {
			result = "ok"
		}
		w.labels["reopen"] = true
	default:
		panic("bad step op " + st.Op)
	}
}

// ---------------------------------------------------------------- scheduler

func (w *world) threadMain(ps *provState, script []Step) {
	<-ps.resume
	defer func() {
		if r := recover(); r != nil {
			w.panicked = true
			w.violate("panic on provider %d goroutine: %v\n%s", ps.idx, r, debug.Stack())
		}
		w.events <- event{th: ps.idx, kind: evDone}
	}()
	for _, st := range script {
		w.runStep(ps, st)
	}
}

func (w *world) resumeThread(ps *provState) {
	ps.resume <- struct{}{}
	ev := <-w.events
	if ev.th != ps.idx {
		panic(fmt.Sprintf("harness: event from provider %d while provider %d runs", ev.th, ps.idx))
	}
	ps.status = ev.kind
	ps.parkedOp = ev.op
	ps.waitKey = ev.key
}

// stateHash identifies the global state at a decision point: store contents
// plus everything each provider has observed so far (providers are
// deterministic functions of their observations) plus what each is parked on.
func (w *world) stateHash() uint64 {
	h := fnv.New64a()
	names, _ := w.inner.List("", "")
	sort.Strings(names)
	for _, n := range names {
		io.WriteString(h, n)
		h.Write([]byte{0})
	}
	for _, ps := range w.provs {
		fmt.Fprintf(h, "|%d:%d:%s:%v|", ps.idx, ps.status, ps.parkedOp, ps.waitKey)
		h.Write(ps.hist.Bytes())
	}
	return h.Sum64()
}

// runConcurrent runs the scripts under the gate. choose(d, width) returns the
// index (0 <= i < width) of the parked operation to release at decision d; the
// parked operations are ordered by provider index.
func (w *world) runConcurrent(choose func(d, width int) int) {
	w.gated = true
	for i, ps := range w.provs {
		var script []Step
		if i < len(w.plan.Scripts) {
			script = w.plan.Scripts[i]
		}
		go w.threadMain(ps, script)
	}
	for _, ps := range w.provs {
		w.resumeThread(ps)
	}
	for d := 0; ; {
		// Providers waiting for a backing that has been published meanwhile
		// continue eagerly (local computation only, up to their next storage op).
		for progress := true; progress; {
			progress = false
			for _, ps := range w.provs {
				if ps.status == evBlocked && w.slots[ps.waitKey] != nil {
					w.resumeThread(ps)
					progress = true
				}
			}
		}
		var enabled []*provState
		var firstBlocked *provState
		for _, ps := range w.provs {
			switch ps.status {
			case evParked:
				enabled = append(enabled, ps)
			case evBlocked:
				if firstBlocked == nil {
					firstBlocked = ps
				}
			}
		}
		if len(enabled) == 0 {
			if firstBlocked == nil {
				break
			}
			// Nobody can publish the awaited backing any more: skip that attach.
			firstBlocked.skipWait = true
			w.resumeThread(firstBlocked)
			continue
		}
		i := choose(d, len(enabled))
		if i < 0 || i >= len(enabled) {
			panic("harness: bad choice")
		}
		w.choices = append(w.choices, i)
		d++
		w.resumeThread(enabled[i])
	}
	w.gated = false
}

// finalChecks: every provider that still holds a file can read the object.
func (w *world) finalChecks() {
	if w.panicked {
		return
	}
	for obj, hs := range w.holders {
		keys := make([]holderKey, 0, len(hs))
		for k := range hs {
			keys = append(keys, k)
		}
		sort.Slice(keys, func(i, j int) bool {
			if keys[i].prov != keys[j].prov {
				return keys[i].prov < keys[j].prov
			}
			return keys[i].file < keys[j].file
		})
		for _, k := range keys {
			if k.file < 0 {
				// a checkpoint taken by this provider instance: the object must
				// still be in the store
				if name := w.objNames[obj]; name != "" {
					if _, err := w.inner.Size(name); err != nil {
						w.violate("at the end a checkpoint taken by provider %d (still the same instance) references file %d (obj %d %s) "+
							"but the object is gone from the store: %v", k.prov, -k.file, obj, name, err)
					}
				}
				continue
			}
			data, err := w.readThroughProvider(w.provs[k.prov], k.file)
			if err != nil {
				w.violate("at the end provider %d holds file %d (obj %d %s; create/attach returned success, never removed) "+
					"but cannot read it: %v", k.prov, k.file, obj, w.objNames[obj], err)
			} else if !bytes.Equal(data, w.objData[obj]) {
				w.violate("at the end provider %d reads wrong content for file %d (obj %d): %q", k.prov, k.file, obj, data)
			}
			w.labels["final-holder-read"] = true
		}
		if len(hs) == 0 && w.objNames[obj] != "" {
			if _, err := w.inner.Size(w.objNames[obj]); err == nil {
				w.labels["unheld-object-left"] = true // allowed (leak), only classified
			}
		}
	}
	for _, ps := range w.provs {
		for f, h := range ps.handles {
			h.Close()
			delete(ps.handles, f)
		}
		_ = ps.p.Close()
	}
}

// classify sets the overlap labels of one execution.
func (w *world) classify() (overlap bool) {
	for _, a := range w.steps {
		if a.op != "attach" || a.firstRel == 0 {
			continue
		}
		for _, r := range w.steps {
			if r.op != "remove" || r.firstRel == 0 || r.obj != a.obj {
				continue
			}
			if !(a.firstRel < r.lastRel && r.firstRel < a.lastRel) {
				continue
			}
			w.labels["attach-overlaps-some-remove"] = true
			if r.prov == a.origin.prov && r.file == a.origin.file {
				overlap = true
				w.labels["attach-overlaps-origin-remove"] = true
				if r.listEmpty {
					w.labels["attach-overlaps-origin-remove-that-saw-no-refs"] = true
				}
				// (a successful attach cannot overlap: its last op, the origin
				// check, would have to follow the origin's marker deletion.)
				if !a.ok {
					w.labels["race-attach-lost"] = true
				}
			}
		}
	}
	return overlap
}

type execResult struct {
	err     error
	overlap bool
	labels  map[string]bool
	nops    int
	choices []int
	widths  []int
	outcome uint64 // hash of the state after the concurrent phase
}

// execOnce runs setup + one schedule + final checks.
func execOnce(plan *Plan, choose func(w *world, d, width int) int) execResult {
	w, err := newWorld(plan)
	if err != nil {
		panic(err)
	}
	var res execResult
	func() {
		defer func() {
			if r := recover(); r != nil {
				w.panicked = true
				w.violate("panic during setup/final phase: %v\n%s", r, debug.Stack())
			}
		}()
		for _, s := range plan.Setup {
			if s.Prov < 0 || s.Prov >= len(w.provs) {
				panic("bad plan: setup provider index")
			}
			w.runStep(w.provs[s.Prov], s.Step)
		}
		w.trace = append(w.trace, "--- concurrent phase ---")
		w.runConcurrent(func(d, width int) int {
			res.widths = append(res.widths, width)
			return choose(w, d, width)
		})
		res.outcome = w.stateHash()
		w.trace = append(w.trace, "--- final checks ---")
		w.finalChecks()
	}()
	res.overlap = w.classify()
	res.labels = w.labels
	res.nops = len(w.choices)
	res.choices = w.choices
	if w.violation != nil {
		single := *plan
		single.Mode = "sample"
		single.Scheds = [][]int{w.choices}
		single.MaxExec = 0
		js, _ := json.Marshal(single)
		res.err = fmt.Errorf("%v\nschedule choices: %v\ntrace:\n  %s\nequivalent single-schedule plan: %s",
			w.violation, w.choices, strings.Join(w.trace, "\n  "), js)
	}
	return res
}
