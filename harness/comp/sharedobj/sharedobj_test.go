package sharedobj

import (
	"encoding/json"
	"fmt"
	"math/big"
	"runtime"
	"runtime/debug"
	"sort"
	"strings"
	"sync"
	"testing"

	"github.com/cockroachdb/pebble/verifharness/evid"
	"pgregory.net/rapid"
)

// ---------------------------------------------------------------- DFS over schedules

const defaultMaxExec = 4000

type frame struct{ choice, width int }

type aggregate struct {
	execs, overlapExecs, pruned int
	maxOps                      int
	labels                      map[string]bool
	exhausted                   bool
	states                      int
	outcomes                    map[uint64]bool // distinct (final store, per-provider observations)
}

// runDFS enumerates all schedules of the plan's scripts: depth-first over
// "which parked operation to release next", re-executing from scratch for
// every schedule. Unless plan.NoPrune, a decision point whose global state
// (store contents + every provider's observation history + parked ops) was
// already fully explored is not expanded again (the execution is still run to
// completion with default choices and checked).
func runDFS(plan *Plan) (aggregate, error) {
	agg := aggregate{labels: map[string]bool{}, outcomes: map[uint64]bool{}}
	maxExec := plan.MaxExec
	if maxExec <= 0 {
		maxExec = defaultMaxExec
	}
	var stack []frame
	visited := map[uint64]bool{}
	for agg.execs < maxExec {
		pruned := false
		var nondet error
		res := execOnce(plan, func(w *world, d, width int) int {
			if d < len(stack) {
				if stack[d].width != width && nondet == nil {
					nondet = fmt.Errorf("harness: nondeterministic execution: decision %d had %d parked ops, now %d", d, stack[d].width, width)
				}
				return min(stack[d].choice, width-1)
			}
			if pruned {
				return 0
			}
			if !plan.NoPrune {
				h := w.stateHash()
				if visited[h] {
					pruned = true
					return 0
				}
				visited[h] = true
			}
			stack = append(stack, frame{0, width})
			return 0
		})
		agg.execs++
		if pruned {
			agg.pruned++
		}
		if res.overlap {
			agg.overlapExecs++
		}
		agg.maxOps = max(agg.maxOps, res.nops)
		for l := range res.labels {
			agg.labels[l] = true
		}
		agg.outcomes[res.outcome] = true
		if nondet != nil {
			return agg, nondet
		}
		if res.err != nil {
			return agg, res.err
		}
		// backtrack
		for len(stack) > 0 && stack[len(stack)-1].choice+1 >= stack[len(stack)-1].width {
			stack = stack[:len(stack)-1]
		}
		if len(stack) == 0 {
			agg.exhausted = true
			break
		}
		stack[len(stack)-1].choice++
	}
	agg.states = len(visited)
	return agg, nil
}

func runSamples(plan *Plan) (aggregate, error) {
	agg := aggregate{labels: map[string]bool{}, outcomes: map[uint64]bool{}}
	scheds := plan.Scheds
	if len(scheds) == 0 {
		scheds = [][]int{nil}
	}
	for _, s := range scheds {
		res := execOnce(plan, func(w *world, d, width int) int {
			if d < len(s) && s[d] >= 0 {
				return s[d] % width
			}
			return 0
		})
		agg.execs++
		if res.overlap {
			agg.overlapExecs++
		}
		agg.maxOps = max(agg.maxOps, res.nops)
		for l := range res.labels {
			agg.labels[l] = true
		}
		agg.outcomes[res.outcome] = true
		if res.err != nil {
			return agg, res.err
		}
	}
	return agg, nil
}

// ---------------------------------------------------------------- coverage bookkeeping

var cov struct {
	sync.Mutex
	dfsPlans, dfsExhausted, dfsTruncated int
	dfsExecs, dfsPruned, dfsStates       int
	samplePlans, sampleExecs             int
	maxOps                               int
	exhaustedCanon                       map[string]int
	memo                                 map[string]memoEntry
	largestExhausted                     int
}

type memoEntry struct {
	out evid.Outcome
	err error
}

func exec(p Plan) (out evid.Outcome, retErr error) {
	if p.NProv < 1 || p.NProv > 4 || len(p.Scripts) > p.NProv {
		return out, fmt.Errorf("bad plan: nprov=%d scripts=%d", p.NProv, len(p.Scripts))
	}
	// The canonical scenarios are drawn many times; a DFS is a deterministic
	// function of the plan, so its result is computed once per process.
	var memoKey string
	if p.Canon != "" && p.Mode == "dfs" {
		js, _ := json.Marshal(p)
		memoKey = string(js)
		cov.Lock()
		m, ok := cov.memo[memoKey]
		cov.Unlock()
		if ok {
			out = m.out
			out.Counters = nil
			out.Labels = append(append([]string{}, out.Labels...), "canon-result-reused")
			return out, m.err
		}
		defer func() {
			cov.Lock()
			if cov.memo == nil {
				cov.memo = map[string]memoEntry{}
			}
			cov.memo[memoKey] = memoEntry{out, retErr}
			cov.Unlock()
		}()
	}
	var agg aggregate
	var err error
	switch p.Mode {
	case "dfs":
		agg, err = runDFS(&p)
	case "sample":
		agg, err = runSamples(&p)
	default:
		return out, fmt.Errorf("bad plan: mode %q", p.Mode)
	}
	out.NonTrivial = agg.overlapExecs > 0
	out.Labels = append(out.Labels, "mode="+p.Mode, fmt.Sprintf("nprov=%d", p.NProv))
	if p.Canon != "" {
		out.Labels = append(out.Labels, "canon="+p.Canon)
	} else {
		out.Labels = append(out.Labels, "random-scripts")
		if out.NonTrivial {
			out.Labels = append(out.Labels, "random-scripts-nontrivial")
		}
	}
	ls := make([]string, 0, len(agg.labels))
	for l := range agg.labels {
		ls = append(ls, l)
	}
	sort.Strings(ls)
	out.Labels = append(out.Labels, ls...)
	out.Counters = map[string]int{"executions": agg.execs, "executions_with_overlap": agg.overlapExecs}

	retErr = err
	cov.Lock()
	defer cov.Unlock()
	cov.maxOps = max(cov.maxOps, agg.maxOps)
	if p.Mode == "dfs" {
		cov.dfsPlans++
		cov.dfsExecs += agg.execs
		cov.dfsPruned += agg.pruned
		cov.dfsStates += agg.states
		if err == nil {
			if agg.exhausted {
				cov.dfsExhausted++
				out.Labels = append(out.Labels, "dfs-exhausted")
				cov.largestExhausted = max(cov.largestExhausted, agg.execs)
				if p.Canon != "" {
					if cov.exhaustedCanon == nil {
						cov.exhaustedCanon = map[string]int{}
					}
					cov.exhaustedCanon[p.Canon]++
				}
			} else {
				cov.dfsTruncated++
				out.Labels = append(out.Labels, "dfs-truncated")
			}
		}
	} else {
		cov.samplePlans++
		cov.sampleExecs += agg.execs
	}
	return out, err
}

func extraCoverage() map[string]any {
	cov.Lock()
	defer cov.Unlock()
	return map[string]any{
		"exhaustive_subspaces": "for every plan with mode=dfs labelled dfs-exhausted, ALL interleavings of the gated storage " +
			"operations of its scripts were enumerated (modulo identical global states)",
		"dfs_plans":                       cov.dfsPlans,
		"dfs_plans_exhausted":             cov.dfsExhausted,
		"dfs_plans_truncated_at_cap":      cov.dfsTruncated,
		"dfs_executions":                  cov.dfsExecs,
		"dfs_executions_pruned_tail":      cov.dfsPruned,
		"dfs_distinct_states_expanded":    cov.dfsStates,
		"dfs_largest_exhausted_plan_exec": cov.largestExhausted,
		"canonical_scenarios_exhausted":   cov.exhaustedCanon,
		"sample_plans":                    cov.samplePlans,
		"sample_executions":               cov.sampleExecs,
		"max_storage_ops_in_one_schedule": cov.maxOps,
	}
}

// ---------------------------------------------------------------- canonical scenarios

func ps(prov int, op string, file int, src ...int) PStep {
	s := PStep{Prov: prov, Step: Step{Op: op, File: file}}
	if len(src) == 2 {
		s.Src, s.SrcFile = src[0], src[1]
	}
	return s
}

func st(op string, file int, src ...int) Step {
	s := Step{Op: op, File: file}
	if len(src) == 2 {
		s.Src, s.SrcFile = src[0], src[1]
	}
	return s
}

// canonical returns the hand-written core scenarios (A=0 creates file 1).
func canonical() []Plan {
	base := []PStep{ps(0, "create", 1), ps(0, "export", 1), ps(0, "closeh", 1)}
	withB := append(append([]PStep{}, base...), ps(1, "attach", 1, 0, 1))
	withBexp := append(append([]PStep{}, withB...), ps(1, "export", 1), ps(1, "closeh", 1))
	return []Plan{
		{Canon: "race2", NProv: 2, Setup: base,
			Scripts: [][]Step{{st("remove", 1)}, {st("attach", 1, 0, 1)}}},
		{Canon: "race3-two-removes-originA", NProv: 3, Setup: withB,
			Scripts: [][]Step{{st("remove", 1)}, {st("remove", 1)}, {st("attach", 1, 0, 1)}}},
		{Canon: "race3-two-removes-originB", NProv: 3, Setup: withBexp,
			Scripts: [][]Step{{st("remove", 1)}, {st("remove", 1)}, {st("attach", 1, 1, 1)}}},
		{Canon: "two-attachers", NProv: 3, Setup: base,
			Scripts: [][]Step{{st("remove", 1)}, {st("attach", 1, 0, 1)}, {st("attach", 1, 0, 1)}}},
		{Canon: "attach-then-remove", NProv: 2, Setup: base,
			Scripts: [][]Step{{st("remove", 1)}, {st("attach", 1, 0, 1), st("remove", 1)}}},
		{Canon: "chain", NProv: 3, Setup: base,
			Scripts: [][]Step{{st("remove", 1)},
				{st("attach", 1, 0, 1), st("export", 1), st("closeh", 1), st("remove", 1)},
				{st("attach", 1, 1, 1)}}},
		{Canon: "protected-handle-open", NProv: 2, Setup: base[:2],
			Scripts: [][]Step{{st("remove", 1)}, {st("attach", 1, 0, 1)}}},
		{Canon: "reopen-drops-protection", NProv: 2, Setup: []PStep{ps(0, "create", 1), ps(0, "export", 1), ps(0, "reopen", 0)},
			Scripts: [][]Step{{st("remove", 1)}, {st("attach", 1, 0, 1)}}},
		{Canon: "double-attach", NProv: 2, Setup: base,
			Scripts: [][]Step{{st("remove", 1)}, {st("attach", 1, 0, 1), st("attach", 2, 0, 1)}}},
		{Canon: "stale-backing-object-alive", NProv: 3, Setup: append(append([]PStep{}, withBexp...), ps(0, "remove", 1)),
			Scripts: [][]Step{{st("attach", 2, 1, 1)}, {st("remove", 1)}, {st("attach", 1, 1, 1)}}},
		{Canon: "create-in-flight", NProv: 2, Setup: base,
			Scripts: [][]Step{{st("create", 2), st("remove", 1)}, {st("attach", 1, 0, 1), st("read", 1)}}},
	}
}

// ---------------------------------------------------------------- generator

// worst-case number of gated storage operations per step kind
var opCost = map[string]int{"create": 2, "attach": 5, "remove": 3, "read": 2}

// interleavings returns the multinomial upper bound on the number of schedules.
func interleavings(scripts [][]Step) *big.Int {
	total := 0
	res := big.NewInt(1)
	for _, sc := range scripts {
		n := 0
		for _, s := range sc {
			n += opCost[s.Op]
		}
		for i := 1; i <= n; i++ {
			total++
			res.Mul(res, big.NewInt(int64(total)))
			res.Div(res, big.NewInt(int64(i)))
		}
	}
	return res
}

func totalOps(scripts [][]Step) int {
	n := 0
	for _, sc := range scripts {
		for _, s := range sc {
			n += opCost[s.Op]
		}
	}
	return n
}

type genModel struct {
	nprov    int
	nextFile []int
	held     [][]int // optimistic: files each provider holds
	slots    []slotKey
	open     map[slotKey]bool
}

func (m *genModel) fresh(p int) int {
	m.nextFile[p]++
	return m.nextFile[p]
}

func (m *genModel) holdersList() []slotKey {
	var r []slotKey
	for p, fs := range m.held {
		for _, f := range fs {
			r = append(r, slotKey{p, f})
		}
	}
	return r
}

func (m *genModel) unhold(p, f int) {
	fs := m.held[p][:0]
	for _, x := range m.held[p] {
		if x != f {
			fs = append(fs, x)
		}
	}
	m.held[p] = fs
}

func (m *genModel) addSlot(k slotKey) {
	for _, s := range m.slots {
		if s == k {
			return
		}
	}
	m.slots = append(m.slots, k)
}

// genStep draws one step for provider p given the model; weights favour the
// steps the property is about (attach and remove).
func (m *genModel) genStep(t *rapid.T, p int, setup bool) (Step, bool) {
	type cand struct {
		op string
		w  int
	}
	var cs []cand
	if len(m.held[p]) > 0 {
		cs = append(cs, cand{"remove", 6}, cand{"export", 3}, cand{"read", 1}, cand{"ckpt", 2})
	}
	if len(m.slots) > 0 {
		cs = append(cs, cand{"attach", 7})
	}
	for k := range m.open {
		if k.prov == p {
			cs = append(cs, cand{"closeh", 3})
			break
		}
	}
	cs = append(cs, cand{"reopen", 1}, cand{"create", 1})
	if setup {
		// setup favours spreading references
		for i := range cs {
			if cs[i].op == "remove" {
				cs[i].w = 2
			}
			if cs[i].op == "read" {
				cs[i].w = 0
			}
		}
	}
	tot := 0
	for _, c := range cs {
		tot += c.w
	}
	x := rapid.IntRange(0, tot-1).Draw(t, "stepkind")
	op := ""
	for _, c := range cs {
		if x < c.w {
			op = c.op
			break
		}
		x -= c.w
	}
	switch op {
	case "remove":
		f := rapid.SampledFrom(m.held[p]).Draw(t, "file")
		m.unhold(p, f)
		return Step{Op: op, File: f}, true
	case "export":
		f := rapid.SampledFrom(m.held[p]).Draw(t, "file")
		k := slotKey{p, f}
		m.addSlot(k)
		m.open[k] = true
		return Step{Op: op, File: f}, true
	case "read", "ckpt":
		return Step{Op: op, File: rapid.SampledFrom(m.held[p]).Draw(t, "file")}, true
	case "closeh":
		var ks []int
		for k := range m.open {
			if k.prov == p {
				ks = append(ks, k.file)
			}
		}
		sort.Ints(ks)
		f := rapid.SampledFrom(ks).Draw(t, "file")
		delete(m.open, slotKey{p, f})
		return Step{Op: op, File: f}, true
	case "attach":
		k := rapid.SampledFrom(m.slots).Draw(t, "slot")
		f := m.fresh(p)
		m.held[p] = append(m.held[p], f)
		return Step{Op: op, File: f, Src: k.prov, SrcFile: k.file}, true
	case "reopen":
		for k := range m.open {
			if k.prov == p {
				delete(m.open, k)
			}
		}
		return Step{Op: op}, true
	case "create":
		f := m.fresh(p)
		m.held[p] = append(m.held[p], f)
		return Step{Op: op, File: f}, true
	}
	return Step{}, false
}

// dfsCap is the per-plan cap on DFS executions (a plan that hits it is
// labelled dfs-truncated and is not claimed exhaustive).
func dfsCap() int {
	if evid.GetEnv().Tier == "thorough" {
		return 5 * defaultMaxExec
	}
	return defaultMaxExec
}

func gen(t *rapid.T) Plan {
	if rapid.IntRange(0, 3).Draw(t, "useCanon") == 0 {
		cs := canonical()
		p := cs[rapid.IntRange(0, len(cs)-1).Draw(t, "canon")]
		p.Mode = "dfs"
		p.MaxExec = dfsCap()
		return p
	}
	n := rapid.IntRange(2, 3).Draw(t, "nprov")
	m := &genModel{nprov: n, nextFile: make([]int, n), held: make([][]int, n), open: map[slotKey]bool{}}
	var p Plan
	p.NProv = n
	// File numbers are per provider, strictly increasing (never reused), with
	// different starting points so that a provider's local number for an object
	// usually differs from the creator's and from other providers'.
	for i := range m.nextFile {
		m.nextFile[i] = rapid.SampledFrom([]int{0, 0, 1, 2, 5, 11}).Draw(t, "fileBase")
	}
	// setup: a creator creates the object and publishes its backing; then a few
	// steps that spread (or drop) references.
	creator := rapid.IntRange(0, n-1).Draw(t, "creator")
	f := m.fresh(creator)
	m.held[creator] = append(m.held[creator], f)
	p.Setup = append(p.Setup, PStep{Prov: creator, Step: Step{Op: "create", File: f}})
	p.Setup = append(p.Setup, PStep{Prov: creator, Step: Step{Op: "export", File: f}})
	m.addSlot(slotKey{creator, f})
	m.open[slotKey{creator, f}] = true
	if rapid.IntRange(0, 9).Draw(t, "closeFirst") < 8 {
		p.Setup = append(p.Setup, PStep{Prov: creator, Step: Step{Op: "closeh", File: f}})
		delete(m.open, slotKey{creator, f})
	}
	nsetup := rapid.IntRange(0, 5).Draw(t, "nsetup")
	for i := 0; i < nsetup; i++ {
		prov := rapid.IntRange(0, n-1).Draw(t, "sprov")
		if s, ok := m.genStep(t, prov, true); ok {
			p.Setup = append(p.Setup, PStep{Prov: prov, Step: s})
		}
	}
	// concurrent scripts: script_i = pre_i + core_i + post_i. With probability
	// 0.7 the core is the race the property is about: the exporter X of a
	// published backing removes its file while another provider attaches with
	// that backing; a third provider optionally joins.
	p.Scripts = make([][]Step, n)
	core := make([][]Step, n)
	var coreKey *slotKey
	if rapid.IntRange(0, 9).Draw(t, "core") < 7 {
		var cands []slotKey
		for _, k := range m.slots {
			for _, f := range m.held[k.prov] {
				if f == k.file {
					cands = append(cands, k)
				}
			}
		}
		if len(cands) > 0 {
			k := rapid.SampledFrom(cands).Draw(t, "coreSlot")
			coreKey = &k
		}
	}
	drawRound := func(label string, lens []int) {
		for round := 0; round < 2; round++ {
			for i := 0; i < n; i++ {
				if round < lens[i] {
					if s, ok := m.genStep(t, i, false); ok {
						p.Scripts[i] = append(p.Scripts[i], s)
					}
				}
			}
		}
	}
	lensOf := func(label string, choices []int) []int {
		lens := make([]int, n)
		for i := range lens {
			lens[i] = rapid.SampledFrom(choices).Draw(t, label)
		}
		return lens
	}
	// 1 plan in 8 gets long scripts (usually beyond the DFS bound: sampled).
	long := rapid.IntRange(0, 7).Draw(t, "long") == 0
	pick := func(normal, big []int) []int {
		if long {
			return big
		}
		return normal
	}
	if coreKey == nil {
		drawRound("steps", lensOf("len", pick([]int{0, 1, 1, 2, 2}, []int{2, 2})))
		drawRound("steps2", lensOf("len2", pick([]int{0, 0, 1}, []int{1, 2})))
	} else {
		drawRound("pre", lensOf("prelen", pick([]int{0, 0, 0, 1}, []int{1, 2})))
		x := coreKey.prov
		stillHeld := false
		for _, f := range m.held[x] {
			stillHeld = stillHeld || f == coreKey.file
		}
		if stillHeld {
			if m.open[*coreKey] && rapid.IntRange(0, 9).Draw(t, "coreClose") < 8 {
				core[x] = append(core[x], Step{Op: "closeh", File: coreKey.file})
				delete(m.open, *coreKey)
			}
			core[x] = append(core[x], Step{Op: "remove", File: coreKey.file})
			m.unhold(x, coreKey.file)
		}
		others := make([]int, 0, n)
		for i := 0; i < n; i++ {
			if i != x {
				others = append(others, i)
			}
		}
		y := rapid.SampledFrom(others).Draw(t, "coreAttacher")
		f := m.fresh(y)
		core[y] = append(core[y], Step{Op: "attach", File: f, Src: coreKey.prov, SrcFile: coreKey.file})
		m.held[y] = append(m.held[y], f)
		if rapid.IntRange(0, 3).Draw(t, "attachThenRemove") == 0 {
			core[y] = append(core[y], Step{Op: "remove", File: f})
			m.unhold(y, f)
		}
		if n == 3 {
			z := others[0] + others[1] - y
			switch rapid.IntRange(0, 3).Draw(t, "third") {
			case 0: // a second attacher using the same backing
				f := m.fresh(z)
				core[z] = append(core[z], Step{Op: "attach", File: f, Src: coreKey.prov, SrcFile: coreKey.file})
				m.held[z] = append(m.held[z], f)
			case 1: // another holder drops its reference concurrently
				if len(m.held[z]) > 0 {
					f := rapid.SampledFrom(m.held[z]).Draw(t, "zfile")
					if m.open[slotKey{z, f}] {
						core[z] = append(core[z], Step{Op: "closeh", File: f})
						delete(m.open, slotKey{z, f})
					}
					core[z] = append(core[z], Step{Op: "remove", File: f})
					m.unhold(z, f)
				}
			case 2:
				if s, ok := m.genStep(t, z, false); ok {
					core[z] = append(core[z], s)
				}
			}
		}
		for i := range core {
			p.Scripts[i] = append(p.Scripts[i], core[i]...)
		}
		drawRound("post", lensOf("postlen", pick([]int{0, 0, 0, 1, 1}, []int{1, 2, 2})))
	}
	bound := interleavings(p.Scripts)
	if bound.Cmp(big.NewInt(1000000000)) <= 0 {
		p.Mode = "dfs"
		p.MaxExec = dfsCap()
	} else {
		p.Mode = "sample"
		ns := rapid.IntRange(1, 6).Draw(t, "nscheds")
		tot := totalOps(p.Scripts)
		for i := 0; i < ns; i++ {
			// 0..5: uniform modulo 2 and modulo 3
			p.Scheds = append(p.Scheds, rapid.SliceOfN(rapid.IntRange(0, 5), tot, tot).Draw(t, "sched"))
		}
	}
	if rapid.IntRange(0, 3).Draw(t, "failref") == 0 {
		p.FailRefPut = rapid.IntRange(1, 4).Draw(t, "failrefn")
	}
	return p
}

func samplePlan(p Plan) any {
	var sb strings.Builder
	for _, s := range p.Setup {
		fmt.Fprintf(&sb, "p%d:%s(%d", s.Prov, s.Op, s.File)
		if s.Op == "attach" {
			fmt.Fprintf(&sb, "<-p%d/%d", s.Src, s.SrcFile)
		}
		sb.WriteString(") ")
	}
	scripts := make([]string, len(p.Scripts))
	for i, sc := range p.Scripts {
		var b strings.Builder
		for _, s := range sc {
			fmt.Fprintf(&b, "%s(%d", s.Op, s.File)
			if s.Op == "attach" {
				fmt.Fprintf(&b, "<-p%d/%d", s.Src, s.SrcFile)
			}
			b.WriteString(") ")
		}
		scripts[i] = strings.TrimSpace(b.String())
	}
	return map[string]any{"nprov": p.NProv, "mode": p.Mode, "canon": p.Canon, "setup": strings.TrimSpace(sb.String()),
		"scripts": scripts, "nscheds": len(p.Scheds)}
}

func TestC41(t *testing.T) {
	// Exactly one goroutine is runnable at any time (scheduler or one provider);
	// a single P makes the channel hand-offs cheap. No verdict depends on it.
	defer runtime.GOMAXPROCS(runtime.GOMAXPROCS(1))
	// Every execution opens 2-3 providers whose catalog writers allocate large
	// buffers; collect less often (the live heap is tiny).
	defer debug.SetGCPercent(debug.SetGCPercent(2000))
	evid.Run(t, evid.Spec[Plan]{
		ID: "C41", Level: "exploration",
		Rule: "plan = sequential setup + one script per provider (2-3 providers over one in-memory remote store, steps " +
			"create/export/closeh/attach/remove/read/reopen) + schedule: either mode=dfs (ALL interleavings of the gated storage " +
			"operations, depth-first, identical global states expanded once) or mode=sample (1-6 drawn schedules); 1/4 of the plans " +
			"are hand-written canonical races. non-trivial = in at least one executed schedule an attach overlapped in time " +
			"(storage-operation intervals interleave) with the Remove of the origin file whose backing it used and that Remove " +
			"really unref'd (issued storage ops); distinct = hash of plan JSON",
		Assumptions: []string{
			"remote.NewInMem() is linearizable per operation; an object becomes visible at writer Close (the gated instant)",
			"each provider is driven by one goroutine (no intra-provider concurrency); provider-local computation between two storage operations is atomic w.r.t. other providers (they share nothing but the store)",
			"file numbers are never reused by a provider (pebble never reuses DiskFileNums); with reuse of an attach file number a stale backing can be satisfied by an unrelated transient marker",
			"no storage faults are injected; SharedRefTracking cleanup only",
			"Remove is considered started at the release of its first storage operation (latest instant compatible with the observed order), attach/create success at return",
		},
		Gen: gen, Exec: exec, Quick: 300, Thorough: 6000,
		Sample:        samplePlan,
		ExtraCoverage: extraCoverage,
	})
}

// TestPruneEquivalence is a harness self-test (not a property check): for the
// canonical scenarios, DFS with and without visited-state pruning reaches the
// same set of final outcomes.
func TestPruneEquivalence(t *testing.T) {
	for _, p := range canonical() {
		p.Mode = "dfs"
		p.MaxExec = 400000
		a, err := runDFS(&p)
		if err != nil {
			t.Fatalf("%s: %v", p.Canon, err)
		}
		q := p
		q.NoPrune = true
		b, err := runDFS(&q)
		if err != nil {
			t.Fatalf("%s: %v", p.Canon, err)
		}
		t.Logf("%-32s pruned: execs=%d states=%d exhausted=%v outcomes=%d | full: execs=%d exhausted=%v outcomes=%d",
			p.Canon, a.execs, a.states, a.exhausted, len(a.outcomes), b.execs, b.exhausted, len(b.outcomes))
		if !a.exhausted || !b.exhausted {
			continue
		}
		if len(a.outcomes) != len(b.outcomes) {
			t.Errorf("%s: outcome sets differ: %d vs %d", p.Canon, len(a.outcomes), len(b.outcomes))
		}
		for o := range b.outcomes {
			if !a.outcomes[o] {
				t.Errorf("%s: outcome %x reached only without pruning", p.Canon, o)
			}
		}
	}
}

// TestFileNumReuseObservation documents (does not assert) what happens outside
// the harness' precondition "file numbers are never reused": a stale backing
// can then be satisfied by the transient marker of an unrelated failing attach.
func TestFileNumReuseObservation(t *testing.T) {
	p := Plan{NProv: 3, Mode: "dfs", MaxExec: 100000, AllowFileReuse: true,
		Setup: []PStep{ps(0, "create", 1), ps(0, "export", 1), ps(0, "closeh", 1), ps(1, "attach", 1, 0, 1),
			ps(1, "export", 1), ps(1, "closeh", 1), ps(1, "remove", 1)},
		Scripts: [][]Step{{st("remove", 1)}, {st("attach", 1, 0, 1)}, {st("attach", 1, 1, 1)}}}
	agg, err := runDFS(&p)
	t.Logf("execs=%d exhausted=%v", agg.execs, agg.exhausted)
	if err != nil {
		t.Logf("with file-number reuse the monitor fires (outside the contract, informational):\n%v", err)
	} else {
		t.Logf("no violation even with file-number reuse")
	}
}
