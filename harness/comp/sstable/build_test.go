package sstcheck

import (
	"context"
	"fmt"
	"sync/atomic"

	"github.com/cockroachdb/pebble/internal/base"
	"github.com/cockroachdb/pebble/internal/cache"
	"github.com/cockroachdb/pebble/internal/keyspan"
	"github.com/cockroachdb/pebble/internal/sstableinternal"
	"github.com/cockroachdb/pebble/internal/testkeys"
	"github.com/cockroachdb/pebble/objstorage"
	"github.com/cockroachdb/pebble/sstable"
	"github.com/cockroachdb/pebble/sstable/block"
	"github.com/cockroachdb/pebble/sstable/colblk"
	"github.com/cockroachdb/pebble/sstable/tablefilters"
	"github.com/cockroachdb/pebble/sstable/tablefilters/binaryfuse"
	"github.com/cockroachdb/pebble/sstable/tablefilters/bloom"
)

func tableFormat(v int) sstable.TableFormat {
	return sstable.TableFormatPebblev1 + sstable.TableFormat(v-1)
}

var compressionByName = map[string]*block.CompressionProfile{
	"none":     block.NoCompression,
	"snappy":   block.SnappyCompression,
	"zstd":     block.ZstdCompression,
	"minlz":    block.MinLZCompression,
	"fastest":  block.FastestCompression,
	"fast":     block.FastCompression,
	"balanced": block.BalancedCompression,
	"good":     block.GoodCompression,
}

var compressionNames = []string{"none", "snappy", "zstd", "minlz", "fastest", "fast", "balanced", "good"}

func filterPolicy(o TableOpts) base.TableFilterPolicy {
	switch o.Filter {
	case "bloom":
		return bloom.FilterPolicy(uint32(o.FilterBits))
	case "adaptive":
		return bloom.AdaptivePolicy(uint32(o.FilterBits), o.FilterMax)
	case "fuse":
		return binaryfuse.FilterPolicy(o.FilterBits)
	}
	return nil
}

var schemas = func() map[int]*colblk.KeySchema {
	m := map[int]*colblk.KeySchema{}
	for _, b := range []int{1, 2, 4, 16, 64} {
		s := colblk.DefaultKeySchema(testkeys.Comparer, b)
		m[b] = &s
	}
	return m
}()

func shortAttr(key []byte, keyPrefixLen int, value []byte) (base.ShortAttribute, error) {
	return base.ShortAttribute(len(value) & 7), nil
}

func writerOptions(o TableOpts) sstable.WriterOptions {
	wo := sstable.WriterOptions{
		Comparer:             testkeys.Comparer,
		TableFormat:          tableFormat(o.Format),
		BlockSize:            o.BlockSize,
		IndexBlockSize:       o.IndexBlockSize,
		BlockRestartInterval: o.Restart,
		BlockSizeThreshold:   o.Threshold,
		Compression:          compressionByName[o.Compression],
		FilterPolicy:         filterPolicy(o),
		DisableValueBlocks:   o.NoValueBlocks,
		KeySchema:            schemas[o.Bundle],
		WritingToLowestLevel: o.LowestLevel,
		IsStrictObsolete:     o.StrictObsolete,
	}
	if o.XXHash {
		wo.Checksum = block.ChecksumTypeXXHash64
	}
	if o.Collector {
		wo.BlockPropertyCollectors = []func() sstable.BlockPropertyCollector{sstable.NewTestKeysBlockPropertyCollector}
	}
	if o.ShortAttr {
		wo.ShortAttributeExtractor = shortAttr
	}
	return wo
}

func toKeyspan(s Span, rangeDel bool) keyspan.Span {
	ks := keyspan.Span{Start: s.Start.B(), End: s.End.B()}
	for _, k := range s.Keys {
		kk := keyspan.Key{Trailer: base.MakeTrailer(base.SeqNum(k.Seq), base.InternalKeyKind(k.Kind))}
		switch base.InternalKeyKind(k.Kind) {
		case base.InternalKeyKindRangeKeySet:
			kk.Suffix = sufB(k.Suf)
			kk.Value = valueBytes(k.VLen, k.VSeed)
		case base.InternalKeyKindRangeKeyUnset:
			kk.Suffix = sufB(k.Suf)
		}
		ks.Keys = append(ks.Keys, kk)
	}
	return ks
}

// writeTable writes t through sstable.NewRawWriter into a MemObj.
func writeTable(t *Table) (*objstorage.MemObj, *sstable.WriterMetadata, error) {
	obj := &objstorage.MemObj{}
	w := sstable.NewRawWriter(obj, writerOptions(t.Opts))
	closed := false
	defer func() {
		if !closed {
			_ = w.Close()
		}
	}()
	addSpans := func(from []Span, rangeDel bool, lo, hi int) error {
		for i := lo; i < hi; i++ {
			if err := w.EncodeSpan(toKeyspan(from[i], rangeDel)); err != nil {
				return fmt.Errorf("EncodeSpan(%v): %w", from[i], err)
			}
		}
		return nil
	}
	addPoint := func(p Point) error {
		ik := base.MakeInternalKey(p.K.B(), base.SeqNum(p.Seq), base.InternalKeyKind(p.Kind))
		if err := w.Add(ik, pointValue(p), p.Force, base.KVMeta{}); err != nil {
			return fmt.Errorf("Add(%s): %w", ik, err)
		}
		return nil
	}
	switch t.Opts.SpansFirst {
	case 0:
		if err := addSpans(t.RangeDels, true, 0, len(t.RangeDels)); err != nil {
			return nil, nil, err
		}
		if err := addSpans(t.RangeKeys, false, 0, len(t.RangeKeys)); err != nil {
			return nil, nil, err
		}
		for _, p := range t.Points {
			if err := addPoint(p); err != nil {
				return nil, nil, err
			}
		}
	case 1:
		for _, p := range t.Points {
			if err := addPoint(p); err != nil {
				return nil, nil, err
			}
		}
		if err := addSpans(t.RangeKeys, false, 0, len(t.RangeKeys)); err != nil {
			return nil, nil, err
		}
		if err := addSpans(t.RangeDels, true, 0, len(t.RangeDels)); err != nil {
			return nil, nil, err
		}
	default:
		// Interleave: before each point, emit the spans whose start key is <= the
		// point's user key (as a compaction would).
		di, ki := 0, 0
		for _, p := range t.Points {
			for di < len(t.RangeDels) && cmpK(t.RangeDels[di].Start, p.K) <= 0 {
				if err := addSpans(t.RangeDels, true, di, di+1); err != nil {
					return nil, nil, err
				}
				di++
			}
			for ki < len(t.RangeKeys) && cmpK(t.RangeKeys[ki].Start, p.K) <= 0 {
				if err := addSpans(t.RangeKeys, false, ki, ki+1); err != nil {
					return nil, nil, err
				}
				ki++
			}
			if err := addPoint(p); err != nil {
				return nil, nil, err
			}
		}
		if err := addSpans(t.RangeDels, true, di, len(t.RangeDels)); err != nil {
			return nil, nil, err
		}
		if err := addSpans(t.RangeKeys, false, ki, len(t.RangeKeys)); err != nil {
			return nil, nil, err
		}
	}
	closed = true
	if err := w.Close(); err != nil {
		return nil, nil, fmt.Errorf("writer Close: %w", err)
	}
	meta, err := w.Metadata()
	if err != nil {
		return nil, nil, fmt.Errorf("writer Metadata: %w", err)
	}
	return obj, meta, nil
}

var nextFileNum atomic.Uint64

// env bundles a reader with its (optional) private block cache.
type readerEnv struct {
	r      *sstable.Reader
	cache  *cache.Cache
	handle *cache.Handle
}

func (e *readerEnv) Close() error {
	var err error
	if e.r != nil {
		err = e.r.Close()
	}
	if e.handle != nil {
		e.handle.Close()
	}
	if e.cache != nil {
		e.cache.Unref()
	}
	return err
}

func readerOptions(o TableOpts, e *readerEnv) sstable.ReaderOptions {
	ro := sstable.ReaderOptions{
		Comparer:       testkeys.Comparer,
		FilterDecoders: tablefilters.Decoders,
		KeySchemas:     sstable.KeySchemas{},
	}
	for _, s := range schemas {
		ro.KeySchemas[s.Name] = s
	}
	if o.UseCache {
		size := o.CacheSize
		if size <= 0 {
			size = 8 << 10
		}
		e.cache = cache.NewWithShards(int64(size), 1)
		e.handle = e.cache.NewHandle()
		ro.ReaderOptions = block.ReaderOptions{CacheOpts: sstableinternal.CacheOptions{
			CacheHandle: e.handle,
			FileNum:     base.DiskFileNum(nextFileNum.Add(1)),
		}}
	}
	return ro
}

// openReader opens a reader over the bytes of obj (a MemObj is a Readable).
func openReader(obj objstorage.Readable, o TableOpts) (*readerEnv, error) {
	e := &readerEnv{}
	ro := readerOptions(o, e)
	r, err := sstable.NewReader(context.Background(), obj, ro)
	if err != nil {
		_ = e.Close()
		return nil, fmt.Errorf("NewReader: %w", err)
	}
	e.r = r
	return e, nil
}
