package sstcheck

import (
	"bytes"
	"context"
	"fmt"
	"sort"
	"testing"

	"github.com/cockroachdb/pebble/internal/base"
	"github.com/cockroachdb/pebble/sstable"
	"github.com/cockroachdb/pebble/sstable/block"
	"github.com/cockroachdb/pebble/sstable/block/blockkind"
	"github.com/cockroachdb/pebble/verifharness/evid"
	"pgregory.net/rapid"
)

// PlanC25 is one table plus the reads performed on it.
type PlanC25 struct {
	T      Table      `json:"table"`
	Iters  []IterPlan `json:"iters"`
	DelOps []FragOp   `json:"del_ops,omitempty"`
	KeyOps []FragOp   `json:"key_ops,omitempty"`
}

func genC25(t *rapid.T) PlanC25 {
	tb, prefixes, keys := genTable(t, tableCons{})
	return PlanC25{
		T:      tb,
		Iters:  genIterPlans(t, keys, prefixes, 60),
		DelOps: genFragOps(t, "ndelops", keys, prefixes),
		KeyOps: genFragOps(t, "nkeyops", keys, prefixes),
	}
}

// tableShape is what was measured on the written table.
type tableShape struct {
	dataBlocks  int
	twoLevel    bool
	valueBlocks int
	// blockFirst / blockLast: physical entry indexes starting / ending a data block.
	blockFirst []int
	blockLast  []int
}

// measureShape scans the table once with block-read statistics enabled and
// records at which entries a new data block was loaded. This only classifies
// the case (non-triviality, boundary-directed seek keys); it does not produce
// expected values. The scan itself is compared with the model.
func measureShape(r *sstable.Reader, meta *sstable.WriterMetadata, es []ent) (tableShape, error) {
	sh := tableShape{
		dataBlocks:  int(meta.Properties.NumDataBlocks),
		twoLevel:    r.Attributes.Has(sstable.AttributeTwoLevelIndex),
		valueBlocks: int(meta.Properties.NumValueBlocks),
	}
	var stats base.InternalIteratorStats
	it, err := r.NewPointIter(context.Background(), sstable.IterOptions{
		FilterBlockSizeLimit: sstable.NeverUseFilterBlock,
		Env:                  sstable.ReadEnv{Block: block.ReadEnv{Stats: &stats}},
		ReaderProvider:       sstable.MakeTrivialReaderProvider(r),
		BlobContext:          sstable.AssertNoBlobHandles,
	})
	if err != nil {
		return sh, fmt.Errorf("NewPointIter: %w", err)
	}
	defer it.Close()
	i := 0
	var loaded uint64
	for kv := it.First(); ; kv = it.Next() {
		var e *ent
		if i < len(es) {
			e = &es[i]
		}
		if err := checkKV(kv, e); err != nil {
			return sh, fmt.Errorf("full forward scan, entry %d: %v", i, err)
		}
		if kv == nil {
			break
		}
		if c := stats.BlockReads[blockkind.SSTableData].Count; c != loaded {
			loaded = c
			sh.blockFirst = append(sh.blockFirst, i)
			if i > 0 {
				sh.blockLast = append(sh.blockLast, i-1)
			}
		}
		i++
	}
	if err := it.Error(); err != nil {
		return sh, fmt.Errorf("full forward scan: %w", err)
	}
	if len(es) > 0 {
		sh.blockLast = append(sh.blockLast, len(es)-1)
	}
	return sh, nil
}

// resolver builds the KeyRef resolution function for a list of (logical)
// entries and measured block boundaries (indexes into es).
func resolver(es []ent, first, last []int) func(KeyRef) K {
	return func(kr KeyRef) K {
		k := kr.K
		switch kr.Mode {
		case 1:
			if len(first) > 0 {
				k = es[first[kr.Idx%len(first)]].k
			}
		case 2:
			if len(last) > 0 {
				k = es[last[kr.Idx%len(last)]].k
			}
		}
		if k.P == "" {
			k.P = "a"
		}
		return resolveAdj(k, kr.Adj)
	}
}

func boundarySet(first, last []int) map[int]bool {
	m := map[int]bool{}
	for _, i := range first {
		m[i] = true
	}
	for _, i := range last {
		m[i] = true
	}
	return m
}

// checkMetadata compares WriterMetadata with the input (bounds, seqnums,
// property counts).
func checkMetadata(t *Table, es []ent, meta *sstable.WriterMetadata) error {
	p := meta.Properties
	var nDel, nSized, nMerge uint64
	lo, hi := ^uint64(0), uint64(0)
	seen := false
	upd := func(s uint64) {
		seen = true
		lo, hi = min(lo, s), max(hi, s)
	}
	for _, e := range es {
		upd(e.seq)
		switch e.kind {
		case base.InternalKeyKindDelete, base.InternalKeyKindSingleDelete:
			nDel++
		case base.InternalKeyKindDeleteSized:
			nDel++
			nSized++
		case base.InternalKeyKindMerge:
			nMerge++
		}
	}
	// Range key counts: the row writer counts one per encoded internal key
	// (all suffix-values of one seqnum and kind are grouped into one), the
	// columnar writer one per logical key; the contract does not say which, so
	// both are accepted: groups <= count <= keys.
	var nRangeDel, nSet, nUnset, nRKDel uint64
	var gSet, gUnset uint64
	for _, s := range t.RangeDels {
		for _, k := range s.Keys {
			upd(k.Seq)
			nRangeDel++
		}
	}
	for _, s := range t.RangeKeys {
		for i, k := range s.Keys {
			upd(k.Seq)
			newGroup := i == 0 || s.Keys[i-1].Seq != k.Seq || s.Keys[i-1].Kind != k.Kind
			switch base.InternalKeyKind(k.Kind) {
			case base.InternalKeyKindRangeKeySet:
				nSet++
				if newGroup {
					gSet++
				}
			case base.InternalKeyKindRangeKeyUnset:
				nUnset++
				if newGroup {
					gUnset++
				}
			default:
				nRKDel++
			}
		}
	}
	type chk struct {
		name      string
		got, want uint64
	}
	for _, c := range []chk{
		{"NumEntries", p.NumEntries, uint64(len(es)) + nRangeDel},
		{"NumDeletions", p.NumDeletions, nDel + nRangeDel},
		{"NumSizedDeletions", p.NumSizedDeletions, nSized},
		{"NumMergeOperands", p.NumMergeOperands, nMerge},
		{"NumRangeDeletions", p.NumRangeDeletions, nRangeDel},
		{"NumRangeKeyDels", p.NumRangeKeyDels, nRKDel},
	} {
		if c.got != c.want {
			return fmt.Errorf("WriterMetadata.Properties.%s = %d, want %d", c.name, c.got, c.want)
		}
	}
	if p.NumRangeKeySets < gSet || p.NumRangeKeySets > nSet || p.NumRangeKeyUnsets < gUnset || p.NumRangeKeyUnsets > nUnset {
		return fmt.Errorf("WriterMetadata.Properties NumRangeKeySets/Unsets = %d/%d, want within [%d,%d]/[%d,%d]",
			p.NumRangeKeySets, p.NumRangeKeyUnsets, gSet, nSet, gUnset, nUnset)
	}
	if meta.HasPointKeys != (len(es) > 0) || meta.HasRangeDelKeys != (nRangeDel > 0) || meta.HasRangeKeys != (nSet+nUnset+nRKDel > 0) {
		return fmt.Errorf("WriterMetadata Has* flags = %t/%t/%t, want %t/%t/%t", meta.HasPointKeys, meta.HasRangeDelKeys, meta.HasRangeKeys,
			len(es) > 0, nRangeDel > 0, nSet+nUnset+nRKDel > 0)
	}
	sameIK := func(k base.InternalKey, e ent) bool {
		return bytes.Equal(k.UserKey, e.kb) && uint64(k.SeqNum()) == e.seq && k.Kind() == e.kind
	}
	if len(es) > 0 {
		if !sameIK(meta.SmallestPoint, es[0]) {
			return fmt.Errorf("SmallestPoint = %s, want %s", meta.SmallestPoint, es[0])
		}
		if !sameIK(meta.LargestPoint, es[len(es)-1]) {
			return fmt.Errorf("LargestPoint = %s, want %s", meta.LargestPoint, es[len(es)-1])
		}
	}
	if n := len(t.RangeDels); n > 0 {
		f, l := t.RangeDels[0], t.RangeDels[n-1]
		if !bytes.Equal(meta.SmallestRangeDel.UserKey, f.Start.B()) || uint64(meta.SmallestRangeDel.SeqNum()) != f.Keys[0].Seq ||
			meta.SmallestRangeDel.Kind() != base.InternalKeyKindRangeDelete {
			return fmt.Errorf("SmallestRangeDel = %s, want %s#%d,RANGEDEL", meta.SmallestRangeDel, f.Start, f.Keys[0].Seq)
		}
		if !bytes.Equal(meta.LargestRangeDel.UserKey, l.End.B()) || !meta.LargestRangeDel.IsExclusiveSentinel() {
			return fmt.Errorf("LargestRangeDel = %s, want exclusive sentinel at %s", meta.LargestRangeDel, l.End)
		}
	}
	if n := len(t.RangeKeys); n > 0 {
		f, l := t.RangeKeys[0], t.RangeKeys[n-1]
		if !bytes.Equal(meta.SmallestRangeKey.UserKey, f.Start.B()) {
			return fmt.Errorf("SmallestRangeKey = %s, want user key %s", meta.SmallestRangeKey, f.Start)
		}
		if !bytes.Equal(meta.LargestRangeKey.UserKey, l.End.B()) || !meta.LargestRangeKey.IsExclusiveSentinel() {
			return fmt.Errorf("LargestRangeKey = %s, want exclusive sentinel at %s", meta.LargestRangeKey, l.End)
		}
	}
	if seen && (uint64(meta.SeqNums.Low) != lo || uint64(meta.SeqNums.High) != hi) {
		return fmt.Errorf("SeqNums = [%d,%d], want [%d,%d]", meta.SeqNums.Low, meta.SeqNums.High, lo, hi)
	}
	return nil
}

// distinctPrefixes returns the prefixes present in es with the index of the
// first entry of each.
func distinctPrefixes(es []ent) (ps []string, firstIdx []int) {
	for i, e := range es {
		if i == 0 || es[i-1].k.P != e.k.P {
			ps = append(ps, e.k.P)
			firstIdx = append(firstIdx, i)
		}
	}
	return ps, firstIdx
}

// checkPrefixSeeks is the end-to-end filter assertion (part of C26): with the
// table filter enabled, SeekPrefixGE on every prefix that exists in the table
// must find the first key with that prefix, seeking both to the bare prefix and
// to the first existing key.
func checkPrefixSeeks(newIter func() (sstable.Iterator, error), es []ent) (int, error) {
	ps, first := distinctPrefixes(es)
	if len(ps) == 0 {
		return 0, nil
	}
	it, err := newIter()
	if err != nil {
		return 0, err
	}
	defer it.Close()
	n := 0
	for i, p := range ps {
		e := &es[first[i]]
		for _, seek := range [][]byte{[]byte(p), e.kb} {
			kv := it.SeekPrefixGE([]byte(p), seek, base.SeekGEFlagsNone)
			n++
			if err := checkKV(kv, e); err != nil {
				return n, fmt.Errorf("filter end-to-end: SeekPrefixGE(prefix=%q,key=%q) on an existing prefix: %v (iter error: %v)", p, seek, err, it.Error())
			}
		}
	}
	// Same in reverse order of prefixes, on a second iterator, so that the
	// seeks are not monotonic.
	it2, err := newIter()
	if err != nil {
		return n, err
	}
	defer it2.Close()
	for i := len(ps) - 1; i >= 0; i-- {
		e := &es[first[i]]
		kv := it2.SeekPrefixGE([]byte(ps[i]), []byte(ps[i]), base.SeekGEFlagsNone)
		n++
		if err := checkKV(kv, e); err != nil {
			return n, fmt.Errorf("filter end-to-end (descending): SeekPrefixGE(%q) on an existing prefix: %v (iter error: %v)", ps[i], err, it2.Error())
		}
	}
	return n, nil
}

func execC25(p PlanC25) (out evid.Outcome, err error) {
	t := &p.T
	es := modelEntries(t)
	if !entsSorted(es) {
		return out, nil // malformed hand-written plan; generator never produces it
	}
	out.Counters = map[string]int{}
	out.Labels = append(out.Labels,
		fmt.Sprintf("format=v%d", t.Opts.Format),
		"filter="+t.Opts.Filter,
		"compression="+t.Opts.Compression,
		fmt.Sprintf("block_size=%d", t.Opts.BlockSize))

	obj, meta, err := writeTable(t)
	if err != nil {
		return out, fmt.Errorf("writing a valid table failed: %w", err)
	}
	if err := checkMetadata(t, es, meta); err != nil {
		return out, err
	}
	env, err := openReader(obj, t.Opts)
	if err != nil {
		return out, err
	}
	defer func() {
		if cerr := env.Close(); cerr != nil && err == nil {
			err = fmt.Errorf("reader Close: %w", cerr)
		}
	}()
	r := env.r

	sh, err := measureShape(r, meta, es)
	if err != nil {
		return out, err
	}
	if len(sh.blockFirst) != sh.dataBlocks && len(es) > 0 {
		// The statistics-based boundary detection is only a classifier; record
		// disagreement but do not fail.
		out.Labels = append(out.Labels, "boundary-detection-mismatch")
	}
	switch {
	case sh.dataBlocks >= 2 && sh.twoLevel:
		out.Labels = append(out.Labels, "index=two-level")
	case sh.dataBlocks >= 2:
		out.Labels = append(out.Labels, "index=single,blocks>=2")
	default:
		out.Labels = append(out.Labels, "index=single,blocks<2")
	}
	if sh.valueBlocks > 0 {
		out.Labels = append(out.Labels, "value-blocks")
	}
	if len(t.RangeDels) > 0 {
		out.Labels = append(out.Labels, "has-rangedels")
	}
	if len(t.RangeKeys) > 0 {
		out.Labels = append(out.Labels, "has-rangekeys")
	}
	switch n := len(es); {
	case n == 0:
		out.Labels = append(out.Labels, "points=0")
	case n < 10:
		out.Labels = append(out.Labels, "points<10")
	case n < 100:
		out.Labels = append(out.Labels, "points<100")
	default:
		out.Labels = append(out.Labels, "points>=100")
	}

	// full backward scan
	{
		it, err := r.NewIter(sstable.NoTransforms, nil, nil, sstable.AssertNoBlobHandles)
		if err != nil {
			return out, fmt.Errorf("NewIter: %w", err)
		}
		i := len(es) - 1
		for kv := it.Last(); ; kv = it.Prev() {
			var e *ent
			if i >= 0 {
				e = &es[i]
			}
			if err := checkKV(kv, e); err != nil {
				it.Close()
				return out, fmt.Errorf("full backward scan, entry %d: %v", i, err)
			}
			if kv == nil {
				break
			}
			i--
		}
		if err := it.Close(); err != nil {
			return out, fmt.Errorf("backward scan Close: %w", err)
		}
	}

	// short attributes / separated values
	if t.Opts.ShortAttr && sh.valueBlocks > 0 {
		it, err := r.NewIter(sstable.NoTransforms, nil, nil, sstable.AssertNoBlobHandles)
		if err != nil {
			return out, fmt.Errorf("NewIter: %w", err)
		}
		i := 0
		for kv := it.First(); kv != nil; kv = it.Next() {
			if !kv.V.IsInPlaceValue() {
				lv := kv.V.LazyValue()
				if a, ok := lv.TryGetShortAttribute(); ok && int(a) != len(es[i].val)&7 {
					it.Close()
					return out, fmt.Errorf("short attribute of %s = %d, want %d", kv.K, a, len(es[i].val)&7)
				}
				out.Counters["separated_values"]++
			}
			i++
		}
		if err := it.Close(); err != nil {
			return out, fmt.Errorf("Close: %w", err)
		}
	}

	resolve := resolver(es, sh.blockFirst, sh.blockLast)
	bset := boundarySet(sh.blockFirst, sh.blockLast)
	seekOnBoundary := 0
	for ii, ip := range p.Iters {
		m := &iterModel{ents: es}
		var lo, hi *K
		if ip.Lo != nil {
			k := resolve(*ip.Lo)
			lo = &k
		}
		if ip.Hi != nil {
			k := resolve(*ip.Hi)
			hi = &k
		}
		m.lower, m.upper = normBounds(lo, hi)
		run := &iterRunner{m: m, resolve: resolve, boundary: bset}
		opts := sstable.IterOptions{
			FilterBlockSizeLimit: sstable.NeverUseFilterBlock,
			ReaderProvider:       sstable.MakeTrivialReaderProvider(r),
			BlobContext:          sstable.AssertNoBlobHandles,
		}
		if ip.UseFilter {
			opts.FilterBlockSizeLimit = sstable.AlwaysUseFilterBlock
		}
		if m.lower != nil {
			opts.Lower = run.keepB(*m.lower)
		}
		if m.upper != nil {
			opts.Upper = run.keepB(*m.upper)
		}
		it, err := r.NewPointIter(context.Background(), opts)
		if err != nil {
			return out, fmt.Errorf("NewPointIter: %w", err)
		}
		run.it = it
		run.logf("iter %d filter=%t", ii, ip.UseFilter)
		for _, op := range ip.Ops {
			if err := run.step(op); err != nil {
				it.Close()
				if sig, ok := excludedSig(err); ok {
					out.Excluded = sig
					return out, nil
				}
				return out, err
			}
		}
		if err := it.Close(); err != nil {
			return out, fmt.Errorf("iterator Close: %w", err)
		}
		seekOnBoundary += run.seekOnBoundary
		out.Counters["mono_fwd_setbounds_seeks"] += run.monoFwdSeeks
		out.Counters["mono_fwd_setbounds_seeks_from_overshot_position"] += run.overshootHit
		out.Counters["ops"] += run.nOps
		out.Counters["tsun_seeks"] += run.tsunUsed
		out.Counters["prefix_nil_alternatives"] += run.nilOKTaken
		for k, c := range run.opCount {
			out.Counters["op_"+opNames[k]] += c
		}
	}

	// range deletions and range keys
	ctx := context.Background()
	rdi, err := r.NewRawRangeDelIter(ctx, sstable.NoFragmentTransforms, sstable.NoReadEnv)
	if err != nil {
		return out, fmt.Errorf("NewRawRangeDelIter: %w", err)
	}
	n, err := runFragIter("rangedel iter", rdi, modelSpans(t.RangeDels), p.DelOps, resolve)
	if err != nil {
		return out, err
	}
	out.Counters["frag_ops"] += n
	rki, err := r.NewRawRangeKeyIter(ctx, sstable.NoFragmentTransforms, sstable.NoReadEnv)
	if err != nil {
		return out, fmt.Errorf("NewRawRangeKeyIter: %w", err)
	}
	n, err = runFragIter("rangekey iter", rki, modelSpans(t.RangeKeys), p.KeyOps, resolve)
	if err != nil {
		return out, err
	}
	out.Counters["frag_ops"] += n

	// end-to-end filter assertion
	if t.Opts.Filter != "" {
		n, err := checkPrefixSeeks(func() (sstable.Iterator, error) {
			return r.NewPointIter(ctx, sstable.IterOptions{
				FilterBlockSizeLimit: sstable.AlwaysUseFilterBlock,
				ReaderProvider:       sstable.MakeTrivialReaderProvider(r),
				BlobContext:          sstable.AssertNoBlobHandles,
			})
		}, es)
		out.Counters["filter_prefix_seeks"] += n
		if err != nil {
			return out, err
		}
		if meta.Properties.FilterSize > 0 {
			out.Labels = append(out.Labels, "filter-block-written")
		}
	}

	if err := r.ValidateBlockChecksums(); err != nil {
		return out, fmt.Errorf("ValidateBlockChecksums: %w", err)
	}

	if seekOnBoundary > 0 {
		out.Labels = append(out.Labels, "seek-on-block-boundary")
	}
	out.NonTrivial = ((sh.dataBlocks >= 2 && sh.twoLevel) || sh.valueBlocks > 0) && seekOnBoundary > 0
	return out, nil
}

func sampleC25(p PlanC25) any {
	nops := 0
	for _, ip := range p.Iters {
		nops += len(ip.Ops)
	}
	var first []string
	for i := 0; i < len(p.T.Points) && i < 4; i++ {
		first = append(first, fmt.Sprintf("%s#%d,%d", p.T.Points[i].K, p.T.Points[i].Seq, p.T.Points[i].Kind))
	}
	sort.Strings(first)
	return map[string]any{"opts": p.T.Opts, "points": len(p.T.Points), "rangedels": len(p.T.RangeDels), "rangekeys": len(p.T.RangeKeys),
		"iters": len(p.Iters), "ops": nops, "first_points": first}
}

func TestC25(t *testing.T) {
	evid.Run(t, evid.Spec[PlanC25]{
		ID: "C25", Level: "exploration",
		Rule: "rapid draws writer options (format v1-v8, block/index sizes, restart interval, compression, filter policy, value blocks, " +
			"key-schema bundle size, collectors, checksum) x sorted testkeys content (points of all kinds with versions, fragmented " +
			"RANGEDELs and range keys) x 1-3 bounded iterators with ~40 operations interpreted against the InternalIterator contract; " +
			"non-trivial = (>=2 data blocks and a two-level index, or value blocks present) and at least one seek whose result is the " +
			"first or last entry of a data block; distinct = hash of the plan JSON",
		Assumptions: []string{
			"keys are testkeys keys (prefix of letters, optional @integer suffix); the '_synthetic' suffix variant of the comparer is not generated",
			"block-property *filters* on reads (other than the obsolete-key filter in C29) are not generated",
			"NextPrefix is not issued while the iterator's upper bound is a suffixed key (pebble.Iterator bars it, iterator.go processBounds)",
			"Prev after a forward seek answered nil under TrySeekUsingNext, and any relative step after SeekPrefixGE returned nil, are not issued (undetermined by the contract)",
		},
		Gen: genC25, Exec: execC25,
		Quick: 3000, Thorough: 8000,
		Sample: sampleC25,
	})
}
