package sstcheck

import (
	"bytes"
	"context"
	"errors"
	"fmt"
	"testing"

	"github.com/cockroachdb/pebble/internal/base"
	"github.com/cockroachdb/pebble/objstorage"
	"github.com/cockroachdb/pebble/sstable"
	"github.com/cockroachdb/pebble/sstable/virtual"
	"github.com/cockroachdb/pebble/verifharness/evid"
	"pgregory.net/rapid"
)

// CopyPlan is a CopySpan request on the physical table.
type CopyPlan struct {
	Start KeyRef   `json:"start"`
	End   KeyRef   `json:"end"`
	Ops   IterPlan `json:"ops"`
	// CacheSize of the reader CopySpan runs against (CopySpan consults the block
	// cache, so the reader always has one); Warm: scan the table first so that
	// blocks are cache hits.
	CacheSize int  `json:"cache_size"`
	Warm      bool `json:"warm"`
}

// PlanC29 is a table read through transforms and/or virtual bounds, plus a
// CopySpan of the same table.
type PlanC29 struct {
	T Table `json:"table"`
	// Transforms. SynSuffix < 0: none.
	SynSeq       uint64 `json:"syn_seq,omitempty"`
	SynPrefix    string `json:"syn_prefix,omitempty"`
	SynSuffix    int    `json:"syn_suffix"`
	HideObsolete bool   `json:"hide_obsolete,omitempty"`
	// Virtual bounds, in terms of logical (transformed) keys.
	Virtual bool   `json:"virtual,omitempty"`
	VLo     KeyRef `json:"vlo"`
	VHi     KeyRef `json:"vhi"`
	VHiExcl bool   `json:"vhi_excl,omitempty"`

	Iters  []IterPlan `json:"iters"`
	DelOps []FragOp   `json:"del_ops,omitempty"`
	KeyOps []FragOp   `json:"key_ops,omitempty"`
	Copy   *CopyPlan  `json:"copy,omitempty"`
	// NoExclude runs classes listed as known findings instead of excluding
	// them (set only by demonstration plans).
	NoExclude bool `json:"no_exclude,omitempty"`
}

func genC29(t *rapid.T) PlanC29 {
	p := PlanC29{SynSuffix: -1}
	hasCopy := rapid.IntRange(0, 4).Draw(t, "has_copy") < 2
	var c tableCons
	if hasCopy {
		c.copyable = rapid.IntRange(0, 4).Draw(t, "copyable") > 0
	}
	wantSuffix := rapid.IntRange(0, 3).Draw(t, "want_suffix") == 0
	wantSeq := rapid.IntRange(0, 2).Draw(t, "want_seq") == 0
	p.HideObsolete = rapid.IntRange(0, 2).Draw(t, "hide_obsolete") == 0
	if rapid.IntRange(0, 2).Draw(t, "want_prefix") == 0 {
		p.SynPrefix = rapid.SampledFrom([]string{"p", "zz", "abc", "a"}).Draw(t, "syn_prefix")
	}
	if p.HideObsolete {
		c.strict = true
	}
	if wantSuffix {
		c.synSuffix = true
		c.maxSuf = 30
		c.noForce = true
	}
	if wantSeq && !p.HideObsolete {
		// Without hidden obsolete points a synthetic seqnum needs one
		// internal key per user key.
		c.singleVersion = true
	}
	c.mediumBlocks = true
	tb, prefixes, keys := genTable(t, c)
	bulk := false
	if hasCopy && c.copyable && !wantSuffix && rapid.IntRange(0, 5).Draw(t, "bulk") == 0 {
		// A table of several hundred KB in 4 KiB blocks, uncompressed: the
		// block-wise copy works in batches of contiguous uncached blocks (256 KB
		// per read), which tables of a few KB never fill.
		bulk = true
		n := rapid.IntRange(300, 700).Draw(t, "bulk_n")
		tb.Points, tb.RangeDels, tb.RangeKeys, prefixes, keys = nil, nil, nil, nil, nil
		for i := 0; i < n; i++ {
			k := K{P: fmt.Sprintf("q%05d", i), S: -1}
			prefixes = append(prefixes, k.P)
			keys = append(keys, k)
			tb.Points = append(tb.Points, Point{K: k, Seq: uint64(1 + i%50), Kind: uint8(base.InternalKeyKindSet), VLen: 900 + (i*37)%200, VSeed: i % 256})
		}
		tb.Opts.Compression, tb.Opts.BlockSize, tb.Opts.IndexBlockSize = "none", 4096, 4096
		if rapid.Bool().Draw(t, "bulk_newest") {
			tb.Opts.Format = 8
		}
	}
	if p.HideObsolete && tb.Opts.LowestLevel && len(tb.Points) > 0 && isPointDelete(base.InternalKeyKind(tb.Points[0].Kind)) {
		// Rule C3 (point deletes written to the lowest level are obsolete) is
		// documented without exception; keep the very first point of the table
		// out of that class so that the model does not depend on how the writer
		// treats a table's first key.
		tb.Points[0].Kind = uint8(base.InternalKeyKindSet)
		tb.Points[0].VLen = 3
	}
	if len(tb.Points) == 0 && wantSuffix {
		// An empty table's obsolete-key property reads "all obsolete", and the
		// obsolete-key filter documents that a synthetic suffix is never used
		// with obsolete blocks (sstable/block_property_obsolete.go:122-124).
		p.HideObsolete = false
	}
	p.T = tb
	if wantSuffix {
		p.SynSuffix = c.maxSuf + rapid.IntRange(1, 5).Draw(t, "syn_suffix")
	}
	if wantSeq {
		p.SynSeq = uint64(rapid.IntRange(1, 1000).Draw(t, "syn_seq"))
	}
	// Logical keys, for drawing bounds and seek keys.
	lkeys := make([]K, len(keys))
	for i, k := range keys {
		lkeys[i] = p.logicalKey(k)
	}
	lprefixes := make([]string, len(prefixes))
	for i, s := range prefixes {
		lprefixes[i] = p.SynPrefix + s
	}
	if p.SynPrefix != "" {
		// also seek with keys that lack the synthetic prefix
		lprefixes = append(lprefixes, prefixes...)
	}
	p.Virtual = rapid.IntRange(0, 3).Draw(t, "virtual") > 0
	if p.Virtual {
		p.VLo = genVirtualBound(t, lkeys, lprefixes)
		p.VHi = genVirtualBound(t, lkeys, lprefixes)
		p.VHiExcl = rapid.Bool().Draw(t, "vhi_excl")
	}
	nops := 50
	if hasCopy {
		nops = 30
	}
	p.Iters = genIterPlans(t, lkeys, lprefixes, nops)
	p.DelOps = genFragOps(t, "ndelops", lkeys, lprefixes)
	p.KeyOps = genFragOps(t, "nkeyops", lkeys, lprefixes)
	if hasCopy {
		cp := &CopyPlan{
			Start:     genKeyRef(t, keys, prefixes),
			End:       genKeyRef(t, keys, prefixes),
			CacheSize: rapid.SampledFrom([]int{1 << 10, 16 << 10, 1 << 20}).Draw(t, "copy_cache"),
			Warm:      rapid.Bool().Draw(t, "copy_warm"),
		}
		if bulk {
			// most of the table, cold: many batches
			cp.Start = KeyRef{Mode: 0, K: keys[rapid.IntRange(0, 20).Draw(t, "bulk_lo")]}
			cp.End = KeyRef{Mode: 0, K: keys[len(keys)-1-rapid.IntRange(0, 20).Draw(t, "bulk_hi")]}
			cp.CacheSize, cp.Warm = 1<<10, false
		}
		cp.Ops = genIterPlans(t, keys, prefixes, 30)[0]
		p.Copy = cp
	}
	return p
}

// genVirtualBound prefers keys that exist in the table (virtual tables are
// carved out of a table's key range) but also draws arbitrary keys.
func genVirtualBound(t *rapid.T, keys []K, prefixes []string) KeyRef {
	if len(keys) > 0 && rapid.IntRange(0, 5).Draw(t, "vb_existing") > 0 {
		k := keys[rapid.IntRange(0, len(keys)-1).Draw(t, "vb_idx")]
		return KeyRef{Mode: 0, K: k, Adj: rapid.SampledFrom([]int{0, 0, 0, 0, 1, 2, 3}).Draw(t, "vb_adj")}
	}
	return genKeyRef(t, keys, prefixes)
}

func (p *PlanC29) logicalKey(k K) K {
	k.P = p.SynPrefix + k.P
	if p.SynSuffix >= 0 {
		k.S = p.SynSuffix
	}
	return k
}

func (p *PlanC29) transformsActive() bool {
	return p.SynSeq != 0 || p.SynPrefix != "" || p.SynSuffix >= 0 || p.HideObsolete
}

// logicalEntries applies HideObsoletePoints, the synthetic prefix / suffix and
// the synthetic sequence number to the physical entries.
func (p *PlanC29) logicalEntries(es []ent) []ent {
	out := make([]ent, 0, len(es))
	for _, e := range es {
		if p.HideObsolete && e.obsolete {
			continue
		}
		e.k = p.logicalKey(e.k)
		e.kb = e.k.B()
		if p.SynSeq != 0 {
			e.seq = p.SynSeq
		}
		out = append(out, e)
	}
	return out
}

func (p *PlanC29) logicalSpans(spans []Span, lo, hi *K, hiExcl bool) []mspan {
	ms := modelSpans(spans)
	out := ms[:0]
	for _, s := range ms {
		s.start.P = p.SynPrefix + s.start.P
		s.end.P = p.SynPrefix + s.end.P
		for i := range s.keys {
			if p.SynSeq != 0 {
				s.keys[i].seq = p.SynSeq
			}
			if p.SynSuffix >= 0 && s.keys[i].kind == base.InternalKeyKindRangeKeySet && len(s.keys[i].suffix) > 0 {
				s.keys[i].suffix = sufB(p.SynSuffix)
			}
		}
		sortMKeys(s.keys)
		// Truncation to the virtual bounds (keyspan.Truncate, internal/keyspan/truncate.go:15-22).
		if lo != nil {
			if cmpK(s.end, *lo) <= 0 {
				continue
			}
			if cmpK(s.start, *lo) < 0 {
				s.start = *lo
			}
		}
		if hi != nil {
			if hiExcl {
				if cmpK(s.start, *hi) >= 0 {
					continue
				}
				if cmpK(s.end, *hi) > 0 {
					s.end = *hi
				}
			} else if cmpK(s.start, *hi) > 0 {
				continue
			}
		}
		out = append(out, s)
	}
	return out
}

func spanContains(spans []Span, prefix string, k K) bool {
	for _, s := range spans {
		st, en := s.Start, s.End
		st.P, en.P = prefix+st.P, prefix+en.P
		if cmpK(st, k) <= 0 && cmpK(k, en) < 0 {
			return true
		}
	}
	return false
}

// sigSuffixSeekLTEmpty: candidate finding (see NOTES.md). A row-block table
// (format <= v4) without point keys, read with a synthetic suffix: SeekLT on
// the point iterator with a key that sorts before everything (e.g. a key equal
// to the synthetic prefix) dereferences the nil result of First() on the empty
// data block (sstable/rowblk/rowblk_iter.go:899-900) and panics.
const sigSuffixSeekLTEmpty = "synthetic-suffix-seeklt-on-rowblk-table-without-points"

// sigRowblkLowerBoundSuffix: candidate finding (see NOTES.md). rowblk.Iter.
// IsLowerBound (sstable/rowblk/rowblk_iter.go:541-545) compares the block's
// first key WITHOUT the synthetic suffix. With a synthetic suffix the logical
// first key sorts before the physical one, so for a lower bound p@x with
// original suffix <= x < synthetic suffix it wrongly reports "all keys >=
// bound"; singleLevelIterator.initBoundsForAlreadyLoadedBlock then drops the
// per-block lower bound check (reader_iter_single_lvl.go:387-395) and Prev
// returns a key below the lower bound. Only reachable on the monotonic
// SetBounds fast paths (which virtual tables do not use).
const sigRowblkLowerBoundSuffix = "rowblk-islowerbound-ignores-synthetic-suffix"

func demoRowblkLowerBoundSuffix() PlanC29 {
	pt := func(p string, s int) Point {
		return Point{K: K{P: p, S: s}, Kind: uint8(base.InternalKeyKindSet), VLen: 1}
	}
	hi := KeyRef{K: K{P: "aaa", S: 30}}
	return PlanC29{
		NoExclude: true,
		T: Table{
			Opts:   TableOpts{Format: 2, BlockSize: 64, IndexBlockSize: 1, Restart: 1, Compression: "none", Bundle: 16},
			Points: []Point{pt("aaa", 1), pt("aaaa", 1)},
		},
		SynSuffix: 31,
		Iters: []IterPlan{{
			Hi: &hi,
			Ops: []Op{
				{Abs: opSeekGE + 1, Key: KeyRef{K: K{P: "aaa", S: 31}}},
				{Abs: opNext + 1},
				{Abs: opSetBounds + 1, Mono: 1, Hi: &KeyRef{K: K{P: "aaaa", S: 31}}},
				{Abs: opSeekGE + 1, Key: KeyRef{K: K{P: "aaa", S: 30}}},
				{Abs: opPrev + 1},
			},
		}},
	}
}

func demoSuffixSeekLTEmpty() PlanC29 {
	return PlanC29{
		NoExclude: true,
		T:         Table{Opts: TableOpts{Format: 4, BlockSize: 16, IndexBlockSize: 1, Restart: 1, Compression: "none", Bundle: 16}},
		SynSuffix: 33,
		SynPrefix: "a",
		// The seek key equals the synthetic prefix, so the key searched for
		// inside the (empty) block is empty.
		Iters: []IterPlan{{Ops: []Op{
			{Abs: opSeekLT + 1, Key: KeyRef{K: K{P: "a", S: -1}}},
		}}},
	}
}

func execC29(p PlanC29) (out evid.Outcome, err error) {
	t := &p.T
	es := modelEntries(t)
	if !entsSorted(es) {
		return out, nil
	}
	out.Counters = map[string]int{}
	out.Labels = append(out.Labels, fmt.Sprintf("format=v%d", t.Opts.Format))
	obj, meta, err := writeTable(t)
	if err != nil {
		return out, fmt.Errorf("writing a valid table failed: %w", err)
	}
	env, err := openReader(obj, t.Opts)
	if err != nil {
		return out, err
	}
	defer func() {
		if cerr := env.Close(); cerr != nil && err == nil {
			err = fmt.Errorf("reader Close: %w", cerr)
		}
	}()
	r := env.r
	sh, err := measureShape(r, meta, es)
	if err != nil {
		return out, err
	}

	nt1, err := p.execTransforms(&out, r, meta, es, sh)
	if sig, ok := excludedSig(err); ok {
		out.Excluded = sig
		return out, nil
	}
	if err != nil {
		return out, err
	}
	nt2 := false
	if p.Copy != nil {
		nt2, err = p.execCopy(&out, obj, es, sh)
		if sig, ok := excludedSig(err); ok {
			out.Excluded = sig
			return out, nil
		}
		if err != nil {
			return out, err
		}
	}
	out.NonTrivial = nt1 || nt2
	return out, nil
}

// execTransforms reads the table through the transforms and virtual bounds.
func (p *PlanC29) execTransforms(out *evid.Outcome, r *sstable.Reader, meta *sstable.WriterMetadata, es []ent, sh tableShape) (bool, error) {
	t := &p.T
	les := p.logicalEntries(es)
	if !entsSorted(les) {
		return false, fmt.Errorf("internal: logical entries are not sorted (generator broke a transform precondition)")
	}
	// Map measured physical block boundaries to logical indexes.
	physToLog := map[int]int{}
	for i, e := range les {
		physToLog[e.physIdx] = i
	}
	var lfirst, llast []int
	for _, pi := range sh.blockFirst {
		if li, ok := physToLog[pi]; ok {
			lfirst = append(lfirst, li)
		}
	}
	for _, pi := range sh.blockLast {
		if li, ok := physToLog[pi]; ok {
			llast = append(llast, li)
		}
	}
	resolve := resolver(les, lfirst, llast)

	// Virtual bounds.
	var vlo, vhi *K
	vhiExcl := false
	if p.Virtual {
		a, b := resolve(p.VLo), resolve(p.VHi)
		if p.SynPrefix != "" {
			// pebble/ingest.go:1422: the synthetic prefix must be a prefix of both bounds.
			if len(a.P) < len(p.SynPrefix) || a.P[:len(p.SynPrefix)] != p.SynPrefix {
				a.P = p.SynPrefix + a.P
			}
			if len(b.P) < len(p.SynPrefix) || b.P[:len(p.SynPrefix)] != p.SynPrefix {
				b.P = p.SynPrefix + b.P
			}
		}
		if cmpK(a, b) > 0 {
			a, b = b, a
		}
		vhiExcl = p.VHiExcl
		// keyspan.Truncate's precondition: an inclusive end key must not be
		// contained in a span (internal/keyspan/truncate.go:18-22).
		if !vhiExcl && (spanContains(t.RangeDels, p.SynPrefix, b) || spanContains(t.RangeKeys, p.SynPrefix, b)) {
			vhiExcl = true
		}
		if cmpK(a, b) < 0 || !vhiExcl {
			vlo, vhi = &a, &b
		}
	}
	virtualOn := vlo != nil
	physBoundary := boundarySet(sh.blockFirst, sh.blockLast)
	cutsBlock := false
	ves := les
	if virtualOn {
		ves = nil
		for _, e := range les {
			if cmpK(e.k, *vlo) < 0 {
				continue
			}
			if c := cmpK(e.k, *vhi); c > 0 || (c == 0 && vhiExcl) {
				continue
			}
			ves = append(ves, e)
		}
		// Do the virtual bounds cut a data block? The first (last) entry inside
		// the bounds is not the first (last) entry of its physical block.
		if len(ves) > 0 {
			f, l := ves[0].physIdx, ves[len(ves)-1].physIdx
			isFirst, isLast := false, false
			for _, i := range sh.blockFirst {
				isFirst = isFirst || i == f
			}
			for _, i := range sh.blockLast {
				isLast = isLast || i == l
			}
			cutsBlock = (!isFirst && f > 0) || (!isLast && l < len(es)-1)
		}
	}
	_ = physBoundary

	// Labels.
	if virtualOn {
		out.Labels = append(out.Labels, "virtual")
		if vhiExcl {
			out.Labels = append(out.Labels, "virtual-upper-exclusive")
		} else {
			out.Labels = append(out.Labels, "virtual-upper-inclusive")
		}
		if cutsBlock {
			out.Labels = append(out.Labels, "virtual-cuts-block")
		}
		if len(ves) == 0 {
			out.Labels = append(out.Labels, "virtual-empty")
		}
	}
	if p.SynSeq != 0 {
		out.Labels = append(out.Labels, "syn-seqnum")
	}
	if p.SynPrefix != "" {
		out.Labels = append(out.Labels, "syn-prefix")
	}
	if p.SynSuffix >= 0 {
		out.Labels = append(out.Labels, "syn-suffix")
	}
	if p.HideObsolete {
		out.Labels = append(out.Labels, "hide-obsolete")
		if len(les) < len(es) {
			out.Labels = append(out.Labels, "hide-obsolete-hides-something")
		}
	}
	if !p.transformsActive() && !virtualOn {
		out.Labels = append(out.Labels, "plain-read")
	}

	// Reader-side configuration.
	var synPrefix, synSuffix []byte
	if p.SynPrefix != "" {
		synPrefix = []byte(p.SynPrefix)
	}
	if p.SynSuffix >= 0 {
		synSuffix = sufB(p.SynSuffix)
	}
	ps := sstable.MakeSyntheticPrefixAndSuffix(synPrefix, synSuffix)
	transforms := sstable.IterTransforms{
		SyntheticSeqNum:          sstable.SyntheticSeqNum(p.SynSeq),
		SyntheticPrefixAndSuffix: ps,
	}
	fragTransforms := sstable.FragmentIterTransforms{
		SyntheticSeqNum:          sstable.SyntheticSeqNum(p.SynSeq),
		SyntheticPrefixAndSuffix: ps,
	}
	var renv sstable.ReadEnv
	var keep [][]byte
	if virtualOn {
		lob, hib := vlo.B(), vhi.B()
		keep = append(keep, lob, hib)
		vp := &virtual.VirtualReaderParams{
			Lower:   base.MakeInternalKey(lob, base.SeqNumMax-1, base.InternalKeyKindSet),
			FileNum: 7,
		}
		if vhiExcl {
			vp.Upper = base.MakeExclusiveSentinelKey(base.InternalKeyKindRangeDelete, hib)
		} else {
			vp.Upper = base.MakeInternalKey(hib, 0, base.InternalKeyKindSet)
		}
		renv.Virtual = vp
	}
	tableAllObsolete := false
	newIter := func(lower, upper []byte, useFilter bool) (sstable.Iterator, error) {
		opts := sstable.IterOptions{
			Lower: lower, Upper: upper,
			Transforms:           transforms,
			FilterBlockSizeLimit: sstable.NeverUseFilterBlock,
			Env:                  renv,
			ReaderProvider:       sstable.MakeTrivialReaderProvider(r),
			BlobContext:          sstable.AssertNoBlobHandles,
		}
		if useFilter {
			opts.FilterBlockSizeLimit = sstable.AlwaysUseFilterBlock
		}
		if p.HideObsolete {
			// As pebble's file cache does (file_cache.go:679-693): the obsolete-key
			// block property filter accompanies HideObsoletePoints
			// (sstable/reader.go:161-163).
			hide, filters := r.TryAddBlockPropertyFilterForHideObsoletePoints(base.SeqNumMax, meta.SeqNums.High, nil)
			if !hide {
				return nil, fmt.Errorf("TryAddBlockPropertyFilterForHideObsoletePoints refused for a v%d table", t.Opts.Format)
			}
			opts.Transforms.HideObsoletePoints = true
			f, err := sstable.IntersectsTable(filters, nil, r.UserProperties, synSuffix)
			if err != nil {
				return nil, fmt.Errorf("IntersectsTable: %w", err)
			}
			if f == nil {
				tableAllObsolete = true
				return nil, nil
			}
			opts.Filterer = f
		}
		return r.NewPointIter(context.Background(), opts)
	}

	// Full scans through the transforms.
	{
		it, err := newIter(nil, nil, false)
		if err != nil {
			return false, err
		}
		if it == nil {
			if tableAllObsolete && len(les) != 0 {
				return false, fmt.Errorf("obsolete-key table property excludes the whole table but %d points are not obsolete (first %s)", len(les), les[0])
			}
		} else {
			i := 0
			for kv := it.First(); ; kv = it.Next() {
				var e *ent
				if i < len(ves) {
					e = &ves[i]
				}
				if err := checkKV(kv, e); err != nil {
					it.Close()
					return false, fmt.Errorf("transformed forward scan, entry %d: %v%s", i, err, p.describe(vlo, vhi, vhiExcl))
				}
				if kv == nil {
					break
				}
				i++
			}
			i = len(ves) - 1
			for kv := it.Last(); ; kv = it.Prev() {
				var e *ent
				if i >= 0 {
					e = &ves[i]
				}
				if err := checkKV(kv, e); err != nil {
					it.Close()
					return false, fmt.Errorf("transformed backward scan, entry %d: %v%s", i, err, p.describe(vlo, vhi, vhiExcl))
				}
				if kv == nil {
					break
				}
				i--
			}
			if err := it.Close(); err != nil {
				return false, fmt.Errorf("Close: %w", err)
			}
		}
	}

	// Op sequences: the model holds all logical entries and treats the virtual
	// bounds as implicit iterator bounds.
	vresolve := resolve
	bset := boundarySet(lfirst, llast)
	fixBounds := func(lo, hi *K) (*K, *K) {
		if !virtualOn {
			return lo, hi
		}
		// sstable/virtual/virtual_reader_params.go:24-25: iterator bounds are
		// assumed to overlap the virtual bounds.
		if lo != nil {
			if c := cmpK(*lo, *vhi); c > 0 || (c == 0 && vhiExcl) {
				lo = nil
			}
		}
		if hi != nil && cmpK(*hi, *vlo) <= 0 {
			hi = nil
		}
		return lo, hi
	}
	for ii, ip := range p.Iters {
		m := &iterModel{ents: les, vlo: vlo, vhi: vhi, vhiExcl: vhiExcl}
		var lo, hi *K
		if ip.Lo != nil {
			k := vresolve(*ip.Lo)
			lo = &k
		}
		if ip.Hi != nil {
			k := vresolve(*ip.Hi)
			hi = &k
		}
		lo, hi = normBounds(lo, hi)
		m.lower, m.upper = fixBounds(lo, hi)
		run := &iterRunner{m: m, resolve: vresolve, boundary: bset, fixBounds: fixBounds, noExclude: p.NoExclude}
		if p.SynSuffix >= 0 && t.Opts.Format <= 4 && !virtualOn {
			// Class of sigRowblkLowerBoundSuffix: a monotonic SetBounds (the
			// only way to the fast paths that call IsLowerBound) whose new lower
			// bound p@x shares its prefix with a table entry and has
			// original suffix <= x < synthetic suffix.
			run.classOnSetBounds = func(oldLo, oldHi, lo, hi *K) string {
				if lo == nil || lo.S < 0 || lo.S >= p.SynSuffix {
					return ""
				}
				mono := (oldHi != nil && cmpK(*oldHi, *lo) <= 0) || (oldLo != nil && hi != nil && cmpK(*hi, *oldLo) <= 0)
				if !mono {
					return ""
				}
				for _, e := range es {
					if p.SynPrefix+e.k.P == lo.P && e.k.S <= lo.S {
						if evid.FindingActive("C29", sigRowblkLowerBoundSuffix) {
							return sigRowblkLowerBoundSuffix
						}
						return ""
					}
				}
				return ""
			}
		}
		if len(es) == 0 && p.SynSuffix >= 0 && t.Opts.Format <= 4 {
			// Class of sigSuffixSeekLTEmpty: SeekLT whose key, stripped of the
			// synthetic prefix, is empty (it sorts before everything).
			run.excludeOp = func(kind int, k K) string {
				if kind == opSeekLT && k.S < 0 && k.P == p.SynPrefix && evid.FindingActive("C29", sigSuffixSeekLTEmpty) {
					return sigSuffixSeekLTEmpty
				}
				return ""
			}
		}
		var lob, hib []byte
		if m.lower != nil {
			lob = run.keepB(*m.lower)
		}
		if m.upper != nil {
			hib = run.keepB(*m.upper)
		}
		it, err := newIter(lob, hib, ip.UseFilter)
		if err != nil {
			return false, err
		}
		if it == nil {
			continue
		}
		run.it = it
		run.logf("iter %d filter=%t%s", ii, ip.UseFilter, p.describe(vlo, vhi, vhiExcl))
		for _, op := range ip.Ops {
			if err := run.step(op); err != nil {
				it.Close()
				return false, err // a knownFindingError is translated by execC29
			}
		}
		if err := it.Close(); err != nil {
			return false, fmt.Errorf("iterator Close: %w", err)
		}
		out.Counters["ops"] += run.nOps
		out.Counters["tsun_seeks"] += run.tsunUsed
		out.Counters["mono_fwd_setbounds_seeks"] += run.monoFwdSeeks
		out.Counters["mono_fwd_setbounds_seeks_from_overshot_position"] += run.overshootHit
		for k, c := range run.opCount {
			out.Counters["op_"+opNames[k]] += c
		}
	}

	// Prefix seeks on every existing logical prefix with the table filter on.
	if t.Opts.Filter != "" && !tableAllObsolete {
		n, err := checkPrefixSeeks(func() (sstable.Iterator, error) { return newIter(nil, nil, true) }, ves)
		out.Counters["filter_prefix_seeks"] += n
		if err != nil {
			return false, fmt.Errorf("%v%s", err, p.describe(vlo, vhi, vhiExcl))
		}
	}

	// Fragment iterators.
	ctx := context.Background()
	rdi, err := r.NewRawRangeDelIter(ctx, fragTransforms, renv)
	if err != nil {
		return false, fmt.Errorf("NewRawRangeDelIter: %w", err)
	}
	n, err := runFragIter("rangedel iter"+p.describe(vlo, vhi, vhiExcl), rdi, p.logicalSpansOrNone(t.RangeDels, vlo, vhi, vhiExcl), p.DelOps, vresolve)
	if err != nil {
		return false, err
	}
	out.Counters["frag_ops"] += n
	rki, err := r.NewRawRangeKeyIter(ctx, fragTransforms, renv)
	if err != nil {
		return false, fmt.Errorf("NewRawRangeKeyIter: %w", err)
	}
	n, err = runFragIter("rangekey iter"+p.describe(vlo, vhi, vhiExcl), rki, p.logicalSpansOrNone(t.RangeKeys, vlo, vhi, vhiExcl), p.KeyOps, vresolve)
	if err != nil {
		return false, err
	}
	out.Counters["frag_ops"] += n
	_ = keep
	return virtualOn && cutsBlock && p.transformsActive(), nil
}

// logicalSpansOrNone: a table without such spans yields a nil iterator, which
// runFragIter accepts only when no spans are expected. With spans present but
// all outside the virtual bounds the iterator is non-nil and empty.
func (p *PlanC29) logicalSpansOrNone(spans []Span, lo, hi *K, hiExcl bool) []mspan {
	return p.logicalSpans(spans, lo, hi, hiExcl)
}

func (p *PlanC29) describe(vlo, vhi *K, excl bool) string {
	s := fmt.Sprintf(" [transforms: seq=%d prefix=%q suffix=%d hide=%t", p.SynSeq, p.SynPrefix, p.SynSuffix, p.HideObsolete)
	if vlo != nil {
		s += fmt.Sprintf(" virtual=[%s,%s excl=%t]", vlo, vhi, excl)
	}
	return s + "]"
}

// execCopy runs CopySpan on the physical table and checks containment.
func (p *PlanC29) execCopy(out *evid.Outcome, obj *objstorage.MemObj, es []ent, sh tableShape) (bool, error) {
	t := &p.T
	cp := p.Copy
	// CopySpan consults the block cache of the reader (sstable/copier.go:148),
	// so run it on a reader that has one.
	o := t.Opts
	o.UseCache = true
	o.CacheSize = cp.CacheSize
	env, err := openReader(obj, o)
	if err != nil {
		return false, err
	}
	defer env.Close()
	r := env.r
	if cp.Warm {
		it, err := r.NewIter(sstable.NoTransforms, nil, nil, sstable.AssertNoBlobHandles)
		if err != nil {
			return false, err
		}
		for kv := it.First(); kv != nil; kv = it.Next() {
		}
		if err := it.Close(); err != nil {
			return false, err
		}
	}
	resolve := resolver(es, sh.blockFirst, sh.blockLast)
	start, end := resolve(cp.Start), resolve(cp.End)
	if c := cmpK(start, end); c > 0 {
		start, end = end, start
	} else if c == 0 {
		end = K{P: end.P + "\x00", S: -1}
		if cmpK(start, end) >= 0 {
			return false, nil
		}
	}
	wholeFile := sh.valueBlocks > 0 || len(t.RangeDels) > 0 || len(t.RangeKeys) > 0
	dst := &objstorage.MemObj{}
	wo := writerOptions(t.Opts)
	size, err := sstable.CopySpan(context.Background(), obj, r, 0, dst, wo,
		base.MakeInternalKey(start.B(), base.SeqNumMax, base.InternalKeyKindSet),
		base.MakeRangeDeleteSentinelKey(end.B()))
	desc := fmt.Sprintf("CopySpan[%s,%s) of a table with %d points, %d data blocks (whole-file path: %t)", start, end, len(es), sh.dataBlocks, wholeFile)
	// Input entries inside the span.
	lo, hi := lowerBoundEnt(es, start), lowerBoundEnt(es, end)
	inSpan := es[lo:hi]
	if err != nil {
		if errors.Is(err, sstable.ErrEmptySpan) {
			out.Labels = append(out.Labels, "copy-empty-span")
			if len(inSpan) > 0 {
				return false, fmt.Errorf("%s: ErrEmptySpan although %d input keys are inside the span (first %s)", desc, len(inSpan), inSpan[0])
			}
			return false, nil
		}
		return false, fmt.Errorf("%s: %w", desc, err)
	}
	if size != uint64(dst.Size()) {
		return false, fmt.Errorf("%s: returned size %d but wrote %d bytes", desc, size, dst.Size())
	}
	if wholeFile {
		out.Labels = append(out.Labels, "copy-whole-file")
		if !bytes.Equal(dst.Data(), obj.Data()) {
			return false, fmt.Errorf("%s: whole-file copy differs from the input", desc)
		}
	}
	denv, err := openReader(dst, t.Opts)
	if err != nil {
		return false, fmt.Errorf("%s: output unreadable: %w", desc, err)
	}
	defer denv.Close()
	dr := denv.r
	// Read the output and check: subsequence of the input, superset of the span.
	it, err := dr.NewIter(sstable.NoTransforms, nil, nil, sstable.AssertNoBlobHandles)
	if err != nil {
		return false, fmt.Errorf("%s: %w", desc, err)
	}
	var got []ent
	j := 0
	for kv := it.First(); kv != nil; kv = it.Next() {
		// advance j to the matching input entry
		for j < len(es) && !(bytes.Equal(es[j].kb, kv.K.UserKey) && es[j].seq == uint64(kv.K.SeqNum()) && es[j].kind == kv.K.Kind()) {
			j++
		}
		if j == len(es) {
			it.Close()
			return false, fmt.Errorf("%s: output entry %s is not an input entry (or out of order)", desc, kv.K)
		}
		if err := checkKV(kv, &es[j]); err != nil {
			it.Close()
			return false, fmt.Errorf("%s: output entry differs from the input: %v", desc, err)
		}
		got = append(got, es[j])
		j++
	}
	if err := it.Error(); err != nil {
		it.Close()
		return false, fmt.Errorf("%s: scan of the output: %w", desc, err)
	}
	if err := it.Close(); err != nil {
		return false, fmt.Errorf("%s: %w", desc, err)
	}
	have := map[int]bool{}
	for _, e := range got {
		have[e.physIdx] = true
	}
	for _, e := range inSpan {
		if !have[e.physIdx] {
			return false, fmt.Errorf("%s: input entry %s inside the span is missing from the output (%d output entries)", desc, e, len(got))
		}
	}
	if wholeFile && len(got) != len(es) {
		return false, fmt.Errorf("%s: whole-file output has %d points, input %d", desc, len(got), len(es))
	}
	if len(got) < len(es) {
		out.Labels = append(out.Labels, "copy-proper-subset")
	} else {
		out.Labels = append(out.Labels, "copy-everything")
	}
	// The output must behave like a table holding exactly `got` (seeks agree
	// with the scan), and be internally consistent.
	for i := range got {
		got[i].physIdx = i
	}
	dsh := tableShape{}
	gresolve := resolver(got, nil, nil)
	_ = dsh
	m := &iterModel{ents: got}
	var blo, bhi *K
	if cp.Ops.Lo != nil {
		k := gresolve(*cp.Ops.Lo)
		blo = &k
	}
	if cp.Ops.Hi != nil {
		k := gresolve(*cp.Ops.Hi)
		bhi = &k
	}
	m.lower, m.upper = normBounds(blo, bhi)
	run := &iterRunner{m: m, resolve: gresolve, boundary: map[int]bool{}, noExclude: p.NoExclude}
	iopts := sstable.IterOptions{
		FilterBlockSizeLimit: sstable.NeverUseFilterBlock,
		ReaderProvider:       sstable.MakeTrivialReaderProvider(dr),
		BlobContext:          sstable.AssertNoBlobHandles,
	}
	if cp.Ops.UseFilter {
		iopts.FilterBlockSizeLimit = sstable.AlwaysUseFilterBlock
	}
	if m.lower != nil {
		iopts.Lower = run.keepB(*m.lower)
	}
	if m.upper != nil {
		iopts.Upper = run.keepB(*m.upper)
	}
	it2, err := dr.NewPointIter(context.Background(), iopts)
	if err != nil {
		return false, fmt.Errorf("%s: %w", desc, err)
	}
	run.it = it2
	run.logf("ops on the output of %s", desc)
	for _, op := range cp.Ops.Ops {
		if err := run.step(op); err != nil {
			it2.Close()
			return false, err
		}
	}
	if err := it2.Close(); err != nil {
		return false, fmt.Errorf("%s: %w", desc, err)
	}
	out.Counters["copy_ops"] += run.nOps
	if t.Opts.Filter != "" {
		n, err := checkPrefixSeeks(func() (sstable.Iterator, error) {
			return dr.NewPointIter(context.Background(), sstable.IterOptions{
				FilterBlockSizeLimit: sstable.AlwaysUseFilterBlock,
				ReaderProvider:       sstable.MakeTrivialReaderProvider(dr),
				BlobContext:          sstable.AssertNoBlobHandles,
			})
		}, got)
		out.Counters["filter_prefix_seeks"] += n
		if err != nil {
			return false, fmt.Errorf("%s: output: %v", desc, err)
		}
	}
	if err := dr.ValidateBlockChecksums(); err != nil {
		return false, fmt.Errorf("%s: output ValidateBlockChecksums: %w", desc, err)
	}
	// Spans of the output (only the whole-file path can have any).
	ctx := context.Background()
	rdi, err := dr.NewRawRangeDelIter(ctx, sstable.NoFragmentTransforms, sstable.NoReadEnv)
	if err != nil {
		return false, err
	}
	if _, err := runFragIter(desc+": output rangedels", rdi, modelSpans(t.RangeDels), nil, gresolve); err != nil {
		return false, err
	}
	rki, err := dr.NewRawRangeKeyIter(ctx, sstable.NoFragmentTransforms, sstable.NoReadEnv)
	if err != nil {
		return false, err
	}
	if _, err := runFragIter(desc+": output rangekeys", rki, modelSpans(t.RangeKeys), nil, gresolve); err != nil {
		return false, err
	}
	// Non-trivial copy: block-wise path that really dropped something while
	// the span was not empty.
	return !wholeFile && len(got) < len(es) && len(inSpan) > 0, nil
}

func sampleC29(p PlanC29) any {
	nops := 0
	for _, ip := range p.Iters {
		nops += len(ip.Ops)
	}
	return map[string]any{"opts": p.T.Opts, "points": len(p.T.Points), "rangedels": len(p.T.RangeDels), "rangekeys": len(p.T.RangeKeys),
		"syn_seq": p.SynSeq, "syn_prefix": p.SynPrefix, "syn_suffix": p.SynSuffix, "hide_obsolete": p.HideObsolete,
		"virtual": p.Virtual, "vlo": p.VLo, "vhi": p.VHi, "vhi_excl": p.VHiExcl, "ops": nops, "copy": p.Copy != nil}
}

func TestC29(t *testing.T) {
	evid.Run(t, evid.Spec[PlanC29]{
		ID: "C29", Level: "exploration",
		Rule: "tables as in C25, restricted to the documented preconditions of the drawn transforms (synthetic seqnum / prefix / suffix, " +
			"HideObsoletePoints on strict-obsolete tables), read through ReadEnv.Virtual bounds (inclusive or exclusive-sentinel upper) with " +
			"op sequences, fragment iterators truncated likewise; in 40% of the cases additionally CopySpan(start,end) of the physical table " +
			"(block-wise path on tables without value blocks / range keys / range dels, whole-file path otherwise); non-trivial = (virtual " +
			"bounds cut a data block and a transform is active) or (block-wise CopySpan of a non-empty span that dropped at least one entry); " +
			"distinct = hash of the plan JSON",
		Assumptions: []string{
			"NextPrefix is not issued while the iterator's own upper bound is a suffixed key (pebble.Iterator bars it); a suffixed *virtual* upper bound does not bar it",
			"synthetic suffix only on tables whose keys all carry a suffix (the treatment of unsuffixed keys is documented inconsistently)",
			"ReadEnv.IsSharedIngested (ForeignSSTTransformer) is not exercised; excise.go is covered only through the reader-level virtual bounds it produces",
			"CopySpan is given the writer options of the source table (same checksum type and key schema) and a reader with a block cache",
			"the CopySpan output is checked for containment (input-in-span <= output <= input) and for agreement of its seeks with its own full scan",
		},
		Gen: genC29, Exec: execC29,
		Quick: 2500, Thorough: 6000,
		Known: []evid.Known[PlanC29]{
			{Signature: sigSuffixSeekLTEmpty, Plan: demoSuffixSeekLTEmpty()},
			{Signature: sigRowblkLowerBoundSuffix, Plan: demoRowblkLowerBoundSuffix()},
		},
		Sample: sampleC29,
	})
}
