package sstcheck

import (
	"bytes"
	"fmt"
	"sort"
	"strings"

	"github.com/cockroachdb/pebble/internal/base"
	"github.com/cockroachdb/pebble/internal/keyspan"
)

// mkey / mspan: model of a fragment as surfaced by a raw fragment iterator.
type mkey struct {
	seq    uint64
	kind   base.InternalKeyKind
	suffix []byte
	value  []byte
}

type mspan struct {
	start, end K
	keys       []mkey
}

func (s mspan) String() string {
	var b strings.Builder
	fmt.Fprintf(&b, "%s-%s:{", s.start, s.end)
	for _, k := range s.keys {
		fmt.Fprintf(&b, "(#%d,%s,%s,%dB)", k.seq, k.kind, k.suffix, len(k.value))
	}
	b.WriteString("}")
	return b.String()
}

func sortMKeys(ks []mkey) {
	sort.SliceStable(ks, func(i, j int) bool {
		ti, tj := ks[i].seq<<8|uint64(ks[i].kind), ks[j].seq<<8|uint64(ks[j].kind)
		if ti != tj {
			return ti > tj
		}
		if c := bytes.Compare(ks[i].suffix, ks[j].suffix); c != 0 {
			return c < 0
		}
		return bytes.Compare(ks[i].value, ks[j].value) < 0
	})
}

func modelSpans(spans []Span) []mspan {
	out := make([]mspan, 0, len(spans))
	for _, s := range spans {
		ms := mspan{start: s.Start, end: s.End}
		for _, k := range s.Keys {
			mk := mkey{seq: k.Seq, kind: base.InternalKeyKind(k.Kind)}
			switch mk.kind {
			case base.InternalKeyKindRangeKeySet:
				mk.suffix = sufB(k.Suf)
				mk.value = valueBytes(k.VLen, k.VSeed)
			case base.InternalKeyKindRangeKeyUnset:
				mk.suffix = sufB(k.Suf)
			}
			ms.keys = append(ms.keys, mk)
		}
		sortMKeys(ms.keys)
		out = append(out, ms)
	}
	return out
}

// checkSpan compares a surfaced span with the model span. Keys are compared as
// a multiset in canonical order: the order of keys inside a span is not part
// of the contract across encodings (sstable/writer.go:87-97).
func checkSpan(got *keyspan.Span, w *mspan) error {
	if got == nil && w == nil {
		return nil
	}
	if got == nil {
		return fmt.Errorf("got nil span, want %s", w)
	}
	if w == nil {
		return fmt.Errorf("got span %s, want nil", got)
	}
	if !bytes.Equal(got.Start, w.start.B()) || !bytes.Equal(got.End, w.end.B()) {
		return fmt.Errorf("got span %s, want %s", got, w)
	}
	gk := make([]mkey, 0, len(got.Keys))
	for _, k := range got.Keys {
		gk = append(gk, mkey{seq: uint64(k.SeqNum()), kind: k.Kind(), suffix: k.Suffix, value: k.Value})
	}
	sortMKeys(gk)
	if len(gk) != len(w.keys) {
		return fmt.Errorf("got span %s, want %s (key count)", got, w)
	}
	for i := range gk {
		a, b := gk[i], w.keys[i]
		if a.seq != b.seq || a.kind != b.kind || !bytes.Equal(a.suffix, b.suffix) || !bytes.Equal(a.value, b.value) {
			return fmt.Errorf("got span %s, want %s (key %d differs)", got, w, i)
		}
	}
	return nil
}

const (
	fopSeekGE = iota
	fopSeekLT
	fopFirst
	fopLast
	fopNext
	fopPrev
)

// runFragIter checks a raw fragment iterator against the model spans: a full
// forward and backward scan, then the op sequence under the positional
// contract of keyspan.FragmentIterator (internal/keyspan/iter.go:23-61).
// it may be nil iff there are no spans... (the table has no such block).
func runFragIter(what string, it keyspan.FragmentIterator, spans []mspan, ops []FragOp, resolve func(KeyRef) K) (nops int, err error) {
	if it == nil {
		if len(spans) != 0 {
			return 0, fmt.Errorf("%s: nil iterator but %d spans expected", what, len(spans))
		}
		return 0, nil
	}
	defer it.Close()
	var trace []string
	fail := func(e error) error {
		return fmt.Errorf("%s: %v\n  trace: %s", what, e, strings.Join(trace, "; "))
	}
	at := func(i int) *mspan {
		if i < 0 || i >= len(spans) {
			return nil
		}
		return &spans[i]
	}
	// forward scan
	i := 0
	s, e := it.First()
	for ; ; s, e = it.Next() {
		if e != nil {
			return 0, fail(e)
		}
		if err := checkSpan(s, at(i)); err != nil {
			return 0, fail(fmt.Errorf("forward scan #%d: %v", i, err))
		}
		if s == nil {
			break
		}
		i++
	}
	// backward scan
	i = len(spans) - 1
	s, e = it.Last()
	for ; ; s, e = it.Prev() {
		if e != nil {
			return 0, fail(e)
		}
		if err := checkSpan(s, at(i)); err != nil {
			return 0, fail(fmt.Errorf("backward scan #%d: %v", i, err))
		}
		if s == nil {
			break
		}
		i--
	}
	// op sequence
	pos, dir, valid, positioned := 0, 0, false, false
	for _, op := range ops {
		adm := []int{fopSeekGE, fopSeekGE, fopSeekLT, fopSeekLT, fopFirst, fopLast}
		if positioned && !(dir > 0 && !valid) {
			adm = append(adm, fopNext, fopNext, fopNext)
		}
		if positioned && !(dir < 0 && !valid) {
			adm = append(adm, fopPrev, fopPrev, fopPrev)
		}
		kind := adm[((op.Kind%len(adm))+len(adm))%len(adm)]
		var desc string
		switch kind {
		case fopSeekGE:
			k := resolve(op.Key)
			// first span with End > k
			pos = sort.Search(len(spans), func(i int) bool { return cmpK(spans[i].end, k) > 0 })
			dir = +1
			desc = fmt.Sprintf("SeekGE(%s)", k)
			s, e = it.SeekGE(k.B())
		case fopSeekLT:
			k := resolve(op.Key)
			// last span with Start < k
			pos = sort.Search(len(spans), func(i int) bool { return cmpK(spans[i].start, k) >= 0 }) - 1
			dir = -1
			desc = fmt.Sprintf("SeekLT(%s)", k)
			s, e = it.SeekLT(k.B())
		case fopFirst:
			pos, dir, desc = 0, +1, "First"
			s, e = it.First()
		case fopLast:
			pos, dir, desc = len(spans)-1, -1, "Last"
			s, e = it.Last()
		case fopNext:
			if pos < len(spans) {
				pos++
			}
			dir, desc = +1, "Next"
			s, e = it.Next()
		case fopPrev:
			if pos >= 0 {
				pos--
			}
			dir, desc = -1, "Prev"
			s, e = it.Prev()
		}
		positioned = true
		nops++
		valid = pos >= 0 && pos < len(spans)
		trace = append(trace, desc)
		if e != nil {
			return nops, fail(e)
		}
		if err := checkSpan(s, at(pos)); err != nil {
			return nops, fail(fmt.Errorf("%s: %v", desc, err))
		}
	}
	return nops, nil
}
