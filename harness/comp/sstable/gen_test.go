package sstcheck

import (
	"sort"
	"strings"

	"github.com/cockroachdb/pebble/internal/base"
	"pgregory.net/rapid"
)

// tableCons restricts the generated table to what a reader-side feature
// documents as its precondition.
type tableCons struct {
	minFormat int
	// strict: IsStrictObsolete table (format >= v4, no MERGE; sstable/format.go:232-238).
	strict bool
	// synSuffix: preconditions of SyntheticSuffix (sstable/blockiter/transforms.go:101-113):
	// one key per prefix, every key suffixed with a suffix that sorts after the
	// replacement, no RANGEDEL, no RANGEKEYUNSET, no obsolete keys.
	synSuffix bool
	// maxSuf bounds the integer suffixes used in the table.
	maxSuf int
	// singleVersion: at most one internal key per user key (needed for a
	// synthetic sequence number to keep internal keys distinct).
	singleVersion bool
	// copyable: none of CopySpan's unsupported features (value blocks, range
	// deletions, range keys; sstable/copier.go:55).
	copyable bool
	// noForce: never pass forceObsolete.
	noForce bool
	// mediumBlocks biases the block size towards blocks holding several
	// entries (virtual bounds can only cut such blocks).
	mediumBlocks bool
}

func weighted[T any](t *rapid.T, label string, items []T, weights []int) T {
	total := 0
	for _, w := range weights {
		total += w
	}
	x := rapid.IntRange(0, total-1).Draw(t, label)
	for i, w := range weights {
		if x < w {
			return items[i]
		}
		x -= w
	}
	return items[len(items)-1]
}

func blockSizeWeights(c tableCons) []int {
	if c.mediumBlocks {
		return []int{1, 2, 4, 4, 1}
	}
	return []int{3, 3, 3, 2, 1}
}

func genOpts(t *rapid.T, c tableCons) TableOpts {
	minF := max(1, c.minFormat)
	if c.strict {
		minF = max(minF, 4)
	}
	o := TableOpts{
		Format:         rapid.IntRange(minF, 8).Draw(t, "format"),
		BlockSize:      weighted(t, "block_size", []int{1, 16, 64, 512, 4096}, blockSizeWeights(c)),
		IndexBlockSize: weighted(t, "index_block_size", []int{1, 64, 4096}, []int{3, 2, 1}),
		Restart:        rapid.SampledFrom([]int{1, 2, 4, 16}).Draw(t, "restart"),
		Threshold:      weighted(t, "threshold", []int{0, 1, 50, 100}, []int{5, 1, 1, 1}),
		Compression:    rapid.SampledFrom(compressionNames).Draw(t, "compression"),
		Bundle:         rapid.SampledFrom([]int{1, 2, 4, 16, 64}).Draw(t, "bundle"),
		Collector:      rapid.Bool().Draw(t, "collector"),
		XXHash:         rapid.IntRange(0, 3).Draw(t, "xxhash") == 0,
		SpansFirst:     rapid.IntRange(0, 2).Draw(t, "spans_first"),
		UseCache:       rapid.Bool().Draw(t, "use_cache"),
		ShortAttr:      rapid.Bool().Draw(t, "short_attr"),
	}
	if o.UseCache {
		o.CacheSize = rapid.SampledFrom([]int{1 << 10, 8 << 10, 1 << 20}).Draw(t, "cache_size")
	}
	o.Filter = weighted(t, "filter", []string{"", "bloom", "adaptive", "fuse"}, []int{2, 3, 1, 2})
	switch o.Filter {
	case "bloom":
		o.FilterBits = rapid.IntRange(1, 20).Draw(t, "filter_bits")
	case "adaptive":
		o.FilterBits = rapid.IntRange(1, 20).Draw(t, "filter_bits")
		o.FilterMax = uint64(rapid.SampledFrom([]int{1, 16, 64, 4096}).Draw(t, "filter_max"))
	case "fuse":
		o.FilterBits = rapid.SampledFrom([]int{4, 8, 12, 16}).Draw(t, "filter_bits")
	}
	if c.copyable {
		o.NoValueBlocks = true
	} else {
		o.NoValueBlocks = rapid.IntRange(0, 4).Draw(t, "no_value_blocks") == 0
	}
	if c.strict {
		o.StrictObsolete = true
		o.LowestLevel = !c.synSuffix && rapid.IntRange(0, 3).Draw(t, "lowest_level") == 0
	} else if o.Format >= 4 && !c.synSuffix {
		o.StrictObsolete = rapid.IntRange(0, 5).Draw(t, "strict_obsolete") == 0
		o.LowestLevel = rapid.IntRange(0, 3).Draw(t, "lowest_level") == 0
	}
	return o
}

// genPrefixes draws a sorted set of distinct key prefixes in one of several
// shapes (dense short keys, long shared prefixes, two clusters, nested).
func genPrefixes(t *rapid.T) []string {
	n := rapid.OneOf(rapid.IntRange(0, 3), rapid.IntRange(1, 12), rapid.IntRange(1, 12), rapid.IntRange(10, 40)).Draw(t, "nprefixes")
	shape := rapid.IntRange(0, 3).Draw(t, "shape")
	alpha := rapid.SampledFrom([]string{"ab", "abc", "abcdxyz"}).Draw(t, "alpha")
	letters := rapid.SampledFrom([]rune(alpha))
	common := ""
	if shape == 1 || shape == 2 {
		common = strings.Repeat(string(letters.Draw(t, "common_letter")), rapid.IntRange(3, 40).Draw(t, "common_len"))
	}
	set := map[string]struct{}{}
	for i := 0; i < n; i++ {
		var p string
		switch shape {
		case 0:
			p = rapid.StringOfN(letters, 1, 3, -1).Draw(t, "p")
		case 1:
			p = common + rapid.StringOfN(letters, 0, 2, -1).Draw(t, "p")
		case 2:
			if rapid.Bool().Draw(t, "grp") {
				p = common + rapid.StringOfN(letters, 1, 2, -1).Draw(t, "p")
			} else {
				p = rapid.StringOfN(letters, 1, 2, -1).Draw(t, "p")
			}
		default:
			p = strings.Repeat(string(letters.Draw(t, "l")), rapid.IntRange(1, 12).Draw(t, "rep"))
			if rapid.Bool().Draw(t, "tail") {
				p += string(letters.Draw(t, "l2"))
			}
		}
		if p == "" {
			p = "a"
		}
		set[p] = struct{}{}
	}
	out := make([]string, 0, len(set))
	for p := range set {
		out = append(out, p)
	}
	sort.Strings(out)
	return out
}

func genVLen(t *rapid.T) int {
	switch weighted(t, "vclass", []int{0, 1, 2, 3}, []int{2, 4, 3, 1}) {
	case 0:
		return 0
	case 1:
		return rapid.IntRange(1, 8).Draw(t, "vlen")
	case 2:
		return rapid.IntRange(9, 120).Draw(t, "vlen")
	}
	return rapid.IntRange(121, 4096).Draw(t, "vlen")
}

var pointKinds = []base.InternalKeyKind{
	base.InternalKeyKindSet, base.InternalKeyKindSetWithDelete, base.InternalKeyKindMerge,
	base.InternalKeyKindDelete, base.InternalKeyKindSingleDelete, base.InternalKeyKindDeleteSized,
}

func genKind(t *rapid.T, o TableOpts, preferSet bool) base.InternalKeyKind {
	w := []int{8, 4, 2, 2, 1, 2}
	if preferSet {
		w = []int{20, 3, 1, 1, 1, 1}
	}
	if o.Format < 4 {
		w[5] = 0
	}
	if o.StrictObsolete {
		w[2] = 0
	}
	return weighted(t, "kind", pointKinds, w)
}

// distinctDesc draws n distinct ints in [lo,hi], sorted descending.
func distinctDesc(t *rapid.T, label string, n, lo, hi int) []int {
	if n > hi-lo+1 {
		n = hi - lo + 1
	}
	set := map[int]struct{}{}
	for len(set) < n {
		set[rapid.IntRange(lo, hi).Draw(t, label)] = struct{}{}
	}
	out := make([]int, 0, n)
	for v := range set {
		out = append(out, v)
	}
	sort.Sort(sort.Reverse(sort.IntSlice(out)))
	return out
}

// genUserKeys expands prefixes into the sorted list of user keys.
func genUserKeys(t *rapid.T, prefixes []string, c tableCons) []K {
	maxSuf := c.maxSuf
	if maxSuf == 0 {
		maxSuf = rapid.SampledFrom([]int{9, 30, 1200}).Draw(t, "max_suffix")
	}
	// Sometimes one prefix carries a pile of 17-64 versions: more than the
	// linear part of NextPrefix steps over before it consults the restart
	// points, and enough to fill whole restart intervals with one prefix.
	pile := -1
	if len(prefixes) > 0 && !c.synSuffix && rapid.IntRange(0, 5).Draw(t, "pile") == 0 {
		pile = rapid.IntRange(0, len(prefixes)-1).Draw(t, "pile_prefix")
	}
	var keys []K
	for pi, p := range prefixes {
		if pi == pile {
			for _, s := range distinctDesc(t, "pile_suf", rapid.IntRange(17, 64).Draw(t, "pile_n"), 0, max(maxSuf, 100)) {
				keys = append(keys, K{P: p, S: s})
			}
			continue
		}
		if c.synSuffix {
			keys = append(keys, K{P: p, S: rapid.IntRange(1, maxSuf).Draw(t, "suf")})
			continue
		}
		none := rapid.IntRange(0, 9).Draw(t, "unsuffixed") < 3
		ns := rapid.OneOf(rapid.IntRange(0, 3), rapid.IntRange(0, 3), rapid.IntRange(4, 12)).Draw(t, "nsuf")
		if !none && ns == 0 {
			ns = 1
		}
		if none {
			keys = append(keys, K{P: p, S: -1})
		}
		for _, s := range distinctDesc(t, "suf", ns, 0, maxSuf) {
			keys = append(keys, K{P: p, S: s})
		}
	}
	return keys
}

func genPoints(t *rapid.T, o TableOpts, keys []K, c tableCons) []Point {
	var pts []Point
	preferSet := rapid.Bool().Draw(t, "prefer_set")
	perPrefix := map[string]int{}
	for _, k := range keys {
		perPrefix[k.P]++
	}
	for _, k := range keys {
		nv := 1
		if !c.singleVersion && !c.synSuffix {
			nv = weighted(t, "nver", []int{1, 2, 3, 5}, []int{12, 3, 2, 1})
		}
		// a version pile (see genUserKeys) is mostly plain SETs, one per key:
		// the writer marks restart intervals that hold SETs of one prefix only
		pileKey := perPrefix[k.P] >= 17 && rapid.IntRange(0, 19).Draw(t, "pile_plain") > 0
		if pileKey {
			nv = 1
		}
		seqs := distinctDesc(t, "seq", nv, 0, 60)
		for _, s := range seqs {
			p := Point{K: k, Seq: uint64(s), Kind: uint8(genKind(t, o, preferSet))}
			if pileKey {
				p.Kind = uint8(base.InternalKeyKindSet)
			}
			switch base.InternalKeyKind(p.Kind) {
			case base.InternalKeyKindDelete, base.InternalKeyKindSingleDelete:
			case base.InternalKeyKindDeleteSized:
				p.VLen = rapid.IntRange(0, 300).Draw(t, "dsize")
				p.VSeed = rapid.IntRange(0, 100).Draw(t, "vseed")
			default:
				p.VLen = genVLen(t)
				p.VSeed = rapid.IntRange(0, 255).Draw(t, "vseed")
			}
			if !c.noForce && !c.synSuffix && rapid.IntRange(0, 19).Draw(t, "force") == 0 {
				p.Force = true
			}
			pts = append(pts, p)
		}
	}
	return pts
}

// genBoundaryKeys draws n distinct sorted keys to be used as span boundaries.
func genBoundaryKeys(t *rapid.T, n int, keys []K, prefixes []string) []K {
	var out []K
	for i := 0; i < n*3 && len(out) < n; i++ {
		var k K
		if len(keys) > 0 && rapid.IntRange(0, 3).Draw(t, "bk_existing") > 0 {
			k = keys[rapid.IntRange(0, len(keys)-1).Draw(t, "bk_idx")]
			k = resolveAdj(k, rapid.SampledFrom([]int{0, 0, 1, 1, 2, 3}).Draw(t, "bk_adj"))
		} else {
			k = genFreshKey(t, prefixes)
		}
		dup := false
		for _, e := range out {
			if cmpK(e, k) == 0 {
				dup = true
			}
		}
		if !dup {
			out = append(out, k)
		}
	}
	sort.Slice(out, func(i, j int) bool { return cmpK(out[i], out[j]) < 0 })
	return out
}

func genFreshKey(t *rapid.T, prefixes []string) K {
	var p string
	if len(prefixes) > 0 && rapid.Bool().Draw(t, "fk_known_prefix") {
		p = prefixes[rapid.IntRange(0, len(prefixes)-1).Draw(t, "fk_prefix")]
		if rapid.IntRange(0, 3).Draw(t, "fk_ext") == 0 {
			p += rapid.StringOfN(rapid.SampledFrom([]rune("abz")), 1, 2, -1).Draw(t, "fk_tail")
		}
	} else {
		p = rapid.StringOfN(rapid.SampledFrom([]rune("abcdxyz")), 1, 4, -1).Draw(t, "fk_p")
	}
	s := -1
	if rapid.IntRange(0, 3).Draw(t, "fk_suffixed") > 0 {
		s = rapid.IntRange(0, 40).Draw(t, "fk_s")
	}
	return K{P: p, S: s}
}

func genSpans(t *rapid.T, rangeDel bool, keys []K, prefixes []string, c tableCons) []Span {
	n := rapid.OneOf(rapid.Just(0), rapid.IntRange(0, 2), rapid.IntRange(1, 6)).Draw(t, "nspans")
	if n == 0 {
		return nil
	}
	bks := genBoundaryKeys(t, n+1, keys, prefixes)
	var spans []Span
	for i := 0; i+1 < len(bks); i++ {
		if rapid.IntRange(0, 4).Draw(t, "gap") == 0 {
			continue
		}
		s := Span{Start: bks[i], End: bks[i+1]}
		nk := weighted(t, "nspankeys", []int{1, 2, 3}, []int{5, 3, 1})
		for _, seq := range distinctDesc(t, "sseq", nk, 0, 60) {
			if rangeDel {
				s.Keys = append(s.Keys, SpanKey{Seq: uint64(seq), Kind: uint8(base.InternalKeyKindRangeDelete), Suf: -1})
				continue
			}
			kinds := []base.InternalKeyKind{base.InternalKeyKindRangeKeySet, base.InternalKeyKindRangeKeyUnset, base.InternalKeyKindRangeKeyDelete}
			w := []int{5, 2, 1}
			if c.synSuffix {
				w[1] = 0
			}
			kind := weighted(t, "rkkind", kinds, w)
			switch kind {
			case base.InternalKeyKindRangeKeyDelete:
				s.Keys = append(s.Keys, SpanKey{Seq: uint64(seq), Kind: uint8(kind), Suf: -1})
			default:
				maxSuf := 40
				if c.maxSuf > 0 {
					maxSuf = c.maxSuf
				}
				lo := 0
				if c.synSuffix {
					lo = 1
				}
				nsv := weighted(t, "nsv", []int{1, 2}, []int{3, 1})
				sufs := distinctDesc(t, "rksuf", nsv, lo, maxSuf)
				if !c.synSuffix && rapid.IntRange(0, 5).Draw(t, "rk_nosuffix") == 0 {
					sufs[len(sufs)-1] = -1
				}
				for _, sf := range sufs {
					sk := SpanKey{Seq: uint64(seq), Kind: uint8(kind), Suf: sf}
					if kind == base.InternalKeyKindRangeKeySet {
						sk.VLen = rapid.IntRange(0, 20).Draw(t, "rkvlen")
						sk.VSeed = rapid.IntRange(0, 255).Draw(t, "rkvseed")
					}
					s.Keys = append(s.Keys, sk)
				}
			}
		}
		spans = append(spans, s)
	}
	return spans
}

// genTable draws writer options and table content.
func genTable(t *rapid.T, c tableCons) (Table, []string, []K) {
	o := genOpts(t, c)
	prefixes := genPrefixes(t)
	keys := genUserKeys(t, prefixes, c)
	tb := Table{Opts: o, Points: genPoints(t, o, keys, c)}
	if !c.copyable && !c.synSuffix {
		tb.RangeDels = genSpans(t, true, keys, prefixes, c)
	}
	if !c.copyable && o.Format >= 2 {
		tb.RangeKeys = genSpans(t, false, keys, prefixes, c)
	}
	return tb, prefixes, keys
}

func genKeyRef(t *rapid.T, keys []K, prefixes []string) KeyRef {
	switch weighted(t, "kr_mode", []int{0, 1, 2, 3}, []int{4, 2, 2, 2}) {
	case 0:
		if len(keys) > 0 {
			k := keys[rapid.IntRange(0, len(keys)-1).Draw(t, "kr_idx")]
			return KeyRef{Mode: 0, K: k, Adj: rapid.SampledFrom([]int{0, 0, 0, 1, 2, 3, 4}).Draw(t, "kr_adj")}
		}
		return KeyRef{Mode: 0, K: genFreshKey(t, prefixes)}
	case 1:
		return KeyRef{Mode: 1, Idx: rapid.IntRange(0, 63).Draw(t, "kr_blk"), Adj: rapid.SampledFrom([]int{0, 0, 0, 0, 1, 2, 3}).Draw(t, "kr_adj")}
	case 2:
		return KeyRef{Mode: 2, Idx: rapid.IntRange(0, 63).Draw(t, "kr_blk"), Adj: rapid.SampledFrom([]int{0, 0, 0, 0, 1, 2, 3}).Draw(t, "kr_adj")}
	}
	return KeyRef{Mode: 0, K: genFreshKey(t, prefixes)}
}

func genOptKeyRef(t *rapid.T, label string, pct int, keys []K, prefixes []string) *KeyRef {
	if rapid.IntRange(0, 99).Draw(t, label) >= pct {
		return nil
	}
	kr := genKeyRef(t, keys, prefixes)
	return &kr
}

// genOptUpperRef is genOptKeyRef for upper bounds: half of them are bare
// prefixes (the usual shape of an upper bound, and the only one under which
// NextPrefix is issued).
func genOptUpperRef(t *rapid.T, label string, pct int, keys []K, prefixes []string) *KeyRef {
	kr := genOptKeyRef(t, label, pct, keys, prefixes)
	if kr != nil && rapid.Bool().Draw(t, "bare_upper") {
		if kr.Adj != 4 {
			kr.Adj = 1
		}
	}
	return kr
}

func genIterPlans(t *rapid.T, keys []K, prefixes []string, totalOps int) []IterPlan {
	n := rapid.IntRange(1, 3).Draw(t, "niters")
	var out []IterPlan
	for i := 0; i < n; i++ {
		ip := IterPlan{
			Lo:        genOptKeyRef(t, "has_lo", 35, keys, prefixes),
			Hi:        genOptUpperRef(t, "has_hi", 35, keys, prefixes),
			UseFilter: rapid.IntRange(0, 3).Draw(t, "use_filter") > 0,
		}
		nops := rapid.IntRange(totalOps/(2*n), totalOps/n+1).Draw(t, "nops")
		for j := 0; j < nops; j++ {
			op := Op{
				Kind: rapid.IntRange(0, 999).Draw(t, "op"),
				Key:  genKeyRef(t, keys, prefixes),
				TSUN: rapid.Bool().Draw(t, "tsun"),
			}
			// SetBounds parameters are always drawn so the plan's shape does not
			// depend on the state-dependent interpretation of Kind.
			op.Lo = genOptKeyRef(t, "sb_lo", 50, keys, prefixes)
			op.Hi = genOptUpperRef(t, "sb_hi", 50, keys, prefixes)
			op.Mono = rapid.SampledFrom([]int{0, 1, 1, 2, 2}).Draw(t, "sb_mono")
			ip.Ops = append(ip.Ops, op)
		}
		out = append(out, ip)
	}
	return out
}

func genFragOps(t *rapid.T, label string, keys []K, prefixes []string) []FragOp {
	n := rapid.IntRange(0, 8).Draw(t, label)
	var out []FragOp
	for i := 0; i < n; i++ {
		out = append(out, FragOp{Kind: rapid.IntRange(0, 999).Draw(t, "fop"), Key: genKeyRef(t, keys, prefixes)})
	}
	return out
}
