package sstcheck

import (
	"bytes"
	"errors"
	"fmt"
	"strings"

	"github.com/cockroachdb/pebble/internal/base"
	"github.com/cockroachdb/pebble/sstable"
)

// Operation kinds of the point-iterator interpreter.
const (
	opSeekGE = iota
	opSeekPrefixGE
	opSeekLT
	opFirst
	opLast
	opNext
	opPrev
	opNextPrefix
	opSetBounds
	numOps
)

var opNames = [numOps]string{"SeekGE", "SeekPrefixGE", "SeekLT", "First", "Last", "Next", "Prev", "NextPrefix", "SetBounds"}

// iterModel is the sorted-list model of a base.InternalIterator over ents,
// written from the contract in internal/base/iterator.go:19-100 (bounds:
// forward routines check only the upper bound, reverse routines only the lower
// bound; positional semantics for direction changes after exhaustion).
//
// pos is the model position: an index into ents, -1 (before the first entry)
// or len(ents) (after the last). When an operation returns nil because a bound
// was crossed, pos is the index of the first entry outside the bound (the
// iterator is positioned "one past" the bound), which is what makes
// Next-after-Prev-nil and Prev-after-Next-nil well defined.
type iterModel struct {
	ents         []ent
	lower, upper *K
	// Virtual table bounds [vlo, vhi] (vhi exclusive if vhiExcl); nil when the
	// table is not virtual. They act as implicit iterator bounds: forward
	// routines enforce the upper one, reverse routines the lower one, seeks to
	// keys outside are clamped (reader_iter_single_lvl.go:717-726, 1259-1272,
	// 1382-1387, 1512-1514).
	vlo, vhi *K
	vhiExcl  bool

	pos        int
	positioned bool
	dir        int
	valid      bool
	prefixMode bool
	prefix     string
	// noRel: relative operations are not permitted (or their result is not
	// determined by the contract) until the next absolute positioning.
	noRel       bool
	lastAbs     int
	lastSeekKey K
	onlyFwd     bool
}

func (m *iterModel) inUpper(i int) bool {
	if i < 0 || i >= len(m.ents) {
		return false
	}
	if m.upper != nil && cmpK(m.ents[i].k, *m.upper) >= 0 {
		return false
	}
	if m.vhi != nil {
		if c := cmpK(m.ents[i].k, *m.vhi); c > 0 || (c == 0 && m.vhiExcl) {
			return false
		}
	}
	return true
}

func (m *iterModel) inLower(i int) bool {
	if i < 0 || i >= len(m.ents) {
		return false
	}
	if m.lower != nil && cmpK(m.ents[i].k, *m.lower) < 0 {
		return false
	}
	return m.vlo == nil || cmpK(m.ents[i].k, *m.vlo) >= 0
}

// geIndex is the index of the first entry >= k, after clamping k to the
// virtual lower bound.
func (m *iterModel) geIndex(k K) int {
	if m.vlo != nil && cmpK(k, *m.vlo) < 0 {
		k = *m.vlo
	}
	return lowerBoundEnt(m.ents, k)
}

// ltIndex is the index of the last entry < k; a k beyond the virtual upper
// bound selects the last entry inside the virtual table.
func (m *iterModel) ltIndex(k K, unbounded bool) int {
	if m.vhi != nil && (unbounded || cmpK(k, *m.vhi) > 0) {
		if m.vhiExcl {
			return lowerBoundEnt(m.ents, *m.vhi) - 1
		}
		i := lowerBoundEnt(m.ents, *m.vhi)
		for i < len(m.ents) && cmpK(m.ents[i].k, *m.vhi) == 0 {
			i++
		}
		return i - 1
	}
	if unbounded {
		return len(m.ents) - 1
	}
	return lowerBoundEnt(m.ents, k) - 1
}

func (m *iterModel) canNext() bool {
	if !m.positioned || m.noRel {
		return false
	}
	if m.dir > 0 && !m.valid {
		// iterator.go:172-175: not allowed when the previous SeekGE, SeekPrefixGE
		// or Next returned nil.
		return false
	}
	if m.prefixMode {
		// iterator.go:53-55: not valid once the iterator returned nil or a key
		// beyond the prefix.
		return m.valid && m.ents[m.pos].k.P == m.prefix
	}
	return true
}

func (m *iterModel) canPrev() bool {
	if !m.positioned || m.noRel || m.prefixMode {
		return false
	}
	// iterator.go:200-203: not allowed when the previous SeekLT or Prev returned nil.
	return !(m.dir < 0 && !m.valid)
}

func (m *iterModel) canNextPrefix() bool {
	// iterator.go:188-191: not after a reverse op, not after a forward op that
	// returned nil, not in prefix iteration mode.
	if !(m.positioned && !m.noRel && !m.prefixMode && m.dir > 0 && m.valid) {
		return false
	}
	// NextPrefix is not issued while the iterator's upper bound is a versioned
	// (suffixed) key: the only real caller bars it (pebble iterator.go
	// processBounds: "Setting an upper bound that is a versioned MVCC key ...
	// causes significant complications for NextPrefix, so we bar the user of
	// NextPrefix"; Iterator.NextPrefix then fails without touching the internal
	// iterators). With a bare-prefix upper bound NextPrefix cannot jump over
	// entries >= the bound. The upper bound of a *virtual table* may be
	// suffixed: pebble.Iterator does not know it and levelIter does call
	// NextPrefix on such files.
	return m.upper == nil || m.upper.S < 0
}

// admissible returns the weighted list of operation kinds allowed in the
// current state.
func (m *iterModel) admissible() []int {
	l := make([]int, 0, 32)
	add := func(k, w int) {
		for i := 0; i < w; i++ {
			l = append(l, k)
		}
	}
	if m.canNext() {
		add(opNext, 8)
	}
	if m.canPrev() {
		add(opPrev, 8)
	}
	if m.canNextPrefix() {
		add(opNextPrefix, 3)
	}
	add(opSeekGE, 3)
	add(opSeekLT, 3)
	add(opSeekPrefixGE, 3)
	add(opSetBounds, 1)
	if m.lower == nil {
		add(opFirst, 1)
	}
	if m.upper == nil {
		add(opLast, 1)
	}
	return l
}

// clamp brings a seek key into [lower, upper] as the contract requires of the
// caller (iterator.go:68-71 and the SeekGE/SeekLT method comments).
func (m *iterModel) clamp(k K) K {
	if m.lower != nil && cmpK(k, *m.lower) < 0 {
		k = *m.lower
	}
	if m.upper != nil && cmpK(k, *m.upper) > 0 {
		k = *m.upper
	}
	return k
}

// tsunAllowed reports whether the caller may pass TrySeekUsingNext for a seek
// of the given kind to key k (iterator.go:283-312): same-type seek sequence,
// only forward steps since, k1 <= k2, and the iterator has not been moved
// beyond the first key >= k.
func (m *iterModel) tsunAllowed(kind int, k K) bool {
	if !m.positioned || m.lastAbs != kind || !m.onlyFwd {
		return false
	}
	if cmpK(m.lastSeekKey, k) > 0 {
		return false
	}
	return m.pos <= m.geIndex(k)
}

type want struct {
	idx    int  // expected entry index, -1 for nil
	nilOK  bool // nil is also acceptable (prefix iteration, contract allows either)
	isSeek bool
}

func (m *iterModel) afterAbs(kind int, k K) {
	m.positioned = true
	m.noRel = false
	m.prefixMode = false
	m.lastAbs = kind
	m.lastSeekKey = k
	m.onlyFwd = true
}

func (m *iterModel) seekGE(k K, tsun bool) want {
	m.afterAbs(opSeekGE, k)
	m.pos = m.geIndex(k)
	m.dir = +1
	m.valid = m.inUpper(m.pos)
	if !m.valid && tsun {
		// The implementation may answer nil from its previous (exhausted)
		// position; the position for a following Prev is then not determined.
		m.noRel = true
	}
	if m.valid {
		return want{idx: m.pos, isSeek: true}
	}
	return want{idx: -1, isSeek: true}
}

func (m *iterModel) seekPrefixGE(k K) want {
	m.afterAbs(opSeekPrefixGE, k)
	m.prefixMode = true
	m.prefix = k.P
	m.pos = m.geIndex(k)
	m.dir = +1
	m.valid = m.inUpper(m.pos)
	if !m.valid {
		m.noRel = true
		return want{idx: -1, isSeek: true}
	}
	// iterator.go:113-128: if no key with the prefix exists the iterator may
	// return nil; it may also return the (non-matching) next key.
	return want{idx: m.pos, nilOK: m.ents[m.pos].k.P != m.prefix, isSeek: true}
}

func (m *iterModel) seekLT(k K) want {
	m.afterAbs(opSeekLT, k)
	m.pos = m.ltIndex(k, false)
	m.dir = -1
	m.valid = m.inLower(m.pos)
	if m.valid {
		return want{idx: m.pos, isSeek: true}
	}
	return want{idx: -1, isSeek: true}
}

func (m *iterModel) first() want {
	m.afterAbs(opFirst, K{})
	m.pos = 0
	if m.vlo != nil {
		m.pos = m.geIndex(*m.vlo)
	}
	m.dir = +1
	m.valid = m.inUpper(m.pos)
	if m.valid {
		return want{idx: m.pos}
	}
	return want{idx: -1}
}

func (m *iterModel) last() want {
	m.afterAbs(opLast, K{})
	m.pos = m.ltIndex(K{}, true)
	m.dir = -1
	m.valid = m.inLower(m.pos)
	if m.valid {
		return want{idx: m.pos}
	}
	return want{idx: -1}
}

func (m *iterModel) next() want {
	if m.pos < len(m.ents) {
		m.pos++
	}
	m.dir = +1
	m.valid = m.inUpper(m.pos)
	if m.prefixMode {
		if !m.valid {
			m.noRel = true
			return want{idx: -1}
		}
		return want{idx: m.pos, nilOK: m.ents[m.pos].k.P != m.prefix}
	}
	if m.valid {
		return want{idx: m.pos}
	}
	return want{idx: -1}
}

func (m *iterModel) prev() want {
	m.onlyFwd = false
	if m.pos >= 0 {
		m.pos--
	}
	m.dir = -1
	m.valid = m.inLower(m.pos)
	if m.valid {
		return want{idx: m.pos}
	}
	return want{idx: -1}
}

func (m *iterModel) nextPrefix() want {
	p := m.ents[m.pos].k.P
	for m.pos < len(m.ents) && m.ents[m.pos].k.P == p {
		m.pos++
	}
	m.dir = +1
	m.valid = m.inUpper(m.pos)
	if m.valid {
		return want{idx: m.pos}
	}
	return want{idx: -1}
}

// ---------------------------------------------------------------------------

// knownFindingError aborts a case that entered a class excluded as known finding.
type knownFindingError struct{ sig string }

func (e *knownFindingError) Error() string { return "case excluded: known finding " + e.sig }

// excludedSig returns the signature if err is a knownFindingError.
func excludedSig(err error) (string, bool) {
	var k *knownFindingError
	if errors.As(err, &k) {
		return k.sig, true
	}
	return "", false
}

// iterRunner drives a real iterator and the model side by side.
type iterRunner struct {
	it    sstable.Iterator
	m     *iterModel
	trace []string
	// resolve maps a KeyRef to a key (block-boundary references are resolved
	// against the table measured at run time).
	resolve func(KeyRef) K
	// fixBounds lets the caller veto / adjust bounds (virtual tables require
	// iterator bounds that overlap the virtual bounds).
	fixBounds func(lo, hi *K) (*K, *K)
	// Note on virtual tables (m.vlo / m.vhi): a forward seek to a key beyond the
	// virtual upper bound (or a reverse seek below the virtual lower bound) is
	// issued and must return nil, but no relative step follows it: reverse
	// steps do not check upper bounds by contract (iterator.go:60-66), so the
	// caller must not rely on the position.
	// boundary[i] is set when ents[i] is the first or last entry of a data block.
	boundary map[int]bool
	// keep references to every key slice handed to the iterator.
	keep [][]byte

	// Monitoring of the monotonic-bounds fast path: monoFwd / overshoot are set
	// by a SetBounds that moves the bounds forward (new lower >= old upper) after
	// the iterator was positioned; overshoot additionally means the model
	// position was beyond the first entry >= the old upper bound (the fast path
	// assumes this cannot happen; with NextPrefix barred under suffixed upper
	// bounds it must stay 0). Counted when a SeekGE / SeekPrefixGE follows.
	monoFwd, overshoot         bool
	monoFwdSeeks, overshootHit int
	// noExclude: run classes listed as known findings instead of excluding
	// them (demonstration / regression plans).
	noExclude bool
	// excludeOp, if set, names the known-finding class an operation falls in
	// ("" if none); consulted for seeks before they are issued.
	excludeOp func(kind int, k K) string
	// classOnSetBounds, if set, names the known-finding class entered by a
	// SetBounds from (oldLo, oldHi) to (lo, hi) ("" if none); the next seek is
	// then in that class. pendingSig holds it until that seek.
	classOnSetBounds func(oldLo, oldHi, lo, hi *K) string
	pendingSig       string

	seekOnBoundary int
	nOps           int
	opCount        [numOps]int
	tsunUsed       int
	nilOKTaken     int
}

func (r *iterRunner) logf(format string, args ...any) {
	r.trace = append(r.trace, fmt.Sprintf(format, args...))
}

func (r *iterRunner) fail(format string, args ...any) error {
	t := r.trace
	if len(t) > 50 {
		t = t[len(t)-50:]
	}
	lo, hi := "nil", "nil"
	if r.m.lower != nil {
		lo = r.m.lower.String()
	}
	if r.m.upper != nil {
		hi = r.m.upper.String()
	}
	return fmt.Errorf("%s\n  bounds=[%s,%s) trace:\n    %s", fmt.Sprintf(format, args...), lo, hi, strings.Join(t, "\n    "))
}

func describeKV(kv *base.InternalKV) string {
	if kv == nil {
		return "nil"
	}
	return kv.K.String()
}

// checkKV compares an iterator result with the expected model entry.
func checkKV(kv *base.InternalKV, e *ent) error {
	if kv == nil && e == nil {
		return nil
	}
	if kv == nil {
		return fmt.Errorf("got nil, want %s", e)
	}
	if e == nil {
		return fmt.Errorf("got %s, want nil", kv.K)
	}
	if !bytes.Equal(kv.K.UserKey, e.kb) || uint64(kv.K.SeqNum()) != e.seq || kv.K.Kind() != e.kind {
		return fmt.Errorf("got %s, want %s", kv.K, e)
	}
	v, _, err := kv.Value(nil)
	if err != nil {
		return fmt.Errorf("value of %s: %v", kv.K, err)
	}
	if !bytes.Equal(v, e.val) {
		return fmt.Errorf("value of %s: got %d bytes %.40x, want %d bytes %.40x", kv.K, len(v), v, len(e.val), e.val)
	}
	if kv.V.Len() != len(e.val) {
		return fmt.Errorf("value of %s: Len()=%d, want %d", kv.K, kv.V.Len(), len(e.val))
	}
	return nil
}

func (r *iterRunner) verify(opDesc string, kv *base.InternalKV, w want) error {
	var e *ent
	if w.idx >= 0 {
		e = &r.m.ents[w.idx]
	}
	r.logf("%s = %s", opDesc, describeKV(kv))
	if kv == nil && w.nilOK {
		// Accepted alternative: the model must stop relative iteration.
		r.m.valid = false
		r.m.noRel = true
		r.nilOKTaken++
		if err := r.it.Error(); err != nil {
			return r.fail("%s: iterator error %v", opDesc, err)
		}
		return nil
	}
	if err := checkKV(kv, e); err != nil {
		return r.fail("%s: %v", opDesc, err)
	}
	if kv == nil {
		if err := r.it.Error(); err != nil {
			return r.fail("%s: iterator error %v", opDesc, err)
		}
	}
	if w.isSeek && w.idx >= 0 && r.boundary[w.idx] {
		r.seekOnBoundary++
	}
	return nil
}

func (r *iterRunner) keepB(k K) []byte {
	b := k.B()
	r.keep = append(r.keep, b)
	return b
}

// step executes one op of the plan.
func (r *iterRunner) step(op Op) error {
	adm := r.m.admissible()
	kind := adm[((op.Kind%len(adm))+len(adm))%len(adm)]
	if op.Abs > 0 {
		for _, k := range adm {
			if k == op.Abs-1 {
				kind = k
			}
		}
	}
	m := r.m
	if r.monoFwd && (kind == opSeekGE || kind == opSeekPrefixGE) {
		r.monoFwdSeeks++
		if r.overshoot {
			r.overshootHit++
		}
	}
	if r.pendingSig != "" && (kind == opSeekGE || kind == opSeekPrefixGE || kind == opSeekLT) && !r.noExclude {
		return &knownFindingError{r.pendingSig}
	}
	if kind != opSetBounds {
		r.monoFwd, r.overshoot = false, false
		r.pendingSig = ""
	}
	r.nOps++
	r.opCount[kind]++
	switch kind {
	case opSeekGE:
		k := m.clamp(r.resolve(op.Key))
		flags := base.SeekGEFlagsNone
		tsun := op.TSUN && m.tsunAllowed(opSeekGE, k)
		if tsun {
			flags = flags.EnableTrySeekUsingNext()
			r.tsunUsed++
		}
		w := m.seekGE(k, tsun)
		if m.vhi != nil && cmpK(k, *m.vhi) > 0 {
			m.noRel = true
		}
		kv := r.it.SeekGE(r.keepB(k), flags)
		return r.verify(fmt.Sprintf("SeekGE(%s,tsun=%t)", k, tsun), kv, w)
	case opSeekPrefixGE:
		k := m.clamp(r.resolve(op.Key))
		flags := base.SeekGEFlagsNone
		tsun := op.TSUN && m.tsunAllowed(opSeekPrefixGE, k)
		if tsun {
			flags = flags.EnableTrySeekUsingNext()
			r.tsunUsed++
		}
		w := m.seekPrefixGE(k)
		if m.vhi != nil && cmpK(k, *m.vhi) > 0 {
			m.noRel = true
		}
		kb := r.keepB(k)
		kv := r.it.SeekPrefixGE(kb[:len(k.P)], kb, flags)
		return r.verify(fmt.Sprintf("SeekPrefixGE(%s,tsun=%t)", k, tsun), kv, w)
	case opSeekLT:
		k := m.clamp(r.resolve(op.Key))
		if r.excludeOp != nil && !r.noExclude {
			if sig := r.excludeOp(kind, k); sig != "" {
				return &knownFindingError{sig}
			}
		}
		w := m.seekLT(k)
		if m.vlo != nil && cmpK(k, *m.vlo) < 0 {
			m.noRel = true
		}
		kv := r.it.SeekLT(r.keepB(k), base.SeekLTFlagsNone)
		return r.verify(fmt.Sprintf("SeekLT(%s)", k), kv, w)
	case opFirst:
		w := m.first()
		return r.verify("First()", r.it.First(), w)
	case opLast:
		w := m.last()
		return r.verify("Last()", r.it.Last(), w)
	case opNext:
		w := m.next()
		return r.verify("Next()", r.it.Next(), w)
	case opPrev:
		w := m.prev()
		return r.verify("Prev()", r.it.Prev(), w)
	case opNextPrefix:
		succ := K{P: m.ents[m.pos].k.P + "\x00", S: -1}
		w := m.nextPrefix()
		return r.verify(fmt.Sprintf("NextPrefix(%q)", succ.P), r.it.NextPrefix(r.keepB(succ)), w)
	case opSetBounds:
		var lo, hi *K
		if op.Lo != nil {
			k := r.resolve(*op.Lo)
			lo = &k
		}
		if op.Hi != nil {
			k := r.resolve(*op.Hi)
			hi = &k
		}
		switch op.Mono {
		case 1:
			if m.upper != nil {
				k := *m.upper
				lo = &k
			}
		case 2:
			if m.lower != nil {
				k := *m.lower
				hi = &k
			}
		}
		lo, hi = normBounds(lo, hi)
		if r.fixBounds != nil {
			lo, hi = r.fixBounds(lo, hi)
		}
		// The monotonic-bounds optimization is not applied to virtual tables
		// (reader_iter_single_lvl.go:445-453).
		r.monoFwd = m.positioned && m.vlo == nil && m.vhi == nil &&
			m.upper != nil && lo != nil && cmpK(*m.upper, *lo) <= 0
		r.overshoot = r.monoFwd && m.pos < len(m.ents) && m.pos > lowerBoundEnt(m.ents, *m.upper)
		r.pendingSig = ""
		if r.classOnSetBounds != nil && m.positioned {
			r.pendingSig = r.classOnSetBounds(m.lower, m.upper, lo, hi)
		}
		m.lower, m.upper = lo, hi
		m.positioned = false
		var lob, hib []byte
		if lo != nil {
			lob = r.keepB(*lo)
		}
		if hi != nil {
			hib = r.keepB(*hi)
		}
		r.it.SetBounds(lob, hib)
		r.logf("SetBounds(%s,%s)", lob, hib)
		return nil
	}
	return nil
}

// normBounds makes sure lower < upper when both are set (drops upper otherwise).
func normBounds(lo, hi *K) (*K, *K) {
	if lo != nil && hi != nil {
		switch c := cmpK(*lo, *hi); {
		case c > 0:
			lo, hi = hi, lo
		case c == 0:
			hi = nil
		}
	}
	return lo, hi
}
