// Package sstcheck: C25 (sstables read back what was written) and C29 (virtual
// tables, transforms, CopySpan).
//
// This file holds the plan data types (plain JSON data) and the pure helpers
// that turn plan data into byte keys / values. Nothing here calls the code
// under test.
package sstcheck

import (
	"bytes"
	"encoding/binary"
	"sort"
	"strconv"

	"github.com/cockroachdb/pebble/internal/base"
)

// K is a structured testkeys user key: prefix P (bytes without '@') and an
// optional integer suffix "@S" (S < 0: no suffix).
//
// Ordering (documented in internal/testkeys/testkeys.go:138-143): prefixes
// bytewise ascending; within a prefix the unsuffixed key first, then suffixed
// keys by DEcreasing integer value.
type K struct {
	P string `json:"p"`
	S int    `json:"s"`
}

func (k K) B() []byte {
	if k.S < 0 {
		return []byte(k.P)
	}
	b := make([]byte, 0, len(k.P)+8)
	b = append(b, k.P...)
	b = append(b, '@')
	return strconv.AppendInt(b, int64(k.S), 10)
}

func (k K) String() string { return string(k.B()) }

func sufB(s int) []byte {
	if s < 0 {
		return nil
	}
	return strconv.AppendInt([]byte{'@'}, int64(s), 10)
}

// cmpK is the model's own comparison of structured keys (independent of
// testkeys.Comparer.Compare).
func cmpK(a, b K) int {
	if c := bytes.Compare([]byte(a.P), []byte(b.P)); c != 0 {
		return c
	}
	switch {
	case a.S < 0 && b.S < 0:
		return 0
	case a.S < 0:
		return -1
	case b.S < 0:
		return +1
	case a.S > b.S:
		return -1
	case a.S < b.S:
		return +1
	}
	return 0
}

// Point is one point entry of the table, in write order.
type Point struct {
	K     K      `json:"k"`
	Seq   uint64 `json:"seq"`
	Kind  uint8  `json:"kind"` // base.InternalKeyKind
	VLen  int    `json:"vlen"`
	VSeed int    `json:"vseed"`
	Force bool   `json:"force,omitempty"` // forceObsolete argument of RawWriter.Add
}

// SpanKey is one key of a fragmented span.
type SpanKey struct {
	Seq   uint64 `json:"seq"`
	Kind  uint8  `json:"kind"`
	Suf   int    `json:"suf"` // range key suffix (<0: none); unused for RANGEDEL/RANGEKEYDEL
	VLen  int    `json:"vlen"`
	VSeed int    `json:"vseed"`
}

// Span is a fragment [Start, End) with its keys (trailer-descending).
type Span struct {
	Start K         `json:"start"`
	End   K         `json:"end"`
	Keys  []SpanKey `json:"keys"`
}

// TableOpts are the drawn sstable.WriterOptions.
type TableOpts struct {
	Format         int    `json:"format"` // Pebble table format version 1..8
	BlockSize      int    `json:"block_size"`
	IndexBlockSize int    `json:"index_block_size"`
	Restart        int    `json:"restart"`
	Threshold      int    `json:"threshold"` // BlockSizeThreshold (0: default)
	Compression    string `json:"compression"`
	Filter         string `json:"filter"` // "", bloom, adaptive, fuse
	FilterBits     int    `json:"filter_bits"`
	FilterMax      uint64 `json:"filter_max,omitempty"`
	NoValueBlocks  bool   `json:"no_value_blocks,omitempty"`
	Bundle         int    `json:"bundle"` // colblk prefix bundle size (power of two)
	Collector      bool   `json:"collector,omitempty"`
	XXHash         bool   `json:"xxhash,omitempty"`
	LowestLevel    bool   `json:"lowest_level,omitempty"`
	StrictObsolete bool   `json:"strict_obsolete,omitempty"`
	SpansFirst     int    `json:"spans_first"` // 0: spans before points, 1: after, 2: interleaved by start key
	UseCache       bool   `json:"use_cache,omitempty"`
	CacheSize      int    `json:"cache_size,omitempty"`
	ShortAttr      bool   `json:"short_attr,omitempty"`
}

// Table is the logical content plus writer options.
type Table struct {
	Opts      TableOpts `json:"opts"`
	Points    []Point   `json:"points"`
	RangeDels []Span    `json:"range_dels,omitempty"`
	RangeKeys []Span    `json:"range_keys,omitempty"`
}

// KeyRef designates a seek key / bound. Mode 0: explicit key K. Mode 1: the
// user key of the first entry of data block Idx (mod #blocks) as measured at
// run time. Mode 2: the user key of the last entry of data block Idx.
// Adj post-processes the key: 0 none, 1 drop the suffix, 2 suffix+1 (sorts just
// before), 3 suffix-1 (sorts just after), 4 prefix+"\x00" without suffix.
type KeyRef struct {
	Mode int `json:"mode"`
	Idx  int `json:"idx,omitempty"`
	K    K   `json:"k"`
	Adj  int `json:"adj,omitempty"`
}

// Op is one iterator operation. Kind is interpreted by the executor as an
// index into the weighted list of operations admissible in the current
// iterator state (see opsAdmissible), so every op is executed.
type Op struct {
	Kind int `json:"kind"`
	// Abs, when > 0, selects operation kind Abs-1 directly if it is admissible
	// (used by hand-written demonstration plans; never drawn).
	Abs  int     `json:"abs,omitempty"`
	Key  KeyRef  `json:"key"`
	TSUN bool    `json:"tsun,omitempty"` // request TrySeekUsingNext when the contract allows it
	Lo   *KeyRef `json:"lo,omitempty"`   // SetBounds
	Hi   *KeyRef `json:"hi,omitempty"`
	Mono int     `json:"mono,omitempty"` // SetBounds: 1 = new lower := old upper, 2 = new upper := old lower
}

// IterPlan is one iterator with bounds and an op sequence.
type IterPlan struct {
	Lo        *KeyRef `json:"lo,omitempty"`
	Hi        *KeyRef `json:"hi,omitempty"`
	UseFilter bool    `json:"use_filter"`
	Ops       []Op    `json:"ops"`
}

// FragOp is an operation on a raw rangedel / range key fragment iterator.
type FragOp struct {
	Kind int    `json:"kind"`
	Key  KeyRef `json:"key"`
}

// ---------------------------------------------------------------------------
// values

// valueBytes deterministically expands (len, seed) into a value. Even seeds
// give compressible values, odd seeds pseudo-random ones.
func valueBytes(n, seed int) []byte {
	if n <= 0 {
		return nil
	}
	b := make([]byte, n)
	if seed%2 == 0 {
		for i := range b {
			b[i] = byte('a' + (seed/2+i/7)%26)
		}
		return b
	}
	x := uint32(seed)*2654435761 + 12345
	for i := range b {
		x = x*1664525 + 1013904223
		b[i] = byte(x >> 24)
	}
	return b
}

// pointValue returns the value bytes written for p. DELSIZED values must be a
// uvarint (sstable/colblk_writer.go:649-657) or empty; DEL / SINGLEDEL carry
// no value.
func pointValue(p Point) []byte {
	switch base.InternalKeyKind(p.Kind) {
	case base.InternalKeyKindDelete, base.InternalKeyKindSingleDelete:
		return nil
	case base.InternalKeyKindDeleteSized:
		if p.VLen == 0 {
			return nil
		}
		return binary.AppendUvarint(nil, uint64(p.VLen)*131+uint64(p.VSeed))
	}
	return valueBytes(p.VLen, p.VSeed)
}

// ---------------------------------------------------------------------------
// model entries

// ent is one point entry of the sorted-list model.
type ent struct {
	k        K
	kb       []byte
	seq      uint64
	kind     base.InternalKeyKind
	val      []byte
	obsolete bool // per the documented marking rules; only meaningful for format >= v4
	physIdx  int  // index in Table.Points
}

func (e ent) String() string {
	return string(e.kb) + "#" + strconv.FormatUint(e.seq, 10) + "," + e.kind.String()
}

// cmpEnt orders entries like base.InternalCompare: user key ascending, then
// trailer (seqnum<<8|kind) descending.
func cmpEnt(a, b ent) int {
	if c := cmpK(a.k, b.k); c != 0 {
		return c
	}
	ta, tb := a.seq<<8|uint64(a.kind), b.seq<<8|uint64(b.kind)
	switch {
	case ta > tb:
		return -1
	case ta < tb:
		return +1
	}
	return 0
}

func isPointDelete(k base.InternalKeyKind) bool {
	return k == base.InternalKeyKindDelete || k == base.InternalKeyKindSingleDelete || k == base.InternalKeyKindDeleteSized
}

// modelEntries turns the table's points into model entries and computes the
// obsolete bit from the documented rules C1-C3 (sstable/colblk_writer.go:706-740,
// sstable/format.go:158-168): same user key as the previous point and (previous
// obsolete or previous not MERGE); or a point delete when writing to the lowest
// level; or forceObsolete. The points are already in write (sorted) order.
func modelEntries(t *Table) []ent {
	es := make([]ent, len(t.Points))
	for i, p := range t.Points {
		e := ent{k: p.K, kb: p.K.B(), seq: p.Seq, kind: base.InternalKeyKind(p.Kind), val: pointValue(p), physIdx: i}
		if t.Opts.Format >= 4 {
			if i > 0 && cmpK(es[i-1].k, e.k) == 0 && (es[i-1].obsolete || es[i-1].kind != base.InternalKeyKindMerge) {
				e.obsolete = true
			}
			if t.Opts.LowestLevel && isPointDelete(e.kind) {
				e.obsolete = true
			}
			if p.Force {
				e.obsolete = true
			}
		}
		es[i] = e
	}
	return es
}

func entsSorted(es []ent) bool {
	return sort.SliceIsSorted(es, func(i, j int) bool { return cmpEnt(es[i], es[j]) < 0 })
}

// lowerBoundEnt returns the index of the first entry with user key >= k.
func lowerBoundEnt(es []ent, k K) int {
	return sort.Search(len(es), func(i int) bool { return cmpK(es[i].k, k) >= 0 })
}

// resolveAdj applies KeyRef.Adj to a key.
func resolveAdj(k K, adj int) K {
	switch adj {
	case 1:
		k.S = -1
	case 2:
		if k.S >= 0 {
			k.S++
		}
	case 3:
		if k.S > 0 {
			k.S--
		}
	case 4:
		k.P += "\x00"
		k.S = -1
	}
	return k
}
