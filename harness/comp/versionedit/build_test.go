package versionedit

// Interpretation of plans: construction of in-memory manifest.VersionEdit
// values from EditSpecs, canonical rendering of decoded edits, application of
// edits to versions and the expected-state model.

import (
	"bytes"
	"fmt"
	"sort"
	"strings"

	"github.com/cockroachdb/pebble/internal/base"
	"github.com/cockroachdb/pebble/internal/manifest"
	"github.com/cockroachdb/pebble/sstable"
)

var cmpBytes = base.DefaultComparer.Compare

func ikey(k *KeySpec) base.InternalKey {
	return base.MakeInternalKey(append([]byte{}, k.User...), base.SeqNum(k.Seq), base.InternalKeyKind(k.Kind))
}

// memObjects is one private object graph (tables, backings, blob files) for a
// history built in memory. Every path that applies edits gets its own graph
// because Apply mutates table metadata (allowed seeks, blob reference
// estimates, reference counts).
type memObjects struct {
	tables   map[uint64]*manifest.TableMetadata
	backings map[uint64]*manifest.TableBacking
	blobs    map[uint64]*manifest.PhysicalBlobFile // by physical file number
}

func newMemObjects() *memObjects {
	return &memObjects{tables: map[uint64]*manifest.TableMetadata{}, backings: map[uint64]*manifest.TableBacking{},
		blobs: map[uint64]*manifest.PhysicalBlobFile{}}
}

func (o *memObjects) table(ts *TableSpec) *manifest.TableMetadata {
	m := &manifest.TableMetadata{
		TableNum:              base.TableNum(ts.Num),
		Size:                  ts.Size,
		CreationTime:          ts.CreationTime,
		SeqNums:               base.SeqNumRange{Low: base.SeqNum(ts.SeqLow), High: base.SeqNum(ts.SeqHigh)},
		LargestSeqNumAbsolute: base.SeqNum(ts.SeqHigh + ts.AbsExtra),
		Virtual:               ts.Virtual,
		BlobReferenceDepth:    manifest.BlobReferenceDepth(ts.Depth),
	}
	if len(ts.Prefix) > 0 || len(ts.Suffix) > 0 {
		m.SyntheticPrefixAndSuffix = sstable.MakeSyntheticPrefixAndSuffix(append([]byte{}, ts.Prefix...), append([]byte{}, ts.Suffix...))
	}
	for _, r := range ts.Refs {
		m.BlobReferences = append(m.BlobReferences, manifest.BlobReference{FileID: base.BlobFileID(r.ID), ValueSize: r.VS, BackingValueSize: r.BVS})
	}
	if ts.HasPoint {
		m.ExtendPointKeyBounds(cmpBytes, ikey(ts.PointSm), ikey(ts.PointLa))
	}
	if ts.HasRange {
		kinds := manifest.AnyRangeKeys
		if ts.NoRangeSets {
			kinds = manifest.OnlyRangeKeyUnsetAndDelete
		}
		m.ExtendRangeKeyBounds(cmpBytes, kinds, ikey(ts.RangeSm), ikey(ts.RangeLa))
	}
	if ts.Virtual {
		m.AttachVirtualBacking(o.backings[ts.Backing])
	} else {
		m.InitPhysicalBacking()
	}
	return m
}

// edit builds the in-memory form of an edit (table metadata pointers in
// DeletedTables / TablesMarkedForCompaction, backings attached, blob file
// pointers in DeletedBlobFiles).
func (o *memObjects) edit(e *EditSpec) *manifest.VersionEdit {
	ve := &manifest.VersionEdit{
		ComparerName:       e.Comparer,
		MinUnflushedLogNum: base.DiskFileNum(e.LogNum),
		ObsoletePrevLogNum: e.PrevLogNum,
		NextFileNum:        e.NextFileNum,
		LastSeqNum:         base.SeqNum(e.LastSeqNum),
	}
	for _, c := range e.Created {
		var b *manifest.TableBacking
		if t, ok := o.tables[c.Num]; ok && !t.Virtual {
			b = t.TableBacking // a physical table being virtualized shares its backing
		} else {
			b = &manifest.TableBacking{DiskFileNum: base.DiskFileNum(c.Num), Size: c.Size}
		}
		o.backings[c.Num] = b
		ve.CreatedBackingTables = append(ve.CreatedBackingTables, b)
	}
	for _, d := range e.Deleted {
		if ve.DeletedTables == nil {
			ve.DeletedTables = map[manifest.DeletedTableEntry]*manifest.TableMetadata{}
		}
		ve.DeletedTables[manifest.DeletedTableEntry{Level: d.Level, FileNum: base.FileNum(d.Num)}] = o.tables[d.Num]
	}
	for i := range e.New {
		n := &e.New[i]
		var m *manifest.TableMetadata
		if n.Move {
			m = o.tables[n.T.Num]
		} else {
			m = o.table(&n.T)
			o.tables[n.T.Num] = m
		}
		ve.NewTables = append(ve.NewTables, manifest.NewTableEntry{Level: n.Level, Meta: m})
	}
	for _, r := range e.Removed {
		ve.RemovedBackingTables = append(ve.RemovedBackingTables, base.DiskFileNum(r))
	}
	for _, d := range e.DelBlobs {
		if ve.DeletedBlobFiles == nil {
			ve.DeletedBlobFiles = map[manifest.DeletedBlobFileEntry]*manifest.PhysicalBlobFile{}
		}
		ve.DeletedBlobFiles[manifest.DeletedBlobFileEntry{FileID: base.BlobFileID(d.ID), FileNum: base.DiskFileNum(d.FileNum)}] = o.blobs[d.FileNum]
	}
	for _, nb := range e.NewBlobs {
		p := &manifest.PhysicalBlobFile{FileNum: base.DiskFileNum(nb.FileNum), Size: nb.Size, ValueSize: nb.ValueSize, CreationTime: nb.CTime}
		o.blobs[nb.FileNum] = p
		ve.NewBlobFiles = append(ve.NewBlobFiles, manifest.BlobFileMetadata{FileID: base.BlobFileID(nb.ID), Physical: p})
	}
	for _, x := range e.Excise {
		ve.ExciseBoundsRecord = append(ve.ExciseBoundsRecord, manifest.ExciseOpEntry{
			Bounds: base.UserKeyBounds{Start: append([]byte{}, x.Start...), End: base.UserKeyExclusiveIf(append([]byte{}, x.End...), x.Exclusive)},
			SeqNum: base.SeqNum(x.Seq),
		})
	}
	for _, mk := range e.Marks {
		ve.TablesMarkedForCompaction = append(ve.TablesMarkedForCompaction, manifest.TableMarkedForCompactionEntry{
			Level: mk.Level, TableNum: base.TableNum(mk.Num), Meta: o.tables[mk.Num]})
	}
	return ve
}

// ---------------------------------------------------------------------------

func hexIKey(k base.InternalKey) string {
	return fmt.Sprintf("%x#%d,%d", k.UserKey, uint64(k.Trailer)>>8, uint8(k.Trailer))
}

// canonDecoded renders the persisted content of a decoded edit in the format
// of canonSpec.
func canonDecoded(ve *manifest.VersionEdit) string {
	var b strings.Builder
	fmt.Fprintf(&b, "comparer=%q log=%d prevlog=%d nextfile=%d lastseq=%d\n", ve.ComparerName, uint64(ve.MinUnflushedLogNum),
		ve.ObsoletePrevLogNum, ve.NextFileNum, uint64(ve.LastSeqNum))
	dels := make([]string, 0, len(ve.DeletedTables))
	for d := range ve.DeletedTables {
		dels = append(dels, fmt.Sprintf("del L%d %020d", d.Level, uint64(d.FileNum)))
	}
	sort.Strings(dels)
	for _, d := range dels {
		b.WriteString(d + "\n")
	}
	for _, nt := range ve.NewTables {
		m := nt.Meta
		fmt.Fprintf(&b, "new L%d %d size=%d ctime=%d seq=[%d,%d] abs=%d", nt.Level, uint64(m.TableNum), m.Size, m.CreationTime,
			uint64(m.SeqNums.Low), uint64(m.SeqNums.High), uint64(m.LargestSeqNumAbsolute))
		if m.HasPointKeys {
			fmt.Fprintf(&b, " points=[%s,%s]", hexIKey(m.PointKeyBounds.Smallest()), hexIKey(m.PointKeyBounds.Largest()))
		}
		if m.HasRangeKeys {
			fmt.Fprintf(&b, " ranges=[%s,%s] nosets=%t", hexIKey(m.RangeKeyBounds.Smallest()), hexIKey(m.RangeKeyBounds.Largest()),
				m.RangeKeyKinds == manifest.OnlyRangeKeyUnsetAndDelete)
			if m.RangeKeyKinds == manifest.NoRangeKeys {
				fmt.Fprintf(&b, " INCONSISTENT-range-key-kinds")
			}
		} else if m.RangeKeyKinds != manifest.NoRangeKeys {
			fmt.Fprintf(&b, " INCONSISTENT-range-key-kinds=%d", m.RangeKeyKinds)
		}
		fmt.Fprintf(&b, " bounds=[%s,%s]", hexIKey(m.Smallest()), hexIKey(m.Largest()))
		if m.Virtual {
			fmt.Fprintf(&b, " virtual backing=%d", uint64(nt.BackingFileNum))
		}
		fmt.Fprintf(&b, " prefix=%x suffix=%x", []byte(m.SyntheticPrefixAndSuffix.Prefix()), []byte(m.SyntheticPrefixAndSuffix.Suffix()))
		if len(m.BlobReferences) > 0 || m.BlobReferenceDepth != 0 {
			fmt.Fprintf(&b, " depth=%d refs=", uint64(m.BlobReferenceDepth))
			for _, r := range m.BlobReferences {
				if m.Virtual {
					fmt.Fprintf(&b, "(%d:%d/%d)", uint64(r.FileID), r.ValueSize, r.BackingValueSize)
				} else {
					fmt.Fprintf(&b, "(%d:%d/-)", uint64(r.FileID), r.ValueSize)
				}
			}
		}
		b.WriteString("\n")
	}
	for _, c := range ve.CreatedBackingTables {
		fmt.Fprintf(&b, "created %d size=%d\n", uint64(c.DiskFileNum), c.Size)
	}
	for _, r := range ve.RemovedBackingTables {
		fmt.Fprintf(&b, "removed %d\n", uint64(r))
	}
	for _, nb := range ve.NewBlobFiles {
		fmt.Fprintf(&b, "newblob %d file=%d size=%d vsize=%d ctime=%d\n", uint64(nb.FileID), uint64(nb.Physical.FileNum), nb.Physical.Size,
			nb.Physical.ValueSize, nb.Physical.CreationTime)
	}
	dbs := make([]string, 0, len(ve.DeletedBlobFiles))
	for d := range ve.DeletedBlobFiles {
		dbs = append(dbs, fmt.Sprintf("delblob %020d %020d", uint64(d.FileID), uint64(d.FileNum)))
	}
	sort.Strings(dbs)
	for _, d := range dbs {
		b.WriteString(d + "\n")
	}
	for _, x := range ve.ExciseBoundsRecord {
		fmt.Fprintf(&b, "excise %x %x excl=%t seq=%d\n", x.Bounds.Start, x.Bounds.End.Key, x.Bounds.End.Kind == base.Exclusive, uint64(x.SeqNum))
	}
	for _, mk := range ve.TablesMarkedForCompaction {
		fmt.Fprintf(&b, "mark L%d %d\n", mk.Level, uint64(mk.TableNum))
	}
	return b.String()
}

// attachBackings gives every decoded virtual table without a backing the
// backing registered for its BackingFileNum ("the responsibility is left to
// the caller", doc of VersionEdit.Decode). Unknown backings get a placeholder
// of size 0. Tables whose bounds have nil user keys cannot go through
// AttachVirtualBacking (documented precondition: bounds set), so the exported
// field is set directly; Encode only needs TableBacking.DiskFileNum.
func attachBackings(ve *manifest.VersionEdit, reg map[uint64]*manifest.TableBacking) {
	for _, c := range ve.CreatedBackingTables {
		if reg != nil {
			reg[uint64(c.DiskFileNum)] = c
		}
	}
	for _, nt := range ve.NewTables {
		m := nt.Meta
		if !m.Virtual || m.TableBacking != nil {
			continue
		}
		b := reg[uint64(nt.BackingFileNum)]
		if b == nil {
			b = &manifest.TableBacking{DiskFileNum: nt.BackingFileNum}
		}
		if m.Smallest().UserKey == nil || m.Largest().UserKey == nil {
			m.TableBacking = b
		} else {
			m.AttachVirtualBacking(b)
		}
	}
}

func encodeEdit(ve *manifest.VersionEdit) ([]byte, error) {
	var buf bytes.Buffer
	if err := ve.Encode(&buf); err != nil {
		return nil, err
	}
	return buf.Bytes(), nil
}

func decodeEdit(b []byte) (*manifest.VersionEdit, error) {
	ve := &manifest.VersionEdit{}
	if err := ve.Decode(bytes.NewReader(b)); err != nil {
		return nil, err
	}
	return ve, nil
}

// sameEncoding compares two encodings of equal edits. Encode iterates over the
// DeletedTables / DeletedBlobFiles maps, so with two or more entries in either
// map the record order is unspecified; then only the length and the byte
// histogram are compared (the records are position independent).
func sameEncoding(a, b []byte, deterministic bool) error {
	if deterministic {
		if !bytes.Equal(a, b) {
			return fmt.Errorf("re-encoding differs:\n  first  %x\n  second %x", a, b)
		}
		return nil
	}
	if len(a) != len(b) {
		return fmt.Errorf("re-encoding has different length %d vs %d:\n  first  %x\n  second %x", len(a), len(b), a, b)
	}
	var ha, hb [256]int
	for i := range a {
		ha[a[i]]++
		hb[b[i]]++
	}
	if ha != hb {
		return fmt.Errorf("re-encoding has different content:\n  first  %x\n  second %x", a, b)
	}
	return nil
}

// ---------------------------------------------------------------------------
// Applying edits.

type applier struct {
	decoded  bool
	v        *manifest.Version
	allAdded map[base.TableNum]*manifest.TableMetadata
	carry    map[base.DiskFileNum]*manifest.TableBacking
	live     map[uint64]uint64 // live virtual backings -> size
	applies  int
}

func newApplier(decoded bool) *applier {
	a := &applier{decoded: decoded, v: manifest.NewInitialVersion(base.DefaultComparer), live: map[uint64]uint64{}}
	if decoded {
		a.allAdded = map[base.TableNum]*manifest.TableMetadata{}
	}
	return a
}

// apply accumulates the edits into one BulkVersionEdit and applies it.
//
// Decoded edits are replayed the way recovery does it (AllAddedTables shared
// across the history). The set of backings created so far is carried from one
// bulk edit to the next through the exported AddedFileBacking field, because a
// later edit may add a virtual table on a backing created by an earlier edit
// and Accumulate resolves BackingFileNum only through that map.
func (a *applier) apply(edits []*manifest.VersionEdit) error {
	var bve manifest.BulkVersionEdit
	if a.decoded {
		bve.AllAddedTables = a.allAdded
		bve.AddedFileBacking = a.carry
	}
	for i, ve := range edits {
		if err := bve.Accumulate(ve); err != nil {
			return fmt.Errorf("Accumulate(edit %d of %d): %w", i, len(edits), err)
		}
	}
	nv, err := bve.Apply(a.v, 32000)
	if err != nil {
		return fmt.Errorf("Apply: %w", err)
	}
	a.v = nv
	a.applies++
	if a.decoded {
		a.carry = bve.AddedFileBacking
		a.live = map[uint64]uint64{}
		for k, b := range bve.AddedFileBacking {
			a.live[uint64(k)] = b.Size
		}
		if len(bve.RemovedFileBacking) > 0 {
			return fmt.Errorf("bulk edit reports removal of backings %v that were never created in this history", bve.RemovedFileBacking)
		}
		return nil
	}
	for k, b := range bve.AddedFileBacking {
		a.live[uint64(k)] = b.Size
	}
	for _, r := range bve.RemovedFileBacking {
		if _, ok := a.live[uint64(r)]; !ok {
			return fmt.Errorf("bulk edit reports removal of unknown backing %d", r)
		}
		delete(a.live, uint64(r))
	}
	return nil
}

// summary is what is compared between replays and against the model.
type summary struct {
	Debug    string
	Tables   []string
	RangeTbl []string
	Blobs    []string
	Marks    []string
	Backings []string
}

func summarize(a *applier) summary {
	var s summary
	v := a.v
	s.Debug = v.DebugString()
	for l := range v.Levels {
		for f := range v.Levels[l].All() {
			s.Tables = append(s.Tables, fmt.Sprintf("L%d:%06d", l, uint64(f.TableNum)))
		}
		for f := range v.RangeKeyLevels[l].All() {
			s.RangeTbl = append(s.RangeTbl, fmt.Sprintf("L%d:%06d", l, uint64(f.TableNum)))
		}
	}
	for bf := range v.BlobFiles.All() {
		s.Blobs = append(s.Blobs, fmt.Sprintf("%06d->%06d size=%d vsize=%d ctime=%d", uint64(bf.FileID), uint64(bf.Physical.FileNum),
			bf.Physical.Size, bf.Physical.ValueSize, bf.Physical.CreationTime))
	}
	for meta, level := range v.MarkedForCompaction.Ascending() {
		s.Marks = append(s.Marks, fmt.Sprintf("L%d:%06d", level, uint64(meta.TableNum)))
	}
	for k, sz := range a.live {
		s.Backings = append(s.Backings, fmt.Sprintf("%06d size=%d", k, sz))
	}
	sort.Strings(s.Tables)
	sort.Strings(s.RangeTbl)
	sort.Strings(s.Blobs)
	sort.Strings(s.Marks)
	sort.Strings(s.Backings)
	return s
}

// expected state, computed from the plan alone.
type expState struct {
	tables   map[uint64]int // table -> level
	hasRange map[uint64]bool
	blobs    map[uint64]BlobSpec
	marks    map[uint64]int
	backings map[uint64]uint64
}

func newExpState() *expState {
	return &expState{tables: map[uint64]int{}, hasRange: map[uint64]bool{}, blobs: map[uint64]BlobSpec{}, marks: map[uint64]int{}, backings: map[uint64]uint64{}}
}

func (x *expState) apply(e *EditSpec) error {
	for _, d := range e.Deleted {
		if l, ok := x.tables[d.Num]; !ok || l != d.Level {
			return fmt.Errorf("harness: plan deletes table %d from L%d where it is not", d.Num, d.Level)
		}
		delete(x.tables, d.Num)
		delete(x.marks, d.Num)
	}
	for i := range e.New {
		n := &e.New[i]
		if _, ok := x.tables[n.T.Num]; ok {
			return fmt.Errorf("harness: plan adds live table %d", n.T.Num)
		}
		x.tables[n.T.Num] = n.Level
		x.hasRange[n.T.Num] = n.T.HasRange
	}
	for _, d := range e.DelBlobs {
		if b, ok := x.blobs[d.ID]; !ok || b.FileNum != d.FileNum {
			return fmt.Errorf("harness: plan deletes unknown blob file %d/%d", d.ID, d.FileNum)
		}
		delete(x.blobs, d.ID)
	}
	for _, nb := range e.NewBlobs {
		x.blobs[nb.ID] = nb
	}
	for _, c := range e.Created {
		x.backings[c.Num] = c.Size
	}
	for _, r := range e.Removed {
		delete(x.backings, r)
	}
	for _, m := range e.Marks {
		x.marks[m.Num] = m.Level
	}
	return nil
}

func (x *expState) summary() summary {
	var s summary
	for n, l := range x.tables {
		s.Tables = append(s.Tables, fmt.Sprintf("L%d:%06d", l, n))
		if x.hasRange[n] {
			s.RangeTbl = append(s.RangeTbl, fmt.Sprintf("L%d:%06d", l, n))
		}
	}
	for _, b := range x.blobs {
		s.Blobs = append(s.Blobs, fmt.Sprintf("%06d->%06d size=%d vsize=%d ctime=%d", b.ID, b.FileNum, b.Size, b.ValueSize, b.CTime))
	}
	for n, l := range x.marks {
		s.Marks = append(s.Marks, fmt.Sprintf("L%d:%06d", l, n))
	}
	for k, sz := range x.backings {
		s.Backings = append(s.Backings, fmt.Sprintf("%06d size=%d", k, sz))
	}
	sort.Strings(s.Tables)
	sort.Strings(s.RangeTbl)
	sort.Strings(s.Blobs)
	sort.Strings(s.Marks)
	sort.Strings(s.Backings)
	return s
}

func diffLists(what string, got, want []string) error {
	if strings.Join(got, "\n") != strings.Join(want, "\n") {
		return fmt.Errorf("%s differ:\n  got  %v\n  want %v", what, got, want)
	}
	return nil
}

func (s summary) sameContent(want summary) error {
	for _, c := range []struct {
		what      string
		got, want []string
	}{{"tables", s.Tables, want.Tables}, {"range-key tables", s.RangeTbl, want.RangeTbl}, {"blob files", s.Blobs, want.Blobs},
		{"marked-for-compaction", s.Marks, want.Marks}, {"virtual backings", s.Backings, want.Backings}} {
		if err := diffLists(c.what, c.got, c.want); err != nil {
			return err
		}
	}
	return nil
}
