package versionedit

// Byte-level machinery: a reference encoder for the MANIFEST record format
// (used only to *produce inputs*), a pre-screening walker that finds
// length-prefixed fields whose declared length exceeds the input (Decode
// allocates the declared length before reading), mutations and a seed corpus.

import (
	"encoding/binary"
	"io"
	"os"
	"path/filepath"
	"sort"
	"sync"

	"github.com/cockroachdb/pebble/internal/invariants"
	"github.com/cockroachdb/pebble/record"
	"pgregory.net/rapid"
)

// MANIFEST tags (internal/manifest/version_edit.go).
const (
	tagComparator      = 1
	tagLogNumber       = 2
	tagNextFileNumber  = 3
	tagLastSequence    = 4
	tagCompactPointer  = 5
	tagDeletedFile     = 6
	tagNewFile         = 7
	tagPrevLogNumber   = 9
	tagExcise          = 10
	tagMarked          = 11
	tagNewFile2        = 100
	tagNewFile3        = 102
	tagNewFile4        = 103
	tagNewFile5        = 104
	tagCreatedBacking  = 105
	tagRemovedBacking  = 106
	tagNewBlobFile     = 107
	tagDeletedBlobFile = 108

	ctTerminate       = 1
	ctNeedsCompaction = 2
	ctCreationTime    = 6
	ctNoRangeKeySets  = 7
	ctPathID          = 65
	ctVirtual         = 66
	ctPrefix          = 67
	ctSuffix          = 68
	ctBlobRefs        = 69
	ctBlobRefs2       = 70
)

// ---------------------------------------------------------------------------
// Screening walker.

type walker struct {
	b   []byte
	pos int
	// alloc is the allocation Decode would attempt for the first
	// length-prefixed field whose declared length exceeds the remaining input.
	alloc uint64
	hit   bool
}

func (w *walker) uvarint() (uint64, bool) {
	v, n := binary.Uvarint(w.b[w.pos:])
	if n <= 0 {
		return 0, false
	}
	w.pos += n
	return v, true
}

func (w *walker) uvarints(k int) bool {
	for i := 0; i < k; i++ {
		if _, ok := w.uvarint(); !ok {
			return false
		}
	}
	return true
}

func (w *walker) field() ([]byte, bool) {
	n, ok := w.uvarint()
	if !ok {
		return nil, false
	}
	if n > uint64(len(w.b)-w.pos) {
		w.alloc, w.hit = n, true
		return nil, false
	}
	f := w.b[w.pos : w.pos+int(n)]
	w.pos += int(n)
	return f, true
}

func (w *walker) fields(k int) bool {
	for i := 0; i < k; i++ {
		if _, ok := w.field(); !ok {
			return false
		}
	}
	return true
}

// screen walks the input the way VersionEdit.Decode reads it and reports the
// size of the first allocation that is not backed by input bytes. The walker is
// deliberately permissive (it keeps walking where Decode would already have
// returned a validation error), so it can only over-report.
func screen(b []byte) (alloc uint64, hit bool) {
	w := &walker{b: b}
	w.walk()
	return w.alloc, w.hit
}

func (w *walker) walk() {
	for w.pos < len(w.b) {
		tag, ok := w.uvarint()
		if !ok {
			return
		}
		switch tag {
		case tagComparator:
			ok = w.fields(1)
		case tagLogNumber, tagNextFileNumber, tagLastSequence, tagPrevLogNumber, tagRemovedBacking:
			ok = w.uvarints(1)
		case tagCompactPointer:
			ok = w.uvarints(1) && w.fields(1)
		case tagCreatedBacking, tagDeletedFile, tagDeletedBlobFile, tagMarked:
			ok = w.uvarints(2)
		case tagNewBlobFile:
			ok = w.uvarints(5)
		case tagExcise:
			ok = w.fields(2) && w.uvarints(2)
		case tagNewFile, tagNewFile2, tagNewFile3, tagNewFile4, tagNewFile5:
			ok = w.newFile(tag)
		default:
			return
		}
		if !ok {
			return
		}
	}
}

func (w *walker) newFile(tag uint64) bool {
	if !w.uvarints(2) {
		return false
	}
	if tag == tagNewFile3 && !w.uvarints(1) {
		return false
	}
	if !w.uvarints(1) {
		return false
	}
	if tag != tagNewFile5 {
		if !w.fields(2) {
			return false
		}
	} else {
		if w.pos >= len(w.b) {
			return false
		}
		marker := w.b[w.pos]
		w.pos++
		if marker&1 != 0 {
			if !w.fields(2) {
				return false
			}
		} else if marker&6 != 0 {
			return false
		}
		if !w.fields(2) {
			return false
		}
	}
	if tag != tagNewFile && !w.uvarints(2) {
		return false
	}
	if tag != tagNewFile4 && tag != tagNewFile5 {
		return true
	}
	for {
		ct, ok := w.uvarint()
		if !ok {
			return false
		}
		switch ct {
		case ctTerminate:
			return true
		case ctNeedsCompaction:
			if invariants.Enabled {
				return false
			}
			if !w.fields(1) {
				return false
			}
		case ctPathID:
			return false
		case ctVirtual:
			if !w.uvarints(1) {
				return false
			}
		case ctBlobRefs, ctBlobRefs2:
			if !w.uvarints(1) {
				return false
			}
			n, ok := w.uvarint()
			if !ok {
				return false
			}
			if n > uint64(len(w.b)-w.pos) {
				// make([]BlobReference, n): 32 bytes per element.
				w.hit = true
				if n >= 1<<58 {
					w.alloc = 1 << 63
				} else {
					w.alloc = n * 32
				}
				return false
			}
			per := 2
			if ct == ctBlobRefs2 {
				per = 3
			}
			if !w.uvarints(per * int(n)) {
				return false
			}
		default:
			if ct&64 != 0 && ct != ctPrefix && ct != ctSuffix {
				return false
			}
			if !w.fields(1) {
				return false
			}
		}
	}
}

// ---------------------------------------------------------------------------
// Reference encoder (input production only).

type enc struct{ b []byte }

func (e *enc) uv(v uint64)    { e.b = binary.AppendUvarint(e.b, v) }
func (e *enc) bytes(p []byte) { e.uv(uint64(len(p))); e.b = append(e.b, p...) }
func (e *enc) key(k *KeySpec) {
	e.uv(uint64(len(k.User) + 8))
	e.b = append(e.b, k.User...)
	e.b = binary.LittleEndian.AppendUint64(e.b, k.trailer())
}

type encOpts struct {
	Legacy          int  // 1: tagNewFile (no seqnums), 2: tagNewFile3 (path id), for tables without custom fields
	CompactPointer  bool // add an (ignored) compact-pointer record
	JunkCustom      bool // add an unknown, safe-to-ignore custom field
	NeedsCompaction bool // add the deprecated needs-compaction custom field
	ForceCustom     bool // use tagNewFile4 even without custom fields
	PhysRefs2       bool // write blob references of physical tables with the v2 tag
}

func refEncodeTable(e *enc, level int, t *TableSpec, o encOpts) {
	custom := t.CreationTime != 0 || t.Virtual || len(t.Refs) > 0 || t.Depth != 0 || t.NoRangeSets || len(t.Prefix) > 0 || len(t.Suffix) > 0 ||
		o.JunkCustom || o.NeedsCompaction || o.ForceCustom
	tag := uint64(tagNewFile2)
	switch {
	case t.HasRange:
		tag = tagNewFile5
	case custom:
		tag = tagNewFile4
	case o.Legacy == 1:
		tag = tagNewFile
	case o.Legacy == 2:
		tag = tagNewFile3
	}
	e.uv(tag)
	e.uv(uint64(level))
	e.uv(t.Num)
	if tag == tagNewFile3 {
		e.uv(0)
	}
	e.uv(t.Size)
	if !t.HasRange {
		e.key(t.PointSm)
		e.key(t.PointLa)
	} else {
		var marker byte
		sm, la := t.smallest(), t.largest()
		if t.HasPoint {
			marker |= 1
			if icmp(sm, *t.PointSm) == 0 {
				marker |= 2
			}
			if icmp(la, *t.PointLa) == 0 {
				marker |= 4
			}
		}
		e.b = append(e.b, marker)
		if t.HasPoint {
			e.key(t.PointSm)
			e.key(t.PointLa)
		}
		e.key(t.RangeSm)
		e.key(t.RangeLa)
	}
	if tag != tagNewFile {
		e.uv(t.SeqLow)
		e.uv(t.SeqHigh)
	}
	if tag != tagNewFile4 && tag != tagNewFile5 {
		return
	}
	if o.JunkCustom {
		e.uv(33)
		e.bytes([]byte("junk"))
	}
	if t.CreationTime != 0 {
		e.uv(ctCreationTime)
		e.bytes(binary.AppendUvarint(nil, uint64(t.CreationTime)))
	}
	if o.NeedsCompaction {
		e.uv(ctNeedsCompaction)
		e.bytes([]byte{1})
	}
	if t.HasRange && t.NoRangeSets {
		e.uv(ctNoRangeKeySets)
		e.bytes(nil)
	}
	if t.Virtual {
		e.uv(ctVirtual)
		e.uv(t.Backing)
	}
	if len(t.Prefix) > 0 {
		e.uv(ctPrefix)
		e.bytes(t.Prefix)
	}
	if len(t.Suffix) > 0 {
		e.uv(ctSuffix)
		e.bytes(t.Suffix)
	}
	if len(t.Refs) > 0 || t.Depth != 0 {
		v2 := false
		if t.Virtual || o.PhysRefs2 {
			for _, r := range t.Refs {
				v2 = v2 || r.BVS > 0
			}
		}
		if v2 {
			e.uv(ctBlobRefs2)
		} else {
			e.uv(ctBlobRefs)
		}
		e.uv(t.Depth)
		e.uv(uint64(len(t.Refs)))
		for _, r := range t.Refs {
			e.uv(r.ID)
			e.uv(r.VS)
			if v2 {
				e.uv(r.BVS)
			}
		}
	}
	e.uv(ctTerminate)
}

// refEncode renders an edit in the MANIFEST record format as the decoder
// documents it (always with the custom-field terminator for tagNewFile4/5).
func refEncode(s *EditSpec, o encOpts) []byte {
	e := &enc{}
	if s.Comparer != "" {
		e.uv(tagComparator)
		e.bytes([]byte(s.Comparer))
	}
	if s.LogNum != 0 {
		e.uv(tagLogNumber)
		e.uv(s.LogNum)
	}
	if s.PrevLogNum != 0 {
		e.uv(tagPrevLogNumber)
		e.uv(s.PrevLogNum)
	}
	if s.NextFileNum != 0 {
		e.uv(tagNextFileNumber)
		e.uv(s.NextFileNum)
	}
	if o.CompactPointer {
		e.uv(tagCompactPointer)
		e.uv(3)
		e.bytes([]byte("ptr"))
	}
	for _, r := range s.Removed {
		e.uv(tagRemovedBacking)
		e.uv(r)
	}
	for _, c := range s.Created {
		e.uv(tagCreatedBacking)
		e.uv(c.Num)
		e.uv(c.Size)
	}
	if s.LastSeqNum != 0 || s.Comparer != "" {
		e.uv(tagLastSequence)
		e.uv(s.LastSeqNum)
	}
	for _, d := range s.Deleted {
		e.uv(tagDeletedFile)
		e.uv(uint64(d.Level))
		e.uv(d.Num)
	}
	for i := range s.New {
		refEncodeTable(e, s.New[i].Level, &s.New[i].T, o)
	}
	for _, nb := range s.NewBlobs {
		e.uv(tagNewBlobFile)
		e.uv(nb.ID)
		e.uv(nb.FileNum)
		e.uv(nb.Size)
		e.uv(nb.ValueSize)
		e.uv(nb.CTime)
	}
	for _, d := range s.DelBlobs {
		e.uv(tagDeletedBlobFile)
		e.uv(d.ID)
		e.uv(d.FileNum)
	}
	for _, x := range s.Excise {
		e.uv(tagExcise)
		e.bytes(x.Start)
		e.bytes(x.End)
		if x.Exclusive {
			e.uv(0)
		} else {
			e.uv(1)
		}
		e.uv(x.Seq)
	}
	for _, m := range s.Marks {
		e.uv(tagMarked)
		e.uv(uint64(m.Level))
		e.uv(m.Num)
	}
	return e.b
}

// ---------------------------------------------------------------------------
// Seed corpus: the version-edit records of the MANIFEST files shipped in the
// repository's testdata directories.

var (
	corpusOnce sync.Once
	corpus     [][]byte
)

func repoDir() string {
	if v := os.Getenv("VERIF_REPO"); v != "" {
		return v
	}
	return "/repo"
}

func loadCorpus() [][]byte {
	corpusOnce.Do(func() {
		var files []string
		for _, pat := range []string{"testdata/*/MANIFEST-*", "tool/testdata/*/MANIFEST-*", "tool/testdata/MANIFEST-*", "internal/manifest/testdata/MANIFEST*"} {
			m, _ := filepath.Glob(filepath.Join(repoDir(), pat))
			files = append(files, m...)
		}
		sort.Strings(files)
		for _, fn := range files {
			f, err := os.Open(fn)
			if err != nil {
				continue
			}
			rr := record.NewReader(f, 0)
			for {
				r, err := rr.Next()
				if err != nil {
					break
				}
				b, err := io.ReadAll(io.LimitReader(r, 8<<10))
				if err != nil || len(b) == 0 {
					break
				}
				corpus = append(corpus, b)
			}
			f.Close()
		}
	})
	return corpus
}

// ---------------------------------------------------------------------------
// Generation of byte strings.

var someTags = []uint64{1, 2, 3, 4, 5, 6, 7, 8, 9, 10, 11, 12, 100, 101, 102, 103, 104, 105, 106, 107, 108, 109, 200, 201, 202, 203}

func genTokens(t *rapid.T) []byte {
	e := &enc{}
	nrec := rapid.IntRange(1, 5).Draw(t, "nrec")
	for i := 0; i < nrec; i++ {
		e.uv(rapid.SampledFrom(someTags).Draw(t, "tag"))
		nitems := rapid.IntRange(0, 9).Draw(t, "nitems")
		for j := 0; j < nitems; j++ {
			switch rapid.IntRange(0, 6).Draw(t, "item") {
			case 0, 1:
				e.uv(uint64(rapid.IntRange(0, 8).Draw(t, "small")))
			case 2:
				e.uv(rapid.Uint64().Draw(t, "u64"))
			case 3:
				e.bytes(rapid.SliceOfN(rapid.Byte(), 0, 12).Draw(t, "blob"))
			case 4:
				k := KeySpec{User: rapid.SliceOfN(rapid.Byte(), 0, 4).Draw(t, "uk"), Seq: rapid.Uint64Range(0, seqNumMax).Draw(t, "ks"),
					Kind: uint8(rapid.IntRange(0, 30).Draw(t, "kk"))}
				e.key(&k)
			case 5:
				e.uv(uint64(rapid.SampledFrom([]int{1, 2, 6, 7, 65, 66, 67, 68, 69, 70, 33}).Draw(t, "ct")))
			default:
				// a length prefix that is not backed by data
				e.uv(rapid.OneOf(rapid.Uint64Range(1, 200), rapid.Uint64Range(1<<56, 1<<63)).Draw(t, "badlen"))
			}
		}
	}
	return e.b
}

func mutate(t *rapid.T, b []byte) []byte {
	b = append([]byte{}, b...)
	switch op := rapid.IntRange(0, 8).Draw(t, "mut"); {
	case len(b) == 0 || op == 0:
		return append(b, rapid.SliceOfN(rapid.Byte(), 1, 6).Draw(t, "append")...)
	case op == 1:
		i := rapid.IntRange(0, len(b)-1).Draw(t, "i")
		b[i] ^= 1 << uint(rapid.IntRange(0, 7).Draw(t, "bit"))
	case op == 2:
		i := rapid.IntRange(0, len(b)-1).Draw(t, "i")
		b[i] = rapid.Byte().Draw(t, "byte")
	case op == 3:
		return b[:rapid.IntRange(0, len(b)-1).Draw(t, "trunc")]
	case op == 4:
		i := rapid.IntRange(0, len(b)-1).Draw(t, "i")
		j := rapid.IntRange(i, min(len(b), i+8)).Draw(t, "j")
		return append(b[:i], b[j:]...)
	case op == 5:
		i := rapid.IntRange(0, len(b)).Draw(t, "i")
		ins := rapid.SliceOfN(rapid.Byte(), 1, 4).Draw(t, "ins")
		return append(append(append([]byte{}, b[:i]...), ins...), b[i:]...)
	case op == 6:
		i := rapid.IntRange(0, len(b)-1).Draw(t, "i")
		j := rapid.IntRange(i, min(len(b), i+24)).Draw(t, "j")
		return append(append(append([]byte{}, b[:j]...), b[i:j]...), b[j:]...)
	case op == 7:
		// small arithmetic change of one byte (off-by-one lengths, levels, tags)
		i := rapid.IntRange(0, len(b)-1).Draw(t, "i")
		b[i] += byte(rapid.SampledFrom([]int{1, 255, 2, 254}).Draw(t, "delta"))
	default:
		// replace one byte by an oversized varint (a length far beyond the input)
		i := rapid.IntRange(0, len(b)-1).Draw(t, "i")
		big := binary.AppendUvarint(nil, rapid.Uint64Range(1<<56, 1<<63).Draw(t, "big"))
		return append(append(append([]byte{}, b[:i]...), big...), b[i+1:]...)
	}
	return b
}

func genEncOpts(t *rapid.T) encOpts {
	bits := rapid.IntRange(0, 63).Draw(t, "encopts")
	if rapid.IntRange(0, 1).Draw(t, "plainopts") == 0 {
		bits = 0
	}
	return encOpts{Legacy: rapid.IntRange(0, 2).Draw(t, "legacy"), CompactPointer: bits&1 != 0, JunkCustom: bits&2 != 0,
		NeedsCompaction: bits&4 != 0 && !invariants.Enabled, ForceCustom: bits&8 != 0, PhysRefs2: bits&16 != 0}
}

// genValidEncoding encodes one edit of a short generated history.
func genValidEncoding(t *rapid.T) []byte {
	m := newModel()
	n := rapid.IntRange(1, 5).Draw(t, "hist")
	var edits []EditSpec
	for i := 0; i < n; i++ {
		edits = append(edits, m.genEdit(t, i == 0))
	}
	// prefer the last edit that adds tables (the table record is the complex one)
	pick := len(edits) - 1
	if rapid.IntRange(0, 3).Draw(t, "picklast") == 0 {
		pick = rapid.IntRange(0, len(edits)-1).Draw(t, "pick")
	} else {
		for i := len(edits) - 1; i >= 0; i-- {
			if len(edits[i].New) > 0 {
				pick = i
				break
			}
		}
	}
	e := edits[pick]
	// Spec-level mutations: edits that are well-formed records but that no
	// writer produces (they exercise Decode/Encode asymmetries).
	if len(e.New) > 0 && rapid.IntRange(0, 3).Draw(t, "specmut?") == 0 {
		nw := make([]NewSpec, len(e.New))
		copy(nw, e.New)
		e.New = nw
		ts := &e.New[rapid.IntRange(0, len(e.New)-1).Draw(t, "specmut-table")].T
		switch rapid.IntRange(0, 6).Draw(t, "specmut") {
		case 0:
			ts.Virtual = false // keeps synthetic prefix/suffix and v2 blob references
		case 1:
			ts.CreationTime = 0
		case 2:
			ts.Refs, ts.Depth = nil, rapid.Uint64Range(0, 3).Draw(t, "specmut-depth0")
		case 3:
			ts.Virtual, ts.CreationTime, ts.Refs, ts.Depth = false, 0, nil, 0
		case 4:
			ts.Depth = rapid.Uint64Range(0, 5).Draw(t, "specmut-depth")
		case 5:
			if ts.HasPoint {
				ts.PointSm, ts.PointLa = ts.PointLa, ts.PointSm
			}
		default:
			ts.Prefix = rapid.SliceOfN(rapid.Byte(), 1, 3).Draw(t, "specmut-prefix")
		}
	}
	return refEncode(&e, genEncOpts(t))
}

func genBytes(t *rapid.T) ([]byte, string) {
	var b []byte
	origin := ""
	// (rapid favours small values of k.)
	switch k := rapid.IntRange(0, 15).Draw(t, "base"); {
	case k == 15:
		b, origin = rapid.SliceOfN(rapid.Byte(), 0, 48).Draw(t, "random"), "random"
	case k >= 12:
		b, origin = genTokens(t), "tokens"
	case k >= 9 && len(loadCorpus()) > 0:
		c := loadCorpus()
		b, origin = c[rapid.IntRange(0, len(c)-1).Draw(t, "corpus")], "corpus"
	default:
		b, origin = genValidEncoding(t), "valid"
	}
	nm := rapid.SampledFrom([]int{0, 0, 0, 1, 1, 1, 1, 2, 2, 3}).Draw(t, "nmut")
	for i := 0; i < nm; i++ {
		b = mutate(t, b)
	}
	if nm > 0 {
		origin += "+mut"
	}
	return b, origin
}
