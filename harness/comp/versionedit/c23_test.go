package versionedit

import (
	"fmt"
	"runtime"
	"strings"
	"testing"

	"github.com/cockroachdb/pebble/internal/base"
	"github.com/cockroachdb/pebble/internal/manifest"
	"github.com/cockroachdb/pebble/verifharness/evid"
	"pgregory.net/rapid"
)

const (
	// Unbacked length prefixes above this size get the allocation check.
	allocChecked = 32 << 20
	// What Decode may allocate at most while rejecting such an input.
	allocBudget = 16 << 20
)

// guardedDecode decodes b. Before that the input is walked the way Decode
// reads it (screen): if a length-prefixed field (or the blob-reference count)
// declares more than the input holds, Decode must return an error, and for
// large declared lengths it must do so without allocating anything near the
// declared size (the length prefix is untrusted input). The allocation is
// measured with runtime.MemStats.TotalAlloc around the call; the budget is
// three orders of magnitude above what a streaming decoder needs for inputs of
// a few KiB, so background allocations of the runtime cannot matter.
func guardedDecode(b []byte) (ve *manifest.VersionEdit, decErr error, violation error, unbacked uint64) {
	declared, hit := screen(b)
	if !hit {
		ve, decErr = decodeEdit(b)
		return ve, decErr, nil, 0
	}
	var before, after runtime.MemStats
	if declared > allocChecked {
		runtime.ReadMemStats(&before)
	}
	ve, decErr = decodeEdit(b)
	if declared > allocChecked {
		runtime.ReadMemStats(&after)
		if d := after.TotalAlloc - before.TotalAlloc; d > allocBudget {
			return ve, decErr, fmt.Errorf("Decode allocated %d bytes for a %d-byte input whose length prefix declares %d bytes: %x", d, len(b), declared, b), declared
		}
	}
	if decErr == nil {
		return ve, nil, fmt.Errorf("Decode accepted an input in which a length-prefixed field declares %d bytes beyond the input: %x", declared, b), declared
	}
	return nil, decErr, nil, declared
}

func firstDiff(a, b string) string {
	la, lb := strings.Split(a, "\n"), strings.Split(b, "\n")
	for i := 0; i < len(la) || i < len(lb); i++ {
		var x, y string
		if i < len(la) {
			x = la[i]
		}
		if i < len(lb) {
			y = lb[i]
		}
		if x != y {
			return fmt.Sprintf("line %d:\n    got  %q\n    want %q", i, x, y)
		}
	}
	return "(no difference)"
}

// checkRoundTrip checks Decode(Encode(e)) against the plan, the DebugString
// and the re-encoding.
func checkRoundTrip(i int, es *EditSpec, ve *manifest.VersionEdit, enc []byte, reg map[uint64]*manifest.TableBacking) error {
	d1, err, viol, _ := guardedDecode(enc)
	if viol != nil {
		return fmt.Errorf("edit %d: Encode(e) = %x: %v", i, enc, viol)
	}
	if err != nil {
		return fmt.Errorf("edit %d: Decode(Encode(e)) failed: %v\n  encoding %x\n  edit:\n%s", i, err, enc, canonSpec(es))
	}
	got, want := canonDecoded(d1), canonSpec(es)
	if got != want {
		return fmt.Errorf("edit %d: Decode(Encode(e)) is not equal to e: %s\n  encoding %x", i, firstDiff(got, want), enc)
	}
	attachBackings(d1, reg)
	if a, b := ve.DebugString(base.DefaultFormatter), d1.DebugString(base.DefaultFormatter); a != b {
		return fmt.Errorf("edit %d: DebugString changed across encode/decode: %s", i, firstDiff(b, a))
	}
	enc2, err := encodeEdit(d1)
	if err != nil {
		return fmt.Errorf("edit %d: Encode of the decoded edit failed: %v", i, err)
	}
	det := len(es.Deleted) <= 1 && len(es.DelBlobs) <= 1
	if err := sameEncoding(enc, enc2, det); err != nil {
		return fmt.Errorf("edit %d: %v", i, err)
	}
	d2, err, viol, _ := guardedDecode(enc2)
	if viol != nil {
		return fmt.Errorf("edit %d: re-encoding: %v", i, viol)
	}
	if err != nil {
		return fmt.Errorf("edit %d: Decode of the re-encoding failed: %v", i, err)
	}
	if got2 := canonDecoded(d2); got2 != got {
		return fmt.Errorf("edit %d: second round trip differs: %s", i, firstDiff(got2, got))
	}
	return nil
}

func seqLabels(p *SeqPlan, out *evid.Outcome) {
	seen := map[string]bool{}
	add := func(l string) {
		if !seen[l] {
			seen[l] = true
			out.Labels = append(out.Labels, l)
		}
	}
	add("mode=seq")
	if p.Split == 0 {
		add("seq:bulk-from-empty")
	} else {
		add("seq:bulk-on-prefix")
	}
	switch n := len(p.Edits); {
	case n <= 3:
		add("seq:edits=1-3")
	case n <= 8:
		add("seq:edits=4-8")
	default:
		add("seq:edits=9-12")
	}
	for i := range p.Edits {
		e := &p.Edits[i]
		add("op=" + e.Op)
		richNew := false
		for j := range e.New {
			t := &e.New[j].T
			if e.New[j].Move {
				add("has-move")
			}
			if t.Virtual {
				add("has-virtual")
				richNew = true
			}
			if len(t.Refs) > 0 {
				add("has-blobref")
				richNew = true
			}
			if t.HasRange {
				add("has-rangekeys")
			}
			if len(t.Prefix) > 0 || len(t.Suffix) > 0 {
				add("has-synthetic")
			}
			if t.CreationTime == 0 {
				add("has-zero-ctime")
			}
			if t.rangeKeysOnlyCustom() {
				add("has-rangekey-table-without-other-custom-field")
			}
		}
		if richNew && len(e.Deleted) > 0 {
			out.NonTrivial = true
		}
		if i >= p.Split && len(e.Deleted) > 0 {
			add("bulk-has-deletion")
		}
		if len(e.Deleted) >= 2 {
			add("has-multi-delete")
		}
		if len(e.Marks) > 0 {
			add("has-marks")
		}
		if len(e.Excise) > 0 {
			add("has-excise")
		}
		if len(e.Removed) > 0 {
			add("has-removed-backing")
		}
		if len(e.DelBlobs) > 0 && len(e.NewBlobs) > 0 && e.Op == "blobreplace" {
			add("has-blob-replace")
		}
		if len(e.DelBlobs) > 0 {
			add("has-deleted-blob")
		}
		if e.Comparer != "" || e.LogNum != 0 || e.LastSeqNum != 0 || e.NextFileNum != 0 || e.PrevLogNum != 0 {
			add("has-scalars")
		}
	}
}

func execSeq(p *SeqPlan, out *evid.Outcome) error {
	n := len(p.Edits)
	if n == 0 || p.Split < 0 || p.Split >= n {
		return fmt.Errorf("harness: malformed plan")
	}
	seqLabels(p, out)
	out.Counters = map[string]int{"edits": n}

	exp := newExpState()
	stepObj, bulkObj := newMemObjects(), newMemObjects()
	stepMem := make([]*manifest.VersionEdit, n)
	bulkMem := make([]*manifest.VersionEdit, n)
	encs := make([][]byte, n)
	reg := map[uint64]*manifest.TableBacking{}
	for i := range p.Edits {
		es := &p.Edits[i]
		if err := exp.apply(es); err != nil {
			return err
		}
		stepMem[i] = stepObj.edit(es)
		bulkMem[i] = bulkObj.edit(es)
		enc, err := encodeEdit(stepMem[i])
		if err != nil {
			return fmt.Errorf("edit %d: Encode failed: %v", i, err)
		}
		encs[i] = enc
		if err := checkRoundTrip(i, es, stepMem[i], enc, reg); err != nil {
			return err
		}
		out.Counters["roundtrips"]++
	}

	decodeAll := func() ([]*manifest.VersionEdit, error) {
		r := make([]*manifest.VersionEdit, n)
		for i := range encs {
			ve, err := decodeEdit(encs[i]) // screened by checkRoundTrip already
			if err != nil {
				return nil, err
			}
			r[i] = ve
		}
		return r, nil
	}
	run := func(name string, decoded, bulk bool, edits []*manifest.VersionEdit) (summary, error) {
		a := newApplier(decoded)
		upto := n
		if bulk {
			upto = p.Split
		}
		for i := 0; i < upto; i++ {
			if err := a.apply(edits[i : i+1]); err != nil {
				return summary{}, fmt.Errorf("%s: applying edit %d alone: %v", name, i, err)
			}
		}
		if bulk {
			if err := a.apply(edits[p.Split:]); err != nil {
				return summary{}, fmt.Errorf("%s: applying edits [%d,%d) as one bulk edit: %v", name, p.Split, n, err)
			}
		}
		out.Counters["applies"] += a.applies
		return summarize(a), nil
	}
	stepDec, err := decodeAll()
	if err != nil {
		return err
	}
	bulkDec, err := decodeAll()
	if err != nil {
		return err
	}
	want := exp.summary()
	type res struct {
		name string
		s    summary
	}
	var results []res
	for _, c := range []struct {
		name          string
		decoded, bulk bool
		edits         []*manifest.VersionEdit
	}{
		{"in-memory edits one at a time", false, false, stepMem},
		{"in-memory edits accumulated", false, true, bulkMem},
		{"decoded edits one at a time", true, false, stepDec},
		{"decoded edits accumulated", true, true, bulkDec},
	} {
		s, err := run(c.name, c.decoded, c.bulk, c.edits)
		if err != nil {
			return err
		}
		results = append(results, res{c.name, s})
	}
	// The property: one at a time == accumulated.
	for _, pair := range [][2]int{{0, 1}, {2, 3}, {0, 2}} {
		a, b := results[pair[0]], results[pair[1]]
		if a.s.Debug != b.s.Debug {
			return fmt.Errorf("versions differ between %q and %q: %s\n--- %s\n%s--- %s\n%s", a.name, b.name, firstDiff(a.s.Debug, b.s.Debug), a.name, a.s.Debug, b.name, b.s.Debug)
		}
		if err := a.s.sameContent(b.s); err != nil {
			return fmt.Errorf("%q vs %q: %v", a.name, b.name, err)
		}
	}
	// And both equal the content the plan implies.
	for _, r := range results {
		if err := r.s.sameContent(want); err != nil {
			return fmt.Errorf("%s: resulting version does not have the content the edits imply: %v", r.name, err)
		}
	}
	return nil
}

// knownClass classifies a decoded edit: label names an input class that was
// (or is) the subject of a finding about re-encoding; sig is the signature of
// the finding that is still open, if any.
//
//   - range-keys-no-other-custom-field, lone-synthetic-prefix-suffix: repaired
//     in 386163c74 (regression classes, always checked);
//   - depth-without-references: blob-reference depth != 0 with zero references
//     (violates the documented invariant "BlobReferenceDepth == 0 iff
//     len(BlobReferences) == 0"): Decode accepts it, Encode drops the depth.
func knownClass(ve *manifest.VersionEdit) (label, sig string) {
	for _, nt := range ve.NewTables {
		m := nt.Meta
		if len(m.BlobReferences) == 0 && m.BlobReferenceDepth != 0 {
			return "depth-without-references", sigDepthNoRefs
		}
	}
	for _, nt := range ve.NewTables {
		m := nt.Meta
		other := m.CreationTime != 0 || m.Virtual || len(m.BlobReferences) > 0 || m.RangeKeyKinds == manifest.OnlyRangeKeyUnsetAndDelete
		if other {
			continue
		}
		if m.HasRangeKeys {
			return "range-keys-no-other-custom-field", ""
		}
		if m.SyntheticPrefixAndSuffix.HasPrefix() || m.SyntheticPrefixAndSuffix.HasSuffix() {
			return "lone-synthetic-prefix-suffix", ""
		}
	}
	return "", ""
}

// findingActive is evid.FindingActive except for demonstration plans, which
// must always be checked in full.
func findingActive(demo bool, sig string) bool {
	return !demo && evid.FindingActive("C23", sig)
}

func execBytes(b []byte, origin string, demo bool, out *evid.Outcome) error {
	out.Labels = append(out.Labels, "mode=bytes")
	if origin != "" {
		out.Labels = append(out.Labels, "bytes:origin="+origin)
	}
	e1, err, viol, unbacked := guardedDecode(b)
	switch {
	case unbacked == 0:
	case unbacked <= 64<<10:
		out.Labels = append(out.Labels, "bytes:unbacked-length<=64KiB")
	case unbacked < 1<<56:
		out.Labels = append(out.Labels, "bytes:unbacked-length-midrange")
	default:
		out.Labels = append(out.Labels, "bytes:unbacked-length-oversized")
	}
	if viol != nil {
		return viol
	}
	if err != nil {
		out.Labels = append(out.Labels, "bytes:rejected")
		return nil
	}
	out.Labels = append(out.Labels, "bytes:accepted")
	if len(e1.NewTables) > 0 {
		out.NonTrivial = true
		out.Labels = append(out.Labels, "bytes:accepted-with-tables")
		rich := false
		for _, nt := range e1.NewTables {
			rich = rich || nt.Meta.Virtual || len(nt.Meta.BlobReferences) > 0
		}
		if rich && len(e1.DeletedTables) > 0 {
			out.Labels = append(out.Labels, "bytes:accepted-virtual-or-blobref-and-deletion")
		}
	}
	if label, sig := knownClass(e1); label != "" {
		out.Labels = append(out.Labels, "bytes:class="+label)
		if sig != "" && findingActive(demo, sig) {
			out.Excluded = sig
			return nil
		}
	}
	c1 := canonDecoded(e1)
	attachBackings(e1, map[uint64]*manifest.TableBacking{})
	b2, err := encodeEdit(e1)
	if err != nil {
		return fmt.Errorf("Encode of the decoded edit failed: %v\n  input %x", err, b)
	}
	e2, err, viol, _ := guardedDecode(b2)
	if viol != nil {
		return fmt.Errorf("encoding of the decoded edit: %v\n  input %x", viol, b)
	}
	if err != nil {
		return fmt.Errorf("the encoding of the decoded edit does not decode: %v\n  input    %x\n  encoding %x\n  decoded:\n%s", err, b, b2, c1)
	}
	if c2 := canonDecoded(e2); c2 != c1 {
		return fmt.Errorf("Decode(Encode(Decode(input))) differs from Decode(input): %s\n  input    %x\n  encoding %x", firstDiff(c2, c1), b, b2)
	}
	attachBackings(e2, map[uint64]*manifest.TableBacking{})
	b3, err := encodeEdit(e2)
	if err != nil {
		return fmt.Errorf("second Encode failed: %v", err)
	}
	if err := sameEncoding(b2, b3, len(e1.DeletedTables) <= 1 && len(e1.DeletedBlobFiles) <= 1); err != nil {
		return err
	}
	return nil
}

func gen(t *rapid.T) Plan {
	// about 1 400 sequences + 8 600 byte strings in the quick tier.
	// (rapid's integer draws are biased towards small values: two small draws
	// give P(seq) of about 0.14.)
	if rapid.IntRange(0, 3).Draw(t, "mode") == 0 && rapid.IntRange(0, 1).Draw(t, "mode2") == 0 {
		return Plan{Mode: "seq", Seq: genSeq(t)}
	}
	b, origin := genBytes(t)
	return Plan{Mode: "bytes", Bytes: b, Origin: origin}
}

func exec(p Plan) (evid.Outcome, error) {
	var out evid.Outcome
	switch p.Mode {
	case "seq":
		if p.Seq == nil {
			return out, fmt.Errorf("harness: malformed plan")
		}
		err := execSeq(p.Seq, &out)
		return out, err
	case "bytes":
		err := execBytes(p.Bytes, p.Origin, p.Demo, &out)
		return out, err
	}
	return out, fmt.Errorf("harness: unknown plan mode %q", p.Mode)
}

// Demonstration of the open finding (consulted only when listed in
// known_findings.jsonl). The demonstrations of the two repaired findings are
// regression replays now (/verif/replays/C23/fixed-*.json).
func knownPlans() []evid.Known[Plan] {
	rk := func(u string, seq uint64, kind uint8) *KeySpec {
		return &KeySpec{User: []byte(u), Seq: seq, Kind: kind}
	}
	depthOnly := TableSpec{Num: 7, Size: 100, CreationTime: 1700000000, SeqLow: 4, SeqHigh: 4, HasPoint: true, PointSm: rk("k03", 4, kindSet),
		PointLa: rk("k04", 4, kindSet), Depth: 1, Lo: 3, Hi: 4}
	return []evid.Known[Plan]{
		{Signature: sigDepthNoRefs, Plan: Plan{Mode: "bytes", Origin: "known", Demo: true,
			Bytes: refEncode(&EditSpec{New: []NewSpec{{Level: 3, T: depthOnly}}}, encOpts{})}},
	}
}

func samplePlan(p Plan) any {
	if p.Mode == "bytes" {
		return map[string]any{"mode": "bytes", "origin": p.Origin, "hex": fmt.Sprintf("%x", p.Bytes)}
	}
	var ops []string
	for i := range p.Seq.Edits {
		e := &p.Seq.Edits[i]
		ops = append(ops, fmt.Sprintf("%s(-%d +%d)", e.Op, len(e.Deleted), len(e.New)))
	}
	return map[string]any{"mode": "seq", "split": p.Seq.Split, "edits": ops}
}

func TestC23(t *testing.T) {
	evid.Run(t, evid.Spec[Plan]{
		ID: "C23", Level: "exploration",
		Rule: "each case is either (a) a history of 1-12 valid version edits drawn from a metadata simulation (flush, ingest, compaction, move, " +
			"virtualize/excise, external virtual ingest, delete-only, blob-file replacement, marks, scalars; physical and virtual tables, backings, " +
			"blob files/references, range keys, synthetic prefix/suffix, optional fields) or (b) one byte string (random, token-structured, " +
			"a reference encoding of a generated edit incl. legacy tags, or a record of a testdata MANIFEST; 0-3 mutations). " +
			"non-trivial (a) = some edit has >=1 virtual table or blob reference among its new tables and >=1 deleted table; " +
			"non-trivial (b) = Decode accepted the bytes and the decoded edit has >=1 new-table record (re-encode oracle exercised on table metadata); " +
			"distinct = hash of the plan JSON",
		Assumptions: []string{
			"equality of edits = equality of all persisted fields (own rendering), equal DebugString and equal re-encoding; BackingValueSize of non-virtual tables is not persisted by design (testdata/version_edit_decode) and is ignored",
			"decoded virtual tables get their TableBacking from the caller (doc of VersionEdit.Decode); when replaying decoded edits one at a time the AddedFileBacking map is carried to the next BulkVersionEdit",
			"a length prefix that exceeds the remaining input (found by an independent walk of the record) must make Decode fail, and for declared lengths > 32 MiB Decode may allocate at most 16 MiB (runtime.MemStats.TotalAlloc delta)",
			"invariants build tag off (harness builds with -tags verif only)",
		},
		Gen: gen, Exec: exec,
		Quick: 10000, Thorough: 20000,
		Known:  knownPlans(),
		Sample: samplePlan,
	})
}
