package versionedit

import (
	"encoding/json"
	"fmt"
	"os"
	"path/filepath"
	"testing"

	"github.com/cockroachdb/pebble/verifharness/evid"
	"pgregory.net/rapid"
)

// FuzzC23Decode is the native fuzz target for the decode half of C23: for
// arbitrary bytes, VersionEdit.Decode either fails or yields an edit whose
// encoding decodes back to an equal edit; nothing panics. Same oracle as the
// "bytes" mode of TestC23 (execBytes), including the pre-screening of
// length prefixes that are not backed by input and the known-finding classes.
//
// Not part of the quick tier (the driver runs only ^TestC23$). Thorough:
//
//	cd /verif/harness && GOFLAGS=-mod=mod GOPROXY=off go test -tags verif -vet=off \
//	    ./comp/versionedit -run '^$' -fuzz '^FuzzC23Decode$' -fuzztime 3m -parallel 4
func FuzzC23Decode(f *testing.F) {
	// Seeds: reference encodings of generated valid edits (with legacy tags and
	// spec-level mutations), pebble's own encodings of generated histories,
	// records of the repository's testdata MANIFESTs, and the demonstrations of
	// the known findings.
	valid := rapid.Custom(genValidEncoding)
	for seed := 1; seed <= 48; seed++ {
		f.Add(valid.Example(seed))
	}
	seqs := rapid.Custom(genSeq)
	for seed := 1; seed <= 12; seed++ {
		p := seqs.Example(seed)
		obj := newMemObjects()
		for i := range p.Edits {
			if b, err := encodeEdit(obj.edit(&p.Edits[i])); err == nil {
				f.Add(b)
			}
		}
	}
	for i, rec := range loadCorpus() {
		if i < 64 && len(rec) <= 4096 {
			f.Add(rec)
		}
	}
	for _, k := range knownPlans() {
		if k.Plan.Mode == "bytes" {
			f.Add(k.Plan.Bytes)
		}
	}
	f.Fuzz(func(t *testing.T, data []byte) {
		if len(data) > 1<<16 {
			t.Skip()
		}
		var out evid.Outcome
		if err := execBytes(data, "fuzz", false, &out); err != nil {
			t.Fatalf("C23 violated: %v", err)
		}
	})
}

// TestC23DumpKnownPlans writes the demonstration plans of the candidate
// findings as replay files (only when VERIF_DUMP_KNOWN names a directory).
func TestC23DumpKnownPlans(t *testing.T) {
	dir := os.Getenv("VERIF_DUMP_KNOWN")
	if dir == "" {
		t.Skip("VERIF_DUMP_KNOWN not set")
	}
	for i, k := range knownPlans() {
		b, err := json.Marshal(k.Plan)
		if err != nil {
			t.Fatal(err)
		}
		if err := os.WriteFile(filepath.Join(dir, fmt.Sprintf("demo%d-%s.json", i+1, k.Signature)), b, 0o644); err != nil {
			t.Fatal(err)
		}
	}
}
