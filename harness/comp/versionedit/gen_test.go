package versionedit

// Generator of *valid* version-edit histories: a small simulation of LSM
// metadata (levels, virtual tables and their backings, blob files and
// references, marks) that only emits edits the manifest package documents as
// acceptable:
//
//   - BulkVersionEdit invariants (version_edit.go, doc of BulkVersionEdit): a
//     table is never added to the same level twice (globally), never deleted
//     twice, never added and deleted at one level in one edit; a deletion always
//     follows an addition to that level.
//   - tables of levels >= 1 have pairwise disjoint user-key ranges and pass
//     TableMetadata.Validate (consistent bounds, valid bound key kinds, blob
//     reference depth rule, synthetic prefix/suffix only on virtual tables with
//     matching bounds); range-key bounds end with an exclusive sentinel
//     (version.go rangeKeySetRegionBounds).
//   - CreatedBackingTables / RemovedBackingTables follow the INVARIANT comments
//     on VersionEdit; a blob file is added together with a referencing table and
//     deleted in the edit that drops its last reference (what
//     CurrentBlobFileSet.ApplyAndUpdateVersionEdit does in production); a blob
//     file may be replaced (same ID, new physical file).
//   - a table is marked for compaction only if it is not marked already
//     (MarkedForCompactionSet.Insert).

import (
	"bytes"
	"fmt"
	"math"
	"sort"

	"pgregory.net/rapid"
)

const (
	numSlots  = 24
	numLevels = 7
	seqNumMax = uint64(1)<<56 - 1

	kindDelete        = 0
	kindSet           = 1
	kindMerge         = 2
	kindSingleDelete  = 7
	kindRangeDelete   = 15
	kindSetWithDelete = 18
	kindRangeKeyDel   = 19
	kindRangeKeyUnset = 20
	kindRangeKeySet   = 21
	kindDeleteSized   = 23
)

// Signature of the open candidate finding (see NOTES.md). The findings
// "newfile5-without-custom-fields-has-no-terminator" and
// "decode-oversized-length-prefix-allocates-or-panics" are repaired
// (386163c74, d3b896f7c); their classes are generated and checked.
const sigDepthNoRefs = "decoded-blobref-depth-without-references-dropped-on-reencode"

var pointKinds = []uint8{kindDelete, kindSet, kindMerge, kindSingleDelete, kindRangeDelete, kindSetWithDelete, kindDeleteSized}

func slotKey(i int) []byte { return []byte(fmt.Sprintf("k%02d", i)) }

type mTable struct {
	spec    TableSpec
	level   int
	visited [numLevels]bool
	marked  bool
}

type mBacking struct {
	size  uint64
	users int
	refs  []RefSpec // blob references of the backing table
}

type mBlob struct {
	id, fileNum, size, vsize, ctime uint64
	refs                            int
}

type model struct {
	nextNum  uint64
	nextSeq  uint64
	tables   map[uint64]*mTable
	backings map[uint64]*mBacking
	unused   []uint64
	blobs    map[uint64]*mBlob
}

func newModel() *model {
	return &model{nextNum: 1, nextSeq: 1, tables: map[uint64]*mTable{}, backings: map[uint64]*mBacking{}, blobs: map[uint64]*mBlob{}}
}

func (m *model) fresh() uint64 { n := m.nextNum; m.nextNum++; return n }

func (m *model) sortedTables() []uint64 {
	ks := make([]uint64, 0, len(m.tables))
	for k := range m.tables {
		ks = append(ks, k)
	}
	sort.Slice(ks, func(i, j int) bool { return ks[i] < ks[j] })
	return ks
}

func (m *model) sortedBlobs() []uint64 {
	ks := make([]uint64, 0, len(m.blobs))
	for k := range m.blobs {
		ks = append(ks, k)
	}
	sort.Slice(ks, func(i, j int) bool { return ks[i] < ks[j] })
	return ks
}

// freeRuns returns maximal runs [a,b] of unoccupied slots of a level >= 1,
// restricted to [lo,hi].
func (m *model) freeRuns(level, lo, hi int) [][2]int {
	var occ [numSlots]bool
	for _, t := range m.tables {
		if t.level == level {
			for s := t.spec.Lo; s <= t.spec.Hi; s++ {
				occ[s] = true
			}
		}
	}
	var runs [][2]int
	for s := lo; s <= hi; {
		if occ[s] {
			s++
			continue
		}
		e := s
		for e+1 <= hi && !occ[e+1] {
			e++
		}
		runs = append(runs, [2]int{s, e})
		s = e + 1
	}
	return runs
}

// pickInterval draws a slot interval for a new table at the level within
// [lo,hi]; ok=false if the level has no room there.
func (m *model) pickInterval(t *rapid.T, level, lo, hi int) (a, b int, ok bool) {
	if level == 0 {
		a = rapid.IntRange(lo, hi).Draw(t, "lo")
		b = rapid.IntRange(a, min(hi, a+rapid.IntRange(0, 6).Draw(t, "span"))).Draw(t, "hi")
		return a, b, true
	}
	runs := m.freeRuns(level, lo, hi)
	if len(runs) == 0 {
		return 0, 0, false
	}
	r := runs[rapid.IntRange(0, len(runs)-1).Draw(t, "run")]
	a = rapid.IntRange(r[0], r[1]).Draw(t, "lo")
	b = rapid.IntRange(a, min(r[1], a+3)).Draw(t, "hi")
	return a, b, true
}

func (m *model) fits(level, lo, hi int) bool {
	if level == 0 {
		return true
	}
	for _, r := range m.freeRuns(level, lo, hi) {
		if r[0] == lo && r[1] == hi {
			return true
		}
	}
	return false
}

func drawSize(t *rapid.T, label string) uint64 {
	return rapid.OneOf(rapid.Uint64Range(1, 300), rapid.Uint64Range(300, 1<<33), rapid.Uint64Range(1<<33, math.MaxUint64)).Draw(t, label)
}

func drawTail(t *rapid.T) []byte {
	if rapid.IntRange(0, 1).Draw(t, "tail?") == 0 {
		return nil
	}
	return rapid.SliceOfN(rapid.Byte(), 1, 3).Draw(t, "tail")
}

func drawKeySeq(t *rapid.T) uint64 {
	return rapid.OneOf(rapid.Uint64Range(0, 50), rapid.Uint64Range(0, seqNumMax-1)).Draw(t, "kseq")
}

// genBounds draws a (smallest, largest) pair of internal keys inside slots
// [a,b] with smallest <= largest in internal-key order.
func genBounds(t *rapid.T, a, b int, rangeKeys, noSets bool) (sm, la KeySpec) {
	kinds := pointKinds
	if rangeKeys {
		kinds = []uint8{kindRangeKeyDel, kindRangeKeyUnset, kindRangeKeySet}
		if noSets {
			kinds = []uint8{kindRangeKeyDel, kindRangeKeyUnset}
		}
	}
	sm = KeySpec{User: append(slotKey(a), drawTail(t)...), Seq: drawKeySeq(t), Kind: rapid.SampledFrom(kinds).Draw(t, "smkind")}
	exclusive := rangeKeys || rapid.IntRange(0, 9).Draw(t, "excl") < 3
	if exclusive {
		k := uint8(kindRangeDelete)
		if rangeKeys {
			k = rapid.SampledFrom(kinds).Draw(t, "lakind")
		}
		la = KeySpec{Seq: seqNumMax, Kind: k}
		if rapid.IntRange(0, 1).Draw(t, "touch") == 0 {
			la.User = slotKey(b + 1) // the smallest possible key of the next slot
		} else {
			la.User = append(slotKey(b), drawTail(t)...)
		}
		if bytes.Compare(sm.User, la.User) > 0 {
			sm.User, la.User = la.User, sm.User
		}
		if bytes.Equal(sm.User, la.User) {
			la.User = append(append([]byte{}, la.User...), 0)
		}
		return sm, la
	}
	la = KeySpec{User: append(slotKey(b), drawTail(t)...), Seq: drawKeySeq(t), Kind: rapid.SampledFrom(kinds).Draw(t, "lakind")}
	if bytes.Compare(sm.User, la.User) > 0 {
		sm.User, la.User = la.User, sm.User
	}
	if bytes.Equal(sm.User, la.User) && sm.trailer() < la.trailer() {
		sm.Seq, sm.Kind, la.Seq, la.Kind = la.Seq, la.Kind, sm.Seq, sm.Kind
	}
	return sm, la
}

// genTableSpec draws the metadata of a new table occupying slots [lo,hi].
func (m *model) genTableSpec(t *rapid.T, lo, hi int, seqLo, seqHi uint64) TableSpec {
	s := TableSpec{Num: m.fresh(), Size: drawSize(t, "size"), SeqLow: seqLo, SeqHigh: seqHi, Lo: lo, Hi: hi}
	if rapid.IntRange(0, 3).Draw(t, "abs?") == 0 {
		s.AbsExtra = rapid.Uint64Range(1, 1000).Draw(t, "abs")
	}
	switch rapid.IntRange(0, 3).Draw(t, "ctime?") {
	case 0:
	case 1:
		s.CreationTime = rapid.Int64Range(1, 1<<34).Draw(t, "ctime")
	case 2:
		s.CreationTime = rapid.Int64().Draw(t, "ctime")
	default:
		s.CreationTime = 1700000000 + rapid.Int64Range(0, 1<<20).Draw(t, "ctime")
	}
	shape := rapid.IntRange(0, 9).Draw(t, "shape")
	sub := func() (int, int) {
		a := rapid.IntRange(lo, hi).Draw(t, "sa")
		return a, rapid.IntRange(a, hi).Draw(t, "sb")
	}
	switch {
	case shape < 6: // points only
		s.HasPoint = true
		sm, la := genBounds(t, lo, hi, false, false)
		s.PointSm, s.PointLa = &sm, &la
	case shape < 8: // points and range keys
		s.HasPoint, s.HasRange = true, true
		s.NoRangeSets = rapid.IntRange(0, 2).Draw(t, "nosets") == 0
		a, b := sub()
		sm, la := genBounds(t, a, b, false, false)
		s.PointSm, s.PointLa = &sm, &la
		a, b = sub()
		rsm, rla := genBounds(t, a, b, true, s.NoRangeSets)
		s.RangeSm, s.RangeLa = &rsm, &rla
	default: // range keys only
		s.HasRange = true
		s.NoRangeSets = rapid.IntRange(0, 2).Draw(t, "nosets") == 0
		rsm, rla := genBounds(t, lo, hi, true, s.NoRangeSets)
		s.RangeSm, s.RangeLa = &rsm, &rla
	}
	return s
}

type editGen struct {
	m    *model
	t    *rapid.T
	e    *EditSpec
	used map[uint64]bool // tables touched by this edit
	pre  []uint64        // tables that existed before this edit
}

func (g *editGen) candidates() []uint64 {
	var c []uint64
	for _, n := range g.pre {
		if !g.used[n] {
			if _, ok := g.m.tables[n]; ok {
				c = append(c, n)
			}
		}
	}
	return c
}

func (g *editGen) delTable(n uint64) *mTable {
	mt := g.m.tables[n]
	g.used[n] = true
	g.e.Deleted = append(g.e.Deleted, DelSpec{Level: mt.level, Num: n})
	delete(g.m.tables, n)
	for _, r := range mt.spec.Refs {
		g.m.blobs[r.ID].refs--
	}
	if mt.spec.Virtual {
		b := g.m.backings[mt.spec.Backing]
		b.users--
		if b.users == 0 {
			g.m.unused = append(g.m.unused, mt.spec.Backing)
		}
	}
	return mt
}

func (g *editGen) addTable(level int, s TableSpec) {
	mt := &mTable{spec: s, level: level}
	mt.visited[level] = true
	g.m.tables[s.Num] = mt
	g.used[s.Num] = true
	g.e.New = append(g.e.New, NewSpec{Level: level, T: s})
	for _, r := range s.Refs {
		g.m.blobs[r.ID].refs++
	}
	if s.Virtual {
		b := g.m.backings[s.Backing]
		if b.users == 0 {
			// no longer pending removal
			for i, u := range g.m.unused {
				if u == s.Backing {
					g.m.unused = append(g.m.unused[:i], g.m.unused[i+1:]...)
					break
				}
			}
		}
		b.users++
	}
}

// newBlob creates a blob file in this edit (the caller must reference it).
func (g *editGen) newBlob() *mBlob {
	n := g.m.fresh()
	b := &mBlob{id: n, fileNum: n, size: drawSize(g.t, "bsize"), vsize: rapid.Uint64Range(1000, 1<<40).Draw(g.t, "bvsize")}
	if rapid.IntRange(0, 2).Draw(g.t, "bctime?") > 0 {
		b.ctime = rapid.OneOf(rapid.Uint64Range(1, 1<<34), rapid.Uint64()).Draw(g.t, "bctime")
	}
	g.m.blobs[b.id] = b
	g.e.NewBlobs = append(g.e.NewBlobs, BlobSpec{ID: b.id, FileNum: b.fileNum, Size: b.size, ValueSize: b.vsize, CTime: b.ctime})
	return b
}

// drawRefs gives a physical table blob references: optionally a new blob file
// plus a subset of the given live blob ids.
func (g *editGen) drawRefs(s *TableSpec, carry []uint64, pNew int) {
	seen := map[uint64]bool{}
	add := func(id uint64) {
		if seen[id] {
			return
		}
		seen[id] = true
		vs := rapid.Uint64Range(1, 1000).Draw(g.t, "refvs")
		r := RefSpec{ID: id, VS: vs}
		if rapid.IntRange(0, 1).Draw(g.t, "physbvs") == 0 {
			r.BVS = vs // documented: equals ValueSize for physical tables
		}
		s.Refs = append(s.Refs, r)
	}
	if rapid.IntRange(0, 99).Draw(g.t, "newblob?") < pNew {
		add(g.newBlob().id)
	}
	for _, id := range carry {
		if _, live := g.m.blobs[id]; live && rapid.IntRange(0, 1).Draw(g.t, "carry?") == 0 {
			add(id)
		}
	}
	if len(s.Refs) > 0 {
		s.Depth = uint64(rapid.IntRange(1, len(s.Refs)).Draw(g.t, "depth"))
	}
}

func (g *editGen) liveBlobSample() []uint64 {
	ids := g.m.sortedBlobs()
	if len(ids) > 3 {
		i := rapid.IntRange(0, len(ids)-3).Draw(g.t, "blobwin")
		ids = ids[i : i+3]
	}
	return ids
}

func (g *editGen) opFlush() {
	n := rapid.IntRange(1, 3).Draw(g.t, "nflush")
	for i := 0; i < n; i++ {
		lo, hi, _ := g.m.pickInterval(g.t, 0, 0, numSlots-1)
		d := rapid.Uint64Range(0, 20).Draw(g.t, "seqspan")
		s := g.m.genTableSpec(g.t, lo, hi, g.m.nextSeq, g.m.nextSeq+d)
		g.m.nextSeq += d + 1
		g.drawRefs(&s, nil, 45)
		g.addTable(0, s)
	}
}

func (g *editGen) opIngest() {
	n := rapid.IntRange(1, 2).Draw(g.t, "ningest")
	for i := 0; i < n; i++ {
		level := rapid.IntRange(0, numLevels-1).Draw(g.t, "level")
		lo, hi, ok := g.m.pickInterval(g.t, level, 0, numSlots-1)
		if !ok {
			continue
		}
		seq := g.m.nextSeq
		g.m.nextSeq++
		if rapid.IntRange(0, 5).Draw(g.t, "zeroseq") == 0 {
			seq = 0
		}
		s := g.m.genTableSpec(g.t, lo, hi, seq, seq)
		g.drawRefs(&s, g.liveBlobSample(), 20)
		g.addTable(level, s)
	}
}

func (g *editGen) tablesAt(level int) []uint64 {
	var r []uint64
	for _, n := range g.candidates() {
		if g.m.tables[n].level == level {
			r = append(r, n)
		}
	}
	return r
}

func (g *editGen) opCompact() bool {
	var levels []int
	for l := 0; l < numLevels-1; l++ {
		if len(g.tablesAt(l)) > 0 {
			levels = append(levels, l)
		}
	}
	if len(levels) == 0 {
		return false
	}
	l := rapid.SampledFrom(levels).Draw(g.t, "clevel")
	var carry []uint64
	seqLo, seqHi := uint64(math.MaxUint64), uint64(0)
	pickFrom := func(level, lo, hi int) {
		c := g.tablesAt(level)
		n := rapid.IntRange(lo, min(hi, len(c))).Draw(g.t, "ninputs")
		for i := 0; i < n; i++ {
			c = g.tablesAt(level)
			x := c[rapid.IntRange(0, len(c)-1).Draw(g.t, "input")]
			mt := g.delTable(x)
			for _, r := range mt.spec.Refs {
				carry = append(carry, r.ID)
			}
			seqLo, seqHi = min(seqLo, mt.spec.SeqLow), max(seqHi, mt.spec.SeqHigh)
		}
	}
	pickFrom(l, 1, 3)
	pickFrom(l+1, 0, 2)
	nout := rapid.IntRange(0, 3).Draw(g.t, "nout")
	for i := 0; i < nout; i++ {
		lo, hi, ok := g.m.pickInterval(g.t, l+1, 0, numSlots-1)
		if !ok {
			break
		}
		a, b := seqLo, seqHi
		if rapid.IntRange(0, 4).Draw(g.t, "zeroed") == 0 {
			a = 0
		}
		s := g.m.genTableSpec(g.t, lo, hi, a, b)
		g.drawRefs(&s, carry, 15)
		g.addTable(l+1, s)
	}
	return true
}

func (g *editGen) opMove() bool {
	c := g.candidates()
	if len(c) == 0 {
		return false
	}
	n := c[rapid.IntRange(0, len(c)-1).Draw(g.t, "mv")]
	mt := g.m.tables[n]
	var targets []int
	for l := 0; l < numLevels; l++ {
		if !mt.visited[l] && g.m.fits(l, mt.spec.Lo, mt.spec.Hi) {
			targets = append(targets, l)
		}
	}
	if len(targets) == 0 {
		return false
	}
	to := rapid.SampledFrom(targets).Draw(g.t, "mvto")
	wasMarked := mt.marked
	// a move is a deletion plus an addition of the same table: references to
	// blob files and the backing are unchanged.
	g.used[n] = true
	g.e.Deleted = append(g.e.Deleted, DelSpec{Level: mt.level, Num: n})
	mt.level = to
	mt.visited[to] = true
	mt.marked = false // the mark is tied to (table, level); see TableMarkedForCompactionEntry
	g.e.New = append(g.e.New, NewSpec{Level: to, Move: true, T: mt.spec})
	if wasMarked && rapid.IntRange(0, 1).Draw(g.t, "remark") == 0 {
		mt.marked = true
		g.e.Marks = append(g.e.Marks, MarkSpec{Level: to, Num: n})
	}
	return true
}

// virtualPiece draws a virtual table inside [lo,hi] on the given backing.
func (g *editGen) virtualPiece(backing uint64, lo, hi int, seqLo, seqHi uint64, withSynthetic bool) TableSpec {
	s := g.m.genTableSpec(g.t, lo, hi, seqLo, seqHi)
	s.Virtual, s.Backing = true, backing
	b := g.m.backings[backing]
	legacy := rapid.IntRange(0, 3).Draw(g.t, "legacybvs") == 0 // pre-FormatBackingValueSize: BackingValueSize unknown (0)
	for _, r := range b.refs {
		v := RefSpec{ID: r.ID, VS: rapid.Uint64Range(1, r.VS).Draw(g.t, "vvs")}
		if !legacy {
			v.BVS = r.VS
		}
		s.Refs = append(s.Refs, v)
	}
	if len(s.Refs) > 0 {
		s.Depth = uint64(rapid.IntRange(1, len(s.Refs)).Draw(g.t, "depth"))
	}
	if withSynthetic {
		sm, la := s.smallest(), s.largest()
		cp := 0
		for cp < len(sm.User) && cp < len(la.User) && sm.User[cp] == la.User[cp] {
			cp++
		}
		if k := rapid.IntRange(0, cp).Draw(g.t, "prefixlen"); k > 0 {
			s.Prefix = append([]byte{}, sm.User[:k]...)
		}
		if rapid.IntRange(0, 1).Draw(g.t, "suffix?") == 0 {
			s.Suffix = rapid.SliceOfN(rapid.Byte(), 1, 4).Draw(g.t, "suffix")
		}
	}
	return s
}

func (g *editGen) drawExcise() {
	a := rapid.IntRange(0, numSlots-1).Draw(g.t, "xa")
	b := rapid.IntRange(a, numSlots).Draw(g.t, "xb")
	x := ExciseSpec{Start: append(slotKey(a), drawTail(g.t)...), End: append(slotKey(b), drawTail(g.t)...),
		Exclusive: rapid.IntRange(0, 3).Draw(g.t, "xexcl") > 0, Seq: drawKeySeq(g.t)}
	g.e.Excise = append(g.e.Excise, x)
}

func (g *editGen) opVirtualize() bool {
	c := g.candidates()
	if len(c) == 0 {
		return false
	}
	n := c[rapid.IntRange(0, len(c)-1).Draw(g.t, "virt")]
	parent := *g.m.tables[n]
	level := parent.level
	var backing uint64
	minPieces := 0
	if parent.spec.Virtual {
		backing = parent.spec.Backing
	} else {
		// the physical table's backing becomes a virtual backing in this edit
		backing = parent.spec.Num
		refs := make([]RefSpec, len(parent.spec.Refs))
		copy(refs, parent.spec.Refs)
		g.m.backings[backing] = &mBacking{size: parent.spec.Size, refs: refs}
		g.e.Created = append(g.e.Created, BackingSpec{Num: backing, Size: parent.spec.Size})
		minPieces = 1
	}
	// keep the blob files alive across the delete/add of this edit: pieces
	// re-reference them before the edit is finished.
	g.delTable(n)
	np := rapid.IntRange(minPieces, 2).Draw(g.t, "npieces")
	lo := parent.spec.Lo
	for i := 0; i < np && lo <= parent.spec.Hi; i++ {
		a := rapid.IntRange(lo, parent.spec.Hi).Draw(g.t, "pa")
		b := rapid.IntRange(a, parent.spec.Hi).Draw(g.t, "pb")
		if level == 0 {
			// L0 tables may overlap; nothing to respect.
		}
		s := g.virtualPiece(backing, a, b, parent.spec.SeqLow, parent.spec.SeqHigh, rapid.IntRange(0, 3).Draw(g.t, "synth?") == 0)
		g.addTable(level, s)
		lo = b + 1
	}
	if rapid.IntRange(0, 1).Draw(g.t, "excise?") == 0 {
		g.drawExcise()
	}
	return true
}

func (g *editGen) opExternal() bool {
	level := rapid.IntRange(0, numLevels-1).Draw(g.t, "xlevel")
	lo, hi, ok := g.m.pickInterval(g.t, level, 0, numSlots-1)
	if !ok {
		return false
	}
	backing := g.m.fresh()
	size := drawSize(g.t, "bksize")
	g.m.backings[backing] = &mBacking{size: size}
	g.e.Created = append(g.e.Created, BackingSpec{Num: backing, Size: size})
	seq := g.m.nextSeq
	g.m.nextSeq++
	s := g.virtualPiece(backing, lo, hi, seq, seq, true)
	g.addTable(level, s)
	if rapid.IntRange(0, 2).Draw(g.t, "two?") == 0 {
		if lo2, hi2, ok := g.m.pickInterval(g.t, level, 0, numSlots-1); ok {
			g.addTable(level, g.virtualPiece(backing, lo2, hi2, seq, seq, true))
		}
	}
	return true
}

func (g *editGen) opDeleteOnly() bool {
	c := g.candidates()
	if len(c) == 0 {
		return false
	}
	n := rapid.IntRange(1, min(3, len(c))).Draw(g.t, "ndel")
	for i := 0; i < n; i++ {
		c = g.candidates()
		g.delTable(c[rapid.IntRange(0, len(c)-1).Draw(g.t, "del")])
	}
	if rapid.IntRange(0, 3).Draw(g.t, "excise?") == 0 {
		g.drawExcise()
	}
	return true
}

func (g *editGen) opBlobReplace() bool {
	ids := g.m.sortedBlobs()
	if len(ids) == 0 {
		return false
	}
	b := g.m.blobs[ids[rapid.IntRange(0, len(ids)-1).Draw(g.t, "rblob")]]
	g.e.DelBlobs = append(g.e.DelBlobs, DelBlobSpec{ID: b.id, FileNum: b.fileNum})
	b.fileNum = g.m.fresh()
	b.size = drawSize(g.t, "rsize")
	b.vsize = rapid.Uint64Range(1000, 1<<40).Draw(g.t, "rvsize")
	b.ctime = rapid.Uint64Range(0, 1<<34).Draw(g.t, "rctime")
	g.e.NewBlobs = append(g.e.NewBlobs, BlobSpec{ID: b.id, FileNum: b.fileNum, Size: b.size, ValueSize: b.vsize, CTime: b.ctime})
	return true
}

func (g *editGen) drawMarks(maxN int) {
	var c []uint64
	for _, n := range g.m.sortedTables() {
		if !g.m.tables[n].marked {
			c = append(c, n)
		}
	}
	for i := 0; i < maxN && len(c) > 0; i++ {
		j := rapid.IntRange(0, len(c)-1).Draw(g.t, "mark")
		mt := g.m.tables[c[j]]
		mt.marked = true
		g.e.Marks = append(g.e.Marks, MarkSpec{Level: mt.level, Num: c[j]})
		c = append(c[:j], c[j+1:]...)
	}
}

func (g *editGen) drawScalars(first bool) {
	e := g.e
	if first && rapid.IntRange(0, 1).Draw(g.t, "cmp?") == 0 {
		e.Comparer = rapid.SampledFrom([]string{"leveldb.BytewiseComparator", "pebble.verif", "x"}).Draw(g.t, "cmp")
	}
	u := func(label string) uint64 {
		switch rapid.IntRange(0, 5).Draw(g.t, label+"?") {
		case 0, 1, 2:
			return 0
		case 3:
			return rapid.Uint64().Draw(g.t, label)
		}
		return rapid.Uint64Range(1, 1<<20).Draw(g.t, label)
	}
	e.LogNum, e.PrevLogNum, e.NextFileNum, e.LastSeqNum = u("lognum"), u("prevlog"), u("nextfile"), u("lastseq")
}

var opNames = []string{"flush", "flush", "flush", "ingest", "compact", "compact", "compact", "move", "move", "virtualize", "virtualize", "virtualize",
	"external", "delete", "blobreplace", "mark", "scalars"}

func (m *model) genEdit(t *rapid.T, first bool) EditSpec {
	e := EditSpec{}
	g := &editGen{m: m, t: t, e: &e, used: map[uint64]bool{}, pre: m.sortedTables()}
	op := rapid.SampledFrom(opNames).Draw(t, "op")
	if len(m.tables) < 2 && rapid.IntRange(0, 2).Draw(t, "boot") > 0 {
		op = "flush"
	}
	done := false
	switch op {
	case "ingest":
		g.opIngest()
		done = true
	case "compact":
		done = g.opCompact()
	case "move":
		done = g.opMove()
	case "virtualize":
		done = g.opVirtualize()
	case "external":
		done = g.opExternal()
	case "delete":
		done = g.opDeleteOnly()
	case "blobreplace":
		done = g.opBlobReplace()
	case "mark":
		g.drawMarks(3)
		done = true
	case "scalars":
		done = true
	}
	if !done {
		op = "flush"
	}
	if op == "flush" {
		g.opFlush()
	}
	e.Op = op
	if op == "scalars" || rapid.IntRange(0, 9).Draw(t, "scalars?") < 4 {
		g.drawScalars(first)
	}
	if op != "mark" && rapid.IntRange(0, 9).Draw(t, "marks?") < 2 {
		g.drawMarks(2)
	}
	// blob files whose last reference was dropped by this edit are deleted by it.
	for _, id := range m.sortedBlobs() {
		if b := m.blobs[id]; b.refs == 0 {
			e.DelBlobs = append(e.DelBlobs, DelBlobSpec{ID: b.id, FileNum: b.fileNum})
			delete(m.blobs, id)
		}
	}
	// unused backings are removed by this edit or a later one; never by the
	// edit that created them.
	createdHere := map[uint64]bool{}
	for _, c := range e.Created {
		createdHere[c.Num] = true
	}
	var keep []uint64
	for _, b := range m.unused {
		if !createdHere[b] && rapid.IntRange(0, 9).Draw(t, "rmbacking?") < 6 {
			e.Removed = append(e.Removed, b)
			delete(m.backings, b)
		} else {
			keep = append(keep, b)
		}
	}
	m.unused = keep
	return e
}

func genSeq(t *rapid.T) *SeqPlan {
	m := newModel()
	n := rapid.OneOf(rapid.IntRange(1, 3), rapid.IntRange(4, 8), rapid.IntRange(6, 12)).Draw(t, "nedits")
	p := &SeqPlan{}
	for i := 0; i < n; i++ {
		p.Edits = append(p.Edits, m.genEdit(t, i == 0))
	}
	if rapid.IntRange(0, 2).Draw(t, "split?") > 0 {
		p.Split = rapid.IntRange(0, n-1).Draw(t, "split")
	}
	return p
}
