// Package versionedit: C23 — version edits round-trip and replay deterministically.
//
// This file holds the plan types (plain data, JSON round-trippable). A plan is
// either a sequence of *valid* version edits produced by a small metadata
// simulation (see gen_test.go) or one arbitrary byte string.
package versionedit

import (
	"bytes"
	"fmt"
	"sort"
	"strings"
)

// KeySpec is an internal key: user key, sequence number (< 2^56) and kind.
type KeySpec struct {
	User []byte `json:"u"`
	Seq  uint64 `json:"s"`
	Kind uint8  `json:"k"`
}

func (k KeySpec) trailer() uint64 { return k.Seq<<8 | uint64(k.Kind) }

// icmp orders internal keys: user key ascending (bytewise), then trailer
// descending (documented at base.InternalCompare).
func icmp(a, b KeySpec) int {
	if c := bytes.Compare(a.User, b.User); c != 0 {
		return c
	}
	switch at, bt := a.trailer(), b.trailer(); {
	case at > bt:
		return -1
	case at < bt:
		return 1
	}
	return 0
}

// RefSpec is a blob reference of a table.
type RefSpec struct {
	ID  uint64 `json:"id"`
	VS  uint64 `json:"vs"`
	BVS uint64 `json:"bvs"`
}

// TableSpec describes one sstable's metadata (everything the manifest persists
// plus LargestSeqNumAbsolute, which is in-memory only).
type TableSpec struct {
	Num          uint64    `json:"num"`
	Size         uint64    `json:"size"`
	CreationTime int64     `json:"ctime,omitempty"`
	SeqLow       uint64    `json:"slo"`
	SeqHigh      uint64    `json:"shi"`
	AbsExtra     uint64    `json:"abs,omitempty"` // LargestSeqNumAbsolute = SeqHigh+AbsExtra (in memory only)
	HasPoint     bool      `json:"hp,omitempty"`
	PointSm      *KeySpec  `json:"psm,omitempty"`
	PointLa      *KeySpec  `json:"pla,omitempty"`
	HasRange     bool      `json:"hr,omitempty"`
	RangeSm      *KeySpec  `json:"rsm,omitempty"`
	RangeLa      *KeySpec  `json:"rla,omitempty"`
	NoRangeSets  bool      `json:"nosets,omitempty"` // RangeKeyKinds == OnlyRangeKeyUnsetAndDelete
	Virtual      bool      `json:"virt,omitempty"`
	Backing      uint64    `json:"backing,omitempty"`
	Prefix       []byte    `json:"prefix,omitempty"`
	Suffix       []byte    `json:"suffix,omitempty"`
	Refs         []RefSpec `json:"refs,omitempty"`
	Depth        uint64    `json:"depth,omitempty"`
	// Lo, Hi: key-space slots the table occupies (generator bookkeeping only).
	Lo int `json:"lo"`
	Hi int `json:"hi"`
}

func (t *TableSpec) smallest() KeySpec {
	switch {
	case t.HasPoint && t.HasRange:
		if icmp(*t.RangeSm, *t.PointSm) < 0 {
			return *t.RangeSm
		}
		return *t.PointSm
	case t.HasRange:
		return *t.RangeSm
	}
	return *t.PointSm
}

func (t *TableSpec) largest() KeySpec {
	switch {
	case t.HasPoint && t.HasRange:
		if icmp(*t.RangeLa, *t.PointLa) > 0 {
			return *t.RangeLa
		}
		return *t.PointLa
	case t.HasRange:
		return *t.RangeLa
	}
	return *t.PointLa
}

// rangeKeysOnlyCustom: the table has range keys (tagNewFile5) and none of the
// fields that used to trigger the custom-field section (regression class of
// the repaired finding newfile5-without-custom-fields-has-no-terminator).
func (t *TableSpec) rangeKeysOnlyCustom() bool {
	return t.HasRange && t.CreationTime == 0 && !t.Virtual && len(t.Refs) == 0 && !t.NoRangeSets
}

type DelSpec struct {
	Level int    `json:"l"`
	Num   uint64 `json:"n"`
}

type NewSpec struct {
	Level int       `json:"l"`
	Move  bool      `json:"move,omitempty"` // same table (same metadata object) re-added at another level
	T     TableSpec `json:"t"`
}

type BackingSpec struct {
	Num  uint64 `json:"n"`
	Size uint64 `json:"size"`
}

type BlobSpec struct {
	ID        uint64 `json:"id"`
	FileNum   uint64 `json:"fn"`
	Size      uint64 `json:"size"`
	ValueSize uint64 `json:"vsize"`
	CTime     uint64 `json:"ctime,omitempty"`
}

type DelBlobSpec struct {
	ID      uint64 `json:"id"`
	FileNum uint64 `json:"fn"`
}

type ExciseSpec struct {
	Start     []byte `json:"start"`
	End       []byte `json:"end"`
	Exclusive bool   `json:"excl"`
	Seq       uint64 `json:"seq"`
}

type MarkSpec struct {
	Level int    `json:"l"`
	Num   uint64 `json:"n"`
}

// EditSpec is one version edit.
type EditSpec struct {
	Op          string        `json:"op"` // generator label
	Comparer    string        `json:"cmp,omitempty"`
	LogNum      uint64        `json:"lognum,omitempty"`
	PrevLogNum  uint64        `json:"prevlog,omitempty"`
	NextFileNum uint64        `json:"nextfile,omitempty"`
	LastSeqNum  uint64        `json:"lastseq,omitempty"`
	Deleted     []DelSpec     `json:"del,omitempty"`
	New         []NewSpec     `json:"new,omitempty"`
	Created     []BackingSpec `json:"created,omitempty"`
	Removed     []uint64      `json:"removed,omitempty"`
	NewBlobs    []BlobSpec    `json:"newblobs,omitempty"`
	DelBlobs    []DelBlobSpec `json:"delblobs,omitempty"`
	Excise      []ExciseSpec  `json:"excise,omitempty"`
	Marks       []MarkSpec    `json:"marks,omitempty"`
}

// SeqPlan is a history of valid edits applied to an empty version. Edits
// [0,Split) form a common prefix applied one at a time; edits [Split,len) are
// applied one at a time on one side and accumulated into one bulk edit on the
// other.
type SeqPlan struct {
	Edits []EditSpec `json:"edits"`
	Split int        `json:"split"`
}

// Plan is one case.
type Plan struct {
	Mode  string   `json:"mode"` // "seq" | "bytes"
	Seq   *SeqPlan `json:"seq,omitempty"`
	Bytes []byte   `json:"bytes,omitempty"`
	// Origin describes how Bytes was produced (label only).
	Origin string `json:"origin,omitempty"`
	// Demo marks a demonstration plan of a known finding: known-finding
	// exclusions are not applied when it is executed.
	Demo bool `json:"demo,omitempty"`
}

// ---------------------------------------------------------------------------
// Canonical rendering of the *persisted* content of an edit, from the plan.
// canonDecoded (build_test.go) renders a decoded manifest.VersionEdit in the
// same format, so the two can be compared as strings.

func hexKey(k KeySpec) string { return fmt.Sprintf("%x#%d,%d", k.User, k.Seq, k.Kind) }

func canonTableSpec(level int, t *TableSpec) string {
	var b strings.Builder
	fmt.Fprintf(&b, "L%d %d size=%d ctime=%d seq=[%d,%d] abs=%d", level, t.Num, t.Size, t.CreationTime, t.SeqLow, t.SeqHigh, t.SeqHigh)
	if t.HasPoint {
		fmt.Fprintf(&b, " points=[%s,%s]", hexKey(*t.PointSm), hexKey(*t.PointLa))
	}
	if t.HasRange {
		fmt.Fprintf(&b, " ranges=[%s,%s] nosets=%t", hexKey(*t.RangeSm), hexKey(*t.RangeLa), t.NoRangeSets)
	}
	fmt.Fprintf(&b, " bounds=[%s,%s]", hexKey(t.smallest()), hexKey(t.largest()))
	if t.Virtual {
		fmt.Fprintf(&b, " virtual backing=%d", t.Backing)
	}
	fmt.Fprintf(&b, " prefix=%x suffix=%x", t.Prefix, t.Suffix)
	if len(t.Refs) > 0 {
		fmt.Fprintf(&b, " depth=%d refs=", t.Depth)
		for _, r := range t.Refs {
			if t.Virtual {
				fmt.Fprintf(&b, "(%d:%d/%d)", r.ID, r.VS, r.BVS)
			} else {
				// BackingValueSize of a physical table is documented to equal
				// ValueSize and is not persisted.
				fmt.Fprintf(&b, "(%d:%d/-)", r.ID, r.VS)
			}
		}
	}
	return b.String()
}

func canonSpec(e *EditSpec) string {
	var b strings.Builder
	fmt.Fprintf(&b, "comparer=%q log=%d prevlog=%d nextfile=%d lastseq=%d\n", e.Comparer, e.LogNum, e.PrevLogNum, e.NextFileNum, e.LastSeqNum)
	dels := make([]string, 0, len(e.Deleted))
	for _, d := range e.Deleted {
		dels = append(dels, fmt.Sprintf("del L%d %020d", d.Level, d.Num))
	}
	sort.Strings(dels)
	for _, d := range dels {
		b.WriteString(d + "\n")
	}
	for i := range e.New {
		b.WriteString("new " + canonTableSpec(e.New[i].Level, &e.New[i].T) + "\n")
	}
	for _, c := range e.Created {
		fmt.Fprintf(&b, "created %d size=%d\n", c.Num, c.Size)
	}
	for _, r := range e.Removed {
		fmt.Fprintf(&b, "removed %d\n", r)
	}
	for _, nb := range e.NewBlobs {
		fmt.Fprintf(&b, "newblob %d file=%d size=%d vsize=%d ctime=%d\n", nb.ID, nb.FileNum, nb.Size, nb.ValueSize, nb.CTime)
	}
	dbs := make([]string, 0, len(e.DelBlobs))
	for _, d := range e.DelBlobs {
		dbs = append(dbs, fmt.Sprintf("delblob %020d %020d", d.ID, d.FileNum))
	}
	sort.Strings(dbs)
	for _, d := range dbs {
		b.WriteString(d + "\n")
	}
	for _, x := range e.Excise {
		fmt.Fprintf(&b, "excise %x %x excl=%t seq=%d\n", x.Start, x.End, x.Exclusive, x.Seq)
	}
	for _, m := range e.Marks {
		fmt.Fprintf(&b, "mark L%d %d\n", m.Level, m.Num)
	}
	return b.String()
}
