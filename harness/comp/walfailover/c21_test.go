package walfailover

import (
	"runtime/debug"
	"testing"

	"github.com/cockroachdb/pebble/verifharness/evid"
)

func TestC21(t *testing.T) {
	curT = t
	// Every case allocates ~1 MiB of short-lived queue/block buffers inside
	// pebble; collect less often (performance only).
	defer debug.SetGCPercent(debug.SetGCPercent(800))
	evid.Run(t, evid.Spec[Plan]{
		ID: "C21", Level: "exploration",
		Rule: "rapid draws a failover configuration, 0-4 fault rules (stall / fail write ops of the primary or secondary WAL dir, by op ordinal or by virtual-time window) " +
			"and a 1-28 step writer script (batch-shaped WriteRecord with drawn count incl. 0, size and sync; sleeps; bounded sync waits; crash images with drawn per-block survival; " +
			"Close+[Obsolete]+Create of the next WAL); executed on wal.Init(Primary+Secondary) over one crashable MemFS inside a synctest bubble; every image (crash images, final state, final state minus unsynced data) " +
			"is read back with wal.Scan+OpenForRead; non-trivial = Stats().Failover.DirSwitchCount>=1 and a logical WAL with >=2 segments in which >=1 batch is physically present in two segment files; distinct = hash of the plan JSON",
		Assumptions: []string{
			"vfs.MemFS (crashable) models durability: file data is durable after Sync/SyncData/SyncTo, directory entries after the directory Sync; VerifCrashClone keeps all synced state and a drawn subset of unsynced 4KiB blocks / entries",
			"errorfs injects an error before the operation is performed (no partial writes)",
			"goroutine interleaving inside the bubble is chosen by the Go scheduler: it influences which schedule is explored, never the verdict for the schedule that happened",
			"a script that does not finish within 1h of virtual time is reported as inconclusive (exit 2), not as a violation",
		},
		Gen: gen, Exec: exec,
		Quick: 800, Thorough: 3000,
		Sample: func(p Plan) any {
			ops := ""
			for _, s := range p.Steps {
				ops += s.Op
			}
			return map[string]any{"cfg": p.Cfg, "faults": p.Faults, "script": ops}
		},
	})
}
