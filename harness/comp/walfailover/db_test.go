package walfailover

import (
	"bytes"
	"encoding/binary"
	"fmt"
	"runtime/debug"
	"strings"
	"sync"
	"testing/synctest"
	"time"

	"github.com/cockroachdb/pebble"
	"github.com/cockroachdb/pebble/vfs"
	"github.com/cockroachdb/pebble/vfs/errorfs"
	"github.com/cockroachdb/pebble/wal"
)

// DB-level variant of C21: a whole pebble.DB with Options.WALFailover runs
// the script (one committer). Every commit i (1-based) is one atomic batch
//
//	Set("c", i); Merge("m", "<i>,"); Set(k, <i,payload>) for a few keys k
//
// so that the recovered state identifies the set of replayed batches: "c"
// names the last one, "m" lists every applied batch in order (a batch applied
// twice or skipped shows up), the other keys must equal the fold of batches
// 1..c. The recovered c must lie in [lo, done] where lo is the last batch
// known durable when the image was taken (Sync commit returned / Flush
// returned) and done the number of commits issued.

const dbNumKeys = 6

type dbBatch struct {
	keys []int
	size int
}

func dbKey(j int) []byte { return []byte(fmt.Sprintf("k%02d", j)) }

func dbValue(i, j, size int) []byte {
	b := make([]byte, 8+size)
	binary.BigEndian.PutUint64(b, uint64(i))
	x := uint64(i)*0x9E3779B97F4A7C15 + uint64(j)*0xBF58476D1CE4E5B9 + 1
	for p := 8; p < len(b); p++ {
		x ^= x << 13
		x ^= x >> 7
		x ^= x << 17
		b[p] = byte(x >> 24)
	}
	return b
}

// dbPlanBatch derives the batch of a write step deterministically from it.
func dbPlanBatch(st Step, i int) dbBatch {
	b := dbBatch{size: st.Size}
	n := st.Count%3 + 1
	for x := 0; x < n; x++ {
		b.keys = append(b.keys, (i*7+x*3+st.Size)%dbNumKeys)
	}
	return b
}

type dbImage struct {
	name     string
	fs       *vfs.MemFS
	lo, done int
}

func dbOptions(p Plan, fs vfs.FS) *pebble.Options {
	us := func(n int) time.Duration { return time.Duration(n) * time.Microsecond }
	fmv := pebble.FormatNewest
	if !p.Cfg.SyncOffsets {
		fmv = pebble.FormatWALSyncChunks - 1
	}
	o := &pebble.Options{
		FS:                          fs,
		WALDir:                      "pri",
		FormatMajorVersion:          fmv,
		MemTableSize:                96 << 10,
		DisableAutomaticCompactions: true,
		Logger:                      &quietLogger{},
		WALBytesPerSync:             p.Cfg.BytesPerSync,
		NoSyncOnClose:               p.Cfg.NoSyncOnClose,
		WALMinSyncInterval:          func() time.Duration { return us(p.Cfg.MinSyncUs) },
		WALFailover: &pebble.WALFailoverOptions{
			Secondary: wal.Dir{FS: fs, Dirname: "sec"},
			FailoverOptions: wal.FailoverOptions{
				PrimaryDirProbeInterval:      us(p.Cfg.ProbeUs),
				HealthyProbeLatencyThreshold: us(p.Cfg.HealthyProbeUs),
				HealthyInterval:              us(p.Cfg.HealthyIntervalUs),
				UnhealthySamplingInterval:    us(p.Cfg.SampleUs),
				UnhealthyOperationLatencyThreshold: func() (time.Duration, bool) {
					return us(p.Cfg.UnhealthyUs), true
				},
			},
		},
	}
	return o
}

// walOnlyKeep applies k to the WAL directories and keeps every unsynced byte
// and entry elsewhere (the durability of sstables, MANIFEST and OPTIONS is not
// this property's business; keeping them is one legal crash outcome).
func walOnlyKeep(k Keep) func(string, int) bool {
	f := keepFn(k)
	return func(path string, block int) bool {
		if dirOf(path) < 0 {
			return true
		}
		return f(path, block)
	}
}

func runDBScript(p Plan, res *runResult, images *[]dbImage, batches *[]dbBatch) {
	defer func() {
		if r := recover(); r != nil {
			res.setErr(fmt.Errorf("panic in the DB script: %v\n%s", r, debug.Stack()))
		}
	}()
	mem := vfs.NewCrashableMem()
	// Stalls only: an injected error on both directories makes the DB call
	// Logger.Fatalf, which is documented behaviour, not a C21 violation.
	var faults []Fault
	for _, f := range p.Faults {
		f.Err = false
		faults = append(faults, f)
	}
	inj := &injector{faults: faults}
	inj.base[0] = time.Duration(p.Cfg.BaseLatUs[0]) * time.Microsecond
	inj.base[1] = time.Duration(p.Cfg.BaseLatUs[1]) * time.Microsecond
	fs := errorfs.Wrap(mem, inj)
	d, err := pebble.Open("db", dbOptions(p, fs))
	if err != nil {
		res.setErr(fmt.Errorf("harness: pebble.Open: %v", err))
		return
	}
	inj.start = time.Now()
	inj.armed.Store(true)

	done, lo := 0, 0
	var nudges sync.WaitGroup
	measure := func() {
		dd, ms := dupTail(mem)
		res.dups, res.maxSeg = max(res.dups, dd), max(res.maxSeg, ms)
	}
	for si, st := range p.Steps {
		switch st.Op {
		case OpWrite:
			i := done + 1
			bt := dbPlanBatch(st, i)
			*batches = append(*batches, bt)
			b := d.NewBatch()
			var c [8]byte
			binary.BigEndian.PutUint64(c[:], uint64(i))
			_ = b.Set([]byte("c"), c[:], nil)
			_ = b.Merge([]byte("m"), []byte(fmt.Sprintf("%d,", i)), nil)
			for _, j := range bt.keys {
				_ = b.Set(dbKey(j), dbValue(i, j, bt.size), nil)
			}
			wo := pebble.NoSync
			if st.Sync {
				wo = pebble.Sync
				res.nSyncs++
			}
			done = i // issued: may be in any image from now on
			res.nRecords++
			if err := applyWithNudges(d, b, wo, &nudges, res); err != nil {
				res.setErr(fmt.Errorf("harness: Apply #%d: %v", i, err))
				inj.drain()
				nudges.Wait()
				_ = d.Close()
				return
			}
			_ = b.Close()
			if st.Sync {
				lo = i
				res.nAckedNil++
			}
		case OpSleep:
			time.Sleep(time.Duration(st.Us) * time.Microsecond)
		case OpAwait:
			// no asynchronous sync waits at the DB level
		case OpCrash:
			if st.Quiesce {
				synctest.Wait()
			}
			measure()
			for ki, k := range st.Keeps {
				*images = append(*images, dbImage{
					name: fmt.Sprintf("db-crash@step%d/keep%d(dir%d,data%d)", si, ki, k.DirPct, k.DataPct),
					fs:   mem.VerifCrashClone(walOnlyKeep(k)), lo: lo, done: done,
				})
			}
		case OpNext:
			// Rotate the WAL the way the DB does it: flush the memtable. The
			// DB then declares the old WALs obsolete (deletes / recycles them).
			measure()
			if err := d.Flush(); err != nil {
				res.setErr(fmt.Errorf("harness: Flush: %v", err))
				inj.drain()
				nudges.Wait()
				_ = d.Close()
				return
			}
			lo = done
		}
	}
	measure()
	res.switches = d.Metrics().WAL.Failover.DirSwitchCount
	// Image of a crash right before Close, dropping every unsynced WAL byte.
	*images = append(*images, dbImage{name: "db-final-crash(drop-unsynced-wal)",
		fs: mem.VerifCrashClone(walOnlyKeep(Keep{})), lo: lo, done: done})
	// DB.Close holds DB.mu while it waits for the WAL writer to close. If that
	// wait needed virtual time to advance (an injected sleep) while any other
	// goroutine queues for DB.mu (sync.Mutex waits are not durable blocking),
	// the bubble would stand still. So: no injected latency during Close.
	inj.drain()
	nudges.Wait()
	synctest.Wait()
	if err := d.Close(); err != nil {
		res.setErr(fmt.Errorf("harness: DB.Close: %v", err))
		return
	}
	res.injStalls = inj.injStall
	// After a clean Close everything is durable.
	*images = append(*images, dbImage{name: "db-closed+crash(drop-unsynced-wal)",
		fs: mem.VerifCrashClone(walOnlyKeep(Keep{})), lo: done, done: done})

	for _, img := range *images {
		if err := checkDBImage(p, img, *batches, res); err != nil {
			res.setErr(err)
			return
		}
	}
}

// applyWithNudges commits b. The script has a single committer; a real DB has
// others. If the commit has not returned after 500 ms of virtual time, a
// second committer issues DB.LogData(Sync) (a count-0 WAL record that changes
// neither the keys nor the sequence numbers), at most 20 times. This is legal
// concurrent use of the DB and changes nothing in the oracle; it only keeps a
// lone committer from waiting forever for a sync notification that (in a
// broken implementation) is only delivered by a later sync.
func applyWithNudges(d *pebble.DB, b *pebble.Batch, wo *pebble.WriteOptions, nudges *sync.WaitGroup, res *runResult) error {
	if !wo.Sync {
		return d.Apply(b, wo)
	}
	errc := make(chan error, 1)
	go func() { errc <- d.Apply(b, wo) }()
	for n := 0; ; n++ {
		tm := time.NewTimer(500 * time.Millisecond)
		select {
		case err := <-errc:
			tm.Stop()
			return err
		case <-tm.C:
		}
		if n < 20 {
			res.dbNudges++
			nudges.Add(1)
			go func() {
				defer nudges.Done()
				_ = d.LogData([]byte("nudge"), pebble.Sync)
			}()
		}
	}
}

func checkDBImage(p Plan, img dbImage, batches []dbBatch, res *runResult) (err error) {
	defer func() {
		if r := recover(); r != nil {
			err = fmt.Errorf("%s: panic while recovering the image: %v\n%s", img.name, r, debug.Stack())
		}
	}()
	d, oerr := pebble.Open("db", dbOptions(p, img.fs))
	if oerr != nil {
		return fmt.Errorf("%s: Open of the crash image failed (durable batches %d..%d unreadable): %v", img.name, 1, img.lo, oerr)
	}
	defer func() {
		if cerr := d.Close(); cerr != nil && err == nil {
			err = fmt.Errorf("%s: Close after recovery: %v", img.name, cerr)
		}
	}()
	get := func(k []byte) ([]byte, bool, error) {
		v, closer, err := d.Get(k)
		if err == pebble.ErrNotFound {
			return nil, false, nil
		}
		if err != nil {
			return nil, false, err
		}
		v = append([]byte(nil), v...)
		closer.Close()
		return v, true, nil
	}
	k := 0
	if v, ok, gerr := get([]byte("c")); gerr != nil {
		return fmt.Errorf("%s: Get(c): %v", img.name, gerr)
	} else if ok {
		if len(v) != 8 {
			return fmt.Errorf("%s: counter key has a %d byte value", img.name, len(v))
		}
		k = int(binary.BigEndian.Uint64(v))
	}
	if k < img.lo || k > img.done {
		return fmt.Errorf("%s: recovered state ends at batch %d, but batches up to %d were acknowledged durable (Sync commit or Flush returned) and only %d were issued",
			img.name, k, img.lo, img.done)
	}
	// every applied batch exactly once, in order
	var want strings.Builder
	for i := 1; i <= k; i++ {
		fmt.Fprintf(&want, "%d,", i)
	}
	m, _, gerr := get([]byte("m"))
	if gerr != nil {
		return fmt.Errorf("%s: Get(m): %v", img.name, gerr)
	}
	if string(m) != want.String() {
		return fmt.Errorf("%s: recovered state ends at batch %d but the merge log of applied batches is %q, want %q (a batch was replayed twice, skipped or reordered)",
			img.name, k, trunc(string(m)), trunc(want.String()))
	}
	model := map[int][]byte{}
	for i := 1; i <= k; i++ {
		for _, j := range batches[i-1].keys {
			model[j] = dbValue(i, j, batches[i-1].size)
		}
	}
	for j := 0; j < dbNumKeys; j++ {
		v, ok, gerr := get(dbKey(j))
		if gerr != nil {
			return fmt.Errorf("%s: Get(%s): %v", img.name, dbKey(j), gerr)
		}
		w, wok := model[j]
		if ok != wok || !bytes.Equal(v, w) {
			return fmt.Errorf("%s: recovered state ends at batch %d but key %s = %x.. (present=%v), want %x.. (present=%v)",
				img.name, k, dbKey(j), v[:min(8, len(v))], ok, w[:min(8, len(w))], wok)
		}
	}
	if k < img.done {
		res.dbLost++
	}
	res.dbImages++
	return nil
}

func trunc(s string) string {
	if len(s) > 120 {
		return s[:60] + "..." + s[len(s)-50:]
	}
	return s
}
