package walfailover

import (
	"encoding/binary"
	"encoding/json"
	"fmt"
	"hash/fnv"
	"io"
	"os"
	"path/filepath"
	"runtime"
	"runtime/debug"
	"sort"
	"strings"
	"sync"
	"sync/atomic"
	"testing"
	"testing/synctest"
	"time"

	"github.com/cockroachdb/pebble/internal/base"
	"github.com/cockroachdb/pebble/record"
	"github.com/cockroachdb/pebble/verifharness/evid"
	"github.com/cockroachdb/pebble/vfs"
	"github.com/cockroachdb/pebble/vfs/errorfs"
	"github.com/cockroachdb/pebble/wal"
)

var traceOn = os.Getenv("VERIF_C21_TRACE") != ""

// curT is the *testing.T of the running Test function; synctest.Test needs one.
var curT *testing.T

const batchHeaderLen = 12 // 8 bytes seqnum + 4 bytes count, little endian (batchrepr.HeaderLen)

// ---------------------------------------------------------------- model ----

// mrec is one record handed to WriteRecord.
type mrec struct {
	idx   int // ordinal within its WAL
	seq   uint64
	count uint32
	data  []byte
	sync  bool
	// ack: 0 = no sync requested or not yet notified, 1 = sync wait returned
	// with a nil error, 2 = sync wait returned with an error.
	ack   atomic.Int32
	ackCh chan struct{}
}

const (
	walOpen = iota
	walClosedOK
	walClosedErr
)

type mwal struct {
	num   int
	recs  []*mrec
	state int
}

// walSnap is what the oracle knows about one WAL at the instant an image of
// the filesystem was taken.
type walSnap struct {
	num      int
	recs     []*mrec // every record handed to WriteRecord before the instant
	state    int
	maxAcked int // largest idx whose sync wait had returned nil before the instant; -1 if none
}

type snapshot struct {
	wals         []walSnap
	minUnflushed int // WALs below were declared obsolete before the instant
}

type image struct {
	name  string
	fs    *vfs.MemFS
	snap  snapshot
	crash bool
}

func makeRecord(walOrd, idx int, seq uint64, count uint32, size int) []byte {
	b := make([]byte, batchHeaderLen+size)
	binary.LittleEndian.PutUint64(b[0:8], seq)
	binary.LittleEndian.PutUint32(b[8:12], count)
	x := uint64(walOrd)*0x9E3779B97F4A7C15 + uint64(idx)*0xBF58476D1CE4E5B9 + 0x94D049BB133111EB
	for i := batchHeaderLen; i < len(b); i++ {
		x ^= x << 13
		x ^= x >> 7
		x ^= x << 17
		b[i] = byte(x >> 24)
	}
	return b
}

// ------------------------------------------------------------- injector ----

type injector struct {
	armed    atomic.Bool
	sleeping atomic.Int32 // operations currently inside an injected sleep
	start    time.Time
	base     [2]time.Duration
	faults   []Fault

	mu       sync.Mutex
	ops      [2]int
	logOps   [2]int
	trace    []string // only with VERIF_C21_TRACE=1
	injErrs  int
	injStall int
}

func dirOf(path string) int {
	path = strings.TrimPrefix(path, "/")
	switch {
	case path == "pri" || strings.HasPrefix(path, "pri/"):
		return 0
	case path == "sec" || strings.HasPrefix(path, "sec/"):
		return 1
	}
	return -1
}

func (in *injector) String() string { return "c21-injector" }

// MaybeError is called before every FS operation, from any goroutine.
func (in *injector) MaybeError(op errorfs.Op) error {
	if !in.armed.Load() || !op.Kind.IsWrite() || op.Kind == errorfs.OpFileClose {
		return nil
	}
	d := dirOf(op.Path)
	if d < 0 {
		return nil
	}
	isLog := false
	switch op.Kind {
	case errorfs.OpFileWrite, errorfs.OpFileSync, errorfs.OpFileSyncData, errorfs.OpFileSyncTo:
		isLog = strings.HasSuffix(op.Path, ".log")
	}
	in.mu.Lock()
	n := in.ops[d]
	in.ops[d]++
	ln := -1
	if isLog {
		ln = in.logOps[d]
		in.logOps[d]++
	}
	in.mu.Unlock()
	t := int(time.Since(in.start) / time.Microsecond)
	if traceOn {
		defer func() {
			in.mu.Lock()
			in.trace = append(in.trace, fmt.Sprintf("t=%dus..%dus dir=%d n=%d ln=%d kind=%d path=%s", t, int(time.Since(in.start)/time.Microsecond), d, n, ln, op.Kind, op.Path))
			in.mu.Unlock()
		}()
	}
	lat := in.base[d]
	fail := false
	for i := range in.faults {
		f := &in.faults[i]
		if f.Dir != d {
			continue
		}
		if f.ByTime {
			if t >= f.From && t < f.To {
				lat += time.Duration(f.To-t) * time.Microsecond
				fail = fail || f.Err
			}
		} else if f.LogOnly {
			if ln >= f.From && ln < f.To {
				lat += time.Duration(f.StallUs) * time.Microsecond
				fail = fail || f.Err
			}
		} else if n >= f.From && n < f.To {
			lat += time.Duration(f.StallUs) * time.Microsecond
			fail = fail || f.Err
		}
	}
	if lat > 0 {
		if lat > time.Millisecond {
			in.mu.Lock()
			in.injStall++
			in.mu.Unlock()
		}
		in.sleeping.Add(1)
		time.Sleep(lat)
		in.sleeping.Add(-1)
	}
	if fail {
		in.mu.Lock()
		in.injErrs++
		in.mu.Unlock()
		return errorfs.ErrInjected
	}
	return nil
}

// drain disarms the injector and waits (virtual time) until no operation is
// inside an injected sleep any more.
func (in *injector) drain() {
	in.armed.Store(false)
	for in.sleeping.Load() > 0 {
		time.Sleep(time.Millisecond)
	}
}

// nopHistogram satisfies prometheus.Histogram (through the alias exported by
// the record package, so that the harness module does not need a direct
// prometheus requirement). The wal package only calls Observe on it.
type nopHistogram struct{ record.WALFileOpHistogram }

func (nopHistogram) Observe(float64) {}

type quietLogger struct{ errs atomic.Int64 }

func (l *quietLogger) Infof(string, ...interface{})  {}
func (l *quietLogger) Errorf(string, ...interface{}) { l.errs.Add(1) }
func (l *quietLogger) Fatalf(format string, args ...interface{}) {
	panic(fmt.Sprintf("Fatalf: "+format, args...))
}

// --------------------------------------------------------------- script ----

type runResult struct {
	images      []image
	switches    int64
	writeErrs   int
	closeErrs   int
	injErrs     int
	injStalls   int
	awaitTO     int
	nRecords    int
	nSyncs      int
	nAckedNil   int
	nAckedErr   int
	obsoleted   int
	restarts    int
	dups        int // measured for the non-triviality rule, see dupTail
	maxSeg      int
	dbImages    int // DB variant: images recovered and checked
	dbNudges    int // DB variant: LogData(Sync) commits issued by the second committer
	dbLost      int // DB variant: images whose recovered state misses unacknowledged commits
	virtualTime time.Duration

	errMu sync.Mutex
	err   error // a violation (or harness failure) observed while running the script
}

func (r *runResult) setErr(err error) {
	r.errMu.Lock()
	defer r.errMu.Unlock()
	if r.err == nil {
		r.err = err
	}
}

func (r *runResult) getErr() error {
	r.errMu.Lock()
	defer r.errMu.Unlock()
	return r.err
}

func keepFn(k Keep) func(path string, block int) bool {
	return func(path string, block int) bool {
		h := fnv.New32a()
		var b [8]byte
		binary.LittleEndian.PutUint32(b[0:4], k.Seed)
		binary.LittleEndian.PutUint32(b[4:8], uint32(int32(block)))
		h.Write(b[:])
		h.Write([]byte(path))
		pct := k.DataPct
		if block < 0 {
			pct = k.DirPct
		}
		return int(h.Sum32()%100) < pct
	}
}

type scriptState struct {
	p            Plan
	mem          *vfs.MemFS
	wals         []*mwal
	minUnflushed int
	res          *runResult
}

func (s *scriptState) snapshot() snapshot {
	sn := snapshot{minUnflushed: s.minUnflushed}
	for _, w := range s.wals {
		ws := walSnap{num: w.num, state: w.state, maxAcked: -1}
		ws.recs = append(ws.recs, w.recs...)
		for _, r := range ws.recs {
			if r.sync && r.ack.Load() == 1 && r.idx > ws.maxAcked {
				ws.maxAcked = r.idx
			}
		}
		sn.wals = append(sn.wals, ws)
	}
	return sn
}

func runScript(p Plan, res *runResult) {
	mem := vfs.NewCrashableMem()
	for _, d := range []string{"pri", "sec"} {
		if err := mem.MkdirAll(d, 0o755); err != nil {
			res.setErr(fmt.Errorf("harness: mkdir: %v", err))
			return
		}
	}
	// wal.Options: the directories "must already be created and synced up to the root".
	if f, err := mem.OpenDir(""); err == nil {
		_ = f.Sync()
		_ = f.Close()
	}
	inj := &injector{faults: p.Faults}
	inj.base[0] = time.Duration(p.Cfg.BaseLatUs[0]) * time.Microsecond
	inj.base[1] = time.Duration(p.Cfg.BaseLatUs[1]) * time.Microsecond
	fs := errorfs.Wrap(mem, inj)
	us := func(n int) time.Duration { return time.Duration(n) * time.Microsecond }
	logger := &quietLogger{}
	opts := wal.Options{
		Primary:              wal.Dir{FS: fs, Dirname: "pri"},
		Secondary:            wal.Dir{FS: fs, Dirname: "sec"},
		MaxNumRecyclableLogs: p.Cfg.Recyclable,
		BytesPerSync:         p.Cfg.BytesPerSync,
		NoSyncOnClose:        p.Cfg.NoSyncOnClose,
		PreallocateSize:      func() int { return 0 },
		MinSyncInterval:      func() time.Duration { return us(p.Cfg.MinSyncUs) },
		Logger:               logger,
		FailoverOptions: wal.FailoverOptions{
			PrimaryDirProbeInterval:      us(p.Cfg.ProbeUs),
			HealthyProbeLatencyThreshold: us(p.Cfg.HealthyProbeUs),
			HealthyInterval:              us(p.Cfg.HealthyIntervalUs),
			UnhealthySamplingInterval:    us(p.Cfg.SampleUs),
			UnhealthyOperationLatencyThreshold: func() (time.Duration, bool) {
				return us(p.Cfg.UnhealthyUs), true
			},
		},
		FailoverWriteAndSyncLatency: nopHistogram{},
		WriteWALSyncOffsets:         func() bool { return p.Cfg.SyncOffsets },
	}
	m, err := wal.Init(opts, nil)
	if err != nil {
		res.setErr(fmt.Errorf("harness: wal.Init: %v", err))
		return
	}
	t0 := time.Now()
	inj.start = t0
	inj.armed.Store(true)

	s := &scriptState{p: p, mem: mem, res: res}
	nextSeq := p.Cfg.FirstSeq
	var cur *mwal
	var w wal.Writer
	var lastSync *mrec
	var waiters sync.WaitGroup

	create := func(num int) bool {
		cur = &mwal{num: num}
		s.wals = append(s.wals, cur)
		var err error
		w, err = m.Create(wal.NumWAL(num), num)
		if err != nil {
			res.setErr(fmt.Errorf("harness: Create(%d): %v", num, err))
			return false
		}
		lastSync = nil
		return true
	}
	closeCur := func() {
		if w == nil {
			return
		}
		_, err := w.Close()
		if err != nil {
			cur.state = walClosedErr
			res.closeErrs++
		} else {
			cur.state = walClosedOK
		}
		w = nil
	}
	// stage runs one teardown stage; a panic in it is recorded (first one wins)
	// and the remaining stages still run so that the bubble can end.
	stage := func(name string, f func()) {
		defer func() {
			if r := recover(); r != nil {
				res.setErr(fmt.Errorf("panic in %s: %v\n%s", name, r, debug.Stack()))
			}
		}()
		f()
	}
	finish := func() {
		stage("Writer.Close", closeCur)
		stage("Manager.Stats", func() { res.switches = m.Stats().Failover.DirSwitchCount })
		stage("Manager.Close", func() {
			if err := m.Close(); err != nil {
				res.setErr(fmt.Errorf("harness: Manager.Close: %v", err))
			}
		})
		inj.armed.Store(false)
		if res.getErr() == nil {
			// Every writer and the manager are closed. Give every timer a
			// virtual minute and let the bubble settle: nothing can release a
			// sync waiter any more. A waiter that is still pending was dropped
			// by the implementation (its committer would hang forever).
			time.Sleep(time.Minute)
			synctest.Wait()
			for _, w := range s.wals {
				for _, r := range w.recs {
					if r.sync && r.ack.Load() == 0 {
						emitViolationAndExit(p, fmt.Errorf("WAL %06d record #%d (seq %d, %d bytes) was written with a sync request; Writer.Close and Manager.Close have returned and the system is idle, but its sync waiter was never released (neither acknowledged nor failed): %d records were written to this WAL",
							w.num, r.idx, r.seq, len(r.data), len(w.recs)))
					}
				}
			}
		}
		waiters.Wait()
	}
	defer func() {
		if r := recover(); r != nil {
			res.setErr(fmt.Errorf("panic in the writer script: %v\n%s", r, debug.Stack()))
			finish()
		}
	}()

	if !create(p.Cfg.FirstWAL) {
		finish()
		return
	}
	for si, st := range expandSteps(p.Steps) {
		switch st.Op {
		case OpWrite:
			r := &mrec{idx: len(cur.recs), seq: nextSeq, count: uint32(st.Count), sync: st.Sync}
			r.data = makeRecord(len(s.wals), r.idx, r.seq, r.count, st.Size)
			nextSeq += uint64(st.Count)
			// The model learns about the record before the implementation does.
			cur.recs = append(cur.recs, r)
			res.nRecords++
			var so wal.SyncOptions
			if st.Sync {
				res.nSyncs++
				wg := &sync.WaitGroup{}
				wg.Add(1)
				serr := new(error)
				so = wal.SyncOptions{Done: wg, Err: serr}
				r.ackCh = make(chan struct{})
				lastSync = r
				waiters.Add(1)
				go func() {
					defer waiters.Done()
					wg.Wait()
					if *serr == nil {
						r.ack.Store(1)
					} else {
						r.ack.Store(2)
					}
					close(r.ackCh)
				}()
			}
			if _, err := w.WriteRecord(r.data, so, nil); err != nil {
				// The record stays queued in the failover writer; nothing is
				// promised about it beyond what Close/sync notifications say.
				res.writeErrs++
			}
		case OpSleep:
			time.Sleep(us(st.Us))
		case OpAwait:
			if lastSync != nil {
				tm := time.NewTimer(us(st.Us))
				select {
				case <-lastSync.ackCh:
				case <-tm.C:
					res.awaitTO++
				}
				tm.Stop()
			}
		case OpCrash:
			if st.Quiesce {
				synctest.Wait()
			}
			// Acknowledgements are read before the clone is taken: whatever
			// was acknowledged before must be in the clone.
			sn := s.snapshot()
			for ki, k := range st.Keeps {
				img := mem.VerifCrashClone(keepFn(k))
				res.images = append(res.images, image{
					name:  fmt.Sprintf("crash@step%d/keep%d(dir%d,data%d)", si, ki, k.DirPct, k.DataPct),
					fs:    img,
					snap:  sn,
					crash: true,
				})
			}
		case OpNext:
			closeCur()
			next := cur.num + 1 + st.Gap
			if st.Restart {
				// no faults while the store is "down"
				inj.armed.Store(false)
				if err := m.Close(); err != nil {
					res.setErr(fmt.Errorf("harness: Manager.Close before restart: %v", err))
					return
				}
				logs, err := wal.Scan(opts.Primary, opts.Secondary)
				if err != nil {
					res.setErr(fmt.Errorf("harness: wal.Scan: %v", err))
					return
				}
				if m, err = wal.Init(opts, logs); err != nil {
					res.setErr(fmt.Errorf("harness: wal.Init on restart: %v", err))
					return
				}
				inj.armed.Store(true)
				res.restarts++
			}
			if st.Obsolete {
				min := next
				if st.Keep > 0 {
					min = s.wals[max(0, len(s.wals)-st.Keep)].num
				}
				// The minimum unflushed WAL number never decreases in a DB.
				s.minUnflushed = max(s.minUnflushed, min)
				res.obsoleted++
				del, err := m.Obsolete(wal.NumWAL(s.minUnflushed), false)
				if err != nil {
					res.setErr(fmt.Errorf("harness: Obsolete: %v", err))
					finish()
					return
				}
				// Measure duplication before the files disappear.
				d, ms := dupTail(mem)
				res.dups, res.maxSeg = max(res.dups, d), max(res.maxSeg, ms)
				for _, dl := range del {
					// "all virtual WALs less than minUnflushedNum are obsolete": a
					// file of a newer WAL still holds batches that exist nowhere else.
					if int(dl.NumWAL) >= s.minUnflushed {
						res.setErr(fmt.Errorf("Manager.Obsolete(%d) returned %s (WAL %d) for deletion: only WALs below %d are obsolete",
							s.minUnflushed, dl.Path, dl.NumWAL, s.minUnflushed))
						finish()
						return
					}
					_ = dl.FS.Remove(dl.Path)
				}
			}
			if !create(next) {
				finish()
				return
			}
		}
	}
	finish()
	res.virtualTime = time.Since(t0)
	res.injErrs, res.injStalls = inj.injErrs, inj.injStall
	if traceOn {
		fmt.Printf("---- trace: switches=%d virtual=%s\n%s\n", res.switches, res.virtualTime, strings.Join(inj.trace, "\n"))
	}

	// Final images: the live filesystem, and what survives a crash that drops
	// every unsynced byte and directory entry.
	sn := s.snapshot()
	res.images = append(res.images,
		image{name: "final", fs: mem, snap: sn},
		image{name: "final+crash(drop-unsynced)", fs: mem.VerifCrashClone(func(string, int) bool { return false }), snap: sn, crash: true})
	for _, wl := range s.wals {
		for _, r := range wl.recs {
			switch r.ack.Load() {
			case 1:
				res.nAckedNil++
			case 2:
				res.nAckedErr++
			}
		}
	}
}

// runInBubble executes the script inside a synctest bubble and returns its
// result by value. Nothing in here calls t.Fatal.
func runInBubble(p Plan) (res *runResult) {
	res = &runResult{}
	if p.Cfg.Procs > 0 {
		defer runtime.GOMAXPROCS(runtime.GOMAXPROCS(p.Cfg.Procs))
	}
	defer func() {
		// synctest panics on this goroutine when the root goroutine of the
		// bubble has returned but other goroutines of the bubble are blocked
		// forever (a deadlock / leak proved by the runtime).
		if r := recover(); r != nil {
			if res.getErr() == nil {
				res.setErr(fmt.Errorf("synctest: %v (after the writer script, Writer.Close and Manager.Close had all returned)", r))
			}
		}
	}()
	// Safety net in real time, outside the bubble: a goroutine of the bubble
	// that waits for a sync.Mutex is not "durably blocked", so if the holder
	// of that mutex waits for virtual time to advance the bubble stands still
	// forever (a limitation of synctest, not a pebble deadlock). Never a
	// verdict: the run is abandoned as inconclusive.
	stopWatch := make(chan struct{})
	defer close(stopWatch)
	go func() {
		tm := time.NewTimer(3 * time.Minute)
		defer tm.Stop()
		select {
		case <-stopWatch:
		case <-tm.C:
			if err := res.getErr(); err != nil {
				emitViolationAndExit(p, err) // a failure had already been observed
			}
			fmt.Println("INCONCLUSIVE: C21 case made no progress for 3 minutes of real time (mutex wait inside the synctest bubble?); see evidence/.inflight/C21.*.json")
			os.Exit(2)
		}
	}()
	synctest.Test(curT, func(*testing.T) {
		done := make(chan struct{})
		go func() {
			defer close(done)
			if p.DB {
				var images []dbImage
				var batches []dbBatch
				runDBScript(p, res, &images, &batches)
			} else {
				runScript(p, res)
			}
		}()
		// Every injected stall is finite (<= 100 ms of virtual time), so the
		// script must finish. An hour of virtual time means it hangs. A hang
		// is not the property checked here: it is reported as inconclusive,
		// unless the script had already observed a failure (a pebble panic)
		// and hangs while tearing down.
		tm := time.NewTimer(time.Hour)
		select {
		case <-done:
			tm.Stop()
		case <-tm.C:
			if err := res.getErr(); err != nil {
				emitViolationAndExit(p, err)
			}
			fmt.Println("INCONCLUSIVE: C21 writer script did not finish within 1h of virtual time (hang); see evidence/.inflight/C21.*.json")
			os.Exit(2)
		}
	})
	return res
}

// emitViolationAndExit is the last resort when a failure was observed but the
// bubble cannot be left (goroutines of the implementation hang): it saves the
// plan, prints the line the driver looks for and exits.
func emitViolationAndExit(p Plan, err error) {
	env := evid.GetEnv()
	path := filepath.Join(env.Dir, "replays", "C21", fmt.Sprintf("fail-seed%d-shard%d.json", env.Seed, env.Shard))
	if env.Replay != "" {
		path = env.Replay
	} else if js, jerr := json.Marshal(p); jerr == nil {
		_ = os.MkdirAll(filepath.Dir(path), 0o755)
		_ = os.WriteFile(path, js, 0o644)
	}
	fmt.Printf("VIOLATION property=C21 replay=%s\n  detail: %s\n  (the implementation then hung during teardown; the process exits without evidence)\n",
		path, strings.ReplaceAll(err.Error(), "\n", "\n    "))
	os.Exit(1)
}

// --------------------------------------------------------------- oracle ----

type readBack struct {
	recs    [][]byte
	tailErr error // nil if the reader ended with io.EOF
}

func readLogical(ll wal.LogicalLog) (rb readBack, err error) {
	r := ll.OpenForRead()
	defer func() {
		if cerr := r.Close(); cerr != nil && err == nil {
			err = fmt.Errorf("Reader.Close: %v", cerr)
		}
	}()
	for {
		rr, _, err := r.NextRecord()
		if err == io.EOF {
			return rb, nil
		}
		if err != nil {
			rb.tailErr = err
			return rb, nil
		}
		b, err := io.ReadAll(rr)
		if err != nil {
			rb.tailErr = err
			return rb, nil
		}
		rb.recs = append(rb.recs, b)
		if len(rb.recs) > 1<<20 {
			return rb, fmt.Errorf("reader returned more than 2^20 records")
		}
	}
}

type imageStats struct {
	complete, truncated, lostUnsynced, tailInvalid, tailErrAfterComplete int
	maxSegments                                                          int
}

// checkImage reads every logical WAL of img back with wal.Scan + OpenForRead
// and compares against the model snapshot taken just before the image.
func checkImage(img image, st *imageStats) error {
	logs, err := wal.Scan(wal.Dir{FS: img.fs, Dirname: "pri"}, wal.Dir{FS: img.fs, Dirname: "sec"})
	if err != nil {
		return fmt.Errorf("%s: wal.Scan failed: %v", img.name, err)
	}
	known := map[int]*walSnap{}
	for i := range img.snap.wals {
		known[img.snap.wals[i].num] = &img.snap.wals[i]
	}
	got := map[int]readBack{}
	for _, ll := range logs {
		if int(ll.Num) < img.snap.minUnflushed {
			continue // obsolete: its files may have been deleted or recycled
		}
		rb, err := readLogical(ll)
		if err != nil {
			return fmt.Errorf("%s: WAL %s: %v", img.name, ll, err)
		}
		if ll.NumSegments() > st.maxSegments {
			st.maxSegments = ll.NumSegments()
		}
		if _, ok := known[int(ll.Num)]; !ok {
			if len(rb.recs) > 0 {
				return fmt.Errorf("%s: WAL %s was never created but yields %d records", img.name, ll, len(rb.recs))
			}
			continue
		}
		got[int(ll.Num)] = rb
	}
	for i := range img.snap.wals {
		ws := &img.snap.wals[i]
		if ws.num < img.snap.minUnflushed {
			continue
		}
		rb := got[ws.num] // zero value if the WAL has no file in the image
		if err := checkWAL(img, ws, rb, logs, st); err != nil {
			return err
		}
	}
	return nil
}

func describe(logs wal.Logs, num int) string {
	if ll, ok := logs.Get(wal.NumWAL(num)); ok {
		return ll.String()
	}
	return fmt.Sprintf("%06d: {no files}", num)
}

func checkWAL(img image, ws *walSnap, rb readBack, logs wal.Logs, st *imageStats) error {
	// expected: the count>0 records in write order (the reader drops count==0
	// batches, reader.go "LogData" comment).
	var exp []*mrec
	bySeq := map[uint64]int{}
	for _, r := range ws.recs {
		if r.count > 0 {
			bySeq[r.seq] = len(exp)
			exp = append(exp, r)
		}
	}
	where := func() string { return fmt.Sprintf("%s: WAL %s", img.name, describe(logs, ws.num)) }

	if rb.tailErr != nil && !record.IsInvalidRecord(rb.tailErr) {
		return fmt.Errorf("%s: reader failed after %d records with an error that is not an unclean-tail error: %v",
			where(), len(rb.recs), rb.tailErr)
	}
	// (1) every returned record is byte-identical to a written one, strictly
	// increasing, none twice, none skipped.
	for i, b := range rb.recs {
		if len(b) < batchHeaderLen {
			return fmt.Errorf("%s: returned record #%d is shorter than a batch header (%d bytes)", where(), i, len(b))
		}
		seq := binary.LittleEndian.Uint64(b[0:8])
		cnt := binary.LittleEndian.Uint32(b[8:12])
		if cnt == 0 {
			return fmt.Errorf("%s: returned record #%d (seq %d) has count 0; LogData-only batches must be skipped", where(), i, seq)
		}
		j, ok := bySeq[seq]
		if !ok || string(exp[j].data) != string(b) {
			return fmt.Errorf("%s: returned record #%d (seq %d count %d len %d) was never written to this WAL",
				where(), i, seq, cnt, len(b))
		}
		if j < i {
			return fmt.Errorf("%s: returned record #%d is written batch #%d (seq %d): duplicate or out of order",
				where(), i, j, seq)
		}
		if j > i {
			return fmt.Errorf("%s: returned record #%d is written batch #%d (seq %d): batch #%d (seq %d, record idx %d) was skipped although a later one is present",
				where(), i, j, seq, i, exp[i].seq, exp[i].idx)
		}
	}
	// (2) nothing acknowledged is missing.
	must := 0
	why := ""
	switch {
	case ws.state == walClosedOK:
		must, why = len(exp), "Writer.Close returned nil before the image was taken"
	default:
		for _, r := range exp {
			if r.idx <= ws.maxAcked {
				must++
			}
		}
		why = fmt.Sprintf("the sync wait of record idx %d returned nil before the image was taken", ws.maxAcked)
	}
	if len(rb.recs) < must {
		return fmt.Errorf("%s: only %d of the %d written batches were read back (tail error: %v) but %d must be present because %s; first missing: seq %d (record idx %d)",
			where(), len(rb.recs), len(exp), rb.tailErr, must, why, exp[len(rb.recs)].seq, exp[len(rb.recs)].idx)
	}
	switch {
	case len(rb.recs) == len(exp):
		st.complete++
		if rb.tailErr != nil {
			st.tailErrAfterComplete++
		}
	default:
		st.truncated++
		if img.crash {
			st.lostUnsynced++
		}
	}
	if rb.tailErr != nil {
		st.tailInvalid++
	}
	return nil
}

// dupTail measures (for the non-triviality rule) how many count>0 batches are
// physically present in more than one segment file of one logical WAL.
func dupTail(fs *vfs.MemFS) (dups int, maxSeg int) {
	logs, err := wal.Scan(wal.Dir{FS: fs, Dirname: "pri"}, wal.Dir{FS: fs, Dirname: "sec"})
	if err != nil {
		return 0, 0
	}
	for _, ll := range logs {
		if ll.NumSegments() > maxSeg {
			maxSeg = ll.NumSegments()
		}
		if ll.NumSegments() < 2 {
			continue
		}
		seen := map[uint64]int{}
		for i := 0; i < ll.NumSegments(); i++ {
			sfs, path := ll.SegmentLocation(i)
			f, err := sfs.Open(path)
			if err != nil {
				continue
			}
			rr := record.NewReader(f, base.DiskFileNum(ll.Num))
			inSeg := map[uint64]bool{}
			for {
				r, err := rr.Next()
				if err != nil {
					break
				}
				b, err := io.ReadAll(r)
				if err != nil || len(b) < batchHeaderLen {
					break
				}
				if binary.LittleEndian.Uint32(b[8:12]) > 0 {
					inSeg[binary.LittleEndian.Uint64(b[0:8])] = true
				}
			}
			f.Close()
			for s := range inSeg {
				seen[s]++
			}
		}
		for _, n := range seen {
			if n > 1 {
				dups++
			}
		}
	}
	return dups, maxSeg
}

func bucket(n int64) string {
	switch {
	case n == 0:
		return "0"
	case n == 1:
		return "1"
	case n == 2:
		return "2"
	case n <= 4:
		return "3-4"
	}
	return "5+"
}

func exec(p Plan) (evid.Outcome, error) {
	var out evid.Outcome
	res := runInBubble(p)
	out.Counters = map[string]int{
		"records_written":     res.nRecords,
		"sync_requests":       res.nSyncs,
		"sync_acked_nil":      res.nAckedNil,
		"sync_acked_err":      res.nAckedErr,
		"dir_switches":        int(res.switches),
		"images_checked":      len(res.images),
		"injected_errors":     res.injErrs,
		"injected_stalls>1ms": res.injStalls,
		"close_errors":        res.closeErrs,
		"write_record_errors": res.writeErrs,
		"await_timeouts":      res.awaitTO,
	}
	if err := res.getErr(); err != nil {
		return out, err
	}
	if p.DB {
		out.Counters["db_images_checked"] = res.dbImages
		out.NonTrivial = res.switches >= 1 && res.maxSeg >= 2 && res.dups >= 1
		out.Labels = append(out.Labels, "variant=db", "switches="+bucket(res.switches), "max-segments="+bucket(int64(res.maxSeg)),
			fmt.Sprintf("procs=%d", p.Cfg.Procs))
		if res.dups > 0 {
			out.Labels = append(out.Labels, "dup-tail")
		}
		if res.dbLost > 0 {
			out.Labels = append(out.Labels, "db-crash-lost-unacked-tail")
		}
		if res.dbNudges > 0 {
			out.Labels = append(out.Labels, "db-nudged")
		}
		if res.injStalls > 0 {
			out.Labels = append(out.Labels, "fs-stalls-injected")
		}
		sort.Strings(out.Labels)
		return out, nil
	}
	var st imageStats
	for _, img := range res.images {
		if err := checkImage(img, &st); err != nil {
			return out, err
		}
	}
	var live *vfs.MemFS
	for _, img := range res.images {
		if img.name == "final" {
			live = img.fs
		}
	}
	dups, maxSeg := res.dups, res.maxSeg
	if live != nil {
		d, ms := dupTail(live)
		dups, maxSeg = max(dups, d), max(maxSeg, ms)
	}
	out.Counters["wal_checks_complete"] = st.complete
	out.Counters["wal_checks_truncated"] = st.truncated
	out.Counters["wal_checks_unclean_tail"] = st.tailInvalid
	out.Counters["tail_error_after_complete"] = st.tailErrAfterComplete
	out.Counters["dup_batches"] = dups

	out.NonTrivial = res.switches >= 1 && maxSeg >= 2 && dups >= 1
	lab := func(s string) { out.Labels = append(out.Labels, s) }
	lab("variant=wal")
	lab("switches=" + bucket(res.switches))
	lab("max-segments=" + bucket(int64(maxSeg)))
	if dups > 0 {
		lab("dup-tail")
	}
	ncrash := 0
	for _, img := range res.images {
		if img.crash && !strings.HasPrefix(img.name, "final") {
			ncrash++
		}
	}
	lab("crash-images=" + bucket(int64(ncrash)))
	if st.lostUnsynced > 0 {
		lab("crash-lost-unacked-tail")
	}
	if st.tailInvalid > 0 {
		lab("unclean-tail-seen")
	}
	if st.tailErrAfterComplete > 0 {
		lab("tail-error-after-complete")
	}
	if res.closeErrs > 0 {
		lab("close-error")
	}
	if res.writeErrs > 0 {
		lab("write-record-error")
	}
	if res.injErrs > 0 {
		lab("fs-errors-injected")
	}
	if res.injStalls > 0 {
		lab("fs-stalls-injected")
	}
	if res.nAckedNil > 0 {
		lab("sync-acked")
	}
	if res.nAckedErr > 0 {
		lab("sync-acked-with-error")
	}
	if res.obsoleted > 0 {
		lab("obsolete-called")
	}
	if res.restarts > 0 {
		lab("manager-restarted")
	}
	if p.Cfg.Recyclable > 0 && res.obsoleted > 0 {
		lab("recycling-possible")
	}
	nw := 1
	for _, s := range p.Steps {
		if s.Op == OpNext {
			nw++
		}
	}
	lab(fmt.Sprintf("wals=%d", nw))
	lab(fmt.Sprintf("procs=%d", p.Cfg.Procs))
	sort.Strings(out.Labels)
	return out, nil
}
