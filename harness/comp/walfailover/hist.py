import json
e=json.load(open('/verif/evidence/C21.json'))
c=e['coverage']
print('wall',e['wall_s'],'evals', c['evaluations'],'nt', c['nontrivial_evaluated'], c['distinct_nontrivial'],'viol',e['violations'])
for k,v in sorted(c['labels'].items()): print(' ',k,v)
print(c['counters'])
