// Package walfailover: C21 — WAL failover replays each written batch exactly
// once, in order.
package walfailover

import (
	"os"

	"pgregory.net/rapid"
)

// Plan is pure data: a failover configuration, a fault schedule for the two
// WAL directories and a script of writer steps. Record payloads are derived
// from (wal ordinal, record ordinal) so the JSON stays small.
type Plan struct {
	// DB selects the DB-level variant (db_test.go): the script drives a whole
	// pebble.DB with Options.WALFailover instead of a wal.Manager; "w" steps
	// are commits, "n" steps are flushes, injected faults are stalls only.
	DB     bool    `json:"db,omitempty"`
	Cfg    Cfg     `json:"cfg"`
	Faults []Fault `json:"faults"`
	Steps  []Step  `json:"steps"`
}

// Cfg holds the manager configuration. All durations are microseconds of
// virtual (synctest) time.
type Cfg struct {
	SyncOffsets       bool   `json:"sync_offsets"` // WriteWALSyncOffsets
	UnhealthyUs       int    `json:"unhealthy_us"` // UnhealthyOperationLatencyThreshold
	SampleUs          int    `json:"sample_us"`    // UnhealthySamplingInterval
	ProbeUs           int    `json:"probe_us"`     // PrimaryDirProbeInterval
	HealthyProbeUs    int    `json:"healthy_probe_us"`
	HealthyIntervalUs int    `json:"healthy_interval_us"`
	BaseLatUs         [2]int `json:"base_lat_us"` // latency of every write op on pri/sec
	MinSyncUs         int    `json:"min_sync_us"` // MinSyncInterval
	BytesPerSync      int    `json:"bytes_per_sync"`
	NoSyncOnClose     bool   `json:"no_sync_on_close"`
	Recyclable        int    `json:"recyclable"` // MaxNumRecyclableLogs
	FirstSeq          uint64 `json:"first_seq"`
	FirstWAL          int    `json:"first_wal"`
	// Procs is GOMAXPROCS while the plan executes. With 1 the interleaving of
	// the goroutines inside the bubble is (nearly) a function of the plan, so a
	// replay reproduces; with more, real parallelism is explored.
	Procs int `json:"procs"`
}

// Fault is a rule applied by the FS wrapper to write operations on one WAL
// directory (0 = primary, 1 = secondary).
//
// ByTime=false: the rule matches the write ops whose per-directory ordinal n
// satisfies From <= n < To; a matching op sleeps StallUs.
// ByTime=true: the rule matches ops that start at virtual time t (us since the
// manager was initialised) with From <= t < To; a matching op sleeps until To
// ("the disk is unavailable until To").
// If Err, the matching op then fails with errorfs.ErrInjected without being
// performed.
type Fault struct {
	Dir int `json:"dir"`
	// LogOnly: the rule only applies to data operations (write, sync) on *.log
	// files and From/To count those operations only (ignored if ByTime).
	LogOnly bool `json:"log_only,omitempty"`
	ByTime  bool `json:"by_time"`
	From    int  `json:"from"`
	To      int  `json:"to"`
	StallUs int  `json:"stall_us"`
	Err     bool `json:"err"`
}

// Step kinds.
const (
	OpWrite = "w" // WriteRecord(batch with Count entries and Size payload bytes, Sync?)
	OpSleep = "s" // time.Sleep(Us)
	OpAwait = "a" // wait for the last requested sync, at most Us
	OpCrash = "c" // take crash images (Keeps) of the filesystem
	OpNext  = "n" // Close the writer, optionally Obsolete, Create the next WAL
)

// Step is one script step executed by the (single) writer goroutine.
type Step struct {
	Op    string `json:"op"`
	Count int    `json:"count,omitempty"`
	Size  int    `json:"size,omitempty"`
	Sync  bool   `json:"sync,omitempty"`
	Us    int    `json:"us,omitempty"`
	// OpCrash: Quiesce = synctest.Wait() first (every other goroutine is
	// durably blocked, the instant is well defined).
	Quiesce bool   `json:"quiesce,omitempty"`
	Keeps   []Keep `json:"keeps,omitempty"`
	// OpNext: call Obsolete(min) and delete what it returns, where min is the
	// number of the next WAL if Keep == 0, else the number of the Keep-th most
	// recent (closed) WAL, which must then stay readable.
	Obsolete bool `json:"obsolete,omitempty"`
	Keep     int  `json:"keep,omitempty"`
	// OpNext: Restart closes the manager after closing the writer and opens a
	// new one on the same directories the way DB.Open does (wal.Scan + wal.Init
	// with the logs found); Obsolete is then the first call, as in Open, where
	// it precedes the flush of the replayed memtables.
	Restart bool `json:"restart,omitempty"`
	// OpNext: gap in the WAL numbering (next = cur + 1 + Gap).
	Gap int `json:"gap,omitempty"`
	// OpWrite: Rep > 1 repeats the write Rep times (bulk of queued records).
	Rep int `json:"rep,omitempty"`
}

// expandSteps unrolls OpWrite steps with Rep > 1.
func expandSteps(steps []Step) []Step {
	n := 0
	for _, s := range steps {
		if s.Op == OpWrite && s.Rep > 1 {
			n += s.Rep
		} else {
			n++
		}
	}
	out := make([]Step, 0, n)
	for _, s := range steps {
		if s.Op == OpWrite && s.Rep > 1 {
			r := s.Rep
			s.Rep = 0
			for i := 0; i < r; i++ {
				out = append(out, s)
			}
		} else {
			out = append(out, s)
		}
	}
	return out
}

// Keep parametrises the deterministic crash clone: an unsynced directory entry
// survives iff hash(Seed,path,-1)%100 < DirPct, an unsynced 4 KiB block
// survives iff hash(Seed,path,block)%100 < DataPct.
type Keep struct {
	Seed    uint32 `json:"seed"`
	DirPct  int    `json:"dir_pct"`
	DataPct int    `json:"data_pct"`
}

func genKeep(t *rapid.T) Keep {
	pcts := []int{0, 30, 50, 50, 70, 100}
	return Keep{
		Seed:    rapid.Uint32Range(0, 1<<16).Draw(t, "keep_seed"),
		DirPct:  rapid.SampledFrom(pcts).Draw(t, "dir_pct"),
		DataPct: rapid.SampledFrom(pcts).Draw(t, "data_pct"),
	}
}

// genLogStall draws the fault class that matters most: the primary stalls (or
// fails) on one of the first write/sync operations of a log file, i.e. while
// records are queued in the failover writer.
func genLogStall(t *rapid.T) Fault {
	f := Fault{Dir: 0, LogOnly: true}
	f.From = rapid.IntRange(0, 9).Draw(t, "stall_from_op")
	f.To = f.From + rapid.SampledFrom([]int{1, 1, 2, 3, 1000}).Draw(t, "stall_len_ops")
	f.StallUs = rapid.SampledFrom([]int{3000, 5000, 10000, 40000}).Draw(t, "stall_us")
	f.Err = rapid.IntRange(0, 99).Draw(t, "stall_err") < 15
	return f
}

func genFault(t *rapid.T) Fault {
	f := Fault{}
	if rapid.IntRange(0, 99).Draw(t, "fault_dir") < 60 {
		f.Dir = 0
	} else {
		f.Dir = 1
	}
	f.ByTime = rapid.IntRange(0, 99).Draw(t, "fault_by_time") < 30
	f.Err = rapid.IntRange(0, 99).Draw(t, "fault_err") < 25
	if f.ByTime {
		f.From = rapid.SampledFrom([]int{0, 100, 500, 1000, 2000, 5000, 10000, 20000}).Draw(t, "fault_from_us")
		f.To = f.From + rapid.SampledFrom([]int{500, 1500, 3000, 8000, 20000, 60000}).Draw(t, "fault_len_us")
	} else {
		f.From = rapid.OneOf(rapid.IntRange(0, 8), rapid.IntRange(0, 40)).Draw(t, "fault_from_op")
		f.To = f.From + rapid.SampledFrom([]int{1, 1, 2, 3, 6, 1000}).Draw(t, "fault_len_ops")
		f.StallUs = rapid.SampledFrom([]int{0, 1500, 3000, 3000, 10000, 40000}).Draw(t, "fault_stall_us")
		if f.StallUs == 0 && !f.Err {
			f.StallUs = 2500
		}
	}
	return f
}

func genWrite(t *rapid.T, syncPct int, big bool) Step {
	s := Step{Op: OpWrite}
	c := rapid.IntRange(0, 99).Draw(t, "count_class")
	switch {
	case c < 10:
		s.Count = 0 // LogData-like
	case c < 70:
		s.Count = 1
	default:
		s.Count = rapid.IntRange(2, 5).Draw(t, "count")
	}
	z := rapid.IntRange(0, 99).Draw(t, "size_class")
	if big {
		// Multi-block records: unsynced tails span several 4 KiB blocks, so
		// crash images contain torn (not just truncated) segment tails.
		z = 60 + z*2/5
	}
	switch {
	case z < 10:
		s.Size = 0
	case z < 60:
		s.Size = rapid.IntRange(1, 200).Draw(t, "size_s")
	case z < 92:
		s.Size = rapid.IntRange(1000, 9000).Draw(t, "size_m")
	default:
		s.Size = rapid.IntRange(30000, 70000).Draw(t, "size_l")
	}
	s.Sync = rapid.IntRange(0, 99).Draw(t, "sync") < syncPct
	return s
}

func gen(t *rapid.T) Plan {
	var p Plan
	p.DB = rapid.SampledFrom([]bool{false, false, false, false, true}).Draw(t, "variant_db")
	switch os.Getenv("VERIF_C21_VARIANT") { // development aid: force one variant
	case "db":
		p.DB = true
	case "wal":
		p.DB = false
	}
	c := &p.Cfg
	c.SyncOffsets = rapid.Bool().Draw(t, "sync_offsets")
	c.UnhealthyUs = rapid.SampledFrom([]int{1000, 1000, 2000}).Draw(t, "unhealthy_us")
	c.SampleUs = rapid.SampledFrom([]int{250, 250, 500}).Draw(t, "sample_us")
	c.ProbeUs = rapid.SampledFrom([]int{250, 500, 1000}).Draw(t, "probe_us")
	c.HealthyProbeUs = 1000
	c.HealthyIntervalUs = rapid.SampledFrom([]int{1000, 3000, 3000, 6000}).Draw(t, "healthy_interval_us")
	lat := []int{0, 0, 20, 100, 400}
	c.BaseLatUs[0] = rapid.SampledFrom(lat).Draw(t, "base_lat_pri")
	c.BaseLatUs[1] = rapid.SampledFrom(lat).Draw(t, "base_lat_sec")
	c.MinSyncUs = rapid.SampledFrom([]int{0, 0, 0, 200, 1000}).Draw(t, "min_sync_us")
	c.BytesPerSync = rapid.SampledFrom([]int{0, 0, 4096, 512 << 10}).Draw(t, "bytes_per_sync")
	c.NoSyncOnClose = rapid.IntRange(0, 99).Draw(t, "no_sync_on_close") < 35
	c.Recyclable = rapid.SampledFrom([]int{0, 2, 0, 2}).Draw(t, "recyclable")
	// Real batches commit at sequence numbers >= base.SeqNumStart (10).
	c.FirstSeq = rapid.SampledFrom([]uint64{10, 11, 1000, 1 << 32, 1<<55 - 100}).Draw(t, "first_seq")
	c.FirstWAL = rapid.SampledFrom([]int{1, 2, 7, 100}).Draw(t, "first_wal")
	c.Procs = rapid.SampledFrom([]int{1, 1, 1, 4}).Draw(t, "procs")

	if rapid.IntRange(0, 99).Draw(t, "log_stall") < 85 {
		p.Faults = append(p.Faults, genLogStall(t))
	}
	nf := rapid.SampledFrom([]int{0, 0, 1, 1, 2, 3}).Draw(t, "n_faults")
	for i := 0; i < nf; i++ {
		p.Faults = append(p.Faults, genFault(t))
	}

	syncPct := rapid.SampledFrom([]int{15, 50, 50, 90}).Draw(t, "sync_pct")
	big := rapid.SampledFrom([]bool{false, false, true}).Draw(t, "big_records")
	if !p.DB && rapid.IntRange(0, 99).Draw(t, "bulk") < 10 {
		// A bulk of unsynced records around the sizes at which the failover
		// writer's record queue fills / grows (powers of two), then synced
		// records with waits: the queue is drained while (nearly) exactly full.
		rep := rapid.SampledFrom([]int{63, 64, 511, 512, 4095, 4096, 8190, 8191, 8192, 8193, 16383, 16384}).Draw(t, "bulk_rep")
		p.Steps = append(p.Steps, Step{Op: OpWrite, Count: 1, Size: rapid.SampledFrom([]int{13, 40, 200}).Draw(t, "bulk_size"), Rep: rep})
		for i, m := 0, rapid.IntRange(1, 3).Draw(t, "bulk_syncs"); i < m; i++ {
			p.Steps = append(p.Steps, Step{Op: OpWrite, Count: 1, Size: 20, Sync: true}, Step{Op: OpAwait, Us: 50000})
		}
	}
	n := rapid.IntRange(3, 30).Draw(t, "n_steps")
	crashes, nexts := 0, 0
	for i := 0; i < n; i++ {
		k := rapid.IntRange(0, 99).Draw(t, "step_kind")
		switch {
		case k < 52:
			p.Steps = append(p.Steps, genWrite(t, syncPct, big))
		case k < 70:
			p.Steps = append(p.Steps, Step{Op: OpSleep,
				Us: rapid.SampledFrom([]int{50, 300, 1000, 3000, 10000}).Draw(t, "sleep_us")})
		case k < 80:
			p.Steps = append(p.Steps, Step{Op: OpAwait,
				Us: rapid.SampledFrom([]int{500, 5000, 50000}).Draw(t, "await_us")})
		case k < 92:
			if crashes >= 3 {
				p.Steps = append(p.Steps, genWrite(t, syncPct, big))
				continue
			}
			crashes++
			s := Step{Op: OpCrash, Quiesce: rapid.IntRange(0, 99).Draw(t, "quiesce") < 75}
			nk := rapid.IntRange(1, 3).Draw(t, "n_keeps")
			for j := 0; j < nk; j++ {
				s.Keeps = append(s.Keeps, genKeep(t))
			}
			p.Steps = append(p.Steps, s)
		default:
			if nexts >= 3 {
				p.Steps = append(p.Steps, genWrite(t, syncPct, big))
				continue
			}
			nexts++
			st := Step{Op: OpNext,
				Obsolete: rapid.IntRange(0, 99).Draw(t, "obsolete") < 35,
				Keep:     rapid.SampledFrom([]int{0, 1, 0, 2}).Draw(t, "obsolete_keep"),
				Gap:      rapid.SampledFrom([]int{0, 0, 0, 1, 5}).Draw(t, "gap")}
			if rapid.IntRange(0, 3).Draw(t, "restart") == 0 {
				st.Restart, st.Obsolete = true, true
				st.Keep = rapid.SampledFrom([]int{1, 1, 2}).Draw(t, "restart_keep")
			}
			p.Steps = append(p.Steps, st)
		}
	}
	return p
}
