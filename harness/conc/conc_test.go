package conc

import (
	_ "embed"
	"encoding/json"
	"fmt"
	"os"
	"os/exec"
	"path/filepath"
	"strconv"
	"strings"
	"testing"
	"time"

	"github.com/cockroachdb/pebble/verifharness/evid"
	"pgregory.net/rapid"
)

// caseBudget is the wall-clock time one case may take before the whole
// process gives up as INCONCLUSIVE (exit 2, never a violation). It backs up
// the per-case join budget (which cannot be used inside a bubble, where time
// is virtual, and does not cover Open/Close).
const caseBudget = 150 * time.Second

// startWatchdog starts the real-time watchdog. It must be called outside any
// synctest bubble.
func startWatchdog(id string) {
	go func() {
		for {
			time.Sleep(2 * time.Second)
			st := caseStart.Load()
			if st == 0 {
				continue
			}
			if d := time.Duration(realNanos() - st); d > caseBudget {
				dumpGoroutines(id, "INCONCLUSIVE-TIMEOUT", fmt.Sprintf("one case ran for %v (possible deadlock on a mutex, which no runtime check can prove)", d))
				// The driver maps "test timed out after" to exit 2 (inconclusive).
				fmt.Printf("INCONCLUSIVE: %s: test timed out after %v in one case (wall-clock budget, not a verdict)\n", id, d)
				os.Exit(2)
			}
		}
	}()
}

//go:embed finding_C06_unpublished_flush.json
var findingPlanJSON []byte

//go:embed finding_C42_efos_wait.json
var findingEFOSWaitJSON []byte

// knownPlans returns the demonstrations of the candidate findings (see NOTES.md).
func knownPlans(mode string) []evid.Known[Plan] {
	var p, q Plan
	if err := json.Unmarshal(findingPlanJSON, &p); err != nil {
		panic(err)
	}
	if err := json.Unmarshal(findingEFOSWaitJSON, &q); err != nil {
		panic(err)
	}
	p.Mode, q.Mode = mode, mode
	return []evid.Known[Plan]{{Signature: sigUnpublishedFlush, Plan: p}, {Signature: sigEFOSWait, Plan: q}}
}

var assumptions = []string{
	"schedules are sampled by the Go scheduler (perturbed by verifhook yields, GOMAXPROCS and Gosched holds); the check is not exhaustive over interleavings",
	"Batch.SeqNum() after a successful commit is the batch's commit sequence number (0 for a large batch whose contents were cleared); later sequence numbers shadow earlier ones",
	"a shared atomic counter ticked before a call starts and after it returned proves real-time order between threads (Go atomics are sequentially consistent)",
	"excises only cover keys private to the excising thread (Snapshot documents that it may observe later excises); EFOS reads stay inside their protected ranges",
	"a wall-clock timeout is never a verdict: a case that does not finish is counted as inconclusive-timeout (or the process exits 2)",
}

func TestC06(t *testing.T) {
	startWatchdog("C06")
	evid.Run(t, evid.Spec[Plan]{
		ID: "C06", Level: "exploration",
		Rule: "rapid draws options (MemTableSize 4K-64K), 1-3 atomic groups of 2-12 keys, 2-6 writer threads x 3-30 batches (every batch writes one tag to all keys of a group: Set / Delete+marker / DeleteRange+Set, " +
			"filler payload placing the batch below, just below, just above, 2x the large-batch threshold or above MemTableSize; Commit/Apply/ApplyNoSyncWait, Sync/NoSync, plain/indexed), " +
			"1-5 reader threads x 3-30 consistent reads (snapshot Gets, snapshot iterator, DB iterator scan/seek, EFOS, indexed-batch iterator, plain Get), optional flush/compact thread, yield seed, GOMAXPROCS; " +
			"non-trivial = at least one consistent read overlapped (by the logical clock) two commits to its group that overlapped each other AND at least one batch of the case took the flushable large-batch path; distinct = hash of the plan JSON",
		Assumptions: assumptions,
		Gen:         func(t *rapid.T) Plan { return genPlan(t, "c06") },
		Exec:        Exec,
		Quick:       250, Thorough: 3000,
		Known:  knownPlans("c06"),
		Sample: func(p Plan) any { return p.Summary() },
	})
}

func specC42(bubble bool) evid.Spec[Plan] {
	s := evid.Spec[Plan]{
		ID: "C42", Level: "exploration", Bubble: bubble,
		Rule: "the C06 workload (smaller) plus 1-4 maintenance threads (Flush/AsyncFlush, Compact, Ingest of a whole group, direct Sets + Excise / IngestAndExcise of thread-private keys, Checkpoint + open, Metrics/SSTables/EstimateDiskUsage, " +
			"RatchetFormatMajorVersion) under the race detector (GORACE=halt_on_error=1), then a second, smaller campaign of the same generator inside one testing/synctest bubble (runtime-proved deadlocks on channels/conds/waitgroups); " +
			"oracles: no race report, no panic, no runtime-proved deadlock, no unexpected error, plus the C06 atomicity and C07 visibility oracles on every observation, final state and state after reopen; " +
			"non-trivial = at some instant at least 3 different roles (commit, snapshot, iterator, efos, indexed-batch, get, flush, compact, ingest, excise, direct-write, checkpoint, metrics, ratchet) had an operation in progress; distinct = hash of the plan JSON",
		Assumptions: assumptions,
		Gen:         func(t *rapid.T) Plan { return genPlan(t, "c42") },
		Exec:        Exec,
		Quick:       30, Thorough: 400,
		Known:  knownPlans("c42"),
		Sample: func(p Plan) any { return p.Summary() },
	}
	if bubble {
		s.Quick, s.Thorough = 8, 100
		// demonstrations may have to abandon a DB, which a bubble cannot end with
		s.Known = nil
	}
	return s
}

func evidencePath(env evid.Env, id string) string {
	if env.NShards > 1 {
		return filepath.Join(env.Dir, "evidence", ".parts", fmt.Sprintf("%s.%d.json", id, env.Shard))
	}
	return filepath.Join(env.Dir, "evidence", id+".json")
}

func readJSON(path string) map[string]any {
	b, err := os.ReadFile(path)
	if err != nil {
		return nil
	}
	var m map[string]any
	if json.Unmarshal(b, &m) != nil {
		return nil
	}
	return m
}

// mergeEvidence folds the evidence of the first (race) campaign into the file
// the second (bubble) campaign just wrote.
func mergeEvidence(first map[string]any, path string) {
	second := readJSON(path)
	if first == nil || second == nil {
		return
	}
	c1, _ := first["coverage"].(map[string]any)
	c2, _ := second["coverage"].(map[string]any)
	if c1 == nil || c2 == nil {
		return
	}
	num := func(m map[string]any, k string) float64 { v, _ := m[k].(float64); return v }
	c2["phases"] = map[string]any{"race_detector": num(c1, "evaluations"), "bubble": num(c2, "evaluations"),
		"nontrivial_race_detector": num(c1, "nontrivial_evaluated"), "nontrivial_bubble": num(c2, "nontrivial_evaluated")}
	for _, k := range []string{"evaluations", "nontrivial_evaluated", "distinct_nontrivial"} {
		c2[k] = num(c1, k) + num(c2, k)
	}
	for _, k := range []string{"labels", "counters", "excluded_known"} {
		m1, _ := c1[k].(map[string]any)
		m2, _ := c2[k].(map[string]any)
		if m2 == nil {
			m2 = map[string]any{}
		}
		for kk, v := range m1 {
			f, _ := v.(float64)
			g, _ := m2[kk].(float64)
			m2[kk] = f + g
		}
		c2[k] = m2
	}
	var samples []any
	for _, c := range []map[string]any{c1, c2} {
		l, _ := c["samples"].([]any)
		for _, s := range l {
			if _, isStr := s.(string); !isStr && len(samples) < 4 {
				samples = append(samples, s)
			}
		}
	}
	if len(samples) > 0 {
		c2["samples"] = samples
	}
	h1, _ := c1["_nontrivial_hashes"].([]any)
	h2, _ := c2["_nontrivial_hashes"].([]any)
	if h1 != nil || h2 != nil {
		c2["_nontrivial_hashes"] = append(h1, h2...)
	}
	second["wall_s"] = num(first, "wall_s") + num(second, "wall_s")
	second["violations"] = num(first, "violations") + num(second, "violations")
	b, _ := json.MarshalIndent(second, "", " ")
	tmp := path + ".tmp" + strconv.Itoa(os.Getpid())
	if os.WriteFile(tmp, b, 0o644) == nil {
		os.Rename(tmp, path)
	}
}

func TestC42(t *testing.T) {
	// Data races: the race runtime only reads GORACE at start-up, so the test
	// re-executes itself with halt_on_error=1. The first race report then ends
	// the process while the racy plan is the in-flight plan; the driver replays
	// it (50 repetitions, see Exec) and reports the violation if it crashes again.
	if raceEnabled && !strings.Contains(os.Getenv("GORACE"), "halt_on_error=1") {
		cmd := exec.Command(os.Args[0], os.Args[1:]...)
		cmd.Env = append(os.Environ(), "GORACE="+strings.TrimSpace(os.Getenv("GORACE")+" halt_on_error=1"))
		cmd.Stdout, cmd.Stderr, cmd.Stdin = os.Stdout, os.Stderr, nil
		err := cmd.Run()
		if err == nil {
			return
		}
		if ee, ok := err.(*exec.ExitError); ok && ee.ExitCode() > 0 {
			os.Exit(ee.ExitCode())
		}
		fmt.Printf("re-executing the test binary failed: %v\n", err)
		os.Exit(2)
	}
	startWatchdog("C42")
	env := evid.GetEnv()
	if env.Replay != "" {
		var p Plan
		if b, err := os.ReadFile(env.Replay); err == nil {
			json.Unmarshal(b, &p)
		}
		phaseBubble = p.Bubble
		evid.Run(t, specC42(p.Bubble))
		return
	}
	// Phase 1: real time, race detector. Phase 2: the same generator inside one
	// synctest bubble. Objects pooled by Pebble that were created inside a
	// bubble must not be used outside it, hence this order and one bubble for
	// the whole second campaign.
	phaseBubble = false
	evid.Run(t, specC42(false))
	if t.Failed() {
		return
	}
	first := readJSON(evidencePath(env, "C42"))
	phaseBubble = true
	if env.Checks > 0 {
		os.Setenv("VERIF_CHECKS", strconv.Itoa(max(1, env.Checks/4)))
	}
	evid.Run(t, specC42(true))
	mergeEvidence(first, evidencePath(env, "C42"))
}
