package conc

import (
	"bytes"
	"context"
	"encoding/json"
	"errors"
	"fmt"
	"io"
	"os"
	"path/filepath"
	"runtime"
	"runtime/debug"
	"sort"
	"strings"
	"sync"
	"sync/atomic"
	"syscall"
	"time"

	"github.com/cockroachdb/pebble"
	"github.com/cockroachdb/pebble/internal/testkeys"
	"github.com/cockroachdb/pebble/internal/verifhook"
	"github.com/cockroachdb/pebble/objstorage/objstorageprovider"
	"github.com/cockroachdb/pebble/sstable"
	"github.com/cockroachdb/pebble/verifharness/dbm"
	"github.com/cockroachdb/pebble/verifharness/evid"
	"github.com/cockroachdb/pebble/vfs"
)

// ---------------------------------------------------------------- time stamps

// stamp is a point in the execution of one harness thread.
type stamp struct {
	th   int   // thread id; thInit / thFinal for the sequential phases
	lc   int64 // thread-local counter (program order)
	tk   int64 // shared logical clock (only with Plan.Ticks)
	wall int64 // monotonic nanoseconds; measurement only, never used by an oracle
	jobs int64 // number of flushes and compactions begun so far (EventListener)
}

const (
	thInit  = -1 // before any thread started
	thFinal = -2 // after every thread was joined
)

// ---------------------------------------------------------------- records

// writeRec is one planned write to an atomic group (batch, ingestion or the
// initial load). tag, g, kind are fixed before the threads start; the other
// fields are written by the owning thread and read after the join.
type writeRec struct {
	tag  string
	g    int
	kind string // set del drset drdel
	who  string

	started, done bool
	start, end    stamp
	seq           uint64 // Batch.SeqNum() after the commit; 0 = not available
	flushable     bool
	fillClass     string
}

// setsAll reports whether the write leaves every key of the group present.
func (w *writeRec) setsAll() bool { return w.kind == "set" || w.kind == "drset" }

type val struct {
	ok bool
	v  string
}

// readRec is one observation of a group.
type readRec struct {
	th     int
	desc   string
	g      int
	cs, ce stamp // around the creation of the snapshot/iterator (the whole call for a plain Get)
	end    stamp
	vals   []val
	w      *writeRec // the write identified by the marker key (nil: single absent key)
	single int       // -1: consistent read of the whole group; else index of the one key read
	weak   bool      // checkpoint: only atomicity and no-future are required
	// anom: the observation failed the atomicity oracle; the verdict is taken
	// after the join (only when a known finding may explain it).
	anom error
}

type opSpan struct {
	role   string
	m0, m1 int64
	ns     int64 // wall-clock duration (measurement only)
}

type thread struct {
	e    *engine
	id   int
	name string
	lc   int64
	hc   uint64

	reads []*readRec
	spans []opSpan
	// writer: last tag written to filler key n; maintenance: model of its private keys
	fill map[string]string
	priv map[string]string
	// pending AsyncFlush channels
	flushed []<-chan struct{}
}

type events struct {
	flushes, flushIngest, compactions, stalls, ingested atomic.Int64
	// jobs counts FlushBegin and CompactionBegin events.
	jobs atomic.Int64
	mu   sync.Mutex
	bg   []string
}

type logger struct {
	mu     sync.Mutex
	fatals []string
}

func (l *logger) Infof(string, ...interface{})  {}
func (l *logger) Errorf(string, ...interface{}) {}
func (l *logger) Fatalf(format string, args ...interface{}) {
	msg := fmt.Sprintf(format, args...)
	l.mu.Lock()
	l.fatals = append(l.fatals, msg)
	l.mu.Unlock()
	panic("pebble Fatalf: " + msg)
}

type engine struct {
	p    *Plan
	fs   vfs.FS
	opts *pebble.Options
	db   *pebble.DB
	ev   *events
	lg   *logger
	t0   time.Time

	clock atomic.Int64
	goids sync.Map // goroutine id -> *thread
	tags  []map[string]*writeRec

	stop atomic.Bool
	// panicked: a harness thread panicked inside a DB call; the DB may hold
	// locks, so it is abandoned instead of closed.
	panicked atomic.Bool
	mu       sync.Mutex
	viols    []error

	threads []*thread
	wg      sync.WaitGroup

	counters map[string]int

	// exclude: observations that the known finding sigUnpublishedFlush may
	// explain are not checked.
	exclude bool
	// excludeWait: WaitForFileOnlySnapshot is not called (known finding sigEFOSWait).
	excludeWait bool
	excluded    int  // observations skipped
	manifest    bool // an excluded observation was anomalous
}

func (e *engine) fail(err error) {
	e.mu.Lock()
	e.viols = append(e.viols, err)
	e.mu.Unlock()
	e.stop.Store(true)
}

func (e *engine) firstViol() error {
	e.mu.Lock()
	defer e.mu.Unlock()
	if len(e.viols) == 0 {
		return nil
	}
	return e.viols[0]
}

func (t *thread) stamp() stamp {
	t.lc++
	s := stamp{th: t.id, lc: t.lc, jobs: t.e.ev.jobs.Load()}
	if t.e.p.Ticks {
		s.tk = t.e.clock.Add(1)
	} else {
		s.wall = int64(time.Since(t.e.t0))
	}
	return s
}

func (e *engine) measure(s stamp) int64 {
	if e.p.Ticks {
		return s.tk
	}
	return s.wall
}

// before reports whether the point a is proved to precede the point b.
func (e *engine) before(a, b stamp) bool {
	switch {
	case a.th == thInit:
		return b.th != thInit || a.lc < b.lc
	case b.th == thInit:
		return false
	case b.th == thFinal:
		return a.th != thFinal || a.lc < b.lc
	case a.th == thFinal:
		return false
	case a.th == b.th:
		return a.lc < b.lc
	}
	return e.p.Ticks && a.tk < b.tk
}

// prec reports whether write a is proved to be ordered before write b in the
// commit order: by their sequence numbers, or because a returned before b was
// started.
func (e *engine) prec(a, b *writeRec) bool {
	if a == b {
		return false
	}
	if a.seq > 0 && b.seq > 0 {
		return a.seq < b.seq
	}
	return a.done && b.started && e.before(a.end, b.start)
}

// ---------------------------------------------------------------- goroutine ids

func curGoid() uint64 {
	var buf [40]byte
	n := runtime.Stack(buf[:], false)
	// "goroutine 123 [running]:"
	var id uint64
	for _, c := range buf[len("goroutine "):n] {
		if c < '0' || c > '9' {
			break
		}
		id = id*10 + uint64(c-'0')
	}
	return id
}

func mix(x uint64) uint64 {
	x ^= x >> 30
	x *= 0xbf58476d1ce4e5b9
	x ^= x >> 27
	x *= 0x94d049bb133111eb
	x ^= x >> 31
	return x
}

// yield is the verifhook callback: a pure function of (seed, site, thread,
// per-thread counter) decides whether the calling harness thread yields.
func (e *engine) yield(s verifhook.Site) {
	v, ok := e.goids.Load(curGoid())
	if !ok {
		return
	}
	t := v.(*thread)
	t.hc++
	h := mix(e.p.Seed ^ uint64(s)*0x9E3779B97F4A7C15 ^ uint64(t.id+1)*0xC2B2AE3D27D4EB4F ^ t.hc*0x165667B19E3779F9)
	if int(h%100) < e.p.YieldPct {
		runtime.Gosched()
		if (h>>20)%4 == 0 {
			runtime.Gosched()
			runtime.Gosched()
		}
	}
}

// ---------------------------------------------------------------- reading

func cmpKey(a, b string) int { return testkeys.Comparer.Compare([]byte(a), []byte(b)) }

type getter interface {
	Get(key []byte) ([]byte, io.Closer, error)
}

func getVal(r getter, key string) (val, error) {
	v, c, err := r.Get([]byte(key))
	if errors.Is(err, pebble.ErrNotFound) {
		return val{}, nil
	}
	if err != nil {
		return val{}, fmt.Errorf("Get(%q): unexpected error %v", key, err)
	}
	out := val{ok: true, v: string(v)}
	if err := c.Close(); err != nil {
		return val{}, fmt.Errorf("Get(%q) closer: %v", key, err)
	}
	return out, nil
}

// knownKey reports whether k can exist at all in a case.
func (e *engine) knownKey(k string) bool {
	if len(k) == 0 {
		return false
	}
	switch {
	case k[0] >= 'b' && int(k[0]-'b') < len(e.p.Groups):
		for _, gk := range e.p.Groups[int(k[0]-'b')] {
			if gk == k {
				return true
			}
		}
		return false
	case k[0] == 'w', k[0] == 'y':
		return len(k) == 3
	}
	return false
}

// scan reads everything the iterator shows, in one direction, and checks that
// the keys are strictly ordered and can exist.
func (e *engine) scan(it *pebble.Iterator, rev bool) (map[string]string, error) {
	m := map[string]string{}
	prev := ""
	first := true
	step := func() bool {
		if first {
			first = false
			if rev {
				return it.Last()
			}
			return it.First()
		}
		if rev {
			return it.Prev()
		}
		return it.Next()
	}
	for step() {
		k := string(it.Key())
		v, err := it.ValueAndErr()
		if err != nil {
			return nil, fmt.Errorf("iterator value of %q: %v", k, err)
		}
		if !e.knownKey(k) {
			return nil, fmt.Errorf("iterator shows key %q that was never written", k)
		}
		if prev != "" {
			c := cmpKey(prev, k)
			if (!rev && c >= 0) || (rev && c <= 0) {
				return nil, fmt.Errorf("iterator keys out of order: %q then %q (reverse=%v)", prev, k, rev)
			}
		}
		prev = k
		m[k] = string(v)
	}
	if err := it.Error(); err != nil {
		return nil, fmt.Errorf("iterator error: %v", err)
	}
	return m, nil
}

func groupVals(keys []string, m map[string]string) []val {
	out := make([]val, len(keys))
	for i, k := range keys {
		v, ok := m[k]
		out[i] = val{ok: ok, v: v}
	}
	return out
}

func (e *engine) fmtRead(r *readRec) string {
	keys := e.p.Groups[r.g]
	if r.single >= 0 {
		keys = keys[r.single : r.single+1]
	}
	return fmtVals(keys, r.vals)
}

func fmtVals(keys []string, vs []val) string {
	var b strings.Builder
	for i, k := range keys {
		if i > 0 {
			b.WriteString(" ")
		}
		if vs[i].ok {
			fmt.Fprintf(&b, "%s=%s", k, vs[i].v)
		} else {
			fmt.Fprintf(&b, "%s=<absent>", k)
		}
	}
	return b.String()
}

// identify applies the atomicity oracle: the values of one consistent read of
// group g must be exactly the effect of ONE write to the group.
func (e *engine) identify(g int, vs []val, desc string) (*writeRec, error) {
	keys := e.p.Groups[g]
	if !vs[0].ok {
		return nil, fmt.Errorf("atomicity: %s of group %d does not see the marker key %q that every write sets: [%s]", desc, g, keys[0], fmtVals(keys, vs))
	}
	w := e.tags[g][vs[0].v]
	if w == nil {
		return nil, fmt.Errorf("%s of group %d: marker key %q holds %q, which no write of the plan produces: [%s]", desc, g, keys[0], vs[0].v, fmtVals(keys, vs))
	}
	for i := 1; i < len(keys); i++ {
		if w.setsAll() {
			if !vs[i].ok || vs[i].v != w.tag {
				return nil, fmt.Errorf("atomicity: %s of group %d observes a strict subset of write %s (%s, %s): [%s]", desc, g, w.tag, w.kind, w.who, fmtVals(keys, vs))
			}
		} else if vs[i].ok {
			return nil, fmt.Errorf("atomicity: %s of group %d observes a strict subset of write %s (%s deletes every key but the marker, %s): [%s]", desc, g, w.tag, w.kind, w.who, fmtVals(keys, vs))
		}
	}
	return w, nil
}

// record applies the atomicity oracle to one observation and stores it.
func (t *thread) record(desc string, g int, vs []val, cs, ce stamp, weak bool) error {
	w, err := t.e.identify(g, vs, desc)
	r := &readRec{th: t.id, desc: desc, g: g, cs: cs, ce: ce, end: t.stamp(), vals: vs, w: w, single: -1, weak: weak}
	if err != nil {
		if !t.e.exclude {
			return err
		}
		// A known finding is excluded: whether this observation belongs to the
		// excluded class can only be decided after the join.
		r.anom = err
	}
	t.reads = append(t.reads, r)
	return nil
}

func (t *thread) scope(g int) []int {
	if g >= 0 {
		return []int{g}
	}
	out := make([]int, len(t.e.p.Groups))
	for i := range out {
		out[i] = i
	}
	return out
}

func hold(n int) {
	for i := 0; i < n; i++ {
		runtime.Gosched()
	}
}

func boundsOf(g int, ng int) *pebble.IterOptions {
	if g < 0 {
		return &pebble.IterOptions{LowerBound: []byte("b"), UpperBound: []byte(groupLetter(ng))}
	}
	lo, hi := groupSpan(g)
	return &pebble.IterOptions{LowerBound: []byte(lo), UpperBound: []byte(hi)}
}

type iterMaker interface {
	NewIter(o *pebble.IterOptions) (*pebble.Iterator, error)
}

// scanVia creates an iterator on src (the view is fixed there) and scans it.
func (t *thread) scanVia(src iterMaker, o *pebble.IterOptions, rev bool, holdN int) (m map[string]string, cs, ce stamp, err error) {
	cs = t.stamp()
	it, err := src.NewIter(o)
	ce = t.stamp()
	if err != nil {
		return nil, cs, ce, fmt.Errorf("NewIter: %v", err)
	}
	hold(holdN)
	m, err = t.e.scan(it, rev)
	if cerr := it.Close(); err == nil && cerr != nil {
		err = fmt.Errorf("iterator Close: %v", cerr)
	}
	return m, cs, ce, err
}

func (t *thread) doRead(op ReadP, desc string) error {
	e := t.e
	db := e.db
	ng := len(e.p.Groups)
	role := map[string]string{"snapget": "snapshot", "snapiter": "snapshot", "iterscan": "iterator", "iterseek": "iterator",
		"efos": "efos", "ibatch": "indexed-batch", "get1": "get"}[op.Kind]
	s0, n0 := t.stamp(), realNanos()
	defer func() { t.spans = append(t.spans, opSpan{role, e.measure(s0), e.measure(t.stamp()), realNanos() - n0}) }()
	switch op.Kind {
	case "get1":
		key := e.p.Groups[op.G][op.Key]
		cs := t.stamp()
		v, err := getVal(db, key)
		ce := t.stamp()
		if err != nil {
			return err
		}
		r := &readRec{th: t.id, desc: desc, g: op.G, cs: cs, ce: ce, end: ce, vals: []val{v}, single: op.Key}
		var anom error
		if v.ok {
			w := e.tags[op.G][v.v]
			if w == nil || (op.Key != 0 && !w.setsAll()) {
				anom = fmt.Errorf("%s: key %q holds %q, which no write of the plan puts there", desc, key, v.v)
			} else {
				r.w = w
			}
		} else if op.Key == 0 {
			anom = fmt.Errorf("%s: marker key %q, which every write sets, is absent", desc, key)
		}
		if anom != nil {
			if !e.exclude {
				return anom
			}
			r.anom = anom
		}
		t.reads = append(t.reads, r)

	case "snapget", "snapiter":
		cs := t.stamp()
		s := db.NewSnapshot()
		ce := t.stamp()
		sclosed := false
		defer func() {
			if !sclosed {
				s.Close()
			}
		}()
		hold(op.Hold)
		var m map[string]string
		if op.Kind == "snapiter" {
			var err error
			m, _, _, err = t.scanVia(s, boundsOf(op.G, ng), op.Rev, 0)
			if err != nil {
				return err
			}
		}
		for _, g := range t.scope(op.G) {
			keys := e.p.Groups[g]
			vs := make([]val, len(keys))
			for n := range keys {
				i := n
				if op.Rev {
					i = len(keys) - 1 - n
				}
				v, err := getVal(s, keys[i])
				if err != nil {
					return err
				}
				vs[i] = v
			}
			if m != nil {
				// the same snapshot read two ways must agree
				sv := groupVals(keys, m)
				var dis error
				for i := range vs {
					if vs[i] != sv[i] {
						dis = fmt.Errorf("%s: Gets and an iterator on the same snapshot disagree on group %d: gets [%s] scan [%s]", desc, g, fmtVals(keys, vs), fmtVals(keys, sv))
					}
				}
				if dis != nil {
					if !e.exclude {
						return dis
					}
					// verdict after the join (a known finding may explain it)
					t.reads = append(t.reads, &readRec{th: t.id, desc: desc, g: g, cs: cs, ce: ce, end: t.stamp(), vals: vs, single: -1, anom: dis})
					continue
				}
			}
			if err := t.record(desc, g, vs, cs, ce, false); err != nil {
				return err
			}
		}
		sclosed = true
		if err := s.Close(); err != nil {
			return fmt.Errorf("snapshot Close: %v", err)
		}

	case "iterscan":
		var o *pebble.IterOptions
		if op.G >= 0 || op.Hold%2 == 1 {
			o = boundsOf(op.G, ng)
		} // else: unbounded scan of the whole store
		m, cs, ce, err := t.scanVia(db, o, op.Rev, op.Hold)
		if err != nil {
			return err
		}
		for _, g := range t.scope(op.G) {
			if err := t.record(desc, g, groupVals(e.p.Groups[g], m), cs, ce, false); err != nil {
				return err
			}
		}

	case "iterseek":
		cs := t.stamp()
		it, err := db.NewIter(nil)
		ce := t.stamp()
		if err != nil {
			return fmt.Errorf("NewIter: %v", err)
		}
		hold(op.Hold)
		res := map[int][]val{}
		for _, g := range t.scope(op.G) {
			keys := e.p.Groups[g]
			vs := make([]val, len(keys))
			for n := range keys {
				i := n
				if op.Rev {
					i = len(keys) - 1 - n
				}
				var ok bool
				if n%2 == 0 {
					ok = it.SeekGE([]byte(keys[i]))
				} else {
					ok = it.SeekPrefixGE([]byte(keys[i]))
				}
				if ok && bytes.Equal(it.Key(), []byte(keys[i])) {
					v, err := it.ValueAndErr()
					if err != nil {
						it.Close()
						return fmt.Errorf("iterator value: %v", err)
					}
					vs[i] = val{ok: true, v: string(v)}
				}
			}
			res[g] = vs
		}
		err = it.Error()
		if cerr := it.Close(); err == nil {
			err = cerr
		}
		if err != nil {
			return fmt.Errorf("iterator error: %v", err)
		}
		for _, g := range t.scope(op.G) {
			if err := t.record(desc, g, res[g], cs, ce, false); err != nil {
				return err
			}
		}

	case "efos":
		cs := t.stamp()
		es := db.NewEventuallyFileOnlySnapshot([]pebble.KeyRange{{Start: []byte("b"), End: []byte(groupLetter(ng))}})
		ce := t.stamp()
		closed := false
		defer func() {
			if !closed {
				es.Close()
			}
		}()
		hold(op.Hold)
		if op.Wait && !e.excludeWait {
			// a non-zero duration: with 0 nothing rotates the mutable memtable and
			// the call would wait for an unrelated flush.
			if err := es.WaitForFileOnlySnapshot(context.Background(), time.Millisecond); err != nil {
				return fmt.Errorf("WaitForFileOnlySnapshot: %v", err)
			}
		}
		if op.Rev {
			for _, g := range t.scope(op.G) {
				keys := e.p.Groups[g]
				vs := make([]val, len(keys))
				for i := range keys {
					v, err := getVal(es, keys[i])
					if err != nil {
						return err
					}
					vs[i] = v
				}
				if err := t.record(desc, g, vs, cs, ce, false); err != nil {
					return err
				}
			}
		} else {
			m, _, _, err := t.scanVia(es, boundsOf(op.G, ng), op.Hold%2 == 1, 0)
			if err != nil {
				return err
			}
			for _, g := range t.scope(op.G) {
				if err := t.record(desc, g, groupVals(e.p.Groups[g], m), cs, ce, false); err != nil {
					return err
				}
			}
		}
		closed = true
		if err := es.Close(); err != nil {
			return fmt.Errorf("EFOS Close: %v", err)
		}

	case "ibatch":
		b := db.NewIndexedBatch()
		defer b.Close()
		// an uncommitted write to a key outside every group
		if err := b.Set([]byte("x"+string(rune('a'+t.id%26))), []byte("uncommitted"), nil); err != nil {
			return fmt.Errorf("indexed batch Set: %v", err)
		}
		m, cs, ce, err := t.scanVia(b, boundsOf(op.G, ng), op.Rev, op.Hold)
		if err != nil {
			return err
		}
		for _, g := range t.scope(op.G) {
			if err := t.record(desc, g, groupVals(e.p.Groups[g], m), cs, ce, false); err != nil {
				return err
			}
		}
	}
	return nil
}

// ---------------------------------------------------------------- writing

func padding(n int, salt int) []byte {
	b := make([]byte, n)
	for i := range b {
		b[i] = byte('A' + (i+salt)%23)
	}
	return b
}

func (t *thread) doBatch(i, j int, bp BatchP) error {
	e := t.e
	db := e.db
	keys := e.p.Groups[bp.G]
	tag := writerTag(i, j)
	w := e.tags[bp.G][tag]
	w.fillClass = bp.FillClass
	s0, n0 := t.stamp(), realNanos()
	defer func() {
		t.spans = append(t.spans, opSpan{"commit", e.measure(s0), e.measure(t.stamp()), realNanos() - n0})
	}()

	var b *pebble.Batch
	if bp.Indexed {
		b = db.NewIndexedBatch()
	} else {
		b = db.NewBatch()
	}
	lo, hi := groupSpan(bp.G)
	var err error
	chk := func(e2 error) {
		if err == nil {
			err = e2
		}
	}
	switch bp.Kind {
	case "set":
		for _, k := range keys {
			chk(b.Set([]byte(k), []byte(tag), nil))
		}
	case "del":
		// delete in reverse so that the marker is written first and the batch
		// order differs from the key order
		chk(b.Set([]byte(keys[0]), []byte(tag), nil))
		for n := len(keys) - 1; n >= 1; n-- {
			chk(b.Delete([]byte(keys[n]), nil))
		}
	case "drset":
		chk(b.DeleteRange([]byte(lo), []byte(hi), nil))
		for _, k := range keys {
			chk(b.Set([]byte(k), []byte(tag), nil))
		}
	case "drdel":
		chk(b.DeleteRange([]byte(lo), []byte(hi), nil))
		chk(b.Set([]byte(keys[0]), []byte(tag), nil))
	}
	for n := 0; n < bp.FillKeys; n++ {
		per := bp.FillBytes / bp.FillKeys
		if n == 0 {
			per += bp.FillBytes % bp.FillKeys
		}
		v := append([]byte(tag+"|"), padding(per, n)...)
		chk(b.Set([]byte(fillerKey(i, n)), v, nil))
	}
	if err != nil {
		b.Close()
		return fmt.Errorf("building batch %s: %v", tag, err)
	}
	opts := pebble.NoSync
	if bp.Sync {
		opts = pebble.Sync
	}
	w.start = t.stamp()
	w.started = true
	switch bp.Commit {
	case "commit":
		err = b.Commit(opts)
	case "apply":
		err = db.Apply(b, opts)
	case "nsw":
		err = db.ApplyNoSyncWait(b, opts)
	}
	w.end = t.stamp()
	if err != nil {
		return fmt.Errorf("commit of batch %s (%s sync=%v): unexpected error %v", tag, bp.Commit, bp.Sync, err)
	}
	if bp.Commit == "nsw" {
		if err := b.SyncWait(); err != nil {
			return fmt.Errorf("SyncWait of batch %s: %v", tag, err)
		}
	}
	w.flushable = b.Empty() // Apply clears the contents of a large batch (db.go Apply doc)
	w.seq = uint64(b.SeqNum())
	w.done = true
	for n := 0; n < bp.FillKeys; n++ {
		t.fill[fillerKey(i, n)] = tag
	}
	if err := b.Close(); err != nil {
		return fmt.Errorf("Close of batch %s: %v", tag, err)
	}
	if bp.ReadBack {
		m, cs, ce, err := t.scanVia(db, boundsOf(bp.G, len(e.p.Groups)), false, 0)
		if err != nil {
			return err
		}
		if err := t.record(fmt.Sprintf("read-back by writer %d after batch %s", i, tag), bp.G, groupVals(keys, m), cs, ce, false); err != nil {
			return err
		}
	}
	return nil
}

// ---------------------------------------------------------------- maintenance

type kvp struct{ k, v string }

func (e *engine) writeSST(path string, kvs []kvp, rd *[2]string) error {
	f, err := e.fs.Create(path, vfs.WriteCategoryUnspecified)
	if err != nil {
		return err
	}
	sort.Slice(kvs, func(i, j int) bool { return cmpKey(kvs[i].k, kvs[j].k) < 0 })
	w := sstable.NewWriter(objstorageprovider.NewFileWritable(f), e.opts.MakeWriterOptions(0, e.db.FormatMajorVersion().MaxTableFormat()))
	for _, kv := range kvs {
		if err := w.Set([]byte(kv.k), []byte(kv.v)); err != nil {
			return err
		}
	}
	if rd != nil {
		if err := w.DeleteRange([]byte(rd[0]), []byte(rd[1])); err != nil {
			return err
		}
	}
	return w.Close()
}

func roleOf(kind string) string {
	switch kind {
	case "flush", "asyncflush":
		return "flush"
	case "excise", "ingestexcise":
		return "excise"
	case "privset":
		return "direct-write"
	}
	return kind
}

func (t *thread) checkPriv(what string) error {
	for n := 0; n < 6; n++ {
		k := privKey(t.id-t.e.maintBase(), n)
		v, err := getVal(t.e.db, k)
		if err != nil {
			return err
		}
		want, ok := t.priv[k]
		if ok != v.ok || want != v.v {
			return fmt.Errorf("%s: private key %q (only this thread writes or excises it) reads (present=%v %q), expected (present=%v %q)", what, k, v.ok, v.v, ok, want)
		}
	}
	return nil
}

func (e *engine) maintBase() int { return len(e.p.Writers) + len(e.p.Readers) }

func (t *thread) doMaint(m, n int, op MaintP) error {
	e := t.e
	db := e.db
	ctx := context.Background()
	desc := fmt.Sprintf("maint %d op %d %s", m, n, op.Kind)
	s0, n0 := t.stamp(), realNanos()
	defer func() {
		t.spans = append(t.spans, opSpan{roleOf(op.Kind), e.measure(s0), e.measure(t.stamp()), realNanos() - n0})
	}()
	switch op.Kind {
	case "flush":
		if err := db.Flush(); err != nil {
			return fmt.Errorf("%s: %v", desc, err)
		}
	case "asyncflush":
		ch, err := db.AsyncFlush()
		if err != nil {
			return fmt.Errorf("%s: %v", desc, err)
		}
		t.flushed = append(t.flushed, ch)
	case "compact":
		lo, hi := "a", "z"
		if op.Span == 1 {
			lo, hi = groupSpan(op.G)
		}
		if err := db.Compact(ctx, []byte(lo), []byte(hi), op.Flag); err != nil {
			return fmt.Errorf("%s [%s,%s): %v", desc, lo, hi, err)
		}
	case "ingest":
		tag := ingestTag(m, n)
		w := e.tags[op.G][tag]
		keys := e.p.Groups[op.G]
		var kvs []kvp
		var rd *[2]string
		if op.IKind == "set" {
			for _, k := range keys {
				kvs = append(kvs, kvp{k, tag})
			}
		} else {
			lo, hi := groupSpan(op.G)
			rd = &[2]string{lo, hi}
			kvs = append(kvs, kvp{keys[0], tag})
		}
		path := fmt.Sprintf("ext/m%d_%d.sst", m, n)
		if err := e.writeSST(path, kvs, rd); err != nil {
			return fmt.Errorf("%s: writing the table: %v", desc, err)
		}
		w.start = t.stamp()
		w.started = true
		err := db.Ingest(ctx, []string{path})
		w.end = t.stamp()
		if err != nil {
			return fmt.Errorf("%s: %v", desc, err)
		}
		w.done = true
	case "privset":
		for i := 0; i < op.N; i++ {
			k, v := privKey(m, i), fmt.Sprintf("p%d#%d", m, n)
			if err := db.Set([]byte(k), []byte(v), pebble.NoSync); err != nil {
				return fmt.Errorf("%s: Set: %v", desc, err)
			}
			t.priv[k] = v
		}
		return t.checkPriv(desc)
	case "excise":
		if db.FormatMajorVersion() < pebble.FormatVirtualSSTables {
			return nil
		}
		lo, hi := privSpan(m)
		if err := db.Excise(ctx, pebble.KeyRange{Start: []byte(lo), End: []byte(hi)}); err != nil {
			return fmt.Errorf("%s [%s,%s): %v", desc, lo, hi, err)
		}
		t.priv = map[string]string{}
		return t.checkPriv(desc)
	case "ingestexcise":
		if db.FormatMajorVersion() < pebble.FormatVirtualSSTables {
			return nil
		}
		var kvs []kvp
		next := map[string]string{}
		for i := 0; i < op.N; i++ {
			k, v := privKey(m, i+1), fmt.Sprintf("x%d#%d", m, n)
			kvs = append(kvs, kvp{k, v})
			next[k] = v
		}
		path := fmt.Sprintf("ext/m%d_%d.sst", m, n)
		if err := e.writeSST(path, kvs, nil); err != nil {
			return fmt.Errorf("%s: writing the table: %v", desc, err)
		}
		lo, hi := privSpan(m)
		if _, err := db.IngestAndExcise(ctx, []string{path}, nil, nil, pebble.KeyRange{Start: []byte(lo), End: []byte(hi)}); err != nil {
			return fmt.Errorf("%s: %v", desc, err)
		}
		t.priv = next
		return t.checkPriv(desc)
	case "checkpoint":
		dir := fmt.Sprintf("ckpt_m%d_%d", m, n)
		var co []pebble.CheckpointOption
		if op.Flag {
			co = append(co, pebble.WithFlushedWAL())
		}
		cs := t.stamp()
		err := db.Checkpoint(dir, co...)
		ce := t.stamp()
		if err != nil {
			return fmt.Errorf("%s: %v", desc, err)
		}
		return t.verifyCheckpoint(dir, desc, cs, ce, op.Flag)
	case "metrics":
		mt := db.Metrics()
		_ = mt.String()
		if _, err := db.SSTables(); err != nil {
			return fmt.Errorf("%s: SSTables: %v", desc, err)
		}
		if _, err := db.EstimateDiskUsage([]byte("a"), []byte("z")); err != nil {
			return fmt.Errorf("%s: EstimateDiskUsage: %v", desc, err)
		}
	case "ratchet":
		tgt := pebble.FormatMajorVersion(op.N)
		if err := db.RatchetFormatMajorVersion(tgt); err != nil {
			return fmt.Errorf("%s to %d: %v", desc, op.N, err)
		}
		if got := db.FormatMajorVersion(); got < tgt {
			return fmt.Errorf("%s: after RatchetFormatMajorVersion(%d) the DB reports %d", desc, tgt, got)
		}
	}
	return nil
}

// verifyCheckpoint opens the checkpoint as its own DB: every group in it must
// be the effect of one write that had started before Checkpoint returned.
func (t *thread) verifyCheckpoint(dir, desc string, cs, ce stamp, flushedWAL bool) error {
	e := t.e
	lg := &logger{}
	o := dbm.BuildOptions(e.p.Opt, e.fs, nil, lg)
	o.WALDir = ""
	cdb, err := pebble.Open(dir, o)
	if err != nil {
		return fmt.Errorf("%s: opening the checkpoint: %v", desc, err)
	}
	it, err := cdb.NewIter(nil)
	var m map[string]string
	if err == nil {
		m, err = e.scan(it, false)
		if cerr := it.Close(); err == nil {
			err = cerr
		}
	}
	if cerr := cdb.Close(); err == nil && cerr != nil {
		err = fmt.Errorf("closing the checkpoint: %v", cerr)
	}
	if err != nil {
		return fmt.Errorf("%s: reading the checkpoint: %v", desc, err)
	}
	for g := range e.p.Groups {
		vs := groupVals(e.p.Groups[g], m)
		if !flushedWAL {
			// Without WithFlushedWAL a checkpoint holds the flushed tables plus
			// whatever part of the WAL had reached the file (none without a WAL):
			// any prefix of the history, including the one before the initial
			// load. A group that is absent as a whole is therefore legitimate.
			none := true
			for _, v := range vs {
				none = none && !v.ok
			}
			if none {
				continue
			}
		}
		if err := t.record(desc+" (opened checkpoint)", g, vs, cs, ce, true); err != nil {
			return err
		}
	}
	return nil
}

// ---------------------------------------------------------------- run

// caseStart is the wall-clock start (unix nanoseconds) of the running case, 0
// if none; read by the watchdog outside the bubble.
var caseStart atomic.Int64

func realNanos() int64 {
	var tv syscall.Timeval
	if err := syscall.Gettimeofday(&tv); err != nil {
		return time.Now().UnixNano()
	}
	return tv.Sec*1e9 + int64(tv.Usec)*1e3
}

// joinBudget is the wall-clock time after which a case outside a bubble is
// abandoned as inconclusive (never as a violation).
var joinBudget = 60 * time.Second

// virtualDeadlock is the virtual time (inside a bubble) after which unfinished
// threads are a proved deadlock.
const virtualDeadlock = time.Hour

// timeouts counts the cases of this process abandoned by the join budget. After
// two of them the remaining cases outside a bubble are skipped: every further
// hang would cost another budget, and only the bubble phase of C42 can prove a
// deadlock anyway.
var timeouts atomic.Int32

func (e *engine) spawn(t *thread, ready *sync.WaitGroup, start <-chan struct{}, body func() error) {
	e.threads = append(e.threads, t)
	e.wg.Add(1)
	ready.Add(1)
	go func() {
		defer e.wg.Done()
		if !e.p.Bubble {
			// Outside a bubble a panic of a harness thread is reported as a
			// violation of the case. Inside the bubble it kills the process (the
			// bubble could not end with the DB wedged); the driver then replays
			// the in-flight plan.
			defer func() {
				if r := recover(); r != nil {
					e.panicked.Store(true)
					e.fail(fmt.Errorf("panic on %s: %v\n%s", t.name, r, debug.Stack()))
				}
			}()
		}
		e.goids.Store(curGoid(), t)
		ready.Done()
		<-start
		if err := body(); err != nil {
			e.fail(fmt.Errorf("%s: %w", t.name, err))
		}
		for _, ch := range t.flushed {
			<-ch
		}
	}()
}

func (e *engine) listener() *pebble.EventListener {
	ev := e.ev
	return &pebble.EventListener{
		BackgroundError: func(err error) {
			if errors.Is(err, pebble.ErrCancelledCompaction) {
				return
			}
			ev.mu.Lock()
			ev.bg = append(ev.bg, err.Error())
			ev.mu.Unlock()
		},
		FlushBegin:      func(pebble.FlushInfo) { ev.jobs.Add(1) },
		CompactionBegin: func(pebble.CompactionInfo) { ev.jobs.Add(1) },
		FlushEnd: func(fi pebble.FlushInfo) {
			ev.flushes.Add(1)
			if fi.Ingest {
				ev.flushIngest.Add(1)
			}
		},
		CompactionEnd:   func(pebble.CompactionInfo) { ev.compactions.Add(1) },
		WriteStallBegin: func(pebble.WriteStallBeginInfo) { ev.stalls.Add(1) },
		TableIngested:   func(pebble.TableIngestInfo) { ev.ingested.Add(1) },
	}
}

// runOnce executes the plan once.
func runOnce(p *Plan) (out evid.Outcome, err error) {
	e := &engine{p: p, fs: vfs.NewMem(), ev: &events{}, lg: &logger{}, t0: time.Now(), counters: map[string]int{}}
	tRun0 := realNanos()
	out.Counters = e.counters
	e.exclude = !p.NoExclude && (evid.FindingActive("C06", sigUnpublishedFlush) || evid.FindingActive("C42", sigUnpublishedFlush))
	e.excludeWait = !p.NoExclude && raceEnabled && evid.FindingActive("C42", sigEFOSWait)
	caseStart.Store(realNanos())
	defer caseStart.Store(0)

	if len(p.Groups) == 0 || len(p.Groups) > 3 {
		return out, nil // not a plan of this generator
	}
	if !p.Bubble && timeouts.Load() >= 2 {
		e.counters["skipped-after-timeouts"]++
		out.Labels = append(out.Labels, "skipped-after-timeouts")
		return out, nil
	}
	e.opts = dbm.BuildOptions(p.Opt, e.fs, e.listener(), e.lg)
	db, oerr := pebble.Open("db", e.opts)
	if oerr != nil {
		return out, fmt.Errorf("Open: %v", oerr)
	}
	e.db = db
	abandoned := false
	defer func() {
		if e.db != nil && !abandoned && !e.panicked.Load() {
			if cerr := e.db.Close(); cerr != nil && err == nil {
				err = fmt.Errorf("Close: %v", cerr)
			}
		}
	}()
	if merr := e.fs.MkdirAll("ext", 0o755); merr != nil {
		return out, fmt.Errorf("mkdir: %v", merr)
	}

	// the planned writes
	e.tags = make([]map[string]*writeRec, len(p.Groups))
	for g := range p.Groups {
		e.tags[g] = map[string]*writeRec{}
	}
	for i, bs := range p.Writers {
		for j, b := range bs {
			e.tags[b.G][writerTag(i, j)] = &writeRec{tag: writerTag(i, j), g: b.G, kind: b.Kind, who: fmt.Sprintf("writer %d batch %d %s", i, j, b.Commit)}
		}
	}
	for m, ops := range p.Maint {
		for n, o := range ops {
			if o.Kind == "ingest" {
				kind := "set"
				if o.IKind != "set" {
					kind = "drdel"
				}
				e.tags[o.G][ingestTag(m, n)] = &writeRec{tag: ingestTag(m, n), g: o.G, kind: kind, who: fmt.Sprintf("ingestion by maint %d op %d", m, n)}
			}
		}
	}

	// initial load: one batch sets every key of every group.
	{
		b := db.NewBatch()
		for g, keys := range p.Groups {
			for _, k := range keys {
				b.Set([]byte(k), []byte(initTag), nil)
			}
			e.tags[g][initTag] = &writeRec{tag: initTag, g: g, kind: "set", who: "initial load", started: true, done: true,
				start: stamp{th: thInit, lc: 1}, end: stamp{th: thInit, lc: 2}}
		}
		if cerr := b.Commit(pebble.NoSync); cerr != nil {
			return out, fmt.Errorf("initial load: %v", cerr)
		}
		seq := uint64(b.SeqNum())
		for g := range p.Groups {
			e.tags[g][initTag].seq = seq
		}
		b.Close()
	}

	if p.Procs > 0 {
		old := runtime.GOMAXPROCS(p.Procs)
		defer runtime.GOMAXPROCS(old)
	}
	if p.YieldPct > 0 {
		old := verifhook.Install(&verifhook.Hooks{Yield: e.yield})
		defer verifhook.Install(old)
	}

	// ---- the concurrent phase
	var ready sync.WaitGroup
	start := make(chan struct{})
	id := 0
	for i := range p.Writers {
		i := i
		t := &thread{e: e, id: id, name: fmt.Sprintf("writer %d", i), fill: map[string]string{}}
		id++
		e.spawn(t, &ready, start, func() error {
			for j, b := range p.Writers[i] {
				if e.stop.Load() {
					return nil
				}
				if err := t.doBatch(i, j, b); err != nil {
					return err
				}
			}
			return nil
		})
	}
	for i := range p.Readers {
		i := i
		t := &thread{e: e, id: id, name: fmt.Sprintf("reader %d", i)}
		id++
		e.spawn(t, &ready, start, func() error {
			for j, op := range p.Readers[i] {
				if e.stop.Load() {
					return nil
				}
				// Rep > 1: reader churn - the same read is repeated back to back
				// (many NewIter / NewSnapshot / Close calls racing with version and
				// memtable changes); every repetition is checked like a single read.
				for rep := 0; rep < max(1, op.Rep); rep++ {
					if rep > 0 && e.stop.Load() {
						break
					}
					if err := t.doRead(op, fmt.Sprintf("reader %d op %d %s", i, j, op.Kind)); err != nil {
						return err
					}
				}
			}
			return nil
		})
	}
	for m := range p.Maint {
		m := m
		t := &thread{e: e, id: id, name: fmt.Sprintf("maint %d", m), priv: map[string]string{}}
		id++
		e.spawn(t, &ready, start, func() error {
			for n, op := range p.Maint[m] {
				if e.stop.Load() {
					return nil
				}
				if err := t.doMaint(m, n, op); err != nil {
					return err
				}
			}
			return nil
		})
	}
	ready.Wait()
	tRun := realNanos()
	defer func() { e.counters["ms-total"] += int((realNanos() - tRun0) / 1e6) }()
	close(start)
	done := make(chan struct{})
	go func() { e.wg.Wait(); close(done) }()
	if p.Bubble {
		// Inside the bubble time is virtual: it only advances while EVERY
		// goroutine of the bubble is durably blocked (Pebble's periodic tickers
		// keep it advancing, so the runtime itself never reports "all goroutines
		// blocked"). If a whole virtual hour passes and the threads still have
		// not finished, no timer and no goroutine could unblock them: a proved
		// deadlock, independent of wall-clock time. (A hang that involves a
		// goroutine waiting for a sync.Mutex freezes virtual time instead; that
		// case ends in the inconclusive wall-clock watchdog.)
		select {
		case <-done:
		case <-time.After(virtualDeadlock):
			abandoned = true
			path := dumpGoroutines(p.Mode, "DEADLOCK", "deadlock proved in the bubble")
			err := e.firstViol()
			if err == nil {
				err = fmt.Errorf("deadlock: every goroutine of the synctest bubble stayed durably blocked while %v of virtual time passed and the harness threads did not finish (goroutine stacks: %s)", virtualDeadlock, path)
			}
			// The bubble holds goroutines that can never finish: it cannot end
			// and further cases (shrinking) would run next to a wedged DB. Report
			// the verdict and stop the process.
			abortWithViolation(p, err)
		}
	} else {
		select {
		case <-done:
		case <-time.After(joinBudget):
			// Not a verdict: the case is abandoned (its goroutines and DB leak).
			abandoned = true
			if v := e.firstViol(); v != nil {
				return out, v
			}
			timeouts.Add(1)
			e.counters["inconclusive-timeout"]++
			out.Labels = append(out.Labels, "inconclusive-timeout")
			dumpGoroutines(p.Mode, "INCONCLUSIVE-TIMEOUT", "threads of a case did not finish within the wall-clock budget; case abandoned as inconclusive")
			return out, nil
		}
	}
	e.counters["ms-concurrent-phase"] += int((realNanos() - tRun) / 1e6)
	if v := e.firstViol(); v != nil {
		return out, v
	}

	// ---- sequential final phase
	fin := &thread{e: e, id: thFinal, name: "final"}
	var all []*readRec
	scanAll := func(d *pebble.DB, what string) (map[string]string, error) {
		m, cs, ce, err := fin.scanVia(d, nil, false, 0)
		if err != nil {
			return nil, fmt.Errorf("%s: %v", what, err)
		}
		for g := range p.Groups {
			if err := fin.record(what, g, groupVals(p.Groups[g], m), cs, ce, false); err != nil {
				return nil, err
			}
		}
		return m, nil
	}
	final, ferr := scanAll(db, "final scan after all threads were joined")
	if ferr != nil {
		return out, ferr
	}
	if ferr := fin.doRead(ReadP{Kind: "snapget", G: -1, Rev: true}, "final snapshot Gets"); ferr != nil {
		return out, ferr
	}
	for _, t := range e.threads {
		for k, tag := range t.fill {
			v, ok := final[k]
			if !ok || !strings.HasPrefix(v, tag+"|") {
				return out, fmt.Errorf("final state: filler key %q of %s should hold its last write %s, found present=%v %.20q", k, t.name, tag, ok, v)
			}
		}
		if t.priv != nil {
			if err := t.checkPriv("final state of " + t.name); err != nil {
				return out, err
			}
		}
	}
	e.ev.mu.Lock()
	bg := append([]string(nil), e.ev.bg...)
	e.ev.mu.Unlock()
	if len(bg) > 0 {
		return out, fmt.Errorf("background errors reported through the EventListener: %v", bg)
	}
	if p.Opt.DisableWAL {
		if err := db.Flush(); err != nil {
			return out, fmt.Errorf("final Flush: %v", err)
		}
	}
	metr := db.Metrics()
	e.db = nil
	if cerr := db.Close(); cerr != nil {
		return out, fmt.Errorf("Close: %v", cerr)
	}
	db2, oerr := pebble.Open("db", dbm.BuildOptions(p.Opt, e.fs, nil, e.lg))
	if oerr != nil {
		return out, fmt.Errorf("reopen: %v", oerr)
	}
	e.db = db2
	after, ferr := scanAll(db2, "scan after Close and reopen")
	if ferr != nil {
		return out, ferr
	}
	if err := sameState(final, after); err != nil {
		return out, fmt.Errorf("state after Close+Open differs from the state before Close: %v", err)
	}
	e.db = nil
	if cerr := db2.Close(); cerr != nil {
		return out, fmt.Errorf("Close after reopen: %v", cerr)
	}
	e.lg.mu.Lock()
	fatals := append([]string(nil), e.lg.fatals...)
	e.lg.mu.Unlock()
	if len(fatals) > 0 {
		return out, fmt.Errorf("Logger.Fatalf was called: %v", fatals)
	}

	// ---- post-hoc ordering oracles
	for _, t := range e.threads {
		all = append(all, t.reads...)
	}
	all = append(all, fin.reads...)
	if err := e.verify(all); err != nil {
		return out, err
	}
	e.classify(&out, all, metr)
	if e.manifest {
		// the excluded class occurred in this case: it was not fully checked
		out.Excluded = sigUnpublishedFlush
	}
	return out, nil
}

func sameState(a, b map[string]string) error {
	for k, v := range a {
		if w, ok := b[k]; !ok || w != v {
			return fmt.Errorf("key %q: before %.30q, after present=%v %.30q", k, v, ok, w)
		}
	}
	for k, w := range b {
		if _, ok := a[k]; !ok {
			return fmt.Errorf("key %q: absent before, after %.30q", k, w)
		}
	}
	return nil
}

// verify applies the ordering oracles to every observation.
func (e *engine) verify(reads []*readRec) error {
	byG := make([][]*writeRec, len(e.p.Groups))
	for g, m := range e.tags {
		for _, w := range m {
			byG[g] = append(byG[g], w)
		}
		sort.Slice(byG[g], func(i, j int) bool { return byG[g][i].tag < byG[g][j].tag })
	}
	// commit order respects real time
	for _, ws := range byG {
		for _, a := range ws {
			for _, b := range ws {
				if a != b && a.done && b.done && a.seq > 0 && b.seq > 0 && e.before(a.end, b.start) && a.seq >= b.seq {
					return fmt.Errorf("commit order: %s (%s) returned before %s (%s) was started, but got sequence number %d >= %d", a.tag, a.who, b.tag, b.who, a.seq, b.seq)
				}
			}
		}
	}
	// validAt: the write w can be the newest visible one for a view created in [cs, ce].
	validAt := func(w *writeRec, r *readRec) error {
		if !w.started {
			return fmt.Errorf("%s observes %s (%s) although that write was never started", r.desc, w.tag, w.who)
		}
		if e.before(r.ce, w.start) {
			return fmt.Errorf("visibility: %s observes %s (%s), which was started only after the view had been created", r.desc, w.tag, w.who)
		}
		if r.weak {
			return nil
		}
		for _, x := range byG[r.g] {
			if x.done && e.before(x.end, r.cs) && e.prec(w, x) {
				return fmt.Errorf("read-your-writes: %s was created after %s (%s, seq %d) had returned but observes the older %s (%s, seq %d): [%s]",
					r.desc, x.tag, x.who, x.seq, w.tag, w.who, w.seq, e.fmtRead(r))
			}
		}
		return nil
	}
	// tainted: the known finding sigUnpublishedFlush may explain an anomaly of
	// r: a write y to the group was possibly unpublished when r's view was
	// created, and a flush or compaction began after y was started and before
	// the view existed (it may have dropped versions r needs in favour of y's
	// not yet visible ones).
	tainted := func(r *readRec) bool {
		for _, y := range byG[r.g] {
			if y.tag == initTag || !y.started {
				continue
			}
			if y.done && e.before(y.end, r.cs) {
				continue
			}
			if e.before(r.ce, y.start) {
				continue
			}
			if r.ce.jobs > y.start.jobs {
				return true
			}
		}
		return false
	}
	perG := make([][]*readRec, len(e.p.Groups))
	for _, r := range reads {
		if e.exclude && tainted(r) {
			e.excluded++
			if r.anom != nil {
				e.manifest = true
			}
			continue
		}
		if r.anom != nil {
			return r.anom
		}
		if r.w != nil {
			if err := validAt(r.w, r); err != nil {
				return err
			}
			if !r.weak {
				perG[r.g] = append(perG[r.g], r)
			}
			continue
		}
		// a single absent key: some deleting write must be a valid explanation
		var last error
		ok := false
		for _, d := range byG[r.g] {
			if !d.setsAll() {
				if err := validAt(d, r); err == nil {
					ok = true
					break
				} else {
					last = err
				}
			}
		}
		if !ok {
			return fmt.Errorf("%s: key %q is absent but no deleting write can explain it (%v)", r.desc, e.p.Groups[r.g][r.single], last)
		}
	}
	// visibility only moves forward
	for _, rs := range perG {
		for _, r1 := range rs {
			for _, r2 := range rs {
				if r1 != r2 && e.before(r1.ce, r2.cs) && e.prec(r2.w, r1.w) {
					return fmt.Errorf("visibility went backwards: %s observed %s (%s, seq %d); %s, created afterwards, observes the older %s (%s, seq %d)",
						r1.desc, r1.w.tag, r1.w.who, r1.w.seq, r2.desc, r2.w.tag, r2.w.who, r2.w.seq)
				}
			}
		}
	}
	return nil
}

// classify measures what happened in the case (labels, non-triviality).
func (e *engine) classify(out *evid.Outcome, reads []*readRec, metr *pebble.Metrics) {
	p := e.p
	c := e.counters
	add := func(l string) { out.Labels = append(out.Labels, l) }
	add("mode=" + p.Mode)
	if p.Bubble {
		add("bubble")
	}
	add(fmt.Sprintf("procs=%d", p.Procs))
	add(fmt.Sprintf("yield=%d", p.YieldPct))
	add(fmt.Sprintf("memtable=%dK", p.Opt.MemTableSize>>10))
	if p.Ticks {
		add("ticks")
	} else {
		add("no-ticks")
	}
	if p.Opt.DisableWAL {
		add("nowal")
	}
	large, unknownSeq := 0, 0
	var ws []*writeRec
	for _, m := range e.tags {
		for _, w := range m {
			if !w.done || w.tag == initTag {
				continue
			}
			ws = append(ws, w)
			c["writes"]++
			if strings.HasPrefix(w.tag, "w") {
				c["fill="+w.fillClass]++
				if w.flushable {
					large++
					c["fill="+w.fillClass+"/flushable"]++
				}
				if w.seq == 0 {
					unknownSeq++
				}
			}
		}
	}
	c["large-batches"] += large
	c["flushes"] += int(e.ev.flushes.Load())
	c["compactions"] += int(e.ev.compactions.Load())
	c["write-stalls"] += int(e.ev.stalls.Load())
	c["flushable-ingests"] += int(e.ev.flushIngest.Load())
	c["tables-ingested"] += int(e.ev.ingested.Load())
	c["reads"] += len(reads)
	c["observations-excluded-known-finding"] += e.excluded
	if e.excluded > 0 {
		add("some-observations-excluded")
	}
	if large > 0 {
		add("large-batch")
	}
	if e.ev.flushes.Load() > 0 || metr.Flush.Count > 0 {
		add("memtable-rotated")
	}
	if e.ev.stalls.Load() > 0 {
		add("write-stall")
	}
	if e.ev.flushIngest.Load() > 0 {
		add("flushable-ingest")
	}
	// reads that overlapped commits to their group
	ovl := func(a0, a1, b0, b1 int64) bool { return a0 < b1 && b0 < a1 }
	overlap1, overlap2, overlapLarge, changed := false, false, false, 0
	seen := map[*writeRec]bool{}
	for _, r := range reads {
		if r.th == thFinal || r.weak {
			continue
		}
		if r.w != nil && r.w.tag != initTag && !seen[r.w] {
			seen[r.w] = true
			changed++
		}
		r0, r1 := e.measure(r.cs), e.measure(r.end)
		var in []*writeRec
		for _, w := range ws {
			if w.g == r.g && ovl(r0, r1+1, e.measure(w.start), e.measure(w.end)+1) {
				in = append(in, w)
				if w.flushable {
					overlapLarge = true
				}
			}
		}
		if len(in) > 0 {
			overlap1 = true
			c["reads-overlapping-a-commit"]++
		}
		for i := range in {
			for j := i + 1; j < len(in); j++ {
				if ovl(e.measure(in[i].start), e.measure(in[i].end)+1, e.measure(in[j].start), e.measure(in[j].end)+1) {
					overlap2 = true
				}
			}
		}
	}
	c["distinct-writes-observed"] += changed
	if overlap1 {
		add("reader-overlapped-commit")
	}
	if overlap2 {
		add("overlap>=2")
	}
	if overlapLarge {
		add("reader-overlapped-large-batch")
	}
	// roles that overlapped in time
	type evt struct {
		at   int64
		d    int
		role string
	}
	var evs []evt
	roleNs := map[string]int64{}
	for _, t := range e.threads {
		for _, s := range t.spans {
			evs = append(evs, evt{s.m0, +1, s.role}, evt{s.m1 + 1, -1, s.role})
			roleNs[s.role] += s.ns
		}
	}
	for r, ns := range roleNs {
		c["ms-in-"+r] += int(ns / 1e6)
	}
	sort.Slice(evs, func(i, j int) bool {
		if evs[i].at != evs[j].at {
			return evs[i].at < evs[j].at
		}
		return evs[i].d < evs[j].d
	})
	active := map[string]int{}
	maxRoles := 0
	rolesSeen := map[string]bool{}
	for _, ev := range evs {
		active[ev.role] += ev.d
		if active[ev.role] == 0 {
			delete(active, ev.role)
		}
		if len(active) > maxRoles {
			maxRoles = len(active)
		}
		if len(active) >= 3 {
			for r := range active {
				rolesSeen[r] = true
			}
		}
	}
	for r := range rolesSeen {
		add("overlapped-role=" + r)
	}
	add(fmt.Sprintf("max-overlapping-roles=%d", min(maxRoles, 6)))
	if p.Mode == "c06" {
		out.NonTrivial = overlap2 && large > 0
	} else {
		out.NonTrivial = maxRoles >= 3
	}
	sort.Strings(out.Labels)
}

// dumpGoroutines writes all goroutine stacks to a file under evidence/.logs
// (never to stdout: the driver treats stacks in the output as a crash).
func dumpGoroutines(mode, kind, why string) string {
	buf := make([]byte, 8<<20)
	n := runtime.Stack(buf, true)
	dir := filepath.Join(evid.GetEnv().Dir, "evidence", ".logs")
	os.MkdirAll(dir, 0o755)
	path := filepath.Join(dir, fmt.Sprintf("conc-%s-%s-%d.txt", mode, strings.ToLower(kind), os.Getpid()))
	os.WriteFile(path, append([]byte(why+"\n\n"), buf[:n]...), 0o644)
	fmt.Printf("%s (%s): %s; stacks in %s\n", kind, mode, why, path)
	return path
}

// abortWithViolation reports a violation in the runner's format (replay file,
// VIOLATION line) and ends the process with exit code 1. Only used when the
// process cannot go on (proved deadlock inside the bubble).
func abortWithViolation(p *Plan, err error) {
	env := evid.GetEnv()
	id := strings.ToUpper(p.Mode)
	path := env.Replay
	if path == "" {
		path = filepath.Join(env.Dir, "replays", id, fmt.Sprintf("fail-seed%d-shard%d.json", env.Seed, env.Shard))
		js, _ := json.Marshal(p)
		os.MkdirAll(filepath.Dir(path), 0o755)
		os.WriteFile(path, js, 0o644)
	}
	msg := strings.ReplaceAll(err.Error(), "\n", "\n    ")
	fmt.Printf("VIOLATION property=%s replay=%s\n  detail: %s\n", id, path, msg)
	os.Exit(1)
}

// sigUnpublishedFlush: candidate finding, see NOTES.md. A flush (or
// compaction) whose inputs hold entries of a batch that is sequenced but not
// yet published keeps, per key, only the newest version above the last
// snapshot; versions that are still the newest VISIBLE ones are dropped. Until
// the batch is published, readers see neither (keys vanish, a batch's
// DeleteRange is seen without its Sets, a committed batch is not read back).
const sigUnpublishedFlush = "flush-of-unpublished-batch-drops-visible-versions"

// sigEFOSWait: candidate finding, see NOTES.md. WaitForFileOnlySnapshot fails
// its own assertion (invariants and race builds) when called on an EFOS that
// was created while all queued memtables were newer than the EFOS.
const sigEFOSWait = "efos-wait-assertion-all-memtables-newer-than-efos"

// Exec is the executor of both checks. In replay mode the plan is run up to
// 50 times (schedules are sampled) or until it fails.
func Exec(p Plan) (evid.Outcome, error) {
	reps := max(1, p.Reps)
	if evid.GetEnv().Replay != "" {
		reps = max(50, p.Reps)
	}
	var out evid.Outcome
	var err error
	for i := 0; i < reps; i++ {
		out, err = runOnce(&p)
		if err != nil {
			break
		}
	}
	return out, err
}
