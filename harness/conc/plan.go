// Package conc holds the real-goroutine concurrency checks over a real
// pebble.DB: C06 (batch atomicity under concurrency, large batches included)
// and C42 (race-, deadlock- and panic-freedom of the concurrent use the API
// permits). One engine, one plan type, two test functions.
//
// A plan is pure data. Exec interprets it with real goroutines; the Go
// scheduler owns the interleaving, so a run samples one schedule. The plan
// carries a perturbation seed for the verifhook yield sites and a GOMAXPROCS
// value to widen what is sampled. No verdict depends on timing: every ordering
// the oracles use is either a commit sequence number reported by Pebble, the
// program order of one goroutine, or an order proved by a shared logical clock
// (an atomic counter ticked before a call starts and after it returned).
package conc

import (
	"bytes"
	"fmt"

	"github.com/cockroachdb/pebble"
	"github.com/cockroachdb/pebble/internal/arenaskl"
	"github.com/cockroachdb/pebble/verifharness/dbm"
	"github.com/cockroachdb/pebble/verifharness/evid"
	"pgregory.net/rapid"
)

// Plan is one concurrent workload.
type Plan struct {
	Mode string `json:"mode"` // "c06" | "c42"
	// Bubble: the case runs inside a testing/synctest bubble (C42 second phase).
	Bubble bool        `json:"bubble,omitempty"`
	Opt    dbm.OptPlan `json:"opt"`
	// Seed and YieldPct parameterize the verifhook perturbation: at a hook site
	// a goroutine calls runtime.Gosched with probability YieldPct/100 (a pure
	// function of seed, site, thread id and the thread's own site counter).
	Seed     uint64 `json:"seed"`
	YieldPct int    `json:"yield"`
	// Procs is the GOMAXPROCS value of the case (0: unchanged).
	Procs int `json:"procs,omitempty"`
	// Ticks enables the shared logical clock (cross-thread real-time order).
	// Without it only sequence numbers and per-thread program order are used,
	// and the harness adds no synchronization between its threads (so that it
	// cannot hide a data race from the race detector).
	Ticks bool `json:"ticks"`
	// Groups[g] are the keys of atomic group g (all start with the letter
	// 'b'+g; Groups[g][0] is the marker key that every write of the group sets).
	Groups  [][]string `json:"groups"`
	Writers [][]BatchP `json:"writers"`
	Readers [][]ReadP  `json:"readers"`
	Maint   [][]MaintP `json:"maint,omitempty"`
	// Reps: run the plan up to Reps times or until it fails (schedules are
	// sampled); only set on known-finding demonstrations.
	Reps int `json:"reps,omitempty"`
	// NoExclude: apply every check even if an active known finding covers it
	// (only set on the known-finding demonstration plan).
	NoExclude bool `json:"no_exclude,omitempty"`
}

// BatchP is one batch of a writer thread.
type BatchP struct {
	G int `json:"g"`
	// Kind: set (Set every key), del (Delete every key but the marker, Set the
	// marker), drset (DeleteRange over the group span, then Set every key),
	// drdel (DeleteRange over the group span, then Set the marker).
	Kind string `json:"k"`
	// Commit: commit (Batch.Commit), apply (DB.Apply), nsw (DB.ApplyNoSyncWait +
	// Batch.SyncWait).
	Commit  string `json:"c"`
	Sync    bool   `json:"sync,omitempty"`
	Indexed bool   `json:"ix,omitempty"`
	// Filler Sets to keys private to the writer: FillKeys keys whose values
	// total FillBytes of padding. FillClass names how the batch size relates
	// to the large-batch threshold (none below justbelow justabove x2 huge).
	FillKeys  int    `json:"fk,omitempty"`
	FillBytes int    `json:"fb,omitempty"`
	FillClass string `json:"fc,omitempty"`
	// ReadBack: the writer reads its group through a fresh iterator right
	// after the commit returned.
	ReadBack bool `json:"rb,omitempty"`
}

// ReadP is one read op.
type ReadP struct {
	// Kind: snapget snapiter iterscan iterseek efos ibatch get1.
	Kind string `json:"k"`
	// G is the group read; -1 reads every group through the same handle.
	G    int  `json:"g"`
	Rev  bool `json:"rev,omitempty"`
	Hold int  `json:"hold,omitempty"` // Gosched calls between creating the handle and reading
	Key  int  `json:"key,omitempty"`  // get1: index of the key in the group
	Wait bool `json:"wait,omitempty"` // efos: WaitForFileOnlySnapshot first
	Rep  int  `json:"rep,omitempty"`  // repeat the read this many times (reader churn)
}

// MaintP is one op of a maintenance thread.
type MaintP struct {
	// Kind: flush asyncflush compact ingest privset excise ingestexcise
	// checkpoint metrics ratchet.
	Kind string `json:"k"`
	G    int    `json:"g,omitempty"`
	// IKind (ingest): set | drdel.
	IKind string `json:"ik,omitempty"`
	Flag  bool   `json:"flag,omitempty"` // compact: parallelize; checkpoint: WithFlushedWAL
	N     int    `json:"n,omitempty"`    // ratchet target; privset/ingestexcise key count
	Span  int    `json:"span,omitempty"` // compact: 0 whole keyspace, 1 group span
}

// memTableEmptySize mirrors mem_table.go: the arena space an empty memtable
// uses. Only used to place batch sizes around the large-batch threshold.
var memTableEmptySize = func() int {
	var a, b, c arenaskl.Skiplist
	arena := arenaskl.NewArena(make([]byte, 16<<10))
	a.Reset(arena, bytes.Compare)
	b.Reset(arena, bytes.Compare)
	c.Reset(arena, bytes.Compare)
	return int(arena.Size())
}()

func largeThreshold(memTableSize int) int { return (memTableSize - memTableEmptySize) / 2 }

func entrySize(k, v int) int { return int(arenaskl.MaxNodeSize(uint32(k), uint32(v))) }

func groupLetter(g int) string { return string(rune('b' + g)) }

// groupSpan returns the key span that holds exactly the keys of group g.
func groupSpan(g int) (string, string) { return groupLetter(g), groupLetter(g + 1) }

func writerTag(i, j int) string { return fmt.Sprintf("w%d#%d", i, j) }
func ingestTag(m, n int) string { return fmt.Sprintf("i%d#%d", m, n) }
func fillerKey(i, n int) string { return "w" + string(rune('a'+i)) + string(rune('a'+n)) }
func privKey(m, n int) string   { return "y" + string(rune('a'+m)) + string(rune('a'+n)) }
func privSpan(m int) (string, string) {
	return "y" + string(rune('a'+m)), "y" + string(rune('a'+m+1))
}

const initTag = "init"

// groupPartSize is the memtable size of the group part of a batch.
func groupPartSize(keys []string, kind, tag string) int {
	n := 0
	lo, hi := "b", "c"
	switch kind {
	case "set":
		for _, k := range keys {
			n += entrySize(len(k), len(tag))
		}
	case "del":
		n += entrySize(len(keys[0]), len(tag))
		for _, k := range keys[1:] {
			n += entrySize(len(k), 0)
		}
	case "drset":
		n += entrySize(len(lo), len(hi))
		for _, k := range keys {
			n += entrySize(len(k), len(tag))
		}
	case "drdel":
		n += entrySize(len(lo), len(hi))
		n += entrySize(len(keys[0]), len(tag))
	}
	return n
}

func genGroups(t *rapid.T) [][]string {
	ng := rapid.IntRange(1, 3).Draw(t, "ngroups")
	type ps struct{ P, S int }
	var out [][]string
	for g := 0; g < ng; g++ {
		maxK := 12 / ng
		k := rapid.IntRange(2, maxK).Draw(t, fmt.Sprintf("g%d.k", g))
		cells := rapid.SliceOfNDistinct(rapid.Custom(func(t *rapid.T) ps {
			return ps{P: rapid.IntRange(0, 5).Draw(t, "p"), S: rapid.IntRange(0, 4).Draw(t, "s")}
		}), k, k, func(c ps) int { return c.P*10 + c.S }).Draw(t, fmt.Sprintf("g%d.cells", g))
		var keys []string
		for _, c := range cells {
			key := groupLetter(g) + string(rune('a'+c.P))
			if c.S > 0 {
				key += fmt.Sprintf("@%d", c.S)
			}
			keys = append(keys, key)
		}
		out = append(out, keys)
	}
	return out
}

var fillClasses = []string{"none", "none", "none", "none", "below", "justbelow", "justbelow", "justabove", "justabove", "x2", "x2", "huge"}

// fillClassesC42: every large batch forces a memtable rotation and a flush,
// which is slow under the race detector; C42 keeps them rarer.
var fillClassesC42 = []string{"none", "none", "none", "none", "none", "none", "none", "none", "below", "justbelow", "justabove", "x2", "huge"}

func genBatch(t *rapid.T, p *Plan, i, j int, label string, home int) BatchP {
	b := BatchP{G: home}
	if len(p.Groups) > 1 && rapid.IntRange(0, 3).Draw(t, label+".other") == 0 {
		b.G = rapid.IntRange(0, len(p.Groups)-1).Draw(t, label+".g")
	}
	b.Kind = rapid.SampledFrom([]string{"set", "set", "set", "del", "drset", "drdel"}).Draw(t, label+".kind")
	b.Commit = rapid.SampledFrom([]string{"commit", "commit", "apply", "nsw"}).Draw(t, label+".commit")
	b.Sync = rapid.IntRange(0, 3).Draw(t, label+".sync") == 0
	if p.Opt.DisableWAL {
		b.Sync = false
	}
	if b.Commit == "nsw" {
		if p.Opt.DisableWAL {
			b.Commit = "apply"
		} else {
			b.Sync = true // ApplyNoSyncWait requires Sync (db.go ApplyNoSyncWait doc)
		}
	}
	b.Indexed = rapid.IntRange(0, 5).Draw(t, label+".indexed") == 0
	b.ReadBack = rapid.IntRange(0, 3).Draw(t, label+".readback") == 0
	fc := fillClasses
	if p.Mode == "c42" {
		fc = fillClassesC42
	}
	b.FillClass = rapid.SampledFrom(fc).Draw(t, label+".fill")
	if b.FillClass != "none" {
		thr := largeThreshold(p.Opt.MemTableSize)
		gp := groupPartSize(p.Groups[b.G], b.Kind, writerTag(i, j))
		b.FillKeys = rapid.IntRange(1, 4).Draw(t, label+".fillkeys")
		tagLen := len(writerTag(i, j)) + 1
		fixed := gp + b.FillKeys*entrySize(3, tagLen)
		var target int
		switch b.FillClass {
		case "below":
			target = thr * rapid.IntRange(30, 80).Draw(t, label+".pct") / 100
		case "justbelow":
			target = thr - rapid.IntRange(1, 64).Draw(t, label+".delta")
		case "justabove":
			target = thr + rapid.IntRange(0, 64).Draw(t, label+".delta")
		case "x2":
			target = thr * rapid.IntRange(150, 250).Draw(t, label+".pct") / 100
		case "huge":
			target = p.Opt.MemTableSize * rapid.IntRange(100, 220).Draw(t, label+".pct") / 100
		}
		b.FillBytes = max(0, target-fixed)
	}
	return b
}

var readKindsC06 = []string{"snapget", "snapget", "snapiter", "iterscan", "iterscan", "iterseek", "efos", "ibatch", "get1"}
var readKindsC42 = []string{"snapget", "snapiter", "iterscan", "iterseek", "efos", "efos", "ibatch", "get1"}

func genRead(t *rapid.T, p *Plan, label string) ReadP {
	kinds := readKindsC06
	if p.Mode == "c42" {
		kinds = readKindsC42
	}
	r := ReadP{Kind: rapid.SampledFrom(kinds).Draw(t, label+".kind")}
	r.G = rapid.IntRange(0, len(p.Groups)-1).Draw(t, label+".g")
	if r.Kind != "get1" && rapid.IntRange(0, 3).Draw(t, label+".all") == 0 {
		r.G = -1
	}
	r.Rev = rapid.Bool().Draw(t, label+".rev")
	r.Hold = rapid.SampledFrom([]int{0, 0, 1, 3, 10}).Draw(t, label+".hold")
	if r.Kind != "efos" && rapid.IntRange(0, 7).Draw(t, label+".churn") == 0 {
		r.Rep = rapid.SampledFrom([]int{10, 50, 200}).Draw(t, label+".rep")
		r.Hold = 0
	}
	if r.Kind == "get1" {
		r.Key = rapid.IntRange(0, len(p.Groups[r.G])-1).Draw(t, label+".key")
	}
	if r.Kind == "efos" {
		r.Wait = rapid.IntRange(0, 3).Draw(t, label+".wait") == 0
		if p.Mode == "c42" && evid.FindingActive("C42", sigEFOSWait) {
			// known finding: the call panics in race/invariants builds (NOTES.md)
			r.Wait = false
		}
	}
	return r
}

var maintKindsC42 = []string{"flush", "asyncflush", "compact", "compact", "ingest", "ingest", "ingest", "privset", "excise", "ingestexcise",
	"checkpoint", "metrics", "metrics"}
var maintKindsC06 = []string{"flush", "asyncflush", "compact"}

func genMaint(t *rapid.T, p *Plan, m int, label string, fmv *int) MaintP {
	kinds := maintKindsC42
	if p.Mode == "c06" {
		kinds = maintKindsC06
	}
	o := MaintP{Kind: rapid.SampledFrom(kinds).Draw(t, label+".kind")}
	if p.Mode == "c42" && m == 0 && *fmv < int(pebble.FormatNewest) && rapid.IntRange(0, 3).Draw(t, label+".ratchet") == 0 {
		o.Kind = "ratchet"
		o.N = rapid.IntRange(*fmv+1, int(pebble.FormatNewest)).Draw(t, label+".fmv")
		*fmv = o.N
		return o
	}
	o.G = rapid.IntRange(0, len(p.Groups)-1).Draw(t, label+".g")
	switch o.Kind {
	case "compact":
		o.Flag = rapid.Bool().Draw(t, label+".par")
		o.Span = rapid.IntRange(0, 1).Draw(t, label+".span")
	case "ingest":
		o.IKind = rapid.SampledFrom([]string{"set", "set", "drdel"}).Draw(t, label+".ikind")
	case "privset", "ingestexcise":
		o.N = rapid.IntRange(1, 4).Draw(t, label+".n")
	case "checkpoint":
		o.Flag = rapid.Bool().Draw(t, label+".flushwal") && !p.Opt.DisableWAL
	}
	return o
}

// phaseBubble is set by TestC42 before its second (bubble) campaign.
var phaseBubble bool

func genPlan(t *rapid.T, mode string) Plan {
	p := Plan{Mode: mode, Bubble: mode == "c42" && phaseBubble}
	p.Opt = dbm.GenOptions(t, dbm.Profile{Opt: func(t *rapid.T, o *dbm.OptPlan) {
		o.MemTableSize = rapid.SampledFrom([]int{4 << 10, 8 << 10, 16 << 10, 64 << 10}).Draw(t, "memtable")
		if rapid.IntRange(0, 3).Draw(t, "newest") != 0 {
			o.FMV = int(pebble.FormatNewest)
		}
		o.CheckLevels = false
		o.FilesCheck = false
		// A checkpoint of a store with a separate WAL directory records that
		// directory in its OPTIONS file and cannot be opened on its own without
		// WALRecoveryDirs; checkpoints are opened here, so no separate WALDir.
		o.WALDir = false
		if mode == "c42" {
			// keep flushes and version edits cheap under the race detector
			o.MemTableSize = max(o.MemTableSize, 8<<10)
			o.TargetFileSize = max(o.TargetFileSize, 1<<10)
			o.MaxManifest = max(o.MaxManifest, 4096)
			o.BlockSize = max(o.BlockSize, 32)
			if o.Filter == 3 || o.Filter == 4 {
				// binary fuse filter construction allocates large buffers per table:
				// ~8x slower cases under the race detector
				o.Filter = 1
			}
		}
	}})
	p.Seed = rapid.Uint64().Draw(t, "seed")
	p.YieldPct = rapid.SampledFrom([]int{0, 5, 20, 20, 50}).Draw(t, "yield")
	p.Procs = rapid.SampledFrom([]int{0, 1, 2, 4, 8}).Draw(t, "procs")
	p.Ticks = mode == "c06" || p.Bubble || rapid.Bool().Draw(t, "ticks")
	p.Groups = genGroups(t)

	small := mode == "c42"
	nw := rapid.IntRange(2, ifz(small, 4, 6)).Draw(t, "writers")
	for i := 0; i < nw; i++ {
		home := rapid.IntRange(0, len(p.Groups)-1).Draw(t, fmt.Sprintf("w%d.home", i))
		var nb int
		if small {
			nb = rapid.IntRange(3, 8).Draw(t, fmt.Sprintf("w%d.nb", i))
		} else {
			nb = rapid.OneOf(rapid.IntRange(3, 8), rapid.IntRange(3, 30)).Draw(t, fmt.Sprintf("w%d.nb", i))
		}
		var bs []BatchP
		for j := 0; j < nb; j++ {
			bs = append(bs, genBatch(t, &p, i, j, fmt.Sprintf("w%d.b%d", i, j), home))
		}
		p.Writers = append(p.Writers, bs)
	}
	nr := rapid.IntRange(1, ifz(small, 3, 5)).Draw(t, "readers")
	for i := 0; i < nr; i++ {
		no := rapid.IntRange(3, ifz(small, 12, 30)).Draw(t, fmt.Sprintf("r%d.n", i))
		var ops []ReadP
		for j := 0; j < no; j++ {
			ops = append(ops, genRead(t, &p, fmt.Sprintf("r%d.o%d", i, j)))
		}
		p.Readers = append(p.Readers, ops)
	}
	nm := rapid.IntRange(0, 1).Draw(t, "maint")
	if mode == "c42" {
		nm = rapid.IntRange(1, 4).Draw(t, "maint42")
	}
	fmv := p.Opt.FMV
	for m := 0; m < nm; m++ {
		no := rapid.IntRange(2, 8).Draw(t, fmt.Sprintf("m%d.n", m))
		var ops []MaintP
		for j := 0; j < no; j++ {
			ops = append(ops, genMaint(t, &p, m, fmt.Sprintf("m%d.o%d", m, j), &fmv))
		}
		p.Maint = append(p.Maint, ops)
	}
	return p
}

func ifz(c bool, a, b int) int {
	if c {
		return a
	}
	return b
}

// Summary is the compact form of a plan used for evidence samples.
func (p Plan) Summary() any {
	nb, large := 0, 0
	for _, w := range p.Writers {
		for _, b := range w {
			nb++
			switch b.FillClass {
			case "justabove", "x2", "huge":
				large++
			}
		}
	}
	nr := 0
	for _, r := range p.Readers {
		nr += len(r)
	}
	var mk []string
	for _, m := range p.Maint {
		for _, o := range m {
			mk = append(mk, o.Kind)
		}
	}
	return map[string]any{"mode": p.Mode, "bubble": p.Bubble, "mem": p.Opt.MemTableSize, "fmv": p.Opt.FMV, "nowal": p.Opt.DisableWAL,
		"yield": p.YieldPct, "procs": p.Procs, "ticks": p.Ticks, "groups": p.Groups, "writers": len(p.Writers), "batches": nb,
		"planned_large": large, "readers": len(p.Readers), "read_ops": nr, "maint": mk}
}
