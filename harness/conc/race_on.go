//go:build race

package conc

// raceEnabled reports whether the binary was built with the race detector.
const raceEnabled = true
