package dbm

import (
	"fmt"
	"runtime"
	"strings"
	"sync"
	"sync/atomic"
	"testing/synctest"
	"time"

	"github.com/cockroachdb/pebble"
	"github.com/cockroachdb/pebble/internal/cache"
	"github.com/cockroachdb/pebble/internal/manual"
	"github.com/cockroachdb/pebble/vfs"
)

// countingFS counts open file handles.
type countingFS struct {
	vfs.FS
	open atomic.Int64
	mu   sync.Mutex
	who  map[*countingFile]string
}

type countingFile struct {
	vfs.File
	fs     *countingFS
	closed atomic.Bool
}

func (f *countingFile) Close() error {
	if f.closed.CompareAndSwap(false, true) {
		f.fs.open.Add(-1)
		f.fs.mu.Lock()
		delete(f.fs.who, f)
		f.fs.mu.Unlock()
	}
	return f.File.Close()
}

func (c *countingFS) wrap(f vfs.File, err error, name string) (vfs.File, error) {
	if err != nil {
		return f, err
	}
	cf := &countingFile{File: f, fs: c}
	c.open.Add(1)
	c.mu.Lock()
	if c.who == nil {
		c.who = map[*countingFile]string{}
	}
	c.who[cf] = name
	c.mu.Unlock()
	return cf, nil
}

func (c *countingFS) Create(name string, cat vfs.DiskWriteCategory) (vfs.File, error) {
	f, err := c.FS.Create(name, cat)
	return c.wrap(f, err, name)
}
func (c *countingFS) Open(name string, opts ...vfs.OpenOption) (vfs.File, error) {
	f, err := c.FS.Open(name, opts...)
	return c.wrap(f, err, name)
}
func (c *countingFS) OpenReadWrite(name string, cat vfs.DiskWriteCategory, opts ...vfs.OpenOption) (vfs.File, error) {
	f, err := c.FS.OpenReadWrite(name, cat, opts...)
	return c.wrap(f, err, name)
}
func (c *countingFS) OpenDir(name string) (vfs.File, error) {
	f, err := c.FS.OpenDir(name)
	return c.wrap(f, err, "dir:"+name)
}
func (c *countingFS) ReuseForWrite(oldname, newname string, cat vfs.DiskWriteCategory) (vfs.File, error) {
	f, err := c.FS.ReuseForWrite(oldname, newname, cat)
	return c.wrap(f, err, newname)
}

func (c *countingFS) openNames() []string {
	c.mu.Lock()
	defer c.mu.Unlock()
	var l []string
	for _, n := range c.who {
		l = append(l, n)
	}
	return l
}

// RunPlanClose executes a plan and then checks what Close leaves behind.
func RunPlanClose(p Plan) (res Result, err error) {
	cfs := &countingFS{FS: vfs.NewMem()}
	r := NewRunner(&p, cfs)
	r.Wait = synctest.Wait
	res = Result{C: r.C, L: r.L, Ev: r.Ev}
	synctest.Wait()
	base := manual.GetMetrics()
	g0 := runtime.NumGoroutine()
	c := cache.New(max(p.Opt.CacheSize, 64<<10))
	r.OptHook = func(o *pebble.Options) { o.Cache = c }
	if err = r.Open(); err != nil {
		c.Unref()
		return
	}
	fail := func(e error) (Result, error) {
		if r.DB != nil {
			r.closeHandles()
			r.DB.Close()
			r.DB = nil
		}
		c.Unref()
		return res, e
	}
	for i := range p.Steps {
		if err = r.Step(i); err != nil {
			return fail(err)
		}
	}
	if err = r.FinalCheck(); err != nil {
		return fail(err)
	}
	// close every handle, then the DB
	if err = r.closeHandles(); err != nil {
		return fail(err)
	}
	if p.Opt.DisableWAL {
		// without a WAL only flushed data survives Close (documented)
		if err = r.DB.Flush(); err != nil {
			return fail(fmt.Errorf("flush: %v", err))
		}
	}
	if err = r.DB.Close(); err != nil {
		r.DB = nil
		c.Unref()
		return res, fmt.Errorf("Close after all iterators, snapshots and batches were closed: %v", err)
	}
	r.DB = nil
	synctest.Wait()
	if n := cfs.open.Load(); n != 0 {
		c.Unref()
		return res, fmt.Errorf("%d file handles still open after Close: %v", n, cfs.openNames())
	}
	// A goroutine that is exiting is still counted for a moment: a leak is
	// reported only if the surplus persists and shows up in the stack dump.
	for try := 0; runtime.NumGoroutine() > g0 && try < 500; try++ {
		runtime.Gosched()
		time.Sleep(time.Millisecond) // virtual time inside the bubble
		synctest.Wait()
	}
	if g1 := runtime.NumGoroutine(); g1 > g0 {
		buf := make([]byte, 1<<18)
		buf = buf[:runtime.Stack(buf, true)]
		if n := strings.Count(string(buf), "\ngoroutine ") + 1; n > g0 {
			c.Unref()
			return res, fmt.Errorf("%d goroutines before Open, %d after Close (leak):\n%s", g0, g1, buf)
		}
	}
	// reopen: same state, then close again
	if err = r.Open(); err != nil {
		c.Unref()
		return res, fmt.Errorf("reopen after Close: %v", err)
	}
	if err = r.FinalCheck(); err != nil {
		return fail(fmt.Errorf("after reopen: %v", err))
	}
	if err = r.DB.Close(); err != nil {
		r.DB = nil
		c.Unref()
		return res, fmt.Errorf("second Close: %v", err)
	}
	r.DB = nil
	synctest.Wait()
	if n := cfs.open.Load(); n != 0 {
		c.Unref()
		return res, fmt.Errorf("%d file handles still open after the second Close: %v", n, cfs.openNames())
	}
	c.Unref()
	after := manual.GetMetrics()
	for _, pu := range []manual.Purpose{manual.BlockCacheData, manual.BlockCacheMap, manual.MemTable} {
		if after[pu].InUseBytes > base[pu].InUseBytes {
			return res, fmt.Errorf("manually managed memory (purpose %d) in use before Open: %d bytes, after Close and cache.Unref: %d bytes (leaked reference)", pu, base[pu].InUseBytes, after[pu].InUseBytes)
		}
	}
	r.C["close-checks"]++
	return res, nil
}

// leakedIteratorControl is the negative control: Close with an open iterator must return an error.
func leakedIteratorControl() error {
	fs := vfs.NewMem()
	db, err := pebble.Open("ctl", &pebble.Options{FS: fs, Logger: &recLogger{}})
	if err != nil {
		return err
	}
	if err := db.Set([]byte("a"), []byte("b"), pebble.NoSync); err != nil {
		return err
	}
	it, err := db.NewIter(nil)
	if err != nil {
		return err
	}
	cerr := db.Close()
	it.Close()
	if cerr == nil {
		return fmt.Errorf("negative control: Close with a leaked iterator returned nil")
	}
	return nil
}
