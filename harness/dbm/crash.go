package dbm

import (
	"fmt"
	"hash/fnv"
	"strings"
	"sync"
	"sync/atomic"

	"github.com/cockroachdb/pebble"
	"github.com/cockroachdb/pebble/vfs"
	"github.com/cockroachdb/pebble/vfs/errorfs"
)

// CrashPlan selects crash points (file-system mutation indices) and survival
// subsets of the not-yet-synced data.
type CrashPlan struct {
	// Stride/Offset: an image is taken before every mutating FS operation whose
	// index i satisfies i % Stride == Offset (Stride 1 = every operation).
	Stride int `json:"stride"`
	Offset int `json:"offset"`
	// Hot additionally selects every operation on a WAL, MANIFEST, marker or
	// OPTIONS file, every directory sync, rename, remove and link, with its own stride.
	Hot int `json:"hot,omitempty"`
	// Surv lists survival modes per crash point: 0 = only synced data survives,
	// 1 = everything written survives, n>=2 = a pseudo-random subset of the
	// unsynced 4KiB blocks and directory entries determined by n.
	Surv []int `json:"surv"`
	// From: only operations issued at or after this plan step are crash points.
	From int `json:"from,omitempty"`
	// MaxImages bounds the images per case.
	MaxImages int `json:"max,omitempty"`
}

type crashImage struct {
	fs     *vfs.MemFS
	idx    int64
	op     string
	surv   int
	step   int
	lo     int
	cands  []*State
	nKept  int
	nAsked int
	fmvLo  int
	fmvHi  int
	wal    walCfg
}

type crasher struct {
	r      *Runner
	cp     *CrashPlan
	mem    *vfs.MemFS
	n      atomic.Int64
	hot    atomic.Int64
	mu     sync.Mutex
	images []*crashImage
	// asynchronous checking (see kick)
	checking bool
	stop     bool
	idle     chan struct{}
	checkErr error
	stats    map[string]int
	taken    int
	off      atomic.Bool
	// stats
	classes map[string]int
	// one-shot injected fault (see armFault)
	faultClass     atomic.Value
	faultCountdown atomic.Int64
	faultFired     atomic.Bool
}

func fileClass(path string) string {
	base := path
	if i := strings.LastIndexByte(path, '/'); i >= 0 {
		base = path[i+1:]
	}
	switch {
	case strings.HasSuffix(base, ".log"):
		return "wal"
	case strings.HasPrefix(base, "MANIFEST"):
		return "manifest"
	case strings.HasPrefix(base, "marker."):
		return "marker"
	case strings.HasPrefix(base, "OPTIONS"):
		return "options"
	case strings.HasSuffix(base, ".sst"):
		return "sst"
	case strings.HasSuffix(base, ".blob"):
		return "blob"
	case strings.HasPrefix(base, "temporary."):
		return "temp"
	}
	return "dir-or-other"
}

func pathBase(path string) string {
	if i := strings.LastIndexByte(path, '/'); i >= 0 {
		return path[i+1:]
	}
	return path
}

func isMutation(k errorfs.OpKind) bool {
	switch k {
	case errorfs.OpCreate, errorfs.OpLink, errorfs.OpRemove, errorfs.OpRemoveAll, errorfs.OpRename, errorfs.OpReuseForWrite,
		errorfs.OpMkdirAll, errorfs.OpFileWrite, errorfs.OpFileWriteAt, errorfs.OpFileSync, errorfs.OpFileSyncData,
		errorfs.OpFileSyncTo, errorfs.OpFileFlush:
		return true
	}
	return false
}

// armFault makes the k-th following creation of a file of the given class fail
// once with errorfs.ErrInjected (k >= 1).
func (c *crasher) armFault(class string, k int) {
	c.faultClass.Store(class)
	c.faultFired.Store(false)
	c.faultCountdown.Store(int64(k))
}

func (c *crasher) disarmFault() bool {
	c.faultCountdown.Store(0)
	return c.faultFired.Load()
}

func (c *crasher) inject(op errorfs.Op) error {
	if c.off.Load() || !isMutation(op.Kind) {
		return nil
	}
	if op.Kind == errorfs.OpCreate && c.faultCountdown.Load() > 0 {
		// the class may be narrowed to a file-name prefix ("marker.format-version"):
		// a background MANIFEST rotation creates a marker file too, and failing
		// that one is a fatal error by design, not the fault that was asked for
		if cls, _ := c.faultClass.Load().(string); cls == fileClass(op.Path) || (strings.Contains(cls, ".") && strings.HasPrefix(pathBase(op.Path), cls)) {
			if c.faultCountdown.Add(-1) == 0 {
				c.faultFired.Store(true)
				return errorfs.ErrInjected
			}
		}
	}
	// images of operations under ext/ (tables being prepared for ingestion) are
	// crash points too: the DB state does not depend on them.
	i := c.n.Add(1) - 1
	cls := fileClass(op.Path)
	c.r.Ev.trace("fs#%d step=%d %v %s", i, c.r.stepA.Load(), op.Kind, op.Path)
	take := false
	if c.cp.Stride > 0 && int(i)%c.cp.Stride == c.cp.Offset%c.cp.Stride {
		take = true
	}
	if c.cp.Hot > 0 {
		hot := cls == "wal" && op.Kind != errorfs.OpFileWrite || cls == "manifest" || cls == "marker" || cls == "options" ||
			op.Kind == errorfs.OpRename || op.Kind == errorfs.OpRemove || op.Kind == errorfs.OpLink || (cls == "dir-or-other" && op.Kind == errorfs.OpFileSync)
		if hot {
			h := c.hot.Add(1) - 1
			if int(h)%c.cp.Hot == 0 {
				take = true
			}
		}
	}
	if !take || c.r.stepIdx < c.cp.From {
		return nil
	}
	c.snap(i, fmt.Sprintf("%v %s", op.Kind, op.Path), cls)
	return nil
}

func keepFn(surv int, idx int64) (func(string, int) bool, *[2]int) {
	cnt := &[2]int{}
	return func(path string, block int) bool {
		cnt[0]++
		k := false
		switch surv {
		case 0:
		case 1:
			k = true
		default:
			h := fnv.New64a()
			fmt.Fprintf(h, "%s|%d|%d|%d", path, block, surv, idx)
			k = h.Sum64()&(1<<17) != 0
		}
		if k {
			cnt[1]++
		}
		return k
	}, cnt
}

func (c *crasher) snap(i int64, opdesc, cls string) {
	max := c.cp.MaxImages
	if max <= 0 {
		max = 300
	}
	// The image is taken on whatever goroutine performs the FS operation while
	// the foreground keeps running: the permitted states are captured before
	// AND after cloning and merged (the durable lower bound and format version
	// lower bound from before; every version committed or pending up to the
	// second capture), so that they cover whatever the clone can contain.
	lo, before := c.r.Candidates()
	fmvLo, fmvHi0 := c.r.fmvBounds()
	c.mu.Lock()
	defer c.mu.Unlock()
	if c.classes == nil {
		c.classes = map[string]int{}
	}
	var imgs []*crashImage
	for _, sv := range c.cp.Surv {
		if c.taken >= max {
			break
		}
		keep, cnt := keepFn(sv, i)
		img := &crashImage{fs: c.mem.VerifCrashClone(keep), idx: i, op: opdesc, surv: sv, step: c.r.stepIdx, lo: lo, wal: c.r.walConfig()}
		img.nAsked, img.nKept = cnt[0], cnt[1]
		imgs = append(imgs, img)
		c.taken++
		c.classes[cls]++
	}
	if len(imgs) == 0 {
		return
	}
	cands := c.r.candidatesFrom(lo)
	for _, b := range before {
		found := false
		for _, x := range cands {
			if x == b {
				found = true
				break
			}
		}
		if !found {
			cands = append(cands, b)
		}
	}
	_, fmvHi1 := c.r.fmvBounds()
	for _, img := range imgs {
		img.cands = cands
		img.fmvLo, img.fmvHi = fmvLo, fmvHi0
		if fmvHi1 > img.fmvHi {
			img.fmvHi = fmvHi1
		}
		c.images = append(c.images, img)
	}
}

// DumpState reads the complete visible state of db.
func DumpState(db *pebble.DB) (*State, error) {
	it, err := db.NewIter(&pebble.IterOptions{KeyTypes: pebble.IterKeyTypePointsAndRanges})
	if err != nil {
		return nil, err
	}
	return DumpIter(it)
}

// DumpIter reads everything a points-and-ranges iterator shows and closes it.
func DumpIter(it *pebble.Iterator) (*State, error) {
	st := NewState()
	for ok := it.First(); ok; ok = it.Next() {
		hp, hr := it.HasPointAndRange()
		if hp {
			v, err := it.ValueAndErr()
			if err != nil {
				it.Close()
				return nil, fmt.Errorf("value of %q: %v", it.Key(), err)
			}
			st.Points[string(it.Key())] = string(v)
		}
		if hr && it.RangeKeyChanged() {
			s, e := it.RangeBounds()
			ia, ib := prefixIndex(string(s)), prefixIndex(string(e))
			if ia < 0 || ib < 0 || ia >= ib {
				it.Close()
				return nil, fmt.Errorf("range key bounds [%q,%q) are not universe prefixes", s, e)
			}
			for _, k := range it.RangeKeys() {
				n := 0
				fmt.Sscanf(string(k.Suffix), "@%d", &n)
				for a := ia; a < ib; a++ {
					if st.RK[a] == nil {
						st.RK[a] = map[int]string{}
					}
					st.RK[a][n] = string(k.Value)
				}
			}
		}
	}
	if err := it.Error(); err != nil {
		it.Close()
		return nil, err
	}
	return st, it.Close()
}

func describeDiff(got *State, cands []*State) string {
	// describe against the newest candidate
	want := cands[len(cands)-1]
	var b strings.Builder
	n := 0
	for k, v := range want.Points {
		if gv, ok := got.Points[k]; !ok {
			fmt.Fprintf(&b, " missing %s=%s;", k, fmtVal([]byte(v)))
			n++
		} else if gv != v {
			fmt.Fprintf(&b, " %s=%s want %s;", k, fmtVal([]byte(gv)), fmtVal([]byte(v)))
			n++
		}
		if n > 6 {
			break
		}
	}
	for k, v := range got.Points {
		if _, ok := want.Points[k]; !ok {
			fmt.Fprintf(&b, " extra %s=%s;", k, fmtVal([]byte(v)))
			n++
		}
		if n > 10 {
			break
		}
	}
	for i := range want.RK {
		if !rkEqual(want.RK[i], got.RK[i]) {
			fmt.Fprintf(&b, " rangekeys[%s,%s) got %v want %v;", Prefixes[i], Prefixes[i+1], rkList(got.RK[i]), rkList(want.RK[i]))
			n++
			if n > 12 {
				break
			}
		}
	}
	return b.String()
}

// Queued crash images are checked by a worker goroutine while the foreground
// goes on with the plan: checking them on the foreground would keep it away
// from the DB for milliseconds at a time, during which background work (and
// anything the schedule perturbation holds back) runs to completion
// unobserved. kick starts the worker if needed; failed returns the first
// verdict; finishChecks waits for the queue to drain and merges the counters.
func (c *crasher) kick() {
	c.mu.Lock()
	defer c.mu.Unlock()
	if c.checking || len(c.images) == 0 || c.checkErr != nil {
		return
	}
	c.checking = true
	c.idle = make(chan struct{})
	go c.worker(c.idle)
}

func (c *crasher) worker(done chan struct{}) {
	defer close(done)
	for {
		c.mu.Lock()
		imgs := c.images
		c.images = nil
		if len(imgs) == 0 || c.checkErr != nil {
			c.checking = false
			c.mu.Unlock()
			return
		}
		c.mu.Unlock()
		for _, img := range imgs {
			c.mu.Lock()
			stop := c.stop
			c.mu.Unlock()
			if stop {
				break
			}
			k, err := c.r.checkImage(img)
			c.mu.Lock()
			if err != nil {
				if c.checkErr == nil {
					c.checkErr = err
				}
				c.checking = false
				c.mu.Unlock()
				return
			}
			if c.stats == nil {
				c.stats = map[string]int{}
			}
			c.stats["crash-images"]++
			if len(img.cands) > 1 {
				c.stats["crash-images-ambiguous"]++
				if k > 0 && k < len(img.cands)-1 {
					c.stats["crash-recovered-strictly-inside"]++
				}
			}
			if img.nAsked > 0 {
				c.stats["crash-images-with-unsynced-data"]++
			}
			if img.lo > 0 {
				c.stats["crash-images-after-durable-ack"]++
			}
			c.mu.Unlock()
		}
	}
}

// abandon drops whatever is queued and waits for the worker to stop (the case
// ends early: nothing may outlive it).
func (c *crasher) abandon() {
	c.mu.Lock()
	c.stop = true
	c.images = nil
	ch, running := c.idle, c.checking
	c.mu.Unlock()
	if running {
		<-ch
	}
}

func (c *crasher) failed() error {
	c.mu.Lock()
	defer c.mu.Unlock()
	return c.checkErr
}

// waitIdle waits for the worker to drain the queue (no-op when none runs).
func (c *crasher) waitIdle() {
	for {
		c.mu.Lock()
		ch, running, pending := c.idle, c.checking, len(c.images)
		c.mu.Unlock()
		if running {
			<-ch
			continue
		}
		if pending == 0 || c.failed() != nil {
			return
		}
		c.kick()
	}
}

// checkImages checks everything queued so far and merges the counters into the
// runner's (foreground only).
func (c *crasher) checkImages() error {
	c.kick()
	c.waitIdle()
	c.mu.Lock()
	defer c.mu.Unlock()
	for k, v := range c.stats {
		c.r.C[k] += v
	}
	c.stats = nil
	return c.checkErr
}

func (c *crasher) queued() int {
	c.mu.Lock()
	defer c.mu.Unlock()
	return len(c.images)
}

// checkImage reopens one crash image; returns the index of the matching candidate.
func (r *Runner) checkImage(img *crashImage) (int, error) {
	where := fmt.Sprintf("crash image before FS op #%d (%s) during step %d, survival mode %d (%d of %d unsynced items kept)",
		img.idx, img.op, img.step, img.surv, img.nKept, img.nAsked)
	lg := &recLogger{}
	opts := BuildOptions(r.Plan.Opt, img.fs, nil, lg)
	img.wal.apply(opts, r.Dir, img.fs)
	db, err := pebble.Open(r.Dir, opts)
	if err != nil {
		return 0, fmt.Errorf("%s: reopening fails: %v", where, err)
	}
	if fm := int(db.FormatMajorVersion()); fm < img.fmvLo || (img.fmvHi > 0 && fm > img.fmvHi) {
		db.Close()
		return 0, fmt.Errorf("%s: recovered format major version %d, permitted [%d,%d]", where, fm, img.fmvLo, img.fmvHi)
	}
	got, err := DumpState(db)
	if err != nil {
		db.Close()
		return 0, fmt.Errorf("%s: reading the recovered DB fails: %v", where, err)
	}
	if err := db.Close(); err != nil {
		return 0, fmt.Errorf("%s: closing the recovered DB fails: %v", where, err)
	}
	for i := len(img.cands) - 1; i >= 0; i-- {
		if got.Equal(img.cands[i]) {
			return i, nil
		}
	}
	return 0, fmt.Errorf("%s: recovered state is none of the %d permitted states (durable version %d .. newest):%s",
		where, len(img.cands), img.lo, describeDiff(got, img.cands))
}

// fmvBounds returns the format major versions a crash image may recover.
func (r *Runner) fmvBounds() (lo, hi int) {
	r.vmu.Lock()
	defer r.vmu.Unlock()
	lo = r.FMVDurable
	hi = lo
	if r.FMVPending > hi {
		hi = r.FMVPending
	}
	return lo, hi
}
