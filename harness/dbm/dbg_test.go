package dbm

import (
	"encoding/json"
	"fmt"
	"os"
	"testing"
	"testing/synctest"
)

func TestDebugReplay(t *testing.T) {
	path := os.Getenv("DBG_PLAN")
	if path == "" {
		t.Skip()
	}
	b, _ := os.ReadFile(path)
	var p Plan
	if err := json.Unmarshal(b, &p); err != nil {
		t.Fatal(err)
	}
	DebugORGD = true
	DebugLinger = os.Getenv("DBG_LINGER") != ""
	DebugHoldStacks = os.Getenv("DBG_HOLD") != ""
	reps := 1
	fmt.Sscanf(os.Getenv("DBG_REPEAT"), "%d", &reps)
	run := func() {
		for i := 0; i < reps; i++ {
			var tr []string
			DebugTrace = &tr
			_, err := RunPlan(p, nil)
			if err != nil || i == reps-1 {
				for _, l := range tr {
					fmt.Println("  ", l)
				}
				fmt.Println("attempt", i, "ERR:", err)
				return
			}
		}
	}
	if os.Getenv("DBG_BUBBLE") != "" {
		InBubble = true
		synctest.Test(t, func(t *testing.T) { run() })
	} else {
		run()
	}
}
