package dbm

import (
	"encoding/json"
	"fmt"
	"os"
	"testing"
)

func TestDebugReplay(t *testing.T) {
	path := os.Getenv("DBG_PLAN")
	if path == "" {
		t.Skip()
	}
	b, _ := os.ReadFile(path)
	var p Plan
	if err := json.Unmarshal(b, &p); err != nil {
		t.Fatal(err)
	}
	DebugORGD = true
	_, err := RunPlan(p, nil)
	fmt.Println("ERR:", err)
}
