package dbm

import (
	"strings"
	"testing"

	"github.com/cockroachdb/pebble/verifharness/evid"
	"pgregory.net/rapid"
)

var opWDefault = map[string]int{"set": 30, "del": 8, "merge": 8, "delrange": 6, "sdel": 5, "delsized": 4, "rkset": 6, "rkunset": 3, "rkdel": 2, "logdata": 1}

var profLatest = Profile{
	Name: "latest", MinSteps: 15, MaxSteps: 70, IterOpsMax: 6,
	W: map[string]int{"write": 30, "batch": 10, "bigbatch": 2, "get": 12, "scan": 8, "flush": 6, "compact": 4, "wait": 4,
		"restart": 2, "ingest": 5, "ingestexcise": 2, "excise": 2},
	OpW: opWDefault, MaxSnaps: 0, MaxIters: 0,
}

func anyLabel(ls []string, pfx string) bool {
	for _, l := range ls {
		if strings.HasPrefix(l, pfx) {
			return true
		}
	}
	return false
}

func hasLabel(ls []string, x string) bool {
	for _, l := range ls {
		if l == x {
			return true
		}
	}
	return false
}

var commonAssumptions = []string{"vfs.MemFS is a correct file system", "testkeys comparer; keyspace of 11 prefixes x 7 suffixes, range-key/range-deletion bounds are bare prefixes",
	"background work is quiesced only at 'wait' steps (testing/synctest); between them flushes/compactions race with the foreground as scheduled by the Go runtime",
	"the reference model (harness/dbm/model.go) is written from the documented semantics, not from the implementation"}

// dbCheck registers one DB-level model-based check.
func dbCheck(t *testing.T, id string, prof Profile, rule string, quick, thorough int, nt func(res Result, labels []string) bool, finish func(r *Runner) error) {
	InBubble = true
	evid.Run(t, evid.Spec[Plan]{
		ID: id, Level: "exploration", Bubble: true, Rule: rule, Assumptions: commonAssumptions,
		Gen: func(t *rapid.T) Plan { return Generate(t, prof) },
		Exec: func(p Plan) (evid.Outcome, error) {
			res, err := RunPlan(p, finish)
			out := res.Outcome()
			out.NonTrivial = nt(res, out.Labels)
			return out, err
		},
		Quick: quick, Thorough: thorough,
		Sample: func(p Plan) any { return p.Summary() },
	})
}

func TestC01(t *testing.T) {
	InBubble = true
	evid.Run(t, evid.Spec[Plan]{
		ID: "C01", Level: "exploration", Bubble: true,
		Rule: "rapid draws DB options and a single-threaded history (writes, batches incl. large batches, ingests, excises, flush, compact, restart, waits) with Get and full scans interleaved; every read is compared with the sequential reference model. " +
			"non-trivial = the history contains a delete-class op AND at least one flush and one compaction (or a large batch / flushable ingest) happened before the final full comparison; distinct = hash of the plan JSON",
		Assumptions: []string{"vfs.MemFS is a correct file system", "testkeys comparer; keyspace of 11 prefixes x 7 suffixes", "background work is quiesced only at 'wait' steps (testing/synctest)"},
		Gen:         func(t *rapid.T) Plan { return Generate(t, profLatest) },
		Exec: func(p Plan) (evid.Outcome, error) {
			res, err := RunPlan(p, nil)
			out := res.Outcome()
			del := hasLabel(out.Labels, "op=del") || hasLabel(out.Labels, "op=delrange") || hasLabel(out.Labels, "op=sdel") || hasLabel(out.Labels, "op=delsized") || hasLabel(out.Labels, "excise")
			out.NonTrivial = del && ((hasLabel(out.Labels, "flushed") && anyLabel(out.Labels, "compaction=")) || hasLabel(out.Labels, "large-batch") || hasLabel(out.Labels, "flushable-ingest"))
			return out, err
		},
		Quick: 250, Thorough: 1500,
		Sample: func(p Plan) any { return p.Summary() },
	})
}

var profIterOps = Profile{
	Name: "iterops", MinSteps: 10, MaxSteps: 45, IterOpsMax: 14, MaxIters: 3,
	W: map[string]int{"write": 26, "batch": 8, "flush": 6, "compact": 3, "wait": 3, "ingest": 4, "iternew": 12, "iterop": 30, "iterclose": 4, "iterclone": 2, "restart": 1},
	OpW: opWDefault,
}

func TestC02(t *testing.T) {
	dbCheck(t, "C02", profIterOps,
		"rapid draws DB options, a write history that builds an LSM (memtable, L0 sublevels, lower levels via flush/compact/ingest) and up to 3 concurrent-lifetime iterators with drawn bounds/key types receiving SeekGE/SeekLT/SeekPrefixGE/First/Last/Next/Prev/NextPrefix/*WithLimit/SetBounds/SetOptions sequences; every result (validity state, key, value, HasPointAndRange, RangeBounds, RangeKeys, RangeKeyChanged) is compared with the iterator model at the iterator's version (limits as validity predicates). "+
			"non-trivial = >=20 iterator ops executed incl. a limit pause or a bounds change, with data in sstables (a flush happened); distinct = hash of plan JSON",
		300, 2000,
		func(res Result, ls []string) bool {
			return res.C["iterops"] >= 20 && hasLabel(ls, "flushed") && (res.C["iter-at-limit"] > 0 || res.C["iter-setbounds"] > 0)
		}, nil)
}

var profSnapshots = Profile{
	Name: "snapshots", MinSteps: 15, MaxSteps: 70, IterOpsMax: 6, MaxSnaps: 4, MaxIters: 2,
	W: map[string]int{"write": 30, "batch": 8, "flush": 7, "compact": 6, "wait": 4, "ingest": 4, "snap": 8, "snapread": 22, "snapclose": 4,
		"iternew": 3, "iterop": 5, "iterclose": 2, "restart": 0, "excise": 1, "ingestexcise": 1, "get": 3},
	OpW: opWDefault,
}

func TestC03(t *testing.T) {
	dbCheck(t, "C03", profSnapshots,
		"histories as C01 with up to 4 live snapshots opened at drawn points and read (Get, scans in both directions, iterator op sequences) arbitrarily later, closed in drawn order; each read is compared with the model version current at snapshot creation (after an excise only outside the excised span: documented exception). "+
			"non-trivial = a snapshot was read after at least one compaction and one flush happened in the case and writes followed the snapshot; distinct = hash of plan JSON",
		250, 1500,
		func(res Result, ls []string) bool {
			return res.C["snap-reads-after-write"] > 0 && hasLabel(ls, "flushed") && anyLabel(ls, "compaction=")
		}, nil)
}

var profPinned = Profile{
	Name: "pinned", MinSteps: 15, MaxSteps: 60, IterOpsMax: 5, MaxSnaps: 2, MaxIters: 4, MaxBatches: 2,
	W: map[string]int{"write": 26, "batch": 8, "flush": 8, "compact": 7, "wait": 6, "ingest": 4, "excise": 2, "ingestexcise": 2, "snap": 3, "snapclose": 1,
		"iternew": 10, "iterop": 26, "iterclone": 6, "iterclose": 3, "ibnew": 3, "ibop": 8, "ibcommit": 1, "ibclose": 1},
	OpW: opWDefault,
}

func TestC04(t *testing.T) {
	dbCheck(t, "C04", profPinned,
		"iterators on the DB, on snapshots and on indexed batches are opened, partially advanced and then held across writes, flushes, compactions (with obsolete-file deletion), ingests and excises; later ops, Clones (with/without RefreshBatchView and new options) and SetOptions are compared with the model at the iterator's creation version / batch view. "+
			"non-trivial = an iterator created in an earlier step was operated on after tables were deleted or a compaction ran in between (held-iter-ops>0 and tables-deleted or compaction labels); distinct = hash of plan JSON",
		250, 1500,
		func(res Result, ls []string) bool {
			return res.C["held-iter-ops"] > 0 && (hasLabel(ls, "tables-deleted") || anyLabel(ls, "compaction="))
		}, nil)
}

var profIBatch = Profile{
	Name: "ibatch", MinSteps: 12, MaxSteps: 55, IterOpsMax: 6, MaxIters: 2, MaxBatches: 2,
	W: map[string]int{"write": 20, "batch": 5, "flush": 5, "compact": 2, "wait": 2, "get": 6, "scan": 4,
		"ibnew": 8, "ibop": 26, "ibread": 24, "ibcommit": 4, "ibclose": 3, "iternew": 4, "iterop": 8, "iterclose": 2},
	OpW: map[string]int{"set": 24, "del": 8, "merge": 10, "delrange": 10, "sdel": 2, "delsized": 3, "rkset": 10, "rkunset": 5, "rkdel": 4, "logdata": 1},
}

func TestC05(t *testing.T) {
	dbCheck(t, "C05", profIBatch,
		"long-lived indexed batches receive all op kinds (incl. DeleteRange, Merge, range keys) while the DB below changes; Batch.Get and batch iterators/scans are compared with apply(batch ops, model[latest]); DB reads in between never show uncommitted ops; Commit appends the ops to the model, Close without commit has no effect. "+
			"non-trivial = a batch holding a DeleteRange, Merge or range-key op was read over a non-empty DB; distinct = hash of plan JSON",
		250, 1500,
		func(res Result, ls []string) bool {
			return res.C["batch-reads"] > 0 && (hasLabel(ls, "ibop=delrange") || hasLabel(ls, "ibop=merge") || hasLabel(ls, "ibop=rkset") || hasLabel(ls, "ibop=rkdel"))
		}, nil)
}

var profRangeKeys = Profile{
	Name: "rangekeys", MinSteps: 12, MaxSteps: 55, IterOpsMax: 10, MaxIters: 2, MaxSnaps: 1,
	W: map[string]int{"write": 30, "batch": 10, "flush": 8, "compact": 5, "wait": 3, "ingest": 6, "scan": 14, "iternew": 8, "iterop": 16, "iterclose": 3, "restart": 1, "snap": 1, "snapread": 2, "snapclose": 1},
	OpW: map[string]int{"set": 12, "del": 3, "merge": 2, "delrange": 8, "rkset": 30, "rkunset": 14, "rkdel": 10},
}

func TestC08(t *testing.T) {
	dbCheck(t, "C08", profRangeKeys,
		"histories dominated by RangeKeySet/Unset/Delete with 4 suffixes and overlapping spans (direct writes, batches, ingested tables) mixed with points and DeleteRange, flushed/compacted into several levels; scans and iterator op sequences with IterKeyTypeRangesOnly / PointsAndRanges, drawn bounds and prefix seeks are compared with the atom model: RangeKeys() = model set, RangeBounds() = maximal constant run clipped to bounds/prefix, positions = points U clipped span starts. "+
			"non-trivial = >=2 range-key writes with different suffixes, data flushed, and a bounded iterator/scan was compared; distinct = hash of plan JSON",
		250, 1500,
		func(res Result, ls []string) bool {
			return hasLabel(ls, "op=rkset") && hasLabel(ls, "flushed") && res.C["iterops"] >= 10
		}, nil)
}

var profMasking = Profile{
	Name: "masking", MinSteps: 12, MaxSteps: 50, IterOpsMax: 10, MaxIters: 2, Masking: true,
	W: map[string]int{"write": 30, "batch": 10, "flush": 9, "compact": 5, "wait": 3, "ingest": 4, "scan": 16, "iternew": 8, "iterop": 16, "iterclose": 3},
	OpW: map[string]int{"set": 30, "del": 3, "merge": 2, "delrange": 2, "rkset": 20, "rkunset": 5, "rkdel": 3},
	Opt: func(t *rapid.T, o *OptPlan) {
		o.BlockSize = rapid.SampledFrom([]int{1, 16, 64}).Draw(t, "maskbs")
	},
}

func TestC09(t *testing.T) {
	dbCheck(t, "C09", profMasking,
		"points with suffixes @1..@6 and unsuffixed, range keys at 4 suffixes, iterators in PointsAndRanges mode with RangeKeyMasking{Suffix:s} with and without the testkeys block-property filter mask (collector configured), tiny blocks so whole blocks are skippable; all iterator ops compared with the model rule 'hidden iff exists r: s <= r < p in suffix order'; range keys always surfaced. "+
			"non-trivial = a masked scan/iterator ran over data in sstables and the model hid at least one point while showing another under a range key; distinct = hash of plan JSON",
		250, 1500,
		func(res Result, ls []string) bool {
			return res.C["masked-points-hidden"] > 0 && hasLabel(ls, "flushed")
		}, nil)
}
